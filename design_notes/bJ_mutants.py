import subprocess, sys, os, re, json
R='/tmp/rJ/handlers/dhcp4_spoofer/'
muts=[
 ("M1","lease.go","ip == subnet.DefaultGW || ","","C11"),
 ("M2","lease.go","l != lease && l.State != StateFree && l.Addr.IP == ip","l != lease && l.State == StateAllocated && l.Addr.IP == ip","C11"),
 ("M3","lease.go","return host != nil && !bytes.Equal(host.MACEntry.MAC, lease.Addr.MAC)","return host != nil && bytes.Equal(host.MACEntry.MAC, lease.Addr.MAC)","C11"),
 ("M4","lease.go","\t\t\tip = lease.subnet.nextIP\n\t\t\tlease.subnet.nextIP = lease.subnet.nextIP.Next()\n\t\t\tbreak\n\t\t}\n\t\tlease.subnet.nextIP = lease.subnet.nextIP.Next()\n\t}\n\tif ip.IsValid() {","\t\t\tip = lease.subnet.nextIP\n\t\t\tbreak\n\t\t}\n\t\tlease.subnet.nextIP = lease.subnet.nextIP.Next()\n\t}\n\tif ip.IsValid() {","C12"),
 ("M5","lease.go","if lease.subnet == subnet && // same subnet object: net1 and net2 may cover the same prefix\n\t\t\tbytes.Equal(lease.Addr.MAC, mac) {","if bytes.Equal(lease.Addr.MAC, mac) {","C12"),
 ("M6","lease.go","lease.State != StateFree && lease.DHCPExpiry.Before(now)","lease.State != StateFree && now.Before(lease.DHCPExpiry)","C18"),
 ("M7","discover.go","if lease.DHCPExpiry.Before(now) { // expired","if !lease.DHCPExpiry.Before(now) { // expired","C11"),
 ("M8","discover.go","if h.inUse(lease, lease.IPOffer) {","if false && h.inUse(lease, lease.IPOffer) {","C11"),
 ("M9","request.go","if lease.State == StateFree || // nothing offered","if false || // nothing offered","C12"),
 ("M10","request.go","\t\t\tlease.DHCPExpiry.Before(time.Now()) {","\t\t\tfalse {","C12"),
 ("M11","request.go","\t\ttaken := h.takenByOther(lease, reqIP)\n\n\t\t// Update session with DHCP details - almost always a new host IP will be setup\n\t\th.session.DHCPv4Update(p.CHAddr(), reqIP, nameEntry)\n","\t\t// Update session with DHCP details - almost always a new host IP will be setup\n\t\th.session.DHCPv4Update(p.CHAddr(), reqIP, nameEntry)\n\t\ttaken := h.takenByOther(lease, reqIP)\n","C11"),
 ("M12","request.go","\tlease.State = StateAllocated\n\tlease.DHCPExpiry","\tlease.State = StateDiscover\n\tlease.DHCPExpiry","C12"),
 ("M13","declinerelease.go","\tlease.Addr.IP = netip.Addr{}\n\tlease.IPOffer = netip.Addr{}\n\treturn nil","\tlease.Addr.IP = netip.Addr{}\n\treturn nil","C12"),
 ("M14","dhcp4.go","if !ok || len(clientID) == 0 {","if !ok {","C18"),
 ("M15","dhcp4.go","func (h *Handler) MinuteTicker(now time.Time) error {\n\th.Lock()\n\tdefer h.Unlock()","func (h *Handler) MinuteTicker(now time.Time) error {","C18"),
 ("M16","request.go","if serverIP != subnet.DHCPServer {","if serverIP != lease.subnet.DHCPServer {","C12"),
]
sel=sys.argv[1:]
env=dict(os.environ, VERIF_REPO='/tmp/rJ', GOFLAGS='-mod=mod', GOPROXY='off', GOSUMDB='off', GOTOOLCHAIN='local')
for mid,f,old,new,prop in muts:
    if sel and mid not in sel: continue
    p=R+f
    src=open(p).read()
    if src.count(old)!=1:
        print(mid,"PATTERN count",src.count(old)); continue
    open(p,'w').write(src.replace(old,new))
    try:
        r=subprocess.run(['./check',prop,'quick'],cwd='/tmp/bJ',env=env,capture_output=True,text=True,timeout=900)
        out=(r.stdout+r.stderr).strip().split('\n')
        last=[l for l in out if l.startswith('VIOLATION') or l.startswith('OK') or 'ERROR' in l][-3:]
        print(mid,prop,' || '.join(last)[:300])
        m=re.search(r'replay=(\S+)',' '.join(last))
        if m and os.path.exists(m.group(1)):
            t=open(m.group(1)).read()
            try:
                j=json.loads(t)
                print('   keys',list(j.keys())[:12])
                for k in ('broken_theorems','theorems_broken','broken','lean'):
                    if k in j: print('   ',k,str(j[k])[:700])
                for k in ('violations','cases','counterexamples','failing','harness'):
                    if k in j: print('   ',k,str(j[k])[:500])
            except Exception as e:
                print('   replay head:',t[:900].replace('\n',' | '))
    finally:
        subprocess.run(['git','-C','/tmp/rJ','checkout','--','.'])
    sys.stdout.flush()
