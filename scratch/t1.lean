import PacketVerif.Gen.TablesGen
import PacketVerif.Lemmas.Tables
import PacketVerif.Spec.TableInv
open PV PV.Model.Tables PV.Model.TablesGo PV.Gen.Tables PV.Spec
#eval (default : MacRec).names.dhcp4.expire
#eval (default : MacRec).manuf
example : (default : MacRec).names.dhcp4.expire = 0 := rfl
