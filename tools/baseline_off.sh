#!/bin/sh
# Runs the repository's own test suite with the verif guard OFF (no -tags verif, no overlay) on a
# scratch copy outside /repo and /verif (the dhcp tests rewrite a tracked YAML file), output bounded:
# handlers/dns_naming contains a test that can spin and log forever on a broken tree.
set -u
export GOFLAGS=-mod=mod GOPROXY=off GOSUMDB=off GOTOOLCHAIN=local
S=$(mktemp -d /tmp/baseline.XXXXXX)
trap 'rm -rf "$S"' EXIT
rsync -a --exclude .git /repo/ "$S/repo/"
cd "$S/repo" || exit 2
go test -json -vet=off -count=1 -timeout 12m ./... 2>/dev/null | grep -E '"Action":"(pass|fail)"' | grep '"Test"' > "$S/events.json"
python3 - "$S/events.json" <<'PY'
import json,sys
base=json.load(open('/root/.vp/BASELINE.json'))
want=set(base['stable_pass'])
got={}
for l in open(sys.argv[1]):
    try: e=json.loads(l)
    except Exception: continue
    got[e['Package']+'::'+e['Test']]=e['Action']
missing=[t for t in sorted(want) if got.get(t)!='pass']
print(f"baseline: {len(want)-len(missing)}/{len(want)} stable tests pass with the guard off")
for t in missing: print("NOT PASSING:",t,got.get(t))
sys.exit(1 if missing else 0)
PY
