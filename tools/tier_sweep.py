#!/usr/bin/env python3
"""tools/tier_sweep.py [-j N] [-o results.jsonl] [-t seconds] JOB...      JOB = Cxx:tier[:seed]   (or `all:tier[:seed]`)

Reliability sweep of the machinery on ONE tree (VERIF_REPO or /repo, unchanged): runs the given checks N at a time,
each bounded by `timeout`, and appends one JSON line per job (property, tier, seed, exit code, verdict line, wall
seconds, load average at the end) to the results file; the full output of every job that is not `OK ... exit 0` is
kept under build/sweeplogs/.  Two jobs of the same property never run at the same time (they share evidence/Cxx.json).
Prints a table at the end; exit 1 when a job was not OK.
"""
import json, os, subprocess, sys, threading, time

V = os.path.dirname(os.path.dirname(os.path.abspath(__file__)))
PROPS = sorted(json.load(open(os.path.join(V, "checks.json"))))


def main():
    a = sys.argv[1:]
    jobs_n, out, bound, jobs = 4, os.path.join(V, "build", "tier_sweep.jsonl"), 2400, []
    while a:
        x = a.pop(0)
        if x == "-j": jobs_n = int(a.pop(0))
        elif x == "-o": out = a.pop(0)
        elif x == "-t": bound = int(a.pop(0))
        else:
            p = x.split(":")
            prop, tier, seed = p[0], p[1] if len(p) > 1 else "quick", p[2] if len(p) > 2 else "1"
            for pr in (PROPS if prop == "all" else [prop]):
                jobs.append((pr, tier, seed))
    os.makedirs(os.path.join(V, "build", "sweeplogs"), exist_ok=True)
    lock, busy, results = threading.Lock(), set(), []

    def worker():
        while True:
            with lock:
                job = next((j for j in jobs if j[0] not in busy), None)
                if job is None:
                    if not jobs: return
                else:
                    jobs.remove(job); busy.add(job[0])
            if job is None:
                time.sleep(1); continue
            prop, tier, seed = job
            t0 = time.time()
            env = dict(os.environ, VERIF_SEED=seed)
            try:
                p = subprocess.run(["timeout", str(bound), os.path.join(V, "check"), prop, tier], cwd=V, env=env,
                                   stdout=subprocess.PIPE, stderr=subprocess.STDOUT, text=True, errors="replace")
                rc, txt = p.returncode, p.stdout
            except Exception as e:   # noqa
                rc, txt = 99, str(e)
            wall = round(time.time() - t0, 1)
            lines = [l for l in txt.splitlines() if l.startswith(("OK ", "VIOLATION "))]
            verdict = "OK" if rc == 0 and any(l.startswith("OK ") for l in lines) else ("TIMEOUT" if rc == 124 else "VIOLATION" if rc == 1 else f"rc={rc}")
            rec = {"property": prop, "tier": tier, "seed": int(seed), "rc": rc, "verdict": verdict, "wall_s": wall,
                   "load1": os.getloadavg()[0], "lines": lines[:6]}
            if verdict != "OK":
                lf = os.path.join(V, "build", "sweeplogs", f"{prop}-{tier}-s{seed}-{int(t0)}.log")
                open(lf, "w").write(txt[-20000:]); rec["log"] = lf
            with lock:
                busy.discard(prop); results.append(rec)
                open(out, "a").write(json.dumps(rec) + "\n")
            print(f"{prop} {tier} seed={seed}: {verdict} rc={rc} wall={wall}s load={rec['load1']:.1f}", flush=True)

    ths = [threading.Thread(target=worker) for _ in range(jobs_n)]
    for t in ths: t.start()
    for t in ths: t.join()
    bad = [r for r in results if r["verdict"] != "OK"]
    print(f"{len(results)} jobs, {len(bad)} not OK")
    for r in bad: print("  ", r["property"], r["tier"], r["seed"], r["verdict"], r.get("log", ""), *r["lines"][:2])
    return 1 if bad else 0


if __name__ == "__main__":
    sys.exit(main())
