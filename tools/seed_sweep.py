#!/usr/bin/env python3
"""tools/seed_sweep.py [ids...] — regression sweep over the recorded seeded changes: apply each patch to /repo,
run the checks that caught it when it was recorded (or the property's own quick check), revert.  Prints one line
per seed; exit 1 if a seed that used to be caught is no longer caught by any of its checks.  /repo must be clean.
--record: write caught_by into the meta.json of a seed that was recorded as missed and is caught now."""
import json, os, subprocess, sys, glob
V = os.path.dirname(os.path.dirname(os.path.abspath(__file__)))
def sh(c): return subprocess.run(c, shell=True, stdout=subprocess.PIPE, stderr=subprocess.STDOUT, text=True)
assert sh("git -C /repo status --porcelain").stdout.strip() == "", "/repo not clean"
RECORD = "--record" in sys.argv
args = [a for a in sys.argv[1:] if a != "--record"]
ids = args or sorted(os.path.basename(d) for d in glob.glob(V + "/seeded/*") if os.path.isdir(d))
bad = 0
for sid in ids:
    d = os.path.join(V, "seeded", sid)
    meta = json.load(open(d + "/meta.json"))
    checks = meta.get("caught_by") or [meta["property"] + " quick"]
    checks = list(dict.fromkeys(checks))[:2]
    if sh(f"git -C /repo apply {d}/patch.diff").returncode != 0:
        print(f"{sid}: PATCH DOES NOT APPLY"); bad += 1; continue
    caught = []
    try:
        for c in checks:
            r = sh(f"cd {V} && ./check {c}")
            if r.returncode == 1 and "VIOLATION property=" in r.stdout:
                caught.append(c + (" (no-failing-input-found)" if all(l.rstrip().endswith("no-failing-input-found") for l in r.stdout.splitlines() if l.startswith("VIOLATION")) else ""))
                break
    finally:
        sh("git -C /repo checkout -- .")
    if RECORD and caught and not meta.get("caught_by"):   # a seed first missed, caught after the machinery was strengthened
        meta["caught_by"] = [c.split(" (")[0] for c in caught]; meta["caught_after_strengthening"] = caught
        json.dump(meta, open(d + "/meta.json", "w"), indent=1)
    print(f"{sid}: {'caught by ' + ', '.join(caught) if caught else 'NOT CAUGHT by ' + ', '.join(checks)}", flush=True)
    if not caught: bad += 1
sys.exit(1 if bad else 0)
