#!/usr/bin/env python3
"""tools/seed_sweep.py [--record] [--jobs N] [--subset] [ids...] — regression sweep over the recorded seeded changes:
apply each patch to the library tree, run the checks that caught it when it was recorded (or the property's own
quick check), revert.  Prints one line per seed; exit 1 if a seed that used to be caught is no longer caught by any
of its checks.  The library tree must be clean.

Library tree: `VERIF_REPO` when set (a scratch copy, as tools/seeded.py and ./check take it), /repo otherwise.
--jobs N   N workers side by side.  A seeded change rewrites the library tree AND the regenerated Lean files of the
           framework (Gen/*.lean, the model driver when a fact it links changed), so two seeds can never share either:
           every worker gets private copies  build/sweep/w<k>/verif  (this framework, .lake included) and
           build/sweep/w<k>/repo  (the library tree at its current content, as a one-commit git repository of its
           own so that `git checkout -- .` reverts), both removed at the end.  The library tree itself is not touched.
--subset   every seed whose meta.json has `caught_after_strengthening` plus every fifth of the others (sorted ids).
--record   write caught_by into the meta.json of a seed that was recorded as missed and is caught now.
--out F    also write one JSON line per seed to F (id, property, checks, caught, wall_s, first VIOLATION lines).
"""
import json, os, shutil, subprocess, sys, glob, threading, time
V = os.path.dirname(os.path.dirname(os.path.abspath(__file__)))
REPO = os.environ.get("VERIF_REPO", "/repo")
GOENV = dict(os.environ, GOFLAGS="-mod=mod", GOPROXY="off", GOSUMDB="off", GOTOOLCHAIN="local")


def sh(c, env=None):
    return subprocess.run(c, shell=True, stdout=subprocess.PIPE, stderr=subprocess.STDOUT, text=True, errors="replace", env=env or GOENV)


def all_ids():
    return sorted(os.path.basename(d) for d in glob.glob(V + "/seeded/*") if os.path.isdir(d))


def subset():
    ids = all_ids()
    st = [i for i in ids if "caught_after_strengthening" in json.load(open(f"{V}/seeded/{i}/meta.json"))]
    rest = [i for i in ids if i not in st]
    return sorted(st + rest[::5])


def one(sid, v, repo, record):
    """apply seed `sid` to `repo`, run its checks with framework `v`, revert; returns the result record"""
    d = os.path.join(V, "seeded", sid)
    meta = json.load(open(d + "/meta.json"))
    checks = meta.get("caught_by") or [meta["property"] + " quick"]
    checks = list(dict.fromkeys(checks))[:2]
    rec = {"id": sid, "property": meta["property"], "checks": checks, "caught": [], "lines": []}
    t0 = time.time()
    if sh(f"git -C {repo} apply {d}/patch.diff").returncode != 0:
        rec["error"] = "PATCH DOES NOT APPLY"; return rec
    try:
        for c in checks:
            r = sh(f"cd {v} && timeout 2400 ./check {c}", env=dict(GOENV, VERIF_REPO=repo))
            vl = [l for l in r.stdout.splitlines() if l.startswith("VIOLATION")]
            if r.returncode == 1 and vl:
                rec["caught"].append(c + (" (no-failing-input-found)" if all(l.rstrip().endswith("no-failing-input-found") for l in vl) else ""))
                rec["lines"] = vl[:3]
                m = vl[0].split("replay=")[1].split()[0]
                if os.path.exists(m): rec["what"] = "".join(open(m).readlines()[1:3])[:400]
                break
            rec["lines"] = [l for l in r.stdout.splitlines() if l.startswith(("OK ", "note:"))][:3] or [r.stdout[-300:]]
    finally:
        sh(f"git -C {repo} checkout -- . && git -C {repo} clean -fdq")
    rec["wall_s"] = round(time.time() - t0, 1)
    if record and rec["caught"] and not meta.get("caught_by"):   # a seed first missed, caught after the machinery was strengthened
        meta["caught_by"] = [c.split(" (")[0] for c in rec["caught"]]; meta["caught_after_strengthening"] = rec["caught"]
        json.dump(meta, open(d + "/meta.json", "w"), indent=1)
    return rec


def make_worker_copies(k):
    base = os.path.join(V, "build", "sweep", f"w{k}")
    shutil.rmtree(base, ignore_errors=True)
    os.makedirs(base)
    v, repo = os.path.join(base, "verif"), os.path.join(base, "repo")
    os.makedirs(v)
    for e in os.listdir(V):
        if e in (".git", "build", "replay", "evidence", "seeded", "audit"): continue
        r = sh(f"cp -a {os.path.join(V, e)} {v}/")
        assert r.returncode == 0, r.stdout
    os.makedirs(repo)
    r = sh(f"cd {REPO} && git ls-files -z | xargs -0 cp -a --parents -t {repo} && cd {repo} && git init -q . && git add -A && "
           "git -c user.name=sweep -c user.email=sweep@localhost commit -qm base")
    assert r.returncode == 0, r.stdout
    return v, repo


def main():
    a = sys.argv[1:]
    record, jobs, out, ids, sub = False, 1, None, [], False
    while a:
        x = a.pop(0)
        if x == "--record": record = True
        elif x == "--jobs": jobs = int(a.pop(0))
        elif x == "--out": out = a.pop(0)
        elif x == "--subset": sub = True
        else: ids.append(x)
    assert sh(f"git -C {REPO} status --porcelain").stdout.strip() == "", REPO + " not clean"
    ids = ids or (subset() if sub else all_ids())
    lock, results = threading.Lock(), []

    def report(rec):
        with lock:
            results.append(rec)
            if out: open(out, "a").write(json.dumps(rec) + "\n")
            if rec.get("error"): print(f"{rec['id']}: {rec['error']}", flush=True)
            else:
                print(f"{rec['id']}: {'caught by ' + ', '.join(rec['caught']) if rec['caught'] else 'NOT CAUGHT by ' + ', '.join(rec['checks'])} ({rec['wall_s']}s)", flush=True)

    if jobs <= 1:
        for sid in ids: report(one(sid, V, REPO, record))
    else:
        queue = list(ids)

        def worker(k):
            v, repo = make_worker_copies(k)
            try:
                while True:
                    with lock:
                        if not queue: return
                        sid = queue.pop(0)
                    report(one(sid, v, repo, record))
            finally:
                shutil.rmtree(os.path.dirname(v), ignore_errors=True)
        ths = [threading.Thread(target=worker, args=(k,)) for k in range(jobs)]
        for t in ths: t.start()
        for t in ths: t.join()
    bad = [r for r in results if not r["caught"]]
    print(f"{len(results)} seeds, {len(bad)} not caught")
    return 1 if bad else 0


if __name__ == "__main__":
    sys.exit(main())
