#!/usr/bin/env python3
"""Regenerate /verif/MANIFEST.json from checks.json + manifest_text.json (level texts) and validate it."""
import json, os, sys
V = os.path.dirname(os.path.dirname(os.path.abspath(__file__)))
checks = json.load(open(os.path.join(V, "checks.json")))
text = json.load(open(os.path.join(V, "manifest_text.json")))
props = [json.loads(l) for l in open(os.path.join(V, "properties.jsonl"))]
m = {
 "version": 1,
 "setup_cmd": "./check setup",
 "hooks": {
  "guard": "verif",
  "enable": "go build -tags verif -overlay build/overlay.json (export files under /verif/overlay are injected into the repo's packages at build time; /repo itself carries no hook code)",
  "baseline_off_cmd": "./tools/baseline_off.sh",
  "source_commits": [],
  "add_only": True
 },
 "engines": [
  {"name": "lean-proofs", "path": "lean/PacketVerif", "serves_properties": sorted(k for k in checks if k in text and checks[k].get("claim", True)), "kind_free_text": "Lean 4 model (Model/*), reference specs (Spec/*), property theorems (Props/Cxx.lean), regenerated facts (Gen/Facts.lean)"},
  {"name": "correspondence-harness", "path": "harness", "serves_properties": sorted(k for k, v in checks.items() if v.get("harness")), "kind_free_text": "Go differential harness: real code (built from /repo with -tags verif + overlay) vs compiled Lean model driver pktmodel, plus property oracles as search stage"},
  {"name": "goextract", "path": "tools/goextract", "serves_properties": sorted(k for k, v in checks.items() if v.get("facts")), "kind_free_text": "go/packages fact translator regenerating Gen/Facts.lean from the source on every run"}
 ],
 "checks": [],
 "notes": text.get("_notes", ""),
 "not_applicable": []
}
for p in props:
    pid = p["id"]
    if pid in checks and pid in text and checks[pid].get('claim', True):
        t = text[pid]
        m["checks"].append({
         "property_id": pid,
         "quick_cmd": f"./check {pid} quick",
         "thorough_cmd": f"./check {pid} thorough",
         "evidence_file": f"/verif/evidence/{pid}.json",
         "replay_cmd_template": "./check replay {path}",
         "engine": "lean-proofs+correspondence-harness",
         "level_claimed": {"category": checks[pid].get("level", "proof"), "text": t["text"], "design_ref": t.get("design_ref", "DESIGN.md §4 " + pid)},
         "level_note": t["note"],
         "technique": t["technique"]
        })
    else:
        m["not_applicable"].append({"property_id": pid, "reason": text.get("_na", {}).get(pid, "not claimed yet: model, theorems and correspondence for this property are not built in this revision (work in progress, see DESIGN.md §8); no check is registered rather than claiming unverified coverage")})
json.dump(m, open(os.path.join(V, "MANIFEST.json"), "w"), indent=1)
try:
    import jsonschema
    jsonschema.validate(m, json.load(open("/root/.vp/MANIFEST.schema.json")))
    print("MANIFEST.json valid;", len(m["checks"]), "checks,", len(m["not_applicable"]), "not claimed")
except ImportError:
    print("jsonschema not available; written without validation")
