import json,subprocess,sys
p=sys.argv[1]
def stage(n): return json.loads(subprocess.run(['git','show',f':{n}:{p}'],capture_output=True,text=True).stdout)
b,o,t=stage(1),stage(2),stage(3)
def merge(b,o,t,path):
    if o==t: return o
    if o==b: return t
    if t==b: return o
    if isinstance(o,dict) and isinstance(t,dict):
        b=b if isinstance(b,dict) else {}
        return {k:merge(b.get(k),o.get(k,b.get(k)),t.get(k,b.get(k)),path+[k]) for k in list(o)+[k for k in t if k not in o]}
    if isinstance(o,str) and isinstance(t,str) and isinstance(b,str):
        # common prefix with base; append both tails
        import os
        pre=os.path.commonprefix([b,o,t])
        if o.startswith(b) and t.startswith(b): return b+o[len(b):]+t[len(b):]
        # sentence-level three-way merge: ours' order; drop sentences theirs removed; append sentences theirs added
        import re
        sp=lambda x:[y for y in re.split(r'(?<=[.;])\s+',x) if y]
        bs,os_,ts=sp(b),sp(o),sp(t)
        out=[x for x in os_ if x in ts or x not in bs]+[x for x in ts if x not in os_ and x not in bs]
        print('SENTENCE-MERGED',path,file=sys.stderr); return ' '.join(out)
    if isinstance(o,list) and isinstance(t,list):
        bb=b if isinstance(b,list) else []
        # three-way: keep ours unless theirs removed it; add what theirs added
        return [x for x in o if x in t or x not in bb]+[x for x in t if x not in o and x not in bb]
    print('MANUAL',path,file=sys.stderr); return o
m=merge(b,o,t,[])
json.dump(m,open(p,'w'),indent=1,ensure_ascii=False); print('merged',p)
