#!/usr/bin/env python3
"""Developer helper for harness/sched: build the harness against $VERIF_REPO (overlay + verif tag, like ./check does)
and evaluate schedule-search lines on the real code only:   tools/sched_dev.py <prop> [<scenario> <variant> <seed>]...
Without scenario arguments every scenario registered for the property is run once (quick tier Gen is NOT run)."""
import importlib.machinery, importlib.util, os, subprocess, sys, tempfile
V = os.path.dirname(os.path.dirname(os.path.abspath(__file__)))
ld = importlib.machinery.SourceFileLoader("check", os.path.join(V, "check"))
spec = importlib.util.spec_from_loader("check", ld); chk = importlib.util.module_from_spec(spec); ld.exec_module(chk)
ok, out = chk.build_harness(race="-race" in sys.argv)
if not ok: print(out[-3000:]); sys.exit(2)
args = [a for a in sys.argv[1:] if a != "-race"]
prop = args[0]; rest = args[1:]
hbin = chk.HARNESS + ("-race" if "-race" in sys.argv else "") + f".{os.getpid()}"
lines = [f"sched.run {rest[i]} {rest[i+1]} {rest[i+2]}" for i in range(0, len(rest) - 2, 3)]
with tempfile.NamedTemporaryFile("w", suffix=".ops", delete=False) as f:
    f.write(f"# property={prop}\n" + "\n".join(lines) + "\n"); rp = f.name
try:
    rj = rp + ".json"
    subprocess.call([hbin, "-prop", prop, "-model", chk.MODEL, "-replay", rp, "-out", rj, "-corpus", os.path.join(V, "corpus", prop)], cwd=V)
finally:
    for p in (rp, rp + ".json", hbin):
        if os.path.exists(p): os.remove(p)
