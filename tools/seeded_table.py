#!/usr/bin/env python3
"""Rewrites the section '### 10.4 Seeded changes' of DESIGN.md from seeded/*/meta.json."""
import json, os, re, glob
V = os.path.dirname(os.path.dirname(os.path.abspath(__file__)))
rows = []
for m in sorted(glob.glob(os.path.join(V, "seeded/*/meta.json"))):
    d = json.load(open(m))
    what = " ".join(d.get("meta", "").split())[:230]
    ran = "; ".join(f"`{r['check']}` → {'VIOLATION' + (' (no concrete input)' if any('no-failing-input-found' in l for l in r['lines']) else '') if r['exit'] == 1 else 'missed'}" for r in d["ran"])
    ok = all(d.get(k) for k in ["builds", "existing_tests_pass_with_change", "demo_fails_with_change", "demo_passes_without_change"])
    rows.append(f"| {d['id']} | {d['property']} | {what} | {'yes' if ok else 'NO'} | {ran} |")
sec = ("### 10.4 Seeded changes (independent sub-agents, given only the property text and a scratch worktree)\n\n"
       "Each change compiles, passes the repository's existing tests and breaks the property only under a specific\n"
       "condition; `confirmed` = I re-ran build + existing tests + demonstration (fails with / passes without) in a\n"
       "scratch worktree (`tools/seeded.py`).  Where a check first missed a seed the generator/oracle was strengthened\n"
       "(noted in the commit log) and the table shows the final result.\n\n"
       "| id | property | change / what it needs to manifest | confirmed | our checks |\n|---|---|---|---|---|\n" + "\n".join(rows) + "\n")
p = os.path.join(V, "DESIGN.md")
s = open(p).read()
if "### 10.4 Seeded changes" in s:
    s = re.sub(r"### 10\.4 Seeded changes.*?(?=\n### |\n## |\Z)", sec, s, flags=re.S)
else:
    s = s.rstrip() + "\n\n" + sec
open(p, "w").write(s)
print(len(rows), "seeded changes tabulated")
