package main

// F11 extension (builder C, session 6): the part of the loop translator that lets more of fastlog/logging.go be
// regenerated — `Int`, `Module`/`newModule`, `StringArray`, `IPSlice`, `IPArray`, `IP`, `Duration`, `Error`.
//
//	types        []string → List Bytes, []net.IP (a slice of byte slices) → List (Option Bytes) (an element can be nil),
//	             a byte-slice variable that the function compares with nil → Option Bytes (read through `nilBytes`:
//	             a nil slice has length 0), netip.Addr → Bytes (the bytes `AsSlice` returns: 4, 16, or none when the
//	             address is invalid — the representation tools/goextract/encoders.go uses), int64 / time.Duration → Int
//	             (same `intNoOverflow` assumption as int), a parameter of type error → Bytes (the text `Error()` returns)
//	expressions  s == t / s != t on strings (byte-wise equality), x == nil / x != nil on a nil-able byte slice,
//	             xs[i] on a []string / []net.IP value and on a package-level `var t = []string{…}` table that is never
//	             assigned (→ a generated constant), len(xs), make([]byte, n, c) for a variable that is never re-sliced
//	             (the capacity is then unobservable)
//	statements   for _, v := range xs over []string / []net.IP, `return l.M(args)` for a translated *Line method,
//	             b := a.AppendTo(l.buffer[lo:hi]) (→ appendAtI)
//	callees      a FIXED list of standard-library functions is replaced by the model function that mirrors them (the
//	             mapping is emitted as `loopCallees` and pinned by C20Tie.callees_accounted; the mirrors are validated
//	             against the standard library by the correspondence run): strconv.AppendInt(dst, int64(v), 10),
//	             net.IP.To4, netip.Addr.IsValid, netip.Addr.AppendTo, time.Duration.String, error.Error

import (
	"fmt"
	"go/ast"
	"go/constant"
	"go/token"
	"go/types"
	"sort"
	"strings"
)

const lpOptBytes = "Option Bytes"
const lpListBytes = "List Bytes"
const lpListOpt = "List (Option Bytes)"

// the standard-library callees the translator replaces by a model function: Go name → Lean rendering
var lpCalleeMap = map[string]string{
	"strconv.AppendInt":         "dst ++ PV.Model.Fastlog.fmtInt64 v  (base 10 only)",
	"(net.IP).To4":              "PV.Model.Fastlog.to4",
	"(net/netip.Addr).IsValid":  "length = 4 ∨ length = 16  (the address is given by its AsSlice bytes)",
	"(net/netip.Addr).AppendTo": "appendAtI … (PV.Model.Fastlog.netipText a)",
	"(time.Duration).String":    "PV.Model.Fastlog.durationText",
	"(error).Error":             "the parameter itself (an error argument is given by its text)",
}

func isByteSliceNonString(ty types.Type) bool {
	if s, ok := ty.Underlying().(*types.Slice); ok {
		b, ok := s.Elem().Underlying().(*types.Basic)
		return ok && b.Kind() == types.Uint8
	}
	return false
}

func isNamed(ty types.Type, pkg, name string) bool {
	n, ok := ty.(*types.Named)
	if !ok || n.Obj().Name() != name {
		return false
	}
	if pkg == "" {
		return n.Obj().Pkg() == nil
	}
	return n.Obj().Pkg() != nil && n.Obj().Pkg().Path() == pkg
}

// Lean type of the extension types, "" when not one of them
func lpExtTy(ty types.Type) string {
	if s, ok := ty.Underlying().(*types.Slice); ok {
		if b, ok := s.Elem().Underlying().(*types.Basic); ok && b.Kind() == types.String {
			return lpListBytes
		}
		if isByteSliceNonString(s.Elem()) {
			return lpListOpt
		}
	}
	if isNamed(ty, "net/netip", "Addr") {
		return "Bytes"
	}
	if b, ok := ty.Underlying().(*types.Basic); ok && b.Kind() == types.Int64 {
		return "Int"
	}
	return ""
}

func lpIsList(lt string) bool { return lt == lpListBytes || lt == lpListOpt }

// the Lean type of a VARIABLE: its type's, except that a byte slice compared with nil is an Option and an `error`
// parameter is its text
func (t *lpTr) varTy(v *types.Var) string {
	if t.nilable[v] {
		return lpOptBytes
	}
	if t.errParam[v] {
		return "Bytes"
	}
	return t.leanTy(v.Type())
}

func (t *lpTr) flIsNil(e ast.Expr) bool {
	tv, ok := t.info.Types[paren(e)]
	return ok && tv.IsNil()
}

// which byte-slice variables must carry the nil / non-nil distinction
// fl: the forms of this file apply to the base run of the translator (Gen/Loops.lean) only; the option/TLV mode
// (loops_opts.go, g.ext != nil) and the DNS mode (loops_dns.go, dnsTy != nil) have their own renderings of the same Go
// constructs (x == nil as a length test, []net.IP as List Bytes, …) and their tie theorems depend on them
func (t *lpTr) fl() bool { return t.g.ext == nil && t.dnsTy == nil }

func (t *lpTr) scanNilable() {
	t.nilable = map[*types.Var]bool{}
	t.errParam = map[*types.Var]bool{}
	if !t.fl() {
		return
	}
	ast.Inspect(t.fd, func(x ast.Node) bool {
		switch s := x.(type) {
		case *ast.BinaryExpr:
			if s.Op == token.EQL || s.Op == token.NEQ {
				for _, pr := range [][2]ast.Expr{{s.X, s.Y}, {s.Y, s.X}} {
					if t.flIsNil(pr[1]) {
						if v := t.varOf(pr[0]); v != nil && isByteSliceNonString(v.Type()) {
							t.nilable[v] = true
						}
					}
				}
			}
		case *ast.RangeStmt:
			if s.Value != nil {
				if id, ok := s.Value.(*ast.Ident); ok {
					if v, ok := t.info.Defs[id].(*types.Var); ok && isByteSliceNonString(v.Type()) {
						if xt := t.info.TypeOf(s.X); xt != nil && lpExtTy(xt) == lpListOpt {
							t.nilable[v] = true
						}
					}
				}
			}
		}
		return true
	})
}

// callee of a call expression as a display name ("strconv.AppendInt", "(net.IP).To4"), "" when not a function
func (t *lpTr) calleeName(c *ast.CallExpr) (string, *ast.SelectorExpr) {
	sel, ok := paren(c.Fun).(*ast.SelectorExpr)
	if !ok {
		return "", nil
	}
	f, ok := t.info.Uses[sel.Sel].(*types.Func)
	if !ok {
		return "", nil
	}
	sig := f.Type().(*types.Signature)
	if r := sig.Recv(); r != nil {
		ty := r.Type()
		if p, ok := ty.(*types.Pointer); ok {
			ty = p.Elem()
		}
		if n, ok := ty.(*types.Named); ok {
			if n.Obj().Pkg() == nil {
				return "(" + n.Obj().Name() + ")." + f.Name(), sel
			}
			return "(" + n.Obj().Pkg().Path() + "." + n.Obj().Name() + ")." + f.Name(), sel
		}
		// method of an interface embedded in the universe (`error`)
		if _, ok := ty.Underlying().(*types.Interface); ok && f.Pkg() == nil {
			return "(error)." + f.Name(), sel
		}
		return "", sel
	}
	if f.Pkg() != nil {
		return f.Pkg().Path() + "." + f.Name(), sel
	}
	return "", sel
}

func (t *lpTr) useCallee(name string) { t.g.calleesUsed[name] = true }

// a nil-able byte-slice expression as a Lean `Option Bytes`
func (t *lpTr) optExpr(e ast.Expr, b *lpBinds) string {
	e = paren(e)
	if t.flIsNil(e) {
		return "(none : Option Bytes)"
	}
	switch x := e.(type) {
	case *ast.Ident:
		if v := t.varOf(x); v != nil && t.isLocal(v) && t.nilable[v] {
			return lpName(v.Name())
		}
	case *ast.CallExpr:
		if name, sel := t.calleeName(x); name == "(net.IP).To4" && len(x.Args) == 0 {
			t.useCallee(name)
			return "(PV.Model.Fastlog.to4 " + t.bytesExpr(sel.X, b) + ")"
		}
	}
	t.refuse(e, "expression %s as a nil-able byte slice", nodeText(e))
	return ""
}

// calls that yield a byte sequence through the callee map
func (t *lpTr) extBytesCall(x *ast.CallExpr, b *lpBinds) (string, bool) {
	if !t.fl() {
		return "", false
	}
	name, sel := t.calleeName(x)
	switch name {
	case "strconv.AppendInt":
		if len(x.Args) == 3 {
			if base, ok := t.constInt(x.Args[2]); ok && base == 10 {
				dst := t.bytesExpr(x.Args[0], b)
				v := t.expr(x.Args[1], b)
				t.useCallee(name)
				return "(" + dst + " ++ PV.Model.Fastlog.fmtInt64 " + v + ")", true
			}
		}
		t.refuse(x, "strconv.AppendInt with a base other than the constant 10")
	case "(net.IP).To4":
		return "(nilBytes " + t.optExpr(x, b) + ")", true
	case "(time.Duration).String":
		if len(x.Args) == 0 {
			t.useCallee(name)
			return "(PV.Model.Fastlog.durationText " + t.expr(sel.X, b) + ")", true
		}
	case "(error).Error":
		if v := t.varOf(sel.X); v != nil && t.errParam[v] && len(x.Args) == 0 {
			t.useCallee(name)
			return lpName(v.Name()), true
		}
	}
	return "", false
}

// xs[i] where xs is a []string / []net.IP local or a package-level []string table
func (t *lpTr) listIndex(x *ast.IndexExpr, b *lpBinds) (string, string, bool) {
	if !t.fl() {
		return "", "", false
	}
	bt := t.info.TypeOf(x.X)
	if bt == nil {
		return "", "", false
	}
	lt := lpExtTy(bt)
	if !lpIsList(lt) {
		return "", "", false
	}
	id, ok := paren(x.X).(*ast.Ident)
	if !ok {
		t.refuse(x, "index of %s", nodeText(x.X))
	}
	v := t.varOf(id)
	if v == nil {
		t.refuse(x, "identifier %s is not a variable", id.Name)
	}
	base := ""
	if t.isLocal(v) {
		base = lpName(v.Name())
	} else {
		if lt != lpListBytes {
			t.refuse(x, "package-level table %s of type %s", v.Name(), v.Type())
		}
		base = t.g.strTable(t, v, x)
	}
	i := t.intExpr(x.Index, b)
	n := t.tmp()
	b.add(fmt.Sprintf("let %s ← idxL %s %s", n, base, i))
	if lt == lpListOpt {
		return n, lpOptBytes, true
	}
	return n, "Bytes", true
}

// package-level `var t = []string{…}` table → generated constant (same conditions as the []byte tables)
func (g *lpGen) strTable(t *lpTr, v *types.Var, at ast.Node) string {
	if n, ok := g.tables[v]; ok {
		return n
	}
	if v.Pkg() == nil || v.Parent() != v.Pkg().Scope() {
		t.refuse(at, "%s is not a package-level table", v.Name())
	}
	p := g.pkgs[v.Pkg().Path()]
	if p == nil {
		t.refuse(at, "package of %s not loaded", v.Name())
	}
	var lit *ast.CompositeLit
	for _, f := range p.Syntax {
		ast.Inspect(f, func(x ast.Node) bool {
			switch s := x.(type) {
			case *ast.ValueSpec:
				for i, id := range s.Names {
					if p.TypesInfo.Defs[id] == v && i < len(s.Values) {
						if cl, ok := s.Values[i].(*ast.CompositeLit); ok {
							lit = cl
						}
					}
				}
			case *ast.AssignStmt:
				for _, l := range s.Lhs {
					var root ast.Expr = l
					for {
						switch y := paren(root).(type) {
						case *ast.IndexExpr:
							root = y.X
							continue
						case *ast.SliceExpr:
							root = y.X
							continue
						}
						break
					}
					if id, ok := paren(root).(*ast.Ident); ok && p.TypesInfo.Uses[id] == v {
						t.refuse(at, "package-level table %s is assigned somewhere", v.Name())
					}
				}
			case *ast.UnaryExpr:
				if s.Op == token.AND {
					if id, ok := paren(s.X).(*ast.Ident); ok && p.TypesInfo.Uses[id] == v {
						t.refuse(at, "address of package-level table %s is taken", v.Name())
					}
				}
			}
			return true
		})
	}
	if lit == nil {
		t.refuse(at, "package-level variable %s has no []string{…} initialiser", v.Name())
	}
	var parts []string
	for _, el := range lit.Elts {
		if _, kv := el.(*ast.KeyValueExpr); kv {
			t.refuse(at, "keyed element in table %s", v.Name())
		}
		tv, ok := p.TypesInfo.Types[el]
		if !ok || tv.Value == nil || tv.Value.Kind() != constant.String {
			t.refuse(at, "non-constant element in table %s", v.Name())
		}
		s := constant.StringVal(tv.Value)
		bs := make([]string, len(s))
		for i := 0; i < len(s); i++ {
			bs[i] = fmt.Sprintf("%d", s[i])
		}
		parts = append(parts, "["+strings.Join(bs, ", ")+"]")
	}
	name := "genTbl_" + v.Name()
	g.tables[v] = name
	var sb strings.Builder
	fmt.Fprintf(&sb, "/-- Go: var %s = []string{…} (%s), never assigned -/\ndef %s : List Bytes := [\n", v.Name(), v.Pkg().Name(), name)
	for i := 0; i < len(parts); i += 16 {
		j := i + 16
		if j > len(parts) {
			j = len(parts)
		}
		sep := ","
		if j == len(parts) {
			sep = "]"
		}
		sb.WriteString("  " + strings.Join(parts[i:j], ", ") + sep + "\n")
	}
	if len(parts) == 0 {
		sb.WriteString("  ]\n")
	}
	g.tableDefs = append(g.tableDefs, sb.String())
	return name
}

// conditions of the extension: nil tests, string equality, netip.Addr.IsValid
func (t *lpTr) flCond(e ast.Expr, b *lpBinds) (string, bool) {
	if !t.fl() {
		return "", false
	}
	switch x := e.(type) {
	case *ast.BinaryExpr:
		if x.Op != token.EQL && x.Op != token.NEQ {
			return "", false
		}
		op := "="
		if x.Op == token.NEQ {
			op = "≠"
		}
		if t.flIsNil(x.Y) || t.flIsNil(x.X) {
			other := x.X
			if t.flIsNil(x.X) {
				other = x.Y
			}
			return "(" + t.optExpr(other, b) + " " + op + " none)", true
		}
		lt, rt := t.info.TypeOf(x.X), t.info.TypeOf(x.Y)
		if lt != nil && rt != nil {
			lb, lok := lt.Underlying().(*types.Basic)
			rb, rok := rt.Underlying().(*types.Basic)
			if lok && rok && lb.Info()&types.IsString != 0 && rb.Info()&types.IsString != 0 {
				l := t.bytesExpr(x.X, b)
				r := t.bytesExpr(x.Y, b)
				return "(" + l + " " + op + " " + r + ")", true
			}
		}
	case *ast.CallExpr:
		if name, sel := t.calleeName(x); name == "(net/netip.Addr).IsValid" && len(x.Args) == 0 {
			v := t.varOf(sel.X)
			if v == nil || !t.isLocal(v) {
				t.refuse(e, "IsValid on %s", nodeText(sel.X))
			}
			t.useCallee(name)
			n := lpName(v.Name())
			return fmt.Sprintf("(((%s.length : Int) = (4 : Int)) ∨ ((%s.length : Int) = (16 : Int)))", n, n), true
		}
	}
	return "", false
}

// b := a.AppendTo(l.buffer[lo:hi])
func (t *lpTr) extDefine(v *types.Var, rhs ast.Expr, b *lpBinds) bool {
	if !t.fl() {
		return false
	}
	c, ok := paren(rhs).(*ast.CallExpr)
	if !ok {
		return false
	}
	name, sel := t.calleeName(c)
	if name != "(net/netip.Addr).AppendTo" || len(c.Args) != 1 {
		return false
	}
	av := t.varOf(sel.X)
	if av == nil || !t.isLocal(av) {
		t.refuse(rhs, "AppendTo on %s", nodeText(sel.X))
	}
	dst, ok := paren(c.Args[0]).(*ast.SliceExpr)
	if !ok || dst.Slice3 || dst.Low == nil || dst.High == nil {
		t.refuse(rhs, "AppendTo destination must be l.buffer[lo:hi]")
	}
	bsel, ok := paren(dst.X).(*ast.SelectorExpr)
	if !ok {
		t.refuse(rhs, "AppendTo destination %s", nodeText(dst.X))
	}
	f, ok := t.lineField(bsel)
	if !ok || bsel.Sel.Name != "buffer" {
		t.refuse(rhs, "AppendTo destination %s", nodeText(dst.X))
	}
	if t.leanTy(v.Type()) != "Bytes" {
		t.refuse(rhs, "AppendTo result of type %s", v.Type())
	}
	l := lpName(t.varOf(bsel.X).Name())
	lo := t.intExpr(dst.Low, b)
	hi := t.intExpr(dst.High, b)
	nb := t.tmp()
	t.useCallee(name)
	b.add(fmt.Sprintf("let (%s, %s) ← appendAtI %s %s %s (PV.Model.Fastlog.netipText %s)", nb, lpName(v.Name()), f, lo, hi, lpName(av.Name())))
	b.add(fmt.Sprintf("let %s : GLine := { %s with buf := %s }", l, l, nb))
	return true
}

// make([]byte, n, c): the capacity is unobservable when the variable is never the operand of a slice expression
func (t *lpTr) neverResliced(v *types.Var) bool {
	ok := true
	ast.Inspect(t.fd, func(x ast.Node) bool {
		if s, is := x.(*ast.SliceExpr); is && t.rootVar(s.X) == v {
			ok = false
		}
		return true
	})
	return ok
}

func lpCalleesText(used map[string]bool) string {
	var names []string
	for n := range used {
		names = append(names, n)
	}
	sort.Strings(names)
	var rows []string
	for _, n := range names {
		rows = append(rows, fmt.Sprintf("  (%q, %q)", n, lpCalleeMap[n]))
	}
	return "/-- standard-library callees replaced by the model function that mirrors them: (Go name, Lean rendering) -/\ndef loopCallees : List (String × String) := [\n" + strings.Join(rows, ",\n") + "]\n\n"
}
