package main

// F15: the BODIES of the send paths, translated into Lean source (Gen/Senders.lean, regenerated on every run;
// Props/C07SendTie.lean proves each generated function equal to the hand-written send-path model of
// Model/Encode.lean that the frame theorems of Props/C07.lean are about).
//
// Candidates are found, not listed: every function of the loaded packages (packet and handlers/...) whose body takes
// a frame buffer from the pool (`EtherBufferPool.Get()`).  A candidate is translated only if EVERY statement has one
// of the forms below; otherwise it is listed in `sendersUntranslated` with the first offending construct.
//
// A send path is a straight-line composition of the in-place encoders of F7.  The translation is an extension of the
// encoder translator (same expression / store forms, same memory primitives) with:
//
//	pool buffer      b := [packet.]EtherBufferPool.Get().(*[N]byte)      → the function's first argument (g : Mem), any contents
//	                 defer [packet.]EtherBufferPool.Put(b)               → ignored (listed in `sendersIgnored`)
//	                 ether := [packet.]Ether(b[lo:hi])                   → whole m / (whole m).reslice m lo hi
//	encoder calls    x = EncodeT(dst, args…) / x.SetPayload(..) / x.AppendPayload(..) of a TRANSLATED encoder
//	                                                                     → let (m, x) ← Gen.Enc.<T> m dst args…
//	                 x, err = call; if err != nil { return err }         → the same bind (the Outcome monad propagates .err)
//	                 if x, err = call; err != nil { return err }         → the same
//	                 x, _ = call  (error dropped: x becomes nil)         → let (m, x) ← keepNil m (call)
//	                 an encoder that may return nil (EncodeUDP)          → let (m, t) ← call; let x := orNil m t
//	                 ether.Payload()                                     → let t ← etherPayloadSl m ether; orNil m t
//	                 a pool slice passed as a read-only payload argument → (x.bytes m)
//	other buffers    a []byte parameter that is written, x := make([]byte, n): a memory of its own named like the Go
//	                 variable (x : Mem, its slice is `whole x`); stores x[i] = e, copy(x[a:b], src), copy(x[a:], src),
//	                 PutUint16/PutUint32(x[a:b], v) on it
//	session data     h.…NICInfo.HostAddr4.MAC, package-level variables (ssdpIPv4Addr.MAC, mSearchString) → extra arguments
//	checksum         ICMP(x).SetChecksum(Checksum(y))                    → Gen.Send.ICMP_SetChecksum (its own body, regenerated) of `checksum y`
//	hop limit        if a.IsLinkLocalUnicast() || a.IsLinkLocalMulticast() { v = C } → let v := if isLLUorLLM a then C else v
//	getters          x.Src().AsSlice() with Src = `return netip.AddrFrom16(*(*[16]byte)(p[a:b]))` → let t ← x.reslice m a b; (t.bytes m)
//	transmission     [_, err :=|=] conn.WriteTo(frame, …)                → pure (frame.bytes m)  (the function's value: the frame written)
//	                 what follows may only test / return the error of WriteTo
//
// A nil slice is represented by `nilSl m` = the empty slice at the end of the memory (len 0, cap 0): every operation of
// the memory model behaves on it as Go does on nil (index / re-slice beyond 0 panics, copy copies nothing, cap-guards fail).

import (
	"fmt"
	"go/ast"
	"go/constant"
	"go/token"
	"go/types"
	"sort"
	"strings"

	"golang.org/x/tools/go/packages"
)

type sendTr struct {
	*encTr
	encs      map[string]encResult
	extra     []string
	extraSeen map[string]bool
	ignored   map[string]bool
	dict      map[string]bool
	pool      types.Object
	recv      types.Object
	own       map[types.Object]bool // byte buffers that are a memory of their own
	sent      bool
	callMem   *evar                       // set by encCall when the destination of the call is a buffer of its own
	wrapper   bool                        // no pool buffer of its own: the function ends in a call of a translated send path
	senders   map[*types.Func]*sendResult // translated send paths (callable from wrappers)
}

func (t *sendTr) extraParam(name, ty string) string {
	name = leanName(name)
	if !t.extraSeen[name] {
		t.extraSeen[name] = true
		t.extra = append(t.extra, fmt.Sprintf("(%s : %s)", name, ty))
	}
	return name
}

// isPoolGet: [pkg.]EtherBufferPool.Get().(*[N]byte)
func isPoolGet(e ast.Expr) bool {
	ta, ok := paren(e).(*ast.TypeAssertExpr)
	if !ok {
		return false
	}
	c, ok := ta.X.(*ast.CallExpr)
	if !ok {
		return false
	}
	s := exprStr(c.Fun)
	return s == "EtherBufferPool.Get" || s == "packet.EtherBufferPool.Get"
}

// isFrameAlloc: [packet.]Ether(make([]byte, N)) — a frame buffer that is allocated instead of taken from the pool
func (t *sendTr) isFrameAlloc(e ast.Expr) (string, bool) {
	c, ok := paren(e).(*ast.CallExpr)
	if !ok || len(c.Args) != 1 {
		return "", false
	}
	if tv, ok := t.info.Types[c.Fun]; !ok || !tv.IsType() || !isByteSlice(tv.Type) {
		return "", false
	}
	mk, ok := paren(c.Args[0]).(*ast.CallExpr)
	if !ok || len(mk.Args) != 2 {
		return "", false
	}
	if id, ok := mk.Fun.(*ast.Ident); !ok || id.Name != "make" {
		return "", false
	}
	n, ok := t.constVal(mk.Args[1])
	return n, ok
}

// sessionPath: a selector chain rooted at the receiver or at a package-level variable; returns the argument name
func (t *sendTr) sessionPath(e ast.Expr, field ...string) (string, bool) {
	names := append([]string{}, field...)
	cur := paren(e)
	for {
		switch x := cur.(type) {
		case *ast.SelectorExpr:
			names = append([]string{x.Sel.Name}, names...)
			cur = paren(x.X)
			continue
		case *ast.Ident:
			o := t.info.Uses[x]
			if o == nil {
				return "", false
			}
			if _, isPkg := o.(*types.PkgName); isPkg {
				// packet.X…: the first selector is the package-level variable
				if len(names) == 0 {
					return "", false
				}
			} else if o == t.recv {
				if len(names) == 0 {
					return "", false
				}
				if len(names) > 2 {
					names = names[len(names)-2:]
				}
			} else if v, ok := o.(*types.Var); ok && v.Parent() == v.Pkg().Scope() {
				names = append([]string{x.Name}, names...)
			} else {
				return "", false
			}
			return strings.Join(names, "_"), true
		}
		return "", false
	}
}

func (t *sendTr) bytesArg(e ast.Expr) (string, error) {
	e = paren(e)
	if s, ok := t.marshalBytesArg(e); ok { // senders_marshal.go: h.NICInfo.HostLLA.Addr()
		return s, nil
	}
	if c, ok := e.(*ast.CallExpr); ok && len(c.Args) == 1 {
		if tv, ok := t.info.Types[c.Fun]; ok && tv.IsType() && isByteSlice(tv.Type) {
			if av, ok := t.info.Types[c.Args[0]]; ok && av.Value != nil && av.Value.Kind() == constant.String {
				var bs []string
				for _, ch := range []byte(constant.StringVal(av.Value)) {
					bs = append(bs, fmt.Sprint(ch))
				}
				return "([" + strings.Join(bs, ", ") + "] : Bytes)", nil
			}
		}
	}
	if v := t.slOf(e); v != nil {
		return "(" + v.lean + ".bytes m)", nil
	}
	{
		var id *ast.Ident
		switch x := e.(type) {
		case *ast.Ident:
			id = x
		case *ast.SelectorExpr:
			if pk, ok := x.X.(*ast.Ident); ok {
				if _, isPkg := t.info.Uses[pk].(*types.PkgName); isPkg {
					id = x.Sel
				}
			}
		}
		if id != nil {
			if lit, ok := rootByteVars[t.info.Uses[id]]; ok {
				t.dict["package-level address variables of package packet = their initialisers"] = true
				return lit, nil
			}
		}
	}
	ty := t.info.TypeOf(e)
	if isByteSlice(ty) || isNetipAddr(ty) {
		if _, isSel := e.(*ast.SelectorExpr); isSel {
			if _, _, ok := t.fieldExpr(e); !ok {
				if n, ok := t.sessionPath(e); ok {
					return t.extraParam(n, "Bytes"), nil
				}
			}
		}
		if id, isId := e.(*ast.Ident); isId {
			if v, _ := t.obj(id); v == nil {
				if n, ok := t.sessionPath(e); ok {
					return t.extraParam(n, "Bytes"), nil
				}
			}
		}
	}
	// x.Src().AsSlice() with an address getter of the form `return netip.AddrFromN(*(*[N]byte)(p[a:b]))`
	if c, ok := e.(*ast.CallExpr); ok && len(c.Args) == 0 {
		if sel, ok := c.Fun.(*ast.SelectorExpr); ok && sel.Sel.Name == "AsSlice" {
			if ic, ok := paren(sel.X).(*ast.CallExpr); ok && len(ic.Args) == 0 {
				if isel, ok := ic.Fun.(*ast.SelectorExpr); ok {
					if base := t.slOf(isel.X); base != nil {
						if a, b, ok := t.addrGetter(isel); ok {
							x := t.fresh()
							t.emit("let %s ← %s.reslice m %s %s", x, base.lean, a, b)
							return "(" + x + ".bytes m)", nil
						}
					}
				}
			}
		}
	}
	return t.bytesVal(e)
}

// addrGetter: method `func (p T) G() netip.Addr { return netip.AddrFrom16(*(*[16]byte)(p[a:b])) }` → (a, b)
func (t *sendTr) addrGetter(sel *ast.SelectorExpr) (string, string, bool) {
	fn, ok := t.info.Uses[sel.Sel].(*types.Func)
	if !ok {
		return "", "", false
	}
	r := fn.Type().(*types.Signature).Recv()
	if r == nil {
		return "", "", false
	}
	n, ok := r.Type().(*types.Named)
	if !ok {
		return "", "", false
	}
	root := rootPackage
	fd := findFunc(root, n.Obj().Name(), fn.Name())
	if fd == nil || fd.Body == nil || len(fd.Body.List) != 1 {
		return "", "", false
	}
	rs, ok := fd.Body.List[0].(*ast.ReturnStmt)
	if !ok || len(rs.Results) != 1 {
		return "", "", false
	}
	c, ok := paren(rs.Results[0]).(*ast.CallExpr)
	if !ok || len(c.Args) != 1 || (exprStr(c.Fun) != "netip.AddrFrom16" && exprStr(c.Fun) != "netip.AddrFrom4") {
		return "", "", false
	}
	var sl *ast.SliceExpr
	ast.Inspect(c.Args[0], func(n ast.Node) bool {
		if s, ok := n.(*ast.SliceExpr); ok && sl == nil {
			sl = s
		}
		return true
	})
	if sl == nil || sl.Low == nil || sl.High == nil || sl.Slice3 {
		return "", "", false
	}
	ri := root.TypesInfo
	lo, ok1 := ri.Types[sl.Low]
	hi, ok2 := ri.Types[sl.High]
	if !ok1 || !ok2 || lo.Value == nil || hi.Value == nil {
		return "", "", false
	}
	want := map[string]string{"netip.AddrFrom16": "16", "netip.AddrFrom4": "4"}[exprStr(c.Fun)]
	var a, b int
	fmt.Sscan(lo.Value.ExactString(), &a)
	fmt.Sscan(hi.Value.ExactString(), &b)
	if fmt.Sprint(b-a) != want {
		return "", "", false
	}
	return lo.Value.ExactString(), hi.Value.ExactString(), true
}

var rootPackage *packages.Package

// rootByteVars: package-level variables of package packet initialised with a byte-slice literal of constants or with
// netip.MustParseAddr("literal"), as Lean byte lists
var rootByteVars map[types.Object]string

func collectRootByteVars(root *packages.Package, addr map[string]string) {
	rootByteVars = map[types.Object]string{}
	for _, f := range root.Syntax {
		for _, d := range f.Decls {
			gd, ok := d.(*ast.GenDecl)
			if !ok || gd.Tok != token.VAR {
				continue
			}
			for _, sp := range gd.Specs {
				vs := sp.(*ast.ValueSpec)
				if len(vs.Names) != 1 || len(vs.Values) != 1 {
					continue
				}
				o := root.TypesInfo.Defs[vs.Names[0]]
				if o == nil {
					continue
				}
				if lit, ok := addr[vs.Names[0].Name]; ok {
					rootByteVars[o] = lit
					continue
				}
				cl, ok := vs.Values[0].(*ast.CompositeLit)
				if !ok || !isByteSlice(root.TypesInfo.TypeOf(cl)) {
					continue
				}
				var bs []string
				good := true
				for _, el := range cl.Elts {
					tv, ok := root.TypesInfo.Types[el]
					if !ok || tv.Value == nil || tv.Value.Kind() != constant.Int {
						good = false
						break
					}
					bs = append(bs, tv.Value.ExactString())
				}
				if good {
					rootByteVars[o] = "([" + strings.Join(bs, ", ") + "] : Bytes)"
				}
			}
		}
	}
}

// slArg: a destination-slice argument
func (t *sendTr) slArg(e ast.Expr) (string, error) {
	e = paren(e)
	if c, ok := e.(*ast.CallExpr); ok && len(c.Args) == 0 {
		if sel, ok := c.Fun.(*ast.SelectorExpr); ok && sel.Sel.Name == "Payload" {
			if base := t.slOf(sel.X); base != nil && namedName(t.info.TypeOf(sel.X)) == "Ether" {
				x := t.fresh()
				t.dict["Ether.Payload = etherPayloadSl (nil ↦ nilSl)"] = true
				t.emit("let %s ← etherPayloadSl m %s", x, base.lean)
				t.emit("let %s := orNil m %s", x, x)
				return x, nil
			}
		}
	}
	if c, ok := e.(*ast.CallExpr); ok && len(c.Args) == 0 && t.p != rootPackage {
		// a `return p[c:]` getter of package packet called from a handler package
		if sel, ok := c.Fun.(*ast.SelectorExpr); ok {
			if base := t.slOf(sel.X); base != nil {
				if fn, ok := t.info.Uses[sel.Sel].(*types.Func); ok {
					if r := fn.Type().(*types.Signature).Recv(); r != nil && encCallees[namedName(r.Type())+"."+fn.Name()].fn == "" {
						if fd := findFunc(rootPackage, namedName(r.Type()), fn.Name()); fd != nil && fd.Body != nil && len(fd.Body.List) == 1 {
							if rs, ok := fd.Body.List[0].(*ast.ReturnStmt); ok && len(rs.Results) == 1 {
								if sl, ok := paren(rs.Results[0]).(*ast.SliceExpr); ok && !sl.Slice3 && sl.High == nil && sl.Low != nil {
									if tv, ok := rootPackage.TypesInfo.Types[sl.Low]; ok && tv.Value != nil {
										if id, ok := paren(sl.X).(*ast.Ident); ok && len(fd.Recv.List) == 1 && len(fd.Recv.List[0].Names) == 1 && id.Name == fd.Recv.List[0].Names[0].Name {
											x := t.fresh()
											t.emit("let %s ← %s.from_ m %s", x, base.lean, tv.Value.ExactString())
											return x, nil
										}
									}
								}
							}
						}
					}
				}
			}
		}
	}
	return t.slValue(e, "")
}

func namedName(ty types.Type) string {
	if n, ok := ty.(*types.Named); ok {
		return n.Obj().Name()
	}
	return ""
}

// encCall: a call of a translated encoder → its Lean application and calling convention
func (t *sendTr) encCall(c *ast.CallExpr) (string, *encResult, error) {
	t.callMem = nil
	var fn *types.Func
	var recvE ast.Expr
	switch f := c.Fun.(type) {
	case *ast.Ident:
		fn, _ = t.info.Uses[f].(*types.Func)
	case *ast.SelectorExpr:
		fn, _ = t.info.Uses[f.Sel].(*types.Func)
		if fn != nil && fn.Type().(*types.Signature).Recv() != nil {
			recvE = f.X
		}
	}
	if fn == nil || fn.Pkg() == nil || fn.Pkg().Path() != "github.com/irai/packet" {
		return "", nil, fail("call of %s (not an encoder of package packet)", exprStr(c.Fun))
	}
	name := fn.Name()
	if recvE != nil {
		name = namedName(fn.Type().(*types.Signature).Recv().Type()) + "_" + fn.Name()
	}
	r, ok := t.encs[name]
	if !ok {
		return "", nil, fail("call of %s: not a translated encoder", name)
	}
	args := c.Args
	if recvE != nil {
		args = append([]ast.Expr{recvE}, args...)
	}
	if len(args) != len(r.kinds) {
		return "", nil, fail("call of %s with %d arguments", name, len(args))
	}
	out := []string{"Gen.Enc." + name, "m"}
	if r.ownMem {
		out = out[:1]
	}
	for i, k := range r.kinds {
		var s string
		var err error
		switch {
		case k == "Sl":
			if b := t.ownBuf(args[i]); b != nil {
				// the destination is a buffer of its own: that buffer is the memory of the call
				s, out[1] = "(whole "+b.lean+")", b.lean
				t.callMem = b
				break
			}
			s, err = t.slArg(args[i])
		case k == "Bool":
			if id, ok := paren(args[i]).(*ast.Ident); ok && (id.Name == "true" || id.Name == "false") {
				s = id.Name
			} else {
				err = fail("bool argument %s", exprStr(args[i]))
			}
		case k == "Bytes":
			s, err = t.bytesArg(args[i])
		case k == "UInt8" || k == "Nat":
			var kk ekind
			s, kk, err = t.num(args[i])
			if err == nil && k == "Nat" && kk != kNat {
				s += ".toNat"
			}
			if err == nil && k == "UInt8" && kk != kU8 {
				err = fail("argument %d of %s is not a byte", i, name)
			}
		case strings.HasPrefix(k, "struct:"):
			v, _ := t.obj(args[i])
			if v == nil || v.kind != kStruct {
				err = fail("struct argument %s of %s is not a parameter", exprStr(args[i]), name)
				break
			}
			var fs []string
			for _, f := range strings.Split(strings.TrimPrefix(k, "struct:"), ",") {
				fs = append(fs, v.lean+"_"+f)
			}
			s = strings.Join(fs, " ")
		default:
			err = fail("argument kind %s", k)
		}
		if err != nil {
			return "", nil, err
		}
		out = append(out, s)
	}
	return strings.Join(out, " "), &r, nil
}

func isBlank(e ast.Expr) bool { id, ok := e.(*ast.Ident); return ok && id.Name == "_" }

func isErrCheckReturn(s ast.Stmt) bool {
	is, ok := s.(*ast.IfStmt)
	if !ok || is.Init != nil || is.Else != nil {
		return false
	}
	return types.ExprString(is.Cond) == "err != nil" && isReturnErr(is.Body)
}

// isReturnErr: a block that ends in `return err` (statements before it can only log: they must be calls)
func isReturnErr(b *ast.BlockStmt) bool {
	if len(b.List) == 0 {
		return false
	}
	for _, s := range b.List[:len(b.List)-1] {
		if es, ok := s.(*ast.ExprStmt); !ok {
			return false
		} else if _, ok := es.X.(*ast.CallExpr); !ok {
			return false
		}
	}
	rs, ok := b.List[len(b.List)-1].(*ast.ReturnStmt)
	return ok && len(rs.Results) == 1 && exprStr(rs.Results[0]) == "err"
}

func blockEndsInReturn(b *ast.BlockStmt) bool {
	if len(b.List) == 0 {
		return false
	}
	_, ok := b.List[len(b.List)-1].(*ast.ReturnStmt)
	return ok
}

// writeTo: the frame argument of conn.WriteTo(frame, addr), nil if e is no such call
func writeToFrame(e ast.Expr) ast.Expr {
	c, ok := paren(e).(*ast.CallExpr)
	if !ok || len(c.Args) != 2 {
		return nil
	}
	sel, ok := c.Fun.(*ast.SelectorExpr)
	if !ok || sel.Sel.Name != "WriteTo" {
		return nil
	}
	return c.Args[0]
}

func (t *sendTr) send(frame ast.Expr) error {
	s, err := t.slArg(frame)
	if err != nil {
		return err
	}
	t.emit("pure (%s.bytes m)", s)
	t.sent = true
	return nil
}

// encAssign: lhs… = <encoder call>; checked = the error result is tested and returned
func (t *sendTr) encAssign(lhs []ast.Expr, c *ast.CallExpr, errDropped bool) error {
	app, r, err := t.encCall(c)
	if err != nil {
		return err
	}
	id, ok := lhs[0].(*ast.Ident)
	if !ok {
		return fail("encoder result assigned to %s", exprStr(lhs[0]))
	}
	name := leanName(id.Name)
	if isBlank(id) {
		name = "_"
	}
	if r.ownMem {
		// a builder that allocates its result: the value is the byte string it returns (nil when its error is dropped)
		if errDropped {
			app = "ownOrNil (" + app + ")"
		} else {
			app = "builtBytes (" + app + ")"
		}
		t.emit("let %s ← %s", name, app)
		if name != "_" {
			t.bind(id, kBytes)
		}
		return nil
	}
	if t.callMem != nil {
		return fail("result of an encoder writing into %s is used", t.callMem.lean)
	}
	if errDropped {
		if r.results != 2 {
			return fail("blank second result of a one-result call")
		}
		app = "keepNil m (" + app + ")"
	}
	if r.opt {
		x := t.fresh()
		t.emit("let (m, %s) ← %s", x, app)
		t.emit("let %s := orNil m %s", name, x)
	} else {
		t.emit("let (m, %s) ← %s", name, app)
	}
	if name != "_" {
		t.bind(id, kSl)
	}
	return nil
}

// ownBuf: the memory-of-its-own byte buffer an expression denotes (possibly under a conversion)
func (t *sendTr) ownBuf(e ast.Expr) *evar {
	e = paren(e)
	if c, ok := e.(*ast.CallExpr); ok && len(c.Args) == 1 {
		if tv, ok := t.info.Types[c.Fun]; ok && tv.IsType() && isByteSlice(tv.Type) {
			return t.ownBuf(c.Args[0])
		}
	}
	if v, o := t.obj(e); v != nil && v.kind == kBytes && t.own[o] {
		return v
	}
	return nil
}

// cksArg: Checksum(y) for a byte value y
func (t *sendTr) cksArg(e ast.Expr) (string, error) {
	c, ok := paren(e).(*ast.CallExpr)
	if !ok || len(c.Args) != 1 || (exprStr(c.Fun) != "Checksum" && exprStr(c.Fun) != "packet.Checksum") {
		return "", fail("checksum argument %s", exprStr(e))
	}
	s, err := t.bytesArg(c.Args[0])
	if err != nil {
		return "", err
	}
	t.dict["Checksum = checksum"] = true
	return "(checksum " + s + ").toNat", nil
}

func (t *sendTr) sendStmt(s ast.Stmt, next ast.Stmt) (handled bool, skipNext bool, err error) {
	if t.sent {
		// after the transmission only the error of WriteTo may be tested / returned
		switch x := s.(type) {
		case *ast.ReturnStmt:
			return true, false, nil
		case *ast.IfStmt:
			if types.ExprString(x.Cond) == "err != nil" && x.Else == nil {
				return true, false, nil
			}
		}
		return true, false, fail("statement %T after the transmission", s)
	}
	if t.wrapper { // senders_marshal.go: m := &T{…}; mb, err := m.marshal(); if err != nil { return err }
		if h, skip, err := t.marshalSendStmt(s, next); h {
			return true, skip, err
		}
	}
	if is, ok := s.(*ast.IfStmt); ok && is.Init == nil && is.Else == nil {
		// if Logger.IsDebug() { … }: logging
		if c, ok := paren(is.Cond).(*ast.CallExpr); ok && len(c.Args) == 0 {
			if sel, ok := c.Fun.(*ast.SelectorExpr); ok && sel.Sel.Name == "IsDebug" {
				t.ignored["if Logger.IsDebug() { … }"] = true
				return true, false, nil
			}
		}
		// if <cond> { return ErrX }
		if len(is.Body.List) == 1 {
			if rs, ok := is.Body.List[0].(*ast.ReturnStmt); ok && len(rs.Results) == 1 {
				id, ok := paren(rs.Results[0]).(*ast.Ident)
				if sel, isSel := paren(rs.Results[0]).(*ast.SelectorExpr); isSel {
					if pk, isId := sel.X.(*ast.Ident); isId {
						if _, isPkg := t.info.Uses[pk].(*types.PkgName); isPkg {
							id, ok = sel.Sel, true
						}
					}
				}
				if ok && leanErrs[id.Name] != "" {
					c, err := t.sendCond(is.Cond)
					if err != nil {
						return true, false, err
					}
					t.emit("if %s then .err .%s else do", c, leanErrs[id.Name])
					t.indent += "  "
					return true, false, nil
				}
			}
		}
	}
	if is, ok := s.(*ast.IfStmt); ok && is.Init == nil && is.Else == nil && !t.sent {
		// if cs == 0 { cs = C } on a checksum variable
		if be, ok := paren(is.Cond).(*ast.BinaryExpr); ok && be.Op == token.EQL && len(is.Body.List) == 1 {
			if v, o := t.obj(be.X); v != nil && v.kind == kU16 {
				if as, ok := is.Body.List[0].(*ast.AssignStmt); ok && len(as.Lhs) == 1 && len(as.Rhs) == 1 && as.Tok == token.ASSIGN {
					if _, o2 := t.obj(as.Lhs[0]); o2 == o {
						c0, ok1 := t.constVal(be.Y)
						c1, ok2 := t.constVal(as.Rhs[0])
						if ok1 && ok2 {
							t.emit("let %s : UInt16 := if %s == %s then %s else %s", v.lean, v.lean, c0, c1, v.lean)
							return true, false, nil
						}
					}
				}
			}
		}
		// if <cond> { a complete send path ending in return }: the rest of the function is the else branch
		hasSend := false
		ast.Inspect(is.Body, func(n ast.Node) bool {
			if e, ok := n.(ast.Expr); ok && writeToFrame(e) != nil {
				hasSend = true
			}
			return !hasSend
		})
		if hasSend && blockEndsInReturn(is.Body) {
			c, err := t.sendCond(is.Cond)
			if err != nil {
				return true, false, err
			}
			saved, ind, env := t.lines, t.indent, map[types.Object]*evar{}
			for k, v := range t.env {
				env[k] = v
			}
			t.lines, t.indent = nil, ind+"  "
			list := is.Body.List
			for i := 0; i < len(list); i++ {
				var next ast.Stmt
				if i+1 < len(list) {
					next = list[i+1]
				}
				handled, skip, err := t.sendStmt(list[i], next)
				if err == nil && !handled {
					err = t.stmt(list[i])
				}
				if err != nil {
					t.lines, t.indent = saved, ind
					return true, false, err
				}
				if skip {
					i++
				}
			}
			if !t.sent {
				t.lines, t.indent = saved, ind
				return true, false, fail("branch without a transmission")
			}
			body := t.lines
			t.lines, t.indent, t.env, t.sent, t.done = saved, ind, env, false, false
			t.emit("if %s then (do", c)
			t.lines = append(t.lines, body...)
			t.emit("  ) else do")
			t.indent += "  "
			return true, false, nil
		}
	}
	if as, ok := s.(*ast.AssignStmt); ok && t.wrapper && !t.sent && len(as.Lhs) == 1 && len(as.Rhs) == 1 && as.Tok == token.ASSIGN && exprStr(as.Lhs[0]) == "err" {
		if c, ok := paren(as.Rhs[0]).(*ast.CallExpr); ok {
			if rs, ok := next.(*ast.ReturnStmt); ok && len(rs.Results) == 1 && exprStr(rs.Results[0]) == "err" {
				app, err := t.senderCall(c)
				if err != nil {
					return true, false, err
				}
				t.emit("%s", app)
				t.sent = true
				return true, true, nil
			}
		}
	}
	if rs, ok := s.(*ast.ReturnStmt); ok && t.wrapper && len(rs.Results) == 1 {
		if c, ok := paren(rs.Results[0]).(*ast.CallExpr); ok {
			app, err := t.senderCall(c)
			if err != nil {
				return true, false, err
			}
			t.emit("%s", app)
			t.sent = true
			return true, false, nil
		}
	}
	switch x := s.(type) {
	case *ast.DeferStmt:
		if str := exprStr(x.Call.Fun); str == "EtherBufferPool.Put" || str == "packet.EtherBufferPool.Put" {
			t.ignored["defer EtherBufferPool.Put"] = true
			return true, false, nil
		}
		return true, false, fail("defer %s", exprStr(x.Call.Fun))
	case *ast.ReturnStmt:
		return true, false, fail("return before a frame is written")
	case *ast.ExprStmt:
		if f := writeToFrame(x.X); f != nil {
			return true, false, t.send(f)
		}
		c, ok := x.X.(*ast.CallExpr)
		if !ok {
			return false, false, nil
		}
		// EncodeT(buf, …) with the result discarded, buf a buffer of its own
		if _, _, err := t.peekEnc(c); err == nil {
			app, _, err := t.encCall(c)
			if err != nil {
				return true, false, err
			}
			if t.callMem == nil {
				return true, false, fail("result of %s is discarded", exprStr(c.Fun))
			}
			t.emit("let (%s, _) ← %s", t.callMem.lean, app)
			return true, false, nil
		}
		// ICMP(x).SetChecksum(Checksum(y))
		if sel, ok := c.Fun.(*ast.SelectorExpr); ok && sel.Sel.Name == "SetChecksum" && len(c.Args) == 1 && namedName(t.info.TypeOf(sel.X)) == "ICMP" {
			cs, err := t.cksArg(c.Args[0])
			if err != nil {
				return true, false, err
			}
			if b := t.ownBuf(sel.X); b != nil {
				t.emit("let %s ← ICMP_SetChecksum %s (whole %s) %s", b.lean, b.lean, b.lean, cs)
				return true, false, nil
			}
			inner := paren(sel.X)
			if cc, ok := inner.(*ast.CallExpr); ok && len(cc.Args) == 1 {
				if tv, ok := t.info.Types[cc.Fun]; ok && tv.IsType() {
					inner = cc.Args[0]
				}
			}
			d, err := t.slArg(inner)
			if err != nil {
				return true, false, err
			}
			t.emit("let m ← ICMP_SetChecksum m %s %s", d, cs)
			return true, false, nil
		}
		// stores into a buffer of its own
		if id, ok := c.Fun.(*ast.Ident); ok && id.Name == "copy" && len(c.Args) == 2 {
			if sl, ok := paren(c.Args[0]).(*ast.SliceExpr); ok && !sl.Slice3 {
				if b := t.ownBuf(sl.X); b != nil {
					lo, hi, err := t.ownBounds(b, sl)
					if err != nil {
						return true, false, err
					}
					src, err := t.bytesArg(c.Args[1])
					if err != nil {
						return true, false, err
					}
					t.emit("let %s ← (whole %s).copyAt %s %s %s %s", b.lean, b.lean, b.lean, lo, hi, src)
					return true, false, nil
				}
			}
		}
		if sel, ok := c.Fun.(*ast.SelectorExpr); ok && len(c.Args) == 2 && (sel.Sel.Name == "PutUint32" || sel.Sel.Name == "PutUint16") && strings.HasSuffix(exprStr(sel.X), "BigEndian") {
			if sl, ok := paren(c.Args[0]).(*ast.SliceExpr); ok && !sl.Slice3 && sl.Low != nil && sl.High != nil {
				if b := t.ownBuf(sl.X); b != nil {
					lo, okl := t.constVal(sl.Low)
					hi, okh := t.constVal(sl.High)
					var a, z int
					fmt.Sscan(lo, &a)
					fmt.Sscan(hi, &z)
					w := map[string]int{"PutUint32": 4, "PutUint16": 2}[sel.Sel.Name]
					if !okl || !okh || z-a != w {
						return true, false, fail("%s window is not a constant %d-byte window", sel.Sel.Name, w)
					}
					val := paren(c.Args[1])
					wrap := ""
					if cc, ok := val.(*ast.CallExpr); ok && len(cc.Args) == 1 {
						if tv, ok := t.info.Types[cc.Fun]; ok && tv.IsType() && basicKind(tv.Type) == types.Uint32 && basicKind(t.info.TypeOf(cc.Args[0])) == types.Int {
							val, wrap = cc.Args[0], " % 4294967296"
						}
					}
					v, k, err := t.num(val)
					if err != nil {
						return true, false, err
					}
					if k != kNat {
						v += ".toNat"
					}
					if wrap != "" {
						v = "(" + v + wrap + ")"
					}
					t.emit("let %s ← (whole %s).put%d %s %s %s", b.lean, b.lean, w*8, b.lean, lo, v)
					return true, false, nil
				}
			}
		}
		return false, false, nil
	case *ast.IfStmt:
		// if x, err = call; err != nil { return err }   /   if _, err := conn.WriteTo(..); err != nil { … }
		if as, ok := x.Init.(*ast.AssignStmt); ok && len(as.Rhs) == 1 && types.ExprString(x.Cond) == "err != nil" && x.Else == nil {
			if f := writeToFrame(as.Rhs[0]); f != nil {
				return true, false, t.send(f)
			}
			if c, ok := as.Rhs[0].(*ast.CallExpr); ok && len(as.Lhs) == 2 && exprStr(as.Lhs[1]) == "err" && isReturnErr(x.Body) {
				return true, false, t.encAssign(as.Lhs, c, false)
			}
		}
		// if a.IsLinkLocalUnicast() || a.IsLinkLocalMulticast() { v = C }
		if be, ok := paren(x.Cond).(*ast.BinaryExpr); ok && be.Op == token.LOR && x.Init == nil && x.Else == nil && len(x.Body.List) == 1 {
			l, ok1 := paren(be.X).(*ast.CallExpr)
			r, ok2 := paren(be.Y).(*ast.CallExpr)
			as, ok3 := x.Body.List[0].(*ast.AssignStmt)
			if ok1 && ok2 && ok3 && len(as.Lhs) == 1 && len(as.Rhs) == 1 && as.Tok == token.ASSIGN {
				ls, lok := l.Fun.(*ast.SelectorExpr)
				rs, rok := r.Fun.(*ast.SelectorExpr)
				if lok && rok && ls.Sel.Name == "IsLinkLocalUnicast" && rs.Sel.Name == "IsLinkLocalMulticast" && exprStr(ls.X) == exprStr(rs.X) && isNetipAddr(t.info.TypeOf(ls.X)) {
					a, err := t.bytesArg(ls.X)
					if err != nil {
						return true, false, err
					}
					v, _ := t.obj(as.Lhs[0])
					if v == nil || v.kind != kU8 {
						return true, false, fail("conditional assignment to %s", exprStr(as.Lhs[0]))
					}
					c, k, err := t.num(as.Rhs[0])
					if err != nil || k != kU8 {
						return true, false, fail("conditional assignment of a non-byte")
					}
					t.dict["netip.Addr.IsLinkLocalUnicast || IsLinkLocalMulticast = isLLUorLLM"] = true
					t.emit("let %s : UInt8 := if isLLUorLLM %s then %s else %s", v.lean, a, c, v.lean)
					return true, false, nil
				}
			}
		}
		return true, false, fail("if statement %s", types.ExprString(x.Cond))
	case *ast.AssignStmt:
		if len(x.Rhs) == 2 && len(x.Lhs) == 2 && x.Tok == token.ASSIGN {
			// x[i], x[j] = a, b: the operands are evaluated first (they cannot panic here: variables and conversions),
			// then the stores happen left to right
			var outs []string
			for k := 0; k < 2; k++ {
				ix, ok := x.Lhs[k].(*ast.IndexExpr)
				if !ok {
					return true, false, fail("tuple assignment")
				}
				base := t.slOf(ix.X)
				if base == nil {
					return true, false, fail("tuple store into something other than a frame slice")
				}
				i, ok := t.constVal(ix.Index)
				if !ok {
					return true, false, fail("tuple store index")
				}
				v, kv, err := t.u8(x.Rhs[k])
				if err != nil || kv != kU8 {
					return true, false, fail("tuple store of a non-byte")
				}
				outs = append(outs, fmt.Sprintf("let m ← %s.put8 m %s %s", base.lean, i, v))
			}
			for _, o := range outs {
				t.emit("%s", o)
			}
			return true, false, nil
		}
		if len(x.Rhs) != 1 {
			return false, false, nil
		}
		rhs := paren(x.Rhs[0])
		// pool buffer
		if isPoolGet(rhs) && len(x.Lhs) == 1 && x.Tok == token.DEFINE {
			id := x.Lhs[0].(*ast.Ident)
			t.pool = t.info.Defs[id]
			t.emit("let m : Mem := g")
			return true, false, nil
		}
		// ether := Ether(make([]byte, N)): the frame buffer is allocated (zeroed), not taken from the pool
		if n, ok := t.isFrameAlloc(rhs); ok && len(x.Lhs) == 1 && x.Tok == token.DEFINE && t.pool == nil {
			lhs := x.Lhs[0].(*ast.Ident)
			t.pool = t.info.Defs[lhs]
			t.emit("let m : Mem := List.replicate %s 0", n)
			t.emit("let %s := whole m", leanName(lhs.Name))
			t.bind(lhs, kSl)
			t.dict["Ether(make([]byte, N)) = a zeroed buffer of N bytes (the argument g is not used)"] = true
			return true, false, nil
		}
		// cs := Checksum(y)
		if c, ok := rhs.(*ast.CallExpr); ok && len(c.Args) == 1 && len(x.Lhs) == 1 && x.Tok == token.DEFINE && (exprStr(c.Fun) == "Checksum" || exprStr(c.Fun) == "packet.Checksum") {
			a, err := t.bytesArg(c.Args[0])
			if err != nil {
				return true, false, err
			}
			lhs := x.Lhs[0].(*ast.Ident)
			t.dict["Checksum = checksum"] = true
			t.emit("let %s : UInt16 := checksum %s", leanName(lhs.Name), a)
			t.bind(lhs, kU16)
			return true, false, nil
		}
		// _, err = conn.WriteTo(frame, …)
		if f := writeToFrame(rhs); f != nil {
			return true, false, t.send(f)
		}
		// x[i] = e on a buffer of its own
		if ix, ok := x.Lhs[0].(*ast.IndexExpr); ok && len(x.Lhs) == 1 && x.Tok == token.ASSIGN {
			if b := t.ownBuf(ix.X); b != nil {
				i, ki, err := t.num(ix.Index)
				if err != nil || ki != kNat {
					return true, false, fail("index of a store")
				}
				v, kv, err := t.num(rhs)
				if err != nil || kv != kU8 {
					return true, false, fail("stored value is not a byte")
				}
				t.emit("let %s ← (whole %s).put8 %s %s %s", b.lean, b.lean, b.lean, i, v)
				return true, false, nil
			}
		}
		if c, ok := rhs.(*ast.CallExpr); ok {
			// ether := Ether(b[lo:hi]) of the pool buffer
			if len(c.Args) == 1 && len(x.Lhs) == 1 {
				if tv, ok := t.info.Types[c.Fun]; ok && tv.IsType() && isByteSlice(tv.Type) {
					if sl, ok := paren(c.Args[0]).(*ast.SliceExpr); ok && !sl.Slice3 {
						if id, ok := paren(sl.X).(*ast.Ident); ok && t.pool != nil && t.info.Uses[id] == t.pool {
							lhs := x.Lhs[0].(*ast.Ident)
							lo, hi := "0", ""
							if sl.Low != nil {
								v, ok := t.constVal(sl.Low)
								if !ok {
									return true, false, fail("pool slice bound")
								}
								lo = v
							}
							if sl.High != nil {
								v, ok := t.constVal(sl.High)
								if !ok {
									return true, false, fail("pool slice bound")
								}
								hi = v
							}
							if lo == "0" && hi == "" {
								t.emit("let %s := whole m", leanName(lhs.Name))
							} else if hi == "" {
								t.emit("let %s ← (whole m).from_ m %s", leanName(lhs.Name), lo)
							} else {
								t.emit("let %s ← (whole m).reslice m %s %s", leanName(lhs.Name), lo, hi)
							}
							t.bind(lhs, kSl)
							return true, false, nil
						}
					}
				}
			}
			// x := make([]byte, n): a memory of its own
			if id, ok := c.Fun.(*ast.Ident); ok && id.Name == "make" && len(c.Args) == 2 && len(x.Lhs) == 1 && x.Tok == token.DEFINE && isByteSlice(t.info.TypeOf(rhs)) {
				n, k, err := t.num(c.Args[1])
				if err != nil || k != kNat {
					return true, false, fail("make length")
				}
				lhs := x.Lhs[0].(*ast.Ident)
				t.emit("let %s : Mem := List.replicate %s 0", leanName(lhs.Name), n)
				t.bind(lhs, kBytes)
				t.own[t.info.Defs[lhs]] = true
				return true, false, nil
			}
			// x := ether.Payload()
			if sel, ok := c.Fun.(*ast.SelectorExpr); ok && sel.Sel.Name == "Payload" && len(c.Args) == 0 && len(x.Lhs) == 1 && t.slOf(sel.X) != nil && namedName(t.info.TypeOf(sel.X)) == "Ether" {
				s, err := t.slArg(rhs)
				if err != nil {
					return true, false, err
				}
				lhs := x.Lhs[0].(*ast.Ident)
				t.emit("let %s := %s", leanName(lhs.Name), s)
				t.bind(lhs, kSl)
				return true, false, nil
			}
			// encoder calls
			if _, _, err := t.peekEnc(c); err == nil {
				switch {
				case len(x.Lhs) == 1:
					return true, false, t.encAssign(x.Lhs, c, false)
				case len(x.Lhs) == 2 && isBlank(x.Lhs[1]):
					return true, false, t.encAssign(x.Lhs, c, true)
				case len(x.Lhs) == 2 && exprStr(x.Lhs[1]) == "err":
					if next == nil || !isErrCheckReturn(next) {
						return true, false, fail("error of %s is not tested by the next statement", exprStr(c.Fun))
					}
					return true, true, t.encAssign(x.Lhs, c, false)
				}
			}
		}
		return false, false, nil
	}
	return false, false, nil
}

// u8: byte(cs) / byte(cs >> 8) of a UInt16 variable, else num
func (t *sendTr) u8(e ast.Expr) (string, ekind, error) {
	e = paren(e)
	if c, ok := e.(*ast.CallExpr); ok && len(c.Args) == 1 {
		if tv, ok := t.info.Types[c.Fun]; ok && tv.IsType() && basicKind(tv.Type) == types.Uint8 {
			in := paren(c.Args[0])
			if v, _ := t.obj(in); v != nil && v.kind == kU16 {
				return v.lean + ".toUInt8", kU8, nil
			}
			if be, ok := in.(*ast.BinaryExpr); ok && be.Op == token.SHR {
				if v, _ := t.obj(be.X); v != nil && v.kind == kU16 {
					if n, ok := t.constVal(be.Y); ok {
						return "(" + v.lean + " >>> " + n + ").toUInt8", kU8, nil
					}
				}
			}
		}
	}
	return t.num(e)
}

// sendCond: conditions of the address-family guards
func (t *sendTr) sendCond(e ast.Expr) (string, error) {
	e = paren(e)
	switch x := e.(type) {
	case *ast.UnaryExpr:
		if x.Op == token.NOT {
			c, err := t.sendCond(x.X)
			if err != nil {
				return "", err
			}
			return "¬ (" + c + ")", nil
		}
	case *ast.BinaryExpr:
		if x.Op == token.LOR || x.Op == token.LAND {
			a, err := t.sendCond(x.X)
			if err != nil {
				return "", err
			}
			b, err := t.sendCond(x.Y)
			if err != nil {
				return "", err
			}
			return "(" + a + map[token.Token]string{token.LOR: " ∨ ", token.LAND: " ∧ "}[x.Op] + b + ")", nil
		}
	case *ast.CallExpr:
		if sel, ok := x.Fun.(*ast.SelectorExpr); ok && len(x.Args) == 0 && isNetipAddr(t.info.TypeOf(sel.X)) && (sel.Sel.Name == "Is4" || sel.Sel.Name == "Is6") {
			a, err := t.bytesArg(sel.X)
			if err != nil {
				return "", err
			}
			return a + ".length = " + map[string]string{"Is4": "4", "Is6": "16"}[sel.Sel.Name], nil
		}
	}
	return t.cond(e)
}

// senderCall: h.<translated send path>(args…) of the same session
func (t *sendTr) senderCall(c *ast.CallExpr) (string, error) {
	sel, ok := c.Fun.(*ast.SelectorExpr)
	if !ok {
		return "", fail("return of %s", exprStr(c.Fun))
	}
	fn, _ := t.info.Uses[sel.Sel].(*types.Func)
	r := t.senders[fn]
	if fn == nil || r == nil {
		return "", fail("return of %s: not a translated send path", exprStr(c.Fun))
	}
	if id, ok := paren(sel.X).(*ast.Ident); !ok || t.info.Uses[id] != t.recv {
		return "", fail("send path called on %s, not on the receiver", exprStr(sel.X))
	}
	if len(c.Args) != len(r.kinds) {
		return "", fail("send path called with %d arguments", len(c.Args))
	}
	out := []string{"Gen.Send." + r.name, "g"}
	for i, k := range r.kinds {
		switch {
		case k == "skip":
		case k == "Bytes":
			s, err := t.bytesArg(c.Args[i])
			if err != nil {
				return "", err
			}
			out = append(out, s)
		case k == "UInt8" || k == "Nat":
			s, kk, err := t.num(c.Args[i])
			if err != nil {
				return "", err
			}
			if (k == "Nat") != (kk == kNat) {
				return "", fail("argument %d of %s", i, r.name)
			}
			out = append(out, s)
		case strings.HasPrefix(k, "struct:"):
			v, _ := t.obj(c.Args[i])
			if v != nil && v.kind == kStruct {
				for _, f := range strings.Split(strings.TrimPrefix(k, "struct:"), ",") {
					out = append(out, v.lean+"_"+f)
				}
				break
			}
			if cl, ok := paren(c.Args[i]).(*ast.CompositeLit); ok {
				// T{F: e, …}: the fields given, the zero value for the others
				fns := strings.Split(strings.TrimPrefix(k, "struct:"), ",")
				ftys := strings.Split(r.fieldTys[i], ",")
				vals := map[string]string{}
				var lerr error
				for _, el := range cl.Elts {
					kv, ok := el.(*ast.KeyValueExpr)
					if !ok {
						lerr = fail("positional struct literal")
						break
					}
					key := exprStr(kv.Key)
					for j, f := range fns {
						if f != key {
							continue
						}
						if ftys[j] == "Bytes" {
							vals[f], lerr = t.bytesArg(kv.Value)
						} else {
							var kk ekind
							vals[f], kk, lerr = t.num(kv.Value)
							if lerr == nil && kk != kNat {
								lerr = fail("field %s", f)
							}
						}
					}
					if lerr != nil {
						break
					}
				}
				if lerr != nil {
					return "", lerr
				}
				for j, f := range fns {
					if v, ok := vals[f]; ok {
						out = append(out, v)
					} else if ftys[j] == "Bytes" {
						out = append(out, "([] : Bytes)")
					} else {
						out = append(out, "0")
					}
				}
				break
			}
			if vals, ok := t.marshalRootStruct(c.Args[i], strings.Split(strings.TrimPrefix(k, "struct:"), ","), strings.Split(r.fieldTys[i], ",")); ok {
				out = append(out, vals...) // senders_marshal.go: a package-level Addr of package packet = its initialiser
				break
			}
			// a package-level / session struct value: one extra argument per field
			for j, f := range strings.Split(strings.TrimPrefix(k, "struct:"), ",") {
				n, ok := t.sessionPath(c.Args[i], f)
				if !ok {
					return "", fail("struct argument %s of %s", exprStr(c.Args[i]), r.name)
				}
				ty := "Bytes"
				if strings.Split(r.fieldTys[i], ",")[j] == "Nat" {
					ty = "Nat"
				}
				out = append(out, t.extraParam(n, ty))
			}
		}
	}
	for _, e := range r.extraNames {
		out = append(out, t.extraParam(e, "Bytes"))
	}
	return strings.Join(out, " "), nil
}

// peekEnc: is c a call of a translated encoder (no code is emitted)
func (t *sendTr) peekEnc(c *ast.CallExpr) (string, *encResult, error) {
	saved, tmp := t.lines, t.tmp
	nx, ns := len(t.extra), map[string]bool{}
	for k := range t.extraSeen {
		ns[k] = true
	}
	a, r, err := t.encCall(c)
	t.lines, t.tmp = saved, tmp
	t.extra, t.extraSeen = t.extra[:nx], ns
	return a, r, err
}

func (t *sendTr) ownBounds(b *evar, sl *ast.SliceExpr) (string, string, error) {
	lo, hi := "0", b.lean+".length"
	if sl.Low != nil {
		v, k, err := t.num(sl.Low)
		if err != nil || k != kNat {
			return "", "", fail("slice bound")
		}
		lo = v
	}
	if sl.High != nil {
		v, k, err := t.num(sl.High)
		if err != nil || k != kNat {
			return "", "", fail("slice bound")
		}
		hi = v
	}
	return lo, hi, nil
}

type sendResult struct {
	name, src, sig string
	lines          []string
	err            error
	kinds          []string // per Go parameter: "Bytes" | "UInt8" | "Nat" | "struct:<fields>" | "skip"
	fieldTys       []string // per Go parameter: for a struct, the Lean types of its fields
	extraNames     []string // the session / package-level values appended as arguments
}

func translateSender(p *packages.Package, fd *ast.FuncDecl, name string, encs map[string]encResult, addr map[string]string, ignored, dict map[string]bool, senders map[*types.Func]*sendResult) sendResult {
	info := p.TypesInfo
	et := &encTr{p: p, info: info, name: name, env: map[types.Object]*evar{}, indent: "  ", assume: map[string]bool{}, callees: map[string]bool{}, addrVars: addr}
	t := &sendTr{encTr: et, encs: encs, extraSeen: map[string]bool{}, ignored: ignored, dict: dict, own: map[types.Object]bool{}, senders: senders, wrapper: senders != nil}
	res := sendResult{name: name}
	pos := p.Fset.Position(fd.Pos())
	res.src = fmt.Sprintf("%s.%s (%s)", p.Name, fd.Name.Name, pos.Filename[strings.LastIndex(pos.Filename, "/")+1:])
	fn := info.Defs[fd.Name].(*types.Func)
	sig := fn.Type().(*types.Signature)
	if r := sig.Recv(); r != nil {
		t.recv = r
	}
	// a []byte parameter that is stored into is a memory of its own
	written := writtenSlices(info, fd)
	ast.Inspect(fd.Body, func(n ast.Node) bool {
		if c, ok := n.(*ast.CallExpr); ok {
			if sel, ok := c.Fun.(*ast.SelectorExpr); ok && sel.Sel.Name == "SetChecksum" {
				e := paren(sel.X)
				if cc, ok := e.(*ast.CallExpr); ok && len(cc.Args) == 1 {
					e = paren(cc.Args[0])
				}
				if id, ok := e.(*ast.Ident); ok {
					if o := info.Uses[id]; o != nil {
						written[o] = true
					}
				}
			}
		}
		return true
	})
	params := []string{"(g : Mem)"}
	for i := 0; i < sig.Params().Len(); i++ {
		v := sig.Params().At(i)
		ln := leanName(v.Name())
		ty := v.Type()
		switch {
		case isByteSlice(ty) || isNetipAddr(ty):
			t.env[v] = &evar{kBytes, ln}
			if written[v] {
				t.own[v] = true
			}
			res.kinds, res.fieldTys = append(res.kinds, "Bytes"), append(res.fieldTys, "")
			params = append(params, fmt.Sprintf("(%s : Bytes)", ln))
		case basicKind(ty) == types.Uint8:
			t.env[v] = &evar{kU8, ln}
			res.kinds, res.fieldTys = append(res.kinds, "UInt8"), append(res.fieldTys, "")
			params = append(params, fmt.Sprintf("(%s : UInt8)", ln))
		case basicKind(ty) == types.Uint16 || basicKind(ty) == types.Int:
			t.env[v] = &evar{kNat, ln}
			res.kinds, res.fieldTys = append(res.kinds, "Nat"), append(res.fieldTys, "")
			params = append(params, fmt.Sprintf("(%s : Nat)", ln))
		default:
			if types.IsInterface(ty) {
				res.kinds, res.fieldTys = append(res.kinds, "skip"), append(res.fieldTys, "")
				continue // net.PacketConn: the connection is not modelled (the function's value is the frame handed to it)
			}
			st, ok := ty.Underlying().(*types.Struct)
			if !ok {
				res.err = fail("parameter %s of type %v", v.Name(), ty)
				return res
			}
			t.env[v] = &evar{kStruct, ln}
			var fns, fts []string
			for i := 0; i < st.NumFields(); i++ {
				f := st.Field(i)
				fns = append(fns, f.Name())
				switch {
				case isByteSlice(f.Type()) || isNetipAddr(f.Type()):
					fts = append(fts, "Bytes")
					params = append(params, fmt.Sprintf("(%s_%s : Bytes)", ln, f.Name()))
				case basicKind(f.Type()) == types.Uint16 || basicKind(f.Type()) == types.Int:
					fts = append(fts, "Nat")
					params = append(params, fmt.Sprintf("(%s_%s : Nat)", ln, f.Name()))
				default:
					res.err = fail("field %s.%s of type %v", v.Name(), f.Name(), f.Type())
					return res
				}
			}
			res.kinds, res.fieldTys = append(res.kinds, "struct:"+strings.Join(fns, ",")), append(res.fieldTys, strings.Join(fts, ","))
		}
	}
	list := fd.Body.List
	for i := 0; i < len(list); i++ {
		var next ast.Stmt
		if i+1 < len(list) {
			next = list[i+1]
		}
		handled, skip, err := t.sendStmt(list[i], next)
		if err == nil && !handled {
			err = t.stmt(list[i])
			if err == nil && t.done {
				err = fail("return before a frame is written")
			}
		}
		if err != nil {
			res.err = fail("line %d: %v", p.Fset.Position(list[i].Pos()).Line-pos.Line, err)
			return res
		}
		if skip {
			i++
		}
	}
	if !t.sent {
		res.err = fail("no frame is written")
		return res
	}
	if t.pool == nil && !t.wrapper {
		res.err = fail("no pool buffer")
		return res
	}
	params = append(params, t.extra...)
	for _, e := range t.extra {
		res.extraNames = append(res.extraNames, strings.TrimSuffix(strings.TrimSuffix(strings.TrimPrefix(e, "("), " : Bytes)"), " : Nat)"))
	}
	res.sig = fmt.Sprintf("def %s %s : Outcome Bytes := do", name, strings.Join(params, " "))
	res.lines = t.lines
	return res
}

func sendStrList(l []string) string {
	var q []string
	for _, x := range l {
		q = append(q, fmt.Sprintf("%q", x))
	}
	return "[" + strings.Join(q, ", ") + "]"
}

// senderFacts writes Gen/Senders.lean.
func senderFacts(pkgs []*packages.Package, root *packages.Package, b *strings.Builder) {
	rootPackage = root
	collectRootByteVars(root, packageAddrVars(root))
	// calling conventions of the translated encoders (the same candidate set as encoderFacts)
	encs := map[string]encResult{}
	addr := packageAddrVars(root)
	for _, f := range root.Syntax {
		for _, d := range f.Decls {
			fd, ok := d.(*ast.FuncDecl)
			if !ok || fd.Body == nil || !fd.Name.IsExported() {
				continue
			}
			name := ""
			if fd.Recv == nil && (strings.HasPrefix(fd.Name.Name, "Encode") || strings.HasSuffix(fd.Name.Name, "Marshal")) {
				name = fd.Name.Name
			}
			if fd.Recv != nil && len(fd.Recv.List) == 1 && (fd.Name.Name == "SetPayload" || fd.Name.Name == "AppendPayload") {
				if id, ok := fd.Recv.List[0].Type.(*ast.Ident); ok {
					name = id.Name + "_" + fd.Name.Name
				}
			}
			if name == "" {
				continue
			}
			if r := translateEncoder(root, fd, name, addr, map[string]bool{}); r.err == nil {
				encs[name] = r
			}
		}
	}
	type cand struct {
		name string
		p    *packages.Package
		fd   *ast.FuncDecl
	}
	var cs []cand
	seen := map[string]bool{}
	var all []*packages.Package
	packages.Visit(pkgs, nil, func(p *packages.Package) {
		if strings.HasPrefix(p.PkgPath, "github.com/irai/packet") {
			all = append(all, p)
		}
	})
	for _, p := range all {
		for _, f := range p.Syntax {
			for _, d := range f.Decls {
				fd, ok := d.(*ast.FuncDecl)
				if !ok || fd.Body == nil {
					continue
				}
				uses, alloc, writes := false, false, false
				ast.Inspect(fd.Body, func(n ast.Node) bool {
					if e, ok := n.(ast.Expr); ok && isPoolGet(e) {
						uses = true
					}
					if e, ok := n.(ast.Expr); ok && writeToFrame(e) != nil {
						writes = true
					}
					if c, ok := n.(*ast.CallExpr); ok && len(c.Args) == 1 && (exprStr(c.Fun) == "packet.Ether" || exprStr(c.Fun) == "Ether") {
						if mk, ok := paren(c.Args[0]).(*ast.CallExpr); ok && exprStr(mk.Fun) == "make" {
							alloc = true
						}
					}
					return true
				})
				uses = uses || (alloc && writes)
				if !uses {
					continue
				}
				name := fd.Name.Name
				if p != root {
					name = p.Name + "_" + name
				}
				if seen[name] {
					continue
				}
				seen[name] = true
				cs = append(cs, cand{name, p, fd})
			}
		}
	}
	sort.Slice(cs, func(i, j int) bool { return cs[i].name < cs[j].name })
	b.WriteString("/- GENERATED by /verif/tools/goextract (senders.go) from the Go sources in /repo — do not edit. -/\n")
	b.WriteString("import PacketVerif.Gen.Encoders\nimport PacketVerif.Gen.LoopsMarshal\nimport PacketVerif.Model.SendGo\nset_option linter.unusedVariables false\nnamespace PV.Gen.Send\nopen PV PV.Model\n\n")
	// ICMP.SetChecksum: its own body, through the store forms of the encoder translator
	cksOK := false
	if fd := findFunc(root, "ICMP", "SetChecksum"); fd != nil && fd.Body != nil && fd.Recv != nil && len(fd.Recv.List) == 1 && len(fd.Recv.List[0].Names) == 1 {
		info := root.TypesInfo
		t := &encTr{p: root, info: info, name: "ICMP_SetChecksum", env: map[types.Object]*evar{}, indent: "  ", assume: map[string]bool{}, callees: map[string]bool{}, addrVars: addr}
		fn := info.Defs[fd.Name].(*types.Func)
		sig := fn.Type().(*types.Signature)
		if sig.Params().Len() == 1 && basicKind(sig.Params().At(0).Type()) == types.Uint16 && sig.Results().Len() == 0 {
			t.env[sig.Recv()] = &evar{kSl, leanName(sig.Recv().Name())}
			t.env[sig.Params().At(0)] = &evar{kNat, leanName(sig.Params().At(0).Name())}
			var err error
			for _, s := range fd.Body.List {
				if !isStore(info, s) {
					err = fail("statement %T", s)
					break
				}
				if err = t.stmt(s); err != nil {
					break
				}
			}
			if err == nil {
				cksOK = true
				fmt.Fprintf(b, "/-- Go: func (p ICMP) SetChecksum(cs uint16) (layer_icmp.go) -/\ndef ICMP_SetChecksum (m : Mem) (%s : Sl) (%s : Nat) : Outcome Mem := do\n%s\n  pure m\n\n",
					leanName(sig.Recv().Name()), leanName(sig.Params().At(0).Name()), strings.Join(t.lines, "\n"))
			}
		}
	}
	if !cksOK {
		b.WriteString("/-- ICMP.SetChecksum could not be translated -/\ndef ICMP_SetChecksum (m : Mem) (p : Sl) (cs : Nat) : Outcome Mem := unmodelled\n\n")
	}
	ignored, dict := map[string]bool{}, map[string]bool{}
	var done, untr []string
	senders := map[*types.Func]*sendResult{}
	var sessArgs []string
	for _, c := range cs {
		r := translateSender(c.p, c.fd, c.name, encs, addr, ignored, dict, nil)
		if r.err != nil {
			untr = append(untr, fmt.Sprintf("(%q, %q)", c.name, r.err.Error()))
			continue
		}
		done = append(done, fmt.Sprintf("%q", c.name))
		sessArgs = append(sessArgs, fmt.Sprintf("(%q, %s)", c.name, sendStrList(r.extraNames)))
		rr := r
		senders[c.p.TypesInfo.Defs[c.fd.Name].(*types.Func)] = &rr
		fmt.Fprintf(b, "/-- Go: %s -/\n%s\n%s\n\n", strings.ReplaceAll(r.src, "-/", "- /"), r.sig, strings.Join(r.lines, "\n"))
	}
	// second level: functions that END in `return h.<translated send path>(…)` (message builders + send)
	var ws []cand
	for _, p := range all {
		for _, f := range p.Syntax {
			for _, d := range f.Decls {
				fd, ok := d.(*ast.FuncDecl)
				if !ok || fd.Body == nil || len(fd.Body.List) == 0 {
					continue
				}
				rs, ok := fd.Body.List[len(fd.Body.List)-1].(*ast.ReturnStmt)
				if !ok || len(rs.Results) != 1 {
					continue
				}
				c, ok := paren(rs.Results[0]).(*ast.CallExpr)
				if !ok && len(fd.Body.List) >= 2 && exprStr(rs.Results[0]) == "err" {
					if as, isAs := fd.Body.List[len(fd.Body.List)-2].(*ast.AssignStmt); isAs && len(as.Rhs) == 1 && len(as.Lhs) == 1 && exprStr(as.Lhs[0]) == "err" {
						c, ok = paren(as.Rhs[0]).(*ast.CallExpr)
					}
				}
				if !ok {
					continue
				}
				sel, ok := c.Fun.(*ast.SelectorExpr)
				if !ok {
					continue
				}
				fn, _ := p.TypesInfo.Uses[sel.Sel].(*types.Func)
				if fn == nil || senders[fn] == nil {
					continue
				}
				name := fd.Name.Name
				if p != root {
					name = p.Name + "_" + name
				}
				if seen[name] {
					continue
				}
				seen[name] = true
				ws = append(ws, cand{name, p, fd})
			}
		}
	}
	sort.Slice(ws, func(i, j int) bool { return ws[i].name < ws[j].name })
	var wdone, wuntr []string
	for _, c := range ws {
		r := translateSender(c.p, c.fd, c.name, encs, addr, ignored, dict, senders)
		if r.err != nil {
			wuntr = append(wuntr, fmt.Sprintf("(%q, %q)", c.name, r.err.Error()))
			continue
		}
		wdone = append(wdone, fmt.Sprintf("%q", c.name))
		sessArgs = append(sessArgs, fmt.Sprintf("(%q, %s)", c.name, sendStrList(r.extraNames)))
		fmt.Fprintf(b, "/-- Go: %s -/\n%s\n%s\n\n", strings.ReplaceAll(r.src, "-/", "- /"), r.sig, strings.Join(r.lines, "\n"))
	}
	lst := func(m map[string]bool) string {
		var l []string
		for k := range m {
			l = append(l, fmt.Sprintf("%q", k))
		}
		sort.Strings(l)
		return strings.Join(l, ", ")
	}
	fmt.Fprintf(b, "/-- F15: the send paths (functions taking a frame buffer from the pool) translated above -/\ndef sendersTranslated : List String := [%s]\n\n", strings.Join(done, ", "))
	fmt.Fprintf(b, "/-- F15: send paths the translator could NOT express, with the first offending construct -/\ndef sendersUntranslated : List (String × String) := [\n  %s]\n\n", strings.Join(untr, ",\n  "))
	fmt.Fprintf(b, "/-- F15: functions ending in a call of a translated send path (message builder + send), translated above -/\ndef wrappersTranslated : List String := [%s]\n\n", strings.Join(wdone, ", "))
	fmt.Fprintf(b, "/-- F15: such functions the translator could NOT express, with the first offending construct -/\ndef wrappersUntranslated : List (String × String) := [\n  %s]\n\n", strings.Join(wuntr, ",\n  "))
	fmt.Fprintf(b, "/-- F15: per translated function, the session / package-level values it reads (its trailing arguments, in order): which NIC field is the Ethernet source is part of the tie -/\ndef sendersSessionArgs : List (String × List String) := [\n  %s]\n\n", strings.Join(sessArgs, ",\n  "))
	fmt.Fprintf(b, "/-- F15: statements without effect on the frame that were skipped -/\ndef sendersIgnored : List String := [%s]\n\n", lst(ignored))
	fmt.Fprintf(b, "/-- F15: Go callees replaced by a model function -/\ndef sendersDict : List String := [%s]\n\n", lst(dict))
	fmt.Fprintf(b, "/-- F15: ICMP.SetChecksum was regenerated from its own body -/\ndef setChecksumTranslated : Bool := %v\n\n", cksOK)
	b.WriteString("end PV.Gen.Send\n")
}
