package main

// F14: the option / TLV parsers translated into Lean source (Gen/LoopsOpts.lean, regenerated on every run) by the loop
// translator of loops.go run in its EXTENDED mode (`lpGen.ext != nil`; Gen/Loops.lean is produced with ext == nil and is
// unchanged by anything in this file).  Props/C08OptTie.lean proves each generated function equal to the hand-written
// function of Model/Dhcp4Opt.lean / Model/Ndp.lean for every input.
//
// What the extended mode adds to the statement language of loops.go (everything else is still REFUSED, the function
// goes into `optsUntranslated` with the first offending construct):
//
//	results      a last result of type `error`: `return …, nil` is the normal result, `return …, E` with E certainly not
//	             nil is `Outcome.err c` (the other results are not represented: convention `errDropsResults`), c = the Err
//	             constructor of a package-level sentinel of package packet that has one, `.other` for every other error
//	             value (other package-level error variables, fmt.Errorf / errors.New calls — their arguments are still
//	             evaluated, they can panic); every rendering is listed in `optsErrs`.  Such a return is allowed inside a
//	             loop (the monad carries it out); a successful return inside a loop is refused.
//	             `return nil` for a byte-slice result is the empty byte string (length-only view: nil and empty agree on
//	             len, range, copy, append).
//	calls        x.M(args) for a translated method M with a byte-slice value receiver (`p.Options()`)
//	maps         map[K][]byte with K a byte type → GMap (association list in insertion order): `make(map, n)` → [],
//	             `m[k] = v` → mapSet (overwrite in place, else append), `delete(m, k)` → mapDel, `v, ok := m[k]` in an
//	             if-initialiser → mapGet
//	loops        measure `len(v) + 1` for `for len(v) >= c [&& …] {…}` / `for len(v) > c …`, and `len(x) − i + 1` for
//	             `for …; len(x[i:]) != 0; {…}` — as in loops.go the fuel is NOT trusted: too little shows as `.hang` and
//	             the tie theorem with the hang-free model fails.

import (
	"fmt"
	"go/ast"
	"go/constant"
	"go/token"
	"go/types"
	"regexp"
	"sort"
	"strings"

	"golang.org/x/tools/go/packages"
)

type lpExt struct {
	errs        map[string]string // Go error expression → rendered Err constructor
	assumptions map[string]string
	structs     map[*types.Named]string
	structDefs  []string
	structBusy  map[*types.Named]bool
	nonNilErr   map[*types.Var]bool
	nilSites    []string
}

func (x *lpExt) assume(id, text string) { x.assumptions[id] = text }

// ---- types ----

func lpIsByteKind(ty types.Type) bool {
	b, ok := ty.Underlying().(*types.Basic)
	return ok && b.Kind() == types.Uint8
}

func lpIsOptMap(ty types.Type) bool {
	m, ok := ty.Underlying().(*types.Map)
	if !ok {
		return false
	}
	if !lpIsByteKind(m.Key()) {
		return false
	}
	s, ok := m.Elem().Underlying().(*types.Slice)
	return ok && lpIsByteKind(s.Elem())
}

func (t *lpTr) extLeanTy(ty types.Type) string {
	if lpIsOptMap(ty) {
		return "GMap"
	}
	return t.extStructTy(ty)
}

func (t *lpTr) isNil(e ast.Expr) bool {
	id, ok := paren(e).(*ast.Ident)
	if !ok {
		return false
	}
	_, isNil := t.info.Uses[id].(*types.Nil)
	return isNil
}

// ---- expressions ----

func (t *lpTr) isBuiltin(c *ast.CallExpr, name string) bool {
	id, ok := paren(c.Fun).(*ast.Ident)
	if !ok || id.Name != name {
		return false
	}
	_, b := t.info.Uses[id].(*types.Builtin)
	return b
}

func (t *lpTr) extBytesExpr(e ast.Expr, b *lpBinds) (string, bool) {
	if t.isNil(e) {
		return "([] : Bytes)", true
	}
	return t.extStructBytes(e, b)
}

func (t *lpTr) extExpr(e ast.Expr, b *lpBinds) (string, bool) {
	switch x := e.(type) {
	case *ast.CallExpr:
		if t.isBuiltin(x, "make") && len(x.Args) >= 1 && lpIsOptMap(t.info.TypeOf(x.Args[0])) {
			for _, a := range x.Args[1:] {
				if _, ok := t.constInt(a); !ok {
					t.refuse(e, "make(map) with a non-constant size hint")
				}
			}
			return "([] : GMap)", true
		}
		if t.isBuiltin(x, "len") && len(x.Args) == 1 && lpIsOptMap(t.info.TypeOf(x.Args[0])) {
			return "(" + t.expr(x.Args[0], b) + ".length : Int)", true
		}
	}
	return t.extStructExpr(e, b)
}

// an expression in a position whose Go type is known (a result, an assignment): `nil` becomes the zero of that type
func (t *lpTr) exprAs(e ast.Expr, want types.Type, b *lpBinds) string {
	if t.isNil(e) {
		switch lt := t.leanTy(want); lt {
		case "Bytes":
			return "([] : Bytes)"
		case "GMap":
			return "([] : GMap)"
		default:
			t.refuse(e, "nil of type %s", want)
		}
	}
	return t.expr(e, b)
}

func (t *lpTr) extMethodCall(c *ast.CallExpr, f *ast.SelectorExpr, callee *types.Func, b *lpBinds, want bool) string {
	sig := callee.Type().(*types.Signature)
	rt := sig.Recv().Type()
	if s, ok := t.marshalPtrCall(c, f, callee, b, want); ok { // loops_marshal.go: read-only method of a pointer receiver
		return s
	}
	if _, isPtr := rt.(*types.Pointer); isPtr {
		t.refuse(c, "pointer-receiver method call %s outside the supported statement forms", nodeText(c.Fun))
	}
	if !lpIsBytes(rt) {
		t.refuse(c, "method call on a receiver of type %s", rt)
	}
	cf, why := t.g.translate(callee)
	if cf == nil {
		t.refuse(c, "calls %s, which is not translated: %s", callee.Name(), why)
	}
	if cf.errRes {
		t.refuse(c, "call of %s, which returns an error, outside `if err := …; err != nil`", callee.Name())
	}
	if len(cf.mutated) > 0 {
		t.refuse(c, "calls %s, which writes its receiver", callee.Name())
	}
	args := []string{t.bytesExpr(f.X, b)}
	for _, a := range c.Args {
		args = append(args, t.argExpr(a, b))
	}
	n := t.tmp()
	if !want {
		n = "_"
	}
	b.add(fmt.Sprintf("let %s ← %s %s", n, cf.lean, strings.Join(args, " ")))
	return n
}

// ---- statements ----

func (t *lpTr) mapVar(e ast.Expr) *types.Var {
	v := t.varOf(e)
	if v == nil || !t.isLocal(v) || !lpIsOptMap(v.Type()) {
		return nil
	}
	return v
}

func (t *lpTr) extSimple(s ast.Stmt, b *lpBinds) bool {
	switch x := s.(type) {
	case *ast.AssignStmt:
		if len(x.Lhs) == 1 && len(x.Rhs) == 1 && x.Tok == token.ASSIGN {
			if ix, ok := paren(x.Lhs[0]).(*ast.IndexExpr); ok {
				if m := t.mapVar(ix.X); m != nil {
					// Go: index operands, then the right side, then the store (a map store does not panic on a non-nil map;
					// every map here comes from make or a parameter — assumption mapNonNil)
					t.g.ext.assume("mapNonNil", "a map that is stored into is not nil (it comes from make(...) in the same function, or is a parameter the callers always pass non-nil)")
					k := t.expr(ix.Index, b)
					v := t.bytesExpr(x.Rhs[0], b)
					n := lpName(m.Name())
					b.add(fmt.Sprintf("let %s : GMap := mapSet %s %s %s", n, n, k, v))
					return true
				}
			}
		}
		return t.extStructAssign(x, b)
	case *ast.ExprStmt:
		if c, ok := paren(x.X).(*ast.CallExpr); ok {
			if t.isBuiltin(c, "delete") && len(c.Args) == 2 {
				if m := t.mapVar(c.Args[0]); m != nil {
					k := t.expr(c.Args[1], b)
					n := lpName(m.Name())
					b.add(fmt.Sprintf("let %s : GMap := mapDel %s %s", n, n, k))
					return true
				}
			}
			return t.extStructCallStmt(c, b)
		}
	}
	return false
}

func (t *lpTr) extAssignedCall(c *ast.CallExpr, res map[*types.Var]bool) {
	if t.isBuiltin(c, "delete") && len(c.Args) == 2 {
		if v := t.varOf(c.Args[0]); v != nil {
			res[v] = true
		}
	}
	t.extStructAssignedCall(c, res)
}

func (t *lpTr) extParamMutated(body ast.Node, v *types.Var, as map[*types.Var]bool) bool {
	if lpIsOptMap(v.Type()) {
		// a map is a reference: a store or delete is visible to the caller
		found := false
		ast.Inspect(body, func(n ast.Node) bool {
			switch s := n.(type) {
			case *ast.AssignStmt:
				for _, l := range s.Lhs {
					if ix, ok := paren(l).(*ast.IndexExpr); ok && t.varOf(ix.X) == v {
						found = true
					}
				}
			case *ast.CallExpr:
				if t.isBuiltin(s, "delete") && len(s.Args) == 2 && t.varOf(s.Args[0]) == v {
					found = true
				}
			}
			return true
		})
		return found
	}
	return t.extStructParamMutated(body, v, as)
}

// the rendering of a certainly-non-nil error expression; "" when e is not one
func (t *lpTr) errValue(e ast.Expr, b *lpBinds) string {
	e = paren(e)
	switch x := e.(type) {
	case *ast.Ident:
		if v, ok := t.info.Uses[x].(*types.Var); ok && v.Pkg() != nil && v.Parent() == v.Pkg().Scope() && isErrorType(v.Type()) {
			c := "other"
			if v.Pkg().Path() == "github.com/irai/packet" && leanErrs[x.Name] != "" {
				c = leanErrs[x.Name]
			}
			t.g.ext.errs[v.Pkg().Name()+"."+x.Name] = c
			return "Err." + c
		}
	case *ast.SelectorExpr:
		if v, ok := t.info.Uses[x.Sel].(*types.Var); ok && v.Pkg() != nil && v.Parent() == v.Pkg().Scope() && isErrorType(v.Type()) {
			c := "other"
			if v.Pkg().Path() == "github.com/irai/packet" && leanErrs[x.Sel.Name] != "" {
				c = leanErrs[x.Sel.Name]
			}
			t.g.ext.errs[v.Pkg().Name()+"."+x.Sel.Name] = c
			return "Err." + c
		}
	case *ast.CallExpr:
		if sel, ok := paren(x.Fun).(*ast.SelectorExpr); ok {
			if f, ok := t.info.Uses[sel.Sel].(*types.Func); ok && f.Pkg() != nil {
				full := f.Pkg().Path() + "." + f.Name()
				if full == "fmt.Errorf" || full == "errors.New" {
					// the arguments are evaluated (they can panic); the error value itself is `.other`
					for _, a := range x.Args[1:] {
						t.evalForPanic(a, b)
					}
					if len(x.Args) == 0 {
						t.refuse(e, "error constructor without arguments")
					}
					if _, ok := t.constOf(x.Args[0]); !ok {
						t.refuse(e, "error constructor with a non-constant format")
					}
					t.g.ext.errs[full+"(…)"] = "other"
					return "Err.other"
				}
			}
		}
	}
	return ""
}

// evaluate an argument only for the panics it can raise (the value is not used)
func (t *lpTr) evalForPanic(a ast.Expr, b *lpBinds) {
	if t.marshalEvalForPanic(a, b) { // loops_marshal.go: x.String() of a standard-library type
		return
	}
	ty := t.info.TypeOf(a)
	if ty != nil && t.leanTy(ty) != "" && t.leanTy(ty) != "GLine" {
		t.expr(a, b)
		return
	}
	t.refuse(a, "argument %s of an error constructor", nodeText(a))
}

func (t *lpTr) extReturn(x *ast.ReturnStmt, ind int, j *lpJump) ([]string, bool) {
	if ls, ok := t.marshalReturn(x, ind, j); ok { // loops_marshal.go: `return f(…)` of a call with the same results
		return ls, true
	}
	fn := t.fn
	sig := t.info.Defs[t.fd.Name].(*types.Func).Type().(*types.Signature)
	if !fn.errRes {
		if len(x.Results) == 1 && t.isNil(x.Results[0]) && j.ret != nil && fn.nret == 1 {
			var b lpBinds
			val := t.exprAs(x.Results[0], sig.Results().At(0).Type(), &b)
			return j.ret(val, ind), true
		}
		return nil, false
	}
	if len(x.Results) != sig.Results().Len() {
		t.refuse(x, "return with %d values in a function with %d results", len(x.Results), sig.Results().Len())
	}
	e := x.Results[len(x.Results)-1]
	vals := x.Results[:len(x.Results)-1]
	var b lpBinds
	if t.isNil(e) {
		if j.ret == nil {
			t.refuse(x, "successful return inside a loop")
		}
		val := ""
		if len(vals) == 1 {
			val = t.exprAs(vals[0], sig.Results().At(0).Type(), &b)
		}
		lines := lpPut(nil, ind, &b)
		return append(lines, j.ret(val, ind)...), true
	}
	// Go evaluates the other results first
	for _, v := range vals {
		if !t.isNil(v) && !t.isZeroLit(v) {
			t.exprAs(v, t.info.TypeOf(v), &b)
		}
	}
	if ev := t.errValue(e, &b); ev != "" {
		t.g.ext.assume("errDropsResults", "when a function returns a non-nil error its other results are not represented (Outcome.err carries only the error); a caller that used them is refused")
		lines := lpPut(nil, ind, &b)
		return append(lines, lpInd(ind)+"Outcome.err "+ev), true
	}
	if ls, ok := t.extReturnErrVar(x, e, vals, ind, j, &b); ok {
		return ls, true
	}
	t.refuse(x, "returned error %s is neither nil nor certainly non-nil", nodeText(e))
	return nil, false
}

// T{} of a struct / named type: the zero value, nothing to evaluate
func (t *lpTr) isZeroLit(e ast.Expr) bool {
	cl, ok := paren(e).(*ast.CompositeLit)
	return ok && len(cl.Elts) == 0
}

// after the body is translated: external callees become leading parameters; does an error return follow a receiver write?
func (t *lpTr) extFinish(fn *lpFunc, body []string) []string {
	fn.exts = t.exts
	var ps, ns []string
	for _, e := range t.exts {
		ps = append(ps, fmt.Sprintf("(%s : %s)", e.name, e.ty))
		ns = append(ns, e.name)
	}
	fn.params = append(ps, fn.params...)
	if len(ns) > 0 {
		// the loop functions of this function take the external callees too (definition and every call)
		re := regexp.MustCompile(`\b` + regexp.QuoteMeta(fn.lean) + `_loop[0-9]+\b`)
		fix := func(text string) string {
			lines := strings.Split(text, "\n")
			for i, l := range lines {
				if strings.HasPrefix(l, "def ") {
					lines[i] = re.ReplaceAllString(l, "${0} "+strings.Join(ps, " "))
				} else {
					lines[i] = re.ReplaceAllString(l, "${0} "+strings.Join(ns, " "))
				}
			}
			return strings.Join(lines, "\n")
		}
		for i := range t.loops {
			t.loops[i] = fix(t.loops[i])
		}
		for i := range body {
			body[i] = fix(body[i])
		}
	}
	if len(fn.mutated) == 0 || !fn.errRes {
		return body
	}
	mut := map[*types.Var]bool{}
	for _, v := range fn.mutated {
		mut[v] = true
	}
	type site struct {
		pos   token.Pos
		loops []ast.Node
	}
	var muts, rets []site
	var walk func(n ast.Node, loops []ast.Node)
	walk = func(n ast.Node, loops []ast.Node) {
		ast.Inspect(n, func(x ast.Node) bool {
			switch s := x.(type) {
			case *ast.ForStmt, *ast.RangeStmt:
				if x != n {
					walk(x, append(append([]ast.Node{}, loops...), x))
					return false
				}
			case *ast.AssignStmt:
				for _, l := range s.Lhs {
					if v := t.rootVar(l); v != nil && mut[v] && s.Tok != token.DEFINE {
						muts = append(muts, site{s.Pos(), loops})
					}
				}
			case *ast.IncDecStmt:
				if v := t.rootVar(s.X); v != nil && mut[v] {
					muts = append(muts, site{s.Pos(), loops})
				}
			case *ast.CallExpr:
				r := map[*types.Var]bool{}
				t.extAssignedCall(s, r)
				if t.isCopy(s) && len(s.Args) == 2 {
					if v := t.rootVar(s.Args[0]); v != nil {
						r[v] = true
					}
				}
				for v := range r {
					if mut[v] {
						muts = append(muts, site{s.Pos(), loops})
					}
				}
			case *ast.ReturnStmt:
				if len(s.Results) > 0 && !t.isNil(s.Results[len(s.Results)-1]) {
					rets = append(rets, site{s.Pos(), loops})
				}
			}
			return true
		})
	}
	walk(t.fd.Body, nil)
	for _, m := range muts {
		for _, r := range rets {
			if m.pos < r.pos {
				fn.errMut = true
			}
			for _, a := range m.loops {
				for _, b := range r.loops {
					if a == b {
						fn.errMut = true
					}
				}
			}
		}
	}
	return body
}

// ---- termination measures ----

func (t *lpTr) extFuel(x *ast.ForStmt) (string, bool) {
	if x.Cond == nil {
		return "", false
	}
	c := paren(x.Cond)
	for {
		be, ok := c.(*ast.BinaryExpr)
		if ok && be.Op == token.LAND {
			c = paren(be.X)
			continue
		}
		break
	}
	be, ok := c.(*ast.BinaryExpr)
	if !ok {
		return "", false
	}
	call, ok := paren(be.X).(*ast.CallExpr)
	if !ok || !t.isBuiltin(call, "len") || len(call.Args) != 1 {
		return "", false
	}
	k, isConst := t.constInt(be.Y)
	if !isConst {
		return "", false
	}
	arg := paren(call.Args[0])
	if v := t.varOf(arg); v != nil && t.isLocal(v) && lpIsBytes(v.Type()) {
		if (be.Op == token.GEQ && k >= 1) || (be.Op == token.GTR && k >= 0) || (be.Op == token.NEQ && k == 0) {
			return lpName(v.Name()) + ".length + 1", true
		}
	}
	if se, ok := arg.(*ast.SliceExpr); ok && se.High == nil && se.Low != nil && !se.Slice3 {
		v := t.varOf(se.X)
		i := t.varOf(se.Low)
		if v != nil && i != nil && t.isLocal(v) && t.isLocal(i) && lpIsBytes(v.Type()) && t.leanTy(i.Type()) == "Int" {
			if (be.Op == token.NEQ && k == 0) || (be.Op == token.GTR && k >= 0) || (be.Op == token.GEQ && k >= 1) {
				return fmt.Sprintf("((%s.length : Int) - %s).toNat + 1", lpName(v.Name()), lpName(i.Name())), true
			}
		}
	}
	return "", false
}

// ---- the generated file ----

var lpOptsCandidates = []struct{ recv, name string }{
	{"DHCP4", "Options"}, {"DHCP4", "validateOptions"}, {"DHCP4", "ParseOptions"}, {"DHCP4", "AppendOptions"},
	{"LinkLayerAddress", "unmarshal"}, {"MTU", "unmarshal"}, {"PrefixInformation", "unmarshal"},
	{"RouteInformation", "unmarshal"}, {"RecursiveDNSServer", "unmarshal"}, {"DNSSearchList", "unmarshal"},
	{"RawOption", "unmarshal"}, {"", "checkPreference"}, {"", "newParseOptions"},
}

func loopOptsFacts(pkgs []*packages.Package, b *strings.Builder) {
	ext := &lpExt{errs: map[string]string{}, assumptions: map[string]string{}, structs: map[*types.Named]string{}, structBusy: map[*types.Named]bool{}, nonNilErr: map[*types.Var]bool{}}
	g := &lpGen{pkgs: map[string]*packages.Package{}, done: map[*types.Func]*lpFunc{}, refused: map[*types.Func]string{}, busy: map[*types.Func]bool{}, tables: map[*types.Var]string{}, ext: ext}
	var root *packages.Package
	for _, p := range pkgs {
		g.pkgs[p.PkgPath] = p
		if p.PkgPath == "github.com/irai/packet" {
			root = p
		}
	}
	type cand struct {
		f   *types.Func
		key string
	}
	var cands []cand
	var missing []string
	if root != nil {
		for _, c := range lpOptsCandidates {
			fd := findFunc(root, c.recv, c.name)
			if fd == nil {
				missing = append(missing, "packet."+c.recv+"."+c.name)
				continue
			}
			f := root.TypesInfo.Defs[fd.Name].(*types.Func)
			cands = append(cands, cand{f, lpFuncKey(f)})
		}
	}
	for _, c := range cands {
		g.translate(c.f)
	}
	b.WriteString("/- GENERATED by /verif/tools/goextract (loops.go in extended mode + loops_opts.go) from the Go sources in /repo — do not edit. -/\nimport PacketVerif.Model.LoopGo\nimport PacketVerif.Model.LoopGoOpts\nset_option linter.unusedVariables false\nnamespace PV.Gen.LoopsOpts\nopen PV PV.Model.LoopGo PV.Model.LoopGoOpts\n\n")
	for _, d := range g.tableDefs {
		b.WriteString(d + "\n")
	}
	for _, d := range ext.structDefs {
		b.WriteString(d + "\n")
	}
	for _, fn := range g.order {
		b.WriteString(fn.text + "\n")
	}
	b.WriteString("/-- translated functions: (Go name, generated Lean function) — candidates and the callees translated on demand -/\ndef optsTranslated : List (String × String) := [\n")
	var rows []string
	for _, fn := range g.order {
		rows = append(rows, fmt.Sprintf("  (%q, %q)", fn.key, fn.lean))
	}
	b.WriteString(strings.Join(rows, ",\n") + "]\n\n")
	b.WriteString("/-- candidates the translator REFUSED, with the first offending construct -/\ndef optsUntranslated : List (String × String) := [\n")
	rows = nil
	for _, c := range cands {
		if w, ok := g.refused[c.f]; ok {
			rows = append(rows, fmt.Sprintf("  (%q, %q)", c.key, w))
		}
	}
	for _, m := range missing {
		rows = append(rows, fmt.Sprintf("  (%q, %q)", m, "function not found"))
	}
	b.WriteString(strings.Join(rows, ",\n") + "]\n\n")
	var fuels []string // only the loops of functions that were translated (a refused function may have had a first loop)
	for _, fl := range g.fuels {
		for _, fn := range g.order {
			if strings.HasPrefix(fl, "(\""+fn.lean+"_loop") {
				fuels = append(fuels, fl)
			}
		}
	}
	b.WriteString("/-- the fuel handed to every generated loop function (not trusted: too little fuel shows as `.hang`) -/\ndef optsFuels : List (String × String) := [\n  " + strings.Join(fuels, ",\n  ") + "]\n\n")
	var ek []string
	for k := range ext.errs {
		ek = append(ek, k)
	}
	sort.Strings(ek)
	rows = nil
	for _, k := range ek {
		rows = append(rows, fmt.Sprintf("(%q, Err.%s)", k, ext.errs[k]))
	}
	b.WriteString("/-- every Go error value returned by a translated function and the Err constructor it was rendered as -/\ndef optsErrs : List (String × Err) := [" + strings.Join(rows, ", ") + "]\n\n")
	ext.assume("intNoOverflow", "Go int is modelled as an unbounded integer; every int value in the translated functions is a length, an index below a length plus a small constant, a byte times a small constant, or a 32-bit value times 10^9")
	ext.assume("capEqLen", "a slice expression x[lo:hi] on a byte-slice value is checked against len(x) (the length-only view of the models)")
	var ak []string
	for k := range ext.assumptions {
		ak = append(ak, k)
	}
	sort.Strings(ak)
	rows = nil
	for _, k := range ak {
		rows = append(rows, fmt.Sprintf("  (%q, %q)", k, ext.assumptions[k]))
	}
	b.WriteString("/-- what the translation assumes about Go (reviewed in design_notes/bF.md) -/\ndef optsAssumptions : List (String × String) := [\n" + strings.Join(rows, ",\n") + "]\n\n")
	rows = nil
	for _, fn := range g.order {
		for _, e := range fn.exts {
			rows = append(rows, fmt.Sprintf("  (%q, %q, %q, %q)", fn.lean, e.name, e.key, e.why))
		}
	}
	b.WriteString("/-- untranslated callees that a generated function takes as a parameter: (generated function, parameter, Go callee, why it is not translated) -/\ndef optsExternals : List (String × String × String × String) := [\n" + strings.Join(rows, ",\n") + "]\n\n")
	rows = nil
	for _, s := range ext.nilSites {
		rows = append(rows, fmt.Sprintf("  %q", s))
	}
	b.WriteString("/-- every `x == nil` / `x != nil` on a byte slice that was rendered as a length test (assumption nilIsEmpty) -/\ndef optsNilSites : List String := [\n" + strings.Join(rows, ",\n") + "]\n\n")
	b.WriteString("end PV.Gen.LoopsOpts\n")
	_ = constant.MakeBool
}
