package main

// Translation of the ping code of layer_icmp.go (echoNotify, Session.ping / Ping6 / Ping,
// Session.ICMP4SendEchoRequest / ICMP6SendEchoRequest) into Lean (Gen/PingGen.lean), statement by statement.
//
// Three shapes of function:
//   prog  - a function that blocks (ping, Ping6, Ping): a value of Model.PingGo.Prog.  The statements between
//           icmpTable.Lock() and icmpTable.Unlock() become ONE `Prog.atomic` node, the transmitting call a
//           `Prog.call` node, the select a `Prog.select` node, a read of msg outside a lock section a `Prog.read` node.
//   state - echoNotify: a function State -> State; the whole body must be one lock section.
//   send  - the two SendEchoRequest functions: Outcome (frames written × error).
// Whatever has no supported form refuses the function (pingUntranslated), its definition is not emitted and
// every theorem of Props/C19PingTie about it fails.  Ignored statements (logging, the construction of the
// call's own entry) are listed in pingIgnored and pinned there.

import (
	"fmt"
	"go/ast"
	"go/constant"
	"go/token"
	"go/types"
	"strings"

	"golang.org/x/tools/go/packages"
)

type pgMode int

const (
	pgProg pgMode = iota
	pgState
	pgSend
)

type pgErr struct{ msg string }

type pgTr struct {
	info     *types.Info
	mode     pgMode
	fname    string
	inLock   bool
	vars     map[string]string // Go local / parameter -> Lean term
	entry    string            // name of the local icmpEntry of this call ("" if none)
	ignored  *[]string
	callees  map[string]bool
	assume   map[string]bool
	progFns  map[string]bool // names of prog-shaped targets
	sendFns  map[string]bool // send-shaped targets already translated
	progDone map[string]bool // prog-shaped targets already translated
	sls      map[string]bool // locals that are slices of the pooled array (Ether, IP4)
	buf      string          // the local holding the pooled array
}

func (x *pgTr) fail(n ast.Node, format string, a ...any) {
	panic(pgErr{fmt.Sprintf("%s: %s (line %d)", arpClip(nodeText(n), 60), fmt.Sprintf(format, a...), fset.Position(n.Pos()).Line)})
}

func (x *pgTr) ignore(n ast.Node, why string) {
	*x.ignored = append(*x.ignored, fmt.Sprintf("%s: %s: %s", x.fname, why, arpClip(strings.Join(strings.Fields(nodeText(n)), " "), 90)))
}

var pgErrNames = map[string]string{"ErrTimeout": "timeout", "ErrInvalidIP": "invalidIP"}

// isTable reports whether e is icmpTable.<field>
func pgIsTable(e ast.Expr, field string) bool {
	s, ok := e.(*ast.SelectorExpr)
	if !ok || s.Sel.Name != field {
		return false
	}
	id, ok := s.X.(*ast.Ident)
	return ok && id.Name == "icmpTable"
}

func pgMentions(n ast.Node, name string) bool {
	found := false
	ast.Inspect(n, func(m ast.Node) bool {
		if id, ok := m.(*ast.Ident); ok && id.Name == name {
			found = true
		}
		return !found
	})
	return found
}

func (x *pgTr) needLock(n ast.Node) {
	if !x.inLock {
		x.fail(n, "icmpTable accessed outside icmpTable.Lock()/Unlock()")
	}
}

// expr translates an expression; the second result is a coarse kind: "int" (Lean Int), "nat", "bool", "bytes", "addr", "err", "str", "entry"
func (x *pgTr) expr(e ast.Expr) (string, string) {
	if tv, ok := x.info.Types[e]; ok && tv.Value != nil {
		switch tv.Value.Kind() {
		case constant.Int:
			k := "nat"
			if b, ok := tv.Type.Underlying().(*types.Basic); ok && (b.Kind() == types.Int64 || b.Kind() == types.Int || b.Kind() == types.UntypedInt) {
				if n, ok := tv.Type.(*types.Named); ok && n.Obj().Name() == "Duration" {
					k = "int"
				}
			}
			return tv.Value.ExactString(), k
		case constant.String:
			return fmt.Sprintf("%q", constant.StringVal(tv.Value)), "str"
		case constant.Bool:
			return tv.Value.ExactString(), "bool"
		}
	}
	switch v := e.(type) {
	case *ast.ParenExpr:
		return x.expr(v.X)
	case *ast.Ident:
		if v.Name == "nil" {
			return "(none : Option Err)", "err"
		}
		if n, ok := pgErrNames[v.Name]; ok {
			return "(some Err." + n + ")", "err"
		}
		if t, ok := x.vars[v.Name]; ok {
			return t, x.kindOf(x.info.TypeOf(v))
		}
		x.fail(v, "unknown identifier")
	case *ast.UnaryExpr:
		if v.Op == token.NOT {
			a, _ := x.expr(v.X)
			return "(!" + a + ")", "bool"
		}
		if v.Op == token.AND {
			if id, ok := v.X.(*ast.Ident); ok && id.Name == x.entry && x.entry != "" {
				return "p", "entry"
			}
		}
		x.fail(v, "unary operator")
	case *ast.BinaryExpr:
		a, ka := x.expr(v.X)
		b, kb := x.expr(v.Y)
		if ka == "int" || kb == "int" {
			ka = "int"
		}
		switch v.Op {
		case token.LOR:
			return "(" + a + " || " + b + ")", "bool"
		case token.LAND:
			return "(" + a + " && " + b + ")", "bool"
		case token.LEQ:
			return "(decide (" + a + " ≤ " + b + "))", "bool"
		case token.GTR:
			return "(decide (" + a + " > " + b + "))", "bool"
		case token.LSS:
			return "(decide (" + a + " < " + b + "))", "bool"
		case token.GEQ:
			return "(decide (" + a + " ≥ " + b + "))", "bool"
		case token.ADD:
			return "(" + a + " + " + b + ")", ka
		case token.NEQ:
			if ka == "err" && b == "(none : Option Err)" {
				return a + ".isSome", "bool"
			}
		case token.EQL:
			if ka == "err" && b == "(none : Option Err)" {
				return a + ".isNone", "bool"
			}
		}
		x.fail(v, "binary operator %s", v.Op)
	case *ast.SelectorExpr:
		if pgIsTable(v, "id") {
			x.needLock(v)
			return "st.nextId", "nat"
		}
		if pgIsTable(v, "table") {
			x.needLock(v)
			return "st.table", "table"
		}
		if id, ok := v.X.(*ast.Ident); ok && id.Name == x.entry && x.entry != "" {
			if v.Sel.Name == "msgRecv" {
				return "(st.th p).recv", "bool"
			}
			x.fail(v, "field of the call's entry")
		}
		if nodeText(v) == "h.NICInfo.HostAddr4.MAC" && x.mode == pgSend {
			return "e.hostMAC", "bytes"
		}
		if nodeText(v) == "h.NICInfo.HostAddr4" {
			x.vars["h.NICInfo.HostAddr4"] = "hostAddr4"
			return "hostAddr4", "addr"
		}
		a, k := x.expr(v.X)
		if k == "addr" && v.Sel.Name == "IP" {
			return a + ".ip", "bytes"
		}
		if k == "addr" && v.Sel.Name == "MAC" {
			return a + ".mac", "bytes"
		}
		x.fail(v, "selector")
	case *ast.CallExpr:
		return x.call(v)
	}
	x.fail(e, "expression")
	return "", ""
}

func (x *pgTr) kindOf(t types.Type) string {
	s := types.TypeString(t, func(p *types.Package) string { return p.Name() })
	switch s {
	case "time.Duration":
		return "int"
	case "uint16", "uint8", "int":
		return "nat"
	case "bool":
		return "bool"
	case "packet.Addr":
		return "addr"
	case "error":
		return "err"
	case "[]byte", "packet.ICMP", "net.HardwareAddr", "netip.Addr":
		return "bytes"
	case "packet.Ether", "packet.IP4":
		return "sl"
	case "string", "untyped string":
		return "str"
	case "*packet.icmpEntry":
		return "entry"
	}
	return "?" + s
}

func (x *pgTr) call(c *ast.CallExpr) (string, string) {
	fn := nodeText(c.Fun)
	switch fn {
	case "len":
		if pgIsTable(c.Args[0], "table") {
			x.needLock(c)
			return "(tlen st.table)", "int"
		}
		a, k := x.expr(c.Args[0])
		if k == "str" {
			return "(strBytes " + a + ").length", "nat"
		}
		if k == "bytes" {
			return a + ".length", "nat"
		}
	case "uint16":
		a, _ := x.expr(c.Args[0])
		return a, "nat"
	case "[]byte":
		if tv, ok := x.info.Types[c.Args[0]]; ok && tv.Value != nil && tv.Value.Kind() == constant.String {
			var bs []string
			for _, ch := range []byte(constant.StringVal(tv.Value)) {
				bs = append(bs, fmt.Sprint(ch))
			}
			return "([" + strings.Join(bs, ", ") + "] : Bytes)", "bytes"
		}
		a, k := x.expr(c.Args[0])
		if k == "str" {
			return "(strBytes " + a + ")", "bytes"
		}
	case "make":
		if nodeText(c.Args[0]) == "[]byte" && len(c.Args) == 2 {
			a, _ := x.expr(c.Args[1])
			return "(makeBytes " + a + ")", "bytes"
		}
	}
	if s, ok := c.Fun.(*ast.SelectorExpr); ok && len(c.Args) == 0 && (s.Sel.Name == "Is4" || s.Sel.Name == "Is6") {
		a, k := x.expr(s.X)
		if k == "bytes" {
			x.callees["netip.Addr."+s.Sel.Name] = true
			return "(ip" + s.Sel.Name + " " + a + ")", "bool"
		}
	}
	x.fail(c, "call")
	return "", ""
}

func (x *pgTr) semi() string {
	if x.mode == pgSend {
		return ""
	}
	return ";"
}

func (x *pgTr) doKw() string {
	if x.mode == pgSend {
		return " do"
	}
	return ""
}

func pgIsLock(s ast.Stmt, name string) bool {
	es, ok := s.(*ast.ExprStmt)
	if !ok {
		return false
	}
	c, ok := es.X.(*ast.CallExpr)
	return ok && nodeText(c.Fun) == "icmpTable."+name && len(c.Args) == 0
}

func (x *pgTr) isLog(s ast.Stmt) bool {
	switch v := s.(type) {
	case *ast.IfStmt:
		if c, ok := v.Cond.(*ast.CallExpr); ok && strings.HasPrefix(nodeText(c.Fun), "Logger.Is") && v.Init == nil && v.Else == nil {
			for _, b := range v.Body.List {
				if !x.isLog(b) {
					return false
				}
			}
			return true
		}
	case *ast.ExprStmt:
		return arpRootIdent(v.X) == "Logger"
	}
	return false
}

// ret renders a return in the current mode
func (x *pgTr) ret(r *ast.ReturnStmt, ind string) string {
	if x.inLock {
		x.fail(r, "return inside a lock section")
	}
	switch x.mode {
	case pgState:
		if len(r.Results) != 0 {
			x.fail(r, "return with a value")
		}
		return ind + "st\n"
	case pgProg:
		if len(r.Results) != 1 {
			x.fail(r, "return")
		}
		if c, ok := r.Results[0].(*ast.CallExpr); ok {
			if s, ok := c.Fun.(*ast.SelectorExpr); ok && nodeText(s.X) == "h" && x.progFns[s.Sel.Name] {
				if !x.progDone[s.Sel.Name] {
					x.fail(r, "callee %s was not translated", s.Sel.Name)
				}
				var args []string
				for _, a := range c.Args {
					t, _ := x.expr(a)
					args = append(args, t)
				}
				return ind + "Session_" + s.Sel.Name + " p " + strings.Join(args, " ") + "\n"
			}
		}
		t, k := x.expr(r.Results[0])
		if k != "err" {
			x.fail(r, "return of a non-error")
		}
		return ind + "Prog.done " + t + "\n"
	default:
		if len(r.Results) != 1 {
			x.fail(r, "return")
		}
		if c, ok := r.Results[0].(*ast.CallExpr); ok {
			fn := nodeText(c.Fun)
			if fn == "h.icmp4SendPacket" && !x.sendFns["icmp4SendPacket"] {
				x.fail(r, "callee icmp4SendPacket was not translated")
			}
			if fn == "h.icmp4SendPacket" {
				var args []string
				for _, a := range c.Args {
					t, _ := x.expr(a)
					args = append(args, t)
				}
				return ind + "Session_icmp4SendPacket e sent " + strings.Join(args, " ") + "\n"
			}
			if fn == "h.icmp6SendPacket" {
				var args []string
				for _, a := range c.Args {
					t, _ := x.expr(a)
					args = append(args, t)
				}
				x.callees["Session."+strings.TrimPrefix(fn, "h.")] = true
				return ind + strings.TrimPrefix(fn, "h.") + " e sent " + strings.Join(args, " ") + "\n"
			}
		}
		t, k := x.expr(r.Results[0])
		if k != "err" {
			x.fail(r, "return of a non-error")
		}
		return ind + ".ok (sent, " + t + ")\n"
	}
}

// block translates ss followed by the continuation `rest` (nil: the function ends; Go requires a return before)
func (x *pgTr) block(ss []ast.Stmt, ind string, rest func(ind string) string) string {
	if len(ss) == 0 {
		if rest == nil {
			if x.mode == pgState && !x.inLock {
				return ind + "st\n"
			}
			panic(pgErr{"control reaches the end of the function"})
		}
		return rest(ind)
	}
	s, tail := ss[0], ss[1:]
	next := func(ind string) string { return x.block(tail, ind, rest) }
	if x.isLog(s) {
		x.ignore(s, "log")
		return next(ind)
	}
	if pgIsLock(s, "Lock") {
		if x.inLock {
			x.fail(s, "nested Lock")
		}
		x.inLock = true
		if x.mode == pgProg {
			return ind + "Prog.atomic fun st =>\n" + next(ind+"  ")
		}
		if x.mode == pgState {
			x.ignore(s, "lock")
			return next(ind)
		}
		x.fail(s, "lock in a send function")
	}
	if pgIsLock(s, "Unlock") {
		if !x.inLock {
			x.fail(s, "Unlock without Lock")
		}
		x.inLock = false
		if x.mode == pgProg {
			out := ind + "(st,\n" + next(ind) + ind + ")\n"
			return out
		}
		x.ignore(s, "lock")
		return next(ind)
	}
	if x.mode == pgSend {
		if out, ok := x.sendStmt(s, ind, next); ok {
			return out
		}
	}
	switch v := s.(type) {
	case *ast.ReturnStmt:
		return x.ret(v, ind)
	case *ast.DeclStmt:
		gd, ok := v.Decl.(*ast.GenDecl)
		if ok && gd.Tok == token.CONST && len(gd.Specs) == 1 {
			vs := gd.Specs[0].(*ast.ValueSpec)
			if len(vs.Names) == 1 && len(vs.Values) == 1 {
				t, k := x.expr(vs.Values[0])
				if k == "str" {
					x.vars[vs.Names[0].Name] = vs.Names[0].Name
					return ind + "let " + vs.Names[0].Name + " : String := " + t + x.semi() + "\n" + next(ind)
				}
			}
		}
		x.fail(v, "declaration")
	case *ast.IncDecStmt:
		if pgIsTable(v.X, "id") && v.Tok == token.INC {
			x.needLock(v)
			if x.kindOf(x.info.TypeOf(v.X)) != "nat" || types.TypeString(x.info.TypeOf(v.X), nil) != "uint16" {
				x.fail(v, "icmpTable.id is not a uint16")
			}
			return ind + "let st := { st with nextId := u16succ st.nextId }" + x.semi() + "\n" + next(ind)
		}
		x.fail(v, "inc/dec")
	case *ast.ExprStmt:
		c, ok := v.X.(*ast.CallExpr)
		if !ok {
			x.fail(v, "expression statement")
		}
		fn := nodeText(c.Fun)
		switch {
		case fn == "delete" && len(c.Args) == 2 && pgIsTable(c.Args[0], "table"):
			x.needLock(v)
			k, _ := x.expr(c.Args[1])
			return ind + "let st := { st with table := tdel st.table " + k + " }" + x.semi() + "\n" + next(ind)
		case fn == "close" && len(c.Args) == 1:
			if s, ok := c.Args[0].(*ast.SelectorExpr); ok && s.Sel.Name == "wakeup" {
				a, k := x.expr(s.X)
				if k == "entry" {
					x.needLock(v)
					return ind + "let st := chanClose st " + a + x.semi() + "\n" + next(ind)
				}
			}
		case fn == "EncodeICMPEcho" && len(c.Args) == 6 && x.mode == pgSend:
			var a []string
			for _, e := range c.Args {
				t, _ := x.expr(e)
				a = append(a, t)
			}
			if _, ok := c.Args[0].(*ast.Ident); !ok {
				x.fail(v, "EncodeICMPEcho into something that is not a local")
			}
			x.callees["EncodeICMPEcho"] = true
			return ind + "let " + a[0] + " ← encodeICMPEchoInto " + strings.Join(a, " ") + x.semi() + "\n" + next(ind)
		}
		x.fail(v, "call statement")
	case *ast.AssignStmt:
		return x.assign(v, ind, next)
	case *ast.IfStmt:
		return x.ifStmt(v, ind, next)
	case *ast.SelectStmt:
		if x.mode != pgProg || x.inLock {
			x.fail(v, "select")
		}
		var chans []string
		for _, cc := range v.Body.List {
			cl := cc.(*ast.CommClause)
			if cl.Comm == nil {
				x.fail(v, "select with default")
			}
			if len(cl.Body) != 0 {
				x.fail(cl, "select case with a body")
			}
			es, ok := cl.Comm.(*ast.ExprStmt)
			if !ok {
				x.fail(cl, "select case")
			}
			u, ok := es.X.(*ast.UnaryExpr)
			if !ok || u.Op != token.ARROW {
				x.fail(cl, "select case")
			}
			if s, ok := u.X.(*ast.SelectorExpr); ok && s.Sel.Name == "wakeup" && nodeText(s.X) == x.entry {
				chans = append(chans, "Chan.wakeup p")
				continue
			}
			if c, ok := u.X.(*ast.CallExpr); ok && nodeText(c.Fun) == "time.After" && len(c.Args) == 1 {
				d, _ := x.expr(c.Args[0])
				chans = append(chans, "Chan.after "+d)
				continue
			}
			x.fail(cl, "select channel")
		}
		return ind + "Prog.select [" + strings.Join(chans, ", ") + "] (\n" + next(ind) + ind + ")\n"
	}
	x.fail(s, "statement")
	return ""
}

func (x *pgTr) assign(v *ast.AssignStmt, ind string, next func(string) string) string {
	if len(v.Lhs) != 1 || len(v.Rhs) != 1 {
		x.fail(v, "assignment")
	}
	// icmpTable.table[id] = &msg
	if ix, ok := v.Lhs[0].(*ast.IndexExpr); ok && v.Tok == token.ASSIGN && pgIsTable(ix.X, "table") {
		x.needLock(v)
		k, _ := x.expr(ix.Index)
		val, kind := x.expr(v.Rhs[0])
		if kind != "entry" {
			x.fail(v, "stored value is not the call's entry")
		}
		return ind + "let st := { st with table := tset st.table " + k + " " + val + " }" + x.semi() + "\n" + next(ind)
	}
	// entry.msgRecv = true
	if s, ok := v.Lhs[0].(*ast.SelectorExpr); ok && v.Tok == token.ASSIGN && s.Sel.Name == "msgRecv" {
		a, k := x.expr(s.X)
		if k == "entry" {
			x.needLock(v)
			b, _ := x.expr(v.Rhs[0])
			return ind + "let st := setRecv st " + a + " " + b + x.semi() + "\n" + next(ind)
		}
	}
	id, ok := v.Lhs[0].(*ast.Ident)
	if !ok {
		x.fail(v, "assignment target")
	}
	// msg := icmpEntry{expire: …, wakeup: make(chan bool)}
	if cl, ok := v.Rhs[0].(*ast.CompositeLit); ok && v.Tok == token.DEFINE && nodeText(cl.Type) == "icmpEntry" {
		if x.mode != pgProg || x.entry != "" || x.inLock {
			x.fail(v, "entry literal")
		}
		for _, el := range cl.Elts {
			kv, ok := el.(*ast.KeyValueExpr)
			if !ok {
				x.fail(v, "entry literal without field names")
			}
			switch nodeText(kv.Key) {
			case "expire":
			case "wakeup":
				if nodeText(kv.Value) != "make(chan bool)" {
					x.fail(v, "wakeup is not a fresh unbuffered channel")
				}
			default:
				x.fail(v, "entry literal sets %s", nodeText(kv.Key))
			}
		}
		x.entry = id.Name
		x.ignore(v, "the call's own entry (thread record p: msgRecv = false, wakeup open, expire never read)")
		return next(ind)
	}
	t, k := x.expr(v.Rhs[0])
	ty := map[string]string{"int": "Int", "nat": "Nat", "bool": "Bool", "bytes": "Bytes", "addr": "GAddr", "err": "Option Err"}[k]
	if ty == "" {
		x.fail(v, "assignment of kind %s", k)
	}
	if v.Tok == token.ASSIGN {
		if _, ok := x.vars[id.Name]; !ok {
			x.fail(v, "assignment to an unknown variable")
		}
	}
	x.vars[id.Name] = id.Name
	return ind + "let " + id.Name + " : " + ty + " := " + t + x.semi() + "\n" + next(ind)
}

func (x *pgTr) ifStmt(v *ast.IfStmt, ind string, next func(string) string) string {
	// if err = h.ICMPxSendEchoRequest(…); err != nil { … }
	if as, ok := v.Init.(*ast.AssignStmt); ok && x.mode == pgProg && len(as.Lhs) == 1 && len(as.Rhs) == 1 {
		if c, ok := as.Rhs[0].(*ast.CallExpr); ok {
			fn := nodeText(c.Fun)
			if (fn == "h.ICMP4SendEchoRequest" || fn == "h.ICMP6SendEchoRequest") && len(c.Args) == 4 && v.Else == nil {
				if x.inLock {
					x.fail(v, "transmitting call inside a lock section")
				}
				errName := nodeText(as.Lhs[0])
				if nodeText(v.Cond) != errName+" != nil" {
					x.fail(v, "condition after the send")
				}
				var a []string
				for _, e := range c.Args {
					t, _ := x.expr(e)
					a = append(a, arpPar(t))
				}
				callee := "Callee.echo4"
				if fn == "h.ICMP6SendEchoRequest" {
					callee = "Callee.echo6"
				}
				x.vars[errName] = errName
				out := ind + "Prog.call (" + callee + " " + strings.Join(a, " ") + ") fun " + errName + " =>\n"
				out += ind + "if " + errName + ".isSome then\n"
				saveE := x.entry
				out += x.block(v.Body.List, ind+"  ", nil)
				x.entry = saveE
				if x.inLock {
					x.fail(v, "lock held at the end of the error branch")
				}
				out += ind + "else\n" + next(ind)
				return out
			}
		}
	}
	// if entry, ok := icmpTable.table[id]; ok { … }
	if as, ok := v.Init.(*ast.AssignStmt); ok && len(as.Lhs) == 2 && len(as.Rhs) == 1 && as.Tok == token.DEFINE && v.Else == nil {
		if ix, ok := as.Rhs[0].(*ast.IndexExpr); ok && pgIsTable(ix.X, "table") && nodeText(v.Cond) == nodeText(as.Lhs[1]) {
			x.needLock(v)
			k, _ := x.expr(ix.Index)
			name := nodeText(as.Lhs[0])
			x.vars[name] = name
			lock := x.inLock
			out := ind + "match tget st.table " + k + " with\n" + ind + "| some " + name + " =>\n"
			out += x.block(v.Body.List, ind+"  ", next)
			delete(x.vars, name)
			x.inLock = lock
			out += ind + "| none =>\n" + next(ind+"  ")
			return out
		}
	}
	if v.Init != nil {
		x.fail(v, "if with an init statement")
	}
	// if c { local = e }   (no else)
	if v.Else == nil && len(v.Body.List) == 1 {
		if as, ok := v.Body.List[0].(*ast.AssignStmt); ok && as.Tok == token.ASSIGN && len(as.Lhs) == 1 {
			if id, ok := as.Lhs[0].(*ast.Ident); ok {
				if _, known := x.vars[id.Name]; known {
					c, _ := x.expr(v.Cond)
					t, k := x.expr(as.Rhs[0])
					ty := map[string]string{"int": "Int", "nat": "Nat", "bool": "Bool"}[k]
					if ty == "" {
						x.fail(v, "conditional assignment of kind %s", k)
					}
					return ind + "let " + id.Name + " : " + ty + " := if " + c + " then " + t + " else " + id.Name + x.semi() + "\n" + next(ind)
				}
			}
		}
	}
	if v.Else != nil {
		x.fail(v, "if with else")
	}
	// if c { …; return }   : the body must end every path with a return
	lock, entry := x.inLock, x.entry
	readsMsg := x.entry != "" && pgMentions(v.Cond, x.entry) && !x.inLock
	c, _ := x.expr(v.Cond)
	out := ""
	if readsMsg {
		if x.mode != pgProg {
			x.fail(v, "read of the entry")
		}
		out += ind + "Prog.read fun st =>\n"
	}
	out += ind + "if " + c + " then" + x.doKw() + "\n" + x.block(v.Body.List, ind+"  ", nil)
	x.inLock, x.entry = lock, entry
	out += ind + "else" + x.doKw() + "\n" + next(ind+"  ")
	return out
}

var pingTargets = []struct {
	recv, name string
	mode       pgMode
}{
	{"", "echoNotify", pgState},
	{"Session", "ping", pgProg},
	{"Session", "Ping6", pgProg},
	{"Session", "Ping", pgProg},
	{"Session", "icmp4SendPacket", pgSend},
	{"Session", "ICMP4SendEchoRequest", pgSend},
	{"Session", "ICMP6SendEchoRequest", pgSend},
}

func pingFacts(root *packages.Package, b *strings.Builder) {
	b.WriteString("/- GENERATED by /verif/tools/goextract (pingh.go) from the Go sources in /repo — do not edit. -/\n")
	b.WriteString("import PacketVerif.Model.PingGo\nset_option linter.unusedVariables false\nnamespace PV.Gen.Ping\nopen PV PV.Model PV.Model.Ping PV.Model.PingGo\n\n")
	var tr, untr, ignored []string
	callees, assume := map[string]bool{}, map[string]bool{}
	progFns := map[string]bool{}
	sendFns := map[string]bool{}
	progDone := map[string]bool{}
	for _, t := range pingTargets {
		if t.mode == pgProg {
			progFns[t.name] = true
		}
	}
	for _, t := range pingTargets {
		lean := t.name
		if t.recv != "" {
			lean = t.recv + "_" + t.name
		}
		fd := findFunc(root, t.recv, t.name)
		if fd == nil || fd.Body == nil {
			untr = append(untr, lean+": declaration not found")
			continue
		}
		var ign []string
		x := &pgTr{info: root.TypesInfo, mode: t.mode, fname: lean, vars: map[string]string{}, ignored: &ign, callees: callees, assume: assume, progFns: progFns, sendFns: sendFns, progDone: progDone, sls: map[string]bool{}}
		body, sig, err := x.translate(fd)
		if err != "" {
			untr = append(untr, lean+": "+err)
			continue
		}
		tr = append(tr, lean)
		if t.mode == pgSend {
			sendFns[t.name] = true
		}
		if t.mode == pgProg {
			progDone[t.name] = true
		}
		ignored = append(ignored, ign...)
		pos := fset.Position(fd.Pos())
		do := ""
		if t.mode == pgSend {
			do = " do"
		}
		fmt.Fprintf(b, "/-- Go: %s (%s:%d) -/\ndef %s %s :="+do+"\n%s\n", nodeText(&ast.FuncDecl{Recv: fd.Recv, Name: fd.Name, Type: fd.Type}), shortFile(pos.Filename), pos.Line, lean, sig, body)
	}
	// the package-level table: initial value
	if init := pingTableInit(root); init != "" {
		fmt.Fprintf(b, "/-- Go: var icmpTable = struct{…}{table: make(map[uint16]*icmpEntry), id: N}: the first identifier handed out -/\ndef icmpTable_id0 : Nat := %s\n\n", init)
	} else {
		untr = append(untr, "icmpTable: initial value not found")
	}
	assume["a *icmpEntry is the number of the call whose local msg it points to (the only &icmpEntry stored in the table is &msg of the storing call)"] = true
	assume["wall-clock time is outside: time.After(d) may fire at any moment (Model.PingMulti adds the deadline)"] = true
	assume["the expire field of icmpEntry is written once and never read"] = true
	fmt.Fprintf(b, "def pingTranslated : List String := %s\n\n", leanStrList(tr))
	fmt.Fprintf(b, "/-- functions the translator refused, with the first offending construct -/\ndef pingUntranslated : List String := %s\n\n", leanStrList(untr))
	fmt.Fprintf(b, "/-- statements without a model counterpart, in source order per function -/\ndef pingIgnored : List String := %s\n\n", leanStrList(ignored))
	fmt.Fprintf(b, "/-- callees replaced by their dictionary meaning (Model/PingGo.lean) -/\ndef pingCallees : List String := %s\n\n", leanStrList(sortedKeys(callees)))
	fmt.Fprintf(b, "def pingAssumptions : List String := %s\n\nend PV.Gen.Ping\n", leanStrList(sortedKeys(assume)))
}

// pingTableInit returns the constant `id:` of the composite literal that initialises icmpTable
func pingTableInit(root *packages.Package) string {
	res := ""
	for _, f := range root.Syntax {
		for _, d := range f.Decls {
			gd, ok := d.(*ast.GenDecl)
			if !ok || gd.Tok != token.VAR {
				continue
			}
			for _, sp := range gd.Specs {
				vs := sp.(*ast.ValueSpec)
				if len(vs.Names) != 1 || vs.Names[0].Name != "icmpTable" || len(vs.Values) != 1 {
					continue
				}
				cl, ok := vs.Values[0].(*ast.CompositeLit)
				if !ok {
					continue
				}
				for _, el := range cl.Elts {
					if kv, ok := el.(*ast.KeyValueExpr); ok && nodeText(kv.Key) == "id" {
						if tv, ok := root.TypesInfo.Types[kv.Value]; ok && tv.Value != nil {
							res = tv.Value.ExactString()
						}
					}
				}
			}
		}
	}
	return res
}

func (x *pgTr) translate(fd *ast.FuncDecl) (body, sig, errs string) {
	defer func() {
		if r := recover(); r != nil {
			if e, ok := r.(pgErr); ok {
				errs = e.msg
				return
			}
			if e, ok := r.(arpErr); ok {
				errs = e.msg
				return
			}
			panic(r)
		}
	}()
	var params []string
	for _, f := range fd.Type.Params.List {
		k := x.kindOf(x.info.TypeOf(f.Type))
		ty := map[string]string{"int": "Int", "nat": "Nat", "addr": "GAddr", "bytes": "Bytes"}[k]
		if ty == "" {
			panic(pgErr{"parameter of type " + nodeText(f.Type)})
		}
		for _, n := range f.Names {
			x.vars[n.Name] = n.Name
			params = append(params, fmt.Sprintf("(%s : %s)", n.Name, ty))
		}
	}
	if fd.Type.Results != nil {
		for _, f := range fd.Type.Results.List {
			for _, n := range f.Names {
				x.vars[n.Name] = "(none : Option Err)"
			}
		}
	}
	body = x.block(fd.Body.List, "  ", nil)
	if x.inLock {
		panic(pgErr{"lock held at the end of the function"})
	}
	ps := strings.Join(params, " ")
	switch x.mode {
	case pgState:
		sig = "(st : State) " + ps + " : State"
	case pgProg:
		pre := "(p : Nat) "
		if _, ok := x.vars["h.NICInfo.HostAddr4"]; ok {
			pre = "(hostAddr4 : GAddr) " + pre
		}
		sig = pre + ps + " : Prog"
	default:
		sig = "(e : SEnv) (sent : List Bytes) " + ps + " : Outcome (List Bytes × Option Err)"
	}
	return body, sig, ""
}

// sendStmt translates the statement forms of icmp4SendPacket: the pooled buffer, the encoders writing into it,
// the checksum store into the message, the three `if x, err = f(…); err != nil { return err }` steps.
func (x *pgTr) sendStmt(s ast.Stmt, ind string, next func(string) string) (string, bool) {
	args := func(c *ast.CallExpr, from int) []string {
		var a []string
		for _, e := range c.Args[from:] {
			t, _ := x.expr(e)
			a = append(a, arpPar(t))
		}
		return a
	}
	// ether.Payload() as an argument
	payloadOf := func(e ast.Expr) (string, bool) {
		c, ok := e.(*ast.CallExpr)
		if !ok || len(c.Args) != 0 {
			return "", false
		}
		sel, ok := c.Fun.(*ast.SelectorExpr)
		if !ok || sel.Sel.Name != "Payload" || !x.sls[nodeText(sel.X)] {
			return "", false
		}
		return nodeText(sel.X), true
	}
	errRet := func(v *ast.IfStmt, errName string) bool {
		if v.Else != nil || nodeText(v.Cond) != errName+" != nil" || len(v.Body.List) != 1 {
			return false
		}
		r, ok := v.Body.List[0].(*ast.ReturnStmt)
		return ok && len(r.Results) == 1 && nodeText(r.Results[0]) == errName
	}
	switch v := s.(type) {
	case *ast.DeferStmt:
		if nodeText(v.Call.Fun) == "EtherBufferPool.Put" && len(v.Call.Args) == 1 && nodeText(v.Call.Args[0]) == x.buf && x.buf != "" {
			x.ignore(s, "buffer pool")
			return next(ind), true
		}
	case *ast.AssignStmt:
		if len(v.Lhs) != 1 || len(v.Rhs) != 1 {
			return "", false
		}
		lhs := nodeText(v.Lhs[0])
		switch nodeText(v.Rhs[0]) {
		case "EtherBufferPool.Get().(*[EthMaxSize]byte)":
			if v.Tok == token.DEFINE && x.buf == "" {
				x.buf = lhs
				x.callees["EtherBufferPool.Get (the pooled array, any contents)"] = true
				return ind + "let m : Mem := e.pool\n" + next(ind), true
			}
		case "Ether(" + x.buf + "[:])":
			if x.buf != "" && v.Tok == token.DEFINE {
				x.sls[lhs] = true
				return ind + "let " + lhs + " : Sl := whole m\n" + next(ind), true
			}
		}
		c, ok := v.Rhs[0].(*ast.CallExpr)
		if !ok {
			return "", false
		}
		switch nodeText(c.Fun) {
		case "EncodeEther":
			if len(c.Args) == 4 && x.sls[nodeText(c.Args[0])] {
				x.sls[lhs] = true
				x.callees["EncodeEther"] = true
				return ind + "let (m, " + lhs + ") ← encodeEther m " + nodeText(c.Args[0]) + " " + strings.Join(args(c, 1), " ") + "\n" + next(ind), true
			}
		case "EncodeIP4":
			if src, ok := payloadOf(c.Args[0]); ok && len(c.Args) == 4 {
				x.sls[lhs] = true
				x.callees["EncodeIP4"] = true
				x.callees["Ether.Payload"] = true
				x.assume["an encoder handed a nil slice (Ether.Payload() of a frame shorter than its header) panics: EncodeIP4 writes b[0]"] = true
				return ind + "let t_pay ← etherPayloadNN m " + src + "\n" + ind + "let (m, " + lhs + ") ← encodeIP4 m t_pay " + strings.Join(args(c, 1), " ") + "\n" + next(ind), true
			}
		}
	case *ast.ExprStmt:
		// ICMP(p).SetChecksum(Checksum(p))
		c, ok := v.X.(*ast.CallExpr)
		if ok && len(c.Args) == 1 {
			if sel, ok := c.Fun.(*ast.SelectorExpr); ok && sel.Sel.Name == "SetChecksum" {
				if conv, ok := sel.X.(*ast.CallExpr); ok && nodeText(conv.Fun) == "ICMP" && len(conv.Args) == 1 {
					msg := nodeText(conv.Args[0])
					if _, known := x.vars[msg]; known && nodeText(c.Args[0]) == "Checksum("+msg+")" {
						x.callees["ICMP.SetChecksum"] = true
						x.callees["Checksum"] = true
						return ind + "let " + msg + " ← icmpSetChecksum " + msg + " (checksum " + msg + ")\n" + next(ind), true
					}
				}
			}
		}
	case *ast.IfStmt:
		as, ok := v.Init.(*ast.AssignStmt)
		if !ok || len(as.Lhs) != 2 || len(as.Rhs) != 1 {
			return "", false
		}
		c, ok := as.Rhs[0].(*ast.CallExpr)
		if !ok {
			return "", false
		}
		l0, errName := nodeText(as.Lhs[0]), nodeText(as.Lhs[1])
		if !errRet(v, errName) {
			return "", false
		}
		sel, _ := c.Fun.(*ast.SelectorExpr)
		tail := ind + "if " + errName + ".isSome then do\n" + ind + "  .ok (sent, " + errName + ")\n" + ind + "else do\n"
		switch {
		case sel != nil && sel.Sel.Name == "AppendPayload" && x.sls[nodeText(sel.X)] && l0 == nodeText(sel.X) && len(c.Args) == 2 && x.tyName(sel.X) == "packet.IP4":
			x.callees["IP4.AppendPayload"] = true
			x.vars[errName] = errName
			return ind + "let (m, " + l0 + ", " + errName + ") ← ip4AppendPayloadE m " + l0 + " " + strings.Join(args(c, 0), " ") + "\n" + tail + next(ind+"  "), true
		case sel != nil && sel.Sel.Name == "SetPayload" && x.sls[nodeText(sel.X)] && l0 == nodeText(sel.X) && len(c.Args) == 1 && x.sls[nodeText(c.Args[0])] && x.tyName(sel.X) == "packet.Ether":
			x.callees["Ether.SetPayload"] = true
			x.vars[errName] = errName
			return ind + "let (" + l0 + ", " + errName + ") ← etherSetPayloadE m " + l0 + " " + nodeText(c.Args[0]) + "\n" + tail + next(ind+"  "), true
		case nodeText(c.Fun) == "h.Conn.WriteTo" && l0 == "_" && len(c.Args) == 2 && x.sls[nodeText(c.Args[0])]:
			x.callees["Conn.WriteTo"] = true
			x.vars[errName] = errName
			return ind + "let (sent, " + errName + ") ← connWrite e sent (" + nodeText(c.Args[0]) + ".bytes m)\n" + tail + next(ind+"  "), true
		}
	}
	return "", false
}

func (x *pgTr) tyName(e ast.Expr) string {
	return types.TypeString(x.info.TypeOf(e), func(p *types.Package) string { return p.Name() })
}
