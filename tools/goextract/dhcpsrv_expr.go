// F15: expressions of the dictionary-driven heap-passing translator (see dhcpsrv.go).
package main

import (
	"fmt"
	"go/ast"
	"go/constant"
	"go/token"
	"go/types"
	"strings"
)

func hpSubst(t string, base string, args []string, e string) string {
	r := strings.ReplaceAll(t, "$s", "s")
	r = strings.ReplaceAll(r, "$x", base)
	r = strings.ReplaceAll(r, "$e", e)
	for i := len(args); i >= 1; i-- {
		r = strings.ReplaceAll(r, fmt.Sprintf("$%d", i), args[i-1])
	}
	return r
}

func (x *hpTr) isUnmodType(e ast.Expr) bool {
	return x.d.unmodTypes[x.typeStr(e)]
}

// qualified name of a package-level identifier: `packet.IPv4zero`, `StateFree`
func (x *hpTr) qualName(e ast.Expr) (string, bool) {
	switch v := e.(type) {
	case *ast.Ident:
		if obj := x.info.Uses[v]; obj != nil && obj.Parent() == obj.Pkg().Scope() {
			return v.Name, true
		}
		if v.Name == "true" || v.Name == "false" {
			return v.Name, true
		}
	case *ast.SelectorExpr:
		if id, ok := v.X.(*ast.Ident); ok {
			if _, ok := x.info.Uses[id].(*types.PkgName); ok {
				return id.Name + "." + v.Sel.Name, true
			}
		}
	}
	return "", false
}

func (x *hpTr) expr(c *hpCtx, e ast.Expr) (hpVal, error) {
	if x.isUnmodType(e) {
		return hpVal{unmod: true}, nil
	}
	switch v := e.(type) {
	case *ast.ParenExpr:
		r, err := x.expr(c, v.X)
		if err != nil || r.unmod {
			return r, err
		}
		r.lean = "(" + r.lean + ")"
		return r, nil
	case *ast.BasicLit:
		if v.Kind == token.INT {
			return hpVal{lean: "(" + v.Value + " : Nat)", kind: "int"}, nil
		}
		return hpVal{}, hpErr(e, "literal %s", v.Value)
	case *ast.Ident:
		if v.Name == "nil" {
			return hpVal{kind: "nil", st: hpNil}, nil
		}
		if obj := x.info.Uses[v]; obj != nil {
			if vr, ok := c.vars[obj]; ok {
				if vr.unmod {
					return hpVal{unmod: true}, nil
				}
				if vr.st == hpFresh {
					return hpVal{lean: vr.lean, kind: vr.kind, st: hpFresh, v: vr}, nil
				}
				return hpVal{lean: vr.lean, kind: vr.kind, st: vr.st, v: vr}, nil
			}
		}
		if q, ok := x.qualName(v); ok {
			if cst, ok := x.d.consts[q]; ok {
				return hpVal{lean: cst[1], kind: cst[0]}, nil
			}
		}
		if n, ok := constNat(x.info, v); ok {
			return hpVal{lean: fmt.Sprintf("(%d : Nat)", n), kind: "int"}, nil
		}
		return hpVal{}, hpErr(e, "identifier %s", v.Name)
	case *ast.CompositeLit:
		switch x.typeStr(v) {
		case "net/netip.Addr":
			if len(v.Elts) == 0 {
				return hpVal{lean: "AddrV.invalid", kind: "ip"}, nil
			}
		case "[]byte", "[]uint8":
			if len(v.Elts) == 0 {
				return hpVal{lean: "([] : Bytes)", kind: "bytes"}, nil
			}
		}
		return hpVal{}, hpErr(e, "composite literal %s", hpSrc(e))
	case *ast.UnaryExpr:
		if v.Op == token.NOT {
			r, err := x.expr(c, v.X)
			if err != nil {
				return r, err
			}
			if r.unmod {
				return r, nil
			}
			return hpVal{lean: "(!" + r.lean + ")", kind: "bool"}, nil
		}
		return hpVal{}, hpErr(e, "unary %s", v.Op)
	case *ast.BinaryExpr:
		return x.binary(c, v)
	case *ast.SelectorExpr:
		if q, ok := x.qualName(v); ok {
			if cst, ok := x.d.consts[q]; ok {
				return hpVal{lean: cst[1], kind: cst[0]}, nil
			}
			if n, ok := constNat(x.info, v); ok {
				return hpVal{lean: fmt.Sprintf("(%d : Nat)", n), kind: "int"}, nil
			}
			return hpVal{}, hpErr(e, "package-level name %s not in the dictionary", q)
		}
		return x.selector(c, v)
	case *ast.IndexExpr:
		vals, err := x.index(c, v)
		if err != nil {
			return hpVal{}, err
		}
		return vals[0], nil
	case *ast.CallExpr:
		vals, err := x.call(c, v)
		if err != nil {
			return hpVal{}, err
		}
		if len(vals) != 1 {
			return hpVal{}, hpErr(e, "call with %d results in an expression", len(vals))
		}
		return vals[0], nil
	}
	return hpVal{}, hpErr(e, "expression %T", e)
}

// a.b.c: resolve the root, then the longest dictionary field path at each step
func (x *hpTr) selector(c *hpCtx, se *ast.SelectorExpr) (hpVal, error) {
	var path []string
	var nodes []ast.Expr
	root := ast.Expr(se)
	for {
		s, ok := root.(*ast.SelectorExpr)
		if !ok {
			break
		}
		if _, isSel := x.info.Selections[s]; !isSel {
			break
		}
		path = append([]string{s.Sel.Name}, path...)
		nodes = append([]ast.Expr{s}, nodes...)
		root = s.X
	}
	val, err := x.expr(c, root)
	if err != nil {
		return val, err
	}
	if val.unmod {
		return val, nil
	}
	for i := 0; i < len(path); {
		found := false
		for j := len(path); j > i; j-- {
			key := val.kind + "." + strings.Join(path[i:j], ".")
			fl, ok := x.d.fields[key]
			if !ok {
				continue
			}
			if fl.kind == "" {
				return hpVal{unmod: true}, nil
			}
			nv, err := x.readField(c, se, val, fl)
			if err != nil {
				return nv, err
			}
			val = nv
			i = j
			found = true
			break
		}
		if !found {
			return hpVal{}, hpErr(se, "field %s of kind %s not in the dictionary", strings.Join(path[i:], "."), val.kind)
		}
	}
	return val, nil
}

func (x *hpTr) readField(c *hpCtx, at ast.Node, base hpVal, fl hpField) (hpVal, error) {
	if x.d.ptrKinds[base.kind] {
		switch base.st {
		case hpMaybe, hpNil:
			return hpVal{}, hpErr(at, "dereference of a pointer that may be nil: %s", hpSrc(at))
		case hpFresh:
			if fl.key {
				return hpVal{lean: base.lean + "_k", kind: fl.kind}, nil
			}
			if fl.rec == "" {
				return hpVal{}, hpErr(at, "field of a fresh object without record form")
			}
			l := base.lean + "_r." + fl.rec
			if fl.recOut != "" {
				l = "(" + fl.recOut + " " + l + ")"
			}
			return hpVal{lean: l, kind: fl.kind}, nil
		}
	}
	return hpVal{lean: hpSubst(fl.get, base.lean, nil, ""), kind: fl.kind}, nil
}

func (x *hpTr) binary(c *hpCtx, v *ast.BinaryExpr) (hpVal, error) {
	switch v.Op {
	case token.LAND, token.LOR:
		// `p != nil && E` / `p == nil || E`: E is translated with p non-nil
		if b, ok := v.X.(*ast.BinaryExpr); ok {
			if pv, isNe, ok := x.nilTest(c, b); ok && pv.v != nil && pv.st == hpMaybe && ((isNe && v.Op == token.LAND) || (!isNe && v.Op == token.LOR)) {
				cc := c.clone()
				for obj, vr := range c.vars {
					if vr == pv.v {
						cc.vars[obj].st = hpNonNil
					}
				}
				r, err := x.expr(cc, v.Y)
				if err != nil {
					return r, err
				}
				dflt := "false"
				if v.Op == token.LOR {
					dflt = "true"
				}
				return hpVal{lean: fmt.Sprintf("(match %s with | some %s => %s | none => %s)", pv.lean, pv.lean, r.lean, dflt), kind: "bool"}, nil
			}
		}
		a, err := x.expr(c, v.X)
		if err != nil {
			return a, err
		}
		b, err := x.expr(c, v.Y)
		if err != nil {
			return b, err
		}
		if a.unmod || b.unmod {
			return hpVal{unmod: true}, nil
		}
		op := " && "
		if v.Op == token.LOR {
			op = " || "
		}
		return hpVal{lean: "(" + a.lean + op + b.lean + ")", kind: "bool"}, nil
	case token.EQL, token.NEQ:
		if pv, isNe, ok := x.nilTest(c, v); ok {
			switch pv.st {
			case hpNonNil, hpFresh:
				if isNe {
					return hpVal{lean: "true", kind: "bool"}, nil
				}
				return hpVal{lean: "false", kind: "bool"}, nil
			case hpNil:
				if isNe {
					return hpVal{lean: "false", kind: "bool"}, nil
				}
				return hpVal{lean: "true", kind: "bool"}, nil
			}
			if isNe {
				return hpVal{lean: pv.lean + ".isSome", kind: "bool"}, nil
			}
			return hpVal{lean: pv.lean + ".isNone", kind: "bool"}, nil
		}
		a, err := x.expr(c, v.X)
		if err != nil {
			return a, err
		}
		b, err := x.expr(c, v.Y)
		if err != nil {
			return b, err
		}
		if a.unmod || b.unmod {
			return hpVal{unmod: true}, nil
		}
		if a.kind == "perr" && b.kind == "nil" {
			if v.Op == token.NEQ {
				return hpVal{lean: a.lean + ".isSome", kind: "bool"}, nil
			}
			return hpVal{lean: a.lean + ".isNone", kind: "bool"}, nil
		}
		if t, ok := x.d.nilTests[a.kind]; ok && b.kind == "nil" {
			l := hpSubst(t, a.lean, nil, "")
			if v.Op == token.EQL {
				l = "(!" + l + ")"
			}
			return hpVal{lean: l, kind: "bool"}, nil
		}
		if a.kind == "err" && b.kind == "nil" {
			if v.Op == token.NEQ {
				return hpVal{lean: a.lean, kind: "bool"}, nil
			}
			return hpVal{lean: "(!" + a.lean + ")", kind: "bool"}, nil
		}
		if a.kind != b.kind {
			return hpVal{}, hpErr(v, "comparison of kinds %s and %s", a.kind, b.kind)
		}
		if x.d.ptrKinds[a.kind] && (a.st != hpNonNil || b.st != hpNonNil) {
			return hpVal{}, hpErr(v, "comparison of pointers that may be nil or fresh")
		}
		op := " == "
		if v.Op == token.NEQ {
			op = " != "
		}
		return hpVal{lean: "(" + a.lean + op + b.lean + ")", kind: "bool"}, nil
	case token.LSS, token.GTR, token.LEQ, token.GEQ:
		a, err := x.expr(c, v.X)
		if err != nil {
			return a, err
		}
		b, err := x.expr(c, v.Y)
		if err != nil {
			return b, err
		}
		if a.kind != "int" || b.kind != "int" {
			return hpVal{}, hpErr(v, "ordering of kinds %s and %s", a.kind, b.kind)
		}
		return hpVal{lean: "(decide (" + a.lean + " " + v.Op.String() + " " + b.lean + "))", kind: "bool"}, nil
	}
	return hpVal{}, hpErr(v, "operator %s", v.Op)
}

// e is `p == nil` / `p != nil` for a pointer-kind value p
func (x *hpTr) nilTest(c *hpCtx, b *ast.BinaryExpr) (hpVal, bool, bool) {
	if b.Op != token.EQL && b.Op != token.NEQ {
		return hpVal{}, false, false
	}
	var other ast.Expr
	if id, ok := b.Y.(*ast.Ident); ok && id.Name == "nil" {
		other = b.X
	} else if id, ok := b.X.(*ast.Ident); ok && id.Name == "nil" {
		other = b.Y
	} else {
		return hpVal{}, false, false
	}
	v, err := x.expr(c, other)
	if err != nil || v.unmod || !x.d.ptrKinds[v.kind] {
		return hpVal{}, false, false
	}
	return v, b.Op == token.NEQ, true
}

// x[k]: a dictionary index entry (message options) or the table lookup
func (x *hpTr) index(c *hpCtx, v *ast.IndexExpr) ([]hpVal, error) {
	base, err := x.expr(c, v.X)
	if err != nil {
		return nil, err
	}
	if base.kind == "table" {
		k, err := x.keyExpr(c, v.Index)
		if err != nil {
			return nil, err
		}
		return []hpVal{{lean: "(tableFind s " + k + ")", kind: "lease", st: hpMaybe}}, nil
	}
	if base.kind == "bytes" {
		// b[i] for a constant i: the byte as a number (byteAt is total; the tie shows the guard of the source makes the index valid)
		if tv, ok := x.info.Types[v.Index]; ok && tv.Value != nil {
			if n, ok := constant.Int64Val(tv.Value); ok && n >= 0 {
				return []hpVal{{lean: fmt.Sprintf("(byteAt %s %d)", base.lean, n), kind: "int"}}, nil
			}
		}
	}
	if q, ok := x.qualName(v.Index); ok {
		key := base.kind + "[" + q + "]"
		if ent, ok := x.d.index[key]; ok {
			x.callees[key] = true
			if len(ent.kinds) == 0 {
				return []hpVal{{unmod: true}, {unmod: true}}, nil
			}
			return []hpVal{{lean: ent.leans[0], kind: ent.kinds[0]}, {lean: ent.leans[1], kind: ent.kinds[1]}}, nil
		}
	}
	return nil, hpErr(v, "index expression %s", hpSrc(v))
}

// the key of a table access: `string(b)` for a byte slice b
func (x *hpTr) keyExpr(c *hpCtx, e ast.Expr) (string, error) {
	if call, ok := e.(*ast.CallExpr); ok && len(call.Args) == 1 {
		if id, ok := call.Fun.(*ast.Ident); ok && id.Name == "string" {
			r, err := x.expr(c, call.Args[0])
			if err != nil {
				return "", err
			}
			if r.kind == "bytes" {
				return r.lean, nil
			}
		}
	}
	return "", hpErr(e, "table key %s", hpSrc(e))
}

func (x *hpTr) callKey(c *hpCtx, call *ast.CallExpr) (key string, base hpVal, err error) {
	switch f := call.Fun.(type) {
	case *ast.Ident:
		return f.Name, hpVal{}, nil
	case *ast.SelectorExpr:
		if q, ok := x.qualName(f); ok {
			return q, hpVal{}, nil
		}
		base, err = x.expr(c, f.X)
		if err != nil {
			return "", base, err
		}
		if base.unmod {
			return "", base, nil
		}
		return base.kind + "." + f.Sel.Name, base, nil
	}
	return "", hpVal{}, hpErr(call, "call form %s", hpSrc(call))
}

// arguments of a call, unmodelled ones dropped, the message parameters collapsed into one
func (x *hpTr) args(c *hpCtx, call *ast.CallExpr) ([]string, []hpVal, error) {
	var out []string
	var vals []hpVal
	msg := false
	for _, a := range call.Args {
		r, err := x.expr(c, a)
		if err != nil {
			return nil, nil, err
		}
		if r.unmod {
			continue
		}
		if r.kind == "msg" || r.kind == "msgopts" {
			if !msg {
				msg = true
				out = append(out, r.lean)
				vals = append(vals, r)
			}
			continue
		}
		if x.d.ptrKinds[r.kind] && r.kind != "host" && r.st != hpNonNil {
			return nil, nil, hpErr(a, "pointer argument that may be nil or fresh")
		}
		out = append(out, r.lean)
		vals = append(vals, r)
	}
	return out, vals, nil
}

// the application of a translated function (without result handling)
func (x *hpTr) apply(c *hpCtx, g *hpFn, call *ast.CallExpr) (string, error) {
	if g.err != nil {
		return "", hpErr(call, "callee %s is not translated", g.lean)
	}
	args, _, err := x.args(c, call)
	if err != nil {
		return "", err
	}
	s := g.lean + " cfg"
	if g.needNow {
		s += " now"
	}
	if g.hangs {
		s += " fuel"
	}
	s += " s"
	for _, a := range args {
		s += " " + a
	}
	return s, nil
}

func (x *hpTr) call(c *hpCtx, call *ast.CallExpr) ([]hpVal, error) {
	// conversions and builtins
	if id, ok := call.Fun.(*ast.Ident); ok && len(call.Args) == 1 {
		switch id.Name {
		case "len":
			r, err := x.expr(c, call.Args[0])
			if err != nil {
				return nil, err
			}
			if r.kind != "bytes" {
				return nil, hpErr(call, "len of kind %s", r.kind)
			}
			return []hpVal{{lean: r.lean + ".length", kind: "int"}}, nil
		}
	}
	if tv, ok := x.info.Types[call.Fun]; ok && tv.IsType() && len(call.Args) == 1 {
		r, err := x.expr(c, call.Args[0])
		if err != nil {
			return nil, err
		}
		if k, ok := x.d.types[x.typeStr(call)]; ok && (k == r.kind || (k == "int" && r.kind == "int")) {
			return []hpVal{r}, nil
		}
		if _, ok := x.d.params[x.typeStr(call)]; ok && r.kind == "msg" {
			// packet.DHCP4(frame.Payload()): the payload seen as a DHCP message
			return []hpVal{r}, nil
		}
		return nil, hpErr(call, "conversion %s", hpSrc(call))
	}
	if g := x.calleeOf(call); g != nil {
		if g.writes || g.hangs {
			return nil, hpErr(call, "call of the effectful function %s inside an expression", g.lean)
		}
		app, err := x.apply(c, g, call)
		if err != nil {
			return nil, err
		}
		var vals []hpVal
		for i, k := range g.results {
			vals = append(vals, hpVal{lean: proj("("+app+")", i, len(g.results)), kind: k})
		}
		return vals, nil
	}
	key, base, err := x.callKey(c, call)
	if err != nil {
		return nil, err
	}
	if base.unmod {
		return []hpVal{{unmod: true}}, nil
	}
	ent, ok := x.d.calls[key]
	if !ok {
		return nil, hpErr(call, "callee %s not in the dictionary", key)
	}
	if ent.ignore != "" {
		return nil, hpErr(call, "callee %s (%s) used as a value", key, ent.ignore)
	}
	if x.d.ptrKinds[base.kind] && base.st != hpNonNil {
		return nil, hpErr(call, "method call through a pointer that may be nil")
	}
	x.callees[key] = true
	var args []string
	if ent.use != nil {
		for i := 1; i <= len(call.Args); i++ {
			want, ok := ent.fixed[i]
			if !ok {
				continue
			}
			if hpSrc(call.Args[i-1]) != want {
				return nil, hpErr(call, "argument %d of %s is not %s", i, key, want)
			}
		}
		for _, i := range ent.use {
			r, err := x.expr(c, call.Args[i-1])
			if err != nil {
				return nil, err
			}
			if r.unmod {
				return nil, hpErr(call, "argument %d of %s has no model counterpart", i, key)
			}
			args = append(args, r.lean)
		}
	} else {
		args, _, err = x.args(c, call)
		if err != nil {
			return nil, err
		}
	}
	if ent.needs == "now" && !c.f.needNow {
		return nil, hpErr(call, "time.Now outside the prepass")
	}
	if ent.effect != "" {
		if x.effectPending != "" || !c.f.sends {
			return nil, hpErr(call, "second dictionary call with an effect in one statement")
		}
		x.effectPending = hpSubst(ent.effect, base.lean, args, "")
	}
	if len(ent.kinds) > 0 {
		var vals []hpVal
		for i := range ent.kinds {
			vals = append(vals, hpVal{lean: hpSubst(ent.leans[i], base.lean, args, ""), kind: ent.kinds[i]})
		}
		return vals, nil
	}
	st := hpNonNil
	if x.d.ptrKinds[ent.kind] {
		st = hpMaybe
	}
	return []hpVal{{lean: hpSubst(ent.lean, base.lean, args, ""), kind: ent.kind, st: st}}, nil
}

var _ = constant.MakeBool
