package main

// F22 (builder T): message builders that go through the allocating NDP marshal code, for the wrappers of senders.go:
//
//	m := &T{F: e, …}                                  (T a struct of package packet with a translated `marshal`)
//	mb, err := m.marshal(); if err != nil { return err }
//	return h.icmp6SendPacket(Addr{…}, dst, mb)
//
// The struct literal becomes a value of the structure regenerated in Gen/LoopsMarshal.lean (G_T; an element of a
// []Option is a constructor of I_Option), the call becomes a call of the regenerated marshal function, whose error is
// the wrapper's error (the Outcome monad).  The untranslated option encoders that the regenerated function takes as
// parameters (marshalExternals) are instantiated with a function that panics: this is exact because every option in the
// literal is REQUIRED to be of a type whose marshal IS translated (otherwise the wrapper is refused), so the dispatch
// never reaches a parameter.

import (
	"go/ast"
	"go/constant"
	"go/token"
	"go/types"
	"strings"
)

var marshalGen *lpGen

const marshalNS = "PV.Gen.LoopsMarshal."

var marshalMsgs = map[types.Object]marshalMsg{}

type marshalMsg struct {
	term  string
	named *types.Named
}

func (t *sendTr) marshalNamedStruct(ty types.Type) *types.Named {
	if p, ok := ty.(*types.Pointer); ok {
		ty = p.Elem()
	}
	n, ok := ty.(*types.Named)
	if !ok || n.Obj().Pkg() == nil || n.Obj().Pkg().Path() != "github.com/irai/packet" {
		return nil
	}
	if _, ok := n.Underlying().(*types.Struct); !ok {
		return nil
	}
	return n
}

// the translated method (*T).name, nil when it is not translated
func marshalMethod(n *types.Named, name string) *lpFunc {
	if marshalGen == nil {
		return nil
	}
	sel := types.NewMethodSet(types.NewPointer(n)).Lookup(n.Obj().Pkg(), name)
	if sel == nil {
		return nil
	}
	f, _ := sel.Obj().(*types.Func)
	if f == nil {
		return nil
	}
	for k, v := range marshalGen.done { // the same function seen through another *types.Func object never happens: one load
		if k == f {
			return v
		}
	}
	return nil
}

// &T{F: e, …} / T{…} as a Lean term of type G_T; with iface != "" the term is wrapped into the constructor of I_<iface>
func (t *sendTr) marshalLit(e ast.Expr, iface string) (string, *types.Named, error) {
	e = paren(e)
	if u, ok := e.(*ast.UnaryExpr); ok && u.Op == token.AND {
		e = paren(u.X)
	}
	cl, ok := e.(*ast.CompositeLit)
	if !ok {
		return "", nil, fail("message value %s is not a struct literal", exprStr(e))
	}
	n := t.marshalNamedStruct(t.info.TypeOf(cl))
	if n == nil || marshalGen == nil || marshalGen.ext.structs[n] == "" {
		return "", nil, fail("struct literal of type %v has no regenerated structure", t.info.TypeOf(cl))
	}
	st := n.Underlying().(*types.Struct)
	var fs []string
	for _, el := range cl.Elts {
		kv, ok := el.(*ast.KeyValueExpr)
		if !ok {
			return "", nil, fail("positional struct literal")
		}
		key := exprStr(kv.Key)
		var fty types.Type
		for i := 0; i < st.NumFields(); i++ {
			if st.Field(i).Name() == key {
				fty = st.Field(i).Type()
			}
		}
		if fty == nil {
			return "", nil, fail("field %s", key)
		}
		val := ""
		switch {
		case isByteSlice(fty):
			s, err := t.bytesArg(kv.Value)
			if err != nil {
				return "", nil, err
			}
			val = s
		case basicKind(fty) != types.Invalid && basicKind(fty) != types.String && basicKind(fty) != types.Bool && basicKind(fty) != types.Float64:
			tv, ok := t.info.Types[kv.Value]
			if !ok || tv.Value == nil || tv.Value.Kind() != constant.Int {
				return "", nil, fail("field %s: %s is not an integer constant", key, exprStr(kv.Value))
			}
			val = tv.Value.ExactString()
		default:
			sl, isSl := fty.Underlying().(*types.Slice)
			var in *types.Named
			isNamed := false
			if isSl {
				in, isNamed = sl.Elem().(*types.Named)
			}
			if !isSl || !isNamed || !types.IsInterface(in) || marshalIfaces[in] == nil {
				return "", nil, fail("field %s of type %v", key, fty)
			}
			lit, ok := paren(kv.Value).(*ast.CompositeLit)
			if !ok {
				return "", nil, fail("field %s: %s is not a slice literal", key, exprStr(kv.Value))
			}
			var els []string
			for _, x := range lit.Elts {
				s, _, err := t.marshalLit(x, in.Obj().Name())
				if err != nil {
					return "", nil, err
				}
				els = append(els, s)
			}
			val = "[" + strings.Join(els, ", ") + "]"
		}
		fs = append(fs, leanName(key)+" := "+val)
	}
	g := marshalNS + marshalGen.ext.structs[n]
	term := "{ " + g + ".zero with " + strings.Join(fs, ", ") + " }"
	if len(fs) == 0 {
		term = g + ".zero"
	}
	if iface != "" {
		// an element of a []Option: its encoder must be a translated one (the parameters of the dispatch are never reached)
		if cf := marshalMethod(n, "marshal"); cf == nil {
			return "", nil, fail("option of type %s, whose marshal is not translated", n.Obj().Name())
		}
		return "(" + marshalNS + "I_" + iface + "." + leanName(n.Obj().Name()) + " " + term + ")", n, nil
	}
	return "(" + term + " : " + g + ")", n, nil
}

func (t *sendTr) marshalSendStmt(s ast.Stmt, next ast.Stmt) (bool, bool, error) {
	as, ok := s.(*ast.AssignStmt)
	if !ok || len(as.Rhs) != 1 || as.Tok != token.DEFINE {
		return false, false, nil
	}
	// m := &T{…}
	if len(as.Lhs) == 1 {
		id, isId := as.Lhs[0].(*ast.Ident)
		if !isId || t.marshalNamedStruct(t.info.TypeOf(as.Rhs[0])) == nil {
			return false, false, nil
		}
		if _, isPtr := t.info.TypeOf(as.Rhs[0]).(*types.Pointer); !isPtr {
			return false, false, nil
		}
		term, n, err := t.marshalLit(as.Rhs[0], "")
		if err != nil {
			return true, false, err
		}
		marshalMsgs[t.info.Defs[id]] = marshalMsg{term, n}
		return true, false, nil
	}
	// mb, err := m.marshal(); if err != nil { return err }
	if len(as.Lhs) != 2 || exprStr(as.Lhs[1]) != "err" {
		return false, false, nil
	}
	c, ok := paren(as.Rhs[0]).(*ast.CallExpr)
	if !ok || len(c.Args) != 0 {
		return false, false, nil
	}
	sel, ok := c.Fun.(*ast.SelectorExpr)
	if !ok {
		return false, false, nil
	}
	rid, ok := paren(sel.X).(*ast.Ident)
	if !ok {
		return false, false, nil
	}
	msg, ok := marshalMsgs[t.info.Uses[rid]]
	if !ok {
		return false, false, nil
	}
	cf := marshalMethod(msg.named, sel.Sel.Name)
	if cf == nil || !cf.errRes || cf.resTy != "Bytes" || len(cf.mutated) > 0 {
		return true, false, fail("%s.%s is not a translated marshal function", msg.named.Obj().Name(), sel.Sel.Name)
	}
	is, ok := next.(*ast.IfStmt)
	if !ok || is.Init != nil || is.Else != nil || types.ExprString(is.Cond) != "err != nil" || len(is.Body.List) != 1 {
		return true, false, fail("the error of %s is not returned at once", exprStr(c.Fun))
	}
	if rs, ok := is.Body.List[0].(*ast.ReturnStmt); !ok || len(rs.Results) != 1 || exprStr(rs.Results[0]) != "err" {
		return true, false, fail("the error of %s is not returned at once", exprStr(c.Fun))
	}
	id, ok := as.Lhs[0].(*ast.Ident)
	if !ok || isBlank(id) {
		return true, false, fail("result of %s", exprStr(c.Fun))
	}
	app := marshalNS + cf.lean
	for range cf.exts {
		app += " (fun _ => Outcome.panic)"
	}
	t.dict["marshalExternals = never reached (every option of the literal is translated)"] = true
	t.emit("let %s ← %s %s", leanName(id.Name), app, msg.term)
	t.bind(id, kBytes)
	t.own[t.info.Defs[id]] = true
	return true, true, nil
}

// h.….HostLLA.Addr(): the address of a netip.Prefix of the session → an argument named like the path
func (t *sendTr) marshalBytesArg(e ast.Expr) (string, bool) {
	c, ok := e.(*ast.CallExpr)
	if !ok || len(c.Args) != 0 {
		return "", false
	}
	sel, ok := c.Fun.(*ast.SelectorExpr)
	if !ok || sel.Sel.Name != "Addr" {
		return "", false
	}
	rt := t.info.TypeOf(sel.X)
	if rt == nil || rt.String() != "net/netip.Prefix" {
		return "", false
	}
	n, ok := t.sessionPath(sel.X, "Addr")
	if !ok {
		return "", false
	}
	return t.extraParam(n, "Bytes"), true
}

// the initialiser of a package-level variable of package packet, nil when there is none
func marshalRootInit(o types.Object) ast.Expr {
	if rootPackage == nil || o == nil || o.Pkg() == nil || o.Pkg().Path() != "github.com/irai/packet" || o.Parent() != o.Pkg().Scope() {
		return nil
	}
	for _, f := range rootPackage.Syntax {
		for _, d := range f.Decls {
			gd, ok := d.(*ast.GenDecl)
			if !ok || gd.Tok != token.VAR {
				continue
			}
			for _, sp := range gd.Specs {
				vs := sp.(*ast.ValueSpec)
				if len(vs.Names) == 1 && len(vs.Values) == 1 && rootPackage.TypesInfo.Defs[vs.Names[0]] == o {
					return vs.Values[0]
				}
			}
		}
	}
	return nil
}

// a package-level byte-slice / netip.Addr variable of package packet as a Lean byte list: a literal of constants
// (rootByteVars) or netip.AddrFrom16 / AddrFrom4 of an array literal of constants
func marshalRootBytes(o types.Object) (string, bool) {
	if lit, ok := rootByteVars[o]; ok {
		return lit, true
	}
	c, ok := marshalRootInit(o).(*ast.CallExpr)
	if !ok || len(c.Args) != 1 || (exprStr(c.Fun) != "netip.AddrFrom16" && exprStr(c.Fun) != "netip.AddrFrom4") {
		return "", false
	}
	cl, ok := c.Args[0].(*ast.CompositeLit)
	if !ok {
		return "", false
	}
	var bs []string
	for _, el := range cl.Elts {
		tv, ok := rootPackage.TypesInfo.Types[el]
		if !ok || tv.Value == nil || tv.Value.Kind() != constant.Int {
			return "", false
		}
		bs = append(bs, tv.Value.ExactString())
	}
	want := map[string]int{"netip.AddrFrom16": 16, "netip.AddrFrom4": 4}[exprStr(c.Fun)]
	if len(bs) != want {
		return "", false // a shorter literal leaves zero elements: not needed so far
	}
	return "([" + strings.Join(bs, ", ") + "] : Bytes)", true
}

// X (or packet.X) for a package-level struct variable of package packet initialised with T{F: V, …}, every V a
// package-level variable with a literal value: the field values in the order of `fns` (a missing field is the zero value)
func (t *sendTr) marshalRootStruct(e ast.Expr, fns, ftys []string) ([]string, bool) {
	var id *ast.Ident
	switch x := paren(e).(type) {
	case *ast.Ident:
		id = x
	case *ast.SelectorExpr:
		if pk, ok := x.X.(*ast.Ident); ok {
			if _, isPkg := t.info.Uses[pk].(*types.PkgName); isPkg {
				id = x.Sel
			}
		}
	}
	if id == nil {
		return nil, false
	}
	cl, ok := marshalRootInit(t.info.Uses[id]).(*ast.CompositeLit)
	if !ok {
		return nil, false
	}
	vals := map[string]string{}
	for _, el := range cl.Elts {
		kv, ok := el.(*ast.KeyValueExpr)
		if !ok {
			return nil, false
		}
		vid, ok := kv.Value.(*ast.Ident)
		if !ok {
			return nil, false
		}
		lit, ok := marshalRootBytes(rootPackage.TypesInfo.Uses[vid])
		if !ok {
			return nil, false
		}
		vals[exprStr(kv.Key)] = lit
	}
	var out []string
	for j, f := range fns {
		switch {
		case vals[f] != "":
			if ftys[j] != "Bytes" {
				return nil, false
			}
			out = append(out, vals[f])
		case ftys[j] == "Bytes":
			out = append(out, "([] : Bytes)")
		default:
			out = append(out, "0")
		}
	}
	t.dict["package-level address variables of package packet = their initialisers"] = true
	return out, true
}
