package main

// F10: the BODIES of the validity predicates `IsValid()` of the view types (the type list of F2/F3/F5),
// translated into Lean source `def genValid<T> (p : Bytes) : Outcome Unit` (Gen/Valid.lean, regenerated on
// every run; Props/C01ValidTie.lean proves each equal to the hand-written `<t>Valid` of Model/Views.lean,
// the hypothesis of C01's `getters_safe` and of C02's getter-position theorems).
//
//	statements   if [x := len(p);] <cond> { return R }   (no else; body = one return)     return R
//	             if err := p.M(); err != nil { return err }   for a modelled callee M      (error propagated)
//	R            nil → .ok ()      ErrX / fmt.Errorf("… %w …", …, ErrX) → .err .x      true → .ok ()   false → .err .frameLen
//	             (a bool-returning IsValid is rendered with the model's convention ok = true, err frameLen = false)
//	<cond>       && || ! with Go's short-circuit order, comparisons of integer (or string) expressions
//	integers     len(p), constants (go/types), p[k] (→ byteN p k, panics when k ≥ len), integer conversions,
//	             + * & | << >> with an explicit `% 2^w` where the Go type is narrower than the value range,
//	             p.G() for a getter G whose body the getter translator (F5) expresses → `NE.eval p <term>` with the
//	             term re-translated now (so IsValid is tied to the getter bodies, not to getter names);
//	             p.M() for the irregular methods of `validCallees` → the model function (emitted, pinned)
//
// A condition without a possibly-panicking sub-expression stays a proposition (`if p.length < 8 then …`); one
// with getter calls is evaluated in the Outcome monad by `andThen`/`orElse`/`rel`/`opN` (Model/ValidGo.lean),
// which keep Go's evaluation order: the right operand of && / || is evaluated (and may panic) only when needed.
// Anything else is listed in `validUntranslated` with the first offending construct.

import (
	"fmt"
	"go/ast"
	"go/constant"
	"go/token"
	"go/types"
	"math/big"
	"sort"
	"strconv"
	"strings"

	"golang.org/x/tools/go/packages"
)

// irregular (non single-expression) methods used by validity predicates: Go method → model function of `p`
var validCallees = map[string]struct {
	fn   string
	kind string // "nat", "str", "unit"
}{
	"Ether.HeaderLen":       {"etherHeaderLen", "nat"},
	"LLC.Type":              {"llcType", "str"},
	"DHCP4.validateOptions": {"dhcpValidateOptions", "unit"},
}

type vterm struct {
	s    string
	pure bool     // pure: a Nat / String / Prop expression; otherwise an `Outcome _` expression
	ub   *big.Int // integers: upper bound
	str  bool
}

type validTr struct {
	p       *packages.Package
	info    *types.Info
	typ     string
	recv    types.Object
	locals  map[types.Object]vterm
	lines   []string
	indent  string
	done    bool
	boolRes bool
	nc      int
	callees map[string]bool
	errs    map[string]string
}

var bigLen = new(big.Int).Lsh(big.NewInt(1), 62) // len(p): any length

func (v *validTr) emit(format string, a ...interface{}) {
	v.lines = append(v.lines, v.indent+fmt.Sprintf(format, a...))
}

func (v *validTr) isRecv(e ast.Expr) bool {
	id, ok := paren(e).(*ast.Ident)
	return ok && v.recv != nil && v.info.Uses[id] == v.recv
}

func lift(t vterm) string {
	if t.pure {
		return "(pure " + t.s + ")"
	}
	return t.s
}

func (v *validTr) num(e ast.Expr) (vterm, error) {
	e = paren(e)
	ty := v.info.TypeOf(e)
	if tv, ok := v.info.Types[e]; ok && tv.Value != nil {
		switch tv.Value.Kind() {
		case constant.Int:
			n, ok := new(big.Int).SetString(tv.Value.ExactString(), 10)
			if !ok || n.Sign() < 0 {
				return vterm{}, fail("negative constant")
			}
			return vterm{s: n.String(), pure: true, ub: n}, nil
		case constant.String:
			return vterm{s: strconv.Quote(constant.StringVal(tv.Value)), pure: true, str: true}, nil
		}
		return vterm{}, fail("constant of kind %v", tv.Value.Kind())
	}
	switch x := e.(type) {
	case *ast.Ident:
		if o := v.info.Uses[x]; o != nil {
			if t, ok := v.locals[o]; ok {
				return t, nil
			}
		}
		return vterm{}, fail("identifier %s", x.Name)
	case *ast.IndexExpr:
		if !v.isRecv(x.X) {
			return vterm{}, fail("index of something other than the receiver")
		}
		k, ok := constNat(v.info, x.Index)
		if !ok || k < 0 {
			return vterm{}, fail("non-constant index")
		}
		return vterm{s: fmt.Sprintf("(byteN p %d)", k), ub: big.NewInt(255)}, nil
	case *ast.CallExpr:
		if id, ok := x.Fun.(*ast.Ident); ok && id.Name == "len" && len(x.Args) == 1 && v.isRecv(x.Args[0]) {
			if _, isB := v.info.Uses[id].(*types.Builtin); isB {
				return vterm{s: "p.length", pure: true, ub: bigLen}, nil
			}
		}
		if tv, ok := v.info.Types[x.Fun]; ok && tv.IsType() && len(x.Args) == 1 {
			t, err := v.num(x.Args[0])
			if err != nil {
				return t, err
			}
			m := maxOf(tv.Type)
			if m == nil || t.str {
				return t, fail("conversion to %v", tv.Type)
			}
			if t.ub.Cmp(m) > 0 {
				return v.wrap(t, tv.Type)
			}
			return t, nil
		}
		if sel, ok := x.Fun.(*ast.SelectorExpr); ok && len(x.Args) == 0 && v.isRecv(sel.X) {
			key := v.typ + "." + sel.Sel.Name
			if c, ok := validCallees[key]; ok && c.kind != "unit" {
				v.callees[key+" = "+c.fn] = true
				return vterm{s: "(" + c.fn + " p)", ub: bigLen, str: c.kind == "str"}, nil
			}
			g := &getterTr{p: v.p, info: v.info, typ: v.typ}
			t, err := g.method(sel.Sel.Name)
			if err != nil {
				return vterm{}, fail("call of %s: %v", key, err)
			}
			return vterm{s: "(NE.eval p " + t.s + ")", ub: t.ub}, nil
		}
		return vterm{}, fail("call of %s", exprStr(x.Fun))
	case *ast.BinaryExpr:
		a, err := v.num(x.X)
		if err != nil {
			return a, err
		}
		b, err := v.num(x.Y)
		if err != nil {
			return b, err
		}
		if a.str || b.str {
			return a, fail("string operator")
		}
		var op string
		var ub *big.Int
		switch x.Op {
		case token.ADD:
			op, ub = "+", new(big.Int).Add(a.ub, b.ub)
		case token.MUL:
			op, ub = "*", new(big.Int).Mul(a.ub, b.ub)
		case token.AND:
			op, ub = "&&&", a.ub
			if b.ub.Cmp(ub) < 0 {
				ub = b.ub
			}
		case token.OR:
			op, ub = "|||", a.ub
			if b.ub.Cmp(ub) > 0 {
				ub = b.ub
			}
			ub = pow2above(ub)
		case token.SHL, token.SHR:
			n, ok := constNat(v.info, x.Y)
			if !ok || n < 0 || n > 64 {
				return a, fail("shift by a non-constant")
			}
			if x.Op == token.SHL {
				op, ub = "<<<", new(big.Int).Lsh(a.ub, uint(n))
			} else {
				op, ub = ">>>", new(big.Int).Rsh(a.ub, uint(n))
			}
		default:
			return a, fail("operator %s", x.Op)
		}
		var r vterm
		if a.pure && b.pure {
			r = vterm{s: "(" + a.s + " " + op + " " + b.s + ")", pure: true, ub: ub}
		} else {
			r = vterm{s: "(opN (· " + op + " ·) " + lift(a) + " " + lift(b) + ")", ub: ub}
		}
		m := maxOf(ty)
		if m == nil {
			return r, fail("arithmetic of type %v", ty)
		}
		if ub.Cmp(m) > 0 {
			return v.wrap(r, ty)
		}
		return r, nil
	}
	return vterm{}, fail("integer expression form %T", e)
}

// wrap applies Go's fixed-width truncation of an unsigned type
func (v *validTr) wrap(t vterm, ty types.Type) (vterm, error) {
	var mod string
	switch basicKind(ty) {
	case types.Uint8:
		mod = "256"
	case types.Uint16:
		mod = "65536"
	case types.Uint32:
		mod = "4294967296"
	default:
		if t.ub.Cmp(bigLen) <= 0 {
			return t, nil // int / int64 / uint64: lengths and small products, no 64-bit overflow
		}
		return t, fail("value up to %v in type %v", t.ub, ty)
	}
	m, _ := new(big.Int).SetString(mod, 10)
	ub := new(big.Int).Sub(m, big.NewInt(1))
	if t.pure {
		return vterm{s: "(" + t.s + " % " + mod + ")", pure: true, ub: ub}, nil
	}
	return vterm{s: "(opN (· % ·) " + t.s + " (pure " + mod + "))", ub: ub}, nil
}

func (v *validTr) cond(e ast.Expr) (vterm, error) {
	e = paren(e)
	switch x := e.(type) {
	case *ast.UnaryExpr:
		if x.Op == token.NOT {
			c, err := v.cond(x.X)
			if err != nil {
				return c, err
			}
			if c.pure {
				return vterm{s: "¬ (" + c.s + ")", pure: true}, nil
			}
			return vterm{s: "(notB " + c.s + ")"}, nil
		}
	case *ast.BinaryExpr:
		switch x.Op {
		case token.LAND, token.LOR:
			a, err := v.cond(x.X)
			if err != nil {
				return a, err
			}
			b, err := v.cond(x.Y)
			if err != nil {
				return b, err
			}
			if a.pure && b.pure {
				op := map[token.Token]string{token.LAND: "∧", token.LOR: "∨"}[x.Op]
				return vterm{s: "(" + a.s + " " + op + " " + b.s + ")", pure: true}, nil
			}
			fn := map[token.Token]string{token.LAND: "andThen", token.LOR: "orElse"}[x.Op]
			return vterm{s: "(" + fn + " " + liftB(a) + " " + liftB(b) + ")"}, nil
		case token.LSS, token.GTR, token.LEQ, token.GEQ, token.EQL, token.NEQ:
			a, err := v.num(x.X)
			if err != nil {
				return a, err
			}
			b, err := v.num(x.Y)
			if err != nil {
				return b, err
			}
			if a.str != b.str {
				return a, fail("comparison of a string with an integer")
			}
			if a.str && x.Op != token.EQL && x.Op != token.NEQ {
				return a, fail("ordering of strings")
			}
			op := map[token.Token]string{token.LSS: "<", token.GTR: ">", token.LEQ: "≤", token.GEQ: "≥", token.EQL: "=", token.NEQ: "≠"}[x.Op]
			if a.pure && b.pure {
				return vterm{s: a.s + " " + op + " " + b.s, pure: true}, nil
			}
			return vterm{s: "(rel (fun a b => decide (a " + op + " b)) " + lift(a) + " " + lift(b) + ")"}, nil
		}
	}
	return vterm{}, fail("condition form %T", e)
}

func liftB(t vterm) string {
	if t.pure {
		return "(pure (decide (" + t.s + ")))"
	}
	return t.s
}

// ret translates a return statement's value
func (v *validTr) ret(s ast.Stmt) (string, error) {
	rs, ok := s.(*ast.ReturnStmt)
	if !ok || len(rs.Results) != 1 {
		return "", fail("statement %T where a single-value return is required", s)
	}
	r := paren(rs.Results[0])
	if id, ok := r.(*ast.Ident); ok {
		switch {
		case id.Name == "nil" && !v.boolRes:
			return ".ok ()", nil
		case id.Name == "true" && v.boolRes:
			return ".ok ()", nil
		case id.Name == "false" && v.boolRes:
			return ".err .frameLen", nil
		}
		return v.errVar(id)
	}
	if c, ok := r.(*ast.CallExpr); ok && exprStr(c.Fun) == "fmt.Errorf" && len(c.Args) >= 2 {
		lit, ok := c.Args[0].(*ast.BasicLit)
		if !ok || strings.Count(lit.Value, "%w") != 1 {
			return "", fail("fmt.Errorf without exactly one %%w")
		}
		var found *ast.Ident
		for _, a := range c.Args[1:] {
			if t := v.info.TypeOf(a); t != nil && t.String() == "error" {
				id, ok := paren(a).(*ast.Ident)
				if !ok || found != nil {
					return "", fail("fmt.Errorf wraps something other than one error variable")
				}
				found = id
			}
		}
		if found == nil {
			return "", fail("fmt.Errorf wraps no error variable")
		}
		return v.errVar(found)
	}
	return "", fail("returned expression form %T", r)
}

func (v *validTr) errVar(id *ast.Ident) (string, error) {
	o, ok := v.info.Uses[id].(*types.Var)
	if !ok || o.Parent() != v.p.Types.Scope() || leanErrs[id.Name] == "" {
		return "", fail("returned %s is not a package-level sentinel error with an Err constructor", id.Name)
	}
	v.errs[id.Name] = leanErrs[id.Name]
	return ".err ." + leanErrs[id.Name], nil
}

func (v *validTr) stmt(s ast.Stmt) error {
	if v.done {
		return fail("statement after return")
	}
	switch x := s.(type) {
	case *ast.ReturnStmt:
		r, err := v.ret(x)
		if err != nil {
			return err
		}
		v.emit("%s", r)
		v.done = true
		return nil
	case *ast.IfStmt:
		if x.Else != nil || len(x.Body.List) != 1 {
			return fail("if with else or a body of %d statements", len(x.Body.List))
		}
		if x.Init != nil {
			as, ok := x.Init.(*ast.AssignStmt)
			if !ok || as.Tok != token.DEFINE || len(as.Lhs) != 1 || len(as.Rhs) != 1 {
				return fail("if-init form")
			}
			id := as.Lhs[0].(*ast.Ident)
			// `if err := p.M(); err != nil { return err }`
			if c, ok := paren(as.Rhs[0]).(*ast.CallExpr); ok {
				if sel, ok := c.Fun.(*ast.SelectorExpr); ok && len(c.Args) == 0 && v.isRecv(sel.X) {
					key := v.typ + "." + sel.Sel.Name
					if cal, ok := validCallees[key]; ok && cal.kind == "unit" {
						be, ok1 := paren(x.Cond).(*ast.BinaryExpr)
						rs, ok2 := x.Body.List[0].(*ast.ReturnStmt)
						if ok1 && ok2 && be.Op == token.NEQ && exprStr(be.X) == id.Name && exprStr(be.Y) == "nil" &&
							len(rs.Results) == 1 && exprStr(rs.Results[0]) == id.Name {
							v.callees[key+" = "+cal.fn] = true
							v.emit("let _ ← %s p", cal.fn)
							return nil
						}
					}
				}
			}
			t, err := v.num(as.Rhs[0])
			if err != nil {
				return err
			}
			if !t.pure {
				return fail("if-init with a possibly panicking value")
			}
			name := leanName(id.Name)
			if name == "p" {
				name = "p'"
			}
			v.emit("let %s := %s", name, t.s)
			v.locals[v.info.Defs[id]] = vterm{s: name, pure: true, ub: t.ub}
		}
		r, err := v.ret(x.Body.List[0])
		if err != nil {
			return err
		}
		c, err := v.cond(x.Cond)
		if err != nil {
			return err
		}
		if c.pure {
			v.emit("if %s then %s else do", c.s, r)
		} else {
			v.nc++
			v.emit("let c%d ← %s", v.nc, c.s)
			v.emit("if c%d then %s else do", v.nc, r)
		}
		v.indent += "  "
		return nil
	}
	return fail("statement form %T", s)
}

func validFacts(p *packages.Package, b *strings.Builder) {
	b.WriteString("/- GENERATED by /verif/tools/goextract (valid.go) from the Go sources in /repo — do not edit. -/\n")
	b.WriteString("import PacketVerif.Model.Views\nimport PacketVerif.Model.ValidGo\nset_option linter.unusedVariables false\nnamespace PV.Gen.Valid\nopen PV PV.Model\n\n")
	callees := map[string]bool{}
	errs := map[string]string{}
	var done, untr []string
	for _, n := range viewTypeNames(p) {
		fd := findFunc(p, n, "IsValid")
		if fd == nil || fd.Body == nil {
			untr = append(untr, fmt.Sprintf("(%q, %q)", n, "declaration not found"))
			continue
		}
		v := &validTr{p: p, info: p.TypesInfo, typ: n, locals: map[types.Object]vterm{}, indent: "  ", callees: callees, errs: errs}
		if fd.Recv != nil && len(fd.Recv.List) == 1 && len(fd.Recv.List[0].Names) == 1 {
			v.recv = p.TypesInfo.Defs[fd.Recv.List[0].Names[0]]
		}
		sig := p.TypesInfo.Defs[fd.Name].(*types.Func).Type().(*types.Signature)
		var err error
		if sig.Results().Len() != 1 {
			err = fail("result list %v", sig.Results())
		} else if basicKind(sig.Results().At(0).Type()) == types.Bool {
			v.boolRes = true
		} else if sig.Results().At(0).Type().String() != "error" {
			err = fail("result type %v", sig.Results().At(0).Type())
		}
		pos := fset.Position(fd.Pos())
		for _, s := range fd.Body.List {
			if err != nil {
				break
			}
			if err = v.stmt(s); err != nil {
				err = fail("line %d: %v", fset.Position(s.Pos()).Line-pos.Line, err)
			}
		}
		if err == nil && !v.done {
			err = fail("body does not end in return")
		}
		if err != nil {
			untr = append(untr, fmt.Sprintf("(%q, %q)", n, err.Error()))
			continue
		}
		done = append(done, fmt.Sprintf("%q", n))
		fmt.Fprintf(b, "/-- Go: func (%s) IsValid() (%s) -/\ndef genValid%s (p : Bytes) : Outcome Unit := do\n%s\n\n", n, pos.Filename[strings.LastIndex(pos.Filename, "/")+1:], n, strings.Join(v.lines, "\n"))
	}
	var cl, el, ev []string
	for c := range callees {
		cl = append(cl, fmt.Sprintf("%q", c))
	}
	sort.Strings(cl)
	for g, l := range errs {
		el = append(el, fmt.Sprintf("(%q, Err.%s)", g, l))
	}
	sort.Strings(el)
	// all package-level variables of type error
	sc := p.Types.Scope()
	for _, n := range sc.Names() {
		if vr, ok := sc.Lookup(n).(*types.Var); ok && vr.Type().String() == "error" {
			ev = append(ev, fmt.Sprintf("%q", n))
		}
	}
	fmt.Fprintf(b, "/-- F10: the view types whose IsValid was translated above -/\ndef validTranslated : List String := [%s]\n\n", strings.Join(done, ", "))
	fmt.Fprintf(b, "/-- F10: IsValid bodies the translator could NOT express, with the first offending construct -/\ndef validUntranslated : List (String × String) := [\n  %s]\n\n", strings.Join(untr, ",\n  "))
	fmt.Fprintf(b, "/-- F10: irregular methods replaced by their model function (Go method = Lean function) -/\ndef validCallees : List String := [%s]\n\n", strings.Join(cl, ", "))
	fmt.Fprintf(b, "/-- F10: the sentinel errors returned by the predicates and the Err constructor each was rendered as -/\ndef validErrs : List (String × Err) := [%s]\n\n", strings.Join(el, ", "))
	fmt.Fprintf(b, "/-- F10: every package-level variable of type error of package packet -/\ndef errVars : List String := [%s]\n\n", strings.Join(ev, ", "))
	b.WriteString("end PV.Gen.Valid\n")
}
