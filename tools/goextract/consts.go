package main

import (
	"fmt"
	"go/ast"
	"go/constant"
	"go/types"
	"sort"
	"strings"

	"golang.org/x/tools/go/packages"
)

// F3: integer constants of package packet (all of them, by name) and the byte contents of the address
// variables initialised with literals (multicast groups and their MACs).
func constFacts(p *packages.Package, b *strings.Builder) {
	scope := p.Types.Scope()
	var cs []string
	for _, n := range scope.Names() {
		c, ok := scope.Lookup(n).(*types.Const)
		if !ok {
			continue
		}
		if c.Val().Kind() != constant.Int {
			continue
		}
		if v, ok := constant.Int64Val(c.Val()); ok && v >= 0 {
			cs = append(cs, fmt.Sprintf("(%q, %d)", n, v))
		}
	}
	sort.Strings(cs)
	fmt.Fprintf(b, "/-- F3: non-negative integer constants of package packet -/\ndef consts : List (String × Nat) := [\n  %s]\n\n", strings.Join(cs, ",\n  "))

	// address variables: `X = net.HardwareAddr{…}` / `netip.AddrFrom16([16]byte{…})` / `netip.AddrFrom4([4]byte{…})` / MustParseAddr("…")
	var vs []string
	for _, f := range p.Syntax {
		for _, d := range f.Decls {
			gd, ok := d.(*ast.GenDecl)
			if !ok {
				continue
			}
			for _, sp := range gd.Specs {
				vsp, ok := sp.(*ast.ValueSpec)
				if !ok || len(vsp.Names) != 1 || len(vsp.Values) != 1 {
					continue
				}
				var lit *ast.CompositeLit
				switch x := vsp.Values[0].(type) {
				case *ast.CompositeLit:
					lit = x
				case *ast.CallExpr:
					if len(x.Args) == 1 {
						if cl, ok := x.Args[0].(*ast.CompositeLit); ok {
							lit = cl
						}
					}
				}
				if lit == nil {
					continue
				}
				if tv, ok := p.TypesInfo.Types[lit]; !ok || !(isByteSlice(tv.Type) || isByteArray(tv.Type)) {
					continue
				}
				var bytes []string
				okAll := true
				for _, e := range lit.Elts {
					if v, ok := constNat(p.TypesInfo, e); ok {
						bytes = append(bytes, fmt.Sprint(v))
					} else {
						okAll = false
					}
				}
				if okAll {
					vs = append(vs, fmt.Sprintf("(%q, [%s])", vsp.Names[0].Name, strings.Join(bytes, ", ")))
				}
			}
		}
	}
	sort.Strings(vs)
	fmt.Fprintf(b, "/-- F3: package-level address variables initialised with byte literals -/\ndef addrVars : List (String × List Nat) := [\n  %s]\n\n", strings.Join(vs, ",\n  "))
}

func isByteArray(t types.Type) bool {
	if a, ok := t.Underlying().(*types.Array); ok {
		if b, ok := a.Elem().Underlying().(*types.Basic); ok && b.Kind() == types.Uint8 {
			return true
		}
	}
	return false
}
