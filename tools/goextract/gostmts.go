package main

import (
	"fmt"
	"go/ast"
	"go/token"
	"go/types"
	"sort"
	"strings"

	"golang.org/x/tools/go/packages"
)

// Goroutine facts (F9, C09 clause "Close stops all background goroutines").  For every `go` statement of the
// module: who starts it, what it runs, and how the started code can end:
//
//	shape    loopfree  no loop in the started function nor in the module functions it calls (statically, transitively;
//	                   a nested `go` starts a goroutine of its own and is listed separately)
//	         bounded   only bounded loops: three-clause `for i := …; cond; post` and `range` over a slice/map/array/string/int
//	         loop      at least one unbounded loop (`for {…}`, `for cond {…}`, `range` over a channel)
//	exits    for every unbounded loop, every way out of it that the syntax shows: each `return` (and each `break` that
//	         leaves the loop) inside the loop body, with the guards between the loop and the statement — the `case`
//	         of a select/switch and the conditions of the enclosing ifs — as source text
//	chanops  the channel operations of the started code (send, receive, select cases, range over a channel): what it
//	         can block on
//
// The tie pins (starter, started, shape, exits, chanops) of every goroutine together with the reviewed reason why
// the exit is reached after Session.Close / Handler.Close; line numbers are emitted for the reader only.

type goFunc struct {
	name string
	pkg  *packages.Package
	body *ast.BlockStmt
}

type goScan struct {
	funcs   map[string]*goFunc
	loops   int // 0 none, 1 bounded, 2 unbounded
	exits   map[string]bool
	chanops map[string]bool
	seen    map[string]bool
}

func isChan(info *types.Info, e ast.Expr) bool {
	if t := info.Types[e].Type; t != nil {
		_, ok := t.Underlying().(*types.Chan)
		return ok
	}
	return false
}

// exitsOf collects the ways out of the unbounded loop `loop` (body `body`) of function fn
func (g *goScan) exitsOf(fn string, body *ast.BlockStmt) {
	var walk func(n ast.Node, guards []string, breakLeaves bool)
	walkList := func(list []ast.Stmt, guards []string, breakLeaves bool) {
		for _, s := range list {
			walk(s, guards, breakLeaves)
		}
	}
	add := func(guards []string, what string) {
		gtxt := "unconditional"
		if len(guards) > 0 {
			gtxt = strings.Join(guards, " ∧ ")
		}
		g.exits[fn+": "+gtxt+" → "+what] = true
	}
	walk = func(n ast.Node, guards []string, breakLeaves bool) {
		switch x := n.(type) {
		case nil:
		case *ast.ReturnStmt:
			add(guards, "return")
		case *ast.BranchStmt:
			if x.Tok == token.BREAK && (breakLeaves || x.Label != nil) {
				add(guards, "break")
			}
			if x.Tok == token.GOTO {
				add(guards, "goto")
			}
		case *ast.BlockStmt:
			walkList(x.List, guards, breakLeaves)
		case *ast.IfStmt:
			c := "if " + nodeText(x.Cond)
			walkList(x.Body.List, append(append([]string{}, guards...), c), breakLeaves)
			if x.Else != nil {
				walk(x.Else, append(append([]string{}, guards...), "else of "+c), breakLeaves)
			}
		case *ast.SelectStmt:
			for _, cl := range x.Body.List {
				cc := cl.(*ast.CommClause)
				c := "default"
				if cc.Comm != nil {
					c = "case " + nodeText(cc.Comm)
				}
				walkList(cc.Body, append(append([]string{}, guards...), c), false)
			}
		case *ast.SwitchStmt:
			for _, cl := range x.Body.List {
				cc := cl.(*ast.CaseClause)
				c := "default"
				if cc.List != nil {
					var es []string
					for _, e := range cc.List {
						es = append(es, nodeText(e))
					}
					c = "case " + strings.Join(es, ", ")
				}
				if x.Tag != nil {
					c = "switch " + nodeText(x.Tag) + " " + c
				}
				walkList(cc.Body, append(append([]string{}, guards...), c), false)
			}
		case *ast.TypeSwitchStmt:
			for _, cl := range x.Body.List {
				walkList(cl.(*ast.CaseClause).Body, append(append([]string{}, guards...), "type switch case"), false)
			}
		case *ast.ForStmt:
			walkList(x.Body.List, append(append([]string{}, guards...), "inner loop"), false)
		case *ast.RangeStmt:
			walkList(x.Body.List, append(append([]string{}, guards...), "inner loop"), false)
		case *ast.LabeledStmt:
			walk(x.Stmt, guards, breakLeaves)
		}
	}
	walkList(body.List, nil, true)
}

func (g *goScan) scan(key string) {
	if g.seen[key] {
		return
	}
	g.seen[key] = true
	f := g.funcs[key]
	g.scanBody(f.name, f.pkg.TypesInfo, f.body)
}

func (g *goScan) scanBody(name string, info *types.Info, body *ast.BlockStmt) {
	bump := func(v int) {
		if v > g.loops {
			g.loops = v
		}
	}
	ast.Inspect(body, func(n ast.Node) bool {
		switch x := n.(type) {
		case *ast.GoStmt:
			// arguments are evaluated here, the call runs elsewhere
			for _, a := range x.Call.Args {
				ast.Inspect(a, func(m ast.Node) bool { return true })
			}
			return false
		case *ast.FuncLit:
			return true // a literal called or deferred here runs here; one that escapes is still listed conservatively
		case *ast.ForStmt:
			if x.Init != nil && x.Cond != nil && x.Post != nil {
				bump(1)
			} else {
				bump(2)
				g.exitsOf(name, x.Body)
				if x.Cond != nil {
					g.exits[name+": loop condition "+nodeText(x.Cond)+" false → loop ends"] = true
				}
			}
		case *ast.RangeStmt:
			if isChan(info, x.X) {
				bump(2)
				g.chanops[name+": range "+nodeText(x.X)] = true
				g.exitsOf(name, x.Body)
				g.exits[name+": channel "+nodeText(x.X)+" closed → loop ends"] = true
			} else {
				bump(1)
			}
		case *ast.SendStmt:
			g.chanops[name+": "+nodeText(x)] = true
		case *ast.UnaryExpr:
			if x.Op == token.ARROW {
				g.chanops[name+": "+nodeText(x)] = true
			}
		case *ast.SelectStmt:
			if len(x.Body.List) == 0 {
				g.chanops[name+": select {}"] = true
				bump(2)
			}
		case *ast.CallExpr:
			var obj types.Object
			switch fn := x.Fun.(type) {
			case *ast.Ident:
				obj = info.Uses[fn]
			case *ast.SelectorExpr:
				obj = info.Uses[fn.Sel]
			}
			if fo, ok := obj.(*types.Func); ok {
				if k := funcKey(fo); k != "" {
					if _, ok := g.funcs[k]; ok {
						g.scan(k)
					}
				}
			}
		}
		return true
	})
}

func goStmtFacts(pkgs []*packages.Package, b *strings.Builder) {
	funcs := map[string]*goFunc{}
	var order []string
	for _, p := range pkgs {
		if !strings.HasPrefix(p.PkgPath, modPath) || strings.HasSuffix(p.PkgPath, "/fastlog") {
			continue // fastlog: the logging library (formatting loops over digits and bytes) is not followed
		}
		for _, file := range p.Syntax {
			for _, d := range file.Decls {
				fd, ok := d.(*ast.FuncDecl)
				if !ok || fd.Body == nil {
					continue
				}
				obj, _ := p.TypesInfo.Defs[fd.Name].(*types.Func)
				if obj == nil {
					continue
				}
				if k := funcKey(obj); k != "" {
					funcs[k] = &goFunc{name: displayKey(k), pkg: p, body: fd.Body}
					order = append(order, k)
				}
			}
		}
	}
	sort.Strings(order)
	type row struct {
		key   string
		sites []string
	}
	rows := map[string]*row{}
	var keys []string
	unknown := map[string]bool{}
	for _, k := range order {
		f := funcs[k]
		info := f.pkg.TypesInfo
		ast.Inspect(f.body, func(n ast.Node) bool {
			gs, ok := n.(*ast.GoStmt)
			if !ok {
				return true
			}
			g := &goScan{funcs: funcs, exits: map[string]bool{}, chanops: map[string]bool{}, seen: map[string]bool{}}
			target := ""
			switch fn := gs.Call.Fun.(type) {
			case *ast.FuncLit:
				target = "func literal"
				g.scanBody(f.name+"$go", info, fn.Body)
			default:
				var obj types.Object
				switch c := fn.(type) {
				case *ast.Ident:
					obj = info.Uses[c]
				case *ast.SelectorExpr:
					obj = info.Uses[c.Sel]
				}
				if fo, ok := obj.(*types.Func); ok {
					if tk := funcKey(fo); tk != "" {
						if t, ok := funcs[tk]; ok {
							target = t.name
							g.scan(tk)
						}
					}
				}
				if target == "" {
					target = "unknown: " + nodeText(gs.Call.Fun)
					unknown[site(gs.Pos())+": go statement with a callee outside the module or a function value"] = true
				}
			}
			shape := []string{"loopfree", "bounded", "loop"}[g.loops]
			list := func(m map[string]bool) string {
				var l []string
				for s := range m {
					l = append(l, fmt.Sprintf("%q", s))
				}
				sort.Strings(l)
				return "[" + strings.Join(l, ", ") + "]"
			}
			key := fmt.Sprintf("(%q, %q, %q, %s, %s, ", f.name, target, shape, list(g.exits), list(g.chanops))
			if rows[key] == nil {
				rows[key] = &row{key: key}
				keys = append(keys, key)
			}
			rows[key].sites = append(rows[key].sites, site(gs.Pos()))
			return true
		})
	}
	sort.Strings(keys)
	var out []string
	for _, k := range keys {
		sort.Strings(rows[k].sites)
		out = append(out, fmt.Sprintf("%s%q)", k, strings.Join(rows[k].sites, ",")))
	}
	fmt.Fprintf(b, "/-- F9: every `go` statement of the module: (starting function, started function, shape, exits of its unbounded loops, channel\n    operations of the started code, sites) — see tools/goextract/gostmts.go -/\ndef goroutines : List (String × String × String × List String × List String × String) := [\n  %s]\n\n", strings.Join(out, ",\n  "))
	var ul []string
	for u := range unknown {
		ul = append(ul, fmt.Sprintf("%q", u))
	}
	sort.Strings(ul)
	fmt.Fprintf(b, "/-- F9: go statements the extractor cannot resolve (must be empty) -/\ndef goroutinesUnknown : List String := [%s]\n\n", strings.Join(ul, ", "))
}
