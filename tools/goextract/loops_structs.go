package main

// F14 (continued): struct values, pointer receivers, lists, `switch` and the `if err := f(); err != nil` forms needed by
// the NDP option parsers (see loops_opts.go for the overview).
//
//	types        a named struct of package packet whose fields all have supported types → a generated Lean structure
//	             `G_<Name>` with the Go field names and `G_<Name>.zero` (Go's zero value); int64 / time.Duration → Int
//	             (assumption intNoOverflow); []T for a supported T → List T ([]string → List Bytes); *T for a struct or
//	             named scalar T (receivers, never nil: assumption recvNonNil) → T, a function that writes through it
//	             returns the new value; `error` locals that are certainly non-nil → Err
//	expressions  x.F (field of a struct value), T{} / T{F: e, …}, *m, xs[i] (panics like Go), len(xs), append(xs, y…) /
//	             append(xs, ys...) (lists and byte slices: a new value — assumption noAlias), binary.BigEndian.Uint16/32,
//	             net.IP.To16 (primitive ipTo16), `x == nil` / `x != nil` on a byte slice as len(x) == 0 (assumption
//	             nilIsEmpty, every site listed in `optsNilSites` and pinned by the tie module)
//	statements   R.F = e, R.F.G = e, *m = e (R a local struct or pointer receiver), `var x T` (zero value),
//	             `err := fmt.Errorf(…)` (a certainly-non-nil error local), `switch tag { case c1, c2: … default: … }` and
//	             `switch { case cond: … }` without fallthrough / break (→ an if-else chain),
//	             form A  `if err := CALL; err != nil { return …, err }`  — CALL's error leaves the function: a monadic bind
//	             form B  `if err := CALL; err != nil { S1 } [else { S2 }]` with err used only by ignored log statements —
//	                     `catchErr`: on an error the receiver keeps its old value, S1 runs; otherwise the receiver is
//	                     updated and S2 runs.  Sound only when the callee's error paths leave the receiver unchanged:
//	                     checked syntactically for translated callees (`errMut`), or the receiver must be a local that
//	                     is dead on the error path; for an untranslated callee it is a listed assumption.
//	             CALL = R.m(args) for a pointer-receiver method, or f(args) for an error-only function.
//	             statements `Logger.….Write()` and `fmt.Println(…)` whose arguments are constants or variables are dropped
//	             (assumption logCallsNoEffect).
//	externals    a pointer-receiver method with result `error` only that the translator refuses (stdlib / third-party
//	             calls inside) may still be CALLED from forms A / B: it becomes a function parameter
//	             `ext_<T>_<m> : G_T → args → Outcome G_T` of the generated caller (listed in `optsExternals`); the tie
//	             theorem instantiates it with the model's function.

import (
	"fmt"
	"go/ast"
	"go/token"
	"go/types"
	"path/filepath"
	"strings"
)

type lpExtern struct {
	name string // Lean parameter name
	ty   string // Lean type
	key  string // Go name
	why  string
}

// ---- types ----

func (x *lpExt) zeroOf(lt string) string {
	switch {
	case lt == "Int" || lpWidth(lt) > 0:
		return "0"
	case lt == "Bool":
		return "false"
	case lt == "Bytes" || lt == "GMap" || strings.HasPrefix(lt, "(List "):
		return "[]"
	case strings.HasPrefix(lt, "G_"):
		return lt + ".zero"
	case strings.HasPrefix(lt, "I_"): // loops_marshal.go: an interface value; its zero value is nil
		return lt + ".nil_"
	}
	return ""
}

func (t *lpTr) extStructTy(ty types.Type) string {
	if isErrorType(ty) {
		return "Err"
	}
	if p, ok := ty.(*types.Pointer); ok {
		t.g.ext.assume("recvNonNil", "a pointer receiver / parameter *T is seen as the value it points to: it is never nil and not aliased by another argument")
		el := p.Elem()
		if n, ok := el.(*types.Named); ok {
			if _, isStruct := n.Underlying().(*types.Struct); isStruct {
				return t.structName(n)
			}
			if _, isBasic := n.Underlying().(*types.Basic); isBasic {
				return t.leanTy(n)
			}
		}
		return ""
	}
	if n, ok := ty.(*types.Named); ok {
		if _, isStruct := n.Underlying().(*types.Struct); isStruct {
			return t.structName(n)
		}
		if _, isIface := n.Underlying().(*types.Interface); isIface {
			return t.marshalIfaceTy(n) // loops_marshal.go
		}
	}
	if b, ok := ty.Underlying().(*types.Basic); ok && b.Kind() == types.Int64 {
		return "Int"
	}
	if s, ok := ty.Underlying().(*types.Slice); ok {
		el := t.leanTy(s.Elem())
		if el != "" && el != "GLine" && el != "Err" {
			return "(List " + el + ")"
		}
	}
	return ""
}

func (t *lpTr) structName(n *types.Named) string {
	x := t.g.ext
	if s, ok := x.structs[n]; ok {
		return s
	}
	if x.structBusy[n] || n.Obj().Pkg() == nil || n.Obj().Pkg().Path() != "github.com/irai/packet" {
		return ""
	}
	x.structBusy[n] = true
	defer delete(x.structBusy, n)
	st := n.Underlying().(*types.Struct)
	name := "G_" + n.Obj().Name()
	var fields, zeros []string
	for i := 0; i < st.NumFields(); i++ {
		f := st.Field(i)
		lt := t.leanTy(f.Type())
		z := x.zeroOf(lt)
		if lt == "" || lt == "GLine" || lt == "Err" || z == "" || f.Embedded() {
			x.structs[n] = ""
			return ""
		}
		fields = append(fields, fmt.Sprintf("  %s : %s", lpName(f.Name()), lt))
		zeros = append(zeros, fmt.Sprintf("%s := %s", lpName(f.Name()), z))
	}
	x.structs[n] = name
	pos := t.p.Fset.Position(n.Obj().Pos())
	x.structDefs = append(x.structDefs, fmt.Sprintf("/-- Go: type %s struct (%s:%d) -/\nstructure %s where\n%s\n\n/-- Go's zero value of %s -/\ndef %s.zero : %s := { %s }\n",
		n.Obj().Name(), filepath.Base(pos.Filename), pos.Line, name, strings.Join(fields, "\n"), n.Obj().Name(), name, name, strings.Join(zeros, ", ")))
	return name
}

func lpIsStructTy(lt string) bool { return strings.HasPrefix(lt, "G_") }
func lpIsListTy(lt string) bool   { return strings.HasPrefix(lt, "(List ") }

// ---- expressions ----

// pure, total, allocation-only standard-library methods on byte slices → primitive of Model/LoopGoOpts.lean
var lpStdBytes = map[string]string{"net.IP.To16": "ipTo16"}

func (t *lpTr) stdMethod(c *ast.CallExpr) (string, ast.Expr) {
	sel, ok := paren(c.Fun).(*ast.SelectorExpr)
	if !ok {
		return "", nil
	}
	f, ok := t.info.Uses[sel.Sel].(*types.Func)
	if !ok || f.Pkg() == nil {
		return "", nil
	}
	sig := f.Type().(*types.Signature)
	if sig.Recv() == nil {
		return "", nil
	}
	if n, ok := sig.Recv().Type().(*types.Named); ok {
		if p := lpStdBytes[f.Pkg().Path()+"."+n.Obj().Name()+"."+f.Name()]; p != "" && len(c.Args) == 0 {
			return p, sel.X
		}
	}
	return "", nil
}

// binary.BigEndian.Uint16 / Uint32
func (t *lpTr) beRead(c *ast.CallExpr) string {
	sel, ok := paren(c.Fun).(*ast.SelectorExpr)
	if !ok {
		return ""
	}
	f, ok := t.info.Uses[sel.Sel].(*types.Func)
	if !ok || f.Pkg() == nil || f.Pkg().Path() != "encoding/binary" || len(c.Args) != 1 {
		return ""
	}
	in, ok := paren(sel.X).(*ast.SelectorExpr)
	if !ok || in.Sel.Name != "BigEndian" {
		return ""
	}
	switch f.Name() {
	case "Uint16":
		return "be16I"
	case "Uint32":
		return "be32I"
	}
	return ""
}

func (t *lpTr) extStructBytes(e ast.Expr, b *lpBinds) (string, bool) {
	switch x := e.(type) {
	case *ast.IndexExpr:
		// xs[i] on a slice of byte slices ([]net.IP field): loops_marshal.go
		if bt := t.info.TypeOf(x.X); bt != nil && t.leanTy(bt) == "(List Bytes)" {
			base := t.expr(x.X, b)
			i := t.intExpr(x.Index, b)
			n := t.tmp()
			b.add(fmt.Sprintf("let %s ← listIdxI %s %s", n, base, i))
			return n, true
		}
	case *ast.SelectorExpr:
		if s, ok := t.fieldRead(x, b); ok {
			return s, true
		}
	case *ast.CallExpr:
		if s, ok := t.marshalBytesCall(x, b); ok { // loops_marshal.go: net.CIDRMask, net.IP.Mask
			return s, true
		}
		if p, recv := t.stdMethod(x); p != "" {
			return "(" + p + " " + t.bytesExpr(recv, b) + ")", true
		}
		if t.isBuiltin(x, "append") {
			return t.appendExpr(x, b), true
		}
	case *ast.CompositeLit:
		if lpIsBytes(t.info.TypeOf(x)) {
			var parts []string
			for _, el := range x.Elts {
				if _, kv := el.(*ast.KeyValueExpr); kv {
					t.refuse(e, "keyed element in a byte-slice literal")
				}
				parts = append(parts, t.expr(el, b))
			}
			return "([" + strings.Join(parts, ", ") + "] : Bytes)", true
		}
	}
	return "", false
}

// x.F on a struct value (local variable, pointer receiver, nested field, list element)
func (t *lpTr) fieldRead(x *ast.SelectorExpr, b *lpBinds) (string, bool) {
	sel, ok := t.info.Selections[x]
	if !ok || sel.Kind() != types.FieldVal || len(sel.Index()) != 1 {
		return "", false
	}
	bt := t.info.TypeOf(x.X)
	if bt == nil || !lpIsStructTy(t.leanTy(bt)) {
		return "", false
	}
	return t.expr(x.X, b) + "." + lpName(x.Sel.Name), true
}

func (t *lpTr) appendExpr(c *ast.CallExpr, b *lpBinds) string {
	lt := t.tyOf(c.Args[0])
	if lt != "Bytes" && !lpIsListTy(lt) {
		t.refuse(c, "append to %s", lt)
	}
	t.g.ext.assume("noAlias", "append / copy produce a new value: the result of append does not share a backing array with another live slice that is written later")
	base := t.expr(c.Args[0], b)
	if c.Ellipsis != token.NoPos {
		if len(c.Args) != 2 {
			t.refuse(c, "append arity")
		}
		return "(" + base + " ++ " + t.expr(c.Args[1], b) + ")"
	}
	var els []string
	for _, a := range c.Args[1:] {
		els = append(els, t.expr(a, b))
	}
	return "(" + base + " ++ [" + strings.Join(els, ", ") + "])"
}

func (t *lpTr) extStructExpr(e ast.Expr, b *lpBinds) (string, bool) {
	if s, ok := t.marshalExpr(e, b); ok { // loops_marshal.go: &T{…}, x.M() on a pointer receiver, *p of a scalar pointer
		return s, true
	}
	switch x := e.(type) {
	case *ast.SelectorExpr:
		return t.fieldRead(x, b)
	case *ast.StarExpr:
		if v := t.varOf(x.X); v != nil && t.isLocal(v) {
			if _, ok := v.Type().(*types.Pointer); ok && t.leanTy(v.Type()) != "" {
				return lpName(v.Name()), true
			}
		}
	case *ast.CompositeLit:
		ty := t.info.TypeOf(x)
		lt := t.leanTy(ty)
		if lpIsStructTy(lt) {
			if len(x.Elts) == 0 {
				return lt + ".zero", true
			}
			var fs []string
			for _, el := range x.Elts {
				kv, ok := el.(*ast.KeyValueExpr)
				if !ok {
					t.refuse(e, "positional struct literal")
				}
				fs = append(fs, fmt.Sprintf("%s := %s", lpName(kv.Key.(*ast.Ident).Name), t.expr(kv.Value, b)))
			}
			return "{ " + lt + ".zero with " + strings.Join(fs, ", ") + " }", true
		}
		if lpIsListTy(lt) && len(x.Elts) == 0 {
			return "([] : " + strings.TrimSuffix(strings.TrimPrefix(lt, "("), ")") + ")", true
		}
	case *ast.IndexExpr:
		if bt := t.info.TypeOf(x.X); bt != nil && lpIsListTy(t.leanTy(bt)) {
			base := t.expr(x.X, b)
			i := t.intExpr(x.Index, b)
			n := t.tmp()
			b.add(fmt.Sprintf("let %s ← listIdxI %s %s", n, base, i))
			return n, true
		}
	case *ast.CallExpr:
		if p := t.beRead(x); p != "" {
			arg := t.bytesExpr(x.Args[0], b)
			n := t.tmp()
			b.add(fmt.Sprintf("let %s ← %s %s", n, p, arg))
			return n, true
		}
		if t.isBuiltin(x, "len") && len(x.Args) == 1 {
			if bt := t.info.TypeOf(x.Args[0]); bt != nil && lpIsListTy(t.leanTy(bt)) {
				return "(" + t.expr(x.Args[0], b) + ".length : Int)", true
			}
		}
		if t.isBuiltin(x, "append") && len(x.Args) >= 2 {
			return t.appendExpr(x, b), true
		}
		if t.isBuiltin(x, "cap") && len(x.Args) == 1 && lpIsBytes(t.info.TypeOf(x.Args[0])) {
			// capEqLen: the length-only view
			return "(" + t.bytesExpr(x.Args[0], b) + ".length : Int)", true
		}
		// conversion int → uint8 (two's complement truncation)
		if tv, ok := t.info.Types[x.Fun]; ok && tv.IsType() && len(x.Args) == 1 {
			if to := t.leanTy(tv.Type); lpWidth(to) > 0 {
				if at := t.info.TypeOf(x.Args[0]); at != nil && t.leanTy(at) == "Int" {
					if _, isConst := t.constOf(x); !isConst {
						return fmt.Sprintf("(intTo%s %s)", to, t.expr(x.Args[0], b)), true
					}
				}
			}
		}
	case *ast.Ident:
		if v := t.varOf(x); v != nil && t.isLocal(v) && t.g.ext.nonNilErr[v] {
			return lpName(v.Name()), true
		}
	}
	return "", false
}

// x == nil / x != nil on a byte slice
func (t *lpTr) extCond(e ast.Expr, b *lpBinds) (string, bool) {
	if s, ok := t.marshalCond(e, b); ok { // loops_marshal.go: a bool field of a struct
		return s, true
	}
	be, ok := e.(*ast.BinaryExpr)
	if !ok || (be.Op != token.EQL && be.Op != token.NEQ) {
		return "", false
	}
	var other ast.Expr
	switch {
	case t.isNil(be.Y):
		other = be.X
	case t.isNil(be.X):
		other = be.Y
	default:
		return "", false
	}
	ot := t.info.TypeOf(other)
	if ot == nil || !lpIsBytes(ot) {
		return "", false
	}
	pos := t.p.Fset.Position(e.Pos())
	_ = pos
	t.g.ext.nilSites = append(t.g.ext.nilSites, fmt.Sprintf("%s: %s", t.fn.key, nodeText(e)))
	t.g.ext.assume("nilIsEmpty", "x == nil on a byte slice is rendered as len(x) == 0: exact when that slice is never empty-but-non-nil; every site is listed in optsNilSites")
	s := t.bytesExpr(other, b)
	if be.Op == token.EQL {
		return "(" + s + ".length = 0)", true
	}
	return "(" + s + ".length ≠ 0)", true
}

// ---- statements ----

// an assignable struct location: root variable and the field path below it
func (t *lpTr) lhsPath(e ast.Expr) (*types.Var, []string, bool) {
	e = paren(e)
	switch x := e.(type) {
	case *ast.Ident:
		v := t.varOf(x)
		if v == nil || !t.isLocal(v) {
			return nil, nil, false
		}
		return v, nil, true
	case *ast.StarExpr:
		v := t.varOf(x.X)
		if v == nil || !t.isLocal(v) {
			return nil, nil, false
		}
		if _, ok := v.Type().(*types.Pointer); !ok {
			return nil, nil, false
		}
		return v, nil, true
	case *ast.SelectorExpr:
		sel, ok := t.info.Selections[x]
		if !ok || sel.Kind() != types.FieldVal || len(sel.Index()) != 1 {
			return nil, nil, false
		}
		v, p, ok := t.lhsPath(x.X)
		if !ok {
			return nil, nil, false
		}
		return v, append(p, lpName(x.Sel.Name)), true
	}
	return nil, nil, false
}

func lpUpdate(base string, path []string, val string) string {
	if len(path) == 0 {
		return val
	}
	return fmt.Sprintf("{ %s with %s := %s }", base, path[0], lpUpdate(base+"."+path[0], path[1:], val))
}

func (t *lpTr) storePath(v *types.Var, path []string, val string, b *lpBinds, at ast.Node) {
	lt := t.leanTy(v.Type())
	if lt == "" || lt == "GLine" {
		t.refuse(at, "assignment to a variable of type %s", v.Type())
	}
	n := lpName(v.Name())
	b.add(fmt.Sprintf("let %s : %s := %s", n, lt, lpUpdate(n, path, val)))
}

func (t *lpTr) extStructAssign(x *ast.AssignStmt, b *lpBinds) bool {
	if len(x.Lhs) != 1 || len(x.Rhs) != 1 {
		return false
	}
	lhs, rhs := paren(x.Lhs[0]), x.Rhs[0]
	switch x.Tok {
	case token.DEFINE:
		id, ok := lhs.(*ast.Ident)
		if !ok {
			return false
		}
		v, ok := t.info.Defs[id].(*types.Var)
		if !ok || !isErrorType(v.Type()) {
			return false
		}
		var eb lpBinds
		ev := t.errValue(rhs, &eb)
		if ev == "" {
			t.refuse(x, "error variable %s defined from something else than a certainly-non-nil error", id.Name)
		}
		b.lines = append(b.lines, eb.lines...)
		b.add(fmt.Sprintf("let %s : Err := %s", lpName(v.Name()), ev))
		t.g.ext.nonNilErr[v] = true
		return true
	case token.ASSIGN:
		_, isSel := lhs.(*ast.SelectorExpr)
		_, isStar := lhs.(*ast.StarExpr)
		if !isSel && !isStar {
			return false
		}
		if isSel {
			if _, ok := t.lineField(lhs.(*ast.SelectorExpr)); ok {
				return false
			}
		}
		v, path, ok := t.lhsPath(lhs)
		if !ok {
			return false
		}
		val := t.exprAs(rhs, t.info.TypeOf(lhs), b)
		t.storePath(v, path, val, b, x)
		return true
	}
	return false
}

// `var x T` → the zero value
func (t *lpTr) extVarDecl(s ast.Stmt, b *lpBinds) bool {
	ds, ok := s.(*ast.DeclStmt)
	if !ok {
		return false
	}
	gd, ok := ds.Decl.(*ast.GenDecl)
	if !ok || gd.Tok != token.VAR {
		return false
	}
	for _, sp := range gd.Specs {
		if len(sp.(*ast.ValueSpec).Values) != 0 {
			return false
		}
	}
	for _, sp := range gd.Specs {
		for _, id := range sp.(*ast.ValueSpec).Names {
			v := t.info.Defs[id].(*types.Var)
			lt := t.leanTy(v.Type())
			z := t.g.ext.zeroOf(lt)
			if z == "" {
				t.refuse(s, "variable of type %s", v.Type())
			}
			b.add(fmt.Sprintf("let %s : %s := %s", lpName(v.Name()), lt, z))
		}
	}
	return true
}

// statements without an effect on the result: Logger.….Write(), fmt.Println(…) with constant / variable arguments
func (t *lpTr) isLogCall(c *ast.CallExpr) bool {
	okArgs := func(args []ast.Expr) bool {
		for _, a := range args {
			a = paren(a)
			if _, isConst := t.constOf(a); isConst {
				continue
			}
			if id, ok := a.(*ast.Ident); ok && t.varOf(id) != nil && t.isLocal(t.varOf(id)) {
				continue
			}
			return false
		}
		return true
	}
	cur := c
	for {
		if !okArgs(cur.Args) {
			return false
		}
		sel, ok := paren(cur.Fun).(*ast.SelectorExpr)
		if !ok {
			return false
		}
		switch x := paren(sel.X).(type) {
		case *ast.CallExpr:
			cur = x
			continue
		case *ast.Ident:
			if v, ok := t.info.Uses[x].(*types.Var); ok && v.Pkg() != nil && v.Parent() == v.Pkg().Scope() && v.Name() == "Logger" && cur != c {
				return true
			}
			if pn, ok := t.info.Uses[x].(*types.PkgName); ok && pn.Imported().Path() == "fmt" && sel.Sel.Name == "Println" && cur == c {
				return true
			}
		}
		return false
	}
}

func (t *lpTr) extStructCallStmt(c *ast.CallExpr, b *lpBinds) bool {
	if t.isLogCall(c) {
		t.g.ext.assume("logCallsNoEffect", "statements Logger.….Write() and fmt.Println(…) whose arguments are constants or local variables do not panic, block or change anything the function returns; they are dropped")
		return true
	}
	return false
}

func (t *lpTr) extStructAssignedCall(c *ast.CallExpr, res map[*types.Var]bool) {
	if t.marshalPutWidth(c) != 0 { // loops_marshal.go
		if v := t.rootVar(c.Args[0]); v != nil {
			res[v] = true
		}
		return
	}
	if t.marshalReadOnlyMethod(c) { // loops_marshal.go: a translated pointer-receiver method that writes nothing
		return
	}
	sel, ok := paren(c.Fun).(*ast.SelectorExpr)
	if !ok {
		return
	}
	f, ok := t.info.Uses[sel.Sel].(*types.Func)
	if !ok {
		return
	}
	if r := f.Type().(*types.Signature).Recv(); r != nil {
		if _, isPtr := r.Type().(*types.Pointer); isPtr {
			if v := t.rootVar(sel.X); v != nil && t.isLocal(v) {
				res[v] = true
			}
		}
	}
}

func (t *lpTr) extStructParamMutated(body ast.Node, v *types.Var, as map[*types.Var]bool) bool {
	_, isPtr := v.Type().(*types.Pointer)
	return isPtr && as[v]
}

func (t *lpTr) extShadowOK(v *types.Var) bool {
	if !isErrorType(v.Type()) {
		return false
	}
	ok := false
	ast.Inspect(t.fd, func(n ast.Node) bool {
		if is, isIf := n.(*ast.IfStmt); isIf && is.Init != nil {
			if a, isA := is.Init.(*ast.AssignStmt); isA && a.Tok == token.DEFINE && len(a.Lhs) == 1 {
				if id, isId := a.Lhs[0].(*ast.Ident); isId && t.info.Defs[id] == v {
					if _, isCall := paren(a.Rhs[0]).(*ast.CallExpr); isCall {
						ok = true
					}
				}
			}
		}
		return true
	})
	return ok
}

func (t *lpTr) extReturnErrVar(x *ast.ReturnStmt, e ast.Expr, vals []ast.Expr, ind int, j *lpJump, b *lpBinds) ([]string, bool) {
	if v := t.varOf(e); v != nil && t.g.ext.nonNilErr[v] {
		lines := lpPut(nil, ind, b)
		return append(lines, lpInd(ind)+"Outcome.err "+lpName(v.Name())), true
	}
	return nil, false
}

// ---- if err := CALL; err != nil ----

type lpErrCall struct {
	errVar *types.Var
	call   *ast.CallExpr
}

// `if err := CALL; err != nil {…}` with CALL returning only an error
func (t *lpTr) errCallIf(x *ast.IfStmt) *lpErrCall {
	a, ok := x.Init.(*ast.AssignStmt)
	if !ok || a.Tok != token.DEFINE || len(a.Lhs) != 1 || len(a.Rhs) != 1 {
		return nil
	}
	id, ok := a.Lhs[0].(*ast.Ident)
	if !ok {
		return nil
	}
	v, ok := t.info.Defs[id].(*types.Var)
	if !ok || !isErrorType(v.Type()) {
		return nil
	}
	c, ok := paren(a.Rhs[0]).(*ast.CallExpr)
	if !ok {
		return nil
	}
	be, ok := paren(x.Cond).(*ast.BinaryExpr)
	if !ok || be.Op != token.NEQ || t.varOf(be.X) != v || !t.isNil(be.Y) {
		return nil
	}
	return &lpErrCall{errVar: v, call: c}
}

// the Outcome-valued term of an error-only call, the receiver location it writes (nil for a plain function) and whether
// its error paths are known to leave the receiver unchanged
func (t *lpTr) errCallTerm(c *ast.CallExpr, b *lpBinds) (term string, recv *types.Var, path []string, recvTy string, errClean bool) {
	var callee *types.Func
	var recvExpr ast.Expr
	switch f := paren(c.Fun).(type) {
	case *ast.Ident:
		callee, _ = t.info.Uses[f].(*types.Func)
	case *ast.SelectorExpr:
		callee, _ = t.info.Uses[f.Sel].(*types.Func)
		recvExpr = f.X
	}
	if callee == nil {
		t.refuse(c, "call of %s", nodeText(c.Fun))
	}
	sig := callee.Type().(*types.Signature)
	if sig.Results().Len() != 1 || !isErrorType(sig.Results().At(0).Type()) {
		t.refuse(c, "%s does not return exactly an error", callee.Name())
	}
	var args []string
	if sig.Recv() != nil {
		if _, isPtr := sig.Recv().Type().(*types.Pointer); !isPtr {
			t.refuse(c, "error-returning method %s with a value receiver", callee.Name())
		}
		v, p, ok := t.lhsPath(recvExpr)
		if !ok {
			t.refuse(c, "receiver %s of %s is not a local struct location", nodeText(recvExpr), callee.Name())
		}
		recv, path = v, p
		recvTy = t.leanTy(sig.Recv().Type())
		if recvTy == "" {
			t.refuse(c, "receiver type %s", sig.Recv().Type())
		}
		args = append(args, strings.Join(append([]string{lpName(v.Name())}, p...), "."))
	}
	for _, a := range c.Args {
		args = append(args, t.argExpr(a, b))
	}
	cf, why := t.g.translate(callee)
	if cf == nil {
		if recv == nil {
			t.refuse(c, "calls %s, which is not translated: %s", callee.Name(), why)
		}
		// external: a parameter of the generated function
		var atys []string
		for i := 0; i < sig.Params().Len(); i++ {
			lt := t.leanTy(sig.Params().At(i).Type())
			if lt == "" {
				t.refuse(c, "calls %s, which is not translated (%s) and has a parameter of type %s", callee.Name(), why, sig.Params().At(i).Type())
			}
			atys = append(atys, lt)
		}
		name := "ext_" + strings.TrimPrefix(lpLeanFn(callee), "gen")
		ty := strings.Join(append(append([]string{recvTy}, atys...), "Outcome "+recvTy), " → ")
		found := false
		for _, e := range t.exts {
			if e.name == name {
				found = true
			}
		}
		if !found {
			t.exts = append(t.exts, lpExtern{name: name, ty: ty, key: lpFuncKey(callee), why: why})
		}
		t.g.ext.assume("externErrNoMutation", "an untranslated callee passed as a parameter (optsExternals) is a function of its receiver and arguments that returns the new receiver or an error; where its error is ignored by the caller (form B) it is assumed to leave the receiver unchanged on that path")
		return name + " " + strings.Join(args, " "), recv, path, recvTy, false
	}
	if len(cf.exts) > 0 {
		t.refuse(c, "calls %s, which itself takes external callees", callee.Name())
	}
	if recv == nil {
		if len(cf.mutated) > 0 {
			t.refuse(c, "calls %s, which writes an argument", callee.Name())
		}
		return cf.lean + " " + strings.Join(args, " "), nil, nil, "", true
	}
	if len(cf.mutated) > 1 || (len(cf.mutated) == 1 && cf.mutated[0] != sig.Recv()) {
		t.refuse(c, "calls %s, which writes an argument besides its receiver", callee.Name())
	}
	if len(cf.mutated) == 0 {
		// the receiver is only read: the callee returns Unit; keep the receiver
		return fmt.Sprintf("(do let _ ← %s %s; pure %s)", cf.lean, strings.Join(args, " "), args[0]), recv, path, recvTy, true
	}
	return cf.lean + " " + strings.Join(args, " "), recv, path, recvTy, !cf.errMut
}

func (t *lpTr) usesVar(v *types.Var, nodes ...ast.Node) bool {
	found := false
	for _, n := range nodes {
		if n == nil {
			continue
		}
		ast.Inspect(n, func(x ast.Node) bool {
			if id, ok := x.(*ast.Ident); ok && t.info.Uses[id] == v {
				found = true
			}
			return true
		})
	}
	return found
}

// every use of the error variable inside body is an argument of a dropped log statement
func (t *lpTr) errOnlyLogged(v *types.Var, body []ast.Stmt) bool {
	ok := true
	for _, s := range body {
		if es, isE := s.(*ast.ExprStmt); isE {
			if c, isC := paren(es.X).(*ast.CallExpr); isC && t.isLogCall(c) {
				continue
			}
		}
		if t.usesVar(v, s) {
			ok = false
		}
	}
	return ok
}

func (t *lpTr) extIf(x *ast.IfStmt, rest []ast.Stmt, ind int, j *lpJump, k lpKont) ([]string, bool) {
	if ls, ok := t.commaOkIf(x, rest, ind, j, k); ok {
		return ls, true
	}
	ec := t.errCallIf(x)
	if ec == nil {
		return nil, false
	}
	restK := func(ind int) []string { return t.block(rest, ind, j, k) }
	var lines []string
	// form A: the body is exactly `return …, err`
	if len(x.Body.List) == 1 && x.Else == nil {
		if r, ok := x.Body.List[0].(*ast.ReturnStmt); ok && len(r.Results) >= 1 && t.varOf(r.Results[len(r.Results)-1]) == ec.errVar {
			if !t.fn.errRes {
				t.refuse(x, "return of an error in a function without an error result")
			}
			for _, v := range r.Results[:len(r.Results)-1] {
				if !t.isNil(v) && !t.isZeroLit(v) {
					t.refuse(x, "form A returns a non-zero value together with the error")
				}
			}
			var b lpBinds
			term, recv, path, recvTy, _ := t.errCallTerm(ec.call, &b)
			lines = lpPut(lines, ind, &b)
			if recv == nil {
				lines = append(lines, lpInd(ind)+"let _ ← "+term)
			} else {
				n := t.tmp()
				lines = append(lines, lpInd(ind)+fmt.Sprintf("let %s ← %s", n, term))
				var sb lpBinds
				_ = recvTy
				t.storePath(recv, path, n, &sb, x)
				lines = lpPut(lines, ind, &sb)
			}
			return append(lines, restK(ind)...), true
		}
	}
	// form B: the error is ignored (logged)
	if !t.errOnlyLogged(ec.errVar, x.Body.List) || t.usesVar(ec.errVar, x.Else) {
		t.refuse(x, "the error of %s is used by something else than a log statement", nodeText(ec.call.Fun))
	}
	var b lpBinds
	term, recv, path, recvTy, errClean := t.errCallTerm(ec.call, &b)
	lines = lpPut(lines, ind, &b)
	okN := t.tmp()
	if recv == nil {
		lines = append(lines, lpInd(ind)+fmt.Sprintf("let (_, %s) ← catchErr (%s) ()", okN, term))
	} else {
		if !errClean {
			// the callee may have written its receiver before failing: the receiver must be dead on the error path
			if len(path) != 0 || !lpInside(recv, t.fd.Body) || t.usesVar(recv, x.Body) || t.usesVarIn(recv, rest) {
				if _, isExt := t.externNamed(term); !isExt {
					t.refuse(x, "%s can fail after writing its receiver %s, which is still used on the error path", nodeText(ec.call.Fun), nodeText(ec.call.Fun.(*ast.SelectorExpr).X))
				}
			}
		}
		cur := strings.Join(append([]string{lpName(recv.Name())}, path...), ".")
		n := t.tmp()
		lines = append(lines, lpInd(ind)+fmt.Sprintf("let (%s, %s) ← catchErr (%s) %s", n, okN, term, cur))
		var sb lpBinds
		_ = recvTy
		t.storePath(recv, path, n, &sb, x)
		lines = lpPut(lines, ind, &sb)
	}
	// if ok then ELSE-branch else THEN-branch — as a synthetic jump-aware conditional
	lines = append(lines, lpInd(ind)+"if ("+okN+" = true) then do")
	lines = append(lines, t.block(lpElse(x), ind+2, j, restK)...)
	lines = append(lines, lpInd(ind)+"else do")
	lines = append(lines, t.block(x.Body.List, ind+2, j, restK)...)
	return lines, true
}

func (t *lpTr) usesVarIn(v *types.Var, stmts []ast.Stmt) bool {
	for _, s := range stmts {
		if t.usesVar(v, s) {
			return true
		}
	}
	return false
}

func (t *lpTr) externNamed(term string) (lpExtern, bool) {
	for _, e := range t.exts {
		if strings.HasPrefix(term, e.name+" ") {
			return e, true
		}
	}
	return lpExtern{}, false
}

// `if v, ok := m[k]; ok { … }` on an option map
func (t *lpTr) commaOkIf(x *ast.IfStmt, rest []ast.Stmt, ind int, j *lpJump, k lpKont) ([]string, bool) {
	a, ok := x.Init.(*ast.AssignStmt)
	if !ok || a.Tok != token.DEFINE || len(a.Lhs) != 2 || len(a.Rhs) != 1 {
		return nil, false
	}
	ix, ok := paren(a.Rhs[0]).(*ast.IndexExpr)
	if !ok {
		return nil, false
	}
	m := t.mapVar(ix.X)
	if m == nil {
		return nil, false
	}
	vid, ok1 := a.Lhs[0].(*ast.Ident)
	oid, ok2 := a.Lhs[1].(*ast.Ident)
	if !ok1 || !ok2 {
		return nil, false
	}
	okv, _ := t.info.Defs[oid].(*types.Var)
	if okv == nil || t.varOf(x.Cond) != okv || x.Else != nil {
		t.refuse(x, "comma-ok form other than `if v, ok := m[k]; ok {…}`")
	}
	if t.usesVar(okv, x.Body) {
		t.refuse(x, "the ok variable is used in the body")
	}
	var b lpBinds
	key := t.expr(ix.Index, &b)
	lines := lpPut(nil, ind, &b)
	vn := "_"
	if vv, _ := t.info.Defs[vid].(*types.Var); vv != nil && vid.Name != "_" {
		vn = lpName(vv.Name())
	}
	restK := func(ind int) []string { return t.block(rest, ind, j, k) }
	if hasJump(x.Body) {
		lines = append(lines, lpInd(ind)+fmt.Sprintf("match mapGet %s %s with", lpName(m.Name()), key))
		lines = append(lines, lpInd(ind)+fmt.Sprintf("| some %s => do", vn))
		lines = append(lines, t.block(x.Body.List, ind+4, j, restK)...)
		lines = append(lines, lpInd(ind)+"| none => do")
		lines = append(lines, restK(ind+4)...)
		return lines, true
	}
	as := t.assigned(x.Body)
	var outs []*types.Var
	for _, v := range lpSorted(as) {
		if !lpInside(v, x) {
			outs = append(outs, v)
		}
	}
	pat := lpTuple(lpNames(outs))
	if len(outs) == 0 {
		pat = "_"
	}
	final := func(ind int) []string { return []string{lpInd(ind) + "pure " + lpTuple(lpNames(outs))} }
	lines = append(lines, lpInd(ind)+"let "+pat+" ← (do")
	lines = append(lines, lpInd(ind+4)+fmt.Sprintf("match mapGet %s %s with", lpName(m.Name()), key))
	lines = append(lines, lpInd(ind+4)+fmt.Sprintf("| some %s => do", vn))
	lines = append(lines, t.block(x.Body.List, ind+8, j, final)...)
	lines = append(lines, lpInd(ind+4)+"| none => do")
	lines = append(lines, final(ind+8)...)
	lines[len(lines)-1] += ")"
	return append(lines, restK(ind)...), true
}

// ---- switch ----

func (t *lpTr) extStmt(s ast.Stmt, rest []ast.Stmt, ind int, j *lpJump, k lpKont) ([]string, bool) {
	if ls, ok := t.marshalStmt(s, rest, ind, j, k); ok { // loops_marshal.go: `x, err := f(…); if err != nil { return …, err }`, PutUint16/32
		return ls, true
	}
	sw, ok := s.(*ast.SwitchStmt)
	if !ok {
		var b lpBinds
		if t.extVarDecl(s, &b) {
			lines := lpPut(nil, ind, &b)
			return append(lines, t.block(rest, ind, j, k)...), true
		}
		return nil, false
	}
	if sw.Init != nil {
		t.refuse(s, "switch with an init statement")
	}
	if sw.Tag != nil {
		if v := t.varOf(sw.Tag); v == nil || !t.isLocal(v) {
			t.refuse(s, "switch tag %s is not a local variable", nodeText(sw.Tag))
		}
	}
	// no break / fallthrough directly inside the switch
	for _, cs := range sw.Body.List {
		cc := cs.(*ast.CaseClause)
		for _, st := range cc.Body {
			bad := false
			var walk func(n ast.Node)
			walk = func(n ast.Node) {
				ast.Inspect(n, func(y ast.Node) bool {
					switch z := y.(type) {
					case *ast.ForStmt, *ast.RangeStmt, *ast.SwitchStmt, *ast.SelectStmt, *ast.FuncLit:
						if y != n {
							return false
						}
					case *ast.BranchStmt:
						if z.Tok == token.BREAK || z.Tok == token.FALLTHROUGH || z.Tok == token.GOTO {
							bad = true
						}
					}
					return true
				})
			}
			walk(st)
			if bad {
				t.refuse(st, "break / fallthrough inside a switch")
			}
		}
	}
	var def *ast.CaseClause
	var clauses []*ast.CaseClause
	for _, cs := range sw.Body.List {
		cc := cs.(*ast.CaseClause)
		if cc.List == nil {
			def = cc
		} else {
			clauses = append(clauses, cc)
		}
	}
	blockOf := func(cc *ast.CaseClause) *ast.BlockStmt {
		return &ast.BlockStmt{Lbrace: cc.Colon, List: cc.Body, Rbrace: cc.End()}
	}
	var chain ast.Stmt
	if def != nil {
		chain = blockOf(def)
	}
	for i := len(clauses) - 1; i >= 0; i-- {
		cc := clauses[i]
		var cond ast.Expr
		for _, e := range cc.List {
			var c ast.Expr = e
			if sw.Tag != nil {
				c = &ast.BinaryExpr{X: sw.Tag, OpPos: e.Pos(), Op: token.EQL, Y: e}
			}
			if cond == nil {
				cond = c
			} else {
				cond = &ast.BinaryExpr{X: cond, OpPos: e.Pos(), Op: token.LOR, Y: c}
			}
		}
		is := &ast.IfStmt{If: cc.Pos(), Cond: cond, Body: blockOf(cc)}
		if chain != nil {
			is.Else = chain
		}
		chain = is
	}
	if chain == nil {
		return t.block(rest, ind, j, k), true
	}
	return t.block(append([]ast.Stmt{chain}, rest...), ind, j, k), true
}
