package main

// F14 (continued): struct values, pointer receivers, `switch` and the `if err := f(); err != nil` forms for the NDP
// option parsers (see loops_opts.go for the overview).

import (
	"go/ast"
	"go/types"
)

func (t *lpTr) extStructTy(ty types.Type) string { return "" }

func (t *lpTr) extStructBytes(e ast.Expr, b *lpBinds) (string, bool) { return "", false }

func (t *lpTr) extStructExpr(e ast.Expr, b *lpBinds) (string, bool) { return "", false }

func (t *lpTr) extStructAssign(x *ast.AssignStmt, b *lpBinds) bool { return false }

func (t *lpTr) extStructCallStmt(c *ast.CallExpr, b *lpBinds) bool { return false }

func (t *lpTr) extStructAssignedCall(c *ast.CallExpr, res map[*types.Var]bool) {}

func (t *lpTr) extStructParamMutated(body ast.Node, v *types.Var, as map[*types.Var]bool) bool {
	return false
}

func (t *lpTr) extReturnErrVar(x *ast.ReturnStmt, e ast.Expr, vals []ast.Expr, ind int, j *lpJump, b *lpBinds) ([]string, bool) {
	return nil, false
}

func (t *lpTr) extIf(x *ast.IfStmt, rest []ast.Stmt, ind int, j *lpJump, k lpKont) ([]string, bool) {
	return nil, false
}

func (t *lpTr) extStmt(s ast.Stmt, rest []ast.Stmt, ind int, j *lpJump, k lpKont) ([]string, bool) {
	return nil, false
}
