package main

// loops_naming.go (builder M, session 6): the handler-level glue of handlers/dns_naming/dns.go and dnstable.go
// (`ProcessDNS`, `DNSFind`) as Lean source → Gen/LoopsNaming.lean, ON TOP OF Gen/LoopsDns.lean: calls of
// packet functions are calls of their regenerated bodies (genDNS_IsValid, genDecodeQuestion, genNewDNSEntry,
// genDNSEntry_DecodeAnswers), not parameters.  The handler is the state of `OutcomeS GDNSHandler` (its table survives an
// error return).  A narrow statement language; anything else REFUSES the function (listed with the first offending
// construct), nothing is approximated:
//
//	receiver            `h *DNSHandler`: generated structure GDNSHandler with the fields of map type over translated
//	                    structs (DNSTable); the other fields (session, mutex, sockets, mdnsCache) are not represented and
//	                    any use of them other than Lock/Unlock of h.mutex refuses
//	frame packet.Frame  may only be used as `frame.Payload()` → the parameter `frame_Payload : Bytes`
//	conversions         packet.DNS(x), string(x), []byte(x): the value
//	x := e / x = e / var x T / x.F = e (local struct) / make([]byte, 0, n) (→ []) / make(map…) (→ mapMake) / T{} (→ {})
//	if err := f(…); err != nil { return Z, err }  |  a, b, err = f(…) ; if err != nil { return Z, err }   → one bind
//	                    (the values returned next to the error are dropped: errValuesDropped)
//	e, found := h.M[k]  → `mapHas`, `mapGetD` (the zero struct when absent); e is then SHARED with the slot (below)
//	if _, b, err = e.Meth(…); err != nil { return Z, err }   with Meth a pointer-receiver method translated in OutcomeS
//	                    → `onLocal`: the method runs on the local e; its final state — also on error — is written back
//	                    into the slot e was read from when it was found there, map field by map field, for the map
//	                    fields that are non-nil in the slot (Go: the struct copy shares its maps with the table's copy;
//	                    assumption sharedMapFields: the method never re-assigns a non-nil map field)
//	if c { … } (no else; c: b, !b on local bools)   |   if Debug { log }  (dropped)
//	h.M[k] = v          → mapSet + putRecv
//	h.mutex.Lock / RLock / defer Unlock             → dropped (namingIgnored)
//	e.Copy()            → e (a deep copy of a value is the value: copyIsValue)
//	return v, nil | return v | return Z, err (only in the patterns above)
//	if e, found := h.M[k]; found { return … }       → if on mapHas

import (
	"fmt"
	"go/ast"
	"go/token"
	"go/types"
	"path/filepath"
	"sort"
	"strings"

	"golang.org/x/tools/go/packages"
)

type hgRefusal struct{ msg string }

type hgAlias struct{ field, key string } // local struct read from h.<field>[<key>]; `found` lean name
type hgTr struct {
	g        *dnGen
	base     int // len(g.order) after the candidates of loops_dns.go: callees must be among them
	p        *packages.Package
	info     *types.Info
	recv     *types.Var
	frame    *types.Var
	oracles  map[string]bool
	ignored  *[]string
	assume   map[string]bool
	alias    map[*types.Var]*hgAlias
	aliasFnd map[*types.Var]string
	notFound map[string]int // lean names of `found` flags negated by an enclosing if condition
	fname    string
	hasErr   bool
	nres     int
}

func (t *hgTr) refuse(n ast.Node, f string, a ...any) {
	pos := t.p.Fset.Position(n.Pos())
	panic(hgRefusal{fmt.Sprintf("%s:%d: %s", filepath.Base(pos.Filename), pos.Line, fmt.Sprintf(f, a...))})
}

func (t *hgTr) leanTy(ty types.Type) string {
	switch u := ty.Underlying().(type) {
	case *types.Basic:
		switch {
		case u.Kind() == types.String:
			return "Bytes"
		case u.Kind() == types.Bool:
			return "Bool"
		case u.Kind() == types.Int:
			return "Int"
		}
	case *types.Slice:
		if b, ok := u.Elem().Underlying().(*types.Basic); ok && b.Kind() == types.Uint8 {
			return "Bytes"
		}
	case *types.Struct:
		if n, ok := ty.(*types.Named); ok {
			if s, ok := t.g.structs[n]; ok {
				return s
			}
		}
	}
	return ""
}

func (t *hgTr) local(e ast.Expr) *types.Var {
	id, ok := paren(e).(*ast.Ident)
	if !ok {
		return nil
	}
	v, _ := t.info.Uses[id].(*types.Var)
	if v == nil {
		v, _ = t.info.Defs[id].(*types.Var)
	}
	if v == nil || v == t.recv || v == t.frame || v.Pkg() != t.p.Types || v.Parent() == t.p.Types.Scope() {
		return nil
	}
	return v
}

// h.F with F a map field
func (t *hgTr) recvField(e ast.Expr) (string, bool) {
	s, ok := paren(e).(*ast.SelectorExpr)
	if !ok {
		return "", false
	}
	id, ok := paren(s.X).(*ast.Ident)
	if !ok || t.info.Uses[id] != types.Object(t.recv) {
		return "", false
	}
	if s.Sel.Name != "DNSTable" {
		t.refuse(e, "receiver field %s is not represented", s.Sel.Name)
	}
	return lpName(t.recv.Name()) + "." + s.Sel.Name, true
}

func (t *hgTr) expr(e ast.Expr) string {
	switch x := paren(e).(type) {
	case *ast.Ident:
		if x.Name == "true" || x.Name == "false" {
			return x.Name
		}
		if v := t.local(x); v != nil {
			return lpName(v.Name())
		}
	case *ast.BasicLit:
		if x.Kind == token.INT {
			return "(" + x.Value + " : Int)"
		}
	case *ast.SelectorExpr:
		if v := t.local(x.X); v != nil && strings.HasPrefix(t.leanTy(v.Type()), "G") {
			return lpName(v.Name()) + "." + lpName(x.Sel.Name)
		}
	case *ast.CompositeLit:
		if len(x.Elts) == 0 {
			if lt := t.leanTy(t.info.TypeOf(x)); strings.HasPrefix(lt, "G") {
				return "({} : " + lt + ")"
			}
		}
	case *ast.CallExpr:
		if tv, ok := t.info.Types[x.Fun]; ok && tv.IsType() && len(x.Args) == 1 { // conversion
			if t.leanTy(tv.Type) == "Bytes" {
				return t.expr(x.Args[0])
			}
		}
		if id, ok := x.Fun.(*ast.Ident); ok && id.Name == "make" {
			switch u := t.info.TypeOf(x).Underlying().(type) {
			case *types.Map:
				return "mapMake"
			case *types.Slice:
				if b, ok := u.Elem().Underlying().(*types.Basic); ok && b.Kind() == types.Uint8 && len(x.Args) == 3 {
					if l, ok := x.Args[1].(*ast.BasicLit); ok && l.Value == "0" {
						t.assume["appendValue"] = true
						return "([] : Bytes)"
					}
				}
			}
		}
		if s, ok := x.Fun.(*ast.SelectorExpr); ok {
			if id, ok := paren(s.X).(*ast.Ident); ok && t.frame != nil && t.info.Uses[id] == types.Object(t.frame) && s.Sel.Name == "Payload" && len(x.Args) == 0 {
				return lpName(t.frame.Name()) + "_Payload"
			}
			if v := t.local(s.X); v != nil && s.Sel.Name == "Copy" && len(x.Args) == 0 && strings.HasPrefix(t.leanTy(v.Type()), "G") {
				t.assume["copyIsValue"] = true
				return lpName(v.Name())
			}
		}
	}
	t.refuse(e, "expression %s", nodeText(e))
	return ""
}

// a call of a function of Gen/LoopsDns.lean: (lean call text, callee)
func (t *hgTr) call(c *ast.CallExpr) (string, *dnFunc, *types.Var) {
	var f *types.Func
	var recvE ast.Expr
	switch fn := c.Fun.(type) {
	case *ast.Ident:
		f, _ = t.info.Uses[fn].(*types.Func)
	case *ast.SelectorExpr:
		f, _ = t.info.Uses[fn.Sel].(*types.Func)
		if sel, ok := t.info.Selections[fn]; ok && sel.Kind() == types.MethodVal {
			recvE = fn.X
		}
	}
	if f == nil {
		t.refuse(c, "call %s", nodeText(c))
	}
	cf, why := t.g.translate(f)
	if cf == nil {
		t.refuse(c, "calls %s, which is not translated: %s", f.Name(), why)
	}
	if len(t.g.order) != t.base {
		t.refuse(c, "calls %s, which is not among the functions of Gen/LoopsDns.lean", f.Name())
	}
	var args []string
	var onVar *types.Var
	for _, o := range cf.oracles {
		t.oracles[o] = true
		args = append(args, o)
	}
	actuals := []ast.Expr{}
	if recvE != nil {
		actuals = append(actuals, recvE)
	}
	actuals = append(actuals, c.Args...)
	if len(actuals) != len(cf.params) {
		t.refuse(c, "argument count of %s", f.Name())
	}
	for i, a := range actuals {
		if cf.inout[i] {
			if i != 0 || cf.stTy == "" {
				t.refuse(c, "in/out argument %s", nodeText(a))
			}
			onVar = t.local(a)
			if onVar == nil {
				t.refuse(c, "pointer-receiver call on %s", nodeText(a))
			}
		}
		args = append(args, t.expr(a))
	}
	return strings.TrimSpace(cf.lean + " " + strings.Join(args, " ")), cf, onVar
}

func (t *hgTr) isErrRet(s ast.Stmt, errName string) bool {
	ifs, ok := s.(*ast.IfStmt)
	if !ok || ifs.Else != nil || len(ifs.Body.List) != 1 {
		return false
	}
	return t.isErrCond(ifs.Cond, errName) && t.isErrReturn(ifs.Body.List[0], errName)
}
func (t *hgTr) isErrCond(c ast.Expr, errName string) bool {
	b, ok := paren(c).(*ast.BinaryExpr)
	if !ok || b.Op != token.NEQ {
		return false
	}
	x, ok1 := paren(b.X).(*ast.Ident)
	y, ok2 := paren(b.Y).(*ast.Ident)
	return ok1 && ok2 && x.Name == errName && y.Name == "nil"
}
func (t *hgTr) isErrReturn(s ast.Stmt, errName string) bool {
	r, ok := s.(*ast.ReturnStmt)
	if !ok || len(r.Results) != t.nres+1 {
		return false
	}
	last, ok := paren(r.Results[len(r.Results)-1]).(*ast.Ident)
	if !ok || last.Name != errName {
		return false
	}
	for _, v := range r.Results[:len(r.Results)-1] {
		if cl, ok := paren(v).(*ast.CompositeLit); !ok || len(cl.Elts) != 0 {
			return false
		}
	}
	t.assume["errValuesDropped"] = true
	return true
}

// the bind for `lhs… , err (:)= call`: pattern over the non-error results
func (t *hgTr) bindCall(as *ast.AssignStmt, ind string) []string {
	c, ok := as.Rhs[0].(*ast.CallExpr)
	if !ok || len(as.Rhs) != 1 {
		t.refuse(as, "assignment %s", nodeText(as))
	}
	call, cf, onVar := t.call(c)
	if !cf.hasErr {
		t.refuse(as, "call of %s (no error result) in an error pattern", cf.lean)
	}
	if len(as.Lhs) != len(cf.resTys)+1 {
		t.refuse(as, "result count of %s", cf.lean)
	}
	var pats []string
	for _, l := range as.Lhs[:len(as.Lhs)-1] {
		if id, ok := l.(*ast.Ident); ok && id.Name == "_" {
			pats = append(pats, "_")
			continue
		}
		v := t.local(l)
		if v == nil {
			t.refuse(as, "result variable %s", nodeText(l))
		}
		pats = append(pats, lpName(v.Name()))
	}
	if cf.stTy == "" {
		pat := "_"
		if len(pats) > 0 {
			pat = lpTuple(pats)
		}
		return []string{ind + "let " + pat + " ← " + call}
	}
	// pointer-receiver method on a local: results are (receiver, results…)
	e := lpName(onVar.Name())
	wb := "(fun _ s => s)"
	if a := t.alias[onVar]; a != nil {
		t.assume["sharedMapFields"] = true
		h := lpName(t.recv.Name())
		wb = fmt.Sprintf("(fun e' (s : GDNSHandler) => if %s = true then { s with %s := mapAdjust s.%s %s (fun slot => %s.shareMaps slot e') } else s)",
			t.aliasFnd[onVar], a.field, a.field, a.key, cf.stTy)
		_ = h
	}
	lines := []string{ind + "let " + lpTuple(append([]string{e, "_"}, pats...)) + " ← onLocal " + e + " " + wb + " (" + call + ")"}
	lines = append(lines, ind+"let "+lpName(t.recv.Name())+" ← getRecv")
	return lines
}

func (t *hgTr) isLock(s ast.Stmt) bool {
	var c *ast.CallExpr
	switch x := s.(type) {
	case *ast.ExprStmt:
		c, _ = x.X.(*ast.CallExpr)
	case *ast.DeferStmt:
		c = x.Call
	}
	if c == nil {
		return false
	}
	sel, ok := c.Fun.(*ast.SelectorExpr)
	if !ok {
		return false
	}
	switch sel.Sel.Name {
	case "Lock", "Unlock", "RLock", "RUnlock":
	default:
		return false
	}
	in, ok := sel.X.(*ast.SelectorExpr)
	if !ok || in.Sel.Name != "mutex" {
		return false
	}
	id, ok := in.X.(*ast.Ident)
	if !ok || t.info.Uses[id] != types.Object(t.recv) {
		return false
	}
	*t.ignored = append(*t.ignored, fmt.Sprintf("%q", t.fname+": lock: "+nodeText(s)))
	return true
}

func (t *hgTr) isDebugIf(x *ast.IfStmt) bool {
	id, ok := paren(x.Cond).(*ast.Ident)
	if !ok || id.Name != "Debug" || x.Else != nil || x.Init != nil {
		return false
	}
	for _, s := range x.Body.List {
		es, ok := s.(*ast.ExprStmt)
		if !ok || !strings.HasPrefix(nodeText(es.X), "Logger.") && !strings.HasPrefix(nodeText(es.X), "fmt.Print") {
			return false
		}
	}
	*t.ignored = append(*t.ignored, fmt.Sprintf("%q", t.fname+": log: "+strings.Join(strings.Fields(nodeText(x)), " ")))
	return true
}

func (t *hgTr) ret(r *ast.ReturnStmt, ind string) []string {
	n := len(r.Results)
	if t.hasErr {
		last, ok := paren(r.Results[n-1]).(*ast.Ident)
		if !ok || last.Name != "nil" {
			t.refuse(r, "return of an error outside the `if err != nil` pattern")
		}
		n--
	}
	var vs []string
	for _, v := range r.Results[:n] {
		vs = append(vs, t.expr(v))
	}
	if len(vs) == 0 {
		return []string{ind + "pure ()"}
	}
	return []string{ind + "pure " + lpTuple(vs)}
}

// block: statements; a block either returns on every path (terminal) or falls through (k == "" for function level)
func (t *hgTr) block(stmts []ast.Stmt, ind string, top bool) []string {
	var out []string
	for i := 0; i < len(stmts); i++ {
		s := stmts[i]
		if t.isLock(s) {
			continue
		}
		switch x := s.(type) {
		case *ast.DeclStmt:
			gd, ok := x.Decl.(*ast.GenDecl)
			if !ok || gd.Tok != token.VAR {
				t.refuse(s, "declaration")
			}
			for _, sp := range gd.Specs {
				vs := sp.(*ast.ValueSpec)
				if len(vs.Values) != 0 {
					t.refuse(s, "var with a value")
				}
				for _, nm := range vs.Names {
					v := t.info.Defs[nm].(*types.Var)
					lt := t.leanTy(v.Type())
					if lt == "" {
						t.refuse(s, "variable %s of type %s", v.Name(), v.Type())
					}
					out = append(out, fmt.Sprintf("%slet %s : %s := %s", ind, lpName(v.Name()), lt, dnZero(lt)))
				}
			}
		case *ast.AssignStmt:
			// a, b, err = call ; if err != nil { return Z, err }
			if len(x.Lhs) >= 1 {
				if last, ok := x.Lhs[len(x.Lhs)-1].(*ast.Ident); ok && dnIsError(t.info.TypeOf(last)) {
					if i+1 >= len(stmts) || !t.isErrRet(stmts[i+1], last.Name) {
						t.refuse(s, "call returning an error that is not followed by `if err != nil { return zero…, err }`")
					}
					out = append(out, t.bindCall(x, ind)...)
					i++
					continue
				}
			}
			// e, found := h.M[k]
			if len(x.Lhs) == 2 && len(x.Rhs) == 1 {
				if ix, ok := x.Rhs[0].(*ast.IndexExpr); ok {
					out = append(out, t.lookup(x.Lhs[0], x.Lhs[1], ix, ind)...)
					continue
				}
			}
			if len(x.Lhs) != 1 || len(x.Rhs) != 1 {
				t.refuse(s, "assignment %s", nodeText(s))
			}
			// h.M[k] = v
			if ix, ok := x.Lhs[0].(*ast.IndexExpr); ok && x.Tok == token.ASSIGN {
				if f, ok := t.recvField(ix.X); ok {
					h := lpName(t.recv.Name())
					fld := strings.TrimPrefix(f, h+".")
					out = append(out, fmt.Sprintf("%slet t_ ← mapSet %s %s %s", ind, f, t.expr(ix.Index), t.expr(x.Rhs[0])))
					out = append(out, fmt.Sprintf("%slet %s : GDNSHandler := { %s with %s := t_ }", ind, h, h, fld))
					out = append(out, ind+"putRecv "+h)
					continue
				}
				t.refuse(s, "store %s", nodeText(s))
			}
			// x.F = e
			if sel, ok := x.Lhs[0].(*ast.SelectorExpr); ok && x.Tok == token.ASSIGN {
				if v := t.local(sel.X); v != nil && strings.HasPrefix(t.leanTy(v.Type()), "G") {
					n := lpName(v.Name())
					out = append(out, fmt.Sprintf("%slet %s : %s := { %s with %s := %s }", ind, n, t.leanTy(v.Type()), n, lpName(sel.Sel.Name), t.expr(x.Rhs[0])))
					if t.alias[v] != nil && t.notFound[t.aliasFnd[v]] == 0 {
						t.refuse(s, "field store into a struct shared with a table slot")
					}
					continue
				}
				t.refuse(s, "store %s", nodeText(s))
			}
			v := t.local(x.Lhs[0])
			if v == nil {
				t.refuse(s, "assignment %s", nodeText(s))
			}
			lt := t.leanTy(v.Type())
			if lt == "" {
				t.refuse(s, "variable %s of type %s", v.Name(), v.Type())
			}
			if c, ok := x.Rhs[0].(*ast.CallExpr); ok {
				if _, isF := t.calleeFunc(c); isF {
					call, cf, onVar := t.call(c)
					if cf.hasErr || cf.stTy != "" || onVar != nil || len(cf.resTys) != 1 {
						t.refuse(s, "call %s", nodeText(c))
					}
					out = append(out, fmt.Sprintf("%slet %s ← %s", ind, lpName(v.Name()), call))
					t.unshare(v)
					continue
				}
			}
			out = append(out, fmt.Sprintf("%slet %s : %s := %s", ind, lpName(v.Name()), lt, t.expr(x.Rhs[0])))
			t.unshare(v)
		case *ast.IfStmt:
			if t.isDebugIf(x) {
				continue
			}
			if x.Else != nil {
				t.refuse(s, "if with else")
			}
			rest := stmts[i+1:]
			if x.Init != nil {
				as, ok := x.Init.(*ast.AssignStmt)
				if !ok {
					t.refuse(s, "if with init")
				}
				// if err := f(); err != nil { return Z, err }   |   if _, b, err = e.M(); err != nil { return Z, err }
				if last, ok := as.Lhs[len(as.Lhs)-1].(*ast.Ident); ok && dnIsError(t.info.TypeOf(last)) {
					if !t.isErrCond(x.Cond, last.Name) || len(x.Body.List) != 1 || !t.isErrReturn(x.Body.List[0], last.Name) {
						t.refuse(s, "if with a call that returns an error, other than `…; err != nil { return zero…, err }`")
					}
					out = append(out, t.bindCall(as, ind)...)
					continue
				}
				// if e, found := h.M[k]; found { … }
				if len(as.Lhs) == 2 && len(as.Rhs) == 1 {
					if ix, ok := as.Rhs[0].(*ast.IndexExpr); ok {
						out = append(out, t.lookup(as.Lhs[0], as.Lhs[1], ix, ind)...)
					} else {
						t.refuse(s, "if with init")
					}
				} else {
					t.refuse(s, "if with init")
				}
			}
			c := t.cond(x.Cond)
			nf := ""
			if u, ok := paren(x.Cond).(*ast.UnaryExpr); ok && u.Op == token.NOT {
				if fv := t.local(u.X); fv != nil {
					nf = lpName(fv.Name())
					t.notFound[nf]++
				}
			}
			body := t.block(x.Body.List, ind+"  ", false)
			if nf != "" {
				t.notFound[nf]--
			}
			if t.terminates(x.Body.List) {
				// if c { …; return } rest  →  if c then … else rest
				out = append(out, ind+"if "+c+" then do")
				out = append(out, body...)
				out = append(out, ind+"else do")
				out = append(out, t.block(rest, ind+"  ", top)...)
				return out
			}
			// falls through: the locals it assigns are re-bound
			as := t.assignedLocals(x.Body.List)
			pat := lpTuple(as)
			if len(as) == 0 {
				t.refuse(s, "if block without effect on locals")
			}
			out = append(out, ind+"let "+pat+" ← (do")
			out = append(out, ind+"    if "+c+" then do")
			for _, l := range body {
				out = append(out, "    "+l)
			}
			out = append(out, ind+"      pure "+pat)
			out = append(out, ind+"    else do")
			out = append(out, ind+"      pure "+pat+")")
		case *ast.ReturnStmt:
			out = append(out, t.ret(x, ind)...)
			if i != len(stmts)-1 {
				t.refuse(s, "statements after return")
			}
			return out
		default:
			t.refuse(s, "statement %s", strings.Join(strings.Fields(nodeText(s)), " "))
		}
	}
	if top {
		t.refuse(stmts[len(stmts)-1], "function can fall off its end")
	}
	return out
}

// unshare: the local is re-assigned.  Under `if !found` (found being the flag of the lookup the local came from) the
// sharing stays, guarded by that flag (the write-back is `if found`); anywhere else the local is no longer shared.
func (t *hgTr) unshare(v *types.Var) {
	if a := t.alias[v]; a != nil && t.notFound[t.aliasFnd[v]] == 0 {
		delete(t.alias, v)
	}
}

func (t *hgTr) calleeFunc(c *ast.CallExpr) (*types.Func, bool) {
	switch fn := c.Fun.(type) {
	case *ast.Ident:
		f, ok := t.info.Uses[fn].(*types.Func)
		return f, ok
	case *ast.SelectorExpr:
		if fn.Sel.Name == "Copy" || fn.Sel.Name == "Payload" {
			return nil, false
		}
		f, ok := t.info.Uses[fn.Sel].(*types.Func)
		return f, ok
	}
	return nil, false
}

func (t *hgTr) terminates(stmts []ast.Stmt) bool {
	if len(stmts) == 0 {
		return false
	}
	_, ok := stmts[len(stmts)-1].(*ast.ReturnStmt)
	return ok
}

func (t *hgTr) assignedLocals(stmts []ast.Stmt) []string {
	set := map[string]bool{}
	for _, s := range stmts {
		ast.Inspect(s, func(n ast.Node) bool {
			if as, ok := n.(*ast.AssignStmt); ok {
				for _, l := range as.Lhs {
					var root ast.Expr = l
					if sel, ok := l.(*ast.SelectorExpr); ok {
						root = sel.X
					}
					if v := t.local(root); v != nil {
						set[lpName(v.Name())] = true
					}
				}
			}
			return true
		})
	}
	var r []string
	for k := range set {
		r = append(r, k)
	}
	sort.Strings(r)
	return r
}

func (t *hgTr) cond(e ast.Expr) string {
	switch x := paren(e).(type) {
	case *ast.Ident:
		if v := t.local(x); v != nil && t.leanTy(v.Type()) == "Bool" {
			return "(" + lpName(v.Name()) + " = true)"
		}
	case *ast.UnaryExpr:
		if x.Op == token.NOT {
			return "(¬ " + t.cond(x.X) + ")"
		}
	}
	t.refuse(e, "condition %s", nodeText(e))
	return ""
}

func (t *hgTr) lookup(lv, lf ast.Expr, ix *ast.IndexExpr, ind string) []string {
	f, ok := t.recvField(ix.X)
	if !ok {
		t.refuse(ix, "lookup %s", nodeText(ix))
	}
	ev, fv := t.local(lv), t.local(lf)
	if ev == nil || fv == nil {
		t.refuse(ix, "lookup results")
	}
	lt := t.leanTy(ev.Type())
	if !strings.HasPrefix(lt, "G") {
		t.refuse(ix, "lookup of a %s", ev.Type())
	}
	k := t.expr(ix.Index)
	kn := lpName(ev.Name()) + "_key"
	h := lpName(t.recv.Name())
	t.alias[ev] = &hgAlias{field: strings.TrimPrefix(f, h+"."), key: kn}
	t.aliasFnd[ev] = lpName(fv.Name())
	return []string{
		fmt.Sprintf("%slet %s : Bytes := %s", ind, kn, k),
		fmt.Sprintf("%slet %s : Bool := mapHas %s %s", ind, lpName(fv.Name()), f, kn),
		fmt.Sprintf("%slet %s : %s := mapGetD %s %s ({} : %s)", ind, lpName(ev.Name()), lt, f, kn, lt),
	}
}

var hgCandidates = []struct{ recv, name string }{{"DNSHandler", "ProcessDNS"}, {"DNSHandler", "DNSFind"}, {"DNSHandler", "DNSExist"}, {"DNSHandler", "DNSLookupPTR"}}

var hgAssumptionText = map[string]string{
	"appendValue":      "make([]byte, 0, n) is the empty byte string (capacity is not represented)",
	"copyIsValue":      "DNSEntry.Copy() (a deep copy: fresh maps with the same contents) is the value itself",
	"errValuesDropped": "the values returned next to a non-nil error are dropped (Outcome.err carries only the error class)",
	"sharedMapFields":  "a struct value read from a table slot shares its map fields with the slot: after a pointer-receiver method ran on the local copy (also when it returned an error) the slot's non-nil map fields are the local's (shareMaps); the method never re-assigns a non-nil map field (decodeRRs assigns a map field only under `== nil`)",
	"locksDropped":     "Lock / Unlock / RLock / RUnlock of h.mutex have no effect on the results (single-threaded semantics; C09 is about the locking)",
}

func loopNamingFacts(pkgs []*packages.Package, b *strings.Builder) {
	lp := &lpGen{pkgs: map[string]*packages.Package{}, done: map[*types.Func]*lpFunc{}, refused: map[*types.Func]string{}, busy: map[*types.Func]bool{}, tables: map[*types.Var]string{}}
	g := &dnGen{lp: lp, done: map[*types.Func]*dnFunc{}, refused: map[*types.Func]string{}, busy: map[*types.Func]bool{}, structs: map[*types.Named]string{},
		assume: map[string]bool{}, externs: map[string]bool{}}
	var root, hp *packages.Package
	for _, p := range pkgs {
		lp.pkgs[p.PkgPath] = p
		if p.PkgPath == "github.com/irai/packet" {
			root = p
		}
		if p.PkgPath == "github.com/irai/packet/handlers/dns_naming" {
			hp = p
		}
	}
	if root != nil {
		for _, c := range dnCandidates {
			if fd := findFunc(root, c.recv, c.name); fd != nil {
				g.translate(root.TypesInfo.Defs[fd.Name].(*types.Func))
			}
		}
	}
	base := len(g.order)
	b.WriteString("/- GENERATED by /verif/tools/goextract (loops_naming.go) from the Go sources in /repo — do not edit. -/\nimport PacketVerif.Gen.LoopsDns\nset_option linter.unusedVariables false\nnamespace PV.Gen.LoopsNaming\nopen PV PV.Model.LoopGo PV.Model.LoopGoDns PV.Gen.LoopsDns\n\n")
	b.WriteString("/-- Go: type DNSHandler struct (dns_naming): the table; session, mutex, sockets and mdnsCache are not represented -/\nstructure GDNSHandler where\n  DNSTable : (GMap Bytes GDNSEntry) := none\n  deriving DecidableEq, Repr\n\n")
	b.WriteString("/-- the struct copy `e` read from a table slot shares its maps with the slot: the slot after the local was mutated -/\ndef GDNSEntry.shareMaps (slot e' : GDNSEntry) : GDNSEntry :=\n  { slot with IP4Records := if slot.IP4Records = none then none else e'.IP4Records,\n              IP6Records := if slot.IP6Records = none then none else e'.IP6Records,\n              CNameRecords := if slot.CNameRecords = none then none else e'.CNameRecords,\n              PTRRecords := if slot.PTRRecords = none then none else e'.PTRRecords }\n\n")
	var translated, untranslated, ignored []string
	assume := map[string]bool{}
	for _, c := range hgCandidates {
		key := "dns_naming.(*" + c.recv + ")." + c.name
		if hp == nil {
			untranslated = append(untranslated, fmt.Sprintf("  (%q, %q)", key, "package not loaded"))
			continue
		}
		fd := findFunc(hp, c.recv, c.name)
		if fd == nil || fd.Body == nil {
			untranslated = append(untranslated, fmt.Sprintf("  (%q, %q)", key, "function not found"))
			continue
		}
		text, why := func() (text string, why string) {
			defer func() {
				if r := recover(); r != nil {
					switch ref := r.(type) {
					case hgRefusal:
						text, why = "", ref.msg
					case lpRefusal:
						text, why = "", ref.msg
					default:
						panic(r)
					}
				}
			}()
			var ign []string
			t := &hgTr{g: g, base: base, p: hp, info: hp.TypesInfo, oracles: map[string]bool{}, ignored: &ign, assume: map[string]bool{}, alias: map[*types.Var]*hgAlias{}, aliasFnd: map[*types.Var]string{}, notFound: map[string]int{}, fname: "gen" + c.recv + "_" + c.name}
			f := hp.TypesInfo.Defs[fd.Name].(*types.Func)
			sig := f.Type().(*types.Signature)
			t.recv = sig.Recv()
			var ps []string
			for i := 0; i < sig.Params().Len(); i++ {
				v := sig.Params().At(i)
				if n, ok := v.Type().(*types.Named); ok && n.Obj().Name() == "Frame" && n.Obj().Pkg().Path() == "github.com/irai/packet" {
					if t.frame != nil {
						t.refuse(fd, "two Frame parameters")
					}
					t.frame = v
					ps = append(ps, fmt.Sprintf("(%s_Payload : Bytes)", lpName(v.Name())))
					continue
				}
				lt := t.leanTy(v.Type())
				if lt == "" {
					t.refuse(fd, "parameter %s of type %s", v.Name(), v.Type())
				}
				ps = append(ps, fmt.Sprintf("(%s : %s)", lpName(v.Name()), lt))
			}
			var resTys []string
			for i := 0; i < sig.Results().Len(); i++ {
				r := sig.Results().At(i)
				if dnIsError(r.Type()) {
					if i != sig.Results().Len()-1 {
						t.refuse(fd, "an error result that is not the last result")
					}
					t.hasErr = true
					continue
				}
				lt := t.leanTy(r.Type())
				if lt == "" {
					t.refuse(fd, "result of type %s", r.Type())
				}
				resTys = append(resTys, lt)
			}
			t.nres = len(resTys)
			resTy := "Unit"
			if len(resTys) == 1 {
				resTy = resTys[0]
			} else if len(resTys) > 1 {
				resTy = "(" + strings.Join(resTys, " × ") + ")"
			}
			if t.frame != nil {
				ast.Inspect(fd.Body, func(n ast.Node) bool {
					if id, ok := n.(*ast.Ident); ok && t.info.Uses[id] == types.Object(t.frame) {
						// every use must be frame.Payload(): checked by expr (any other use has no rendering)
					}
					return true
				})
			}
			h := lpName(t.recv.Name())
			body := append([]string{"  putRecv " + h}, t.block(fd.Body.List, "  ", true)...)
			var os []string
			for o := range t.oracles {
				os = append(os, o)
			}
			sort.Strings(os)
			var osig []string
			for _, o := range os {
				osig = append(osig, fmt.Sprintf("(%s : %s)", o, dnOracleTy[o]))
			}
			pos := hp.Fset.Position(fd.Pos())
			text = fmt.Sprintf("/-- Go: func %s (%s:%d) -/\ndef %s %s : OutcomeS GDNSHandler %s := do\n%s\n", key, filepath.Base(pos.Filename), pos.Line,
				t.fname, strings.Join(append(append(osig, fmt.Sprintf("(%s : GDNSHandler)", h)), ps...), " "), resTy, strings.Join(body, "\n"))
			ignored = append(ignored, ign...)
			t.assume["locksDropped"] = true
			for a := range t.assume {
				assume[a] = true
			}
			return text, ""
		}()
		if why != "" {
			untranslated = append(untranslated, fmt.Sprintf("  (%q, %q)", key, why))
			continue
		}
		b.WriteString(text + "\n")
		translated = append(translated, fmt.Sprintf("  (%q, %q)", key, "gen"+c.recv+"_"+c.name))
	}
	b.WriteString("/-- translated handler functions: (Go name, generated Lean function) -/\ndef namingTranslated : List (String × String) := [\n" + strings.Join(translated, ",\n") + "]\n\n")
	b.WriteString("/-- candidates the translator REFUSED, with the first offending construct -/\ndef namingUntranslated : List (String × String) := [\n" + strings.Join(untranslated, ",\n") + "]\n\n")
	b.WriteString("/-- statements without a model counterpart (locks, debug logging) -/\ndef namingIgnored : List String := [\n  " + strings.Join(ignored, ",\n  ") + "]\n\n")
	var ids []string
	for id := range assume {
		ids = append(ids, id)
	}
	sort.Strings(ids)
	var rows []string
	for _, id := range ids {
		rows = append(rows, fmt.Sprintf("  (%q, %q)", id, hgAssumptionText[id]))
	}
	b.WriteString("/-- what the translation assumes about Go (design_notes/bM.md) -/\ndef namingAssumptions : List (String × String) := [\n" + strings.Join(rows, ",\n") + "]\n\nend PV.Gen.LoopsNaming\n")
}
