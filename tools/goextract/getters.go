package main

// F5: the BODIES of the view getters.  For every view type (same list as F2/F3) and every getter (same
// filter as F3) whose body is `return <expr>` (or `x, _ := netip.AddrFromSlice(p[a:b]); return x`) the
// expression is translated into a term of the getter language of Model/Views.lean (`NE`, `G`):
//
//	p[k]                                   .byte k            (p = the receiver, k constant)
//	constant expression (go/types value)   .const n           (literals, named constants, folded)
//	T(e) for an integer type T             e                  (only if e's range fits T, see below)
//	binary.BigEndian.Uint16(p[a:a+2])      .be16 a            (Uint32: .be32 a; any other width: untranslated)
//	& | + *   << c   >> c                  .and .or .add .mul .shl .shr   (shift count constant)
//	p.M()  (M a translated integer getter) the term of M, inlined
//	e != 0 / e == c                        .flag e / .eq e c
//	p[a:b]  p[:b]  p[a:]                   .span a b / .tail a   (also under net.HardwareAddr(..), net.IP(..))
//	netip.AddrFromN(*(*[N]byte)(p[a:a+N])), netip.AddrFromSlice(p[a:a+N]) (N = 4, 16)      .ip a N
//
// `NE` is evaluated over unbounded naturals; Go evaluates in fixed width.  The translator therefore
// carries an upper bound for every sub-term (byte ≤ 255, and → min, or → 2^bits-1, shl/shr/add/mul → the
// arithmetic bound) and refuses a term whose bound does not fit the Go type of that very expression
// (types.Info), e.g. `p[1]*8 + 8` computed in uint8, or a narrowing `uint8(x)`.  No subtraction, no
// signed negatives: every value is ≥ 0.  Anything else (if/for, helper calls, data-dependent slice
// bounds, maps, strings, multiple results) is NOT translated and is listed, with the reason as a
// comment, in `getterUntranslated` – nothing is dropped: F3's method set = terms ∪ untranslated.

import (
	"fmt"
	"go/ast"
	"go/constant"
	"go/token"
	"go/types"
	"math/big"
	"sort"
	"strings"

	"golang.org/x/tools/go/packages"
)

type neTerm struct {
	s  string   // Lean term of type NE, already parenthesised where needed
	ub *big.Int // upper bound of the value (lower bound is 0)
}

type getterTr struct {
	p     *packages.Package
	info  *types.Info
	typ   string       // view type being translated
	recv  types.Object // receiver variable of the method being translated
	depth int          // inlining depth (cycle guard)
}

type trErr struct{ why string }

func (e trErr) Error() string { return e.why }

func fail(format string, a ...interface{}) error { return trErr{fmt.Sprintf(format, a...)} }

func paren(e ast.Expr) ast.Expr {
	for {
		p, ok := e.(*ast.ParenExpr)
		if !ok {
			return e
		}
		e = p.X
	}
}

// maxOf returns the largest value of an integer type (nil if the type is not an integer type).
func maxOf(t types.Type) *big.Int {
	if t == nil {
		return nil
	}
	b, ok := t.Underlying().(*types.Basic)
	if !ok || b.Info()&types.IsInteger == 0 {
		return nil
	}
	bits := 0
	signed := false
	switch b.Kind() {
	case types.Uint8:
		bits = 8
	case types.Uint16:
		bits = 16
	case types.Uint32:
		bits = 32
	case types.Uint64, types.Uint, types.Uintptr:
		bits = 64
	case types.Int8:
		bits, signed = 8, true
	case types.Int16:
		bits, signed = 16, true
	case types.Int32:
		bits, signed = 32, true
	case types.Int64, types.Int:
		bits, signed = 64, true
	case types.UntypedInt, types.UntypedRune:
		return new(big.Int).Lsh(big.NewInt(1), 512) // arbitrary precision constant
	default:
		return nil
	}
	if signed {
		bits--
	}
	m := new(big.Int).Lsh(big.NewInt(1), uint(bits))
	return m.Sub(m, big.NewInt(1))
}

func (g *getterTr) fits(e ast.Expr, t neTerm) (neTerm, error) {
	m := maxOf(g.info.TypeOf(e))
	if m == nil {
		return t, fail("expression of non-integer type %v", g.info.TypeOf(e))
	}
	if t.ub.Cmp(m) > 0 {
		return t, fail("value up to %v may not fit its Go type %v (fixed-width wrap-around is not expressible in NE)", t.ub, g.info.TypeOf(e))
	}
	return t, nil
}

func (g *getterTr) isRecv(e ast.Expr) bool {
	id, ok := paren(e).(*ast.Ident)
	return ok && g.recv != nil && g.info.Uses[id] == g.recv
}

func (g *getterTr) constOf(e ast.Expr) (*big.Int, bool) {
	tv, ok := g.info.Types[e]
	if !ok || tv.Value == nil || tv.Value.Kind() != constant.Int {
		return nil, false
	}
	v, ok := new(big.Int).SetString(tv.Value.ExactString(), 10)
	if !ok || v.Sign() < 0 {
		return nil, false
	}
	return v, true
}

func (g *getterTr) smallConst(e ast.Expr, what string) (int64, error) {
	v, ok := g.constOf(e)
	if !ok || !v.IsInt64() || v.Int64() > 1<<20 {
		return 0, fail("%s is not a small non-negative constant", what)
	}
	return v.Int64(), nil
}

// sliceOfRecv recognises p[a:b] / p[:b] / p[a:] on the receiver (conversions to byte-slice types such as
// net.IP(..) are transparent).  hi < 0 means "open" (p[a:]).
func (g *getterTr) sliceOfRecv(e ast.Expr) (lo, hi int64, err error) {
	e = paren(e)
	if c, ok := e.(*ast.CallExpr); ok && len(c.Args) == 1 {
		if tv, ok := g.info.Types[c.Fun]; ok && tv.IsType() && isByteSlice(tv.Type) {
			return g.sliceOfRecv(c.Args[0])
		}
	}
	sl, ok := e.(*ast.SliceExpr)
	if !ok {
		return 0, 0, fail("not a slice expression of the receiver")
	}
	if sl.Slice3 || !g.isRecv(sl.X) {
		return 0, 0, fail("slice of something other than the receiver (or 3-index slice)")
	}
	if sl.Low != nil {
		if lo, err = g.smallConst(sl.Low, "slice lower bound"); err != nil {
			return
		}
	}
	hi = -1
	if sl.High != nil {
		if hi, err = g.smallConst(sl.High, "slice upper bound"); err != nil {
			return
		}
		if hi < lo {
			return 0, 0, fail("inverted constant slice bounds")
		}
	}
	return
}

func pow2above(v *big.Int) *big.Int { // 2^bitlen(v) - 1
	m := new(big.Int).Lsh(big.NewInt(1), uint(v.BitLen()))
	return m.Sub(m, big.NewInt(1))
}

func (g *getterTr) ne(e ast.Expr) (neTerm, error) {
	if v, ok := g.constOf(e); ok {
		return neTerm{fmt.Sprintf("(.const %v)", v), v}, nil
	}
	switch x := e.(type) {
	case *ast.ParenExpr:
		return g.ne(x.X)
	case *ast.IndexExpr:
		if !g.isRecv(x.X) {
			return neTerm{}, fail("index of something other than the receiver")
		}
		k, err := g.smallConst(x.Index, "index")
		if err != nil {
			return neTerm{}, err
		}
		return neTerm{fmt.Sprintf("(.byte %d)", k), big.NewInt(255)}, nil
	case *ast.CallExpr:
		// conversion T(e)
		if tv, ok := g.info.Types[x.Fun]; ok && tv.IsType() && len(x.Args) == 1 {
			t, err := g.ne(x.Args[0])
			if err != nil {
				return t, err
			}
			return g.fits(x, t)
		}
		// binary.BigEndian.UintN(p[a:b])
		if sel, ok := x.Fun.(*ast.SelectorExpr); ok && len(x.Args) == 1 {
			if fn, ok := g.info.Uses[sel.Sel].(*types.Func); ok && fn.Pkg() != nil && fn.Pkg().Path() == "encoding/binary" {
				if isel, ok := sel.X.(*ast.SelectorExpr); ok && isel.Sel.Name == "BigEndian" {
					n := map[string]int64{"Uint16": 2, "Uint32": 4}[sel.Sel.Name]
					if n == 0 {
						return neTerm{}, fail("binary.BigEndian.%s is not modelled", sel.Sel.Name)
					}
					lo, hi, err := g.sliceOfRecv(x.Args[0])
					if err != nil {
						return neTerm{}, err
					}
					if hi != lo+n {
						return neTerm{}, fail("binary.BigEndian.%s on a slice that is not exactly %d bytes", sel.Sel.Name, n)
					}
					ub := new(big.Int).Lsh(big.NewInt(1), uint(8*n))
					ub.Sub(ub, big.NewInt(1))
					return neTerm{fmt.Sprintf("(.be%d %d)", 8*n, lo), ub}, nil
				}
				return neTerm{}, fail("encoding/binary call other than BigEndian.UintN")
			}
		}
		// p.M(): inline another translated integer getter of the same view
		if len(x.Args) == 0 {
			if sel, ok := x.Fun.(*ast.SelectorExpr); ok && g.isRecv(sel.X) {
				term, err := g.method(sel.Sel.Name)
				if err != nil {
					return neTerm{}, fail("calls %s which is untranslated (%v)", sel.Sel.Name, err)
				}
				return term, nil
			}
		}
		return neTerm{}, fail("call of %s", exprStr(x.Fun))
	case *ast.BinaryExpr:
		switch x.Op {
		case token.SHL, token.SHR:
			a, err := g.ne(x.X)
			if err != nil {
				return a, err
			}
			n, err := g.smallConst(x.Y, "shift count")
			if err != nil || n > 64 {
				return a, fail("shift count is not a constant ≤ 64")
			}
			if x.Op == token.SHL {
				return g.fits(x, neTerm{fmt.Sprintf("(.shl %s %d)", a.s, n), new(big.Int).Lsh(a.ub, uint(n))})
			}
			return g.fits(x, neTerm{fmt.Sprintf("(.shr %s %d)", a.s, n), new(big.Int).Rsh(a.ub, uint(n))})
		case token.AND, token.OR, token.ADD, token.MUL:
			a, err := g.ne(x.X)
			if err != nil {
				return a, err
			}
			b, err := g.ne(x.Y)
			if err != nil {
				return b, err
			}
			var ub *big.Int
			var op string
			switch x.Op {
			case token.AND:
				op, ub = "and", a.ub
				if b.ub.Cmp(ub) < 0 {
					ub = b.ub
				}
			case token.OR:
				op, ub = "or", a.ub
				if b.ub.Cmp(ub) > 0 {
					ub = b.ub
				}
				ub = pow2above(ub)
			case token.ADD:
				op, ub = "add", new(big.Int).Add(a.ub, b.ub)
			case token.MUL:
				op, ub = "mul", new(big.Int).Mul(a.ub, b.ub)
			}
			return g.fits(x, neTerm{fmt.Sprintf("(.%s %s %s)", op, a.s, b.s), ub})
		}
		return neTerm{}, fail("operator %s", x.Op)
	}
	return neTerm{}, fail("expression form %T", e)
}

// method returns the NE term of another getter of the same view, for inlining (integer getters only).
func (g *getterTr) method(name string) (neTerm, error) {
	if g.depth > 4 {
		return neTerm{}, fail("inlining too deep")
	}
	fd := findFunc(g.p, g.typ, name)
	if fd == nil {
		return neTerm{}, fail("method not found")
	}
	sub := &getterTr{p: g.p, info: g.info, typ: g.typ, depth: g.depth + 1}
	e, err := sub.returnExpr(fd)
	if err != nil {
		return neTerm{}, err
	}
	if maxOf(g.info.TypeOf(e)) == nil {
		return neTerm{}, fail("not an integer getter")
	}
	return sub.ne(e)
}

// returnExpr binds the receiver and returns the single returned expression of a one-statement body.
func (g *getterTr) returnExpr(fd *ast.FuncDecl) (ast.Expr, error) {
	g.recv = nil
	if fd.Recv != nil && len(fd.Recv.List) == 1 && len(fd.Recv.List[0].Names) == 1 {
		g.recv = g.info.Defs[fd.Recv.List[0].Names[0]]
	}
	if fd.Body == nil || len(fd.Body.List) != 1 {
		return nil, fail("body is not a single return statement")
	}
	rs, ok := fd.Body.List[0].(*ast.ReturnStmt)
	if !ok || len(rs.Results) != 1 {
		return nil, fail("body is not a single `return <expr>`")
	}
	return rs.Results[0], nil
}

func netipFunc(info *types.Info, fun ast.Expr) string {
	sel, ok := fun.(*ast.SelectorExpr)
	if !ok {
		return ""
	}
	if fn, ok := info.Uses[sel.Sel].(*types.Func); ok && fn.Pkg() != nil && fn.Pkg().Path() == "net/netip" {
		return sel.Sel.Name
	}
	return ""
}

// addr recognises netip.AddrFrom4/16(*(*[N]byte)(p[a:a+N])) and netip.AddrFromSlice(p[a:a+N]).
func (g *getterTr) addr(c *ast.CallExpr) (string, error) {
	name := netipFunc(g.info, c.Fun)
	if len(c.Args) != 1 {
		return "", fail("netip call with %d arguments", len(c.Args))
	}
	var n int64
	arg := paren(c.Args[0])
	switch name {
	case "AddrFrom4", "AddrFrom16":
		n = 4
		if name == "AddrFrom16" {
			n = 16
		}
		st, ok := arg.(*ast.StarExpr)
		if !ok {
			return "", fail("netip.%s of something other than *(*[N]byte)(p[a:b])", name)
		}
		conv, ok := paren(st.X).(*ast.CallExpr)
		if !ok || len(conv.Args) != 1 {
			return "", fail("netip.%s of something other than *(*[N]byte)(p[a:b])", name)
		}
		tv, ok := g.info.Types[conv.Fun]
		if !ok || !tv.IsType() {
			return "", fail("netip.%s argument is not an array-pointer conversion", name)
		}
		pt, ok := tv.Type.Underlying().(*types.Pointer)
		if !ok {
			return "", fail("netip.%s argument is not an array-pointer conversion", name)
		}
		at, ok := pt.Elem().Underlying().(*types.Array)
		if !ok || at.Len() != n || !types.Identical(at.Elem(), types.Typ[types.Byte]) {
			return "", fail("netip.%s argument is not a *[%d]byte conversion", name, n)
		}
		arg = conv.Args[0]
	case "AddrFromSlice":
		n = 0
	default:
		return "", fail("call of %s", exprStr(c.Fun))
	}
	lo, hi, err := g.sliceOfRecv(arg)
	if err != nil {
		return "", err
	}
	if hi < 0 {
		return "", fail("address taken from an open slice")
	}
	if n == 0 {
		n = hi - lo
		if n != 4 && n != 16 {
			return "", fail("netip.AddrFromSlice of %d bytes", n)
		}
	}
	if hi-lo != n {
		return "", fail("netip.%s of a slice of %d bytes", name, hi-lo)
	}
	return fmt.Sprintf(".ip %d %d", lo, n), nil
}

// getter translates one method body to a G term.
func (g *getterTr) getter(fd *ast.FuncDecl) (string, error) {
	// `x, _ := netip.AddrFromSlice(p[a:b]); return x`
	if fd.Body != nil && len(fd.Body.List) == 2 {
		as, ok1 := fd.Body.List[0].(*ast.AssignStmt)
		rs, ok2 := fd.Body.List[1].(*ast.ReturnStmt)
		if ok1 && ok2 && as.Tok == token.DEFINE && len(as.Lhs) == 2 && len(as.Rhs) == 1 && len(rs.Results) == 1 {
			x, okx := as.Lhs[0].(*ast.Ident)
			blank, okb := as.Lhs[1].(*ast.Ident)
			r, okr := rs.Results[0].(*ast.Ident)
			c, okc := as.Rhs[0].(*ast.CallExpr)
			if okx && okb && okr && okc && blank.Name == "_" && g.info.Defs[x] != nil && g.info.Uses[r] == g.info.Defs[x] &&
				netipFunc(g.info, c.Fun) == "AddrFromSlice" {
				if fd.Recv != nil && len(fd.Recv.List) == 1 && len(fd.Recv.List[0].Names) == 1 {
					g.recv = g.info.Defs[fd.Recv.List[0].Names[0]]
				}
				return g.addr(c)
			}
		}
	}
	e, err := g.returnExpr(fd)
	if err != nil {
		return "", err
	}
	e = paren(e)
	t := g.info.TypeOf(e)
	// slices of the receiver
	if isByteSlice(t) {
		lo, hi, err := g.sliceOfRecv(e)
		if err != nil {
			return "", err
		}
		if hi < 0 {
			return fmt.Sprintf(".tail %d", lo), nil
		}
		return fmt.Sprintf(".span %d %d", lo, hi), nil
	}
	// netip.Addr
	if c, ok := e.(*ast.CallExpr); ok && netipFunc(g.info, c.Fun) != "" {
		return g.addr(c)
	}
	// comparisons
	if be, ok := e.(*ast.BinaryExpr); ok && (be.Op == token.NEQ || be.Op == token.EQL) {
		c, okc := g.constOf(be.Y)
		if !okc {
			return "", fail("comparison with a non-constant")
		}
		a, err := g.ne(be.X)
		if err != nil {
			return "", err
		}
		if be.Op == token.NEQ {
			if c.Sign() != 0 {
				return "", fail("`!= c` with c ≠ 0 is not expressible in G")
			}
			return fmt.Sprintf(".flag %s", a.s), nil
		}
		return fmt.Sprintf(".eq %s %v", a.s, c), nil
	}
	if maxOf(t) != nil {
		a, err := g.ne(e)
		if err != nil {
			return "", err
		}
		return fmt.Sprintf(".num %s", a.s), nil
	}
	return "", fail("result type %v / expression form %T", t, e)
}

func getterFacts(p *packages.Package, b *strings.Builder) {
	scope := p.Types.Scope()
	var terms, untr []string
	for _, n := range viewTypeNames(p) {
		named := scope.Lookup(n).Type().(*types.Named)
		var ms []string
		for i := 0; i < named.NumMethods(); i++ {
			if isViewGetter(named.Method(i)) {
				ms = append(ms, named.Method(i).Name())
			}
		}
		sort.Strings(ms)
		for _, m := range ms {
			fd := findFunc(p, n, m)
			var term string
			var err error
			if fd == nil {
				err = fail("declaration not found")
			} else {
				g := &getterTr{p: p, info: p.TypesInfo, typ: n}
				term, err = g.getter(fd)
			}
			if err != nil {
				why := strings.ReplaceAll(err.Error(), "-/", "- /")
				untr = append(untr, fmt.Sprintf("(%q, %q) /- %s -/", n, m, why))
			} else {
				terms = append(terms, fmt.Sprintf("(%q, %q, %s)", n, m, term))
			}
		}
	}
	fmt.Fprintf(b, "/-- F5: the bodies of the view getters that are a single `return <expr>` over constant offsets of the\n    receiver, translated into the getter language of Model/Views.lean: (type, method, term), sorted -/\ndef getterTerms : List (String × String × PV.Model.G) := [\n  %s]\n\n", strings.Join(terms, ",\n  "))
	// the comment must not be the last token before `]`-joined commas: put the comma before the comment
	for i := range untr {
		if i < len(untr)-1 {
			untr[i] = strings.Replace(untr[i], ") /-", "), /-", 1)
		}
	}
	fmt.Fprintf(b, "/-- F5: the getters the translator could NOT express (reason in the comment); terms ∪ untranslated = F3 -/\ndef getterUntranslated : List (String × String) := [\n  %s]\n\n", strings.Join(untr, "\n  "))
}
