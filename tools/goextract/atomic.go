package main

import (
	"fmt"
	"go/ast"
	"go/token"
	"go/types"
	"sort"
	"strings"
)

// Critical-section shape facts (F13, the atomicity half of C09) → Gen/AtomicFacts.lean.
//
// The lockset walker (lockset.go) is reused: while it computes the must-hold sets it also records, per function,
//
//   - every critical section it OPENS (a Lock/RLock call, or the branch of `if [!]x.TryLock() {` in which the lock
//     is held): lock class, mode (shared / exclusive / try), whether it is inside a loop of the function, the classes
//     held at the acquisition, and how it is released (defer / number of explicit release sites — kept as text only);
//   - for every access, call and external effect the section (acquisition site) that holds each held class: a
//     fourth component of the lock-set lattice, class ↦ section index, met like the lock instance (kept only when it
//     is the same on every path);
//   - the effects that leave the module: calls into net, os, io/ioutil, golang.org/x/net, time.Sleep, and channel
//     send / receive / close.
//
// From that this file computes, per function that acquires a lock directly or through callees,
//
//   - per section the fields read and written inside it and the external effects made inside it, directly or through
//     callees (transitive summaries over the static call graph of lockset.go; `go f()` is not followed);
//   - the ordered list of items of the function: own section | call of a callee that acquires locks | external
//     effect made while no lock is held;
//   - per entry point (exported function, go statement target, escaped function value / literal) the flattened
//     sequence of sections and unlocked external effects it runs, callees expanded in place (a recursive call is cut
//     and marked).
//
// What the analysis cannot attribute goes into atomicUnknown, which the tie requires to be empty: an Unlock of a lock
// that this function did not acquire (a callee that opens a window in its caller's section), an Unlock whose section
// differs between paths, TryLock outside the `if` form, lock operations in a go statement, a section still open at a
// `return` without defer, re-acquisition of a held class.

type lsSection struct {
	class    string
	excl     bool
	try      bool
	loop     bool
	outer    []string // "class|excl" held at the acquisition
	pos      token.Pos
	seq      int
	deferRel bool
	explRel  int
}

type lsExt struct {
	name string
	held lset
	pos  token.Pos
	seq  int
}

var lastLockset *lsAnalysis

func (w *lsWalker) openSection(class string, excl, try bool, pos token.Pos) {
	if w.dead {
		return
	}
	if w.cur.sec == nil {
		w.cur.sec = map[string]int{}
	}
	if _, held := w.cur.m[class]; held && !w.cur.top {
		w.fn.secNotes = append(w.fn.secNotes, fmt.Sprintf("%s: %s acquired while a lock of the same class is held", site(pos), class))
	}
	var outer []string
	for k, v := range w.cur.m {
		outer = append(outer, fmt.Sprintf("%s|%v", k, v))
	}
	sort.Strings(outer)
	w.fn.seq++
	w.fn.secs = append(w.fn.secs, &lsSection{class: class, excl: excl, try: try, loop: w.loopDepth > 0, outer: outer, pos: pos, seq: w.fn.seq})
	w.cur.sec[class] = len(w.fn.secs)
}

func (w *lsWalker) closeSection(class string, deferred, goStmt bool, pos token.Pos) {
	if w.dead {
		return
	}
	if goStmt {
		w.fn.secNotes = append(w.fn.secNotes, fmt.Sprintf("%s: lock released by a go statement", site(pos)))
		return
	}
	idx := w.cur.sec[class]
	if idx == 0 || idx > len(w.fn.secs) {
		if _, held := w.cur.m[class]; held {
			w.fn.secNotes = append(w.fn.secNotes, fmt.Sprintf("%s: %s releases %s, which it did not acquire itself on every path (a window in the caller's critical section)", site(pos), w.fn.name, class))
		} else {
			w.fn.secNotes = append(w.fn.secNotes, fmt.Sprintf("%s: %s releases %s, which is not known to be held", site(pos), w.fn.name, class))
		}
		return
	}
	s := w.fn.secs[idx-1]
	if deferred {
		s.deferRel = true
	} else {
		s.explRel++
	}
}

func unparen(e ast.Expr) ast.Expr {
	for {
		p, ok := e.(*ast.ParenExpr)
		if !ok {
			return e
		}
		e = p.X
	}
}

// tryLockIf handles `if x.TryLock() { A } [else { B }]` and `if !x.TryLock() { A } [else { B }]`: the lock is held in the
// branch where the call returned true.  Any other use of TryLock/TryRLock is reported by call().
func (w *lsWalker) tryLockIf(x *ast.IfStmt) bool {
	cond := unparen(x.Cond)
	neg := false
	if u, ok := cond.(*ast.UnaryExpr); ok && u.Op == token.NOT {
		neg = true
		cond = unparen(u.X)
	}
	c, ok := cond.(*ast.CallExpr)
	if !ok {
		return false
	}
	se, ok := c.Fun.(*ast.SelectorExpr)
	if !ok || (se.Sel.Name != "TryLock" && se.Sel.Name != "TryRLock") {
		return false
	}
	fn, _ := w.info.Uses[se.Sel].(*types.Func)
	if fn == nil || fn.Pkg() == nil || fn.Pkg().Path() != "sync" {
		return false
	}
	if _, isSel := w.info.Selections[se]; !isSel {
		return false
	}
	w.expr(se.X, mRead)
	class := lockClass(w.info, se.X)
	excl := se.Sel.Name == "TryLock"
	acquire := func() {
		if w.dead {
			return
		}
		w.openSection(class, excl, true, c.Pos())
		if w.cur.inst == nil {
			w.cur.inst = map[string]string{}
		}
		w.cur.m[class] = excl
		w.cur.inst[class] = w.instKey(lockBase(se.X))
	}
	bodies := [][]ast.Stmt{x.Body.List}
	if x.Else != nil {
		bodies = append(bodies, []ast.Stmt{x.Else})
	}
	if !neg {
		pre := []func(){acquire, nil}
		w.clauses(bodies, pre[:len(bodies)], x.Else == nil, nil)
		return true
	}
	if x.Else != nil {
		w.clauses(bodies, []func(){nil, acquire}, false, nil)
		return true
	}
	// if !x.TryLock() { A }: after the statement the lock is held on the path that skipped A
	entry, entryDead := w.cur.clone(), w.dead
	w.stmts(x.Body.List)
	var outs []lset
	if !w.dead {
		outs = append(outs, w.cur)
	}
	w.cur, w.dead = entry, entryDead
	acquire()
	if !w.dead {
		outs = append(outs, w.cur)
	}
	if r, ok := meetAll(outs); ok {
		w.cur, w.dead = r, false
	} else {
		w.dead = true
	}
	return true
}

func (w *lsWalker) ext(name string, pos token.Pos) {
	if w.dead {
		return
	}
	w.fn.seq++
	w.fn.exts = append(w.fn.exts, lsExt{name: name, held: w.cur.clone(), pos: pos, seq: w.fn.seq})
}

// extEffectName classifies a call that leaves the module and has an effect another thread or process can observe.
func extEffectName(fn *types.Func) string {
	if fn.Pkg() == nil {
		return ""
	}
	path := fn.Pkg().Path()
	pk := ""
	switch {
	case path == "net", path == "os", path == "io/ioutil":
		pk = path
	case path == "golang.org/x/net/icmp", path == "golang.org/x/net/ipv4", path == "golang.org/x/net/ipv6", path == "golang.org/x/net/bpf":
		pk = "x/net/" + short(path)
	case path == "time":
		if fn.Name() == "Sleep" {
			return "time.Sleep"
		}
		return ""
	default:
		return ""
	}
	if r := fn.Type().(*types.Signature).Recv(); r != nil {
		t := r.Type()
		if p, ok := t.(*types.Pointer); ok {
			t = p.Elem()
		}
		if n, ok := t.(*types.Named); ok {
			switch fn.Name() { // pure accessors / formatting are not effects
			case "String", "Marshal", "SyscallConn", "LocalAddr", "RemoteAddr", "Network", "Error", "Is4", "To4", "To16", "Equal", "IsDir", "Mode", "Name", "Size", "ModTime", "Contains", "Mask", "IsUnspecified", "IsLoopback", "IsMulticast", "IsLinkLocalUnicast", "IsGlobalUnicast", "IsLinkLocalMulticast", "IsPrivate", "DefaultMask", "Timeout", "Temporary", "Unwrap", "Addrs", "MarshalText":
				return ""
			}
			return pk + "." + n.Obj().Name() + "." + fn.Name()
		}
		return ""
	}
	switch fn.Name() { // pure helpers of package net / os
	case "ParseIP", "ParseMAC", "NewSyscallError", "InterfaceByName", "Interfaces", "InterfaceAddrs", "ResolveIPAddr", "ResolveUDPAddr", "ParseCIDR", "IPv4", "IPv4Mask", "CIDRMask", "JoinHostPort", "SplitHostPort", "Getenv", "IsNotExist", "IsExist", "Getpid", "Args", "Exit":
		return ""
	}
	return pk + "." + fn.Name()
}

type atomSum struct {
	acc    map[string]bool // "field|w" / "field|r"
	ext    map[string]bool
	hasSec bool
}

func atomicFacts(an *lsAnalysis, b *strings.Builder) {
	unknown := map[string]bool{}
	if an == nil {
		fmt.Fprintf(b, "def atomicUnknown : List String := [\"lockset analysis did not run\"]\n\n")
		return
	}
	// ---- transitive summaries
	sums := map[string]*atomSum{}
	for _, k := range an.order {
		f := an.funcs[k]
		s := &atomSum{acc: map[string]bool{}, ext: map[string]bool{}, hasSec: len(f.secs) > 0}
		for _, a := range f.accesses {
			if a.fresh || a.ctor {
				continue
			}
			s.acc[fmt.Sprintf("%s|%v", a.field, a.write)] = true
		}
		for _, e := range f.exts {
			s.ext[e.name] = true
		}
		sums[k] = s
		for _, n := range f.secNotes {
			unknown[n] = true
		}
	}
	for changed := true; changed; {
		changed = false
		for _, k := range an.order {
			f, s := an.funcs[k], sums[k]
			for _, c := range f.calls {
				if c.isGo {
					continue
				}
				t := sums[c.callee]
				if t == nil {
					continue
				}
				for a := range t.acc {
					if !s.acc[a] {
						s.acc[a], changed = true, true
					}
				}
				for a := range t.ext {
					if !s.ext[a] {
						s.ext[a], changed = true, true
					}
				}
				if t.hasSec && !s.hasSec {
					s.hasSec, changed = true, true
				}
			}
		}
	}
	// ---- ids
	classSet, extSet := map[string]bool{}, map[string]bool{}
	var fields []string
	for _, fl := range an.recFlds {
		_ = fl
	}
	for _, name := range an.tracked {
		fields = append(fields, name)
	}
	sort.Strings(fields)
	fieldID := map[string]int{}
	for i, f := range fields {
		fieldID[f] = i
	}
	var fnKeys []string
	for _, k := range an.order {
		f := an.funcs[k]
		if !sums[k].hasSec {
			continue
		}
		fnKeys = append(fnKeys, k)
		for _, s := range f.secs {
			classSet[s.class] = true
			for _, o := range s.outer {
				classSet[o[:strings.Index(o, "|")]] = true
			}
		}
		for e := range sums[k].ext {
			extSet[e] = true
		}
	}
	sort.Slice(fnKeys, func(i, j int) bool { return an.funcs[fnKeys[i]].name < an.funcs[fnKeys[j]].name })
	fnID := map[string]int{}
	for i, k := range fnKeys {
		fnID[k] = i
	}
	ids := func(set map[string]bool) ([]string, map[string]int) {
		var l []string
		for k := range set {
			l = append(l, k)
		}
		sort.Strings(l)
		m := map[string]int{}
		for i, k := range l {
			m[k] = i
		}
		return l, m
	}
	classes, classID := ids(classSet)
	exts, extID := ids(extSet)
	quote := func(l []string) string {
		var q []string
		for _, s := range l {
			q = append(q, fmt.Sprintf("%q", s))
		}
		return strings.Join(q, ", ")
	}
	nums := func(l []int) string {
		sort.Ints(l)
		var q []string
		for i, n := range l {
			if i > 0 && l[i-1] == n {
				continue
			}
			q = append(q, fmt.Sprint(n))
		}
		return "[" + strings.Join(q, ", ") + "]"
	}
	fmt.Fprintf(b, "/-- F13: lock classes of the critical sections; the position is the class id used below -/\ndef classes : List String := [%s]\n\n", quote(classes))
	fmt.Fprintf(b, "/-- F13: tracked fields of the shared records (the list of Gen.trackedFields); the position is the field id -/\ndef fields : List String := [\n  %s]\n\n", strings.ReplaceAll(quote(fields), ", ", ",\n  "))
	fmt.Fprintf(b, "/-- F13: effects that leave the module (calls into net, os, io/ioutil, golang.org/x/net, time.Sleep; channel send / receive / close); the\n    position is the effect id -/\ndef effects : List String := [%s]\n\n", quote(exts))
	var fnNames []string
	for _, k := range fnKeys {
		fnNames = append(fnNames, an.funcs[k].name)
	}
	fmt.Fprintf(b, "/-- F13: the functions that acquire a lock, directly or through callees; the position is the function id -/\ndef funcs : List String := [\n  %s]\n\n", strings.ReplaceAll(quote(fnNames), ", ", ",\n  "))

	// ---- per function: sections and items
	type item struct {
		seq  int
		text string
		kind int // 0 own section, 1 call, 2 ext
		a    int
		exts []int // for kind 2 through a callee: all effect ids
	}
	fnItems := map[string][]item{}
	var shapeRows []string
	for _, k := range fnKeys {
		f := an.funcs[k]
		maxSeq := f.seq + 1
		type secAcc struct {
			r, w, e []int
		}
		sa := make([]secAcc, len(f.secs))
		addSum := func(i int, t *atomSum) {
			for a := range t.acc {
				j := strings.LastIndex(a, "|")
				if a[j+1:] == "true" {
					sa[i].w = append(sa[i].w, fieldID[a[:j]])
				} else {
					sa[i].r = append(sa[i].r, fieldID[a[:j]])
				}
			}
			for e := range t.ext {
				sa[i].e = append(sa[i].e, extID[e])
			}
		}
		inSecs := func(h lset) []int {
			var l []int
			for cl, idx := range h.sec {
				if idx > 0 && idx <= len(f.secs) && f.secs[idx-1].class == cl {
					l = append(l, idx-1)
				}
			}
			sort.Ints(l)
			return l
		}
		for _, a := range f.accesses {
			if a.fresh || a.ctor {
				continue
			}
			for _, i := range inSecs(a.held) {
				if a.write {
					sa[i].w = append(sa[i].w, fieldID[a.field])
				} else {
					sa[i].r = append(sa[i].r, fieldID[a.field])
				}
			}
		}
		var items []item
		for _, e := range f.exts {
			in := inSecs(e.held)
			for _, i := range in {
				sa[i].e = append(sa[i].e, extID[e.name])
			}
			if len(e.held.m) == 0 && !e.held.top {
				items = append(items, item{seq: e.seq, kind: 2, a: extID[e.name]})
			}
		}
		for _, c := range f.calls {
			if c.isGo {
				continue
			}
			t := sums[c.callee]
			if t == nil {
				continue
			}
			seq := c.seq
			if seq == 0 {
				seq = maxSeq // deferred function literal: runs at return
			}
			in := inSecs(c.held)
			for _, i := range in {
				addSum(i, t)
			}
			if t.hasSec {
				items = append(items, item{seq: seq, kind: 1, a: fnID[c.callee]})
			} else if len(t.ext) > 0 && len(c.held.m) == 0 && !c.held.top && len(in) == 0 {
				var es []int
				for e := range t.ext {
					es = append(es, extID[e])
				}
				sort.Ints(es)
				for _, e := range es {
					items = append(items, item{seq: seq, kind: 2, a: e})
				}
			}
		}
		var secRows []string
		for i, s := range f.secs {
			items = append(items, item{seq: s.seq, kind: 0, a: i})
			mode := 0
			if s.excl {
				mode = 1
			}
			if s.try {
				mode += 2
			}
			var outer []string
			for _, o := range s.outer {
				j := strings.Index(o, "|")
				outer = append(outer, fmt.Sprintf("(%d, %s)", classID[o[:j]], o[j+1:]))
			}
			rel := fmt.Sprintf("%d explicit", s.explRel)
			if s.deferRel {
				rel = "defer"
				if s.explRel > 0 {
					rel = fmt.Sprintf("defer + %d explicit", s.explRel)
				}
			}
			if !s.deferRel && s.explRel == 0 {
				unknown[fmt.Sprintf("%s: %s: section on %s is never released in this function", site(s.pos), f.name, s.class)] = true
			}
			secRows = append(secRows, fmt.Sprintf("    (%d, %d, %v, [%s], %s, %s, %s, %q)", classID[s.class], mode, s.loop, strings.Join(outer, ", "),
				nums(sa[i].r), nums(sa[i].w), nums(sa[i].e), fmt.Sprintf("%s %s; released: %s", s.class, site(s.pos), rel)))
		}
		sort.SliceStable(items, func(i, j int) bool { return items[i].seq < items[j].seq })
		// merge repeated unlocked effects
		var its []item
		for _, it := range items {
			if n := len(its); n > 0 && it.kind == 2 && its[n-1].kind == 2 && its[n-1].a == it.a {
				continue
			}
			its = append(its, it)
		}
		fnItems[k] = its
		var itRows []string
		for _, it := range its {
			itRows = append(itRows, fmt.Sprintf("(%d, %d)", it.kind, it.a))
		}
		shapeRows = append(shapeRows, fmt.Sprintf("  (%d, %q, [\n%s],\n    [%s])", fnID[k], f.name, strings.Join(secRows, ",\n"), strings.Join(itRows, ", ")))
	}
	fmt.Fprintf(b, `/-- F13: critical-section shape per function: (function id, name, sections, items).
    section = (class id, mode: 0 shared | 1 exclusive | 2 try-shared | 3 try-exclusive, inside a loop of the function,
               [(class id, exclusive)] held at the acquisition, field ids read inside, field ids written inside, effect ids made inside
               — directly or through callees —, "class site; how released" for the reader);
    items in source order = (0, index of an own section) | (1, id of a called function that acquires locks) |
               (2, id of an effect made while no lock is held) -/
def funcShapes : List (Nat × String × List (Nat × Nat × Bool × List (Nat × Bool) × List Nat × List Nat × List Nat × String) × List (Nat × Nat)) := [
%s]

`, strings.Join(shapeRows, ",\n"))

	// ---- entry points
	type entry struct {
		kind int
		name string
		key  string
	}
	var entries []entry
	seenEntry := map[string]bool{}
	for _, k := range an.order {
		f := an.funcs[k]
		if f.root != "" && !strings.HasPrefix(f.root, "dead:") && sums[k].hasSec {
			kind := 0
			if strings.HasPrefix(f.root, "go@") {
				kind = 1
			} else if strings.HasPrefix(f.root, "cb") {
				kind = 2
			}
			if !seenEntry[k] {
				seenEntry[k] = true
				entries = append(entries, entry{kind, f.name, k})
			}
		}
		for _, c := range f.calls {
			if c.isGo && sums[c.callee] != nil && sums[c.callee].hasSec && !seenEntry[c.callee] {
				seenEntry[c.callee] = true
				entries = append(entries, entry{1, an.funcs[c.callee].name, c.callee})
			}
		}
	}
	sort.Slice(entries, func(i, j int) bool { return entries[i].name < entries[j].name })
	var entRows []string
	total := 0
	for _, e := range entries {
		var out []string
		lastExt := -1
		var expand func(k string, stack []string)
		expand = func(k string, stack []string) {
			for _, s := range stack {
				if s == k {
					out = append(out, fmt.Sprintf("(3, %d, 0)", fnID[k]))
					lastExt = -1
					return
				}
			}
			if len(out) > 4000 {
				unknown["entry "+e.name+": expansion too large"] = true
				return
			}
			for _, it := range fnItems[k] {
				switch it.kind {
				case 0:
					out = append(out, fmt.Sprintf("(0, %d, %d)", fnID[k], it.a))
					lastExt = -1
				case 1:
					expand(fnKeys[it.a], append(stack, k))
				case 2:
					if lastExt != it.a {
						out = append(out, fmt.Sprintf("(2, %d, 0)", it.a))
					}
					lastExt = it.a
				}
			}
		}
		expand(e.key, nil)
		total += len(out)
		entRows = append(entRows, fmt.Sprintf("  (%d, %q, %d, [%s])", e.kind, e.name, fnID[e.key], strings.Join(out, ", ")))
	}
	fmt.Fprintf(b, `/-- F13: per entry point (kind 0 exported function | 1 started by a go statement | 2 escaped function value / literal; name; function id):
    the sections it runs in source order with the callees expanded in place: (0, function id, section index) |
    (2, effect id, 0) an effect made while no lock is held | (3, function id, 0) a recursive call, not expanded -/
def entryShapes : List (Nat × String × Nat × List (Nat × Nat × Nat)) := [
%s]

`, strings.Join(entRows, ",\n"))
	var ul []string
	for u := range unknown {
		ul = append(ul, fmt.Sprintf("%q", u))
	}
	sort.Strings(ul)
	fmt.Fprintf(b, "/-- F13: lock operations the section analysis cannot attribute (must be empty) -/\ndef atomicUnknown : List String := [%s]\n\n", strings.Join(ul, ",\n  "))
	_ = total
}
