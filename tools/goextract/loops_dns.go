package main

// F11 continued: the library's own DNS decoder (layer_dns.go) translated from the Go bodies into Lean source
// (Gen/LoopsDns.lean, regenerated on every run; Props/C17Tie.lean proves each generated function equal to the
// hand-written function of Model/DnsName.lean / Model/DnsRR.lean).
//
// Built on the statement translator of loops.go (same types, same expression language, same primitives, through its
// ext* hooks) with the forms the decoder needs — everything else is still REFUSED and listed:
//
//	results      several results; a final `error` result is the `.err` of Outcome: `return …, nil` is `pure (…)`,
//	             `return …, E` is `.err e` where E is a package-level Err… sentinel (→ its constructor of PV.Err),
//	             fmt.Errorf with %w of such an error (seen through errors.Is, as PV.Err is defined) or without %w
//	             (`.other`).  The values returned next to a non-nil error are evaluated (they can panic) and dropped
//	             (assumption `errValuesDropped`).  Named results are zero-initialised locals.
//	calls        `a, b, err := f(…)` / `a, b, err = f(…)` / `if err := f(…); err != nil {…}` of a translated function
//	             must be followed by `if err != nil { return …, err | fmt.Errorf("… %w", err) }`: a monadic bind.
//	             A pointer parameter `*[]byte` and a pointer receiver are in/out: passed by value, returned as the
//	             first components of the result, and re-bound at the call site (`&x` or the pointer variable itself).
//	recursion    direct recursion guarded by `if level > K { return … }` as the first statement with every recursive
//	             call passing level+c: the function takes fuel (K − level) + 2; loop functions receive the recursive
//	             call as a parameter.  The fuel is NOT trusted (`.hang` would break the tie).
//	return/break `return` inside a loop only with a non-nil error; labelled `break` / `continue`; `switch tag { case
//	             constants… }` (Go's order: cases top to bottom, default last; `break` leaves the switch).
//	loops        additionally `for cond` where cond reads `s[i]` (s not assigned in the loop, i an int): fuel
//	             (len(s) − i) + 1; `for i := range s` (key only).
//	values       `*p` for a `*[]byte` parameter, `append(x, b)`, `append(x, y...)` (a new value: assumption
//	             `appendValue`), nil byte slices (`[]`: assumption `nilIsEmpty`), `x == nil` on byte slices and maps,
//	             binary.BigEndian.Uint16/Uint32, structs of supported field types (→ generated structures, zero values
//	             as defaults), field reads and stores, struct literals, `[]byte{…}`, maps (→ GMap: `_, ok := m[k]`,
//	             `m[k] = v`, `make(map…)`, `m == nil`), netip.Addr as its bytes, strings.TrimSuffix / net.IP.To4 /
//	             netip.AddrFromSlice (modelled in Model/LoopGoDns.lean), net.ParseIP (a named parameter `parseIP` of
//	             the generated function).
//	logging      fmt.Print* statements evaluate their arguments and are otherwise dropped; `if Logger.IsDebug() {
//	             only such statements }` is dropped (assumption `logsDropped`).

import (
	"fmt"
	"go/ast"
	"go/constant"
	"go/token"
	"go/types"
	"path/filepath"
	"sort"
	"strings"

	"golang.org/x/tools/go/packages"
)

type dnFunc struct {
	f       *types.Func
	key     string
	lean    string
	recName string // non-empty: the fuel-taking recursive function
	params  []*types.Var
	inout   []bool
	ptys    []string
	resTys  []string // results without the error
	hasErr  bool
	oracles []string
	resTy   string
	text    string
	stTy    string // non-empty: pointer receiver of this struct type; the function runs in OutcomeS stTy (loops_dns_recv.go)
}

type dnGen struct {
	lp         *lpGen
	done       map[*types.Func]*dnFunc
	refused    map[*types.Func]string
	busy       map[*types.Func]bool
	order      []*dnFunc
	structs    map[*types.Named]string
	structDefs []string
	fuels      []string
	assume     map[string]bool
	externs    map[string]bool
}

type dnLoopJ struct{ brk, cont lpKont }

type dnJump struct {
	brk, cont lpKont
	labels    map[string]*dnLoopJ
	inLoop    bool
}

func (j *dnJump) with(brk, cont lpKont, inLoop bool) *dnJump {
	n := &dnJump{brk: j.brk, cont: j.cont, labels: j.labels, inLoop: j.inLoop || inLoop}
	if brk != nil {
		n.brk = brk
	}
	if cont != nil {
		n.cont = cont
	}
	return n
}

type dnTr struct {
	*lpTr
	dg       *dnGen
	dfn      *dnFunc
	ptrBytes map[*types.Var]bool // *[]byte parameters
	selfRec  bool
	inRecFn  bool // translating the body of the fuel-taking function: recursive calls use `fuel`
	inLoopFn int  // > 0: inside a loop function (recursive calls go through `rec`)
	nsw      int
	labelOf  map[ast.Stmt]string
	stVar    *types.Var // the struct pointer receiver whose state is written through (loops_dns_recv.go)
}

var dnErrCtors = map[string]bool{"invalidLen": true, "payloadTooBig": true, "parseFrame": true, "parseProtocol": true, "frameLen": true, "invalidConn": true,
	"invalidIP": true, "invalidMAC": true, "invalidIP6LLA": true, "notFound": true, "timeout": true, "notRedirected": true, "isRouter": true, "noReader": true,
	"invalidParam": true, "multicastMAC": true, "handlerClosed": true}

func dnIsError(ty types.Type) bool {
	n, ok := ty.(*types.Named)
	return ok && n.Obj().Pkg() == nil && n.Obj().Name() == "error"
}

func dnNamed(ty types.Type) *types.Named {
	if p, ok := ty.(*types.Pointer); ok {
		ty = p.Elem()
	}
	n, _ := ty.(*types.Named)
	return n
}

func dnIsAddr(ty types.Type) bool {
	n, ok := ty.(*types.Named)
	return ok && n.Obj().Pkg() != nil && n.Obj().Pkg().Path() == "net/netip" && n.Obj().Name() == "Addr"
}

// ---- types ----

func (t *dnTr) xTy(ty types.Type) string {
	if p, ok := ty.(*types.Pointer); ok {
		if lpIsBytes(p.Elem()) {
			if _, isStr := p.Elem().Underlying().(*types.Basic); !isStr {
				return "Bytes"
			}
		}
	}
	if dnIsAddr(ty) {
		return "GAddr"
	}
	if m, ok := ty.Underlying().(*types.Map); ok {
		k, v := t.leanTy(m.Key()), t.leanTy(m.Elem())
		if k == "" || v == "" {
			return ""
		}
		return "(GMap " + k + " " + v + ")"
	}
	if n := dnNamed(ty); n != nil {
		if st, ok := n.Underlying().(*types.Struct); ok && n.Obj().Pkg() != nil && t.dg.lp.pkgs[n.Obj().Pkg().Path()] != nil {
			return t.dg.structTy(t, n, st)
		}
	}
	return ""
}

func (g *dnGen) structTy(t *dnTr, n *types.Named, st *types.Struct) string {
	if s, ok := g.structs[n]; ok {
		return s
	}
	name := "G" + n.Obj().Name()
	g.structs[n] = "" // cycle guard: a recursive struct is unsupported
	var fields []string
	for i := 0; i < st.NumFields(); i++ {
		f := st.Field(i)
		lt := t.leanTy(f.Type())
		if lt == "" || lt == "GLine" {
			delete(g.structs, n)
			g.structs[n] = ""
			return ""
		}
		fields = append(fields, fmt.Sprintf("  %s : %s := %s", lpName(f.Name()), lt, dnZero(lt)))
	}
	g.structs[n] = name
	g.structDefs = append(g.structDefs, fmt.Sprintf("/-- Go: type %s struct (%s); the defaults are Go's zero values -/\nstructure %s where\n%s\n  deriving DecidableEq, Repr\n", n.Obj().Name(), n.Obj().Pkg().Name(), name, strings.Join(fields, "\n")))
	return name
}

func dnZero(lt string) string {
	switch {
	case lt == "Int" || lpWidth(lt) > 0:
		return "(0 : " + lt + ")"
	case lt == "Bool":
		return "false"
	case lt == "Bytes" || lt == "GAddr":
		return "([] : Bytes)"
	case strings.HasPrefix(lt, "(GMap "):
		return "none"
	}
	return "{}"
}

// ---- hooks ----

func (t *dnTr) xRoot(e ast.Expr) *types.Var {
	switch x := paren(e).(type) {
	case *ast.StarExpr:
		return t.rootVar(x.X)
	case *ast.UnaryExpr:
		if x.Op == token.AND {
			return t.rootVar(x.X)
		}
	}
	return nil
}

// the in/out variables a call of a translated function writes
func (t *dnTr) xCallAssigns(c *ast.CallExpr, res map[*types.Var]bool) {
	callee, recv := t.calleeOf(c)
	if callee == nil {
		return
	}
	sig := callee.Type().(*types.Signature)
	if cf, ok := t.dg.done[callee]; ok {
		actuals := []ast.Expr{}
		if recv != nil {
			actuals = append(actuals, recv)
		}
		actuals = append(actuals, c.Args...)
		for i, a := range actuals {
			if i < len(cf.inout) && cf.inout[i] {
				if v := t.rootVar(a); v != nil {
					res[v] = true
				}
			}
		}
	}
	if recv != nil && sig.Recv() != nil {
		if _, ptr := sig.Recv().Type().(*types.Pointer); ptr {
			if v := t.rootVar(recv); v != nil && t.isLocal(v) && t.leanTy(v.Type()) != "" {
				res[v] = true
			}
		}
	}
	for i, a := range c.Args {
		if i < sig.Params().Len() {
			if _, ptr := sig.Params().At(i).Type().(*types.Pointer); ptr {
				if v := t.rootVar(a); v != nil && t.isLocal(v) && t.leanTy(v.Type()) != "" {
					res[v] = true
				}
			}
		}
	}
}

func (t *dnTr) calleeOf(c *ast.CallExpr) (*types.Func, ast.Expr) {
	switch f := paren(c.Fun).(type) {
	case *ast.Ident:
		fn, _ := t.info.Uses[f].(*types.Func)
		return fn, nil
	case *ast.SelectorExpr:
		fn, _ := t.info.Uses[f.Sel].(*types.Func)
		if fn != nil && fn.Type().(*types.Signature).Recv() != nil {
			return fn, f.X
		}
		return fn, nil
	}
	return nil, nil
}

func dnQual(f *types.Func) string {
	if f == nil || f.Pkg() == nil {
		return ""
	}
	sig := f.Type().(*types.Signature)
	if r := sig.Recv(); r != nil {
		if n := dnNamed(r.Type()); n != nil {
			return f.Pkg().Path() + "." + n.Obj().Name() + "." + f.Name()
		}
	}
	return f.Pkg().Path() + "." + f.Name()
}

func (t *dnTr) isNil(e ast.Expr) bool {
	id, ok := paren(e).(*ast.Ident)
	if !ok {
		return false
	}
	_, isNil := t.info.Uses[id].(*types.Nil)
	return isNil
}

func (t *dnTr) xCond(e ast.Expr, b *lpBinds) (string, bool) {
	be, ok := e.(*ast.BinaryExpr)
	if !ok || (be.Op != token.EQL && be.Op != token.NEQ) {
		return "", false
	}
	x, y := be.X, be.Y
	if t.isNil(x) {
		x, y = y, x
	}
	if !t.isNil(y) {
		// comparison of struct-free scalar types is the base translator's; GAddr / Bytes equality is not Go-comparable anyway
		return "", false
	}
	ty := t.info.TypeOf(x)
	lt := t.leanTy(ty)
	var s string
	switch {
	case lt == "Bytes":
		t.dg.assume["nilIsEmpty"] = true
		s = "(" + t.expr(x, b) + " = ([] : Bytes))"
	case strings.HasPrefix(lt, "(GMap "):
		s = "(" + t.expr(x, b) + " = none)"
	default:
		return "", false
	}
	if be.Op == token.NEQ {
		s = "(¬ " + s + ")"
	}
	return s, true
}

func (t *dnTr) xExpr(e ast.Expr, b *lpBinds) (string, bool) {
	switch x := e.(type) {
	case *ast.Ident:
		if t.isNil(x) {
			lt := t.leanTy(t.info.TypeOf(x))
			switch {
			case lt == "Bytes":
				t.dg.assume["nilIsEmpty"] = true
				return "([] : Bytes)", true
			case strings.HasPrefix(lt, "(GMap "):
				return "none", true
			}
			t.refuse(e, "nil of type %s", t.info.TypeOf(x))
		}
		if v := t.varOf(x); v != nil && t.isLocal(v) {
			lt := t.leanTy(v.Type())
			if lt != "" && lt != "GLine" && (strings.HasPrefix(lt, "G") || strings.HasPrefix(lt, "(GMap")) {
				return lpName(v.Name()), true
			}
		}
	case *ast.StarExpr:
		if v := t.varOf(x.X); v != nil && t.ptrBytes[v] {
			return lpName(v.Name()), true
		}
		t.refuse(e, "dereference %s", nodeText(e))
	case *ast.SelectorExpr:
		if sel, ok := t.info.Selections[x]; ok && sel.Kind() == types.FieldVal {
			bt := t.leanTy(t.info.TypeOf(x.X))
			if strings.HasPrefix(bt, "G") && bt != "GLine" && bt != "GAddr" {
				base := t.expr(x.X, b)
				return base + "." + lpName(x.Sel.Name), true
			}
		}
	case *ast.CompositeLit:
		ty := t.info.TypeOf(x)
		if lpIsBytes(ty) {
			var parts []string
			for _, el := range x.Elts {
				if _, kv := el.(*ast.KeyValueExpr); kv {
					t.refuse(e, "keyed element in a byte literal")
				}
				parts = append(parts, t.expr(el, b))
			}
			return "([" + strings.Join(parts, ", ") + "] : Bytes)", true
		}
		lt := t.leanTy(ty)
		if n := dnNamed(ty); n != nil && lt != "" && strings.HasPrefix(lt, "G") {
			st := n.Underlying().(*types.Struct)
			var parts []string
			for i, el := range x.Elts {
				kv, ok := el.(*ast.KeyValueExpr)
				name := ""
				var val ast.Expr
				if ok {
					name = kv.Key.(*ast.Ident).Name
					val = kv.Value
				} else {
					name = st.Field(i).Name()
					val = el
				}
				parts = append(parts, lpName(name)+" := "+t.expr(val, b))
			}
			return "({ " + strings.Join(parts, ", ") + " } : " + lt + ")", true
		}
		t.refuse(e, "composite literal of type %s", ty)
	case *ast.CallExpr:
		return t.xCall(x, b)
	}
	return "", false
}

func (t *dnTr) xCall(x *ast.CallExpr, b *lpBinds) (string, bool) {
	if id, ok := paren(x.Fun).(*ast.Ident); ok {
		if _, bi := t.info.Uses[id].(*types.Builtin); bi {
			switch id.Name {
			case "append":
				if len(x.Args) != 2 || !lpIsBytes(t.info.TypeOf(x.Args[0])) {
					t.refuse(x, "append form")
				}
				t.dg.assume["appendValue"] = true
				base := t.expr(x.Args[0], b)
				if x.Ellipsis != token.NoPos {
					return "(" + base + " ++ " + t.expr(x.Args[1], b) + ")", true
				}
				return "(" + base + " ++ [" + t.expr(x.Args[1], b) + "])", true
			case "make":
				if len(x.Args) >= 1 {
					if _, isMap := t.info.TypeOf(x.Args[0]).Underlying().(*types.Map); isMap {
						if t.leanTy(t.info.TypeOf(x.Args[0])) == "" {
							t.refuse(x, "map type %s", t.info.TypeOf(x.Args[0]))
						}
						return "mapMake", true
					}
				}
			}
			return "", false
		}
	}
	if tv, ok := t.info.Types[x.Fun]; ok && tv.IsType() {
		if len(x.Args) == 1 {
			to, from := t.leanTy(tv.Type), t.leanTy(t.info.TypeOf(x.Args[0]))
			if _, c := t.constOf(x); !c && from == "Int" && lpWidth(to) > 0 {
				// int → uintN keeps the low N bits (two's complement): Int.emod by 2^N is non-negative
				return fmt.Sprintf("(%s.ofNat (%s %% (%d : Int)).toNat)", to, t.expr(x.Args[0], b), int64(1)<<uint(lpWidth(to))), true
			}
		}
		return "", false // the other conversions: the base translator
	}
	callee, recv := t.calleeOf(x)
	if callee == nil {
		t.refuse(x, "call of %s", nodeText(x.Fun))
	}
	q := dnQual(callee)
	switch q {
	case "encoding/binary.bigEndian.Uint16", "encoding/binary.bigEndian.Uint32":
		prim := map[string]string{"Uint16": "beU16", "Uint32": "beU32"}[callee.Name()]
		a := t.expr(x.Args[0], b)
		n := t.tmp()
		b.add(fmt.Sprintf("let %s ← %s %s", n, prim, a))
		return n, true
	case "strings.TrimSuffix":
		t.dg.externs["strings.TrimSuffix → LoopGoDns.trimSuffix"] = true
		return "(trimSuffix " + t.expr(x.Args[0], b) + " " + t.expr(x.Args[1], b) + ")", true
	case "net.IP.To4":
		t.dg.externs["net.IP.To4 → LoopGoDns.ipTo4"] = true
		return "(ipTo4 " + t.expr(recv, b) + ")", true
	case "net.ParseIP":
		t.dg.externs["net.ParseIP → parameter parseIP (nil = [])"] = true
		t.needOracle("parseIP")
		return "(parseIP " + t.expr(x.Args[0], b) + ")", true
	}
	if callee.Pkg() == nil || t.dg.lp.pkgs[callee.Pkg().Path()] == nil || !strings.HasPrefix(callee.Pkg().Path(), "github.com/irai/packet") {
		t.refuse(x, "call of %s (standard library or external, not modelled)", q)
	}
	// a translated function used as a value: one result, no error, no in/out parameter
	inouts, line := t.callBind(x, b, false)
	n := t.tmp()
	b.add("let " + lpTuple(append(inouts, n)) + " ← " + line)
	return n, true
}

func (t *dnTr) needOracle(o string) {
	for _, x := range t.dfn.oracles {
		if x == o {
			return
		}
	}
	t.dfn.oracles = append(t.dfn.oracles, o)
	sort.Strings(t.dfn.oracles)
}

// the Lean call text of a translated function and the names of the in/out variables it re-binds (in order).
// asStmt: results beyond the in/outs are described by the caller.
func (t *dnTr) callBind(x *ast.CallExpr, b *lpBinds, allowErr bool) (inouts []string, call string) {
	callee, recv := t.calleeOf(x)
	var cf *dnFunc
	self := callee == t.dfn.f
	if self {
		cf = t.dfn
	} else {
		var why string
		cf, why = t.dg.translate(callee)
		if cf == nil {
			t.refuse(x, "calls %s, which is not translated: %s", callee.Name(), why)
		}
	}
	if cf.hasErr && !allowErr {
		t.refuse(x, "call of %s, which returns an error, outside the `if err != nil { return }` pattern", callee.Name())
	}
	t.recvCallCheck(x, cf, recv)
	var own lpBinds
	if b == nil {
		b = &own
	}
	var args []string
	actuals := []ast.Expr{}
	if recv != nil {
		actuals = append(actuals, recv)
	}
	actuals = append(actuals, x.Args...)
	if len(actuals) != len(cf.params) {
		t.refuse(x, "argument count of %s", callee.Name())
	}
	for i, a := range actuals {
		if cf.inout[i] {
			v := t.rootVar(a)
			if v == nil || !t.isLocal(v) {
				t.refuse(x, "in/out argument %s is not a local variable", nodeText(a))
			}
			switch y := paren(a).(type) {
			case *ast.Ident:
			case *ast.UnaryExpr:
				if _, ok := paren(y.X).(*ast.Ident); !ok || y.Op != token.AND {
					t.refuse(x, "in/out argument %s", nodeText(a))
				}
			default:
				t.refuse(x, "in/out argument %s", nodeText(a))
			}
			args = append(args, lpName(v.Name()))
			inouts = append(inouts, lpName(v.Name()))
		} else {
			args = append(args, t.expr(a, b))
		}
	}
	if len(own.lines) > 0 {
		t.refuse(x, "internal: binds without a sink")
	}
	for _, o := range cf.oracles {
		t.needOracle(o)
	}
	head := strings.TrimSpace(cf.lean + " " + strings.Join(cf.oracles, " "))
	if self {
		if !t.selfRec {
			t.refuse(x, "internal: recursion not detected")
		}
		if t.inLoopFn > 0 {
			head = "rec"
		} else {
			head = strings.TrimSpace(cf.recName+" "+strings.Join(cf.oracles, " ")) + " fuel"
		}
	}
	return inouts, strings.TrimSpace(head + " " + strings.Join(args, " "))
}

// ---- errors ----

// classify an error-valued expression: nil, or the Lean Err term; errVar: the local error variable that may be passed on
func (t *dnTr) errExpr(e ast.Expr, errVar *types.Var, b *lpBinds) (term string, isNil bool, passes bool) {
	e = paren(e)
	if t.isNil(e) {
		return "", true, false
	}
	if id, ok := e.(*ast.Ident); ok {
		v := t.varOf(id)
		if v != nil && errVar != nil && v == errVar {
			return "", false, true
		}
		if v != nil && !t.isLocal(v) && dnIsError(v.Type()) {
			name := v.Name()
			if strings.HasPrefix(name, "Err") && len(name) > 3 {
				c := strings.ToLower(name[3:4]) + name[4:]
				if dnErrCtors[c] {
					return "Err." + c, false, false
				}
			}
			return "Err.other", false, false
		}
		t.refuse(e, "error value %s", id.Name)
	}
	if sel, ok := e.(*ast.SelectorExpr); ok { // pkg.ErrX: a sentinel of another package (builder M)
		if x, ok := sel.X.(*ast.Ident); ok {
			if _, isPkg := t.info.Uses[x].(*types.PkgName); isPkg {
				if v, _ := t.info.Uses[sel.Sel].(*types.Var); v != nil && dnIsError(v.Type()) {
					name := v.Name()
					if strings.HasPrefix(name, "Err") && len(name) > 3 {
						c := strings.ToLower(name[3:4]) + name[4:]
						if dnErrCtors[c] {
							return "Err." + c, false, false
						}
					}
					return "Err.other", false, false
				}
			}
		}
	}
	if c, ok := e.(*ast.CallExpr); ok {
		callee, _ := t.calleeOf(c)
		if dnQual(callee) == "fmt.Errorf" && len(c.Args) >= 1 {
			cv, ok := t.constOf(c.Args[0])
			if !ok || cv.Kind() != constant.String {
				t.refuse(e, "fmt.Errorf with a non-constant format")
			}
			format := constant.StringVal(cv)
			var wrapped ast.Expr
			for _, a := range c.Args[1:] {
				if dnIsError(t.info.TypeOf(a)) {
					if wrapped != nil {
						t.refuse(e, "fmt.Errorf with two error arguments")
					}
					wrapped = a
				} else {
					t.logArg(a, b)
				}
			}
			if wrapped != nil && strings.Count(format, "%w") == 1 {
				return t.errExpr(wrapped, errVar, b)
			}
			if wrapped != nil {
				t.refuse(e, "fmt.Errorf with an error argument not under %%w")
			}
			return "Err.other", false, false
		}
	}
	t.refuse(e, "error expression %s", nodeText(e))
	return "", false, false
}

// an argument of a log / error-text call: evaluated (it can panic), value dropped
func (t *dnTr) logArg(a ast.Expr, b *lpBinds) {
	if cv, ok := t.constOf(a); ok && cv != nil {
		return
	}
	ty := t.info.TypeOf(a)
	if t.leanTy(ty) == "" {
		t.refuse(a, "log argument of type %s", ty)
	}
	_ = t.expr(a, b)
}

func (t *dnTr) isLogCall(s ast.Stmt) (*ast.CallExpr, bool) {
	es, ok := s.(*ast.ExprStmt)
	if !ok {
		return nil, false
	}
	c, ok := paren(es.X).(*ast.CallExpr)
	if !ok {
		return nil, false
	}
	callee, _ := t.calleeOf(c)
	switch dnQual(callee) {
	case "fmt.Println", "fmt.Printf", "fmt.Print":
		return c, true
	}
	return nil, false
}

// `if Logger.IsDebug() { only log statements }`
func (t *dnTr) isDebugIf(x *ast.IfStmt) bool {
	if x.Init != nil || x.Else != nil {
		return false
	}
	c, ok := paren(x.Cond).(*ast.CallExpr)
	if !ok {
		return false
	}
	callee, _ := t.calleeOf(c)
	if callee == nil || callee.Name() != "IsDebug" {
		return false
	}
	for _, s := range x.Body.List {
		if _, ok := t.isLogCall(s); !ok {
			return false
		}
	}
	return true
}

// ---- statements ----

func (t *dnTr) checkShadowNoErr() {
	var vars []*types.Var
	ast.Inspect(t.fd, func(x ast.Node) bool {
		if id, ok := x.(*ast.Ident); ok {
			if v, ok := t.info.Defs[id].(*types.Var); ok && t.isLocal(v) && !dnIsError(v.Type()) {
				vars = append(vars, v)
			}
		}
		return true
	})
	for _, a := range vars {
		for _, b := range vars {
			if a != b && a.Name() == b.Name() && a.Name() != "_" {
				if sa := a.Parent(); sa != nil && sa.Contains(b.Pos()) && b.Pos() > a.Pos() {
					lpRefuse(t.p.Fset, t.fd, "variable %s is shadowed", a.Name())
				}
			}
		}
	}
}

// is `s` the check `if err != nil { return …, E }` for errVar? returns the body's return statement
func (t *dnTr) errCheck(s ast.Stmt, errVar *types.Var) *ast.ReturnStmt {
	x, ok := s.(*ast.IfStmt)
	if !ok || x.Else != nil || len(x.Body.List) != 1 {
		return nil
	}
	be, ok := paren(x.Cond).(*ast.BinaryExpr)
	if !ok || be.Op != token.NEQ || !t.isNil(be.Y) || t.varOf(be.X) != errVar || errVar == nil {
		return nil
	}
	r, _ := x.Body.List[0].(*ast.ReturnStmt)
	return r
}

// a call statement `lhs…, err (:=|=) f(args)` of an error-returning translated function followed by its check
func (t *dnTr) errCallStmt(as *ast.AssignStmt, check ast.Stmt, ind int, j *dnJump) ([]string, bool) {
	if len(as.Rhs) != 1 {
		return nil, false
	}
	c, ok := paren(as.Rhs[0]).(*ast.CallExpr)
	if !ok {
		return nil, false
	}
	callee, _ := t.calleeOf(c)
	if callee == nil {
		return nil, false
	}
	sig := callee.Type().(*types.Signature)
	n := sig.Results().Len()
	if n == 0 || !dnIsError(sig.Results().At(n-1).Type()) || len(as.Lhs) != n {
		return nil, false
	}
	if callee.Pkg() == nil || !strings.HasPrefix(callee.Pkg().Path(), "github.com/irai/packet") {
		return nil, false
	}
	errVar := t.rootVar(as.Lhs[n-1])
	ret := t.errCheck(check, errVar)
	if ret == nil {
		t.refuse(as, "call of %s is not followed by `if err != nil { return … }`", callee.Name())
	}
	if j.inLoop && false {
		return nil, false
	}
	var b lpBinds
	if len(ret.Results) == 0 {
		t.refuse(ret, "bare return")
	}
	var rb lpBinds
	_, isNil, passes := t.errExpr(ret.Results[len(ret.Results)-1], errVar, &rb)
	if isNil || !passes || len(rb.lines) > 0 {
		t.refuse(ret, "the error check after %s must pass the error on (err or fmt.Errorf(\"… %%w\", err))", callee.Name())
	}
	for _, r := range ret.Results[:len(ret.Results)-1] {
		var vb lpBinds
		if t.isNil(r) {
			continue
		}
		t.expr(r, &vb)
		if len(vb.lines) > 0 {
			t.refuse(ret, "the values returned with the error can panic")
		}
	}
	t.dg.assume["errValuesDropped"] = true
	inouts, call := t.callBind(c, &b, true)
	pats := append([]string{}, inouts...)
	var post []string
	for _, l := range as.Lhs[:n-1] {
		id, ok := paren(l).(*ast.Ident)
		if !ok {
			t.refuse(as, "call result target %s", nodeText(l))
		}
		if id.Name == "_" {
			pats = append(pats, "_")
			continue
		}
		v := t.varOf(id)
		if v == nil || !t.isLocal(v) || t.leanTy(v.Type()) == "" {
			t.refuse(as, "call result target %s", id.Name)
		}
		pats = append(pats, lpName(v.Name()))
	}
	lines := lpPut(nil, ind, &b)
	pat := lpTuple(pats)
	if len(pats) == 0 {
		pat = "_"
	}
	lines = append(lines, lpInd(ind)+"let "+pat+" ← "+call)
	return append(lines, post...), true
}

func (t *dnTr) dsimple(s ast.Stmt, b *lpBinds) {
	switch x := s.(type) {
	case *ast.DeclStmt:
		gd, ok := x.Decl.(*ast.GenDecl)
		if ok && gd.Tok == token.VAR {
			all := true
			for _, sp := range gd.Specs {
				if len(sp.(*ast.ValueSpec).Values) != 0 {
					all = false
				}
			}
			if all {
				for _, sp := range gd.Specs {
					for _, id := range sp.(*ast.ValueSpec).Names {
						v := t.info.Defs[id].(*types.Var)
						lt := t.leanTy(v.Type())
						if lt == "" || lt == "GLine" {
							t.refuse(s, "variable of type %s", v.Type())
						}
						if lt == "Bytes" {
							t.dg.assume["nilIsEmpty"] = true
						}
						b.add(fmt.Sprintf("let %s : %s := %s", lpName(v.Name()), lt, dnZero(lt)))
					}
				}
				return
			}
		}
	case *ast.ExprStmt:
		if c, ok := t.isLogCall(s); ok {
			t.dg.assume["logsDropped"] = true
			for _, a := range c.Args {
				t.logArg(a, b)
			}
			return
		}
		if c, ok := paren(x.X).(*ast.CallExpr); ok {
			callee, _ := t.calleeOf(c)
			if callee != nil && dnQual(callee) == "encoding/binary.bigEndian.PutUint16" {
				t.putU16(c, b)
				return
			}
		}
	case *ast.AssignStmt:
		if t.dassign(x, b) {
			return
		}
	}
	t.simple(s, b)
}

// binary.BigEndian.PutUint16(X[lo:hi], v) on a local slice X
func (t *dnTr) putU16(c *ast.CallExpr, b *lpBinds) {
	dst, ok := paren(c.Args[0]).(*ast.SliceExpr)
	if !ok || dst.Slice3 {
		t.refuse(c, "PutUint16 destination must be X[lo:hi]")
	}
	v := t.varOf(dst.X)
	if v == nil || !t.isLocal(v) || !lpIsBytes(v.Type()) {
		t.refuse(c, "PutUint16 destination %s", nodeText(dst.X))
	}
	t.noteMutated(v)
	base := lpName(v.Name())
	lo := "(0 : Int)"
	if dst.Low != nil {
		lo = t.intExpr(dst.Low, b)
	}
	hi := "(" + base + ".length : Int)"
	if dst.High != nil {
		hi = t.intExpr(dst.High, b)
	}
	val := t.expr(c.Args[1], b)
	s, p, n := t.tmp(), t.tmp(), t.tmp()
	b.add(fmt.Sprintf("let %s ← sliceI %s %s %s", s, base, lo, hi))
	b.add(fmt.Sprintf("let %s ← putU16 %s %s", p, s, val))
	b.add(fmt.Sprintf("let (%s, _) ← copyI %s %s %s %s", n, base, lo, hi, p))
	b.add(fmt.Sprintf("let %s : Bytes := %s", base, n))
}

// the assignment forms of this translator; false: the base translator's
func (t *dnTr) dassign(x *ast.AssignStmt, b *lpBinds) bool {
	// v, ok := m[k]  /  a, ok := netip.AddrFromSlice(x)
	if len(x.Lhs) == 2 && len(x.Rhs) == 1 {
		names := make([]string, 2)
		for i, l := range x.Lhs {
			id, ok := paren(l).(*ast.Ident)
			if !ok {
				t.refuse(x, "multiple assignment target")
			}
			names[i] = "_"
			if id.Name != "_" {
				v := t.varOf(id)
				if v == nil || !t.isLocal(v) || t.leanTy(v.Type()) == "" {
					t.refuse(x, "assignment target %s", id.Name)
				}
				names[i] = lpName(v.Name())
			}
		}
		switch r := paren(x.Rhs[0]).(type) {
		case *ast.IndexExpr:
			if _, isMap := t.info.TypeOf(r.X).Underlying().(*types.Map); isMap {
				m := t.expr(r.X, b)
				k := t.expr(r.Index, b)
				if names[0] != "_" {
					t.refuse(x, "the value of a map lookup with ok")
				}
				if names[1] != "_" {
					b.add(fmt.Sprintf("let %s : Bool := mapHas %s %s", names[1], m, k))
				}
				return true
			}
		case *ast.CallExpr:
			callee, _ := t.calleeOf(r)
			if dnQual(callee) == "net/netip.AddrFromSlice" {
				t.dg.externs["netip.AddrFromSlice → LoopGoDns.addrFromSlice"] = true
				a := t.expr(r.Args[0], b)
				b.add(fmt.Sprintf("let (%s, %s) := addrFromSlice %s", names[0], names[1], a))
				return true
			}
		}
		t.refuse(x, "multiple assignment")
	}
	if len(x.Lhs) != 1 || len(x.Rhs) != 1 {
		return false
	}
	lhs := paren(x.Lhs[0])
	switch l := lhs.(type) {
	case *ast.StarExpr:
		v := t.varOf(l.X)
		if v == nil || !t.ptrBytes[v] || x.Tok != token.ASSIGN {
			t.refuse(x, "store through %s", nodeText(lhs))
		}
		val := t.expr(x.Rhs[0], b)
		b.add(fmt.Sprintf("let %s : Bytes := %s", lpName(v.Name()), val))
		return true
	case *ast.SelectorExpr:
		if sel, ok := t.info.Selections[l]; ok && sel.Kind() == types.FieldVal && x.Tok == token.ASSIGN {
			v := t.varOf(l.X)
			bt := ""
			if v != nil && t.isLocal(v) {
				bt = t.leanTy(v.Type())
			}
			if strings.HasPrefix(bt, "G") && bt != "GLine" && bt != "GAddr" {
				val := t.expr(x.Rhs[0], b)
				n := lpName(v.Name())
				b.add(fmt.Sprintf("let %s : %s := { %s with %s := %s }", n, bt, n, lpName(l.Sel.Name), val))
				t.recvStore(v, b)
				return true
			}
		}
	case *ast.IndexExpr:
		if _, isMap := t.info.TypeOf(l.X).Underlying().(*types.Map); isMap && x.Tok == token.ASSIGN {
			val := t.expr(x.Rhs[0], b)
			k := t.expr(l.Index, b)
			n := t.tmp()
			switch mx := paren(l.X).(type) {
			case *ast.Ident:
				v := t.varOf(mx)
				if v == nil || !t.isLocal(v) {
					t.refuse(x, "map %s", mx.Name)
				}
				b.add(fmt.Sprintf("let %s ← mapSet %s %s %s", lpName(v.Name()), lpName(v.Name()), k, val))
				return true
			case *ast.SelectorExpr:
				v := t.varOf(mx.X)
				if v == nil || !t.isLocal(v) {
					t.refuse(x, "map %s", nodeText(mx))
				}
				bt := t.leanTy(v.Type())
				vn := lpName(v.Name())
				b.add(fmt.Sprintf("let %s ← mapSet %s.%s %s %s", n, vn, lpName(mx.Sel.Name), k, val))
				b.add(fmt.Sprintf("let %s : %s := { %s with %s := %s }", vn, bt, vn, lpName(mx.Sel.Name), n))
				t.recvStore(v, b)
				return true
			}
			t.refuse(x, "map store %s", nodeText(lhs))
		}
	}
	return false
}

func (t *dnTr) hasJumpD(n ast.Node) bool {
	found := false
	ast.Inspect(n, func(y ast.Node) bool {
		switch y.(type) {
		case *ast.ReturnStmt, *ast.BranchStmt:
			found = true
		case *ast.FuncLit:
			return false
		}
		return true
	})
	return found
}

func (t *dnTr) hasLoop(n ast.Node) bool {
	found := false
	ast.Inspect(n, func(y ast.Node) bool {
		switch y.(type) {
		case *ast.ForStmt, *ast.RangeStmt:
			found = true
		}
		return true
	})
	return found
}

func (t *dnTr) retStmt(x *ast.ReturnStmt, ind int, j *dnJump) []string {
	fn := t.dfn
	var b lpBinds
	want := len(fn.resTys)
	if fn.hasErr {
		want++
	}
	if len(x.Results) == 1 && want > 1 {
		// return f(args): the callee's results are this function's
		if c, ok := paren(x.Results[0]).(*ast.CallExpr); ok {
			if callee, _ := t.calleeOf(c); callee != nil && callee.Pkg() != nil && strings.HasPrefix(callee.Pkg().Path(), "github.com/irai/packet") {
				sig := callee.Type().(*types.Signature)
				if sig.Results().Len() == want && dnIsError(sig.Results().At(want-1).Type()) == fn.hasErr {
					if j.inLoop {
						t.refuse(x, "return of a value inside a loop (only error returns are supported there)")
					}
					inouts, call := t.callBind(c, &b, true)
					var pats []string
					for i := range fn.resTys {
						pats = append(pats, fmt.Sprintf("r%d", i+1))
					}
					lines := lpPut(nil, ind, &b)
					lines = append(lines, lpInd(ind)+"let "+lpTuple(append(append([]string{}, inouts...), pats...))+" ← "+call)
					var names []string
					for i, p := range fn.params {
						if fn.inout[i] {
							names = append(names, lpName(p.Name()))
						}
					}
					return append(lines, lpInd(ind)+"pure "+lpTuple(append(names, pats...)))
				}
			}
		}
	}
	if len(x.Results) != want {
		t.refuse(x, "return with %d values (bare returns are not supported)", len(x.Results))
	}
	var names []string
	for i, p := range fn.params {
		if fn.inout[i] {
			names = append(names, lpName(p.Name()))
		}
	}
	vals := x.Results
	if fn.hasErr {
		vals = x.Results[:len(x.Results)-1]
	}
	for i, r := range vals {
		if t.isNil(r) {
			// an untyped nil takes the declared result type
			if fn.resTys[i] == "Bytes" {
				t.dg.assume["nilIsEmpty"] = true
			}
			names = append(names, dnZero(fn.resTys[i]))
			continue
		}
		names = append(names, t.expr(r, &b))
	}
	lines := lpPut(nil, ind, &b)
	if fn.hasErr {
		var eb lpBinds
		term, isNil, passes := t.errExpr(x.Results[len(x.Results)-1], nil, &eb)
		if passes {
			t.refuse(x, "internal: error variable")
		}
		if !isNil {
			t.dg.assume["errValuesDropped"] = true
			lines = lpPut(lines, ind, &eb)
			return append(lines, lpInd(ind)+"Outcome.err "+term)
		}
	}
	if j.inLoop {
		t.refuse(x, "return of a value inside a loop (only error returns are supported there)")
	}
	return append(lines, lpInd(ind)+"pure "+lpTuple(names))
}

func (t *dnTr) dblock(stmts []ast.Stmt, ind int, j *dnJump, k lpKont) []string {
	if len(stmts) == 0 {
		return k(ind)
	}
	s, rest := stmts[0], stmts[1:]
	restK := func(ind int) []string { return t.dblock(rest, ind, j, k) }
	var lines []string
	switch x := s.(type) {
	case *ast.BlockStmt:
		return t.dblock(append(append([]ast.Stmt{}, x.List...), rest...), ind, j, k)
	case *ast.LabeledStmt:
		switch x.Stmt.(type) {
		case *ast.ForStmt, *ast.RangeStmt:
			t.labelOf[x.Stmt] = x.Label.Name
			return t.dblock(append([]ast.Stmt{x.Stmt}, rest...), ind, j, k)
		}
		t.refuse(s, "label on a non-loop statement")
	case *ast.ReturnStmt:
		return t.retStmt(x, ind, j)
	case *ast.BranchStmt:
		var tgt *dnLoopJ
		if x.Label != nil {
			tgt = j.labels[x.Label.Name]
			if tgt == nil {
				t.refuse(s, "label %s", x.Label.Name)
			}
		} else {
			tgt = &dnLoopJ{brk: j.brk, cont: j.cont}
		}
		switch x.Tok {
		case token.BREAK:
			if tgt.brk == nil {
				t.refuse(s, "break outside a loop or switch")
			}
			return tgt.brk(ind)
		case token.CONTINUE:
			if tgt.cont == nil {
				t.refuse(s, "continue outside a loop")
			}
			return tgt.cont(ind)
		}
		t.refuse(s, "branch statement %s", x.Tok)
	case *ast.AssignStmt:
		if len(rest) > 0 {
			if ls, ok := t.errCallStmt(x, rest[0], ind, j); ok {
				return append(ls, t.dblock(rest[1:], ind, j, k)...)
			}
		} else if ls, ok := t.errCallStmt(x, nil, ind, j); ok {
			return append(ls, k(ind)...)
		}
	case *ast.IfStmt:
		if t.isDebugIf(x) {
			t.dg.assume["logsDropped"] = true
			return restK(ind)
		}
		// if err := f(…); err != nil { return …, err }
		if as, ok := x.Init.(*ast.AssignStmt); ok {
			chk := &ast.IfStmt{If: x.If, Cond: x.Cond, Body: x.Body, Else: x.Else}
			if ls, ok := t.errCallStmt(as, chk, ind, j); ok {
				return append(ls, restK(ind)...)
			}
		}
		return t.difStmt(x, rest, ind, j, k)
	case *ast.SwitchStmt:
		return t.dswitch(x, rest, ind, j, k)
	case *ast.ForStmt:
		cl := t.dfor(x, j)
		for _, l := range cl {
			lines = append(lines, lpInd(ind)+l)
		}
		return append(lines, restK(ind)...)
	case *ast.RangeStmt:
		cl := t.drange(x, j)
		for _, l := range cl {
			lines = append(lines, lpInd(ind)+l)
		}
		return append(lines, restK(ind)...)
	}
	var b lpBinds
	t.dsimple(s, &b)
	lines = lpPut(lines, ind, &b)
	return append(lines, restK(ind)...)
}

func (t *dnTr) difStmt(x *ast.IfStmt, rest []ast.Stmt, ind int, j *dnJump, k lpKont) []string {
	var lines []string
	els := lpElse(x)
	restK := func(ind int) []string { return t.dblock(rest, ind, j, k) }
	if !t.hasJumpD(x) && !t.hasLoop(x) {
		as := t.assigned(x)
		var outs []*types.Var
		for _, v := range lpSorted(as) {
			if !lpInside(v, x) && !dnIsError(v.Type()) {
				outs = append(outs, v)
			}
		}
		pat := lpTuple(lpNames(outs))
		if len(outs) == 0 {
			pat = "_"
		}
		final := func(ind int) []string { return []string{lpInd(ind) + "pure " + lpTuple(lpNames(outs))} }
		var b lpBinds
		if x.Init != nil {
			t.dsimple(x.Init, &b)
		}
		c := t.cond(x.Cond, &b)
		lines = append(lines, lpInd(ind)+"let "+pat+" ← (do")
		lines = lpPut(lines, ind+4, &b)
		lines = append(lines, lpInd(ind+4)+"if "+c+" then do")
		lines = append(lines, t.dblock(x.Body.List, ind+6, j, final)...)
		lines = append(lines, lpInd(ind+4)+"else do")
		lines = append(lines, t.dblock(els, ind+6, j, final)...)
		lines[len(lines)-1] += ")"
		return append(lines, restK(ind)...)
	}
	var b lpBinds
	if x.Init != nil {
		t.dsimple(x.Init, &b)
	}
	c := t.cond(x.Cond, &b)
	lines = lpPut(lines, ind, &b)
	lines = append(lines, lpInd(ind)+"if "+c+" then do")
	lines = append(lines, t.dblock(x.Body.List, ind+2, j, restK)...)
	lines = append(lines, lpInd(ind)+"else do")
	lines = append(lines, t.dblock(els, ind+2, j, restK)...)
	return lines
}

func (t *dnTr) dswitch(x *ast.SwitchStmt, rest []ast.Stmt, ind int, j *dnJump, k lpKont) []string {
	if x.Tag == nil {
		t.refuse(x, "switch without a tag")
	}
	restK := func(ind int) []string { return t.dblock(rest, ind, j, k) }
	var b lpBinds
	if x.Init != nil {
		t.dsimple(x.Init, &b)
	}
	lt := t.tyOf(x.Tag)
	if lt != "Int" && lpWidth(lt) == 0 {
		t.refuse(x, "switch on a value of type %s", lt)
	}
	t.nsw++
	sw := fmt.Sprintf("sw%d", t.nsw)
	tag := t.expr(x.Tag, &b)
	lines := lpPut(nil, ind, &b)
	lines = append(lines, fmt.Sprintf("%slet %s : %s := %s", lpInd(ind), sw, lt, tag))
	var def *ast.CaseClause
	js := j.with(restK, nil, false)
	first := true
	for _, cs := range x.Body.List {
		cc := cs.(*ast.CaseClause)
		if cc.List == nil {
			def = cc
			continue
		}
		var alts []string
		for _, ce := range cc.List {
			n, ok := t.constInt(ce)
			if !ok {
				t.refuse(ce, "non-constant case")
			}
			alts = append(alts, fmt.Sprintf("%s = %s", sw, lpLit(n, lt)))
		}
		for _, st := range cc.Body {
			if bs, ok := st.(*ast.BranchStmt); ok && bs.Tok == token.FALLTHROUGH {
				t.refuse(st, "fallthrough")
			}
		}
		kw := "else if "
		if first {
			kw = "if "
			first = false
		}
		lines = append(lines, lpInd(ind)+kw+"("+strings.Join(alts, " ∨ ")+") then do")
		lines = append(lines, t.dblock(cc.Body, ind+2, js, restK)...)
	}
	var body []ast.Stmt
	if def != nil {
		body = def.Body
	}
	if first {
		return append(lines, t.dblock(body, ind, js, restK)...)
	}
	lines = append(lines, lpInd(ind)+"else do")
	return append(lines, t.dblock(body, ind+2, js, restK)...)
}

// the loop function: carried variables, read-only parameters, the recursive call as first parameter of a recursive function
func (t *dnTr) dloopFn(node ast.Stmt, cond ast.Expr, body []ast.Stmt, post ast.Stmt, extraCarried []*types.Var, synth []string, synthHead func(ind int) []string, synthPost func(ind int) []string, fuel string, j *dnJump) []string {
	t.nloop++
	name := fmt.Sprintf("%s_loop%d", t.dfn.lean, t.nloop)
	as := t.assigned(node)
	carriedSet := map[*types.Var]bool{}
	for v := range as {
		if !dnIsError(v.Type()) {
			carriedSet[v] = true
		}
	}
	for _, v := range extraCarried {
		carriedSet[v] = true
	}
	var carried, outs []*types.Var
	for _, v := range lpSorted(carriedSet) {
		isExtra := false
		for _, e := range extraCarried {
			if e == v {
				isExtra = true
			}
		}
		if lpInside(v, node) && !isExtra {
			continue
		}
		carried = append(carried, v)
		if !lpInside(v, node) {
			outs = append(outs, v)
		}
	}
	var params []*types.Var
	for _, v := range lpSorted(t.used(node)) {
		if !lpInside(v, node) && !carriedSet[v] && !dnIsError(v.Type()) {
			params = append(params, v)
		}
	}
	for _, v := range append(append([]*types.Var{}, carried...), params...) {
		if t.leanTy(v.Type()) == "" {
			t.refuse(node, "loop uses variable %s of unsupported type %s", v.Name(), v.Type())
		}
	}
	saved := t.loops
	t.loops = nil
	t.inLoopFn++
	oraclesBefore := len(t.dfn.oracles)
	_ = oraclesBefore
	var argTys, pats, wild []string
	for _, s := range synth {
		argTys = append(argTys, "Int")
		pats = append(pats, s)
		wild = append(wild, "_")
	}
	for _, v := range carried {
		argTys = append(argTys, t.leanTy(v.Type()))
		pats = append(pats, lpName(v.Name()))
		wild = append(wild, "_")
	}
	resTy := t.tupleTy(outs)
	if len(outs) > 1 {
		resTy = "(" + resTy + ")"
	}
	exit := func(ind int) []string { return []string{lpInd(ind) + "pure " + lpTuple(lpNames(outs))} }
	// the head (oracles, rec, params) is only known after the body is translated (oracles are discovered there)
	const headMark = "\x00HEAD\x00"
	again := func(ind int) []string {
		var b lpBinds
		if post != nil {
			t.dsimple(post, &b)
		}
		ls := lpPut(nil, ind, &b)
		if synthPost != nil {
			ls = append(ls, synthPost(ind)...)
		}
		return append(ls, lpInd(ind)+strings.Join(strings.Fields(name+" "+headMark+" fuel "+strings.Join(pats, " ")), " "))
	}
	// jumps to an outer loop from inside this loop function would have to leave it: not supported
	labels := map[string]*dnLoopJ{}
	for l := range j.labels {
		labels[l] = &dnLoopJ{}
	}
	if l, ok := t.labelOf[node]; ok {
		labels[l] = &dnLoopJ{brk: exit, cont: again}
	}
	jl := &dnJump{brk: exit, cont: again, labels: labels, inLoop: true}
	var fl []string
	fl = append(fl, "  | "+strings.Join(append([]string{"0"}, wild...), ", ")+" => .hang")
	fl = append(fl, "  | "+strings.Join(append([]string{"fuel + 1"}, pats...), ", ")+" => do")
	if cond != nil || synthHead != nil {
		var b lpBinds
		c := ""
		if cond != nil {
			c = t.cond(cond, &b)
		}
		fl = lpPut(fl, 4, &b)
		if synthHead != nil {
			fl = append(fl, synthHead(4)...)
		} else {
			fl = append(fl, lpInd(4)+"if "+c+" then do")
		}
		fl = append(fl, t.dblock(body, 6, jl, again)...)
		fl = append(fl, lpInd(4)+"else do")
		fl = append(fl, exit(6)...)
	} else {
		fl = append(fl, t.dblock(body, 4, jl, again)...)
	}
	t.inLoopFn--
	var sig, head []string
	for _, o := range t.dfn.oracles {
		sig = append(sig, fmt.Sprintf("(%s : %s)", o, dnOracleTy[o]))
		head = append(head, o)
	}
	if t.selfRec {
		sig = append(sig, "(rec : "+t.recTy()+")")
		head = append(head, "rec")
	}
	for _, v := range params {
		sig = append(sig, fmt.Sprintf("(%s : %s)", lpName(v.Name()), t.leanTy(v.Type())))
		head = append(head, lpName(v.Name()))
	}
	text := fmt.Sprintf("def %s %s : Nat%s → %s %s\n", name, strings.Join(sig, " "), lpArrow(argTys), t.monadTy(), resTy) + strings.Join(fl, "\n") + "\n"
	text = strings.ReplaceAll(text, headMark, strings.Join(head, " "))
	inner := t.loops
	t.loops = append(append(saved, inner...), text)
	t.dg.fuels = append(t.dg.fuels, fmt.Sprintf("(%q, %q)", name, fuel))
	pat := lpTuple(lpNames(outs))
	if len(outs) == 0 {
		pat = "_"
	}
	callHead := append([]string{}, head...)
	if t.selfRec {
		for i, h := range callHead {
			if h == "rec" {
				if t.inLoopFn > 0 {
					callHead[i] = "rec"
				} else {
					callHead[i] = "(" + strings.TrimSpace(t.dfn.recName+" "+strings.Join(t.dfn.oracles, " ")) + " fuel)"
				}
			}
		}
	}
	call := strings.Join(strings.Fields(fmt.Sprintf("%s %s (%s) %s", name, strings.Join(callHead, " "), fuel, strings.Join(pats, " "))), " ")
	return []string{"let " + pat + " ← " + call}
}

var dnOracleTy = map[string]string{"parseIP": "Bytes → Bytes"}

func (t *dnTr) recTy() string {
	var tys []string
	for _, ty := range t.dfn.ptys {
		tys = append(tys, ty)
	}
	return strings.Join(append(tys, t.monadTy()+" "+t.dfn.resTy), " → ")
}

func (t *dnTr) dfor(x *ast.ForStmt, j *dnJump) []string {
	var lines []string
	var b lpBinds
	var initVars []*types.Var
	if x.Init != nil {
		a, ok := x.Init.(*ast.AssignStmt)
		if !ok || a.Tok != token.DEFINE || len(a.Lhs) != 1 {
			t.refuse(x, "for-init must be a single `i := e`")
		}
		t.dsimple(x.Init, &b)
		initVars = append(initVars, t.info.Defs[a.Lhs[0].(*ast.Ident)].(*types.Var))
	}
	lines = lpPut(lines, 0, &b)
	if x.Cond == nil {
		t.refuse(x, "loop without a condition: no termination measure")
	}
	fuel := t.idxFuel(x)
	if fuel == "" {
		fuel = t.fuelOf(x)
	}
	return append(lines, t.dloopFn(x, x.Cond, x.Body.List, x.Post, initVars, nil, nil, nil, fuel, j)...)
}

// `for cond` whose condition reads s[i]: the measure len(s) − i
func (t *dnTr) idxFuel(x *ast.ForStmt) string {
	if x.Post != nil || x.Init != nil {
		return ""
	}
	as := t.assigned(x.Body)
	res := ""
	ast.Inspect(x.Cond, func(n ast.Node) bool {
		ie, ok := n.(*ast.IndexExpr)
		if !ok || res != "" {
			return true
		}
		s, i := t.varOf(ie.X), t.varOf(ie.Index)
		if s == nil || i == nil || !t.isLocal(s) || !t.isLocal(i) || as[s] || !lpIsBytes(s.Type()) || t.leanTy(i.Type()) != "Int" {
			return true
		}
		res = fmt.Sprintf("((%s.length : Int) - %s).toNat + 1", lpName(s.Name()), lpName(i.Name()))
		return true
	})
	return res
}

// `for i := range s` (key only): for i := 0; i < len(s); i++
func (t *dnTr) drange(x *ast.RangeStmt, j *dnJump) []string {
	if x.Tok != token.DEFINE || x.Value != nil || x.Key == nil {
		t.refuse(x, "range form (only `for i := range x`)")
	}
	xv := t.varOf(x.X)
	if xv == nil || !t.isLocal(xv) || !lpIsBytes(xv.Type()) {
		t.refuse(x, "range over %s (only a local byte slice)", nodeText(x.X))
	}
	if _, isStr := xv.Type().Underlying().(*types.Basic); isStr {
		t.refuse(x, "range over a string (runes)")
	}
	if t.assigned(x.Body)[xv] && !t.writtenOnlyInPlace(x.Body, xv) {
		t.refuse(x, "the ranged slice is re-assigned in the loop")
	}
	kv, ok := t.info.Defs[x.Key.(*ast.Ident)].(*types.Var)
	if !ok {
		t.refuse(x, "range key")
	}
	if t.assigned(x.Body)[kv] {
		t.refuse(x, "the range key is assigned in the loop")
	}
	kn, xs := lpName(kv.Name()), lpName(xv.Name())
	head := func(ind int) []string {
		return []string{lpInd(ind) + fmt.Sprintf("if (%s < (%s.length : Int)) then do", kn, xs)}
	}
	post := func(ind int) []string {
		return []string{lpInd(ind) + fmt.Sprintf("let %s : Int := (%s + (1 : Int))", kn, kn)}
	}
	lines := []string{fmt.Sprintf("let %s : Int := (0 : Int)", kn)}
	fuel := fmt.Sprintf("%s.length + 1", xs)
	return append(lines, t.dloopFn(x, nil, x.Body.List, nil, []*types.Var{kv}, nil, head, post, fuel, j)...)
}

func (t *dnTr) writtenOnlyInPlace(n ast.Node, v *types.Var) bool {
	ok := true
	ast.Inspect(n, func(x ast.Node) bool {
		if s, isA := x.(*ast.AssignStmt); isA {
			for _, l := range s.Lhs {
				if id, isId := paren(l).(*ast.Ident); isId && t.varOf(id) == v {
					ok = false
				}
			}
		}
		return true
	})
	return ok
}

// ---- functions ----

// genDecodeName, genDNSEntry_decodeRRs
func dnLeanFn(f *types.Func) string {
	if f.Type().(*types.Signature).Recv() != nil {
		return lpLeanFn(f)
	}
	return "gen" + strings.ToUpper(f.Name()[:1]) + f.Name()[1:]
}

func (g *dnGen) translate(f *types.Func) (res *dnFunc, why string) {
	if r, ok := g.done[f]; ok {
		return r, ""
	}
	if w, ok := g.refused[f]; ok {
		return nil, w
	}
	if g.busy[f] {
		return nil, "mutual recursion"
	}
	p, fd := g.lp.findDecl(f)
	if fd == nil || fd.Body == nil {
		w := "no source in the loaded packages (standard library or external)"
		g.refused[f] = w
		return nil, w
	}
	g.busy[f] = true
	defer func() {
		delete(g.busy, f)
		if r := recover(); r != nil {
			ref, ok := r.(lpRefusal)
			if !ok {
				panic(r)
			}
			g.refused[f] = ref.msg
			res, why = nil, ref.msg
		}
	}()
	base := &lpTr{g: g.lp, p: p, info: p.TypesInfo, fd: fd, cache: map[ast.Node][]string{}}
	t := &dnTr{lpTr: base, dg: g, ptrBytes: map[*types.Var]bool{}, labelOf: map[ast.Stmt]string{}}
	base.dnsTy, base.dnsExpr, base.dnsRoot, base.dnsCond, base.dnsCallAssigns = t.xTy, t.xExpr, t.xRoot, t.xCond, t.xCallAssigns
	fn := &dnFunc{f: f, key: lpFuncKey(f), lean: dnLeanFn(f)}
	t.dfn = fn
	base.fn = &lpFunc{key: fn.key, lean: fn.lean}
	sig := f.Type().(*types.Signature)
	t.checkShadowNoErr()
	if sig.Variadic() {
		t.refuse(fd, "variadic")
	}
	if r := sig.Recv(); r != nil {
		t.recv = r
		fn.params = append(fn.params, r)
		t.recvInit(r)
	}
	for i := 0; i < sig.Params().Len(); i++ {
		fn.params = append(fn.params, sig.Params().At(i))
	}
	as := t.assigned(fd.Body)
	for _, v := range fn.params {
		lt := t.leanTy(v.Type())
		if lt == "" || lt == "GLine" {
			t.refuse(fd, "parameter %s of type %s", v.Name(), v.Type())
		}
		if v.Name() == "_" || v.Name() == "" {
			t.refuse(fd, "unnamed parameter")
		}
		io := false
		if _, ptr := v.Type().(*types.Pointer); ptr {
			io = true
			if lt == "Bytes" {
				t.ptrBytes[v] = true
			}
		} else if lt == "Bytes" && as[v] && t.writtenInPlace(fd.Body, v) {
			io = true
			base.fn.mutated = append(base.fn.mutated, v)
		} else if lt == "Bytes" && t.putTarget(fd.Body, v) {
			io = true
			base.fn.mutated = append(base.fn.mutated, v)
		}
		fn.inout = append(fn.inout, io)
		fn.ptys = append(fn.ptys, lt)
	}
	var resTys []string
	for i, v := range fn.params {
		if fn.inout[i] {
			resTys = append(resTys, fn.ptys[i])
			_ = v
		}
	}
	var named []*types.Var
	for i := 0; i < sig.Results().Len(); i++ {
		r := sig.Results().At(i)
		if dnIsError(r.Type()) {
			if i != sig.Results().Len()-1 {
				t.refuse(fd, "an error result that is not the last result")
			}
			fn.hasErr = true
			continue
		}
		lt := t.leanTy(r.Type())
		if lt == "" || lt == "GLine" {
			t.refuse(fd, "result of type %s", r.Type())
		}
		fn.resTys = append(fn.resTys, lt)
		resTys = append(resTys, lt)
		if r.Name() != "" && r.Name() != "_" {
			named = append(named, r)
		}
	}
	switch len(resTys) {
	case 0:
		fn.resTy = "Unit"
	case 1:
		fn.resTy = resTys[0]
	default:
		fn.resTy = "(" + strings.Join(resTys, " × ") + ")"
	}
	// direct recursion and its measure
	levelIdx, levelK := -1, int64(0)
	ast.Inspect(fd.Body, func(n ast.Node) bool {
		if c, ok := n.(*ast.CallExpr); ok {
			if callee, _ := t.calleeOf(c); callee == f {
				t.selfRec = true
			}
		}
		return true
	})
	if t.selfRec {
		fn.recName = fn.lean + "_rec"
		levelIdx, levelK = t.recMeasure(fd, f, fn)
	}
	end := func(ind int) []string {
		if len(fn.resTys) > 0 || fn.hasErr {
			t.refuse(fd, "function can fall off its end")
		}
		return t.retStmt(&ast.ReturnStmt{}, ind, &dnJump{labels: map[string]*dnLoopJ{}})
	}
	var pre []string
	for _, r := range named {
		lt := t.leanTy(r.Type())
		pre = append(pre, fmt.Sprintf("let %s : %s := %s", lpName(r.Name()), lt, dnZero(lt)))
	}
	bodyInd := 2
	if t.selfRec {
		bodyInd = 4
	}
	var body []string
	if t.stVar != nil {
		body = append(body, lpInd(bodyInd)+"putRecv "+lpName(t.stVar.Name()))
	}
	for _, l := range pre {
		body = append(body, lpInd(bodyInd)+l)
	}
	body = append(body, t.dblock(fd.Body.List, bodyInd, &dnJump{labels: map[string]*dnLoopJ{}}, end)...)
	pos := p.Fset.Position(fd.Pos())
	var sb strings.Builder
	for _, l := range t.loops {
		sb.WriteString(l + "\n")
	}
	var osig []string
	for _, o := range fn.oracles {
		osig = append(osig, fmt.Sprintf("(%s : %s)", o, dnOracleTy[o]))
	}
	var psig, pnames, wild []string
	for i, v := range fn.params {
		psig = append(psig, fmt.Sprintf("(%s : %s)", lpName(v.Name()), fn.ptys[i]))
		pnames = append(pnames, lpName(v.Name()))
		wild = append(wild, "_")
	}
	doc := fmt.Sprintf("/-- Go: func %s (%s:%d)", fn.key, filepath.Base(pos.Filename), pos.Line)
	if t.selfRec {
		fmt.Fprintf(&sb, "%s — the recursive body on a fuel argument -/\n", doc)
		fmt.Fprintf(&sb, "def %s %s : Nat%s → %s %s\n", fn.recName, strings.Join(osig, " "), lpArrow(fn.ptys), t.monadTy(), fn.resTy)
		fmt.Fprintf(&sb, "  | %s => .hang\n", strings.Join(append([]string{"0"}, wild...), ", "))
		fmt.Fprintf(&sb, "  | %s => do\n", strings.Join(append([]string{"fuel + 1"}, pnames...), ", "))
		sb.WriteString(strings.Join(body, "\n") + "\n\n")
		fuel := fmt.Sprintf("((%d : Int) - %s).toNat + 2", levelK, lpName(fn.params[levelIdx].Name()))
		g.fuels = append(g.fuels, fmt.Sprintf("(%q, %q)", fn.recName, fuel))
		fmt.Fprintf(&sb, "%s -/\n", doc)
		fmt.Fprintf(&sb, "def %s %s : %s %s :=\n  %s\n", fn.lean, strings.Join(append(osig, psig...), " "), t.monadTy(), fn.resTy,
			strings.Join(strings.Fields(fmt.Sprintf("%s %s (%s) %s", fn.recName, strings.Join(fn.oracles, " "), fuel, strings.Join(pnames, " "))), " "))
	} else {
		fmt.Fprintf(&sb, "%s -/\n", doc)
		fmt.Fprintf(&sb, "def %s %s : %s %s := do\n", fn.lean, strings.Join(append(osig, psig...), " "), t.monadTy(), fn.resTy)
		sb.WriteString(strings.Join(body, "\n") + "\n")
	}
	fn.text = sb.String()
	g.done[f] = fn
	g.order = append(g.order, fn)
	return fn, ""
}

// a byte-slice parameter that is the destination of binary.BigEndian.PutUint16(p[lo:hi], v)
func (t *dnTr) putTarget(n ast.Node, v *types.Var) bool {
	found := false
	ast.Inspect(n, func(x ast.Node) bool {
		if c, ok := x.(*ast.CallExpr); ok {
			if callee, _ := t.calleeOf(c); callee != nil && dnQual(callee) == "encoding/binary.bigEndian.PutUint16" && len(c.Args) == 2 && t.rootVar(c.Args[0]) == v {
				found = true
			}
		}
		return true
	})
	return found
}

// the measure of a directly recursive function: the first statement is `if level > K { return … }` (possibly the head
// of an else-if chain) and every recursive call passes level + c (c ≥ 1) in that position
func (t *dnTr) recMeasure(fd *ast.FuncDecl, f *types.Func, fn *dnFunc) (int, int64) {
	if len(fd.Body.List) == 0 {
		t.refuse(fd, "recursive function without a guard")
	}
	ifs, ok := fd.Body.List[0].(*ast.IfStmt)
	if !ok || ifs.Init != nil || !lpTerminates(ifs.Body.List) {
		t.refuse(fd, "recursion: the first statement is not `if level > K { return … }`")
	}
	be, ok := paren(ifs.Cond).(*ast.BinaryExpr)
	if !ok || be.Op != token.GTR {
		t.refuse(fd, "recursion: the first statement is not `if level > K { return … }`")
	}
	lv := t.varOf(be.X)
	k, isC := t.constInt(be.Y)
	idx := -1
	for i, p := range fn.params {
		if p == lv {
			idx = i
		}
	}
	if idx < 0 || !isC || t.leanTy(lv.Type()) != "Int" || t.assigned(fd.Body)[lv] {
		t.refuse(fd, "recursion: no level parameter compared with a constant")
	}
	off := 0
	if f.Type().(*types.Signature).Recv() != nil {
		off = 1
	}
	ast.Inspect(fd.Body, func(n ast.Node) bool {
		c, ok := n.(*ast.CallExpr)
		if !ok {
			return true
		}
		if callee, _ := t.calleeOf(c); callee != f {
			return true
		}
		a, ok := paren(c.Args[idx-off]).(*ast.BinaryExpr)
		if !ok || a.Op != token.ADD || t.varOf(a.X) != lv {
			t.refuse(c, "recursion: the recursive call does not pass %s + c", lv.Name())
		}
		if s, ok := t.constInt(a.Y); !ok || s < 1 {
			t.refuse(c, "recursion: the recursive call does not pass %s + c with c ≥ 1", lv.Name())
		}
		return true
	})
	return idx, k
}

// the functions of layer_dns.go the DNS models describe
var dnCandidates = []struct{ recv, name string }{
	{"", "decodeName"}, {"", "DecodeQuestion"}, {"DNSEntry", "DecodeAnswers"}, {"DNSEntry", "decodeRRs"},
	{"", "encodeName"}, {"", "EncodeDNSQuery"}, {"", "encode"}, {"", "NewDNSEntry"},
}

var dnNamingCandidates = []struct{ recv, name string }{{"", "encodeNBNSName"}, {"", "decodeNBNSName"}, {"", "parseNodeNameArray"}, {"", "processNBNSNodeStatusResponse"},
	{"DNSHandler", "ProcessNBNS"}, {"DNSHandler", "ProcessMDNS"}, {"", "processSSDPNotify"}, {"", "processSSDPSearchRequest"}, {"", "processUserAgent"}, {"", "processSSDPResponse"}, {"DNSHandler", "ProcessSSDP"}}

var dnAssumptionText = map[string]string{
	"intNoOverflow":    "Go int is modelled as an unbounded integer; every int in the translated functions is a length, an offset into the message plus a small constant, or a 16-bit field",
	"capEqLen":         "a slice expression x[lo:hi] on a byte-slice value is checked against len(x) (the length-only view of the models)",
	"noAlias":          "byte slices are values: the destination of a store, copy or append does not alias another slice that is read later (the name returned by decodeName is a sub-slice of *buffer; a later decodeName into the same backing array would overwrite it - decodeRRs copies the owner name first, which this translation cannot see; the dns.rrs / dns.answers lines of the correspondence run judge that)",
	"appendValue":      "append(x, …) is the value x ++ …: growth, capacity and the write into the caller's backing array are not represented",
	"nilIsEmpty":       "a nil byte slice and an empty one are the same value []: `x == nil` on a byte slice is `x = []` (true of every slice compared so on the translated paths: net.ParseIP and To4 return nil or 16 / 4 bytes)",
	"errValuesDropped": "the values returned next to a non-nil error are evaluated and dropped (the callers in the package return at once on err != nil; Outcome.err carries only the error class seen through errors.Is)",
	"logsDropped":      "fmt.Print* statements and `if Logger.IsDebug() { … }` blocks made only of them have no effect on the results (their arguments are still evaluated)",
	"ptrInOut":         "a *[]byte parameter is passed by value and returned; on an error return its last state is not represented (the callers drop the buffer on error)",
	"recvState":        "a pointer receiver of struct type is the state of the OutcomeS monad (Model/LoopGoDns.lean): the body keeps it in a local and writes it through (putRecv) at every field / map store, so the state left behind by an error return or a panic IS represented; maps reachable from the receiver are part of that state (a map held in another variable that aliases a receiver field is not written through - no such store on the translated paths)",
}

func loopDnsFacts(pkgs []*packages.Package, b *strings.Builder) {
	lp := &lpGen{pkgs: map[string]*packages.Package{}, done: map[*types.Func]*lpFunc{}, refused: map[*types.Func]string{}, busy: map[*types.Func]bool{}, tables: map[*types.Var]string{}}
	g := &dnGen{lp: lp, done: map[*types.Func]*dnFunc{}, refused: map[*types.Func]string{}, busy: map[*types.Func]bool{}, structs: map[*types.Named]string{},
		assume: map[string]bool{"intNoOverflow": true, "capEqLen": true, "noAlias": true, "ptrInOut": true}, externs: map[string]bool{}}
	var root *packages.Package
	for _, p := range pkgs {
		lp.pkgs[p.PkgPath] = p
		if p.PkgPath == "github.com/irai/packet" {
			root = p
		}
	}
	type cand struct {
		f   *types.Func
		key string
	}
	var cands []cand
	var missing []string
	if root != nil {
		for _, c := range dnCandidates {
			fd := findFunc(root, c.recv, c.name)
			if fd == nil {
				missing = append(missing, "packet."+c.recv+"."+c.name)
				continue
			}
			f := root.TypesInfo.Defs[fd.Name].(*types.Func)
			cands = append(cands, cand{f, lpFuncKey(f)})
		}
	}
	// candidates of handlers/dns_naming (builder M): byte-level decoders of the naming handlers
	if hp := lp.pkgs["github.com/irai/packet/handlers/dns_naming"]; hp != nil {
		for _, c := range dnNamingCandidates {
			fd := findFunc(hp, c.recv, c.name)
			if fd == nil {
				missing = append(missing, "dns_naming."+c.recv+"."+c.name)
				continue
			}
			f := hp.TypesInfo.Defs[fd.Name].(*types.Func)
			cands = append(cands, cand{f, lpFuncKey(f)})
		}
	}
	for _, c := range cands {
		g.translate(c.f)
	}
	b.WriteString("/- GENERATED by /verif/tools/goextract (loops_dns.go) from the Go sources in /repo — do not edit. -/\nimport PacketVerif.Model.LoopGoDns\nset_option linter.unusedVariables false\nnamespace PV.Gen.LoopsDns\nopen PV PV.Model.LoopGo PV.Model.LoopGoDns\n\n")
	for _, d := range lp.tableDefs {
		b.WriteString(d + "\n")
	}
	for _, d := range g.structDefs {
		b.WriteString(d + "\n")
	}
	for _, fn := range g.order {
		b.WriteString(fn.text + "\n")
	}
	b.WriteString("/-- translated functions of layer_dns.go: (Go name, generated Lean function) -/\ndef dnsLoopsTranslated : List (String × String) := [\n")
	var rows []string
	for _, fn := range g.order {
		rows = append(rows, fmt.Sprintf("  (%q, %q)", fn.key, fn.lean))
	}
	b.WriteString(strings.Join(rows, ",\n") + "]\n\n")
	b.WriteString("/-- candidates the translator REFUSED, with the first offending construct -/\ndef dnsLoopsUntranslated : List (String × String) := [\n")
	rows = nil
	for _, c := range cands {
		if w, ok := g.refused[c.f]; ok {
			rows = append(rows, fmt.Sprintf("  (%q, %q)", c.key, w))
		}
	}
	for _, m := range missing {
		rows = append(rows, fmt.Sprintf("  (%q, %q)", m, "function not found"))
	}
	b.WriteString(strings.Join(rows, ",\n") + "]\n\n")
	b.WriteString("/-- the fuel handed to every generated loop / recursive function (not trusted: too little fuel shows as `.hang`) -/\ndef dnsLoopFuels : List (String × String) := [\n  " + strings.Join(g.fuels, ",\n  ") + "]\n\n")
	var ids []string
	for id := range g.assume {
		ids = append(ids, id)
	}
	sort.Strings(ids)
	rows = nil
	for _, id := range ids {
		rows = append(rows, fmt.Sprintf("  (%q, %q)", id, dnAssumptionText[id]))
	}
	b.WriteString("/-- what the translation assumes about Go (reviewed in design_notes/bG.md); only the assumptions actually used are listed -/\ndef dnsLoopAssumptions : List (String × String) := [\n" + strings.Join(rows, ",\n") + "]\n\n")
	var ex []string
	for e := range g.externs {
		ex = append(ex, fmt.Sprintf("%q", e))
	}
	sort.Strings(ex)
	b.WriteString("/-- standard-library functions on the translated paths and what stands for them -/\ndef dnsLoopExterns : List String := [" + strings.Join(ex, ", ") + "]\n\n")
	b.WriteString("end PV.Gen.LoopsDns\n")
}
