package main

import (
	"fmt"
	"go/ast"
	"go/token"
	"go/types"
	"math/big"
	"os"
	"sort"
	"strings"

	"golang.org/x/tools/go/packages"
)

// F11 — provenance facts (C10): the site table of Model/Prov.lean.
//
// A *class* is a place where a reference can stay after the function that put it there has returned:
//   pkg.T.f        field f of the named struct type T, reached through a pointer (or of an "exposed" T, see below)
//   var:pkg.X      a package-level variable
//   go:pkg.f       the arguments of a goroutine started with `go f(…)` (closure: the captured variables)
//   chan:…         the elements sent on a channel (a channel that is a field has the field's class)
//   extern:pkg.f   the arguments handed to a function outside the library that is not known not to retain them
//   closure:fn     the variables captured by a function literal that is stored or handed on
//   arg:f#i        (pseudo-class, NOT retention) parameter i of the library function f: one site per call, so that the
//                  binding of parameters is part of the same closure argument; parameters of exported functions (and of
//                  functions used as values) additionally get the source `pkt`
//   argout:f#i     (pseudo-class) what f stores INTO the map / slice / pointer target it received as parameter i; read back
//                  by every caller into the container it passed
// A *site* is one store into a class: (name, class, sources of the stored value).  The sources of a value are computed
// by a flow-insensitive intraprocedural taint analysis over go/types information:
//   heap     allocation, copy helper whose body the analysis has itself summarised (CopyMAC, CopyIP, CopyBytes, dupBytes …
//            are NOT on a hand list: their summary is computed from their body), value types, string conversions
//   pkt      parameter of an exported function: may be (a slice of / a struct carrying) the caller's packet buffer
//   cls c    read from class c
//   unknown  a construct or callee the analysis does not understand (listed in provUnknown; the tie requires none)
// Only values whose TYPE can carry a reference into a byte buffer are tracked (byte slices, and arrays / slices / maps /
// channels / structs / interfaces containing one; a pointer to a named struct does not *carry*: what it points to is
// described by the classes of that struct).  Local struct VALUES are tracked field-insensitively as variables; a named
// struct type of which the address of a value location is taken somewhere (explicitly or by calling a pointer-receiver
// method on a variable / field / element) is *exposed*: every store into a field of such a type also counts as a store into
// T.f and every read of a value containing such a type also reads T.*.
// Results of library calls use per-function return summaries (in terms of the callee's parameters, substituted at the call:
// context-sensitive), iterated to a fixed point.

type skind int

const (
	kHeap skind = iota
	kPkt
	kCls
	kUnk
	kParam // only inside an analysis: parameter i of the function being analysed
)

type psrc struct {
	k skind
	s string
	i int
}
type oset map[psrc]bool

func (o oset) add(p oset) bool {
	ch := false
	for k := range p {
		if !o[k] {
			o[k] = true
			ch = true
		}
	}
	return ch
}
func union(a ...oset) oset {
	r := oset{}
	for _, x := range a {
		r.add(x)
	}
	return r
}

type pfunc struct {
	key     string
	name    string
	decl    *ast.FuncDecl
	pkg     *packages.Package
	obj     *types.Func
	params  []*types.Var // receiver first when there is one
	pidx    map[*types.Var]int
	ret     []oset
	api     bool // exported or used as a value: parameters may be the packet buffer
	env     map[vkey]oset
	results []*types.Var
	kills   map[*types.Var][]kill
}

// a local variable is split into versions at the assignments `x = e` that are statements of the function's outermost block
// (executed once, in order): what is read after such a statement is what it stored (limited flow sensitivity: a parameter
// that is replaced by a copy before it is used)
type vkey struct {
	v   *types.Var
	ver int
}
type kill struct{ lhs, end token.Pos }

type psite struct {
	name string
	cls  string
	rhs  oset
}

type prov struct {
	funcs     map[string]*pfunc
	byObj     map[*types.Func]*pfunc
	sites     map[string]*psite     // by name+"\x00"+cls
	exposed   map[*types.Named]bool // exposed by type (fallback: address of an element / other expression)
	exposedV  map[*types.Var]bool   // exposed locations: local variables and struct fields whose address is taken
	unknown   map[string]bool
	transient map[string]bool
	changed   bool
	carryMem  map[types.Type]int // 0 unknown, 1 in progress, 2 false, 3 true
	libNamed  []*types.Named
	pkgs      []*packages.Package
}

func isLib(p *types.Package) bool {
	return p != nil && strings.HasPrefix(p.Path(), "github.com/irai/packet")
}

func (pv *prov) carries(t types.Type) bool {
	if t == nil {
		return false
	}
	switch pv.carryMem[t] {
	case 1, 2:
		return false
	case 3:
		return true
	}
	pv.carryMem[t] = 1
	r := false
	switch u := t.Underlying().(type) {
	case *types.Basic:
		r = u.Kind() == types.UnsafePointer
	case *types.Slice:
		if b, ok := u.Elem().Underlying().(*types.Basic); ok {
			r = b.Kind() == types.Uint8
		} else {
			r = pv.carries(u.Elem())
		}
	case *types.Array:
		r = pv.carries(u.Elem())
	case *types.Map:
		r = pv.carries(u.Key()) || pv.carries(u.Elem())
	case *types.Chan:
		r = pv.carries(u.Elem())
	case *types.Pointer:
		if _, ok := u.Elem().Underlying().(*types.Struct); ok {
			r = false // described by the classes of the struct
		} else if b, ok := u.Elem().Underlying().(*types.Basic); ok {
			r = b.Kind() == types.Uint8 // *byte may point into a buffer
		} else {
			r = pv.carries(u.Elem())
		}
	case *types.Struct:
		for i := 0; i < u.NumFields(); i++ {
			if pv.carries(u.Field(i).Type()) {
				r = true
			}
		}
	case *types.Interface:
		r = !types.Identical(t, types.Universe.Lookup("error").Type())
	case *types.Signature:
		r = false // function literals are handled where they are written (captured variables)
	default:
		r = true
	}
	if r {
		pv.carryMem[t] = 3
	} else {
		pv.carryMem[t] = 2
	}
	return r
}

func typeName(t types.Type) string {
	if p, ok := t.(*types.Pointer); ok {
		t = p.Elem()
	}
	if n, ok := t.(*types.Named); ok {
		if n.Obj().Pkg() != nil {
			return short(n.Obj().Pkg().Path()) + "." + n.Obj().Name()
		}
		return n.Obj().Name()
	}
	return "struct"
}

func namedOf(t types.Type) *types.Named {
	if p, ok := t.(*types.Pointer); ok {
		t = p.Elem()
	}
	n, _ := t.(*types.Named)
	return n
}

// classesOf: the classes T.f of the carrying fields of the struct type t (one level; nested struct values that are
// exposed add theirs through exposedIn)
func (pv *prov) classesOf(t types.Type) oset {
	o := oset{}
	if p, ok := t.(*types.Pointer); ok {
		t = p.Elem()
	}
	st, ok := t.Underlying().(*types.Struct)
	if !ok {
		return o
	}
	for i := 0; i < st.NumFields(); i++ {
		if pv.carries(st.Field(i).Type()) {
			o[psrc{k: kCls, s: typeName(t) + "." + st.Field(i).Name()}] = true
		}
	}
	return o
}

// exposedIn: classes of every exposed named struct type contained BY VALUE in t (struct fields, array / slice / map elements)
func (pv *prov) exposedIn(t types.Type, depth int) oset {
	o := oset{}
	if t == nil || depth > 4 {
		return o
	}
	if n, ok := t.(*types.Named); ok && pv.exposed[n] {
		o.add(pv.classesOf(n))
	}
	switch u := t.Underlying().(type) {
	case *types.Struct:
		for i := 0; i < u.NumFields(); i++ {
			if pv.carries(u.Field(i).Type()) {
				if pv.exposedV[u.Field(i)] {
					o.add(pv.classesOf(u.Field(i).Type()))
				}
				o.add(pv.exposedIn(u.Field(i).Type(), depth+1))
			}
		}
	case *types.Slice:
		o.add(pv.exposedIn(u.Elem(), depth+1))
	case *types.Array:
		o.add(pv.exposedIn(u.Elem(), depth+1))
	case *types.Map:
		o.add(pv.exposedIn(u.Elem(), depth+1))
	}
	return o
}

// ---------------------------------------------------------------------------------------------

type fa struct { // analysis of one function
	pv    *prov
	f     *pfunc
	info  *types.Info
	depth int // depth of function literals
	lits  [][2]token.Pos
}

func (a *fa) unk(what string, n ast.Node) oset {
	w := a.f.name + ": " + what
	a.pv.unknown[w] = true
	return oset{psrc{k: kUnk, s: w}: true}
}

func (a *fa) site(name, cls string, rhs oset) {
	k := name + "\x00" + cls
	s := a.pv.sites[k]
	if s == nil {
		s = &psite{name: name, cls: cls, rhs: oset{}}
		a.pv.sites[k] = s
		a.pv.changed = true
	}
	// parameters of the function become reads of their argument class
	conv := oset{}
	for p := range rhs {
		if p.k == kParam {
			conv[psrc{k: kCls, s: fmt.Sprintf("arg:%s#%d", a.f.name, p.i)}] = true
		} else {
			conv[p] = true
		}
	}
	if s.rhs.add(conv) {
		a.pv.changed = true
	}
}

func (a *fa) typeOf(e ast.Expr) types.Type {
	if tv, ok := a.info.Types[e]; ok {
		return tv.Type
	}
	if id, ok := e.(*ast.Ident); ok {
		if o := a.info.Uses[id]; o != nil {
			return o.Type()
		}
		if o := a.info.Defs[id]; o != nil {
			return o.Type()
		}
	}
	return nil
}

// versions of v visible to a read at pos: the one current there; inside a function literal (which runs later) also every later one
func (a *fa) readVar(v *types.Var, pos token.Pos) oset {
	o := oset{}
	if v.Pkg() != nil && v.Parent() == v.Pkg().Scope() { // package-level
		if isLib(v.Pkg()) {
			o[psrc{k: kCls, s: "var:" + short(v.Pkg().Path()) + "." + v.Name()}] = true
		}
		return o
	}
	ks := a.f.kills[v]
	ver := 0
	for _, k := range ks {
		if pos != token.NoPos && k.end <= pos {
			ver++
		}
	}
	last := ver
	if pos == token.NoPos || a.depth > 0 || a.inLit(pos) {
		last = len(ks)
	}
	for i := ver; i <= last; i++ {
		if i == 0 {
			if pi, ok := a.f.pidx[v]; ok {
				o[psrc{k: kParam, i: pi}] = true
			}
		}
		o.add(a.f.env[vkey{v, i}])
	}
	if a.pv.exposedV[v] {
		o.add(a.pv.classesOf(v.Type()))
	}
	o.add(a.pv.exposedIn(v.Type(), 0))
	return o
}

func (a *fa) inLit(pos token.Pos) bool {
	for _, r := range a.lits {
		if r[0] <= pos && pos <= r[1] {
			return true
		}
	}
	return false
}

func (a *fa) computeKills() {
	a.f.kills = map[*types.Var][]kill{}
	a.lits = nil
	ast.Inspect(a.f.decl.Body, func(n ast.Node) bool {
		if fl, ok := n.(*ast.FuncLit); ok {
			a.lits = append(a.lits, [2]token.Pos{fl.Pos(), fl.End()})
		}
		return true
	})
	for _, st := range a.f.decl.Body.List {
		as, ok := st.(*ast.AssignStmt)
		if !ok || as.Tok != token.ASSIGN {
			continue
		}
		for _, l := range as.Lhs {
			id, ok := l.(*ast.Ident)
			if !ok {
				continue
			}
			v, ok := a.info.Uses[id].(*types.Var)
			if !ok || v.IsField() || v.Pkg() == nil || v.Parent() == v.Pkg().Scope() || a.pv.exposedV[v] || !a.pv.carries(v.Type()) {
				continue
			}
			a.f.kills[v] = append(a.f.kills[v], kill{lhs: id.Pos(), end: as.End()})
		}
	}
}

type step struct {
	owner types.Type // type of the value the field is selected from (may be a pointer)
	field *types.Var
}

// flatten a selector chain X.f1.f2…fn (implicit embedded steps made explicit) down to a base that is not a field selection
func (a *fa) chain(e ast.Expr) (ast.Expr, []step) {
	var steps []step
	for {
		switch x := e.(type) {
		case *ast.ParenExpr:
			e = x.X
			continue
		case *ast.SelectorExpr:
			sel, ok := a.info.Selections[x]
			if !ok || sel.Kind() != types.FieldVal {
				return e, steps
			}
			var here []step
			t := sel.Recv()
			for _, idx := range sel.Index() {
				tt := t
				if p, ok := tt.Underlying().(*types.Pointer); ok {
					tt = p.Elem()
				}
				st, ok := tt.Underlying().(*types.Struct)
				if !ok {
					return e, nil
				}
				f := st.Field(idx)
				here = append(here, step{owner: t, field: f})
				t = f.Type()
			}
			steps = append(here, steps...)
			e = x.X
			continue
		}
		return e, steps
	}
}

func isPtr(t types.Type) bool {
	_, ok := t.Underlying().(*types.Pointer)
	return ok
}

func clsOf(owner types.Type, f *types.Var) psrc {
	return psrc{k: kCls, s: typeName(owner) + "." + f.Name()}
}

func (a *fa) readChain(e ast.Expr) oset {
	base, steps := a.chain(e)
	if len(steps) == 0 {
		return a.unk("selector "+valStr(e), e)
	}
	var o oset
	loc := false // the location we are in is exposed (its address is taken somewhere)
	if isPtr(steps[0].owner) {
		o = oset{}
	} else {
		o = a.read(base)
		loc = a.baseExposed(base)
	}
	for _, s := range steps {
		if isPtr(s.owner) {
			o = oset{clsOf(s.owner, s.field): true}
		} else if n := namedOf(s.owner); loc || (n != nil && a.pv.exposed[n]) {
			o[clsOf(s.owner, s.field)] = true
		}
		loc = a.pv.exposedV[s.field]
	}
	if loc {
		o.add(a.pv.classesOf(a.typeOf(e)))
	}
	o.add(a.pv.exposedIn(a.typeOf(e), 0))
	return o
}

func (a *fa) baseExposed(base ast.Expr) bool {
	if p, ok := base.(*ast.ParenExpr); ok {
		return a.baseExposed(p.X)
	}
	if id, ok := base.(*ast.Ident); ok {
		if v, ok := a.info.Uses[id].(*types.Var); ok {
			return a.pv.exposedV[v]
		}
	}
	return false
}

func isString(t types.Type) bool {
	if t == nil {
		return false
	}
	b, ok := t.Underlying().(*types.Basic)
	return ok && b.Info()&types.IsString != 0
}

func (a *fa) captured(fl *ast.FuncLit) oset {
	o := oset{}
	ast.Inspect(fl.Body, func(n ast.Node) bool {
		id, ok := n.(*ast.Ident)
		if !ok {
			return true
		}
		v, ok := a.info.Uses[id].(*types.Var)
		if !ok || v.IsField() || v.Pkg() == nil || v.Parent() == v.Pkg().Scope() {
			return true
		}
		if v.Pos() >= fl.Pos() && v.Pos() <= fl.End() { // declared inside the literal
			return true
		}
		if a.pv.carries(v.Type()) {
			o.add(a.readVar(v, id.Pos()))
		}
		return true
	})
	return o
}

// read: the sources of the value of e (empty set = heap)
func (a *fa) read(e ast.Expr) oset {
	if e == nil {
		return oset{}
	}
	if fl, ok := e.(*ast.FuncLit); ok {
		return a.captured(fl)
	}
	if u, ok := e.(*ast.UnaryExpr); ok && u.Op == token.AND {
		if cl, ok := u.X.(*ast.CompositeLit); ok { // &T{…}: the fields are stores even though the pointer itself carries nothing
			return a.lit(cl, true)
		}
	}
	t := a.typeOf(e)
	if tv, ok := a.info.Types[e]; ok && tv.IsType() {
		return oset{}
	}
	if t != nil {
		if _, isTuple := t.(*types.Tuple); !isTuple && !a.pv.carries(t) {
			if c, ok := e.(*ast.CallExpr); ok {
				a.call(c) // argument sites
			}
			return oset{}
		}
	}
	switch x := e.(type) {
	case *ast.ParenExpr:
		return a.read(x.X)
	case *ast.BasicLit:
		return oset{}
	case *ast.Ident:
		if x.Name == "nil" || x.Name == "_" {
			return oset{}
		}
		switch obj := a.info.Uses[x].(type) {
		case *types.Var:
			return a.readVar(obj, x.Pos())
		case *types.Nil, *types.Const:
			return oset{}
		}
		if obj, ok := a.info.Defs[x].(*types.Var); ok {
			return a.readVar(obj, x.Pos())
		}
		return a.unk("identifier "+x.Name, x)
	case *ast.SelectorExpr:
		if id, ok := x.X.(*ast.Ident); ok {
			if _, isPkg := a.info.Uses[id].(*types.PkgName); isPkg {
				if v, ok := a.info.Uses[x.Sel].(*types.Var); ok {
					return a.readVar(v, x.Pos())
				}
				return oset{}
			}
		}
		if sel, ok := a.info.Selections[x]; ok && sel.Kind() == types.FieldVal {
			return a.readChain(x)
		}
		if sel, ok := a.info.Selections[x]; ok && sel.Kind() == types.MethodVal { // method value: carries its receiver
			return a.read(x.X)
		}
		return a.unk("selector "+valStr(x), x)
	case *ast.IndexExpr:
		return a.read(x.X)
	case *ast.SliceExpr:
		return a.read(x.X)
	case *ast.StarExpr:
		pt := a.typeOf(x.X)
		if pt != nil {
			if p, ok := pt.Underlying().(*types.Pointer); ok {
				if _, ok := p.Elem().Underlying().(*types.Struct); ok {
					return union(a.pv.classesOf(p.Elem()), a.pv.exposedIn(p.Elem(), 0))
				}
			}
		}
		return a.read(x.X)
	case *ast.UnaryExpr:
		switch x.Op {
		case token.AND:
			if cl, ok := x.X.(*ast.CompositeLit); ok {
				return a.lit(cl, true)
			}
			if ix, ok := x.X.(*ast.IndexExpr); ok {
				return a.read(ix.X)
			}
			return a.read(x.X)
		case token.ARROW:
			return a.read(x.X)
		}
		return oset{}
	case *ast.BinaryExpr:
		return oset{}
	case *ast.TypeAssertExpr:
		return a.read(x.X)
	case *ast.CompositeLit:
		return a.lit(x, false)
	case *ast.CallExpr:
		rs := a.call(x)
		if len(rs) == 0 {
			return oset{}
		}
		return rs[0]
	}
	return a.unk(fmt.Sprintf("expression %T", e), e)
}

// lit: a composite literal; addr = written as &T{…} (a fresh record reached through a pointer: its fields are stores)
func (a *fa) lit(x *ast.CompositeLit, addr bool) oset {
	t := a.typeOf(x)
	o := oset{}
	if t == nil {
		return a.unk("literal", x)
	}
	st, isStruct := t.Underlying().(*types.Struct)
	for i, el := range x.Elts {
		var val ast.Expr = el
		name := ""
		if kv, ok := el.(*ast.KeyValueExpr); ok {
			val = kv.Value
			if isStruct {
				if id, ok := kv.Key.(*ast.Ident); ok {
					name = id.Name
				}
			} else {
				o.add(a.read(kv.Key))
			}
		} else if isStruct && i < st.NumFields() {
			name = st.Field(i).Name()
		}
		if cl, ok := val.(*ast.CompositeLit); ok && a.typeOf(cl) == nil { // elided element type
			o.add(a.lit(cl, false))
			continue
		}
		v := a.read(val)
		o.add(v)
		if isStruct && name != "" && a.pv.carries(a.typeOf(val)) {
			n := namedOf(t)
			if addr || (n != nil && a.pv.exposed[n]) {
				nm := a.f.name + ":" + typeName(t) + "{" + name + "}=" + valStr(val)
				if transientLits[nm] {
					a.pv.transient[nm] = true
				} else {
					a.site(nm, typeName(t)+"."+name, v)
				}
			}
		}
	}
	if addr && isStruct {
		return oset{}
	}
	return o
}

// store: the value with sources o is stored into lhs
func (a *fa) store(lhs ast.Expr, o oset, rhs string) {
	switch x := lhs.(type) {
	case *ast.ParenExpr:
		a.store(x.X, o, rhs)
	case *ast.Ident:
		if x.Name == "_" {
			return
		}
		var v *types.Var
		if d, ok := a.info.Defs[x].(*types.Var); ok {
			v = d
		} else if u, ok := a.info.Uses[x].(*types.Var); ok {
			v = u
		}
		if v == nil {
			return
		}
		if !a.pv.carries(v.Type()) {
			return
		}
		if v.Pkg() != nil && v.Parent() == v.Pkg().Scope() {
			a.site(a.f.name+":"+v.Name()+"="+rhs, "var:"+short(v.Pkg().Path())+"."+v.Name(), o)
			return
		}
		a.storeVar(v, o, x.Pos())
		if a.pv.exposedV[v] {
			for c := range a.pv.classesOf(v.Type()) {
				a.site(a.f.name+":"+x.Name+"="+rhs, c.s, o)
			}
		}
		a.storeExposed(v.Type(), o, x.Name, rhs)
	case *ast.SelectorExpr:
		if id, ok := x.X.(*ast.Ident); ok {
			if _, isPkg := a.info.Uses[id].(*types.PkgName); isPkg {
				if v, ok := a.info.Uses[x.Sel].(*types.Var); ok && a.pv.carries(v.Type()) {
					a.site(a.f.name+":"+valStr(x)+"="+rhs, "var:"+short(v.Pkg().Path())+"."+v.Name(), o)
				}
				return
			}
		}
		if !a.pv.carries(a.typeOf(x)) {
			return
		}
		base, steps := a.chain(x)
		if len(steps) == 0 {
			a.site(a.f.name+":"+valStr(x)+"="+rhs, "unknown-target", a.unk("store target "+valStr(x), x))
			return
		}
		last := -1
		for i, s := range steps {
			if isPtr(s.owner) {
				last = i
			}
		}
		target := typeName(steps[len(steps)-1].owner) + "." + steps[len(steps)-1].field.Name()
		if last >= 0 {
			a.site(a.f.name+":"+target+"="+rhs, clsOf(steps[last].owner, steps[last].field).s, o)
		} else {
			a.storeBase(base, o, rhs)
		}
		loc := !isPtr(steps[0].owner) && a.baseExposed(base)
		for i, s := range steps {
			if n := namedOf(s.owner); i != last && !isPtr(s.owner) && (loc || (n != nil && a.pv.exposed[n])) {
				a.site(a.f.name+":"+target+"="+rhs, clsOf(s.owner, s.field).s, o)
			}
			loc = a.pv.exposedV[s.field]
		}
		if loc {
			for c := range a.pv.classesOf(a.typeOf(x)) {
				a.site(a.f.name+":"+target+"="+rhs, c.s, o)
			}
		}
		a.storeExposed(a.typeOf(x), o, target, rhs)
	case *ast.IndexExpr:
		if !a.pv.carries(a.typeOf(x.X)) {
			return
		}
		if _, isMap := a.typeOf(x.X).Underlying().(*types.Map); isMap {
			o = union(o, a.read(x.Index))
		}
		a.storeContainer(x.X, o, rhs)
	case *ast.StarExpr:
		pt := a.typeOf(x.X)
		if pt != nil {
			if p, ok := pt.Underlying().(*types.Pointer); ok {
				if _, ok := p.Elem().Underlying().(*types.Struct); ok {
					for c := range a.pv.classesOf(p.Elem()) {
						a.site(a.f.name+":*"+valStr(x.X)+"="+rhs, c.s, o)
					}
					a.storeExposedInner(p.Elem(), o, "*"+valStr(x.X), rhs)
					return
				}
			}
		}
		a.storeContainer(x.X, o, rhs)
	default:
		a.site(a.f.name+":?="+rhs, "unknown-target", a.unk(fmt.Sprintf("store target %T", lhs), lhs))
	}
}

// storeContainer: an element of the container expression c (map / slice / array / pointer target) receives o
func (a *fa) storeContainer(c ast.Expr, o oset, rhs string) {
	switch x := c.(type) {
	case *ast.ParenExpr:
		a.storeContainer(x.X, o, rhs)
	case *ast.Ident, *ast.SelectorExpr, *ast.StarExpr:
		a.store(c, o, rhs)
	case *ast.IndexExpr:
		a.storeContainer(x.X, o, rhs)
	case *ast.SliceExpr:
		a.storeContainer(x.X, o, rhs)
	case *ast.UnaryExpr:
		a.storeContainer(x.X, o, rhs)
	default:
		a.storeAliases(c, o, rhs)
	}
}

// storeAliases: o is stored into a container denoted by an expression that is not a location (call result, …): it reaches
// whatever that value aliases
func (a *fa) storeAliases(c ast.Expr, o oset, rhs string) {
	for p := range a.read(c) {
		switch p.k {
		case kCls:
			a.site(a.f.name+":"+valStr(c)+"[]="+rhs, p.s, o)
		case kParam:
			a.site("arg", fmt.Sprintf("argout:%s#%d", a.f.name, p.i), o)
		default:
			a.site(a.f.name+":"+valStr(c)+"[]="+rhs, "unknown-target", a.unk("store into "+valStr(c), c))
		}
	}
}

func (a *fa) storeBase(base ast.Expr, o oset, rhs string) {
	switch x := base.(type) {
	case *ast.Ident:
		a.store(x, o, rhs)
	case *ast.IndexExpr, *ast.StarExpr, *ast.ParenExpr:
		a.storeContainer(base, o, rhs)
	default:
		a.storeAliases(base, o, rhs)
	}
}

func (a *fa) storeVar(v *types.Var, o oset, pos token.Pos) {
	ver := 0
	for _, k := range a.f.kills[v] {
		if k.lhs <= pos {
			ver++
		}
	}
	key := vkey{v, ver}
	if a.f.env[key] == nil {
		a.f.env[key] = oset{}
	}
	if a.f.env[key].add(o) {
		a.pv.changed = true
	}
	// a shared container (map, slice of carrying elements, pointer) that is a parameter: the caller's value sees the store
	if i, ok := a.f.pidx[v]; ok && ver == 0 && sharedContainer(a.pv, v.Type()) {
		a.site("arg", fmt.Sprintf("argout:%s#%d", a.f.name, i), o)
	}
}

func sharedContainer(pv *prov, t types.Type) bool {
	switch u := t.Underlying().(type) {
	case *types.Map:
		return pv.carries(t)
	case *types.Slice:
		return pv.carries(u.Elem())
	case *types.Pointer:
		return pv.carries(t)
	case *types.Chan:
		return pv.carries(t)
	}
	return false
}

// storeExposed: a whole value of type t is stored; the exposed types it contains by value receive it too
func (a *fa) storeExposed(t types.Type, o oset, target, rhs string) {
	for c := range a.pv.exposedIn(t, 0) {
		a.site(a.f.name+":"+target+"="+rhs, c.s, o)
	}
}
func (a *fa) storeExposedInner(t types.Type, o oset, target, rhs string) {
	if st, ok := t.Underlying().(*types.Struct); ok {
		for i := 0; i < st.NumFields(); i++ {
			a.storeExposed(st.Field(i).Type(), o, target, rhs)
		}
	}
}

// ---------------------------------------------------------------------------------------------
// calls

// external functions: how the result relates to receiver / arguments, and whether arguments are retained.
//
//	"fresh"  result does not alias any argument
//	"alias"  result may alias the receiver / any carrying argument
//
// functions not listed: a carrying result is `unknown`, carrying non-heap arguments are a store into extern:<name>
var externResult = map[string]string{
	"net.IP.To4": "alias", "net.IP.To16": "alias", "net.IP.Mask": "fresh", "net.IP.String": "fresh", "net.IP.Equal": "fresh",
	"net.IP.DefaultMask": "fresh", "net.IP.IsLoopback": "fresh", "net.IP.IsUnspecified": "fresh", "net.IP.MarshalText": "fresh",
	"net.HardwareAddr.String": "fresh", "net.CIDRMask": "fresh", "net.ParseMAC": "fresh", "net.ParseIP": "fresh", "net.IPv4": "fresh",
	"net.IPv4Mask": "fresh", "net.IPMask.Size": "fresh", "net.IPMask.String": "fresh", "net.ParseCIDR": "fresh", "net.IPNet.String": "fresh",
	"net.IPNet.Contains":      "fresh",
	"net/netip.AddrFromSlice": "fresh", "net/netip.Addr.AsSlice": "fresh", "net/netip.Addr.As4": "fresh", "net/netip.Addr.As16": "fresh",
	"net/netip.Addr.MarshalBinary": "fresh", "net/netip.Addr.MarshalText": "fresh", "net/netip.Addr.AppendTo": "alias",
	"bytes.Equal": "fresh", "bytes.Clone": "fresh", "bytes.Repeat": "fresh", "bytes.Compare": "fresh", "bytes.HasPrefix": "fresh",
	"bytes.Index": "fresh", "bytes.IndexByte": "fresh", "bytes.NewBuffer": "alias", "bytes.NewReader": "alias", "bytes.TrimRight": "alias",
	"bytes.TrimSpace": "alias", "bytes.Split": "alias", "bytes.Fields": "alias", "bytes.ToLower": "fresh", "bytes.ToUpper": "fresh",
	"bytes.Buffer.Bytes": "alias", "bytes.Buffer.Write": "fresh", "bytes.Buffer.String": "fresh",
	"encoding/binary.bigEndian.Uint16": "fresh", "encoding/binary.bigEndian.Uint32": "fresh", "encoding/binary.bigEndian.Uint64": "fresh",
	"encoding/binary.bigEndian.PutUint16": "fresh", "encoding/binary.bigEndian.PutUint32": "fresh", "encoding/binary.bigEndian.PutUint64": "fresh",
	"encoding/binary.littleEndian.Uint16": "fresh", "encoding/binary.littleEndian.Uint32": "fresh",
	"encoding/binary.littleEndian.PutUint16": "fresh", "encoding/binary.littleEndian.PutUint32": "fresh",
	"encoding/binary.bigEndian.AppendUint16": "alias", "encoding/binary.bigEndian.AppendUint32": "alias",
	"encoding/binary.Read": "fresh", "encoding/binary.Write": "fresh",
	"encoding/hex.EncodeToString": "fresh", "encoding/hex.DecodeString": "fresh", "encoding/hex.Dump": "fresh",
	"os.ReadFile": "fresh", "os.WriteFile": "fresh", "io/ioutil.ReadFile": "fresh", "io/ioutil.WriteFile": "fresh", "io.ReadAll": "fresh",
	"gopkg.in/yaml.v2.Marshal": "fresh", "gopkg.in/yaml.v2.Unmarshal": "fresh", "encoding/json.Marshal": "fresh", "encoding/json.Unmarshal": "fresh",
	"compress/gzip.NewReader": "alias", "bufio.NewReader": "alias", "bufio.NewScanner": "alias", "bufio.Scanner.Bytes": "alias",
	"strings.NewReader": "fresh", "crypto/rand.Read": "fresh", "math/rand.Read": "fresh",
	"reflect.DeepEqual": "fresh", "sort.Slice": "fresh",
	"sync.Pool.Get": "alias", "sync.Pool.Put": "fresh", "reflect.ValueOf": "alias", "reflect.Value.IsNil": "fresh", "reflect.Value.Kind": "fresh",
	"strconv.AppendInt": "alias", "time.Time.AppendFormat": "alias",
	"golang.org/x/net/dns/dnsmessage.Message.Pack": "fresh", "golang.org/x/net/dns/dnsmessage.Parser.Start": "fresh",
	"golang.org/x/net/dns/dnsmessage.Parser.OPTResource": "alias", "golang.org/x/net/dns/dnsmessage.Parser.UnknownResource": "alias",
	"context.TODO": "fresh", "context.Background": "fresh", "context.WithTimeout": "fresh",
	"os.File.SyscallConn": "fresh", "golang.org/x/net/icmp.Message.Marshal": "fresh", "golang.org/x/net/icmp.PacketConn.ReadFrom": "fresh",
	"golang.org/x/net/icmp.PacketConn.WriteTo": "fresh",
	"net.Interface.Addrs":                      "fresh", "github.com/vishvananda/netlink.LinkByName": "fresh", "net.Conn.LocalAddr": "fresh", "net.Conn.Close": "fresh",
	"net.Dial": "fresh", "golang.org/x/sys/unix.Recvfrom": "fresh", "crypto/sha256.Sum256": "fresh",
	"io/ioutil.ReadAll": "fresh", "encoding/xml.Unmarshal": "fresh", "github.com/mdlayher/netx/rfc4193.Generate": "fresh",
	"golang.org/x/sys/unix.Bind": "fresh", "net.Resolver.LookupHost": "fresh", "net.Resolver.LookupAddr": "fresh",
}

// every method of these external types: the result may alias the receiver, nothing else is kept
var externAliasPrefix = []string{"golang.org/x/net/dns/dnsmessage.Parser."}

// &T{…} literals whose record is transient (built for an outgoing message and dropped when the function returns): their
// fields are NOT counted as stores into the class T.f.  Reviewed one by one; pinned with the reasons in Props/C10Tie.lean.
var transientLits = map[string]bool{
	"arp_spoofer.Handler.RequestRaw:packet.Addr{MAC}=dst":                                        true,
	"arp_spoofer.Handler.reply:packet.Addr{MAC}=dst":                                             true,
	"packet.Session.ICMP6SendRouterAdvertisement:packet.PrefixInformation{Prefix}=prefix.Prefix": true,
	"packet.LinkLayerAddress.marshal:packet.RawOption{Value}=lla.MAC":                            true,
}

// library functions whose computed summary is replaced by `heap`, each pinned (with the reason) in Props/C10Tie.lean
var summaryOverride = map[string]bool{"packet.CopyIP": true}

// external methods that keep their arguments in their receiver (the receiver then carries them)
var externStores = map[string]bool{"sync.Pool.Put": true, "golang.org/x/net/dns/dnsmessage.Parser.Start": true}

// external functions known not to keep a reference to their arguments after they return (formatting, comparison, I/O that
// copies into the kernel, content copies)
var externNoRetain = map[string]bool{
	"fmt.Printf": true, "fmt.Println": true, "fmt.Print": true, "fmt.Sprintf": true, "fmt.Sprint": true, "fmt.Sprintln": true, "fmt.Errorf": true,
	"fmt.Fprintf": true, "fmt.Fprintln": true, "fmt.Fprint": true, "log.Printf": true, "log.Println": true, "log.Fatal": true, "log.Fatalf": true,
	"log.Print": true, "errors.New": true, "errors.Is": true, "errors.As": true,
	"net.PacketConn.WriteTo": true, "net.PacketConn.ReadFrom": true, "net.Conn.Write": true, "net.Conn.Read": true, "net.UDPConn.WriteTo": true,
	"net.UDPConn.ReadFrom": true, "net.UDPConn.WriteToUDP": true, "net.UDPConn.ReadFromUDP": true, "io.Writer.Write": true, "io.Reader.Read": true,
	"os.File.Write": true, "os.File.Read": true, "os.File.WriteString": true, "bufio.Reader.Read": true,
	"golang.org/x/sys/unix.Sendto": true, "golang.org/x/sys/unix.Recvfrom": true, "golang.org/x/sys/unix.Write": true, "golang.org/x/sys/unix.Read": true,
	"syscall.Sendto": true, "syscall.Recvfrom": true, "syscall.Write": true, "syscall.Read": true,
	"golang.org/x/net/dns/dnsmessage.Parser.Start": false, // keeps msg: NOT listed as harmless
	"testing.T.Fatalf":     true,
	"net/http.ReadRequest": false,
}

func extName(f *types.Func) string {
	sig := f.Type().(*types.Signature)
	if r := sig.Recv(); r != nil {
		t := r.Type()
		if p, ok := t.(*types.Pointer); ok {
			t = p.Elem()
		}
		if n, ok := t.(*types.Named); ok && n.Obj().Pkg() != nil {
			return n.Obj().Pkg().Path() + "." + n.Obj().Name() + "." + f.Name()
		}
		return "?." + f.Name()
	}
	if f.Pkg() == nil {
		return f.Name()
	}
	return f.Pkg().Path() + "." + f.Name()
}

// callee resolves the called function object and the receiver expression (nil for plain functions)
func (a *fa) callee(c *ast.CallExpr) (*types.Func, ast.Expr) {
	switch f := c.Fun.(type) {
	case *ast.ParenExpr:
		cc := *c
		cc.Fun = f.X
		return a.callee(&cc)
	case *ast.Ident:
		if fn, ok := a.info.Uses[f].(*types.Func); ok {
			return fn, nil
		}
	case *ast.SelectorExpr:
		if sel, ok := a.info.Selections[f]; ok {
			if fn, ok := sel.Obj().(*types.Func); ok {
				return fn, f.X
			}
			return nil, nil
		}
		if fn, ok := a.info.Uses[f.Sel].(*types.Func); ok { // pkg.Func
			return fn, nil
		}
	}
	return nil, nil
}

// implementations of an interface method among the library's named types
func (pv *prov) implementations(iface *types.Interface, name string) []*pfunc {
	var res []*pfunc
	for _, n := range pv.libNamed {
		if _, isI := n.Underlying().(*types.Interface); isI {
			continue
		}
		if !types.Implements(n, iface) && !types.Implements(types.NewPointer(n), iface) {
			continue
		}
		for i := 0; i < n.NumMethods(); i++ {
			if m := n.Method(i); m.Name() == name {
				if pf := pv.byObj[m]; pf != nil {
					res = append(res, pf)
				}
			}
		}
	}
	return res
}

func (a *fa) subst(summary oset, args []oset) oset {
	o := oset{}
	for p := range summary {
		if p.k == kParam {
			if p.i < len(args) {
				o.add(args[p.i])
			}
		} else {
			o[p] = true
		}
	}
	return o
}

func (a *fa) nresults(c *ast.CallExpr) int {
	t := a.typeOf(c)
	if t == nil {
		return 0
	}
	if tu, ok := t.(*types.Tuple); ok {
		return tu.Len()
	}
	return 1
}

func (a *fa) resultCarries(c *ast.CallExpr, i int) bool {
	t := a.typeOf(c)
	if tu, ok := t.(*types.Tuple); ok {
		return i < tu.Len() && a.pv.carries(tu.At(i).Type())
	}
	return i == 0 && a.pv.carries(t)
}

// call: evaluates a call: emits the argument sites and returns the sources of each result
func (a *fa) call(c *ast.CallExpr) []oset {
	nres := a.nresults(c)
	res := make([]oset, nres)
	for i := range res {
		res[i] = oset{}
	}
	// conversion
	if tv, ok := a.info.Types[c.Fun]; ok && tv.IsType() {
		if len(c.Args) != 1 || nres != 1 {
			return res
		}
		from := a.typeOf(c.Args[0])
		if isString(from) || isString(tv.Type) {
			return res
		}
		res[0] = a.read(c.Args[0])
		return res
	}
	// builtin
	if id, ok := c.Fun.(*ast.Ident); ok {
		if _, isB := a.info.Uses[id].(*types.Builtin); isB {
			switch id.Name {
			case "append":
				if len(c.Args) > 0 && nres == 1 {
					res[0] = a.read(c.Args[0])
					if sl, ok := a.typeOf(c.Args[0]).Underlying().(*types.Slice); ok && a.pv.carries(sl.Elem()) {
						for _, y := range c.Args[1:] {
							res[0].add(a.read(y))
						}
					}
				}
			case "copy":
				if len(c.Args) == 2 {
					if sl, ok := a.typeOf(c.Args[0]).Underlying().(*types.Slice); ok && a.pv.carries(sl.Elem()) {
						a.storeContainer(c.Args[0], a.read(c.Args[1]), valStr(c.Args[1]))
					}
				}
			case "make", "new", "len", "cap", "delete", "panic", "print", "println", "close", "min", "max", "clear", "recover":
			default:
				for i := range res {
					res[i] = a.unk("builtin "+id.Name, c)
				}
			}
			return res
		}
	}
	if fl, ok := c.Fun.(*ast.FuncLit); ok { // immediately invoked literal: its body is walked with the function; arguments flow into its parameters
		if fl.Type.Params != nil {
			k := 0
			for _, fld := range fl.Type.Params.List {
				for _, nm := range fld.Names {
					if k < len(c.Args) {
						if v, ok := a.info.Defs[nm].(*types.Var); ok && a.pv.carries(v.Type()) {
							a.storeVar(v, a.read(c.Args[k]), nm.Pos())
						}
					}
					k++
				}
			}
		}
		for i := range res {
			if a.resultCarries(c, i) {
				res[i] = a.unk("result of a function literal", c)
			}
		}
		return res
	}
	fn, recv := a.callee(c)
	if fn == nil {
		// call through a function value
		for _, x := range c.Args {
			if a.pv.carries(a.typeOf(x)) {
				if o := a.read(x); len(o) > 0 {
					a.site(a.f.name+":call "+valStr(c.Fun)+"("+valStr(x)+")", "extern:funcvalue", o)
				}
			}
		}
		for i := range res {
			if a.resultCarries(c, i) {
				res[i] = a.unk("result of the function value "+valStr(c.Fun), c)
			}
		}
		return res
	}
	// actual arguments, receiver first
	sig := fn.Type().(*types.Signature)
	var argE []ast.Expr
	if sig.Recv() != nil {
		argE = append(argE, recv)
	}
	argE = append(argE, c.Args...)
	args := make([]oset, len(argE))
	for i, x := range argE {
		if x == nil {
			args[i] = oset{}
			continue
		}
		t := a.typeOf(x)
		if t != nil && !a.pv.carries(t) {
			if cc, ok := x.(*ast.CallExpr); ok {
				a.call(cc)
			}
			args[i] = oset{}
			continue
		}
		args[i] = a.read(x)
	}
	var cands []*pfunc
	if pf := a.pv.byObj[fn]; pf != nil {
		cands = []*pfunc{pf}
	} else if sig.Recv() != nil {
		if it, ok := sig.Recv().Type().Underlying().(*types.Interface); ok && (isLib(fn.Pkg()) || true) {
			cands = a.pv.implementations(it, fn.Name())
		}
	}
	if len(cands) > 0 {
		variadic := sig.Variadic()
		for _, pf := range cands {
			for i, x := range argE {
				pi := i
				if pi >= len(pf.params) {
					if variadic {
						pi = len(pf.params) - 1
					} else {
						continue
					}
				}
				if x == nil || !a.pv.carries(pf.params[pi].Type()) {
					continue
				}
				cls := fmt.Sprintf("arg:%s#%d", pf.name, pi)
				a.site("arg", cls, args[i])
				if sharedContainer(a.pv, pf.params[pi].Type()) { // the callee may have stored into the container we passed
					a.storeContainer(x, oset{psrc{k: kCls, s: fmt.Sprintf("argout:%s#%d", pf.name, pi)}: true}, "arg")
				}
			}
			for i := range res {
				if i < len(pf.ret) && !summaryOverride[pf.name] {
					res[i].add(a.subst(pf.ret[i], args))
				}
			}
		}
		return res
	}
	// outside the library
	name := extName(fn)
	if it, ok := func() (*types.Interface, bool) {
		if sig.Recv() == nil {
			return nil, false
		}
		it, ok := sig.Recv().Type().Underlying().(*types.Interface)
		return it, ok
	}(); ok && it != nil && isLib(fn.Pkg()) {
		// library interface without implementation in the library
		name = extName(fn)
	}
	kind, known := externResult[name]
	for _, pre := range externAliasPrefix {
		if !known && strings.HasPrefix(name, pre) {
			kind, known = "alias", true
		}
	}
	all := union(args...)
	for i := range res {
		if !a.resultCarries(c, i) {
			continue
		}
		switch {
		case known && kind == "fresh":
		case known && kind == "alias":
			res[i] = union(all)
		default:
			res[i] = a.unk("result of "+name, c)
		}
	}
	if externStores[name] && recv != nil {
		a.storeContainer(recv, union(args[1:]...), name)
	}
	if !(known || externNoRetain[name]) {
		for i, x := range argE {
			if x != nil && len(args[i]) > 0 {
				a.site(a.f.name+":"+name+"("+valStr(x)+")", "extern:"+name, args[i])
			}
		}
	}
	return res
}

// ---------------------------------------------------------------------------------------------
// statements

func (a *fa) assign(lhs []ast.Expr, rhs []ast.Expr) {
	if len(lhs) == len(rhs) {
		for i := range lhs {
			if a.pv.carries(a.typeOf(lhs[i])) || a.pv.carries(a.typeOf(rhs[i])) {
				a.store(lhs[i], a.read(rhs[i]), valStr(rhs[i]))
			} else if c, ok := rhs[i].(*ast.CallExpr); ok {
				a.call(c)
			}
		}
		return
	}
	if len(rhs) != 1 {
		return
	}
	switch r := rhs[0].(type) {
	case *ast.CallExpr:
		rs := a.call(r)
		for i := range lhs {
			if i < len(rs) && a.pv.carries(a.typeOf(lhs[i])) {
				a.store(lhs[i], rs[i], valStr(r))
			}
		}
	default: // v, ok := m[k] / x.(T) / <-ch
		if a.pv.carries(a.typeOf(lhs[0])) {
			var o oset
			switch rr := r.(type) {
			case *ast.IndexExpr:
				o = a.read(rr.X)
			case *ast.TypeAssertExpr:
				o = a.read(rr.X)
			case *ast.UnaryExpr:
				o = a.read(rr.X)
			default:
				o = a.unk("tuple assignment", r)
			}
			a.store(lhs[0], o, valStr(r))
		}
	}
}

func (a *fa) chanClass(ch ast.Expr) string {
	if sel, ok := ch.(*ast.SelectorExpr); ok {
		_, steps := a.chain(sel)
		if len(steps) > 0 {
			s := steps[len(steps)-1]
			return clsOf(s.owner, s.field).s
		}
	}
	return "chan:" + a.f.name + "." + valStr(ch)
}

func (a *fa) walk(body ast.Node) {
	ast.Inspect(body, func(n ast.Node) bool {
		switch x := n.(type) {
		case *ast.FuncLit:
			a.depth++
			a.walk(x.Body)
			a.depth--
			return false
		case *ast.AssignStmt:
			a.assign(x.Lhs, x.Rhs)
		case *ast.ValueSpec:
			if len(x.Values) > 0 {
				lhs := make([]ast.Expr, len(x.Names))
				for i, nm := range x.Names {
					lhs[i] = nm
				}
				a.assign(lhs, x.Values)
			}
		case *ast.RangeStmt:
			o := a.read(x.X)
			if x.Key != nil && a.pv.carries(a.typeOf(x.Key)) {
				a.store(x.Key, o, "range "+valStr(x.X))
			}
			if x.Value != nil && a.pv.carries(a.typeOf(x.Value)) {
				a.store(x.Value, o, "range "+valStr(x.X))
			}
		case *ast.SendStmt:
			if a.pv.carries(a.typeOf(x.Value)) {
				cls := a.chanClass(x.Chan)
				a.site(a.f.name+":"+valStr(x.Chan)+"<-"+valStr(x.Value), cls, a.read(x.Value))
				if id, ok := x.Chan.(*ast.Ident); ok { // local channel variable
					a.store(id, a.read(x.Value), valStr(x.Value))
				}
			}
		case *ast.GoStmt:
			callee := valStr(x.Call.Fun)
			if fn, _ := a.callee(x.Call); fn != nil {
				if pf := a.pv.byObj[fn]; pf != nil {
					callee = pf.name
				} else {
					callee = extName(fn)
				}
			}
			if fl, ok := x.Call.Fun.(*ast.FuncLit); ok {
				callee = a.f.name + ".func"
				a.site(a.f.name+":go func captures", "go:"+callee, a.captured(fl))
			}
			for _, arg := range x.Call.Args {
				if a.pv.carries(a.typeOf(arg)) {
					a.site(a.f.name+":go "+callee+"("+valStr(arg)+")", "go:"+callee, a.read(arg))
				}
			}
			if sel, ok := x.Call.Fun.(*ast.SelectorExpr); ok { // the receiver of a method started as a goroutine
				if a.pv.carries(a.typeOf(sel.X)) {
					a.site(a.f.name+":go "+callee+" receiver "+valStr(sel.X), "go:"+callee, a.read(sel.X))
				}
			}
		case *ast.ReturnStmt:
			if a.depth == 0 {
				if len(x.Results) == len(a.f.ret) {
					for i, r := range x.Results {
						if a.f.ret[i].add(a.read(r)) {
							a.pv.changed = true
						}
					}
				} else if len(x.Results) == 1 {
					if c, ok := x.Results[0].(*ast.CallExpr); ok {
						rs := a.call(c)
						for i := range a.f.ret {
							if i < len(rs) && a.f.ret[i].add(rs[i]) {
								a.pv.changed = true
							}
						}
					}
				}
			}
		case *ast.CallExpr:
			a.call(x)
		case *ast.TypeSwitchStmt:
			var src ast.Expr
			switch s := x.Assign.(type) {
			case *ast.AssignStmt:
				if ta, ok := s.Rhs[0].(*ast.TypeAssertExpr); ok {
					src = ta.X
				}
			case *ast.ExprStmt:
				if ta, ok := s.X.(*ast.TypeAssertExpr); ok {
					src = ta.X
				}
			}
			if src != nil {
				o := a.read(src)
				for _, cl := range x.Body.List {
					if v, ok := a.info.Implicits[cl].(*types.Var); ok && a.pv.carries(v.Type()) {
						a.storeVar(v, o, cl.Pos())
					}
				}
			}
		case *ast.CompositeLit:
			a.read(x) // sites of &T{…} written in argument position etc. (idempotent)
		case *ast.UnaryExpr:
			if x.Op == token.AND {
				if _, ok := x.X.(*ast.CompositeLit); ok {
					a.read(x)
					return false
				}
			}
		}
		return true
	})
}

func (a *fa) run() {
	a.computeKills()
	a.walk(a.f.decl.Body)
	// named results
	if a.depth == 0 {
		for i, v := range a.f.results {
			if v != nil && i < len(a.f.ret) {
				if a.f.ret[i].add(a.readVar(v, token.NoPos)) {
					a.pv.changed = true
				}
			}
		}
	}
}

// ---------------------------------------------------------------------------------------------

// markExposed: locations (local variables, struct fields) of which the address is taken, explicitly (&x, &x.f) or by calling a
// pointer-receiver method on them; the address of an element or of another expression exposes its whole type
func (pv *prov) markExposed(p *packages.Package) {
	info := p.TypesInfo
	var mark func(e ast.Expr)
	mark = func(e ast.Expr) {
		t := info.Types[e].Type
		if t == nil || !pv.carries(t) {
			return
		}
		if _, ok := t.Underlying().(*types.Struct); !ok {
			return
		}
		switch x := e.(type) {
		case *ast.ParenExpr:
			mark(x.X)
			return
		case *ast.Ident:
			if v, ok := info.Uses[x].(*types.Var); ok {
				pv.exposedV[v] = true
				return
			}
		case *ast.SelectorExpr:
			if sel, ok := info.Selections[x]; ok && sel.Kind() == types.FieldVal {
				if v, ok := sel.Obj().(*types.Var); ok {
					pv.exposedV[v] = true
					return
				}
			}
		case *ast.StarExpr:
			return
		}
		if n, ok := t.(*types.Named); ok {
			pv.exposed[n] = true
		}
	}
	for _, f := range p.Syntax {
		ast.Inspect(f, func(n ast.Node) bool {
			switch x := n.(type) {
			case *ast.UnaryExpr:
				if x.Op == token.AND {
					if _, ok := x.X.(*ast.CompositeLit); !ok {
						mark(x.X)
					}
				}
			case *ast.SelectorExpr:
				if sel, ok := info.Selections[x]; ok && sel.Kind() == types.MethodVal {
					if fn, ok := sel.Obj().(*types.Func); ok {
						if r := fn.Type().(*types.Signature).Recv(); r != nil {
							if _, ptrRecv := r.Type().(*types.Pointer); ptrRecv {
								if rt := info.Types[x.X].Type; rt != nil {
									if _, isP := rt.Underlying().(*types.Pointer); !isP {
										mark(x.X)
									}
								}
							}
						}
					}
				}
			}
			return true
		})
	}
}

func provFacts(pkgs []*packages.Package, b *strings.Builder) {
	pv := &prov{funcs: map[string]*pfunc{}, byObj: map[*types.Func]*pfunc{}, sites: map[string]*psite{}, exposed: map[*types.Named]bool{}, exposedV: map[*types.Var]bool{},
		unknown: map[string]bool{}, transient: map[string]bool{}, carryMem: map[types.Type]int{}}
	var lib []*packages.Package
	for _, p := range pkgs {
		if strings.HasPrefix(p.PkgPath, "github.com/irai/packet") {
			lib = append(lib, p)
		}
	}
	sort.Slice(lib, func(i, j int) bool { return lib[i].PkgPath < lib[j].PkgPath })
	pv.pkgs = lib
	var order []*pfunc
	for _, p := range lib {
		sc := p.Types.Scope()
		for _, nm := range sc.Names() {
			if tn, ok := sc.Lookup(nm).(*types.TypeName); ok {
				if n, ok := tn.Type().(*types.Named); ok {
					pv.libNamed = append(pv.libNamed, n)
				}
			}
		}
		pv.markExposed(p)
		for _, f := range p.Syntax {
			for _, d := range f.Decls {
				fd, ok := d.(*ast.FuncDecl)
				if !ok || fd.Body == nil {
					continue
				}
				obj, _ := p.TypesInfo.Defs[fd.Name].(*types.Func)
				if obj == nil {
					continue
				}
				sig := obj.Type().(*types.Signature)
				pf := &pfunc{decl: fd, pkg: p, obj: obj, pidx: map[*types.Var]int{}, env: map[vkey]oset{}, api: ast.IsExported(fd.Name.Name) || fd.Name.Name == "init" || fd.Name.Name == "main"}
				pf.name = short(p.PkgPath) + "."
				if r := sig.Recv(); r != nil {
					pf.params = append(pf.params, r)
					pf.name += strings.TrimPrefix(typeName(r.Type()), short(p.PkgPath)+".") + "."
				}
				pf.name += fd.Name.Name
				for i := 0; i < sig.Params().Len(); i++ {
					pf.params = append(pf.params, sig.Params().At(i))
				}
				for i, v := range pf.params {
					pf.pidx[v] = i
				}
				for i := 0; i < sig.Results().Len(); i++ {
					pf.ret = append(pf.ret, oset{})
					v := sig.Results().At(i)
					if v.Name() == "" || v.Name() == "_" {
						v = nil
					}
					pf.results = append(pf.results, v)
				}
				pf.key = pf.name
				if pv.funcs[pf.key] != nil { // init functions, build-tagged duplicates
					pf.key = fmt.Sprintf("%s@%d", pf.name, len(pv.funcs))
					pf.name = pf.key
				}
				pv.funcs[pf.key] = pf
				pv.byObj[obj] = pf
				order = append(order, pf)
			}
		}
	}
	// functions used as values (not in call position) may be called by anybody
	for _, p := range lib {
		for _, f := range p.Syntax {
			calls := map[*ast.Ident]bool{}
			ast.Inspect(f, func(n ast.Node) bool {
				if c, ok := n.(*ast.CallExpr); ok {
					fun := c.Fun
					if pe, ok := fun.(*ast.ParenExpr); ok {
						fun = pe.X
					}
					switch x := fun.(type) {
					case *ast.Ident:
						calls[x] = true
					case *ast.SelectorExpr:
						calls[x.Sel] = true
					}
				}
				return true
			})
			ast.Inspect(f, func(n ast.Node) bool {
				if id, ok := n.(*ast.Ident); ok && !calls[id] {
					if fn, ok := p.TypesInfo.Uses[id].(*types.Func); ok {
						if pf := pv.byObj[fn]; pf != nil {
							pf.api = true
						}
					}
				}
				return true
			})
		}
	}
	for round := 0; round < 40; round++ {
		pv.changed = false
		for _, pf := range order {
			a := &fa{pv: pv, f: pf, info: pf.pkg.TypesInfo}
			if pf.api {
				for i, v := range pf.params {
					if pv.carries(v.Type()) {
						a.site("api", fmt.Sprintf("arg:%s#%d", pf.name, i), oset{psrc{k: kPkt}: true})
					}
				}
			}
			a.run()
		}
		if !pv.changed {
			break
		}
		if round == 39 {
			pv.unknown["fixed point not reached in 40 rounds"] = true
		}
	}
	pv.emit(b)
}

func (pv *prov) emit(b *strings.Builder) {
	// classes: retention classes first (sorted), then the arg pseudo-classes
	clsSet := map[string]bool{}
	for _, s := range pv.sites {
		clsSet[s.cls] = true
		for p := range s.rhs {
			if p.k == kCls {
				clsSet[p.s] = true
			}
		}
	}
	var ret, pseudo []string
	for c := range clsSet {
		if strings.HasPrefix(c, "arg:") || strings.HasPrefix(c, "argout:") {
			pseudo = append(pseudo, c)
		} else {
			ret = append(ret, c)
		}
	}
	sort.Strings(ret)
	sort.Strings(pseudo)
	names := append(append([]string{}, ret...), pseudo...)
	id := map[string]int{}
	for i, c := range names {
		id[c] = i
	}
	var unk []string
	for u := range pv.unknown {
		unk = append(unk, u)
	}
	sort.Strings(unk)
	uid := map[string]int{}
	for i, u := range unk {
		uid[u] = i
	}
	// taint closure (certificate; checked in Lean)
	taint := map[string]bool{}
	tainted := func(o oset) bool {
		for p := range o {
			if p.k == kPkt || p.k == kUnk || (p.k == kCls && taint[p.s]) {
				return true
			}
		}
		return false
	}
	for ch := true; ch; {
		ch = false
		for _, s := range pv.sites {
			if !taint[s.cls] && tainted(s.rhs) {
				taint[s.cls] = true
				ch = true
			}
		}
	}
	var keys []string
	for k := range pv.sites {
		keys = append(keys, k)
	}
	sort.Slice(keys, func(i, j int) bool {
		a, c := pv.sites[keys[i]], pv.sites[keys[j]]
		if id[a.cls] != id[c.cls] {
			return id[a.cls] < id[c.cls]
		}
		return a.name < c.name
	})
	var rows []string
	for _, k := range keys {
		s := pv.sites[k]
		var srcs []string
		for p := range s.rhs {
			switch p.k {
			case kPkt:
				srcs = append(srcs, "(1, 0)")
			case kCls:
				srcs = append(srcs, fmt.Sprintf("(2, %d)", id[p.s]))
			case kUnk:
				srcs = append(srcs, fmt.Sprintf("(3, %d)", uid[p.s]))
			}
		}
		sort.Strings(srcs)
		if len(srcs) == 0 {
			srcs = []string{"(0, 0)"}
		}
		rows = append(rows, fmt.Sprintf("(%q, %d, [%s])", s.name, id[s.cls], strings.Join(srcs, ", ")))
		if debugSites && tainted(s.rhs) && !strings.HasPrefix(s.cls, "arg") {
			fmt.Fprintf(os.Stderr, "TAINT\t%s\t%s\t%v\n", s.cls, s.name, srcs)
		}
	}
	var tl []string
	for i, c := range names {
		if taint[c] {
			tl = append(tl, fmt.Sprint(i))
		}
	}
	q := func(l []string) string {
		r := make([]string, len(l))
		for i, s := range l {
			r[i] = fmt.Sprintf("%q", s)
		}
		return strings.Join(r, ",\n  ")
	}
	exs := map[string]bool{}
	for n := range pv.exposed {
		exs["type "+typeName(n)] = true
	}
	for v := range pv.exposedV {
		if v.IsField() {
			exs["field "+v.Name()+" "+typeName(v.Type())] = true
		} else {
			exs["variable of "+typeName(v.Type())] = true
		}
	}
	var ex []string
	for e := range exs {
		ex = append(ex, e)
	}
	sort.Strings(ex)
	fmt.Fprintf(b, "/-- C10 provenance (F11): names of the classes; index = class id.  Ids below `provPseudoFrom` are retention classes\n    (record fields reached through a pointer, package variables, goroutine arguments, channels, external callees, closures),\n    the others are the parameter pseudo-classes arg:f#i -/\ndef provClassNames : List String := [\n  %s]\n\n", q(names))
	fmt.Fprintf(b, "def provPseudoFrom : Nat := %d\n\n", len(ret))
	fmt.Fprintf(b, "/-- C10 provenance: constructs / callees the taint analysis did not understand (the tie requires none) -/\ndef provUnknown : List String := [\n  %s]\n\n", q(unk))
	fmt.Fprintf(b, "/-- C10 provenance: locations (fields, variables by type) and types of which the address is taken (stores into them also count as stores into T.f) -/\ndef provExposed : List String := [\n  %s]\n\n", q(ex))
	var ov []string
	for o := range summaryOverride {
		ov = append(ov, o)
	}
	sort.Strings(ov)
	fmt.Fprintf(b, "/-- C10 provenance: library functions whose result the extractor takes to be fresh although their body does not show it -/\ndef provSummaryOverrides : List String := [\n  %s]\n\n", q(ov))
	var tl2 []string
	for o := range pv.transient {
		tl2 = append(tl2, o)
	}
	sort.Strings(tl2)
	fmt.Fprintf(b, "/-- C10 provenance: &T{…} literals the extractor takes to be transient records (their fields are not stores into T.f) -/\ndef provTransientLits : List String := [\n  %s]\n\n", q(tl2))
	fmt.Fprintf(b, "/-- C10 provenance: the site table: (site, class id, sources of the stored value); source (0,_) heap, (1,_) the packet buffer,\n    (2,c) read from class c, (3,u) unknown number u -/\ndef provSites : List (String × Nat × List (Nat × Nat)) := [\n  %s]\n\n", strings.Join(rows, ",\n  "))
	mask := new(big.Int)
	for i, c := range names {
		if taint[c] {
			mask.SetBit(mask, i, 1)
		}
	}
	fmt.Fprintf(b, "/-- C10 provenance: `provTaint` as a bit mask (bit c = class c) -/\ndef provTaintMask : Nat := %s\n\n", mask.String())
	fmt.Fprintf(b, "/-- C10 provenance: classes that may hold a reference into a packet buffer (closure computed by the extractor; Lean checks that it IS closed) -/\ndef provTaint : List Nat := [%s]\n\n", strings.Join(tl, ", "))
}
