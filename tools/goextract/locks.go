package main

import (
	"fmt"
	"go/ast"
	"go/types"
	"sort"
	"strings"

	"golang.org/x/tools/go/packages"
)

// Lock facts (F4).  A lock class is (named struct type, field) of a sync.Mutex / sync.RWMutex field
// (an embedded mutex is the field named after its type), or a package-level variable.
// For every function we walk the body in source order keeping the multiset of classes held
// (Lock/RLock add, Unlock/RUnlock remove, `defer x.Unlock()` keeps the lock to the end), and record
//   - an edge A→B whenever B is acquired while A is held (directly or by a callee, using callee
//     summaries = set of classes a callee may acquire, computed to a fixed point);
//   - `go` statements and function literals start with an empty held set (new goroutine / callback).
// Branches are walked sequentially with the held set restored after each branch (a lock released in
// only one branch is treated as still held afterwards: conservative for ordering edges).

type lockOp struct {
	class string
	kind  string // Lock RLock Unlock RUnlock
}

type funcInfo struct {
	key      string
	decl     *ast.FuncDecl
	pkg      *packages.Package
	acquires map[string]bool // classes this function (or callees) may acquire
}

func isMutex(t types.Type) bool {
	if p, ok := t.(*types.Pointer); ok {
		t = p.Elem()
	}
	n, ok := t.(*types.Named)
	if !ok || n.Obj().Pkg() == nil || n.Obj().Pkg().Path() != "sync" {
		return false
	}
	return n.Obj().Name() == "Mutex" || n.Obj().Name() == "RWMutex"
}

func short(path string) string {
	if i := strings.LastIndex(path, "/"); i >= 0 {
		return path[i+1:]
	}
	return path
}

// lockClass resolves the receiver expression of x.Lock() to a class name.
func lockClass(info *types.Info, recv ast.Expr) string {
	switch x := recv.(type) {
	case *ast.SelectorExpr:
		if sel, ok := info.Selections[x]; ok {
			if isMutex(sel.Obj().Type()) { // field of mutex type
				owner := sel.Recv()
				if p, ok := owner.(*types.Pointer); ok {
					owner = p.Elem()
				}
				// walk the embedding path to find the struct that declares the field
				if n, ok := owner.(*types.Named); ok {
					return short(n.Obj().Pkg().Path()) + "." + n.Obj().Name() + "." + sel.Obj().Name()
				}
				return "anon." + sel.Obj().Name()
			}
		}
		// package-level struct variable with embedded mutex: icmpTable.Lock()
		return lockClass(info, x.X)
	case *ast.Ident:
		obj := info.Uses[x]
		if obj == nil {
			return "?"
		}
		t := obj.Type()
		if p, ok := t.(*types.Pointer); ok {
			t = p.Elem()
		}
		if n, ok := t.(*types.Named); ok {
			return short(n.Obj().Pkg().Path()) + "." + n.Obj().Name() + ".Mutex"
		}
		if obj.Pkg() != nil {
			return short(obj.Pkg().Path()) + "." + obj.Name()
		}
	}
	return "?"
}

func funcKey(obj types.Object) string {
	f, ok := obj.(*types.Func)
	if !ok {
		return ""
	}
	sig := f.Type().(*types.Signature)
	if r := sig.Recv(); r != nil {
		t := r.Type()
		if p, ok := t.(*types.Pointer); ok {
			t = p.Elem()
		}
		if n, ok := t.(*types.Named); ok && n.Obj().Pkg() != nil {
			return n.Obj().Pkg().Path() + "." + n.Obj().Name() + "." + f.Name()
		}
		return ""
	}
	if f.Pkg() == nil {
		return ""
	}
	return f.Pkg().Path() + "." + f.Name()
}

type walker struct {
	fi     *funcInfo
	funcs  map[string]*funcInfo
	edges  map[[2]string]string // (A,B) → first site
	sites  map[string]int
	held     []string
	deferred []string // classes released by a deferred Unlock/RUnlock
	change   bool
}

func (w *walker) acquire(class string, pos string) {
	for _, h := range w.held {
		k := [2]string{h, class}
		if _, ok := w.edges[k]; !ok {
			w.edges[k] = pos
		}
	}
	if !w.fi.acquires[class] {
		w.fi.acquires[class] = true
		w.change = true
	}
}

func (w *walker) call(info *types.Info, c *ast.CallExpr, deferred bool) {
	var obj types.Object
	switch f := c.Fun.(type) {
	case *ast.SelectorExpr:
		name := f.Sel.Name
		if name == "Lock" || name == "RLock" || name == "Unlock" || name == "RUnlock" {
			if sel, ok := info.Selections[f]; ok {
				if fn, ok := sel.Obj().(*types.Func); ok && fn.Pkg() != nil && fn.Pkg().Path() == "sync" {
					class := lockClass(info, f.X)
					pos := fset.Position(c.Pos())
					site := fmt.Sprintf("%s:%d", short(pos.Filename), pos.Line)
					switch name {
					case "Lock", "RLock":
						w.acquire(class, site)
						w.held = append(w.held, class)
					default:
						if deferred {
							w.deferred = append(w.deferred, class)
							return // held until the function returns
						}
						for i := len(w.held) - 1; i >= 0; i-- {
							if w.held[i] == class {
								w.held = append(w.held[:i], w.held[i+1:]...)
								break
							}
						}
					}
					return
				}
			}
		}
		obj = info.Uses[f.Sel]
	case *ast.Ident:
		obj = info.Uses[f]
	}
	if obj == nil {
		return
	}
	if callee, ok := w.funcs[funcKey(obj)]; ok {
		pos := fset.Position(c.Pos())
		site := fmt.Sprintf("%s:%d→%s", short(pos.Filename), pos.Line, obj.Name())
		var cs []string
		for cl := range callee.acquires {
			cs = append(cs, cl)
		}
		sort.Strings(cs)
		for _, cl := range cs {
			w.acquire(cl, site)
		}
	}
}

func (w *walker) stmts(info *types.Info, list []ast.Stmt) {
	for _, s := range list {
		w.stmt(info, s)
	}
}

func (w *walker) exprCalls(info *types.Info, n ast.Node) {
	ast.Inspect(n, func(x ast.Node) bool {
		switch y := x.(type) {
		case *ast.FuncLit:
			saved := w.held
			w.held = nil
			w.stmts(info, y.Body.List)
			w.held = saved
			return false
		case *ast.CallExpr:
			for _, a := range y.Args {
				w.exprCalls(info, a)
			}
			w.call(info, y, false)
			if fl, ok := y.Fun.(*ast.FuncLit); ok {
				_ = fl
			} else if se, ok := y.Fun.(*ast.SelectorExpr); ok {
				w.exprCalls(info, se.X)
			}
			return false
		}
		return true
	})
}

func (w *walker) branch(info *types.Info, body []ast.Stmt) {
	saved := append([]string{}, w.held...)
	w.stmts(info, body)
	w.held = saved
}

func (w *walker) stmt(info *types.Info, s ast.Stmt) {
	switch x := s.(type) {
	case nil:
	case *ast.BlockStmt:
		w.stmts(info, x.List)
	case *ast.GoStmt:
		saved := w.held
		w.held = nil
		if fl, ok := x.Call.Fun.(*ast.FuncLit); ok {
			w.stmts(info, fl.Body.List)
		} else {
			w.call(info, x.Call, false)
		}
		w.held = saved
	case *ast.DeferStmt:
		if fl, ok := x.Call.Fun.(*ast.FuncLit); ok {
			w.branch(info, fl.Body.List)
		} else {
			w.call(info, x.Call, true)
		}
	case *ast.IfStmt:
		w.stmt(info, x.Init)
		w.exprCalls(info, x.Cond)
		// a branch that ends in return/continue/break does not fall through: its releases do not count afterwards
		w.branchIf(info, x.Body.List)
		if x.Else != nil {
			switch e := x.Else.(type) {
			case *ast.BlockStmt:
				w.branchIf(info, e.List)
			default:
				w.stmt(info, e)
			}
		}
	case *ast.ForStmt:
		w.stmt(info, x.Init)
		if x.Cond != nil {
			w.exprCalls(info, x.Cond)
		}
		w.branch(info, x.Body.List)
	case *ast.RangeStmt:
		w.exprCalls(info, x.X)
		w.branch(info, x.Body.List)
	case *ast.SwitchStmt:
		w.stmt(info, x.Init)
		if x.Tag != nil {
			w.exprCalls(info, x.Tag)
		}
		for _, c := range x.Body.List {
			cc := c.(*ast.CaseClause)
			for _, e := range cc.List {
				w.exprCalls(info, e)
			}
			w.branch(info, cc.Body)
		}
	case *ast.TypeSwitchStmt:
		for _, c := range x.Body.List {
			w.branch(info, c.(*ast.CaseClause).Body)
		}
	case *ast.SelectStmt:
		for _, c := range x.Body.List {
			w.branch(info, c.(*ast.CommClause).Body)
		}
	case *ast.LabeledStmt:
		w.stmt(info, x.Stmt)
	default:
		w.exprCalls(info, s)
	}
}

func terminates(list []ast.Stmt) bool {
	if len(list) == 0 {
		return false
	}
	switch x := list[len(list)-1].(type) {
	case *ast.ReturnStmt:
		return true
	case *ast.BranchStmt:
		return true
	case *ast.ExprStmt:
		if c, ok := x.X.(*ast.CallExpr); ok {
			if id, ok := c.Fun.(*ast.Ident); ok && id.Name == "panic" {
				return true
			}
		}
	}
	return false
}

// branchIf walks an if-branch: when it falls through, its lock releases take effect (the common
// `if cond { mu.Unlock(); return }` keeps the lock on the fall-through path; `mu.Unlock()` in a
// falling-through branch is taken as released).
func (w *walker) branchIf(info *types.Info, body []ast.Stmt) {
	saved := append([]string{}, w.held...)
	w.stmts(info, body)
	if terminates(body) {
		w.held = saved
	}
}

func lockFacts(pkgs []*packages.Package, b *strings.Builder) {
	funcs := map[string]*funcInfo{}
	var order []string
	for _, p := range pkgs {
		if !strings.HasPrefix(p.PkgPath, "github.com/irai/packet") {
			continue
		}
		for _, f := range p.Syntax {
			for _, d := range f.Decls {
				fd, ok := d.(*ast.FuncDecl)
				if !ok || fd.Body == nil {
					continue
				}
				obj := p.TypesInfo.Defs[fd.Name]
				if obj == nil {
					continue
				}
				k := funcKey(obj)
				funcs[k] = &funcInfo{key: k, decl: fd, pkg: p, acquires: map[string]bool{}}
				order = append(order, k)
			}
		}
	}
	sort.Strings(order)
	edges := map[[2]string]string{}
	unbalanced := map[string]bool{}
	for iter := 0; iter < 20; iter++ {
		change := false
		for _, k := range order {
			fi := funcs[k]
			w := &walker{fi: fi, funcs: funcs, edges: edges}
			w.stmts(fi.pkg.TypesInfo, fi.decl.Body.List)
			change = change || w.change
			// balance: what is still held at the end must be released by a deferred unlock
			left := append([]string{}, w.held...)
			for _, d := range w.deferred {
				for i, h := range left {
					if h == d {
						left = append(left[:i], left[i+1:]...)
						break
					}
				}
			}
			if len(left) > 0 {
				unbalanced[short(k)+":"+strings.Join(left, "+")] = true
			}
		}
		if !change {
			break
		}
	}
	var ub []string
	for k := range unbalanced {
		ub = append(ub, fmt.Sprintf("%q", k))
	}
	sort.Strings(ub)
	fmt.Fprintf(b, "/-- F4: functions that may return still holding a lock (must be empty) -/\ndef unbalanced : List String := [%s]\n\n", strings.Join(ub, ", "))
	classes := map[string]bool{}
	for _, k := range order {
		for c := range funcs[k].acquires {
			classes[c] = true
		}
	}
	var cl []string
	for c := range classes {
		cl = append(cl, c)
	}
	sort.Strings(cl)
	var es []string
	var keys [][2]string
	for k := range edges {
		keys = append(keys, k)
	}
	sort.Slice(keys, func(i, j int) bool {
		if keys[i][0] != keys[j][0] {
			return keys[i][0] < keys[j][0]
		}
		return keys[i][1] < keys[j][1]
	})
	for _, k := range keys {
		es = append(es, fmt.Sprintf("(%q, %q, %q)", k[0], k[1], edges[k]))
	}
	var q []string
	for _, c := range cl {
		q = append(q, fmt.Sprintf("%q", c))
	}
	fmt.Fprintf(b, "/-- F4: lock classes (struct.field of type sync.Mutex/RWMutex) acquired anywhere in the module -/\ndef lockClasses : List String := [%s]\n\n", strings.Join(q, ", "))
	fmt.Fprintf(b, "/-- F4: (held, acquired, first site): `acquired` is taken (directly or by a callee) while `held` is held -/\ndef lockEdges : List (String × String × String) := [\n  %s]\n\n", strings.Join(es, ",\n  "))
}
