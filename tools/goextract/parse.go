package main

// F11: the BODY of `(*Session).Parse` (layer_frame.go) and of the `Frame` accessors, translated statement by
// statement into Lean source (Gen/ParseGen.lean, regenerated on every run).  Props/C01ParseTie.lean proves
// `Gen.genParse cfg p = Model.parse cfg p` for every configuration and byte string, and the accessor equations.
//
//	state        the named result `frame` is the record `fr : Model.Frame`; `frame.ether = p` (first statement) makes
//	             `frame.ether` an alias of the packet `p`; `frame.Session = h` makes `frame.Session.X` an alias of `h.X`
//	frame fields offsetIP4/IP6/UDP/TCP/Payload, PayloadID, Src/DstAddr.MAC/IP/Port → offIP4 … dstPort (record updates)
//	session      h.NICInfo.HostAddr4.MAC → cfg.hostMAC   RouterAddr4.MAC → cfg.routerMAC
//	             h.NICInfo.HomeLAN4.Contains(x) → Netip.prefixContains cfg.lanAddr cfg.lanBits x        (`parseCfgReads`)
//	statements   x := e / x = e / var x T / frame.F = e / frame.F += e / return F, E
//	             if err := v.IsValid(); err != nil { … }    → match on the regenerated predicate genValid<T> (F10)
//	             if [x = e;] c { … } [else …]                with Go's short-circuit evaluation of c
//	             switch tag { case consts: … default: … }    constants through go/types, default last
//	             switch { case c: … }                        ordered conditions
//	             frame.Host, _ = S.findOrCreateHostWithLock(a)   → hostEv := some (a.MAC, a.IP)
//	             echoNotify(e)                                 → echo := some e
//	control      a statement list that can fall off its end continues with the statements after the enclosing
//	             if/switch: nothing → the outer continuation; a single `return` → copied; otherwise a join-point
//	             definition `genParse_j<N> cfg p fr <live locals>` (numbered in source order) that every falling-through
//	             branch calls.  `break`, `fallthrough`, `goto`, loops, bare `return`: refused.
//	expressions  v.G() for a view-typed byte slice v: the getter body re-translated NOW by the getter translator (F5):
//	             integers → `NE.eval v <term>`, p[a:b] / p[a:] / netip.AddrFromN(p[a:a+N]) → `slice v a b` / `sliceFrom v a`;
//	             frame.M() for an accessor M of Frame → its own translated body `genFrame<M>B fr p`;
//	             irregular callees by model function (`parseCallees`, pinned): Ether.HeaderLen = etherHeaderLen,
//	             netip.Addr.IsLinkLocalUnicast / IsGlobalUnicast = Model.Netip; f(x) for a one-expression predicate f
//	             of package packet (IsUnicastMAC) → its re-translated body
//	             integers carry an upper bound (flow-sensitive for frame fields and locals, merged at join points);
//	             an addition whose bound does not fit its Go type is refused (Lean computes in ℕ)
//	ignored      statements with no counterpart in the model are NOT dropped silently: only the four shapes
//	             h.Statistics[c].Count++ | atomic.StoreUint32(&h.f, c) | frame.Session = h |
//	             if S.checkOnlineTransition(frame.Host) { frame.flags = frame.markOnlineTransition() }
//	             are accepted, and each occurrence is listed (with its switch-case path) in `parseIgnoredStmts`
//	anything else → `parseUntranslated` (the tie theorem `parse_translated_total` then fails)

import (
	"fmt"
	"go/ast"
	"go/token"
	"go/types"
	"math/big"
	"sort"
	"strings"

	"golang.org/x/tools/go/packages"
)

type pkind int

const (
	pNat pkind = iota
	pBytes
	pAddr
	pErr
)

type pvar struct {
	lean string
	kind pkind
}

type pterm struct {
	s    string
	pure bool
	ub   *big.Int
}

type pdef struct {
	name   string
	params string
	doc    string
	lines  []string
	calls  map[string]bool
}

type pjoin struct {
	def    *pdef
	stmts  []ast.Stmt
	k      *pcont
	locals map[types.Object]*pvar
	args   []types.Object
	ubs    map[string]*big.Int
	sess   bool
	called bool
	ctx    []string
}

// continuation of a statement list that falls off its end
type pcont struct {
	join *pjoin     // call of a join point, or
	dup  []ast.Stmt // a single return statement, copied
}

type pstate struct {
	locals map[types.Object]*pvar
	ubs    map[string]*big.Int
	sess   bool // frame.Session = h has been executed
	ctx    []string
}

func (s pstate) clone() pstate {
	n := pstate{locals: map[types.Object]*pvar{}, ubs: map[string]*big.Int{}, sess: s.sess, ctx: append([]string{}, s.ctx...)}
	for k, v := range s.locals {
		n.locals[k] = v
	}
	for k, v := range s.ubs {
		n.ubs[k] = v
	}
	return n
}

var parseCalleeFns = map[string]struct {
	fn string
	ub int64
}{
	"Ether.HeaderLen": {"etherHeaderLen", 22},
}

var netipPreds = map[string]string{"IsLinkLocalUnicast": "isLinkLocalUnicast", "IsGlobalUnicast": "isGlobalUnicast"}

var frameNatFields = map[string]string{"offsetIP4": "offIP4", "offsetIP6": "offIP6", "offsetUDP": "offUDP", "offsetTCP": "offTCP",
	"offsetPayload": "offPayload", "PayloadID": "pid", "SrcAddr.Port": "srcPort", "DstAddr.Port": "dstPort"}
var frameBytesFields = map[string]string{"SrcAddr.MAC": "srcMAC", "DstAddr.MAC": "dstMAC", "SrcAddr.IP": "srcIP", "DstAddr.IP": "dstIP"}
var sessBytesFields = map[string]string{"NICInfo.HostAddr4.MAC": "cfg.hostMAC", "NICInfo.RouterAddr4.MAC": "cfg.routerMAC"}

type parseTr struct {
	p        *packages.Package
	info     *types.Info
	frame    types.Object // the Frame value being built (named result of Parse / receiver of an accessor)
	sessObj  types.Object // receiver h of Parse
	pbuf     types.Object // parameter p of Parse
	ether    bool         // frame.ether aliases the packet
	accessor map[string]bool
	ignored  []string
	callees  map[string]bool
	cfgReads map[string]bool
	defs     []*pdef
	nj, nc   int
}

func (x *parseTr) emit(d *pdef, ind string, format string, a ...interface{}) {
	d.lines = append(d.lines, ind+fmt.Sprintf(format, a...))
}

// path resolves a chain of field selections to (root object, "A.B.C"); promoted fields are refused.
func (x *parseTr) path(e ast.Expr) (types.Object, string, bool) {
	e = paren(e)
	switch v := e.(type) {
	case *ast.Ident:
		if o := x.info.Uses[v]; o != nil {
			return o, "", true
		}
	case *ast.SelectorExpr:
		sel := x.info.Selections[v]
		if sel == nil || sel.Kind() != types.FieldVal || len(sel.Index()) != 1 {
			return nil, "", false
		}
		r, p, ok := x.path(v.X)
		if !ok {
			return nil, "", false
		}
		if p == "" {
			return r, v.Sel.Name, true
		}
		return r, p + "." + v.Sel.Name, true
	}
	return nil, "", false
}

// resolve maps a field path to ("frame"|"sess", path) using the recorded aliases.
func (x *parseTr) resolve(st *pstate, e ast.Expr) (string, string, error) {
	r, p, ok := x.path(e)
	if !ok || p == "" {
		return "", "", fail("expression %s is not a field path", nodeText(e))
	}
	switch {
	case r == x.frame && (p == "Session" || strings.HasPrefix(p, "Session.")):
		if !st.sess {
			return "", "", fail("%s read before `frame.Session = h` (nil dereference)", nodeText(e))
		}
		return "sess", strings.TrimPrefix(strings.TrimPrefix(p, "Session"), "."), nil
	case r == x.frame:
		return "frame", p, nil
	case x.sessObj != nil && r == x.sessObj:
		return "sess", p, nil
	}
	return "", "", fail("field path %s has an unknown root", nodeText(e))
}

func (x *parseTr) isSession(st *pstate, e ast.Expr) bool {
	if id, ok := paren(e).(*ast.Ident); ok {
		return x.sessObj != nil && x.info.Uses[id] == x.sessObj
	}
	root, p, err := x.resolve(st, e)
	return err == nil && root == "sess" && p == ""
}

func viewName(t types.Type) string {
	n, ok := t.(*types.Named)
	if !ok || n.Obj().Pkg() == nil || n.Obj().Pkg().Path() != "github.com/irai/packet" || !isByteSlice(t) {
		return ""
	}
	return n.Obj().Name()
}

func fitsType(ub *big.Int, t types.Type) bool {
	m := maxOf(t)
	return m != nil && ub.Cmp(m) <= 0
}

// bytes translates a byte-slice / net.HardwareAddr / netip.Addr valued expression.
func (x *parseTr) bytes(st *pstate, e ast.Expr) (pterm, error) {
	e = paren(e)
	switch v := e.(type) {
	case *ast.Ident:
		o := x.info.Uses[v]
		if x.pbuf != nil && o == x.pbuf {
			return pterm{s: "p", pure: true}, nil
		}
		if l, ok := st.locals[o]; ok && l.kind == pBytes {
			return pterm{s: l.lean, pure: true}, nil
		}
		return pterm{}, fail("identifier %s is not a byte-slice local", v.Name)
	case *ast.SelectorExpr:
		// field of a struct local (addr.MAC)
		if id, ok := paren(v.X).(*ast.Ident); ok {
			if l, ok := st.locals[x.info.Uses[id]]; ok && l.kind == pAddr && (v.Sel.Name == "MAC" || v.Sel.Name == "IP") {
				return pterm{s: l.lean + "_" + v.Sel.Name, pure: true}, nil
			}
		}
		root, p, err := x.resolve(st, v)
		if err != nil {
			return pterm{}, err
		}
		if root == "frame" {
			if p == "ether" {
				if !x.ether {
					return pterm{}, fail("frame.ether read before `frame.ether = p`")
				}
				return pterm{s: "p", pure: true}, nil
			}
			if f, ok := frameBytesFields[p]; ok {
				return pterm{s: "fr." + f, pure: true}, nil
			}
		} else if f, ok := sessBytesFields[p]; ok {
			x.cfgReads["Session."+p+" = "+f] = true
			return pterm{s: f, pure: true}, nil
		}
		return pterm{}, fail("field %s has no counterpart in the model", nodeText(v))
	case *ast.SliceExpr:
		id, ok := paren(v.X).(*ast.Ident)
		if !ok {
			return pterm{}, fail("slice of a non-variable")
		}
		b, err := x.bytes(st, id)
		if err != nil {
			return pterm{}, err
		}
		g := &getterTr{p: x.p, info: x.info, recv: x.info.Uses[id]}
		lo, hi, err := g.sliceOfRecv(v)
		if err != nil {
			return pterm{}, err
		}
		if hi < 0 {
			return pterm{s: fmt.Sprintf("(sliceFrom %s %d)", b.s, lo)}, nil
		}
		return pterm{s: fmt.Sprintf("(slice %s %d %d)", b.s, lo, hi)}, nil
	case *ast.CallExpr:
		// conversion to a byte-slice type
		if tv, ok := x.info.Types[v.Fun]; ok && tv.IsType() && len(v.Args) == 1 {
			if !isByteSlice(tv.Type) || !isByteSlice(x.info.TypeOf(v.Args[0])) {
				return pterm{}, fail("conversion %s", nodeText(v))
			}
			return x.bytes(st, v.Args[0])
		}
		// netip.AddrFromN(*(*[N]byte)(v[a:b])) / AddrFromSlice(v[a:b]) on a local
		if netipFunc(x.info, v.Fun) != "" {
			var recv types.Object
			var name string
			ast.Inspect(v, func(n ast.Node) bool {
				if sl, ok := n.(*ast.SliceExpr); ok {
					if id, ok := paren(sl.X).(*ast.Ident); ok {
						recv, name = x.info.Uses[id], id.Name
					}
				}
				return true
			})
			l, ok := st.locals[recv]
			if recv == nil || !ok || l.kind != pBytes {
				return pterm{}, fail("netip constructor %s on something other than a byte-slice local (%s)", nodeText(v), name)
			}
			g := &getterTr{p: x.p, info: x.info, recv: recv}
			s, err := g.addr(v)
			if err != nil {
				return pterm{}, err
			}
			var k, n int
			if _, err := fmt.Sscanf(s, ".ip %d %d", &k, &n); err != nil {
				return pterm{}, fail("address term %s", s)
			}
			return pterm{s: fmt.Sprintf("(slice %s %d %d)", l.lean, k, k+n)}, nil
		}
		sel, ok := v.Fun.(*ast.SelectorExpr)
		if !ok || len(v.Args) != 0 {
			return pterm{}, fail("call %s", nodeText(v))
		}
		// accessor of the frame
		if id, ok := paren(sel.X).(*ast.Ident); ok && x.info.Uses[id] == x.frame {
			if !x.accessor[sel.Sel.Name] {
				return pterm{}, fail("Frame.%s is not a translated byte-slice accessor", sel.Sel.Name)
			}
			if !x.ether {
				return pterm{}, fail("accessor %s called before `frame.ether = p`", sel.Sel.Name)
			}
			return pterm{s: fmt.Sprintf("(genFrame%sB fr p)", sel.Sel.Name)}, nil
		}
		// getter of a view
		vn := viewName(x.info.TypeOf(sel.X))
		if vn == "" {
			return pterm{}, fail("method %s of a non-view receiver", nodeText(v))
		}
		recv, err := x.bytes(st, sel.X)
		if err != nil {
			return pterm{}, err
		}
		fd := findFunc(x.p, vn, sel.Sel.Name)
		if fd == nil {
			return pterm{}, fail("method %s.%s not found", vn, sel.Sel.Name)
		}
		g := &getterTr{p: x.p, info: x.info, typ: vn}
		s, err := g.getter(fd)
		if err != nil {
			return pterm{}, fail("getter %s.%s: %v", vn, sel.Sel.Name, err)
		}
		var a, b int
		var body string
		switch {
		case scan(s, ".span %d %d", &a, &b):
			body = fmt.Sprintf("slice %%s %d %d", a, b)
		case scan(s, ".ip %d %d", &a, &b):
			body = fmt.Sprintf("slice %%s %d %d", a, a+b)
		case scan(s, ".tail %d", &a):
			body = fmt.Sprintf("sliceFrom %%s %d", a)
		default:
			return pterm{}, fail("getter %s.%s = %s is not slice-valued", vn, sel.Sel.Name, s)
		}
		return x.onRecv(recv, body), nil
	}
	return pterm{}, fail("byte-slice expression form %T", e)
}

func scan(s, format string, a ...interface{}) bool {
	n, err := fmt.Sscanf(s, format, a...)
	return err == nil && n == len(a)
}

// onRecv applies `body` (a format with one %s for the receiver) to a possibly impure receiver term
func (x *parseTr) onRecv(recv pterm, body string) pterm {
	if recv.pure {
		return pterm{s: "(" + fmt.Sprintf(body, recv.s) + ")"}
	}
	return pterm{s: "(" + recv.s + " >>= fun v => " + fmt.Sprintf(body, "v") + ")"}
}

func plift(t pterm) string {
	if t.pure {
		return "(pure " + t.s + ")"
	}
	return t.s
}

// num translates an integer expression
func (x *parseTr) num(st *pstate, e ast.Expr) (pterm, error) {
	e = paren(e)
	if tv, ok := x.info.Types[e]; ok && tv.Value != nil {
		n, ok := constNat(x.info, e)
		if !ok || n < 0 {
			return pterm{}, fail("constant %s", nodeText(e))
		}
		return pterm{s: fmt.Sprint(n), pure: true, ub: big.NewInt(n)}, nil
	}
	ubOf := func(key string, t types.Type) *big.Int {
		if u, ok := st.ubs[key]; ok {
			return u
		}
		return maxOf(t)
	}
	switch v := e.(type) {
	case *ast.Ident:
		if l, ok := st.locals[x.info.Uses[v]]; ok && l.kind == pNat {
			return pterm{s: l.lean, pure: true, ub: ubOf(l.lean, x.info.TypeOf(v))}, nil
		}
		return pterm{}, fail("identifier %s is not an integer local", v.Name)
	case *ast.SelectorExpr:
		root, p, err := x.resolve(st, v)
		if err != nil {
			return pterm{}, err
		}
		if f, ok := frameNatFields[p]; ok && root == "frame" {
			return pterm{s: "fr." + f, pure: true, ub: ubOf("fr."+f, x.info.TypeOf(v))}, nil
		}
		return pterm{}, fail("field %s has no counterpart in the model", nodeText(v))
	case *ast.IndexExpr:
		b, err := x.bytes(st, v.X)
		if err != nil {
			return pterm{}, err
		}
		k, ok := constNat(x.info, v.Index)
		if !ok || k < 0 || !b.pure {
			return pterm{}, fail("index %s", nodeText(v))
		}
		return pterm{s: fmt.Sprintf("(byteN %s %d)", b.s, k), ub: big.NewInt(255)}, nil
	case *ast.CallExpr:
		if id, ok := v.Fun.(*ast.Ident); ok && id.Name == "len" && len(v.Args) == 1 {
			if _, isB := x.info.Uses[id].(*types.Builtin); isB {
				b, err := x.bytes(st, v.Args[0])
				if err != nil {
					return pterm{}, err
				}
				if !b.pure {
					return pterm{}, fail("len of a computed slice")
				}
				return pterm{s: b.s + ".length", pure: true, ub: bigLen}, nil
			}
		}
		if tv, ok := x.info.Types[v.Fun]; ok && tv.IsType() && len(v.Args) == 1 {
			t, err := x.num(st, v.Args[0])
			if err != nil {
				return t, err
			}
			if !fitsType(t.ub, tv.Type) {
				return t, fail("conversion %s may truncate", nodeText(v))
			}
			return t, nil
		}
		sel, ok := v.Fun.(*ast.SelectorExpr)
		if !ok || len(v.Args) != 0 {
			return pterm{}, fail("call %s", nodeText(v))
		}
		vn := viewName(x.info.TypeOf(sel.X))
		if vn == "" {
			return pterm{}, fail("method %s of a non-view receiver", nodeText(v))
		}
		recv, err := x.bytes(st, sel.X)
		if err != nil {
			return pterm{}, err
		}
		key := vn + "." + sel.Sel.Name
		if c, ok := parseCalleeFns[key]; ok {
			x.callees[fmt.Sprintf("%s = %s (≤ %d)", key, c.fn, c.ub)] = true
			t := x.onRecv(recv, c.fn+" %s")
			t.ub = big.NewInt(c.ub)
			return t, nil
		}
		g := &getterTr{p: x.p, info: x.info, typ: vn}
		t, err := g.method(sel.Sel.Name)
		if err != nil {
			return pterm{}, fail("getter %s: %v", key, err)
		}
		r := x.onRecv(recv, "NE.eval %s "+t.s)
		r.ub = t.ub
		return r, nil
	case *ast.BinaryExpr:
		if v.Op != token.ADD {
			return pterm{}, fail("operator %s", v.Op)
		}
		a, err := x.num(st, v.X)
		if err != nil {
			return a, err
		}
		b, err := x.num(st, v.Y)
		if err != nil {
			return b, err
		}
		ub := new(big.Int).Add(a.ub, b.ub)
		if !fitsType(ub, x.info.TypeOf(v)) {
			return a, fail("%s: value up to %v may not fit %v", nodeText(v), ub, x.info.TypeOf(v))
		}
		if a.pure && b.pure {
			return pterm{s: "(" + a.s + " + " + b.s + ")", pure: true, ub: ub}, nil
		}
		return pterm{s: "(opN (· + ·) " + plift(a) + " " + plift(b) + ")", ub: ub}, nil
	}
	return pterm{}, fail("integer expression form %T", e)
}

func pliftB(t pterm) string { return plift(t) }

// cond translates a boolean expression to a `Bool` term (pure) or an `Outcome Bool` term
func (x *parseTr) cond(st *pstate, e ast.Expr) (pterm, error) {
	e = paren(e)
	switch v := e.(type) {
	case *ast.UnaryExpr:
		if v.Op == token.NOT {
			c, err := x.cond(st, v.X)
			if err != nil {
				return c, err
			}
			if c.pure {
				return pterm{s: "(!" + c.s + ")", pure: true}, nil
			}
			return pterm{s: "(notB " + c.s + ")"}, nil
		}
	case *ast.BinaryExpr:
		switch v.Op {
		case token.LAND, token.LOR:
			a, err := x.cond(st, v.X)
			if err != nil {
				return a, err
			}
			b, err := x.cond(st, v.Y)
			if err != nil {
				return b, err
			}
			if a.pure && b.pure {
				op := map[token.Token]string{token.LAND: "&&", token.LOR: "||"}[v.Op]
				return pterm{s: "(" + a.s + " " + op + " " + b.s + ")", pure: true}, nil
			}
			fn := map[token.Token]string{token.LAND: "andThen", token.LOR: "orElse"}[v.Op]
			return pterm{s: "(" + fn + " " + pliftB(a) + " " + pliftB(b) + ")"}, nil
		case token.LSS, token.GTR, token.LEQ, token.GEQ, token.EQL, token.NEQ:
			if maxOf(x.info.TypeOf(v.X)) == nil || maxOf(x.info.TypeOf(v.Y)) == nil {
				return pterm{}, fail("comparison of non-integers %s", nodeText(v))
			}
			a, err := x.num(st, v.X)
			if err != nil {
				return a, err
			}
			b, err := x.num(st, v.Y)
			if err != nil {
				return b, err
			}
			op := map[token.Token]string{token.LSS: "<", token.GTR: ">", token.LEQ: "≤", token.GEQ: "≥", token.EQL: "=", token.NEQ: "≠"}[v.Op]
			if a.pure && b.pure {
				return pterm{s: "(decide (" + a.s + " " + op + " " + b.s + "))", pure: true}, nil
			}
			return pterm{s: "(rel (fun a b => decide (a " + op + " b)) " + plift(a) + " " + plift(b) + ")"}, nil
		}
	case *ast.CallExpr:
		// bytes.Equal(a, b)
		if sel, ok := v.Fun.(*ast.SelectorExpr); ok {
			if fn, ok := x.info.Uses[sel.Sel].(*types.Func); ok && fn.Pkg() != nil {
				switch {
				case fn.Pkg().Path() == "bytes" && fn.Name() == "Equal" && len(v.Args) == 2:
					a, err := x.bytes(st, v.Args[0])
					if err != nil {
						return a, err
					}
					b, err := x.bytes(st, v.Args[1])
					if err != nil {
						return b, err
					}
					if !a.pure || !b.pure {
						return pterm{}, fail("bytes.Equal of computed slices")
					}
					return pterm{s: "(" + a.s + " == " + b.s + ")", pure: true}, nil
				case fn.Pkg().Path() == "net/netip" && len(v.Args) == 0 && netipPreds[fn.Name()] != "" && isNetipAddr(x.info.TypeOf(sel.X)):
					a, err := x.bytes(st, sel.X)
					if err != nil {
						return a, err
					}
					if !a.pure {
						return pterm{}, fail("netip predicate of a computed address")
					}
					x.callees["netip.Addr."+fn.Name()+" = Netip."+netipPreds[fn.Name()]] = true
					return pterm{s: "(Netip." + netipPreds[fn.Name()] + " " + a.s + ")", pure: true}, nil
				case fn.Pkg().Path() == "net/netip" && fn.Name() == "Contains" && len(v.Args) == 1:
					root, p, err := x.resolve(st, sel.X)
					if err != nil {
						return pterm{}, err
					}
					if root != "sess" || p != "NICInfo.HomeLAN4" {
						return pterm{}, fail("Contains on a prefix other than NICInfo.HomeLAN4")
					}
					a, err := x.bytes(st, v.Args[0])
					if err != nil {
						return a, err
					}
					if !a.pure {
						return pterm{}, fail("Contains of a computed address")
					}
					x.cfgReads["Session.NICInfo.HomeLAN4 = (cfg.lanAddr, cfg.lanBits)"] = true
					x.callees["netip.Prefix.Contains = Netip.prefixContains"] = true
					return pterm{s: "(Netip.prefixContains cfg.lanAddr cfg.lanBits " + a.s + ")", pure: true}, nil
				}
			}
		}
		// f(x): a package-level predicate whose body is `return <NE of x> == c` / `!= 0`
		if id, ok := v.Fun.(*ast.Ident); ok && len(v.Args) == 1 {
			fn, ok := x.info.Uses[id].(*types.Func)
			if ok && fn.Pkg() == x.p.Types {
				fd := findFunc(x.p, "", id.Name)
				if fd == nil || fd.Type.Params == nil || len(fd.Type.Params.List) != 1 || len(fd.Type.Params.List[0].Names) != 1 {
					return pterm{}, fail("predicate %s: declaration shape", id.Name)
				}
				arg, err := x.bytes(st, v.Args[0])
				if err != nil {
					return arg, err
				}
				if !arg.pure {
					return pterm{}, fail("predicate %s of a computed slice", id.Name)
				}
				g := &getterTr{p: x.p, info: x.info}
				re, err := g.returnExpr(fd)
				if err != nil {
					return pterm{}, fail("predicate %s: %v", id.Name, err)
				}
				g.recv = x.info.Defs[fd.Type.Params.List[0].Names[0]]
				be, ok := paren(re).(*ast.BinaryExpr)
				if !ok || (be.Op != token.EQL && be.Op != token.NEQ) {
					return pterm{}, fail("predicate %s: body is not a comparison", id.Name)
				}
				c, okc := g.constOf(be.Y)
				if !okc {
					return pterm{}, fail("predicate %s: comparison with a non-constant", id.Name)
				}
				t, err := g.ne(be.X)
				if err != nil {
					return pterm{}, fail("predicate %s: %v", id.Name, err)
				}
				op := "="
				if be.Op == token.NEQ {
					op = "≠"
				}
				return pterm{s: fmt.Sprintf("(rel (fun a b => decide (a %s b)) (NE.eval %s %s) (pure %v))", op, arg.s, t.s, c)}, nil
			}
		}
	}
	return pterm{}, fail("condition %s", nodeText(e))
}

// ---------------------------------------------------------------------------------------------------------

func (x *parseTr) ignore(st *pstate, s ast.Node) {
	x.ignored = append(x.ignored, strings.Join(append(append([]string{}, st.ctx...), nodeText(s)), " / "))
}

// ignorable recognises the statement shapes that have no counterpart in the model
func (x *parseTr) ignorable(st *pstate, s ast.Stmt) bool {
	switch v := s.(type) {
	case *ast.IncDecStmt: // h.Statistics[c].Count++
		sel, ok := v.X.(*ast.SelectorExpr)
		if !ok || v.Tok != token.INC || sel.Sel.Name != "Count" {
			return false
		}
		ix, ok := sel.X.(*ast.IndexExpr)
		if !ok {
			return false
		}
		if _, ok := constNat(x.info, ix.Index); !ok {
			return false
		}
		root, p, err := x.resolve(st, ix.X)
		return err == nil && root == "sess" && p == "Statistics"
	case *ast.ExprStmt: // atomic.StoreUint32(&h.f, c)
		c, ok := v.X.(*ast.CallExpr)
		if !ok || len(c.Args) != 2 {
			return false
		}
		sel, ok := c.Fun.(*ast.SelectorExpr)
		if !ok {
			return false
		}
		fn, ok := x.info.Uses[sel.Sel].(*types.Func)
		if !ok || fn.Pkg() == nil || fn.Pkg().Path() != "sync/atomic" || !strings.HasPrefix(fn.Name(), "Store") {
			return false
		}
		u, ok := c.Args[0].(*ast.UnaryExpr)
		if !ok || u.Op != token.AND {
			return false
		}
		if _, ok := constNat(x.info, c.Args[1]); !ok {
			return false
		}
		root, p, err := x.resolve(st, u.X)
		return err == nil && root == "sess" && !strings.Contains(p, ".")
	case *ast.IfStmt: // if S.checkOnlineTransition(frame.Host) { frame.flags = frame.markOnlineTransition() }
		if v.Init != nil || v.Else != nil || len(v.Body.List) != 1 {
			return false
		}
		c, ok := paren(v.Cond).(*ast.CallExpr)
		if !ok || len(c.Args) != 1 {
			return false
		}
		sel, ok := c.Fun.(*ast.SelectorExpr)
		if !ok || sel.Sel.Name != "checkOnlineTransition" || !x.isSession(st, sel.X) {
			return false
		}
		if r, p, ok := x.path(c.Args[0]); !ok || r != x.frame || p != "Host" {
			return false
		}
		as, ok := v.Body.List[0].(*ast.AssignStmt)
		if !ok || as.Tok != token.ASSIGN || len(as.Lhs) != 1 || len(as.Rhs) != 1 {
			return false
		}
		if r, p, ok := x.path(as.Lhs[0]); !ok || r != x.frame || p != "flags" {
			return false
		}
		rc, ok := as.Rhs[0].(*ast.CallExpr)
		if !ok || len(rc.Args) != 0 {
			return false
		}
		rs, ok := rc.Fun.(*ast.SelectorExpr)
		if !ok || rs.Sel.Name != "markOnlineTransition" {
			return false
		}
		id, ok := rs.X.(*ast.Ident)
		return ok && x.info.Uses[id] == x.frame
	}
	return false
}

func endsInReturn(list []ast.Stmt) bool {
	if len(list) == 0 {
		return false
	}
	_, ok := list[len(list)-1].(*ast.ReturnStmt)
	return ok
}

func (x *parseTr) usedLocals(st *pstate, stmts []ast.Stmt, k *pcont) []types.Object {
	seen := map[types.Object]bool{}
	for _, s := range stmts {
		ast.Inspect(s, func(n ast.Node) bool {
			if id, ok := n.(*ast.Ident); ok {
				if o := x.info.Uses[id]; o != nil {
					if _, ok := st.locals[o]; ok {
						seen[o] = true
					}
				}
			}
			return true
		})
	}
	if k != nil && k.join != nil {
		for _, o := range k.join.args {
			seen[o] = true
		}
	}
	var r []types.Object
	for o := range seen {
		r = append(r, o)
	}
	sort.Slice(r, func(i, j int) bool { return r[i].Pos() < r[j].Pos() })
	return r
}

// contFor builds the continuation of an if/switch statement followed by `rest`
func (x *parseTr) contFor(st *pstate, rest []ast.Stmt, k *pcont) (*pcont, *pjoin) {
	if len(rest) == 0 {
		return k, nil
	}
	if len(rest) == 1 {
		if _, ok := rest[0].(*ast.ReturnStmt); ok {
			return &pcont{dup: rest}, nil
		}
	}
	x.nj++
	snap := st.clone()
	j := &pjoin{def: &pdef{name: fmt.Sprintf("genParse_j%d", x.nj), calls: map[string]bool{}}, stmts: rest, k: k, locals: snap.locals, ubs: map[string]*big.Int{}, sess: true, ctx: snap.ctx}
	j.args = x.usedLocals(st, rest, k)
	j.def.doc = fmt.Sprintf("join point: the statements after the %s at line %d", "if/switch", fset.Position(rest[0].Pos()).Line)
	return &pcont{join: j}, j
}

func (x *parseTr) argList(st *pstate, args []types.Object, decl bool) string {
	var r []string
	for _, o := range args {
		l := st.locals[o]
		if l == nil {
			continue
		}
		switch l.kind {
		case pNat:
			if decl {
				r = append(r, "("+l.lean+" : Nat)")
			} else {
				r = append(r, l.lean)
			}
		case pBytes:
			if decl {
				r = append(r, "("+l.lean+" : Bytes)")
			} else {
				r = append(r, l.lean)
			}
		case pAddr:
			if decl {
				r = append(r, "("+l.lean+"_MAC "+l.lean+"_IP : Bytes)")
			} else {
				r = append(r, l.lean+"_MAC", l.lean+"_IP")
			}
		case pErr:
			if decl {
				r = append(r, "("+l.lean+" : Err)")
			} else {
				r = append(r, l.lean)
			}
		}
	}
	return strings.Join(r, " ")
}

func (x *parseTr) emitCont(d *pdef, ind string, st *pstate, k *pcont) error {
	if k == nil {
		return fail("control reaches the end of the function without a return")
	}
	if k.dup != nil {
		return x.list(d, ind, st, k.dup, nil)
	}
	j := k.join
	if !j.called {
		for key, u := range st.ubs {
			j.ubs[key] = u
		}
	} else {
		for key, o := range j.ubs { // a key absent at some call site is unbounded there
			if u, ok := st.ubs[key]; !ok {
				delete(j.ubs, key)
			} else if u.Cmp(o) > 0 {
				j.ubs[key] = u
			}
		}
	}
	j.called = true
	j.sess = j.sess && st.sess
	d.calls[j.def.name] = true
	x.emit(d, ind, "%s", strings.TrimSpace(j.def.name+" cfg p fr "+x.argList(st, j.args, false)))
	return nil
}

func (x *parseTr) finishJoin(j *pjoin) error {
	if j == nil {
		return nil
	}
	st := pstate{locals: j.locals, ubs: j.ubs, sess: j.sess && j.called, ctx: j.ctx}
	j.def.params = strings.TrimSpace("(cfg : Cfg) (p : Bytes) (fr : Frame) " + x.argList(&st, j.args, true))
	x.defs = append(x.defs, j.def)
	if !j.called {
		return fail("join point %s is never reached", j.def.name)
	}
	return x.list(j.def, "  ", &st, j.stmts, j.k)
}

func (x *parseTr) bindLocal(st *pstate, id *ast.Ident, kind pkind) *pvar {
	o := x.info.Defs[id]
	if o == nil {
		o = x.info.Uses[id]
	}
	l := &pvar{lean: leanName(id.Name), kind: kind}
	if l.lean == "p" || l.lean == "fr" || l.lean == "cfg" {
		l.lean += "'"
	}
	st.locals[o] = l
	return l
}

func (x *parseTr) kindOf(t types.Type) (pkind, bool) {
	switch {
	case isByteSlice(t), isNetipAddr(t):
		return pBytes, true
	case maxOf(t) != nil:
		return pNat, true
	}
	return 0, false
}

// assignLocal emits `let x ← e` / `let x := e` for a local
func (x *parseTr) assignLocal(d *pdef, ind string, st *pstate, l *pvar, rhs ast.Expr) error {
	switch l.kind {
	case pBytes:
		t, err := x.bytes(st, rhs)
		if err != nil {
			return err
		}
		x.emitLet(d, ind, l.lean, t)
	case pNat:
		t, err := x.num(st, rhs)
		if err != nil {
			return err
		}
		x.emitLet(d, ind, l.lean, t)
		st.ubs[l.lean] = t.ub
	default:
		return fail("assignment to %s", l.lean)
	}
	return nil
}

func (x *parseTr) emitLet(d *pdef, ind string, name string, t pterm) {
	if t.pure {
		x.emit(d, ind, "let %s := %s", name, t.s)
	} else {
		x.emit(d, ind, "let %s ← %s", name, t.s)
	}
}

func (x *parseTr) simple(d *pdef, ind string, st *pstate, s ast.Stmt) error {
	if x.ignorable(st, s) {
		x.ignore(st, s)
		return nil
	}
	switch v := s.(type) {
	case *ast.DeclStmt:
		gd, ok := v.Decl.(*ast.GenDecl)
		if !ok || gd.Tok != token.VAR || len(gd.Specs) != 1 {
			return fail("declaration %s", nodeText(s))
		}
		vs := gd.Specs[0].(*ast.ValueSpec)
		if len(vs.Names) != 1 || len(vs.Values) > 1 {
			return fail("declaration %s", nodeText(s))
		}
		kind, ok := x.kindOf(x.info.TypeOf(vs.Names[0]))
		if !ok {
			return fail("declaration of a variable of type %v", x.info.TypeOf(vs.Names[0]))
		}
		l := x.bindLocal(st, vs.Names[0], kind)
		if len(vs.Values) == 1 {
			return x.assignLocal(d, ind, st, l, vs.Values[0])
		}
		if kind == pNat {
			x.emit(d, ind, "let %s : Nat := 0", l.lean)
			st.ubs[l.lean] = big.NewInt(0)
		} else {
			x.emit(d, ind, "let %s : Bytes := []", l.lean)
		}
		return nil
	case *ast.ExprStmt:
		c, ok := v.X.(*ast.CallExpr)
		if ok {
			if id, ok := c.Fun.(*ast.Ident); ok && id.Name == "echoNotify" && len(c.Args) == 1 {
				if fn, ok := x.info.Uses[id].(*types.Func); ok && fn.Pkg() == x.p.Types {
					t, err := x.num(st, c.Args[0])
					if err != nil {
						return err
					}
					x.nc++
					name := fmt.Sprintf("id%d", x.nc)
					x.emitLet(d, ind, name, t)
					x.emit(d, ind, "let fr := { fr with echo := some %s }", name)
					x.callees["echoNotify(id) = echo := some id"] = true
					return nil
				}
			}
		}
		return fail("expression statement %s", nodeText(s))
	case *ast.AssignStmt:
		// frame.Host, _ = S.findOrCreateHostWithLock(a)
		if len(v.Lhs) == 2 && len(v.Rhs) == 1 && v.Tok == token.ASSIGN {
			r, p, ok := x.path(v.Lhs[0])
			blank, okb := v.Lhs[1].(*ast.Ident)
			c, okc := v.Rhs[0].(*ast.CallExpr)
			if ok && okb && okc && r == x.frame && p == "Host" && blank.Name == "_" && len(c.Args) == 1 {
				if sel, ok := c.Fun.(*ast.SelectorExpr); ok && sel.Sel.Name == "findOrCreateHostWithLock" && x.isSession(st, sel.X) {
					var mac, ip string
					if id, ok := paren(c.Args[0]).(*ast.Ident); ok {
						if l, ok := st.locals[x.info.Uses[id]]; ok && l.kind == pAddr {
							mac, ip = l.lean+"_MAC", l.lean+"_IP"
						}
					} else if r, p, ok := x.path(c.Args[0]); ok && r == x.frame && (p == "SrcAddr" || p == "DstAddr") {
						mac, ip = "fr."+frameBytesFields[p+".MAC"], "fr."+frameBytesFields[p+".IP"]
					}
					if mac == "" {
						return fail("argument of findOrCreateHostWithLock: %s", nodeText(c.Args[0]))
					}
					x.emit(d, ind, "let fr := { fr with hostEv := some (%s, %s) }", mac, ip)
					x.callees["frame.Host, _ = Session.findOrCreateHostWithLock(a) = hostEv := some (a.MAC, a.IP)"] = true
					return nil
				}
			}
		}
		if len(v.Lhs) != 1 || len(v.Rhs) != 1 {
			return fail("assignment %s", nodeText(s))
		}
		if v.Tok == token.DEFINE {
			id, ok := v.Lhs[0].(*ast.Ident)
			if !ok {
				return fail("definition %s", nodeText(s))
			}
			// addr := Addr{MAC: e1, IP: e2}
			if cl, ok := paren(v.Rhs[0]).(*ast.CompositeLit); ok {
				if n, ok := x.info.TypeOf(cl).(*types.Named); !ok || n.Obj().Name() != "Addr" || n.Obj().Pkg() != x.p.Types {
					return fail("composite literal %s", nodeText(cl))
				}
				name := leanName(id.Name)
				seen := map[string]bool{}
				for _, el := range cl.Elts {
					kv, ok := el.(*ast.KeyValueExpr)
					if !ok {
						return fail("composite literal without field names")
					}
					f := exprStr(kv.Key)
					if (f != "MAC" && f != "IP") || seen[f] {
						return fail("Addr literal field %s", f)
					}
					seen[f] = true
					t, err := x.bytes(st, kv.Value)
					if err != nil {
						return err
					}
					x.emitLet(d, ind, name+"_"+f, t)
				}
				for _, f := range []string{"MAC", "IP"} {
					if !seen[f] {
						x.emit(d, ind, "let %s_%s : Bytes := []", name, f)
					}
				}
				x.bindLocal(st, id, pAddr)
				return nil
			}
			kind, ok := x.kindOf(x.info.TypeOf(id))
			if !ok {
				return fail("definition of a variable of type %v", x.info.TypeOf(id))
			}
			// evaluate the right-hand side in the old environment, then bind
			old := st.clone()
			l := &pvar{lean: leanName(id.Name), kind: kind}
			if l.lean == "p" || l.lean == "fr" || l.lean == "cfg" {
				l.lean += "'"
			}
			if err := x.assignLocal(d, ind, &old, l, v.Rhs[0]); err != nil {
				return err
			}
			st.locals[x.info.Defs[id]] = l
			if u, ok := old.ubs[l.lean]; ok {
				st.ubs[l.lean] = u
			}
			return nil
		}
		if v.Tok == token.ADD_ASSIGN { // frame.F += e  is  frame.F = frame.F + e
			r, p, ok := x.path(v.Lhs[0])
			f := frameNatFields[p]
			if !ok || r != x.frame || f == "" {
				return fail("assignment %s", nodeText(s))
			}
			a, err := x.num(st, v.Lhs[0])
			if err != nil {
				return err
			}
			b, err := x.num(st, v.Rhs[0])
			if err != nil {
				return err
			}
			ub := new(big.Int).Add(a.ub, b.ub)
			if !fitsType(ub, x.info.TypeOf(v.Lhs[0])) {
				return fail("%s: value up to %v may not fit %v", nodeText(s), ub, x.info.TypeOf(v.Lhs[0]))
			}
			if a.pure && b.pure {
				x.emit(d, ind, "let fr := { fr with %s := (%s + %s) }", f, a.s, b.s)
			} else {
				x.nc++
				x.emit(d, ind, "let v%d ← (opN (· + ·) %s %s)", x.nc, plift(a), plift(b))
				x.emit(d, ind, "let fr := { fr with %s := v%d }", f, x.nc)
			}
			st.ubs["fr."+f] = ub
			return nil
		}
		if v.Tok != token.ASSIGN {
			return fail("assignment operator %s", v.Tok)
		}
		if id, ok := v.Lhs[0].(*ast.Ident); ok {
			l, ok := st.locals[x.info.Uses[id]]
			if !ok {
				return fail("assignment to %s", id.Name)
			}
			return x.assignLocal(d, ind, st, l, v.Rhs[0])
		}
		r, p, ok := x.path(v.Lhs[0])
		if !ok || r != x.frame {
			return fail("assignment to %s", nodeText(v.Lhs[0]))
		}
		switch {
		case p == "ether":
			id, ok := paren(v.Rhs[0]).(*ast.Ident)
			if !ok || x.pbuf == nil || x.info.Uses[id] != x.pbuf || x.ether {
				return fail("assignment %s", nodeText(s))
			}
			x.ether = true
			return nil
		case p == "Session":
			id, ok := paren(v.Rhs[0]).(*ast.Ident)
			if !ok || x.sessObj == nil || x.info.Uses[id] != x.sessObj {
				return fail("assignment %s", nodeText(s))
			}
			st.sess = true
			x.ignore(st, s)
			return nil
		case frameNatFields[p] != "":
			t, err := x.num(st, v.Rhs[0])
			if err != nil {
				return err
			}
			if !fitsType(t.ub, x.info.TypeOf(v.Lhs[0])) {
				return fail("%s: value up to %v may not fit %v", nodeText(s), t.ub, x.info.TypeOf(v.Lhs[0]))
			}
			f := frameNatFields[p]
			if t.pure {
				x.emit(d, ind, "let fr := { fr with %s := %s }", f, t.s)
			} else {
				x.nc++
				x.emit(d, ind, "let v%d ← %s", x.nc, t.s)
				x.emit(d, ind, "let fr := { fr with %s := v%d }", f, x.nc)
			}
			st.ubs["fr."+f] = t.ub
			return nil
		case frameBytesFields[p] != "":
			t, err := x.bytes(st, v.Rhs[0])
			if err != nil {
				return err
			}
			f := frameBytesFields[p]
			if t.pure {
				x.emit(d, ind, "let fr := { fr with %s := %s }", f, t.s)
			} else {
				x.nc++
				x.emit(d, ind, "let v%d ← %s", x.nc, t.s)
				x.emit(d, ind, "let fr := { fr with %s := v%d }", f, x.nc)
			}
			return nil
		}
		return fail("assignment to frame field %s, which has no counterpart in the model", p)
	}
	return fail("statement form %T: %s", s, nodeText(s))
}

func (x *parseTr) ret(d *pdef, ind string, st *pstate, rs *ast.ReturnStmt) error {
	if len(rs.Results) != 2 {
		return fail("return with %d values", len(rs.Results))
	}
	var fr, er string
	switch r := paren(rs.Results[0]).(type) {
	case *ast.Ident:
		if x.info.Uses[r] == x.frame {
			fr = "fr"
		}
	case *ast.CompositeLit:
		if n, ok := x.info.TypeOf(r).(*types.Named); ok && n.Obj().Name() == "Frame" && len(r.Elts) == 0 {
			fr = "{}"
		}
	}
	if fr == "" {
		return fail("returned frame %s", nodeText(rs.Results[0]))
	}
	if id, ok := paren(rs.Results[1]).(*ast.Ident); ok {
		o := x.info.Uses[id]
		if _, isNil := o.(*types.Nil); isNil {
			er = "none"
		} else if l, ok := st.locals[o]; ok && l.kind == pErr {
			er = "some " + l.lean
		} else if vr, ok := o.(*types.Var); ok && vr.Parent() == x.p.Types.Scope() && leanErrs[id.Name] != "" {
			er = "some ." + leanErrs[id.Name]
		}
	}
	if er == "" {
		return fail("returned error %s", nodeText(rs.Results[1]))
	}
	x.emit(d, ind, ".ok ⟨%s, %s⟩", fr, er)
	return nil
}

// condLine emits the evaluation of a condition and returns the Bool term to branch on
func (x *parseTr) condLine(d *pdef, ind string, st *pstate, e ast.Expr) (string, error) {
	c, err := x.cond(st, e)
	if err != nil {
		return "", err
	}
	if c.pure {
		return c.s, nil
	}
	x.nc++
	x.emit(d, ind, "let c%d ← %s", x.nc, c.s)
	return fmt.Sprintf("c%d", x.nc), nil
}

// list translates a statement list; k is the continuation when control falls off its end
func (x *parseTr) list(d *pdef, ind string, st *pstate, stmts []ast.Stmt, k *pcont) error {
	for i, s := range stmts {
		rest := stmts[i+1:]
		if x.ignorable(st, s) {
			x.ignore(st, s)
			continue
		}
		switch v := s.(type) {
		case *ast.ReturnStmt:
			if len(rest) != 0 {
				return fail("statement after return")
			}
			return x.ret(d, ind, st, v)
		case *ast.BlockStmt:
			return fail("nested block")
		case *ast.IfStmt:
			return x.ifStmt(d, ind, st, v, rest, k)
		case *ast.SwitchStmt:
			return x.switchStmt(d, ind, st, v, rest, k)
		default:
			if err := x.simple(d, ind, st, s); err != nil {
				return fail("line %d: %v", fset.Position(s.Pos()).Line, err)
			}
		}
	}
	return x.emitCont(d, ind, st, k)
}

// validCall recognises `err := v.IsValid()` and returns the Lean call of the regenerated predicate
func (x *parseTr) validCall(st *pstate, init ast.Stmt, cond ast.Expr) (string, *ast.Ident, bool, error) {
	as, ok := init.(*ast.AssignStmt)
	if !ok || as.Tok != token.DEFINE || len(as.Lhs) != 1 || len(as.Rhs) != 1 {
		return "", nil, false, nil
	}
	id, ok := as.Lhs[0].(*ast.Ident)
	c, okc := paren(as.Rhs[0]).(*ast.CallExpr)
	if !ok || !okc || len(c.Args) != 0 {
		return "", nil, false, nil
	}
	sel, ok := c.Fun.(*ast.SelectorExpr)
	if !ok || sel.Sel.Name != "IsValid" {
		return "", nil, false, nil
	}
	vn := viewName(x.info.TypeOf(sel.X))
	if vn == "" || x.info.TypeOf(id).String() != "error" {
		return "", nil, true, fail("IsValid of a non-view receiver %s", nodeText(sel.X))
	}
	be, ok := paren(cond).(*ast.BinaryExpr)
	if !ok || be.Op != token.NEQ || exprStr(be.X) != id.Name || exprStr(be.Y) != "nil" || x.info.Uses[be.X.(*ast.Ident)] != x.info.Defs[id] {
		return "", nil, true, fail("condition after `%s := ….IsValid()` is not `%s != nil`", id.Name, id.Name)
	}
	recv, err := x.bytes(st, sel.X)
	if err != nil {
		return "", nil, true, err
	}
	if !recv.pure {
		return "", nil, true, fail("IsValid of a computed slice")
	}
	return fmt.Sprintf("genValid%s %s", vn, recv.s), id, true, nil
}

func (x *parseTr) ifStmt(d *pdef, ind string, st *pstate, v *ast.IfStmt, rest []ast.Stmt, k *pcont) error {
	line := fset.Position(v.Pos()).Line
	if v.Init != nil {
		call, id, is, err := x.validCall(st, v.Init, v.Cond)
		if err != nil {
			return fail("line %d: %v", line, err)
		}
		if is {
			if v.Else != nil || !endsInReturn(v.Body.List) {
				return fail("line %d: validity check whose error branch does not return", line)
			}
			x.emit(d, ind, "match %s with", call)
			x.emit(d, ind, "| .panic => .panic")
			x.emit(d, ind, "| .hang => .hang")
			x.emit(d, ind, "| .err %s => do", leanName(id.Name))
			in := st.clone()
			in.locals[x.info.Defs[id]] = &pvar{lean: leanName(id.Name), kind: pErr}
			if err := x.list(d, ind+"    ", &in, v.Body.List, nil); err != nil {
				return err
			}
			x.emit(d, ind, "| .ok () => do")
			return x.list(d, ind+"  ", st, rest, k)
		}
		as, ok := v.Init.(*ast.AssignStmt)
		if !ok || as.Tok != token.ASSIGN {
			return fail("line %d: if-init form %s", line, nodeText(v.Init))
		}
		if err := x.simple(d, ind, st, as); err != nil {
			return fail("line %d: %v", line, err)
		}
	}
	c, err := x.condLine(d, ind, st, v.Cond)
	if err != nil {
		return fail("line %d: %v", line, err)
	}
	if v.Else == nil && endsInReturn(v.Body.List) {
		x.emit(d, ind, "if %s then do", c)
		in := st.clone()
		if err := x.list(d, ind+"    ", &in, v.Body.List, nil); err != nil {
			return err
		}
		x.emit(d, ind, "else do")
		return x.list(d, ind+"  ", st, rest, k)
	}
	kk, j := x.contFor(st, rest, k)
	x.emit(d, ind, "if %s then do", c)
	in := st.clone()
	if err := x.list(d, ind+"    ", &in, v.Body.List, kk); err != nil {
		return err
	}
	x.emit(d, ind, "else do")
	el := st.clone()
	switch e := v.Else.(type) {
	case nil:
		if err := x.emitCont(d, ind+"    ", &el, kk); err != nil {
			return err
		}
	case *ast.BlockStmt:
		if err := x.list(d, ind+"    ", &el, e.List, kk); err != nil {
			return err
		}
	case *ast.IfStmt:
		if err := x.list(d, ind+"    ", &el, []ast.Stmt{e}, kk); err != nil {
			return err
		}
	}
	return x.finishJoin(j)
}

func (x *parseTr) switchStmt(d *pdef, ind string, st *pstate, v *ast.SwitchStmt, rest []ast.Stmt, k *pcont) error {
	line := fset.Position(v.Pos()).Line
	if v.Init != nil {
		return fail("line %d: switch with an init statement", line)
	}
	var tag pterm
	tagName := ""
	if v.Tag != nil {
		t, err := x.num(st, v.Tag)
		if err != nil {
			return fail("line %d: switch tag: %v", line, err)
		}
		tag = t
		x.nc++
		tagName = fmt.Sprintf("tag%d", x.nc)
		x.emitLet(d, ind, tagName, tag)
	}
	kk, j := x.contFor(st, rest, k)
	var deflt *ast.CaseClause
	first := true
	for _, c := range v.Body.List {
		cc := c.(*ast.CaseClause)
		if cc.List == nil {
			if deflt != nil {
				return fail("line %d: two default clauses", line)
			}
			deflt = cc
			continue
		}
		var conds, labels []string
		for _, e := range cc.List {
			labels = append(labels, nodeText(e))
			if v.Tag != nil {
				n, ok := constNat(x.info, e)
				if !ok || n < 0 {
					return fail("line %d: case %s is not a constant", line, nodeText(e))
				}
				conds = append(conds, fmt.Sprintf("%s == %d", tagName, n))
			} else {
				t, err := x.cond(st, e)
				if err != nil {
					return fail("line %d: %v", fset.Position(e.Pos()).Line, err)
				}
				if !t.pure {
					return fail("line %d: case condition %s can panic", line, nodeText(e))
				}
				conds = append(conds, t.s)
			}
		}
		cs := conds[0]
		if len(conds) > 1 {
			cs = "(" + strings.Join(conds, " || ") + ")"
		}
		kw := "else if"
		if first {
			kw, first = "if", false
		}
		x.emit(d, ind, "%s %s then do", kw, cs)
		in := st.clone()
		in.ctx = append(in.ctx, "case "+strings.Join(labels, ", "))
		if err := x.caseBody(d, ind+"    ", &in, cc.Body, kk); err != nil {
			return err
		}
	}
	if first {
		return fail("line %d: switch without cases", line)
	}
	x.emit(d, ind, "else do")
	in := st.clone()
	if deflt != nil {
		in.ctx = append(in.ctx, "default")
		if err := x.caseBody(d, ind+"    ", &in, deflt.Body, kk); err != nil {
			return err
		}
	} else if err := x.emitCont(d, ind+"    ", &in, kk); err != nil {
		return err
	}
	return x.finishJoin(j)
}

func (x *parseTr) caseBody(d *pdef, ind string, st *pstate, body []ast.Stmt, kk *pcont) error {
	for _, s := range body {
		bad := false
		ast.Inspect(s, func(n ast.Node) bool {
			if _, ok := n.(*ast.BranchStmt); ok {
				bad = true
			}
			return true
		})
		if bad {
			return fail("line %d: break / fallthrough / goto / continue", fset.Position(s.Pos()).Line)
		}
	}
	return x.list(d, ind, st, body, kk)
}

// ---------------------------------------------------------------------------------------------------------
// accessors of Frame

type accDef struct {
	name  string
	val   string // body of genFrame<M> : Outcome Val
	bytes string // body of genFrame<M>B : Outcome Bytes ("" for bool accessors)
}

func (x *parseTr) accessorDef(fd *ast.FuncDecl) (accDef, error) {
	a := accDef{name: fd.Name.Name}
	if fd.Recv == nil || len(fd.Recv.List) != 1 || len(fd.Recv.List[0].Names) != 1 {
		return a, fail("receiver form")
	}
	if _, ptr := fd.Recv.List[0].Type.(*ast.StarExpr); ptr {
		return a, fail("pointer receiver")
	}
	x.frame = x.info.Defs[fd.Recv.List[0].Names[0]]
	x.ether = true // in an accessor the Lean parameter `p` stands for the frame's ether bytes
	st := &pstate{locals: map[types.Object]*pvar{}, ubs: map[string]*big.Int{}}
	res := x.info.Defs[fd.Name].(*types.Func).Type().(*types.Signature).Results().At(0).Type()
	body := fd.Body.List
	retOf := func(s ast.Stmt) ast.Expr {
		rs, ok := s.(*ast.ReturnStmt)
		if !ok || len(rs.Results) != 1 {
			return nil
		}
		return paren(rs.Results[0])
	}
	// whole: `f.ether`; tail: `T(f.ether[f.X:])`
	sliceVal := func(e ast.Expr) (string, string, error) {
		for {
			c, ok := e.(*ast.CallExpr)
			if !ok || len(c.Args) != 1 {
				break
			}
			if tv, ok := x.info.Types[c.Fun]; !ok || !tv.IsType() || !isByteSlice(tv.Type) {
				break
			}
			e = paren(c.Args[0])
		}
		if sl, ok := e.(*ast.SliceExpr); ok {
			if sl.High != nil || sl.Slice3 || sl.Low == nil {
				return "", "", fail("slice form %s", nodeText(e))
			}
			if r, p, ok := x.path(sl.X); !ok || r != x.frame || p != "ether" {
				return "", "", fail("slice of %s", nodeText(sl.X))
			}
			lo, err := x.num(st, sl.Low)
			if err != nil {
				return "", "", err
			}
			if !lo.pure {
				return "", "", fail("slice bound %s", nodeText(sl.Low))
			}
			return fmt.Sprintf("G.eval p (.tail %s)", lo.s), fmt.Sprintf("sliceFrom p %s", lo.s), nil
		}
		if r, p, ok := x.path(e); ok && r == x.frame && p == "ether" {
			return ".ok (.span 0 p.length)", ".ok p", nil
		}
		return "", "", fail("returned slice %s", nodeText(e))
	}
	switch {
	case basicKind(res) == types.Bool && len(body) == 1 && retOf(body[0]) != nil:
		c, err := x.cond(st, retOf(body[0]))
		if err != nil {
			return a, err
		}
		if !c.pure {
			return a, fail("condition can panic")
		}
		a.val = ".ok (.b " + c.s + ")"
		return a, nil
	case isByteSlice(res) && len(body) == 1 && retOf(body[0]) != nil:
		v, b, err := sliceVal(retOf(body[0]))
		a.val, a.bytes = v, b
		return a, err
	case isByteSlice(res) && len(body) == 2 && retOf(body[1]) != nil:
		is, ok := body[0].(*ast.IfStmt)
		if !ok || is.Init != nil || is.Else != nil || len(is.Body.List) != 1 || retOf(is.Body.List[0]) == nil {
			return a, fail("body is not `if c { return s }; return nil`")
		}
		if id, ok := retOf(body[1]).(*ast.Ident); !ok || id.Name != "nil" {
			return a, fail("final return is not nil")
		}
		c, err := x.cond(st, is.Cond)
		if err != nil {
			return a, err
		}
		if !c.pure {
			return a, fail("condition can panic")
		}
		v, b, err := sliceVal(retOf(is.Body.List[0]))
		if err != nil {
			return a, err
		}
		a.val = fmt.Sprintf("if %s then %s else .ok .nil", c.s, v)
		a.bytes = fmt.Sprintf("if %s then %s else .ok []", c.s, b)
		return a, nil
	}
	return a, fail("body form")
}

func leanStrList(l []string) string {
	var q []string
	for _, s := range l {
		q = append(q, fmt.Sprintf("%q", s))
	}
	return "[\n  " + strings.Join(q, ",\n  ") + "]"
}

func sortedKeys(m map[string]bool) []string {
	var r []string
	for k := range m {
		r = append(r, k)
	}
	sort.Strings(r)
	return r
}

func parseBodyFacts(p *packages.Package, b *strings.Builder) {
	b.WriteString("/- GENERATED by /verif/tools/goextract (parse.go) from the Go sources in /repo — do not edit. -/\n")
	b.WriteString("import PacketVerif.Model.Parse\nimport PacketVerif.Model.ValidGo\nimport PacketVerif.Gen.Valid\nset_option linter.unusedVariables false\nnamespace PV.Gen\nopen PV PV.Model PV.Gen.Valid\n\n")
	x := &parseTr{p: p, info: p.TypesInfo, accessor: map[string]bool{}, callees: map[string]bool{}, cfgReads: map[string]bool{}}
	var untr []string

	// accessors of Frame: exported methods without parameters returning a byte slice or a bool, in source order
	var accs []*ast.FuncDecl
	if tn, ok := p.Types.Scope().Lookup("Frame").(*types.TypeName); ok {
		named := tn.Type().(*types.Named)
		for i := 0; i < named.NumMethods(); i++ {
			m := named.Method(i)
			sig := m.Type().(*types.Signature)
			if !m.Exported() || sig.Params().Len() != 0 || sig.Results().Len() != 1 {
				continue
			}
			if r := sig.Results().At(0).Type(); !isByteSlice(r) && basicKind(r) != types.Bool {
				continue
			}
			if fd := findFunc(p, "Frame", m.Name()); fd != nil && fd.Body != nil {
				accs = append(accs, fd)
			} else {
				untr = append(untr, "Frame."+m.Name()+": declaration not found")
			}
		}
	} else {
		untr = append(untr, "type Frame not found")
	}
	sort.Slice(accs, func(i, j int) bool { return accs[i].Pos() < accs[j].Pos() })
	var accNames []string
	for _, fd := range accs {
		a, err := x.accessorDef(fd)
		if err != nil {
			untr = append(untr, fmt.Sprintf("Frame.%s: %v", fd.Name.Name, err))
			continue
		}
		fmt.Fprintf(b, "/-- Go: func (f Frame) %s() (layer_frame.go:%d); `p` = the frame's ether bytes -/\ndef genFrame%s (fr : Frame) (p : Bytes) : Outcome Val :=\n  %s\n", a.name, fset.Position(fd.Pos()).Line, a.name, a.val)
		if a.bytes != "" {
			fmt.Fprintf(b, "/-- the same body, returning the bytes of the slice (nil = []) -/\ndef genFrame%sB (fr : Frame) (p : Bytes) : Outcome Bytes :=\n  %s\n", a.name, a.bytes)
			x.accessor[a.name] = true
		}
		b.WriteString("\n")
		accNames = append(accNames, fmt.Sprintf("(%q, genFrame%s fr p)", a.name, a.name))
	}
	fmt.Fprintf(b, "/-- F11: the translated accessors of Frame, in source order -/\ndef genFrameAccessors (fr : Frame) (p : Bytes) : List (String × Outcome Val) :=\n  [%s]\n\n", strings.Join(accNames, ", "))

	// Parse
	fd := findFunc(p, "Session", "Parse")
	main := &pdef{name: "genParse", params: "(cfg : Cfg) (p : Bytes)", calls: map[string]bool{}}
	var err error
	if fd == nil || fd.Body == nil {
		err = fail("declaration not found")
	} else {
		sig := fd.Type
		switch {
		case fd.Recv == nil || len(fd.Recv.List) != 1 || len(fd.Recv.List[0].Names) != 1:
			err = fail("receiver form")
		case len(sig.Params.List) != 1 || len(sig.Params.List[0].Names) != 1 || !isByteSlice(p.TypesInfo.TypeOf(sig.Params.List[0].Type)):
			err = fail("parameter list")
		case sig.Results == nil || len(sig.Results.List) != 2 || len(sig.Results.List[0].Names) != 1 || len(sig.Results.List[1].Names) != 1:
			err = fail("result list is not two named results")
		}
		if err == nil {
			x.sessObj = p.TypesInfo.Defs[fd.Recv.List[0].Names[0]]
			x.pbuf = p.TypesInfo.Defs[sig.Params.List[0].Names[0]]
			x.frame = p.TypesInfo.Defs[sig.Results.List[0].Names[0]]
			x.ether = false
			if n, ok := x.frame.Type().(*types.Named); !ok || n.Obj().Name() != "Frame" {
				err = fail("first result is not a Frame")
			}
		}
		if err == nil {
			st := &pstate{locals: map[types.Object]*pvar{}, ubs: map[string]*big.Int{}}
			for _, f := range frameNatFields {
				st.ubs["fr."+f] = big.NewInt(0) // the zero Frame
			}
			main.lines = append(main.lines, "  let fr : Frame := {}")
			err = x.list(main, "  ", st, fd.Body.List, nil)
		}
	}
	if err != nil {
		untr = append(untr, "Session.Parse: "+err.Error())
		fmt.Fprintf(b, "/-- Session.Parse could not be translated (see parseUntranslated) -/\ndef genParse (cfg : Cfg) (p : Bytes) : Outcome ParseRes := .hang\n\n")
	} else {
		// emit every definition after the ones it calls
		all := append(append([]*pdef{}, x.defs...), main)
		done := map[string]bool{}
		var out func(d *pdef)
		out = func(d *pdef) {
			if done[d.name] {
				return
			}
			done[d.name] = true
			for _, c := range sortedKeys(d.calls) {
				for _, e := range all {
					if e.name == c {
						out(e)
					}
				}
			}
			doc := d.doc
			if d == main {
				doc = fmt.Sprintf("Go: func (h *Session) Parse(p []byte) (frame Frame, err error) (layer_frame.go:%d)", fset.Position(fd.Pos()).Line)
			}
			fmt.Fprintf(b, "/-- %s -/\ndef %s %s : Outcome ParseRes := do\n%s\n\n", doc, d.name, d.params, strings.Join(d.lines, "\n"))
		}
		for _, d := range all {
			out(d)
		}
	}
	fmt.Fprintf(b, "/-- F11: statements of Session.Parse with no counterpart in the model (statistics, heartbeat, session pointer,\n    online-transition flag), each occurrence with its switch-case path, in source order -/\ndef parseIgnoredStmts : List String := %s\n\n", leanStrList(x.ignored))
	fmt.Fprintf(b, "/-- F11: what the translator could NOT express (must be empty) -/\ndef parseUntranslated : List String := %s\n\n", leanStrList(untr))
	fmt.Fprintf(b, "/-- F11: callees represented by a model function or a model effect (Go = Lean) -/\ndef parseCallees : List String := %s\n\n", leanStrList(sortedKeys(x.callees)))
	fmt.Fprintf(b, "/-- F11: session fields read by Parse and the Cfg field each was rendered as -/\ndef parseCfgReads : List String := %s\n\n", leanStrList(sortedKeys(x.cfgReads)))
	b.WriteString("end PV.Gen\n")
}
