package main

// F11: function BODIES WITH LOOPS translated into Lean source (Gen/Loops.lean, regenerated on every run):
// `packet.Checksum`, `IP4.CalculateChecksum`, `ICMP.SetChecksum` (C15; Props/C15Tie.lean proves each equal to the
// hand-written function of Model/Checksum.lean) and the methods of `fastlog.Line` (C20; Props/C20Tie.lean proves the
// digit / hex / IPv6 renderers equal to Model/Fastlog.lean).  Lean source, not a statement interpreter: the tie is an
// equation between two Lean functions checked by the kernel.
//
// The supported statement language (everything else is REFUSED: the function goes, with the first offending construct,
// into `loopsUntranslated`, and so does every function that calls it):
//
//	types        int → Int (unbounded: assumption `intNoOverflow`), uint8/byte → UInt8, uint16 → UInt16, uint32 → UInt32
//	             (Lean's fixed-width types wrap exactly as Go's), bool → Bool, []byte / string / named byte slices
//	             (net.IP, net.HardwareAddr, IP4, ICMP …) → Bytes (length-only view, cap = len: assumption `capEqLen`),
//	             *fastlog.Line → GLine {buf : Bytes, idx : Int} (fields buffer, index)
//	statements   x := e   var x T = e   x = e   x op= e   x++   x--   (one variable on the left)
//	             l.index = e / ++ / --      l.buffer[i] = e      p[i] = e (p a local or parameter slice; a parameter
//	             written this way is returned as part of the result)
//	             copy(X[lo:hi], src) / n-valued inside an expression, X a local slice or l.buffer
//	             l.M(args) for a translated method M of *Line (statement position), F(args) for a translated function
//	             if [init;] cond { … } [else { … }]     return [e]     break     continue (innermost loop only, no labels)
//	             for [init]; cond; [post] { … }     for cond { … }     for _, v := range x { … } (x a byte slice the body
//	             does not assign)
//	expressions  constants as go/types folds them (typed by their context), locals, len(x), x[i] (panics like Go),
//	             x[lo:hi] as a value (panics unless 0 ≤ lo ≤ hi ≤ len), make([]byte, n), []byte("const"), integer
//	             conversions between the unsigned types (truncating) and unsigned → int, + - * on every integer type,
//	             / % by a non-zero constant (unsigned: Lean's; int: truncated division Int.tdiv / Int.tmod), & | ^ &^ and
//	             unary ^ on unsigned, x & (2^k−1) on int (→ x % 2^k, two's complement), << >> of an unsigned value by a
//	             constant smaller than its width, comparisons, && || ! with Go's short-circuit order (an operand that
//	             can panic is evaluated only when Go evaluates it), package-level `var t = []byte{…}` tables that are
//	             never assigned (→ a generated constant)
//	loops        every `for` becomes a recursive function on a fuel argument (`| 0 => .hang`); the fuel handed in is
//	             (bound − i) + 1 for `for …; i < bound; i++ / i += c` (c > 0 constant; i and bound not assigned in the
//	             body), v + 1 for `for v > 0 { … v /= c … }` (c ≥ 2) and len(x) + 1 for a range loop; any other loop is
//	             refused ("no termination measure").  The fuel is NOT trusted: were it too small the generated function
//	             would return `.hang` and the tie theorem with the (hang-free) model would fail.
//
// Shadowing (an inner declaration of a name that is live outside) is refused; reads are hoisted into `let t ← …`
// binds in Go's left-to-right order.

import (
	"fmt"
	"go/ast"
	"go/constant"
	"go/token"
	"go/types"
	"path/filepath"
	"sort"
	"strings"

	"golang.org/x/tools/go/packages"
)

type lpRefusal struct{ msg string }

type lpKont func(ind int) []string

type lpJump struct {
	brk, cont lpKont
	ret       func(val string, ind int) []string // nil inside loops
}

type lpFunc struct {
	key      string // Go display name
	lean     string // Lean def name
	resTy    string // Lean result type (inside Outcome)
	params   []string
	lineRecv bool
	mutated  []*types.Var
	text     string
	nret     int
	errRes   bool       // ext: the last Go result is `error` (a non-nil error is `Outcome.err`)
	exts     []lpExtern // ext: untranslated callees taken as parameters
	errMut   bool       // ext: an error return may follow a write of the receiver
	paramOpt []bool     // loops_ext.go: per Go parameter (receiver excluded): passed as Option Bytes
}

type lpGen struct {
	pkgs        map[string]*packages.Package
	done        map[*types.Func]*lpFunc
	refused     map[*types.Func]string
	busy        map[*types.Func]bool
	order       []*lpFunc
	tables      map[*types.Var]string
	tableDefs   []string
	fuels       []string
	bufSize     int64
	ext         *lpExt          // option / TLV parser extension (loops_opts.go); nil for Gen/Loops.lean
	calleesUsed map[string]bool // loops_ext.go: standard-library callees replaced by model functions
}

type lpTr struct {
	g        *lpGen
	p        *packages.Package
	info     *types.Info
	fd       *ast.FuncDecl
	fn       *lpFunc
	recv     *types.Var
	loops    []string
	nloop    int
	ntmp     int
	ncond    int
	nilable  map[*types.Var]bool   // loops_ext.go: byte-slice variables compared with nil (→ Option Bytes)
	errParam map[*types.Var]bool   // loops_ext.go: parameters of type error (→ the text)
	makeFor  *types.Var            // loops_ext.go: the variable a `x := make(…)` / `x = make(…)` right side is stored into
	cache    map[ast.Node][]string // loop statement → its (unindented) call lines: a loop reached twice (duplicated continuation) is one function
	// hooks of loops_dns.go (nil for the functions of Gen/Loops.lean and Gen/LoopsOpts.lean)
	dnsTy          func(ty types.Type) string                     // more Go types
	dnsExpr        func(e ast.Expr, b *lpBinds) (string, bool)    // more expression forms, asked first
	dnsRoot        func(e ast.Expr) *types.Var                    // more assignment-target shapes
	dnsCond        func(e ast.Expr, b *lpBinds) (string, bool)    // more condition forms, asked first
	dnsCallAssigns func(c *ast.CallExpr, res map[*types.Var]bool) // variables a call writes (in/out arguments)
	exts           []lpExtern                                     // ext (loops_opts.go): untranslated callees taken as parameters
}

func lpRefuse(fs *token.FileSet, n ast.Node, format string, a ...interface{}) {
	pos := ""
	if n != nil {
		p := fs.Position(n.Pos())
		pos = fmt.Sprintf(" (%s:%d)", filepath.Base(p.Filename), p.Line)
	}
	panic(lpRefusal{fmt.Sprintf(format, a...) + pos})
}

func (t *lpTr) refuse(n ast.Node, format string, a ...interface{}) {
	lpRefuse(t.p.Fset, n, format, a...)
}

var lpKeywords = map[string]bool{"at": true, "from": true, "end": true, "open": true, "in": true, "fun": true, "have": true, "show": true, "then": true, "do": true, "let": true, "if": true, "else": true, "match": true, "with": true, "def": true, "theorem": true, "by": true, "where": true, "instance": true, "structure": true, "namespace": true, "section": true, "variable": true, "local": true, "prefix": true, "infix": true, "notation": true, "mut": true, "for": true, "return": true, "unless": true, "try": true, "catch": true, "finally": true, "nomatch": true, "Type": true, "Prop": true, "Sort": true, "fuel": true}

func lpName(s string) string {
	if lpKeywords[s] || strings.HasPrefix(s, "gen") {
		return s + "'"
	}
	return s
}

// ---- types ----

func (t *lpTr) isLine(ty types.Type) bool {
	if p, ok := ty.(*types.Pointer); ok {
		if n, ok := p.Elem().(*types.Named); ok {
			return n.Obj().Name() == "Line" && n.Obj().Pkg() != nil && n.Obj().Pkg().Name() == "fastlog"
		}
	}
	return false
}

func lpIsBytes(ty types.Type) bool {
	switch u := ty.Underlying().(type) {
	case *types.Slice:
		b, ok := u.Elem().Underlying().(*types.Basic)
		return ok && b.Kind() == types.Uint8
	case *types.Basic:
		return u.Kind() == types.String || u.Kind() == types.UntypedString
	}
	return false
}

// Lean type of a Go type, "" when unsupported
func (t *lpTr) leanTy(ty types.Type) string {
	if t.dnsTy != nil {
		if s := t.dnsTy(ty); s != "" {
			return s
		}
	}
	if t.isLine(ty) {
		return "GLine"
	}
	if lpIsBytes(ty) {
		return "Bytes"
	}
	if t.fl() {
		if s := lpExtTy(ty); s != "" {
			return s
		}
	}
	if b, ok := ty.Underlying().(*types.Basic); ok {
		switch b.Kind() {
		case types.Int, types.UntypedInt, types.UntypedRune:
			return "Int"
		case types.Uint8:
			return "UInt8"
		case types.Uint16:
			return "UInt16"
		case types.Uint32:
			return "UInt32"
		case types.Bool, types.UntypedBool:
			return "Bool"
		}
	}
	if t.g.ext != nil {
		return t.extLeanTy(ty)
	}
	return ""
}

func lpWidth(lt string) int {
	switch lt {
	case "UInt8":
		return 8
	case "UInt16":
		return 16
	case "UInt32":
		return 32
	}
	return 0
}

func (t *lpTr) tyOf(e ast.Expr) string {
	ty := t.info.TypeOf(e)
	if ty == nil {
		t.refuse(e, "expression without a type")
	}
	lt := t.leanTy(ty)
	if lt == "" {
		t.refuse(e, "unsupported type %s", ty.String())
	}
	return lt
}

func lpLit(v int64, lt string) string {
	return fmt.Sprintf("(%d : %s)", v, lt)
}

func lpBytesLit(s string) string {
	parts := make([]string, len(s))
	for i := 0; i < len(s); i++ {
		parts[i] = fmt.Sprintf("%d", s[i])
	}
	return "([" + strings.Join(parts, ", ") + "] : Bytes)"
}

// ---- variable analysis ----

func (t *lpTr) varOf(e ast.Expr) *types.Var {
	id, ok := paren(e).(*ast.Ident)
	if !ok {
		return nil
	}
	if o, ok := t.info.Uses[id].(*types.Var); ok {
		return o
	}
	if o, ok := t.info.Defs[id].(*types.Var); ok {
		return o
	}
	return nil
}

func (t *lpTr) isLocal(v *types.Var) bool {
	return v != nil && !v.IsField() && v.Pkg() != nil && v.Parent() != v.Pkg().Scope()
}

// root variable written by an assignment target: x, x[i], l.index, l.buffer[i], X[lo:hi]
func (t *lpTr) rootVar(e ast.Expr) *types.Var {
	switch x := paren(e).(type) {
	case *ast.Ident:
		return t.varOf(x)
	case *ast.IndexExpr:
		return t.rootVar(x.X)
	case *ast.SliceExpr:
		return t.rootVar(x.X)
	case *ast.SelectorExpr:
		return t.rootVar(x.X)
	case *ast.StarExpr:
		return t.rootVar(x.X)
	}
	if t.dnsRoot != nil {
		return t.dnsRoot(e)
	}
	return nil
}

func (t *lpTr) isCopy(c *ast.CallExpr) bool {
	id, ok := paren(c.Fun).(*ast.Ident)
	if !ok || id.Name != "copy" {
		return false
	}
	_, b := t.info.Uses[id].(*types.Builtin)
	return b
}

// variables assigned (not declared) inside n
func (t *lpTr) assigned(n ast.Node) map[*types.Var]bool {
	res := map[*types.Var]bool{}
	if n == nil {
		return res
	}
	ast.Inspect(n, func(x ast.Node) bool {
		switch s := x.(type) {
		case *ast.AssignStmt:
			if s.Tok != token.DEFINE {
				for _, l := range s.Lhs {
					if v := t.rootVar(l); v != nil {
						res[v] = true
					}
				}
			}
		case *ast.IncDecStmt:
			if v := t.rootVar(s.X); v != nil {
				res[v] = true
			}
		case *ast.CallExpr:
			if t.dnsCallAssigns != nil {
				t.dnsCallAssigns(s, res)
			}
			if t.isCopy(s) && len(s.Args) == 2 {
				if v := t.rootVar(s.Args[0]); v != nil {
					res[v] = true
				}
			} else if sel, ok := paren(s.Fun).(*ast.SelectorExpr); ok {
				if v := t.varOf(sel.X); v != nil && t.isLine(v.Type()) {
					res[v] = true
				}
				if t.g.ext != nil {
					t.extAssignedCall(s, res)
				}
			} else if t.g.ext != nil {
				t.extAssignedCall(s, res)
			}
		}
		return true
	})
	return res
}

// local variables used inside n
func (t *lpTr) used(n ast.Node) map[*types.Var]bool {
	res := map[*types.Var]bool{}
	ast.Inspect(n, func(x ast.Node) bool {
		if id, ok := x.(*ast.Ident); ok {
			if v, ok := t.info.Uses[id].(*types.Var); ok && t.isLocal(v) {
				res[v] = true
			}
		}
		return true
	})
	return res
}

func lpInside(v *types.Var, n ast.Node) bool { return v.Pos() >= n.Pos() && v.Pos() < n.End() }

func lpSorted(m map[*types.Var]bool) []*types.Var {
	var r []*types.Var
	for v := range m {
		r = append(r, v)
	}
	sort.Slice(r, func(i, j int) bool { return r[i].Pos() < r[j].Pos() })
	return r
}

func hasJump(n ast.Node) bool {
	found := false
	var walk func(x ast.Node, inLoop bool)
	walk = func(x ast.Node, inLoop bool) {
		ast.Inspect(x, func(y ast.Node) bool {
			switch s := y.(type) {
			case *ast.ReturnStmt:
				found = true
			case *ast.BranchStmt:
				if !inLoop {
					found = true
				}
			case *ast.ForStmt:
				if y != x {
					walk(s.Body, true)
					return false
				}
			case *ast.RangeStmt:
				if y != x {
					walk(s.Body, true)
					return false
				}
			case *ast.FuncLit:
				return false
			}
			return true
		})
	}
	walk(n, false)
	return found
}

// refuse true shadowing: a name declared while another variable of the same name is in scope
func (t *lpTr) checkShadow() {
	var vars []*types.Var
	ast.Inspect(t.fd, func(x ast.Node) bool {
		if id, ok := x.(*ast.Ident); ok {
			if v, ok := t.info.Defs[id].(*types.Var); ok && t.isLocal(v) {
				vars = append(vars, v)
			}
		}
		return true
	})
	for _, a := range vars {
		for _, b := range vars {
			if t.g.ext != nil && t.extShadowOK(b) {
				continue // ext: the `err` of `if err := f(); err != nil` is never bound in the Lean text (forms A / B of loops_structs.go)
			}
			if a != b && a.Name() == b.Name() && a.Name() != "_" {
				sa := a.Parent()
				if sa != nil && sa.Contains(b.Pos()) && b.Pos() > a.Pos() {
					lpRefuse(t.p.Fset, t.fd, "variable %s is shadowed", a.Name())
				}
			}
		}
	}
}

// ---- expressions ----

type lpBinds struct{ lines []string }

func (b *lpBinds) add(s string) { b.lines = append(b.lines, s) }

func (t *lpTr) tmp() string { t.ntmp++; return fmt.Sprintf("t%d", t.ntmp) }

func (t *lpTr) constOf(e ast.Expr) (constant.Value, bool) {
	tv, ok := t.info.Types[e]
	if !ok || tv.Value == nil {
		return nil, false
	}
	return tv.Value, true
}

func (t *lpTr) constInt(e ast.Expr) (int64, bool) {
	v, ok := t.constOf(e)
	if !ok || (v.Kind() != constant.Int && v.Kind() != constant.Float) {
		return 0, false
	}
	return constant.Int64Val(constant.ToInt(v))
}

// an expression as a Lean Int (index / bound position)
func (t *lpTr) intExpr(e ast.Expr, b *lpBinds) string {
	lt := t.tyOf(e)
	s := t.expr(e, b)
	switch lt {
	case "Int":
		return s
	case "UInt8", "UInt16", "UInt32":
		return "(" + s + ".toNat : Int)"
	}
	t.refuse(e, "index of type %s", lt)
	return ""
}

func (t *lpTr) lineField(sel *ast.SelectorExpr) (string, bool) {
	v := t.varOf(sel.X)
	if v == nil || !t.isLine(v.Type()) {
		return "", false
	}
	switch sel.Sel.Name {
	case "buffer":
		return lpName(v.Name()) + ".buf", true
	case "index":
		return lpName(v.Name()) + ".idx", true
	}
	return "", false
}

// a byte-sequence valued expression that can be read (Lean term of type Bytes)
func (t *lpTr) bytesExpr(e ast.Expr, b *lpBinds) string {
	e = paren(e)
	if t.dnsExpr != nil {
		if s, ok := t.dnsExpr(e, b); ok {
			return s
		}
	}
	if t.g.ext != nil {
		if s, ok := t.extBytesExpr(e, b); ok {
			return s
		}
	}
	if cv, ok := t.constOf(e); ok && cv.Kind() == constant.String {
		return lpBytesLit(constant.StringVal(cv))
	}
	switch x := e.(type) {
	case *ast.Ident:
		v := t.varOf(x)
		if v == nil {
			t.refuse(e, "identifier %s is not a variable", x.Name)
		}
		if t.isLocal(v) {
			if t.errParam[v] {
				t.refuse(e, "the error parameter %s is used other than through Error()", x.Name)
			}
			if !lpIsBytes(v.Type()) {
				t.refuse(e, "%s is not a byte slice", x.Name)
			}
			if t.nilable[v] {
				return "(nilBytes " + lpName(v.Name()) + ")"
			}
			return lpName(v.Name())
		}
		return t.g.table(t, v, x)
	case *ast.IndexExpr:
		if n, ty, ok := t.listIndex(x, b); ok {
			if ty == lpOptBytes {
				return "(nilBytes " + n + ")"
			}
			return n
		}
	case *ast.SelectorExpr:
		if s, ok := t.lineField(x); ok && x.Sel.Name == "buffer" {
			return s
		}
	case *ast.SliceExpr:
		if x.Slice3 {
			t.refuse(e, "3-index slice")
		}
		base := t.bytesExpr(x.X, b)
		lo := "(0 : Int)"
		if x.Low != nil {
			lo = t.intExpr(x.Low, b)
		}
		hi := "(" + base + ".length : Int)"
		if x.High != nil {
			hi = t.intExpr(x.High, b)
		}
		n := t.tmp()
		b.add(fmt.Sprintf("let %s ← sliceI %s %s %s", n, base, lo, hi))
		return n
	case *ast.CallExpr:
		// conversions []byte(x), net.IP(x), T(x) between byte-slice types and from constant strings
		if tv, ok := t.info.Types[x.Fun]; ok && tv.IsType() && len(x.Args) == 1 && lpIsBytes(tv.Type) {
			at := t.info.TypeOf(x.Args[0])
			if lpIsBytes(at) {
				if _, isStr := at.Underlying().(*types.Basic); isStr {
					if _, c := t.constOf(x.Args[0]); !c {
						if _, dstStr := tv.Type.Underlying().(*types.Basic); !dstStr {
							// []byte(stringVar): a copy; reading it is the same bytes
							return t.bytesExpr(x.Args[0], b)
						}
					}
				}
				return t.bytesExpr(x.Args[0], b)
			}
		}
		if id, ok := paren(x.Fun).(*ast.Ident); ok && id.Name == "make" {
			if _, bi := t.info.Uses[id].(*types.Builtin); bi && len(x.Args) == 2 && lpIsBytes(t.info.TypeOf(x.Args[0])) {
				if _, isStr := t.info.TypeOf(x.Args[0]).Underlying().(*types.Basic); !isStr {
					n := t.tmp()
					b.add(fmt.Sprintf("let %s ← makeBytes %s", n, t.intExpr(x.Args[1], b)))
					return n
				}
			}
			if _, bi := t.info.Uses[id].(*types.Builtin); bi && len(x.Args) == 3 && t.fl() && isByteSliceNonString(t.info.TypeOf(x.Args[0])) && t.makeFor != nil && t.neverResliced(t.makeFor) {
				t.intExpr(x.Args[2], &lpBinds{}) // the capacity must at least be an expression of the language
				n := t.tmp()
				b.add(fmt.Sprintf("let %s ← makeBytes %s", n, t.intExpr(x.Args[1], b)))
				return n
			}
		}
		if s, ok := t.extBytesCall(x, b); ok {
			return s
		}
		return t.call(x, b, true)
	}
	t.refuse(e, "unsupported byte-slice expression %s", nodeText(e))
	return ""
}

// package-level `var t = []byte{…}` table → generated constant
func (g *lpGen) table(t *lpTr, v *types.Var, at ast.Node) string {
	if n, ok := g.tables[v]; ok {
		return n
	}
	if v.Pkg() == nil || v.Parent() != v.Pkg().Scope() || !lpIsBytes(v.Type()) {
		t.refuse(at, "%s is not a local variable or a package-level byte table", v.Name())
	}
	p := g.pkgs[v.Pkg().Path()]
	if p == nil {
		t.refuse(at, "package of %s not loaded", v.Name())
	}
	var lit *ast.CompositeLit
	for _, f := range p.Syntax {
		ast.Inspect(f, func(x ast.Node) bool {
			switch s := x.(type) {
			case *ast.ValueSpec:
				for i, id := range s.Names {
					if p.TypesInfo.Defs[id] == v && i < len(s.Values) {
						if cl, ok := s.Values[i].(*ast.CompositeLit); ok {
							lit = cl
						}
					}
				}
			case *ast.AssignStmt:
				for _, l := range s.Lhs {
					var root ast.Expr = l
					for {
						switch y := paren(root).(type) {
						case *ast.IndexExpr:
							root = y.X
							continue
						case *ast.SliceExpr:
							root = y.X
							continue
						}
						break
					}
					if id, ok := paren(root).(*ast.Ident); ok && p.TypesInfo.Uses[id] == v {
						t.refuse(at, "package-level table %s is assigned somewhere", v.Name())
					}
				}
			case *ast.UnaryExpr:
				if s.Op == token.AND {
					if id, ok := paren(s.X).(*ast.Ident); ok && p.TypesInfo.Uses[id] == v {
						t.refuse(at, "address of package-level table %s is taken", v.Name())
					}
				}
			}
			return true
		})
	}
	if lit == nil {
		t.refuse(at, "package-level variable %s has no []byte{…} initialiser", v.Name())
	}
	var parts []string
	for _, el := range lit.Elts {
		if _, kv := el.(*ast.KeyValueExpr); kv {
			t.refuse(at, "keyed element in table %s", v.Name())
		}
		tv, ok := p.TypesInfo.Types[el]
		if !ok || tv.Value == nil {
			t.refuse(at, "non-constant element in table %s", v.Name())
		}
		n, _ := constant.Int64Val(constant.ToInt(tv.Value))
		parts = append(parts, fmt.Sprintf("%d", n))
	}
	name := "genTbl_" + v.Name()
	g.tables[v] = name
	g.tableDefs = append(g.tableDefs, fmt.Sprintf("/-- Go: var %s = []byte{…} (%s), never assigned -/\ndef %s : Bytes := [%s]\n", v.Name(), v.Pkg().Name(), name, strings.Join(parts, ", ")))
	return name
}

var lpArith = map[token.Token]string{token.ADD: "+", token.SUB: "-", token.MUL: "*", token.AND: "&&&", token.OR: "|||", token.XOR: "^^^"}

// a value expression (integers, bools as Bool terms, byte slices)
func (t *lpTr) expr(e ast.Expr, b *lpBinds) string {
	e = paren(e)
	if t.dnsExpr != nil {
		if s, ok := t.dnsExpr(e, b); ok {
			return s
		}
	}
	if t.g.ext != nil {
		if s, ok := t.extExpr(e, b); ok {
			return s
		}
	}
	lt := t.tyOf(e)
	if cv, ok := t.constOf(e); ok {
		switch lt {
		case "Int", "UInt8", "UInt16", "UInt32":
			n, exact := constant.Int64Val(constant.ToInt(cv))
			if !exact {
				t.refuse(e, "constant does not fit int64")
			}
			return lpLit(n, lt)
		case "Bool":
			if constant.BoolVal(cv) {
				return "true"
			}
			return "false"
		case "Bytes":
			return lpBytesLit(constant.StringVal(cv))
		}
	}
	if lt == "Bytes" {
		return t.bytesExpr(e, b)
	}
	if lt == "Bool" {
		if id, ok := e.(*ast.Ident); ok {
			v := t.varOf(id)
			if v == nil || !t.isLocal(v) {
				t.refuse(e, "unsupported bool %s", id.Name)
			}
			return lpName(v.Name())
		}
		return "(decide (" + t.cond(e, b) + "))"
	}
	switch x := e.(type) {
	case *ast.Ident:
		v := t.varOf(x)
		if v == nil || !t.isLocal(v) {
			t.refuse(e, "identifier %s is not a local variable", x.Name)
		}
		return lpName(v.Name())
	case *ast.SelectorExpr:
		if s, ok := t.lineField(x); ok && x.Sel.Name == "index" {
			return s
		}
		t.refuse(e, "unsupported selector %s", nodeText(e))
	case *ast.IndexExpr:
		base := t.bytesExpr(x.X, b)
		i := t.intExpr(x.Index, b)
		n := t.tmp()
		b.add(fmt.Sprintf("let %s ← idxI %s %s", n, base, i))
		return n
	case *ast.UnaryExpr:
		switch x.Op {
		case token.XOR:
			if lpWidth(lt) == 0 {
				t.refuse(e, "^ on %s", lt)
			}
			return "(~~~ " + t.expr(x.X, b) + ")"
		case token.SUB:
			if lt != "Int" {
				t.refuse(e, "unary - on %s", lt)
			}
			return "(- " + t.expr(x.X, b) + ")"
		case token.ADD:
			return t.expr(x.X, b)
		}
		t.refuse(e, "unary operator %s", x.Op)
	case *ast.BinaryExpr:
		return t.binary(x, lt, b)
	case *ast.CallExpr:
		if tv, ok := t.info.Types[x.Fun]; ok && tv.IsType() && len(x.Args) == 1 {
			from := t.tyOf(x.Args[0])
			a := t.expr(x.Args[0], b)
			switch {
			case from == lt:
				return a
			case lpWidth(from) > 0 && lpWidth(lt) > 0:
				return a + ".to" + lt
			case lpWidth(from) > 0 && lt == "Int":
				return "(" + a + ".toNat : Int)"
			}
			t.refuse(e, "conversion %s → %s", from, lt)
		}
		if id, ok := paren(x.Fun).(*ast.Ident); ok {
			if _, bi := t.info.Uses[id].(*types.Builtin); bi {
				switch id.Name {
				case "len":
					if len(x.Args) == 1 && lpIsBytes(t.info.TypeOf(x.Args[0])) {
						return "(" + t.bytesExpr(x.Args[0], b) + ".length : Int)"
					}
					if len(x.Args) == 1 && lpIsList(t.leanTy(t.info.TypeOf(x.Args[0]))) {
						return "(" + t.expr(x.Args[0], b) + ".length : Int)"
					}
				case "copy":
					return t.copyCall(x, b)
				}
				t.refuse(e, "builtin %s", id.Name)
			}
		}
		return t.call(x, b, true)
	}
	t.refuse(e, "unsupported expression %s", nodeText(e))
	return ""
}

func (t *lpTr) binary(x *ast.BinaryExpr, lt string, b *lpBinds) string {
	w := lpWidth(lt)
	switch x.Op {
	case token.ADD, token.SUB, token.MUL:
		l := t.expr(x.X, b)
		r := t.expr(x.Y, b)
		return "(" + l + " " + lpArith[x.Op] + " " + r + ")"
	case token.AND, token.OR, token.XOR, token.AND_NOT:
		if w == 0 {
			if x.Op == token.AND && lt == "Int" {
				if m, ok := t.constInt(x.Y); ok && m > 0 && (m&(m+1)) == 0 {
					l := t.expr(x.X, b)
					return fmt.Sprintf("(%s %% (%d : Int))", l, m+1)
				}
			}
			t.refuse(x, "bit operator %s on int (only x & (2^k-1) is supported)", x.Op)
		}
		l := t.expr(x.X, b)
		r := t.expr(x.Y, b)
		if x.Op == token.AND_NOT {
			return "(" + l + " &&& (~~~ " + r + "))"
		}
		return "(" + l + " " + lpArith[x.Op] + " " + r + ")"
	case token.QUO, token.REM:
		d, ok := t.constInt(x.Y)
		if !ok || d == 0 {
			t.refuse(x, "division by a non-constant or zero")
		}
		l := t.expr(x.X, b)
		if w > 0 {
			op := "/"
			if x.Op == token.REM {
				op = "%"
			}
			return "(" + l + " " + op + " " + lpLit(d, lt) + ")"
		}
		if lt != "Int" {
			t.refuse(x, "division on %s", lt)
		}
		if x.Op == token.QUO {
			return fmt.Sprintf("(Int.tdiv %s (%d : Int))", l, d)
		}
		return fmt.Sprintf("(Int.tmod %s (%d : Int))", l, d)
	case token.SHL, token.SHR:
		k, ok := t.constInt(x.Y)
		if w == 0 || !ok || k < 0 || k >= int64(w) {
			t.refuse(x, "shift of %s by a non-constant or out-of-width amount", lt)
		}
		l := t.expr(x.X, b)
		op := "<<<"
		if x.Op == token.SHR {
			op = ">>>"
		}
		return "(" + l + " " + op + " " + lpLit(k, lt) + ")"
	}
	t.refuse(x, "binary operator %s", x.Op)
	return ""
}

// copy(X[lo:hi], src) → the count (Int); X is updated by a bind
func (t *lpTr) copyCall(c *ast.CallExpr, b *lpBinds) string {
	if len(c.Args) != 2 {
		t.refuse(c, "copy arity")
	}
	dst, ok := paren(c.Args[0]).(*ast.SliceExpr)
	if id, isId := paren(c.Args[0]).(*ast.Ident); !ok && isId && t.g.ext != nil {
		dst, ok = &ast.SliceExpr{X: id}, true // copy(x, src) is copy(x[0:len(x)], src)
	}
	if !ok || dst.Slice3 {
		t.refuse(c, "copy destination must be X[lo:hi]")
	}
	var base string
	var setBack func(nv string) string
	if s, sb, ok := t.marshalCopyDst(dst.X); ok { // loops_marshal.go: a byte-slice field of a local struct value
		base, setBack = s, sb
	} else if sel, ok := paren(dst.X).(*ast.SelectorExpr); ok {
		f, ok := t.lineField(sel)
		if !ok || sel.Sel.Name != "buffer" {
			t.refuse(c, "copy destination %s", nodeText(dst.X))
		}
		base = f
		l := lpName(t.varOf(sel.X).Name())
		setBack = func(nv string) string { return fmt.Sprintf("let %s : GLine := { %s with buf := %s }", l, l, nv) }
	} else if v := t.varOf(dst.X); v != nil && t.isLocal(v) && lpIsBytes(v.Type()) {
		if _, isStr := v.Type().Underlying().(*types.Basic); isStr {
			t.refuse(c, "copy into a string")
		}
		base = lpName(v.Name())
		setBack = func(nv string) string { return fmt.Sprintf("let %s : Bytes := %s", base, nv) }
		t.noteMutated(v)
	} else {
		t.refuse(c, "copy destination %s", nodeText(dst.X))
	}
	lo := "(0 : Int)"
	if dst.Low != nil {
		lo = t.intExpr(dst.Low, b)
	}
	hi := "(" + base + ".length : Int)"
	if dst.High != nil {
		hi = t.intExpr(dst.High, b)
	}
	src := t.bytesExpr(c.Args[1], b)
	nb, n := t.tmp(), t.tmp()
	b.add(fmt.Sprintf("let (%s, %s) ← copyI %s %s %s %s", nb, n, base, lo, hi, src))
	b.add(setBack(nb))
	return n
}

func (t *lpTr) noteMutated(v *types.Var) {
	// a parameter (or receiver) slice written in place is part of the result
	sig := t.info.Defs[t.fd.Name].(*types.Func).Type().(*types.Signature)
	isParam := sig.Recv() == v
	for i := 0; i < sig.Params().Len(); i++ {
		if sig.Params().At(i) == v {
			isParam = true
		}
	}
	if !isParam {
		return
	}
	for _, m := range t.fn.mutated {
		if m == v {
			return
		}
	}
	t.refuse(t.fd, "internal: parameter %s is written but was not detected as mutated", v.Name())
}

// call of a translated function / method; returns the value term (when want) after adding the bind
func (t *lpTr) call(c *ast.CallExpr, b *lpBinds, want bool) string {
	var callee *types.Func
	var recvArg string
	switch f := paren(c.Fun).(type) {
	case *ast.Ident:
		callee, _ = t.info.Uses[f].(*types.Func)
	case *ast.SelectorExpr:
		callee, _ = t.info.Uses[f.Sel].(*types.Func)
		if callee != nil && callee.Type().(*types.Signature).Recv() != nil {
			v := t.varOf(f.X)
			if t.g.ext != nil && (v == nil || !t.isLine(v.Type())) {
				return t.extMethodCall(c, f, callee, b, want)
			}
			if v == nil || !t.isLine(v.Type()) {
				t.refuse(c, "method call on %s (only methods of the *Line receiver variable are supported)", nodeText(f.X))
			}
			recvArg = lpName(v.Name())
		}
	}
	if callee == nil {
		t.refuse(c, "call of %s", nodeText(c.Fun))
	}
	cf, why := t.g.translate(callee)
	if cf == nil {
		t.refuse(c, "calls %s, which is not translated: %s", callee.Name(), why)
	}
	var args []string
	if recvArg != "" {
		args = append(args, recvArg)
	}
	for i, a := range c.Args {
		if i < len(cf.paramOpt) && cf.paramOpt[i] {
			args = append(args, t.optExpr(a, b))
		} else {
			args = append(args, t.argExpr(a, b))
		}
	}
	if cf.lineRecv {
		if want {
			t.refuse(c, "value of a *Line method call is used")
		}
		b.add(fmt.Sprintf("let %s ← %s %s", recvArg, cf.lean, strings.Join(args, " ")))
		return ""
	}
	if len(cf.mutated) > 0 {
		t.refuse(c, "calls %s, which writes its slice argument", callee.Name())
	}
	n := t.tmp()
	if !want {
		n = "_"
	}
	b.add(fmt.Sprintf("let %s ← %s %s", n, cf.lean, strings.Join(args, " ")))
	return n
}

func (t *lpTr) argExpr(a ast.Expr, b *lpBinds) string {
	s := t.expr(a, b)
	return s
}

// ---- conditions (Lean propositions) ----

func (t *lpTr) cond(e ast.Expr, b *lpBinds) string {
	e = paren(e)
	if t.dnsCond != nil {
		if s, ok := t.dnsCond(e, b); ok {
			return s
		}
	}
	if t.g.ext != nil {
		if s, ok := t.extCond(e, b); ok {
			return s
		}
	}
	if s, ok := t.flCond(e, b); ok {
		return s
	}
	switch x := e.(type) {
	case *ast.BinaryExpr:
		switch x.Op {
		case token.LAND, token.LOR:
			l := t.cond(x.X, b)
			var rb lpBinds
			r := t.cond(x.Y, &rb)
			if len(rb.lines) == 0 {
				if x.Op == token.LAND {
					return "(" + l + " ∧ " + r + ")"
				}
				return "(" + l + " ∨ " + r + ")"
			}
			t.ncond++
			c := fmt.Sprintf("c%d", t.ncond)
			right := "(do " + strings.Join(rb.lines, "; ") + "; pure (decide (" + r + ")))"
			if x.Op == token.LAND {
				b.add(fmt.Sprintf("let %s ← (if %s then %s else pure false)", c, l, right))
			} else {
				b.add(fmt.Sprintf("let %s ← (if %s then pure true else %s)", c, l, right))
			}
			return "(" + c + " = true)"
		case token.EQL, token.NEQ, token.LSS, token.LEQ, token.GTR, token.GEQ:
			lt := t.tyOf(x.X)
			if lt == "Bytes" || lt == "GLine" {
				t.refuse(e, "comparison of %s values", lt)
			}
			l := t.expr(x.X, b)
			r := t.expr(x.Y, b)
			op := map[token.Token]string{token.EQL: "=", token.NEQ: "≠", token.LSS: "<", token.LEQ: "≤", token.GTR: ">", token.GEQ: "≥"}[x.Op]
			return "(" + l + " " + op + " " + r + ")"
		}
	case *ast.UnaryExpr:
		if x.Op == token.NOT {
			return "(¬ " + t.cond(x.X, b) + ")"
		}
	case *ast.Ident:
		if cv, ok := t.constOf(e); ok && cv.Kind() == constant.Bool {
			if constant.BoolVal(cv) {
				return "True"
			}
			return "False"
		}
		v := t.varOf(x)
		if v != nil && t.isLocal(v) && t.leanTy(v.Type()) == "Bool" {
			return "(" + lpName(v.Name()) + " = true)"
		}
	}
	t.refuse(e, "unsupported condition %s", nodeText(e))
	return ""
}

// ---- statements ----

func lpInd(n int) string { return strings.Repeat(" ", n) }

func lpPut(lines []string, ind int, b *lpBinds) []string {
	for _, l := range b.lines {
		lines = append(lines, lpInd(ind)+l)
	}
	return lines
}

func lpTuple(names []string) string {
	switch len(names) {
	case 0:
		return "()"
	case 1:
		return names[0]
	}
	return "(" + strings.Join(names, ", ") + ")"
}

func (t *lpTr) tupleTy(vs []*types.Var) string {
	if len(vs) == 0 {
		return "Unit"
	}
	var p []string
	for _, v := range vs {
		p = append(p, t.varTy(v))
	}
	return strings.Join(p, " × ")
}

func lpNames(vs []*types.Var) []string {
	var r []string
	for _, v := range vs {
		r = append(r, lpName(v.Name()))
	}
	return r
}

// simple (non-control) statement → bind lines
func (t *lpTr) simple(s ast.Stmt, b *lpBinds) {
	if t.g.ext != nil && t.extSimple(s, b) {
		return
	}
	switch x := s.(type) {
	case nil:
	case *ast.EmptyStmt:
	case *ast.DeclStmt:
		gd, ok := x.Decl.(*ast.GenDecl)
		if !ok || gd.Tok != token.VAR {
			t.refuse(s, "declaration")
		}
		for _, sp := range gd.Specs {
			vs := sp.(*ast.ValueSpec)
			if len(vs.Names) != 1 || len(vs.Values) != 1 {
				t.refuse(s, "var declaration without a single initialiser")
			}
			v := t.info.Defs[vs.Names[0]].(*types.Var)
			lt := t.varTy(v)
			if lt == "" || lt == "GLine" {
				t.refuse(s, "variable of type %s", v.Type())
			}
			t.makeFor = v
			val := ""
			if lt == lpOptBytes {
				val = t.optExpr(vs.Values[0], b)
			} else {
				val = t.expr(vs.Values[0], b)
			}
			t.makeFor = nil
			b.add(fmt.Sprintf("let %s : %s := %s", lpName(v.Name()), lt, val))
		}
	case *ast.AssignStmt:
		if len(x.Lhs) != 1 || len(x.Rhs) != 1 {
			t.refuse(s, "multiple assignment")
		}
		t.assign(x, b)
	case *ast.IncDecStmt:
		if _, isIdx := paren(x.X).(*ast.IndexExpr); isIdx {
			t.refuse(s, "++/-- on an element")
		}
		op := "+"
		if x.Tok == token.DEC {
			op = "-"
		}
		t.store(x.X, func(cur string, lt string) string { return "(" + cur + " " + op + " " + lpLit(1, lt) + ")" }, b, s)
	case *ast.ExprStmt:
		c, ok := paren(x.X).(*ast.CallExpr)
		if !ok {
			t.refuse(s, "expression statement")
		}
		if t.isCopy(c) {
			t.copyCall(c, b)
			return
		}
		t.call(c, b, false)
	default:
		t.refuse(s, "unsupported statement %T", s)
	}
}

// store into an assignable location; val maps the current value term to the new one
func (t *lpTr) store(lhs ast.Expr, val func(cur string, lt string) string, b *lpBinds, at ast.Node) {
	lhs = paren(lhs)
	switch x := lhs.(type) {
	case *ast.Ident:
		v := t.varOf(x)
		if v == nil || !t.isLocal(v) {
			t.refuse(at, "assignment to %s", x.Name)
		}
		lt := t.varTy(v)
		if lt == "" || lt == "GLine" {
			t.refuse(at, "assignment to a variable of type %s", v.Type())
		}
		n := lpName(v.Name())
		b.add(fmt.Sprintf("let %s : %s := %s", n, lt, val(n, lt)))
		return
	case *ast.SelectorExpr:
		if f, ok := t.lineField(x); ok && x.Sel.Name == "index" {
			l := lpName(t.varOf(x.X).Name())
			b.add(fmt.Sprintf("let %s : GLine := { %s with idx := %s }", l, l, val(f, "Int")))
			return
		}
	case *ast.IndexExpr:
		if sel, ok := paren(x.X).(*ast.SelectorExpr); ok {
			if f, ok := t.lineField(sel); ok && sel.Sel.Name == "buffer" {
				l := lpName(t.varOf(sel.X).Name())
				i := t.intExpr(x.Index, b)
				nv := val("", "UInt8")
				n := t.tmp()
				b.add(fmt.Sprintf("let %s ← setI %s %s %s", n, f, i, nv))
				b.add(fmt.Sprintf("let %s : GLine := { %s with buf := %s }", l, l, n))
				return
			}
		}
		if v := t.varOf(x.X); v != nil && t.isLocal(v) && lpIsBytes(v.Type()) {
			if _, isStr := v.Type().Underlying().(*types.Basic); !isStr {
				t.noteMutated(v)
				n := lpName(v.Name())
				i := t.intExpr(x.Index, b)
				nv := val("", "UInt8")
				b.add(fmt.Sprintf("let %s ← setI %s %s %s", n, n, i, nv))
				return
			}
		}
	}
	t.refuse(at, "assignment target %s", nodeText(lhs))
}

func (t *lpTr) assign(x *ast.AssignStmt, b *lpBinds) {
	lhs, rhs := x.Lhs[0], x.Rhs[0]
	switch x.Tok {
	case token.DEFINE:
		id, ok := lhs.(*ast.Ident)
		if !ok {
			t.refuse(x, "define target")
		}
		v, ok := t.info.Defs[id].(*types.Var)
		if !ok {
			t.refuse(x, "redeclaration in :=")
		}
		lt := t.varTy(v)
		if lt == "" || lt == "GLine" {
			t.refuse(x, "variable of type %s", v.Type())
		}
		if t.extDefine(v, rhs, b) {
			return
		}
		t.makeFor = v
		val := ""
		if lt == lpOptBytes {
			val = t.optExpr(rhs, b)
		} else {
			val = t.expr(rhs, b)
		}
		t.makeFor = nil
		b.add(fmt.Sprintf("let %s : %s := %s", lpName(v.Name()), lt, val))
	case token.ASSIGN:
		// Go evaluates index operands of the left side, then the right side, then stores; an index store panics at the
		// store.  The right side is evaluated first here; both orders give the same Outcome (a panic is a panic).
		if _, isIdx := paren(lhs).(*ast.IndexExpr); isIdx {
			t.store(lhs, func(string, string) string { return t.expr(rhs, b) }, b, x)
		} else {
			val := ""
			if lv := t.varOf(lhs); lv != nil && t.nilable[lv] {
				val = t.optExpr(rhs, b)
			} else {
				t.makeFor = t.varOf(lhs)
				val = t.expr(rhs, b)
				t.makeFor = nil
			}
			t.store(lhs, func(string, string) string { return val }, b, x)
		}
	default:
		opTok := map[token.Token]token.Token{token.ADD_ASSIGN: token.ADD, token.SUB_ASSIGN: token.SUB, token.MUL_ASSIGN: token.MUL, token.QUO_ASSIGN: token.QUO, token.REM_ASSIGN: token.REM, token.AND_ASSIGN: token.AND, token.OR_ASSIGN: token.OR, token.XOR_ASSIGN: token.XOR, token.SHL_ASSIGN: token.SHL, token.SHR_ASSIGN: token.SHR, token.AND_NOT_ASSIGN: token.AND_NOT}
		op, ok := opTok[x.Tok]
		if !ok {
			t.refuse(x, "assignment operator %s", x.Tok)
		}
		if _, isIdx := paren(lhs).(*ast.IndexExpr); isIdx {
			t.refuse(x, "op-assignment to an element")
		}
		// x op= e is x = x op (e)
		be := &ast.BinaryExpr{X: lhs, Op: op, Y: rhs, OpPos: x.TokPos}
		val := t.binary(be, t.tyOf(lhs), b)
		t.store(lhs, func(string, string) string { return val }, b, x)
	}
}

func lpTerminates(stmts []ast.Stmt) bool {
	if len(stmts) == 0 {
		return false
	}
	switch s := stmts[len(stmts)-1].(type) {
	case *ast.ReturnStmt, *ast.BranchStmt:
		return true
	case *ast.BlockStmt:
		return lpTerminates(s.List)
	case *ast.IfStmt:
		if s.Else == nil {
			return false
		}
		var els []ast.Stmt
		switch e := s.Else.(type) {
		case *ast.BlockStmt:
			els = e.List
		default:
			els = []ast.Stmt{e}
		}
		return lpTerminates(s.Body.List) && lpTerminates(els)
	}
	return false
}

// translate a statement list; k produces the lines that follow a normal fall-through
func (t *lpTr) block(stmts []ast.Stmt, ind int, j *lpJump, k lpKont) []string {
	if len(stmts) == 0 {
		return k(ind)
	}
	s, rest := stmts[0], stmts[1:]
	restK := func(ind int) []string { return t.block(rest, ind, j, k) }
	var lines []string
	switch x := s.(type) {
	case *ast.BlockStmt:
		return t.block(append(append([]ast.Stmt{}, x.List...), rest...), ind, j, k)
	case *ast.ReturnStmt:
		if t.g.ext != nil {
			if ls, ok := t.extReturn(x, ind, j); ok {
				return ls
			}
		}
		if j.ret == nil {
			t.refuse(s, "return inside a loop")
		}
		if len(x.Results) > 1 {
			t.refuse(s, "multiple results")
		}
		var b lpBinds
		val := ""
		if len(x.Results) == 1 {
			if t.fn.lineRecv {
				if c, isCall := paren(x.Results[0]).(*ast.CallExpr); isCall {
					// `return l.M(args)` for a translated method of the receiver (which returns its receiver)
					sel, ok := paren(c.Fun).(*ast.SelectorExpr)
					if !ok || t.varOf(sel.X) == nil || t.varOf(sel.X) != t.recv {
						t.refuse(s, "a *Line method must return its receiver")
					}
					t.call(c, &b, false)
				} else if v := t.varOf(x.Results[0]); v == nil || v != t.recv {
					t.refuse(s, "a *Line method must return its receiver")
				}
			} else {
				val = t.expr(x.Results[0], &b)
			}
		}
		lines = lpPut(lines, ind, &b)
		return append(lines, j.ret(val, ind)...)
	case *ast.BranchStmt:
		if x.Label != nil {
			t.refuse(s, "labelled branch")
		}
		switch x.Tok {
		case token.BREAK:
			if j.brk == nil {
				t.refuse(s, "break outside a loop")
			}
			return j.brk(ind)
		case token.CONTINUE:
			if j.cont == nil {
				t.refuse(s, "continue outside a loop")
			}
			return j.cont(ind)
		}
		t.refuse(s, "branch statement %s", x.Tok)
	case *ast.IfStmt:
		return t.ifStmt(x, rest, ind, j, k)
	case *ast.ForStmt, *ast.RangeStmt:
		cl, ok := t.cache[s]
		if !ok {
			if f, isFor := x.(*ast.ForStmt); isFor {
				cl = t.forStmt(f, 0, j)
			} else {
				cl = t.rangeStmt(x.(*ast.RangeStmt), 0, j)
			}
			t.cache[s] = cl
		}
		for _, l := range cl {
			lines = append(lines, lpInd(ind)+l)
		}
		return append(lines, restK(ind)...)
	}
	if t.g.ext != nil {
		if ls, ok := t.extStmt(s, rest, ind, j, k); ok {
			return ls
		}
	}
	var b lpBinds
	t.simple(s, &b)
	lines = lpPut(lines, ind, &b)
	return append(lines, restK(ind)...)
}

func lpElse(x *ast.IfStmt) []ast.Stmt {
	switch e := x.Else.(type) {
	case nil:
		return nil
	case *ast.BlockStmt:
		return e.List
	default:
		return []ast.Stmt{e}
	}
}

func (t *lpTr) ifStmt(x *ast.IfStmt, rest []ast.Stmt, ind int, j *lpJump, k lpKont) []string {
	var lines []string
	els := lpElse(x)
	if t.g.ext != nil {
		if ls, ok := t.extIf(x, rest, ind, j, k); ok {
			return ls
		}
	}
	if !hasJump(x) {
		// jump-free: the variables declared outside and assigned inside are returned as a tuple
		as := t.assigned(x)
		var outs []*types.Var
		for _, v := range lpSorted(as) {
			if !lpInside(v, x) {
				outs = append(outs, v)
			}
		}
		pat := lpTuple(lpNames(outs))
		if len(outs) == 0 {
			pat = "_"
		}
		final := func(ind int) []string { return []string{lpInd(ind) + "pure " + lpTuple(lpNames(outs))} }
		var b lpBinds
		t.simple(x.Init, &b)
		c := t.cond(x.Cond, &b)
		lines = append(lines, lpInd(ind)+"let "+pat+" ← (do")
		lines = lpPut(lines, ind+4, &b)
		lines = append(lines, lpInd(ind+4)+"if "+c+" then do")
		lines = append(lines, t.block(x.Body.List, ind+6, j, final)...)
		lines = append(lines, lpInd(ind+4)+"else do")
		lines = append(lines, t.block(els, ind+6, j, final)...)
		lines[len(lines)-1] += ")"
		restK := func(ind int) []string { return t.block(rest, ind, j, k) }
		return append(lines, restK(ind)...)
	}
	// a branch jumps: the continuation is placed (duplicated) after every branch that falls through
	restK := func(ind int) []string { return t.block(rest, ind, j, k) }
	var b lpBinds
	t.simple(x.Init, &b)
	c := t.cond(x.Cond, &b)
	lines = lpPut(lines, ind, &b)
	lines = append(lines, lpInd(ind)+"if "+c+" then do")
	lines = append(lines, t.block(x.Body.List, ind+2, j, restK)...)
	lines = append(lines, lpInd(ind)+"else do")
	lines = append(lines, t.block(els, ind+2, j, restK)...)
	return lines
}

// the loop function for `for init; cond; post { body }` (init already emitted by the caller)
func (t *lpTr) loopFn(node ast.Node, pre []string, cond ast.Expr, body []ast.Stmt, post ast.Stmt, extraCarried []*types.Var, fuel string, ind int) []string {
	t.nloop++
	name := fmt.Sprintf("%s_loop%d", t.fn.lean, t.nloop)
	as := t.assigned(node)
	carriedSet := map[*types.Var]bool{}
	for v := range as {
		carriedSet[v] = true
	}
	for _, v := range extraCarried {
		carriedSet[v] = true
	}
	var carried, outs []*types.Var
	for _, v := range lpSorted(carriedSet) {
		isExtra := false
		for _, e := range extraCarried {
			if e == v {
				isExtra = true
			}
		}
		if lpInside(v, node) && !isExtra {
			// declared inside the loop: only carried when declared by the init statement (handled through extraCarried)
			continue
		}
		carried = append(carried, v)
		if !lpInside(v, node) {
			outs = append(outs, v)
		}
	}
	var params []*types.Var
	for _, v := range lpSorted(t.used(node)) {
		if !lpInside(v, node) && !carriedSet[v] {
			params = append(params, v)
		}
	}
	for _, v := range append(append([]*types.Var{}, carried...), params...) {
		if t.varTy(v) == "" {
			t.refuse(node, "loop uses variable %s of unsupported type %s", v.Name(), v.Type())
		}
	}
	var sig []string
	for _, v := range params {
		sig = append(sig, fmt.Sprintf("(%s : %s)", lpName(v.Name()), t.varTy(v)))
	}
	var argTys, pats, wild []string
	for _, v := range carried {
		argTys = append(argTys, t.varTy(v))
		pats = append(pats, lpName(v.Name()))
		wild = append(wild, "_")
	}
	resTy := t.tupleTy(outs)
	if len(outs) > 1 {
		resTy = "(" + resTy + ")"
	}
	callArgs := strings.Join(append(lpNames(params), "fuel"), " ")
	exit := func(ind int) []string { return []string{lpInd(ind) + "pure " + lpTuple(lpNames(outs))} }
	again := func(ind int) []string {
		var b lpBinds
		t.simple(post, &b)
		ls := lpPut(nil, ind, &b)
		return append(ls, lpInd(ind)+strings.TrimSpace(name+" "+callArgs+" "+strings.Join(pats, " ")))
	}
	saved := t.loops
	t.loops = nil
	var fl []string
	fl = append(fl, fmt.Sprintf("def %s %s : Nat%s → Outcome %s", name, strings.Join(sig, " "), lpArrow(argTys), resTy))
	fl = append(fl, "  | "+strings.Join(append([]string{"0"}, wild...), ", ")+" => .hang")
	fl = append(fl, "  | "+strings.Join(append([]string{"fuel + 1"}, pats...), ", ")+" => do")
	for _, l := range pre {
		fl = append(fl, lpInd(4)+l)
	}
	jl := &lpJump{brk: exit, cont: again}
	if cond != nil {
		var b lpBinds
		c := t.cond(cond, &b)
		fl = lpPut(fl, 4, &b)
		fl = append(fl, lpInd(4)+"if "+c+" then do")
		fl = append(fl, t.block(body, 6, jl, again)...)
		fl = append(fl, lpInd(4)+"else do")
		fl = append(fl, exit(6)...)
	} else {
		fl = append(fl, t.block(body, 4, jl, again)...)
	}
	inner := t.loops
	t.loops = append(append(saved, inner...), strings.Join(fl, "\n")+"\n")
	t.g.fuels = append(t.g.fuels, fmt.Sprintf("(%q, %q)", name, fuel))
	// the call
	pat := lpTuple(lpNames(outs))
	if len(outs) == 0 {
		pat = "_"
	}
	call := strings.TrimSpace(fmt.Sprintf("%s %s (%s) %s", name, strings.Join(lpNames(params), " "), fuel, strings.Join(pats, " ")))
	call = strings.Join(strings.Fields(call), " ")
	return []string{lpInd(ind) + "let " + pat + " ← " + call}
}

func lpArrow(tys []string) string {
	s := ""
	for _, t := range tys {
		s += " → " + t
	}
	return s
}

func (t *lpTr) forStmt(x *ast.ForStmt, ind int, j *lpJump) []string {
	var lines []string
	var b lpBinds
	var initVars []*types.Var
	if x.Init != nil {
		a, ok := x.Init.(*ast.AssignStmt)
		if !ok || a.Tok != token.DEFINE || len(a.Lhs) != 1 {
			t.refuse(x, "for-init must be a single `i := e`")
		}
		t.simple(x.Init, &b)
		initVars = append(initVars, t.info.Defs[a.Lhs[0].(*ast.Ident)].(*types.Var))
	}
	lines = lpPut(lines, ind, &b)
	if x.Cond == nil {
		t.refuse(x, "loop without a condition: no termination measure")
	}
	fuel := t.fuelOf(x)
	return append(lines, t.loopFn(x, nil, x.Cond, x.Body.List, x.Post, initVars, fuel, ind)...)
}

// termination measure of a `for` loop (see the header); refuses when none is recognised
func (t *lpTr) fuelOf(x *ast.ForStmt) string {
	if t.g.ext != nil {
		if f, ok := t.extFuel(x); ok {
			return f
		}
	}
	be, ok := paren(x.Cond).(*ast.BinaryExpr)
	if !ok {
		t.refuse(x, "no termination measure: condition %s", nodeText(x.Cond))
	}
	bodyAs := t.assigned(x.Body)
	v := t.varOf(be.X)
	if v == nil || !t.isLocal(v) {
		t.refuse(x, "no termination measure: left side of the loop condition is not a local variable")
	}
	lt := t.leanTy(v.Type())
	// counted loop
	if (be.Op == token.LSS || be.Op == token.LEQ) && lt == "Int" && x.Post != nil {
		step := int64(0)
		switch p := x.Post.(type) {
		case *ast.IncDecStmt:
			if p.Tok == token.INC && t.varOf(p.X) == v {
				step = 1
			}
		case *ast.AssignStmt:
			if p.Tok == token.ADD_ASSIGN && len(p.Lhs) == 1 && t.varOf(p.Lhs[0]) == v {
				if c, ok := t.constInt(p.Rhs[0]); ok && c > 0 {
					step = c
				}
			}
		}
		if step == 0 {
			t.refuse(x, "no termination measure: post statement is not i++ / i += c")
		}
		if bodyAs[v] {
			t.refuse(x, "no termination measure: the loop variable %s is assigned in the body", v.Name())
		}
		for u := range t.used(be.Y) {
			if bodyAs[u] || u == v {
				t.refuse(x, "no termination measure: the bound depends on %s, which the loop assigns", u.Name())
			}
		}
		var bb lpBinds
		bound := t.expr(be.Y, &bb)
		if len(bb.lines) > 0 {
			t.refuse(x, "no termination measure: the bound can panic")
		}
		extra := 1
		if be.Op == token.LEQ {
			extra = 2
		}
		return fmt.Sprintf("(%s - %s).toNat + %d", bound, lpName(v.Name()), extra)
	}
	// for v > 0 { … v /= c … }
	if c, ok := t.constInt(be.Y); ok && c == 0 && (be.Op == token.GTR || be.Op == token.NEQ) && lpWidth(lt) > 0 && x.Post == nil {
		n := 0
		good := false
		ast.Inspect(x.Body, func(y ast.Node) bool {
			switch s := y.(type) {
			case *ast.AssignStmt:
				for _, l := range s.Lhs {
					if t.rootVar(l) == v {
						n++
						if s.Tok == token.QUO_ASSIGN && len(s.Rhs) == 1 {
							if d, ok := t.constInt(s.Rhs[0]); ok && d >= 2 {
								good = true
							}
						}
					}
				}
			case *ast.IncDecStmt:
				if t.rootVar(s.X) == v {
					n++
					if s.Tok == token.DEC {
						good = true
					}
				}
			case *ast.ForStmt, *ast.RangeStmt, *ast.BranchStmt:
				n += 2 // nested loops or continue: not the simple shape
			}
			return true
		})
		if n == 1 && good {
			return lpName(v.Name()) + ".toNat + 1"
		}
	}
	t.refuse(x, "no termination measure recognised for `for %s`", nodeText(x.Cond))
	return ""
}

func (t *lpTr) rangeStmt(x *ast.RangeStmt, ind int, j *lpJump) []string {
	if x.Tok != token.DEFINE || x.Value == nil {
		t.refuse(x, "range form (only `for _, v := range x`)")
	}
	if k, ok := x.Key.(*ast.Ident); !ok || k.Name != "_" {
		t.refuse(x, "range with a key variable")
	}
	xv := t.varOf(x.X)
	extList := t.g.ext != nil && xv != nil && lpIsListTy(t.leanTy(xv.Type())) // loops_marshal.go: a []T of struct / interface values
	if xv == nil || !t.isLocal(xv) || !(lpIsBytes(xv.Type()) || lpIsList(t.leanTy(xv.Type())) || extList) {
		t.refuse(x, "range over %s (only a local byte slice, []string or []net.IP)", nodeText(x.X))
	}
	idxFn := "idxI"
	if lpIsList(t.leanTy(xv.Type())) || extList {
		idxFn = "idxL"
	}
	if _, isStr := xv.Type().Underlying().(*types.Basic); isStr {
		t.refuse(x, "range over a string (runes)")
	}
	if t.assigned(x.Body)[xv] {
		t.refuse(x, "the ranged slice is assigned in the loop")
	}
	vv, ok := t.info.Defs[x.Value.(*ast.Ident)].(*types.Var)
	if !ok {
		t.refuse(x, "range value")
	}
	if t.assigned(x.Body)[vv] {
		t.refuse(x, "the range value variable is assigned in the loop")
	}
	// desugared: for k := 0; k < len(x); k++ { v := x[k]; body }
	t.nloop++
	t.nloop--
	kname := fmt.Sprintf("k%d", t.nloop+1)
	xs := lpName(xv.Name())
	if t.nilable[xv] {
		xs = "(nilBytes " + xs + ")"
	}
	lines := []string{lpInd(ind) + fmt.Sprintf("let %s : Int := (0 : Int)", kname)}
	// a synthetic loop: built by hand because the counter has no Go object
	t.nloop++
	name := fmt.Sprintf("%s_loop%d", t.fn.lean, t.nloop)
	as := t.assigned(x)
	var carried []*types.Var
	for _, v := range lpSorted(as) {
		if !lpInside(v, x) {
			carried = append(carried, v)
		}
	}
	carriedSet := map[*types.Var]bool{}
	for _, v := range carried {
		carriedSet[v] = true
	}
	var params []*types.Var
	for _, v := range lpSorted(t.used(x)) {
		if !lpInside(v, x) && !carriedSet[v] {
			params = append(params, v)
		}
	}
	for _, v := range append(append([]*types.Var{}, carried...), params...) {
		if t.varTy(v) == "" {
			t.refuse(x, "loop uses variable %s of unsupported type %s", v.Name(), v.Type())
		}
	}
	var sig []string
	for _, v := range params {
		sig = append(sig, fmt.Sprintf("(%s : %s)", lpName(v.Name()), t.varTy(v)))
	}
	argTys := []string{"Int"}
	pats := []string{kname}
	wild := []string{"_"}
	for _, v := range carried {
		argTys = append(argTys, t.varTy(v))
		pats = append(pats, lpName(v.Name()))
		wild = append(wild, "_")
	}
	resTy := t.tupleTy(carried)
	if len(carried) > 1 {
		resTy = "(" + resTy + ")"
	}
	callArgs := strings.Join(append(lpNames(params), "fuel"), " ")
	exit := func(ind int) []string { return []string{lpInd(ind) + "pure " + lpTuple(lpNames(carried))} }
	again := func(ind int) []string {
		return []string{lpInd(ind) + fmt.Sprintf("let %s : Int := (%s + (1 : Int))", kname, kname),
			lpInd(ind) + strings.Join(strings.Fields(name+" "+callArgs+" "+strings.Join(pats, " ")), " ")}
	}
	saved := t.loops
	t.loops = nil
	var fl []string
	fl = append(fl, fmt.Sprintf("def %s %s : Nat%s → Outcome %s", name, strings.Join(sig, " "), lpArrow(argTys), resTy))
	fl = append(fl, "  | "+strings.Join(append([]string{"0"}, wild...), ", ")+" => .hang")
	fl = append(fl, "  | "+strings.Join(append([]string{"fuel + 1"}, pats...), ", ")+" => do")
	fl = append(fl, lpInd(4)+fmt.Sprintf("if (%s < (%s.length : Int)) then do", kname, xs))
	fl = append(fl, lpInd(6)+fmt.Sprintf("let %s ← %s %s %s", lpName(vv.Name()), idxFn, xs, kname))
	fl = append(fl, t.block(x.Body.List, 6, &lpJump{brk: exit, cont: again}, again)...)
	fl = append(fl, lpInd(4)+"else do")
	fl = append(fl, exit(6)...)
	inner := t.loops
	t.loops = append(append(saved, inner...), strings.Join(fl, "\n")+"\n")
	fuel := fmt.Sprintf("%s.length + 1", xs)
	t.g.fuels = append(t.g.fuels, fmt.Sprintf("(%q, %q)", name, fuel))
	pat := lpTuple(lpNames(carried))
	if len(carried) == 0 {
		pat = "_"
	}
	call := strings.Join(strings.Fields(fmt.Sprintf("%s %s (%s) %s", name, strings.Join(lpNames(params), " "), fuel, strings.Join(pats, " "))), " ")
	return append(lines, lpInd(ind)+"let "+pat+" ← "+call)
}

// ---- functions ----

func lpFuncKey(f *types.Func) string {
	sig := f.Type().(*types.Signature)
	pk := ""
	if f.Pkg() != nil {
		pk = f.Pkg().Name() + "."
	}
	if r := sig.Recv(); r != nil {
		ty := r.Type()
		star := ""
		if p, ok := ty.(*types.Pointer); ok {
			ty = p.Elem()
			star = "*"
		}
		if n, ok := ty.(*types.Named); ok {
			return pk + "(" + star + n.Obj().Name() + ")." + f.Name()
		}
	}
	return pk + f.Name()
}

func lpLeanFn(f *types.Func) string {
	sig := f.Type().(*types.Signature)
	if r := sig.Recv(); r != nil {
		ty := r.Type()
		if p, ok := ty.(*types.Pointer); ok {
			ty = p.Elem()
		}
		if n, ok := ty.(*types.Named); ok {
			return "gen" + n.Obj().Name() + "_" + f.Name()
		}
	}
	return "gen" + f.Name()
}

func (g *lpGen) findDecl(f *types.Func) (*packages.Package, *ast.FuncDecl) {
	if f.Pkg() == nil {
		return nil, nil
	}
	p := g.pkgs[f.Pkg().Path()]
	if p == nil {
		return nil, nil
	}
	for _, file := range p.Syntax {
		for _, d := range file.Decls {
			if fd, ok := d.(*ast.FuncDecl); ok && p.TypesInfo.Defs[fd.Name] == f {
				return p, fd
			}
		}
	}
	return nil, nil
}

func (g *lpGen) translate(f *types.Func) (res *lpFunc, why string) {
	if r, ok := g.done[f]; ok {
		return r, ""
	}
	if w, ok := g.refused[f]; ok {
		return nil, w
	}
	if g.busy[f] {
		return nil, "recursive call"
	}
	p, fd := g.findDecl(f)
	if fd == nil || fd.Body == nil {
		w := "no source in the loaded packages (standard library or external)"
		g.refused[f] = w
		return nil, w
	}
	g.busy[f] = true
	defer func() {
		delete(g.busy, f)
		if r := recover(); r != nil {
			ref, ok := r.(lpRefusal)
			if !ok {
				panic(r)
			}
			g.refused[f] = ref.msg
			res, why = nil, ref.msg
		}
	}()
	t := &lpTr{g: g, p: p, info: p.TypesInfo, fd: fd, cache: map[ast.Node][]string{}}
	fn := &lpFunc{key: lpFuncKey(f), lean: lpLeanFn(f)}
	t.fn = fn
	sig := f.Type().(*types.Signature)
	t.checkShadow()
	t.scanNilable()
	var allParams []*types.Var
	if r := sig.Recv(); r != nil {
		t.recv = r
		allParams = append(allParams, r)
		fn.lineRecv = t.isLine(r.Type())
		if !fn.lineRecv && t.leanTy(r.Type()) == "" {
			t.refuse(fd, "receiver of type %s", r.Type())
		}
	}
	for i := 0; i < sig.Params().Len(); i++ {
		allParams = append(allParams, sig.Params().At(i))
	}
	if sig.Variadic() {
		t.refuse(fd, "variadic")
	}
	as := t.assigned(fd.Body)
	for _, v := range allParams {
		if t.fl() && isNamed(v.Type(), "", "error") {
			t.errParam[v] = true
		}
		lt := t.varTy(v)
		if v != sig.Recv() {
			fn.paramOpt = append(fn.paramOpt, lt == lpOptBytes)
		}
		if lt == "" {
			t.refuse(fd, "parameter %s of type %s", v.Name(), v.Type())
		}
		if (v.Name() == "_" || v.Name() == "") && t.g.ext != nil && v == sig.Recv() {
			// an unnamed receiver (`func (*MTU) Code() byte`) is never read: any name will do
			fn.params = append(fn.params, fmt.Sprintf("(recv_ : %s)", lt))
			continue
		}
		if v.Name() == "_" || v.Name() == "" {
			t.refuse(fd, "unnamed parameter")
		}
		fn.params = append(fn.params, fmt.Sprintf("(%s : %s)", lpName(v.Name()), lt))
		if lt == "Bytes" {
			// written in place (element store or copy destination)?  plain reassignment `value = value[:n]` is local
			if as[v] && t.writtenInPlace(fd.Body, v) {
				fn.mutated = append(fn.mutated, v)
			}
		} else if t.g.ext != nil && t.extParamMutated(fd.Body, v, as) {
			fn.mutated = append(fn.mutated, v)
		}
	}
	var resTys []string
	if fn.lineRecv {
		for i := 0; i < sig.Results().Len(); i++ {
			if !t.isLine(sig.Results().At(i).Type()) || i > 0 {
				t.refuse(fd, "a *Line method returning something else than its receiver")
			}
		}
		fn.resTy = "GLine"
	} else {
		for _, v := range fn.mutated {
			resTys = append(resTys, t.leanTy(v.Type()))
		}
		nres := sig.Results().Len()
		if t.g.ext != nil && nres > 0 && isErrorType(sig.Results().At(nres-1).Type()) {
			if sig.Results().At(nres-1).Name() != "" {
				t.refuse(fd, "named result")
			}
			fn.errRes = true
			nres--
		}
		if nres > 1 {
			t.refuse(fd, "multiple results")
		}
		if nres == 1 {
			if sig.Results().At(0).Name() != "" {
				t.refuse(fd, "named result")
			}
			lt := t.leanTy(sig.Results().At(0).Type())
			if lt == "" || lt == "GLine" {
				t.refuse(fd, "result of type %s", sig.Results().At(0).Type())
			}
			resTys = append(resTys, lt)
			fn.nret = 1
		}
		switch len(resTys) {
		case 0:
			fn.resTy = "Unit"
		case 1:
			fn.resTy = resTys[0]
		default:
			fn.resTy = "(" + strings.Join(resTys, " × ") + ")"
		}
	}
	ret := func(val string, ind int) []string {
		if fn.lineRecv {
			return []string{lpInd(ind) + "pure " + lpName(t.recv.Name())}
		}
		names := lpNames(fn.mutated)
		if fn.nret == 1 {
			if val == "" {
				t.refuse(fd, "return without a value")
			}
			names = append(names, val)
		}
		return []string{lpInd(ind) + "pure " + lpTuple(names)}
	}
	end := func(ind int) []string {
		if fn.nret == 1 {
			t.refuse(fd, "function can fall off its end")
		}
		return ret("", ind)
	}
	body := t.block(fd.Body.List, 2, &lpJump{ret: ret}, end)
	if t.g.ext != nil {
		body = t.extFinish(fn, body)
	}
	pos := p.Fset.Position(fd.Pos())
	var sb strings.Builder
	for _, l := range t.loops {
		sb.WriteString(l + "\n")
	}
	fmt.Fprintf(&sb, "/-- Go: func %s (%s:%d) -/\n", fn.key, filepath.Base(pos.Filename), pos.Line)
	fmt.Fprintf(&sb, "def %s %s : Outcome %s := do\n", fn.lean, strings.Join(fn.params, " "), fn.resTy)
	sb.WriteString(strings.Join(body, "\n") + "\n")
	fn.text = sb.String()
	g.done[f] = fn
	g.order = append(g.order, fn)
	return fn, ""
}

// v is written through (element store or copy destination), not merely re-bound
func (t *lpTr) writtenInPlace(n ast.Node, v *types.Var) bool {
	found := false
	ast.Inspect(n, func(x ast.Node) bool {
		switch s := x.(type) {
		case *ast.AssignStmt:
			for _, l := range s.Lhs {
				if _, ok := paren(l).(*ast.IndexExpr); ok && t.rootVar(l) == v {
					found = true
				}
			}
		case *ast.IncDecStmt:
			if _, ok := paren(s.X).(*ast.IndexExpr); ok && t.rootVar(s.X) == v {
				found = true
			}
		case *ast.CallExpr:
			if t.isCopy(s) && len(s.Args) == 2 && t.rootVar(s.Args[0]) == v {
				found = true
			}
		}
		return true
	})
	return found
}

// candidates of package packet (the functions the C15 model describes) — the fastlog candidates are found: every
// method of *Line
var lpPacketCandidates = []struct{ recv, name string }{
	{"", "Checksum"}, {"IP4", "CalculateChecksum"}, {"ICMP", "SetChecksum"},
	{"Session", "icmp4SendPacket"}, {"Session", "icmp6SendPacket"},
}

func loopFacts(pkgs []*packages.Package, b *strings.Builder) {
	g := &lpGen{pkgs: map[string]*packages.Package{}, done: map[*types.Func]*lpFunc{}, refused: map[*types.Func]string{}, busy: map[*types.Func]bool{}, tables: map[*types.Var]string{}, calleesUsed: map[string]bool{}}
	var root, flog *packages.Package
	for _, p := range pkgs {
		g.pkgs[p.PkgPath] = p
		switch p.PkgPath {
		case "github.com/irai/packet":
			root = p
		case "github.com/irai/packet/fastlog":
			flog = p
		}
	}
	type cand struct {
		f   *types.Func
		key string
	}
	var cands []cand
	var missing []string
	if root != nil {
		for _, c := range lpPacketCandidates {
			fd := findFunc(root, c.recv, c.name)
			if fd == nil {
				missing = append(missing, "packet."+c.recv+"."+c.name)
				continue
			}
			f := root.TypesInfo.Defs[fd.Name].(*types.Func)
			cands = append(cands, cand{f, lpFuncKey(f)})
		}
	}
	if flog != nil {
		var fl []cand
		for _, file := range flog.Syntax {
			for _, d := range file.Decls {
				fd, ok := d.(*ast.FuncDecl)
				if !ok || fd.Recv == nil || fd.Body == nil {
					continue
				}
				f := flog.TypesInfo.Defs[fd.Name].(*types.Func)
				r := f.Type().(*types.Signature).Recv()
				if p, ok := r.Type().(*types.Pointer); ok {
					if n, ok := p.Elem().(*types.Named); ok && n.Obj().Name() == "Line" {
						fl = append(fl, cand{f, lpFuncKey(f)})
					}
				}
			}
		}
		sort.Slice(fl, func(i, j int) bool { return fl[i].key < fl[j].key })
		cands = append(cands, fl...)
		// the array length of Line.buffer
		if o := flog.Types.Scope().Lookup("Line"); o != nil {
			if st, ok := o.Type().Underlying().(*types.Struct); ok {
				for i := 0; i < st.NumFields(); i++ {
					if st.Field(i).Name() == "buffer" {
						if a, ok := st.Field(i).Type().(*types.Array); ok {
							g.bufSize = a.Len()
						}
					}
				}
			}
		}
	}
	for _, c := range cands {
		g.translate(c.f)
	}
	b.WriteString("/- GENERATED by /verif/tools/goextract (loops.go) from the Go sources in /repo — do not edit. -/\nimport PacketVerif.Model.LoopGo\nimport PacketVerif.Model.Fastlog\nset_option linter.unusedVariables false\nnamespace PV.Gen.Loops\nopen PV PV.Model.LoopGo\n\n")
	for _, d := range g.tableDefs {
		b.WriteString(d + "\n")
	}
	fmt.Fprintf(b, "/-- Go: type Line struct { buffer [N]byte; … } — the array length N -/\ndef genLineBufSize : Nat := %d\n\n", g.bufSize)
	for _, fn := range g.order {
		b.WriteString(fn.text + "\n")
	}
	for _, pk := range []string{"packet", "fastlog"} {
		fmt.Fprintf(b, "/-- translated functions of package %s: (Go name, generated Lean function) -/\ndef %sLoopsTranslated : List (String × String) := [\n", pk, pk)
		var rows []string
		for _, c := range cands {
			if fn, ok := g.done[c.f]; ok && strings.HasPrefix(c.key, pk+".") {
				rows = append(rows, fmt.Sprintf("  (%q, %q)", fn.key, fn.lean))
			}
		}
		b.WriteString(strings.Join(rows, ",\n") + "]\n\n")
		fmt.Fprintf(b, "/-- candidates of package %s the translator REFUSED, with the first offending construct -/\ndef %sLoopsUntranslated : List (String × String) := [\n", pk, pk)
		rows = nil
		for _, c := range cands {
			if w, ok := g.refused[c.f]; ok && strings.HasPrefix(c.key, pk+".") {
				rows = append(rows, fmt.Sprintf("  (%q, %q)", c.key, w))
			}
		}
		for _, m := range missing {
			if strings.HasPrefix(m, pk+".") {
				rows = append(rows, fmt.Sprintf("  (%q, %q)", m, "function not found"))
			}
		}
		b.WriteString(strings.Join(rows, ",\n") + "]\n\n")
	}
	b.WriteString("/-- the fuel handed to every generated loop function (not trusted: too little fuel shows as `.hang`) -/\ndef loopFuels : List (String × String) := [\n  " + strings.Join(g.fuels, ",\n  ") + "]\n\n")
	b.WriteString(lpCalleesText(g.calleesUsed))
	b.WriteString("/-- what the translation assumes about Go (reviewed in design_notes/bQ.md) -/\ndef loopAssumptions : List (String × String) := [\n" +
		"  (\"intNoOverflow\", \"Go int is modelled as an unbounded integer; every int value in the translated functions is a length, an index below a length plus a small constant, or a small constant\"),\n" +
		"  (\"capEqLen\", \"a slice expression x[lo:hi] on a byte-slice value is checked against len(x) (the length-only view of the models)\"),\n" +
		"  (\"noAlias\", \"byte-slice and string arguments do not alias the destination of a copy or store\")]\n\n")
	b.WriteString("end PV.Gen.Loops\n")
}
