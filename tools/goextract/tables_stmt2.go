package main

import (
	"fmt"
	"go/ast"
	"go/token"
	"go/types"
	"strings"
)

func (c tctx) freshLit(cl *ast.CompositeLit) (string, tk, error) {
	x := c.x
	f := map[string]string{}
	for _, el := range cl.Elts {
		kv, ok := el.(*ast.KeyValueExpr)
		if !ok {
			return "", 0, c.errf(cl, "positional composite literal")
		}
		a, err := c.expr(kv.Value)
		if err != nil {
			return "", 0, err
		}
		key := kv.Key.(*ast.Ident).Name
		switch {
		case a.k == tkAddr:
			f["mac"], f["ip"] = a.sub["MAC"], a.sub["IP"]
		case a.k == tkMac || a.k == tkHost:
			if a.st != stNonNil {
				return "", 0, c.errf(cl, "possibly nil pointer stored in a new object")
			}
			f[key] = a.lean
		default:
			f[key] = a.lean
		}
	}
	get := func(k, zero string) string {
		if s, ok := f[k]; ok {
			delete(f, k)
			return s
		}
		return zero
	}
	var l string
	var k tk
	switch x.info.TypeOf(cl).String() {
	case "github.com/irai/packet.Host":
		k = tkHost
		l = fmt.Sprintf("({ id := s.nextId, ip := %s, mac := %s, entry := %s, online := %s, lastSeen := %s, manuf := %s, names := {}, dirty := false } : HostRec)",
			get("ip", "IP.none"), get("mac", "[]"), get("MACEntry", "0"), get("Online", "false"), get("LastSeen", "zeroTime"), get("Manufacturer", "\"\""))
	case "github.com/irai/packet.MACEntry":
		k = tkMac
		l = fmt.Sprintf("({ id := s.nextId, mac := %s, captured := %s, ip4 := %s, ip4offer := %s, ip6gua := %s, ip6lla := %s, ip6offer := %s, online := %s, isRouter := %s, hostList := [], manuf := %s, names := {}, lastSeen := zeroTime } : MacRec)",
			get("MAC", "[]"), get("Captured", "false"), get("IP4", "IP.none"), get("IP4Offer", "IP.none"), get("IP6GUA", "IP.none"), get("IP6LLA", "IP.none"),
			get("IP6Offer", "IP.none"), get("Online", "false"), get("IsRouter", "false"), get("Manufacturer", "\"\""))
	default:
		return "", 0, c.errf(cl, "allocation of %s", x.info.TypeOf(cl))
	}
	if len(f) != 0 {
		return "", 0, c.errf(cl, "field of the new object without a model counterpart")
	}
	return l, k, nil
}

func (c tctx) assign(v *ast.AssignStmt, next kont) (string, error) {
	x := c.x
	if v.Tok != token.ASSIGN && v.Tok != token.DEFINE {
		return "", c.errf(v, "assignment operator %s", v.Tok)
	}
	finish := func(pre string) (string, error) {
		r, err := next(c)
		return pre + r, err
	}
	if len(v.Rhs) == 1 {
		rhs := v.Rhs[0]
		// call of a translated function
		if ce, ok := rhs.(*ast.CallExpr); ok {
			if g := x.calleeOf(ce); g != nil {
				if g.err != nil {
					return "", c.errf(v, "call of the untranslated %s", g.lean)
				}
				if len(v.Lhs) != len(g.results) {
					return "", c.errf(v, "assignment arity")
				}
				return c.bindCall(ce, g, func(c2 tctx, res []string) (string, error) {
					pre := ""
					for i, l := range v.Lhs {
						st := stNonNil
						if (g.results[i] == tkHost || g.results[i] == tkMac) && !g.resNonNil[i] {
							st = stMaybe
						}
						p, err := c2.store(l, tval{lean: res[i], k: g.results[i], st: st}, v)
						if err != nil {
							return "", err
						}
						pre += p
					}
					r, err := next(c2)
					return pre + r, err
				})
			}
			// NameEntry.Merge
			if se, ok := ce.Fun.(*ast.SelectorExpr); ok && se.Sel.Name == "Merge" && len(v.Lhs) == 2 {
				if k, ok := typeKind(x.info.TypeOf(se.X)); ok && k == tkName {
					a, err := c.expr(se.X)
					if err != nil {
						return "", err
					}
					b, err := c.expr(ce.Args[0])
					if err != nil {
						return "", err
					}
					x.callees["NameEntry.Merge = Model.Tables.NameEntry.merge"] = true
					pre := fmt.Sprintf("let r_ := NameEntry.merge %s %s\nlet r_0 := r_.1\nlet r_1 := r_.2\n", a.lean, b.lean)
					p0, err := c.store(v.Lhs[0], tval{lean: "r_0", k: tkName}, v)
					if err != nil {
						return "", err
					}
					p1, err := c.store(v.Lhs[1], tval{lean: "r_1", k: tkBool}, v)
					if err != nil {
						return "", err
					}
					return finish(pre + p0 + p1)
				}
			}
		}
		// comma-ok map read
		if ie, ok := rhs.(*ast.IndexExpr); ok && len(v.Lhs) == 2 && x.src(ie.X) == "h.HostTable.Table" {
			kx, err := c.expr(ie.Index)
			if err != nil {
				return "", err
			}
			p0, err := c.store(v.Lhs[0], tval{lean: "(tableGet s " + kx.lean + ")", k: tkHost, st: stMaybe}, v)
			if err != nil {
				return "", err
			}
			id0, ok0 := v.Lhs[0].(*ast.Ident)
			id1, ok1 := v.Lhs[1].(*ast.Ident)
			if !ok0 || !ok1 {
				return "", c.errf(v, "comma-ok assignment")
			}
			if id1.Name != "_" {
				obj := x.info.ObjectOf(id1)
				c.vars[obj] = &tvar{lean: c.name(obj, id1.Name), k: tkBool, okOf: c.vars[x.info.ObjectOf(id0)]}
			}
			return finish(p0)
		}
		if len(v.Lhs) != 1 {
			return "", c.errf(v, "assignment %s", firstLine(x.src(v)))
		}
		lhs := v.Lhs[0]
		// allocation
		if ue, ok := rhs.(*ast.UnaryExpr); ok && ue.Op == token.AND {
			cl, ok := ue.X.(*ast.CompositeLit)
			id, isId := lhs.(*ast.Ident)
			if !ok || !isId {
				return "", c.errf(v, "address-of")
			}
			l, k, err := c.freshLit(cl)
			if err != nil {
				return "", err
			}
			obj := x.info.ObjectOf(id)
			tv, ok := c.vars[obj]
			if !ok {
				tv = &tvar{lean: c.name(obj, id.Name), k: k}
				c.vars[obj] = tv
			}
			tv.st, tv.imm = stFresh, false
			return finish(fmt.Sprintf("let %s := %s\nlet s := alloc s\n", tv.lean, l))
		}
		// publication into the host table
		if ie, ok := lhs.(*ast.IndexExpr); ok && x.src(ie.X) == "h.HostTable.Table" {
			kx, err := c.expr(ie.Index)
			if err != nil {
				return "", err
			}
			p, err := c.expr(rhs)
			if err != nil {
				return "", err
			}
			if p.st != stFresh || p.v == nil {
				return "", c.errf(v, "map store of a pointer that is not a new object")
			}
			p.v.st = stNonNil
			return finish(fmt.Sprintf("let s := tableSet s %s %s\nlet %s := %s.id\n", kx.lean, p.lean, p.lean, p.lean))
		}
		// slice lvalues
		if get, set, err := c.sliceLvalue(lhs); err == nil {
			if se, ok := rhs.(*ast.SliceExpr); ok && se.Low == nil && se.High != nil && !se.Slice3 && x.src(se.X) == x.src(lhs) {
				n, err := c.expr(se.High)
				if err != nil {
					return "", err
				}
				c.dirt[x.src(lhs)] = true
				r, err := next(c)
				if err != nil {
					return "", err
				}
				return fmt.Sprintf("match sliceTo %s %s with\n| none => %s\n| some l_ =>\n%s%s", get, n.lean, c.panicVal(), set("l_"), r), nil
			}
			if ce, ok := rhs.(*ast.CallExpr); ok && x.src(ce.Fun) == "append" && len(ce.Args) == 2 && x.src(ce.Args[0]) == x.src(lhs) {
				e, err := c.expr(ce.Args[1])
				if err != nil {
					return "", err
				}
				c.dirt[x.src(lhs)] = true
				if get == "s.macs" {
					if e.st != stFresh || e.v == nil || e.k != tkMac {
						return "", c.errf(v, "append to the MAC table of a pointer that is not a new entry")
					}
					e.v.st = stNonNil
					return finish(fmt.Sprintf("let s := setMacs s (s.macs ++ [%s])\nlet %s := %s.id\n", e.lean, e.lean, e.lean))
				}
				if e.st != stNonNil {
					return "", c.errf(v, "append of a possibly nil or unpublished pointer")
				}
				return finish(set(fmt.Sprintf("(%s ++ [%s])", get, e.lean)))
			}
			return "", c.errf(v, "slice assignment %s", firstLine(x.src(v)))
		}
		val, err := c.expr(rhs)
		if err != nil {
			return "", err
		}
		// struct value into a new local
		if id, ok := lhs.(*ast.Ident); ok && (val.k == tkFrame || val.k == tkAddr) && v.Tok == token.DEFINE {
			obj := x.info.ObjectOf(id)
			m := map[string]*tvar{}
			pre := ""
			if val.k == tkFrame {
				for _, ff := range frameFields {
					n := c.name(obj, id.Name+"_"+strings.ReplaceAll(ff.path, ".", "_"))
					m[ff.path] = &tvar{lean: n, k: ff.k}
					if ff.k == tkHost {
						m[ff.path].st = val.st
						if val.st == stNil {
							continue
						}
					}
					pre += fmt.Sprintf("let %s := %s\n", n, val.sub[ff.path])
				}
			} else {
				for _, af := range addrFields {
					n := c.name(obj, id.Name+"_"+af.path)
					m[af.path] = &tvar{lean: n, k: af.k}
					pre += fmt.Sprintf("let %s := %s\n", n, val.sub[af.path])
				}
			}
			c.sv[obj] = m
			return finish(pre)
		}
		p, err := c.store(lhs, val, v)
		if err != nil {
			return "", err
		}
		return finish(p)
	}
	return "", c.errf(v, "assignment %s", firstLine(x.src(v)))
}

// ptrVarOf: the variable behind a pointer lvalue expression (local or struct field)
func (c tctx) ptrVarOf(e ast.Expr) *tvar {
	if id, ok := e.(*ast.Ident); ok {
		if tv, ok := c.vars[c.x.info.ObjectOf(id)]; ok && (tv.k == tkHost || tv.k == tkMac) {
			return tv
		}
		return nil
	}
	if fv := c.structField(e); fv != nil && (fv.k == tkHost || fv.k == tkMac) {
		return fv
	}
	return nil
}

// nilGuard: cond = [P != nil | ok(P) | P == nil] [&& rest]
func (c tctx) nilGuard(cond ast.Expr) (*tvar, bool, ast.Expr) {
	left, right := cond, ast.Expr(nil)
	if be, ok := cond.(*ast.BinaryExpr); ok && be.Op == token.LAND {
		left, right = be.X, be.Y
	}
	if id, ok := left.(*ast.Ident); ok {
		if tv, ok := c.vars[c.x.info.ObjectOf(id)]; ok && tv.okOf != nil && tv.okOf.st == stMaybe {
			return tv.okOf, true, right
		}
	}
	if be, ok := left.(*ast.BinaryExpr); ok && (be.Op == token.NEQ || be.Op == token.EQL) {
		for _, pr := range [][2]ast.Expr{{be.X, be.Y}, {be.Y, be.X}} {
			if id, ok := pr[1].(*ast.Ident); ok && id.Name == "nil" {
				if tv := c.ptrVarOf(pr[0]); tv != nil && tv.st == stMaybe {
					if be.Op == token.EQL && right != nil {
						return nil, false, nil
					}
					return tv, be.Op == token.NEQ, right
				}
			}
		}
	}
	return nil, false, nil
}

// find the clone's copy of tv
func (c tctx) same(old tctx, tv *tvar) *tvar {
	for o, v := range old.vars {
		if v == tv {
			return c.vars[o]
		}
	}
	for o, m := range old.sv {
		for p, v := range m {
			if v == tv {
				return c.sv[o][p]
			}
		}
	}
	return nil
}

func (c tctx) ifStmt(v *ast.IfStmt, rest []ast.Stmt, k kont) (string, error) {
	x := c.x
	if v.Init != nil {
		v2 := *v
		v2.Init = nil
		return c.stmt(v.Init, append([]ast.Stmt{&v2}, rest...), k)
	}
	// `if len(probe) > 0 { go func() {…}() }`: the goroutine only transmits
	if v.Else == nil && len(v.Body.List) == 1 {
		if gs, ok := v.Body.List[0].(*ast.GoStmt); ok {
			bad := ""
			ast.Inspect(gs, func(n ast.Node) bool {
				switch m := n.(type) {
				case *ast.AssignStmt:
					for _, l := range m.Lhs {
						if _, isId := l.(*ast.Ident); !isId {
							bad = x.src(l)
						}
					}
				case *ast.CallExpr:
					if g := x.calleeOf(m); g != nil {
						bad = g.lean
					}
				case *ast.IncDecStmt:
					bad = x.src(m)
				}
				return true
			})
			if bad != "" {
				return "", c.errf(v, "goroutine touches the tables: %s", bad)
			}
			x.ignore(c.f, "goroutine (transmits only)", v)
			return c.stmts(rest, k)
		}
	}
	cont := func(c2 tctx) (string, error) { return c2.stmts(rest, k) }
	thenK := func(c2 tctx) (string, error) { return c2.stmts(v.Body.List, cont) }
	elseK := cont
	if v.Else != nil {
		elseK = func(c2 tctx) (string, error) { return c2.stmt(v.Else, nil, cont) }
	}
	if tv, positive, right := c.nilGuard(v.Cond); tv != nil {
		cs, cn := c.clone(), c.clone()
		sv, nv := cs.same(c, tv), cn.same(c, tv)
		sv.st, nv.st = stNonNil, stNil
		imm := ""
		if sv.k == tkHost {
			imm = cs.bindImm(sv)
		}
		someK, noneK := thenK, elseK
		if !positive {
			someK, noneK = elseK, thenK
		}
		var someS string
		var err error
		if right != nil {
			cl, err := cs.expr(right)
			if err != nil {
				return "", err
			}
			ct, ce := cs.clone(), cs.clone()
			ts, err := thenK(ct)
			if err != nil {
				return "", err
			}
			es, err := elseK(ce)
			if err != nil {
				return "", err
			}
			someS = fmt.Sprintf("if %s then\n  %s\nelse\n  %s", cl.lean, ind(ts), ind(es))
		} else {
			someS, err = someK(cs)
			if err != nil {
				return "", err
			}
		}
		noneS, err := noneK(cn)
		if err != nil {
			return "", err
		}
		return fmt.Sprintf("match %s with\n| some %s =>\n  %s\n| none =>\n  %s", tv.lean, tv.lean, ind(imm+someS), ind(noneS)), nil
	}
	cl, err := c.expr(v.Cond)
	if err != nil {
		return "", err
	}
	if cl.k != tkBool {
		return "", c.errf(v, "condition %s", x.src(v.Cond))
	}
	if cl.lean == "true" {
		return thenK(c)
	}
	if cl.lean == "false" {
		return elseK(c)
	}
	ts, err := thenK(c.clone())
	if err != nil {
		return "", err
	}
	es, err := elseK(c.clone())
	if err != nil {
		return "", err
	}
	return fmt.Sprintf("if %s then\n  %s\nelse\n  %s", cl.lean, ind(ts), ind(es)), nil
}

func (c tctx) rangeStmt(v *ast.RangeStmt, next kont) (string, error) {
	x := c.x
	src := x.src(v.X)
	var list string
	var ek tk
	switch {
	case src == "h.HostTable.Table":
		if v.Key != nil && x.src(v.Key) != "_" {
			return "", c.errf(v, "map range with a key")
		}
		x.assume["range over HostTable.Table visits the entries in the order of the model's list (Go: unspecified order)"] = true
		list, ek = "(tableVals s)", tkHost
	case src == "h.MACTable.Table" || (src == "s.Table" && c.f.recv == "MACTable"):
		list, ek = "(macPtrs s)", tkMac
	default:
		a, err := c.expr(v.X)
		if err != nil {
			return "", err
		}
		switch a.k {
		case tkHostList:
			ek = tkHost
		case tkIPList:
			ek = tkIP
		default:
			return "", c.errf(v, "range over %s", src)
		}
		list = a.lean
	}
	if v.Tok != token.DEFINE && (v.Key != nil || v.Value != nil) {
		return "", c.errf(v, "range assigning to existing variables")
	}
	// loop-carried variables
	carried := append([]string{}, c.f.heap()...)
	seen := map[types.Object]bool{}
	var bad error
	note := func(e ast.Expr) {
		if id, ok := e.(*ast.Ident); ok {
			obj := x.info.ObjectOf(id)
			if tv, ok := c.vars[obj]; ok && !seen[obj] && tv.k != tkLog {
				if tv.k == tkHost || tv.k == tkMac {
					bad = c.errf(v, "pointer variable %s assigned in a loop", id.Name)
				}
				seen[obj] = true
				carried = append(carried, tv.lean)
			}
		} else if fv := c.structField(e); fv != nil {
			bad = c.errf(v, "struct field assigned in a loop")
		}
	}
	ast.Inspect(v.Body, func(n ast.Node) bool {
		switch m := n.(type) {
		case *ast.AssignStmt:
			for _, l := range m.Lhs {
				note(l)
			}
		case *ast.IncDecStmt:
			note(m.X)
		}
		return true
	})
	if bad != nil {
		return "", bad
	}
	unpack := func(param string) string {
		if len(carried) == 1 {
			return ""
		}
		s := ""
		for i, n := range carried {
			s += fmt.Sprintf("let %s := %s\n", n, proj(param, i, len(carried)))
		}
		return s
	}
	stName := "st"
	if len(carried) == 1 {
		stName = carried[0]
	}
	cb := c.clone()
	cb.loop = &tloop{carried: carried, outer: c.loop}
	binder := "iv"
	pre := ""
	hasKey := v.Key != nil && x.src(v.Key) != "_"
	elemName := ""
	if v.Value != nil && x.src(v.Value) != "_" {
		id := v.Value.(*ast.Ident)
		obj := x.info.ObjectOf(id)
		elemName = cb.name(obj, id.Name)
		tv := &tvar{lean: elemName, k: ek}
		cb.vars[obj] = tv
	}
	if hasKey {
		id := v.Key.(*ast.Ident)
		obj := x.info.ObjectOf(id)
		kn := cb.name(obj, id.Name)
		cb.vars[obj] = &tvar{lean: kn, k: tkInt}
		if elemName == "" {
			elemName = kn + "_elem"
		}
		cb.idx[obj] = idxInfo{ranged: src, elem: elemName, ek: ek}
		pre = fmt.Sprintf("let %s := iv.1\nlet %s := iv.2\n", kn, elemName)
		list = "(indexed " + list + " 0)"
	} else if elemName != "" {
		binder = elemName
	} else {
		binder = "_"
	}
	if elemName != "" && ek == tkHost {
		for _, tv := range cb.vars {
			if tv.lean == elemName && tv.k == tkHost {
				pre += cb.bindImm(tv)
			}
		}
	}
	delete(cb.dirt, src)
	body, err := cb.stmts(v.Body.List, func(c2 tctx) (string, error) { return "Ctl.next " + c2.loopTuple(), nil })
	if err != nil {
		return "", err
	}
	ca := c.clone()
	restS, err := next(ca)
	if err != nil {
		return "", err
	}
	init := carried[0]
	if len(carried) > 1 {
		init = "(" + strings.Join(carried, ", ") + ")"
	}
	return fmt.Sprintf("forRange %s %s (fun %s %s =>\n  %s) (fun %s =>\n  %s)", list, init, stName, binder, ind(unpack("st")+pre+body), stName, ind(unpack("st")+restS)), nil
}

func (c tctx) selectStmt(v *ast.SelectStmt, next kont) (string, error) {
	x := c.x
	if len(v.Body.List) != 2 {
		return "", c.errf(v, "select shape")
	}
	var send *ast.SendStmt
	var def *ast.CommClause
	for _, cl := range v.Body.List {
		cc := cl.(*ast.CommClause)
		if cc.Comm == nil {
			def = cc
		} else if ss, ok := cc.Comm.(*ast.SendStmt); ok && len(cc.Body) == 0 && x.src(ss.Chan) == "h.C" {
			send = ss
		}
	}
	if send == nil || def == nil {
		return "", c.errf(v, "select shape")
	}
	for _, b := range def.Body {
		if !c.isLog(b) {
			return "", c.errf(b, "default clause of the send is not only logging")
		}
		x.ignore(c.f, "log", b)
	}
	val, err := c.expr(send.Value)
	if err != nil {
		return "", err
	}
	if val.k != tkNotif {
		return "", c.errf(v, "sent value")
	}
	x.assume["a send on h.C in a select with default succeeds iff len(h.C) < cap(h.C); the reader is not modelled"] = true
	ts, err := next(c.clone())
	if err != nil {
		return "", err
	}
	es, err := next(c.clone())
	if err != nil {
		return "", err
	}
	return fmt.Sprintf("if decide (ce.len < ce.cap) then\n  let out := out ++ [%s]\n  %s\nelse\n  %s", val.lean, ind(ts), ind(es)), nil
}
