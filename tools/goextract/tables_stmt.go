package main

import (
	"fmt"
	"go/ast"
	"go/token"
	"go/types"
	"strings"
)

type kont func(c tctx) (string, error)

// fresh lean name for a Go object: the Go name, suffixed when another live variable already uses it
func (c tctx) name(obj types.Object, base string) string {
	used := map[string]bool{"s": true, "out": true, "cfg": true, "ce": true, "fm": true, "tnow": true, "st": true, "iv": true, "r_": true, "l_": true, "x": true}
	for o, v := range c.vars {
		if o != obj {
			used[v.lean] = true
		}
	}
	for o, m := range c.sv {
		if o != obj {
			for _, v := range m {
				used[v.lean] = true
			}
		}
	}
	n := base
	for i := 1; used[n]; i++ {
		n = fmt.Sprintf("%s_%d", base, i)
	}
	return n
}

func (c tctx) heapTuple() string { return strings.Join(c.f.heap(), ", ") }

func (c tctx) wrapRet(s string) string {
	for i := 0; i < c.nloops(); i++ {
		s = "Ctl.ret (" + s + ")"
	}
	return s
}

func (c tctx) nloops() int { return len(c.loops()) }
func (c tctx) loops() []*tloop {
	var l []*tloop
	for p := c.loop; p != nil; p = p.outer {
		l = append(l, p)
	}
	return l
}

func (c tctx) retVals(vals []tval) string {
	parts := append([]string{}, c.f.heap()...)
	for i, v := range vals {
		l := v.lean
		if k := c.f.results[i]; (k == tkHost || k == tkMac) && !c.f.resNonNil[i] {
			switch v.st {
			case stNonNil:
				l = "(some " + l + ")"
			case stNil:
				l = "none"
			}
		}
		parts = append(parts, l)
	}
	t := strings.Join(parts, ", ")
	if len(parts) > 1 {
		t = "(" + t + ")"
	}
	if c.f.mayPanic {
		t = "some " + t
	}
	return c.wrapRet(t)
}

func (c tctx) panicVal() string { return c.wrapRet("none") }

// implicit arguments of a call of g
func (c tctx) callPrefix(g *tfn) string {
	s := g.lean
	if g.needCfg {
		s += " cfg"
	}
	if g.needCE {
		s += " ce"
	}
	if g.needFM {
		s += " fm"
	}
	if g.needNow {
		s += " tnow"
	}
	s += " s"
	if g.sends {
		s += " out"
	}
	return s
}

func (x *tabTr) translate(f *tfn) {
	for pass := 0; pass < 2; pass++ {
		f.sawMaybe = make([]bool, len(f.results))
		x.translateOnce(f)
		if f.err != nil {
			return
		}
		changed := false
		for i, k := range f.results {
			if (k == tkHost || k == tkMac) && !f.sawMaybe[i] && !f.resNonNil[i] {
				f.resNonNil[i] = true
				changed = true
			}
		}
		if !changed {
			return
		}
	}
}

func (x *tabTr) translateOnce(f *tfn) {
	if f.resNonNil == nil {
		f.resNonNil = make([]bool, len(f.results))
	}
	c := tctx{x: x, f: f, vars: map[types.Object]*tvar{}, sv: map[types.Object]map[string]*tvar{}, idx: map[types.Object]idxInfo{}, dirt: map[string]bool{}}
	sig := ""
	if f.needCfg {
		sig += " (cfg : Cfg)"
	}
	if f.needCE {
		sig += " (ce : ChanEnv)"
	}
	if f.needFM {
		sig += " (fm : MAC → String)"
	}
	if f.needNow {
		sig += " (tnow : Int)"
	}
	sig += " (s : Sess)"
	if f.sends {
		sig += " (out : List Notif)"
	}
	var entry []*tvar // Host pointers tested on entry
	var entryFrame []*tvar
	addParam := func(id *ast.Ident, t types.Type) error {
		obj := x.info.ObjectOf(id)
		k, ok := typeKind(t)
		if !ok {
			return fmt.Errorf("parameter %s of type %s", id.Name, t)
		}
		switch k {
		case tkAddr:
			m := map[string]*tvar{}
			for _, af := range addrFields {
				n := id.Name + "_" + af.path
				m[af.path] = &tvar{lean: n, k: af.k}
				sig += fmt.Sprintf(" (%s : %s)", n, leanType(af.k, false))
			}
			c.sv[obj] = m
		case tkFrame:
			tested := false
			ast.Inspect(f.fd.Body, func(n ast.Node) bool {
				if be, ok := n.(*ast.BinaryExpr); ok && (be.Op == token.EQL || be.Op == token.NEQ) {
					if x.src(be.X) == id.Name+".Host" || x.src(be.Y) == id.Name+".Host" {
						if x.src(be.X) == "nil" || x.src(be.Y) == "nil" {
							tested = true
						}
					}
				}
				return true
			})
			m := map[string]*tvar{}
			for _, ff := range frameFields {
				n := id.Name + "_" + strings.ReplaceAll(ff.path, ".", "_")
				m[ff.path] = &tvar{lean: n, k: ff.k}
				if ff.k == tkHost {
					m[ff.path].st = stMaybe
					if !tested {
						entryFrame = append(entryFrame, m[ff.path])
					}
				}
				sig += fmt.Sprintf(" (%s : %s)", n, leanType(ff.k, true))
			}
			c.sv[obj] = m
		default:
			v := &tvar{lean: id.Name, k: k}
			c.vars[obj] = v
			sig += fmt.Sprintf(" (%s : %s)", id.Name, leanType(k, false))
			if k == tkHost {
				entry = append(entry, v)
			}
		}
		return nil
	}
	if f.fd.Recv != nil && (f.recv == "Host" || f.recv == "MACEntry" || f.recv == "Frame") {
		r := f.fd.Recv.List[0]
		if len(r.Names) == 1 {
			if err := addParam(r.Names[0], x.info.TypeOf(r.Type)); err != nil {
				f.err = err
				return
			}
		}
	}
	for _, p := range f.params {
		for _, id := range p.Names {
			if err := addParam(id, x.info.TypeOf(p.Type)); err != nil {
				f.err = err
				return
			}
		}
	}
	f.sig = sig
	// named results
	f.named = nil
	pre := ""
	if f.fd.Type.Results != nil {
		for _, r := range f.fd.Type.Results.List {
			for _, id := range r.Names {
				k, _ := typeKind(x.info.TypeOf(r.Type))
				obj := x.info.ObjectOf(id)
				v := &tvar{lean: c.name(obj, id.Name), k: k}
				if k == tkHost || k == tkMac {
					v.st = stNil
				} else {
					pre += fmt.Sprintf("let %s : %s := %s\n", v.lean, leanType(k, false), zeroOf(k, false))
				}
				c.vars[obj] = v
				f.named = append(f.named, obj)
			}
		}
	}
	skip := func() string {
		var vals []tval
		for _, k := range f.results {
			vals = append(vals, tval{lean: zeroOf(k, false), k: k, st: stNonNil})
		}
		for i, k := range f.results {
			if (k == tkHost || k == tkMac) && !f.resNonNil[i] {
				vals[i] = tval{lean: "none", k: k, st: stNil}
			}
		}
		return c.retVals(vals)
	}
	head := ""
	for _, v := range entryFrame {
		x.assume[f.lean+": frame.Host is not nil (dereferenced without a test; a nil pointer would panic in Go)"] = true
		head += fmt.Sprintf("match %s with\n| none => %s\n| some %s =>\n", v.lean, skip(), v.lean)
		v.st = stNonNil
		entry = append(entry, v)
	}
	for _, v := range entry {
		head += fmt.Sprintf("match hostById s %s with\n| none => %s\n| some %s_0 =>\nlet %s_entry := %s_0.entry\nlet %s_ip := %s_0.ip\nlet %s_mac := %s_0.mac\n",
			v.lean, skip(), v.lean, v.lean, v.lean, v.lean, v.lean, v.lean, v.lean)
		v.imm = true
	}
	body, err := c.stmts(f.fd.Body.List, func(c2 tctx) (string, error) { return c2.implicitReturn(f.fd.Body) })
	if err != nil {
		f.err = err
		return
	}
	f.body = head + pre + body
}

func (c tctx) implicitReturn(at ast.Node) (string, error) {
	if len(c.f.results) == 0 {
		return c.retVals(nil), nil
	}
	if len(c.f.named) == len(c.f.results) {
		return c.namedReturn()
	}
	return "", c.errf(at, "function end without return")
}

func (c tctx) namedReturn() (string, error) {
	var vals []tval
	for i, o := range c.f.named {
		v := c.vars[o]
		tv := tval{lean: v.lean, k: v.k, st: v.st, v: v}
		if v.okOf != nil {
			tv, _ = c.expr(&ast.Ident{Name: "?"})
			tv = tval{lean: map[int]string{stNonNil: "true", stNil: "false", stMaybe: v.okOf.lean + ".isSome"}[v.okOf.st], k: tkBool}
		}
		if (v.k == tkHost || v.k == tkMac) && v.st != stNonNil {
			c.f.sawMaybe[i] = true
		}
		vals = append(vals, tv)
	}
	return c.retVals(vals), nil
}

func (c tctx) stmts(list []ast.Stmt, k kont) (string, error) {
	if len(list) == 0 {
		return k(c)
	}
	return c.stmt(list[0], list[1:], k)
}

func let(name, val, rest string) string { return "let " + name + " := " + val + "\n" + rest }

// isLog: statement that only builds or writes a log line
func (c tctx) isLog(s ast.Stmt) bool {
	x := c.x
	okCalls := func(n ast.Node) bool {
		ok := true
		ast.Inspect(n, func(m ast.Node) bool {
			if ce, isCall := m.(*ast.CallExpr); isCall {
				if x.calleeOf(ce) != nil {
					ok = false
				}
				if se, isSel := ce.Fun.(*ast.SelectorExpr); isSel {
					if fn, isFn := x.info.Uses[se.Sel].(*types.Func); isFn && fn.Pkg() != nil {
						p := fn.Pkg().Path()
						if !(strings.HasSuffix(p, "/fastlog") || p == "time" || p == "fmt" || p == "net/netip" || (p == x.p.PkgPath && fn.Name() == "String")) {
							ok = false
						}
					}
				} else if id, isId := ce.Fun.(*ast.Ident); isId && id.Name != "len" {
					ok = false
				}
			}
			return true
		})
		return ok
	}
	isLine := func(e ast.Expr) bool {
		k, ok := typeKind(x.info.TypeOf(e))
		return ok && k == tkLog
	}
	switch v := s.(type) {
	case *ast.ExprStmt:
		ce, ok := v.X.(*ast.CallExpr)
		if !ok {
			return false
		}
		root := ast.Expr(ce)
		for {
			if cc, ok := root.(*ast.CallExpr); ok {
				root = cc.Fun
			} else if se, ok := root.(*ast.SelectorExpr); ok {
				root = se.X
			} else {
				break
			}
		}
		id, ok := root.(*ast.Ident)
		return ok && (id.Name == "Logger" || isLine(id)) && okCalls(v)
	case *ast.AssignStmt:
		return len(v.Lhs) == 1 && isLine(v.Lhs[0]) && okCalls(v)
	case *ast.DeclStmt:
		gd := v.Decl.(*ast.GenDecl)
		for _, sp := range gd.Specs {
			vs, ok := sp.(*ast.ValueSpec)
			if !ok || vs.Type == nil || !isLine(vs.Type) || len(vs.Values) > 0 {
				return false
			}
		}
		return true
	case *ast.IfStmt:
		if v.Init != nil || v.Else != nil {
			return false
		}
		cs := x.src(v.Cond)
		guard := cs == "Logger.IsDebug()" || cs == "Logger.IsInfo()"
		if be, ok := v.Cond.(*ast.BinaryExpr); ok && be.Op == token.NEQ && isLine(be.X) && x.src(be.Y) == "nil" {
			guard = true
		}
		if !guard {
			return false
		}
		for _, b := range v.Body.List {
			if !c.isLog(b) {
				return false
			}
		}
		return true
	}
	return false
}

func (c tctx) isLockCall(e ast.Expr) bool {
	ce, ok := e.(*ast.CallExpr)
	if !ok || len(ce.Args) != 0 {
		return false
	}
	se, ok := ce.Fun.(*ast.SelectorExpr)
	if !ok {
		return false
	}
	t := c.x.info.TypeOf(se.X)
	if t == nil || !(strings.HasSuffix(t.String(), "sync.RWMutex") || strings.HasSuffix(t.String(), "sync.Mutex")) {
		return false
	}
	switch se.Sel.Name {
	case "Lock", "Unlock", "RLock", "RUnlock":
		return true
	}
	return false
}

func (c tctx) stmt(s ast.Stmt, rest []ast.Stmt, k kont) (string, error) {
	x := c.x
	next := func(c2 tctx) (string, error) { return c2.stmts(rest, k) }
	if c.isLog(s) {
		x.ignore(c.f, "log", s)
		return next(c)
	}
	switch v := s.(type) {
	case *ast.ExprStmt:
		if c.isLockCall(v.X) {
			x.ignore(c.f, "lock", s)
			return next(c)
		}
		return c.exprStmt(v, next)
	case *ast.DeferStmt:
		if c.isLockCall(v.Call) {
			x.ignore(c.f, "lock", s)
			return next(c)
		}
	case *ast.GoStmt:
		return "", c.errf(s, "go statement")
	case *ast.DeclStmt:
		gd := v.Decl.(*ast.GenDecl)
		out := ""
		for _, sp := range gd.Specs {
			vs, ok := sp.(*ast.ValueSpec)
			if !ok || len(vs.Values) != 0 {
				return "", c.errf(s, "declaration %s", x.src(s))
			}
			for _, id := range vs.Names {
				kk, ok := typeKind(x.info.TypeOf(vs.Type))
				if !ok || kk == tkHost || kk == tkMac || kk == tkAddr || kk == tkFrame {
					return "", c.errf(s, "declaration %s", x.src(s))
				}
				obj := x.info.ObjectOf(id)
				n := c.name(obj, id.Name)
				c.vars[obj] = &tvar{lean: n, k: kk}
				out += fmt.Sprintf("let %s : %s := %s\n", n, leanType(kk, false), zeroOf(kk, false))
			}
		}
		r, err := next(c)
		return out + r, err
	case *ast.IncDecStmt:
		if id, ok := v.X.(*ast.Ident); ok {
			if tv, ok := c.vars[x.info.ObjectOf(id)]; ok && tv.k == tkInt {
				op := map[token.Token]string{token.INC: "+", token.DEC: "-"}[v.Tok]
				r, err := next(c)
				return let(tv.lean, fmt.Sprintf("(%s %s 1)", tv.lean, op), r), err
			}
		}
	case *ast.ReturnStmt:
		if len(v.Results) == 0 {
			if len(c.f.results) == 0 {
				return c.retVals(nil), nil
			}
			return c.namedReturn()
		}
		if len(v.Results) != len(c.f.results) {
			return "", c.errf(s, "return arity")
		}
		var vals []tval
		for i, e := range v.Results {
			a, err := c.expr(e)
			if err != nil {
				return "", err
			}
			if a.k == tkHost || a.k == tkMac {
				if a.st == stFresh {
					return "", c.errf(s, "return of an unpublished object")
				}
				if a.st != stNonNil {
					c.f.sawMaybe[i] = true
				}
			}
			vals = append(vals, a)
		}
		return c.retVals(vals), nil
	case *ast.BranchStmt:
		if c.loop != nil && v.Label == nil {
			t := c.loopTuple()
			if v.Tok == token.CONTINUE {
				return "Ctl.next " + t, nil
			}
			if v.Tok == token.BREAK {
				return "Ctl.brk " + t, nil
			}
		}
	case *ast.BlockStmt:
		return c.stmts(append(append([]ast.Stmt{}, v.List...), rest...), k)
	case *ast.AssignStmt:
		return c.assign(v, next)
	case *ast.IfStmt:
		return c.ifStmt(v, rest, k)
	case *ast.RangeStmt:
		return c.rangeStmt(v, next)
	case *ast.SelectStmt:
		return c.selectStmt(v, next)
	}
	return "", c.errf(s, "statement %s", firstLine(x.src(s)))
}

func firstLine(s string) string {
	if len(s) > 70 {
		return s[:70] + "…"
	}
	return s
}

func (c tctx) loopTuple() string {
	if len(c.loop.carried) == 1 {
		return c.loop.carried[0]
	}
	return "(" + strings.Join(c.loop.carried, ", ") + ")"
}

// callArgs: explicit arguments (receiver of Host/MACEntry/Frame methods first), structs flattened
func (c tctx) callArgs(g *tfn, ce *ast.CallExpr) (string, error) {
	var args []ast.Expr
	if g.recv == "Host" || g.recv == "MACEntry" || g.recv == "Frame" {
		args = append(args, ce.Fun.(*ast.SelectorExpr).X)
	}
	args = append(args, ce.Args...)
	out := ""
	for _, a := range args {
		v, err := c.expr(a)
		if err != nil {
			return "", err
		}
		switch v.k {
		case tkAddr:
			out += " " + v.sub["MAC"] + " " + v.sub["IP"]
		case tkFrame:
			for _, ff := range frameFields {
				l := v.sub[ff.path]
				if ff.k == tkHost {
					// the callee takes Option Nat
					st := stMaybe
					if id, _ := selPath(a); id != nil {
						if m, ok := c.sv[c.x.info.ObjectOf(id)]; ok {
							st = m["Host"].st
						}
					}
					if st == stNonNil {
						l = "(some " + l + ")"
					} else if st == stNil {
						l = "none"
					}
				}
				out += " " + l
			}
		case tkHost, tkMac:
			if v.st != stNonNil {
				return "", c.errf(a, "possibly nil or unpublished pointer passed to %s", g.lean)
			}
			out += " " + v.lean
		default:
			out += " " + v.lean
		}
	}
	return out, nil
}

// bindCall: `let r_ := call; heap := projections`, then `use` with the lean terms of the results
func (c tctx) bindCall(ce *ast.CallExpr, g *tfn, use func(c2 tctx, res []string) (string, error)) (string, error) {
	args, err := c.callArgs(g, ce)
	if err != nil {
		return "", err
	}
	call := c.callPrefix(g) + args
	n := len(g.heap()) + len(g.results)
	out := ""
	for i, h := range g.heap() {
		out += fmt.Sprintf("let %s := %s\n", h, proj("r_", i, n))
	}
	var res []string
	for i := range g.results {
		res = append(res, proj("r_", len(g.heap())+i, n))
	}
	// results are bound to names before r_ can be shadowed
	var names []string
	for i := range res {
		nm := fmt.Sprintf("r_%d", i)
		out += fmt.Sprintf("let %s := %s\n", nm, res[i])
		names = append(names, nm)
	}
	r, err := use(c, names)
	if err != nil {
		return "", err
	}
	if g.mayPanic {
		return fmt.Sprintf("match %s with\n| none => %s\n| some r_ =>\n%s%s", call, c.panicVal(), out, r), nil
	}
	return fmt.Sprintf("let r_ := %s\n%s%s", call, out, r), nil
}

func (c tctx) exprStmt(v *ast.ExprStmt, next kont) (string, error) {
	x := c.x
	ce, ok := v.X.(*ast.CallExpr)
	if !ok {
		return "", c.errf(v, "expression statement")
	}
	if g := x.calleeOf(ce); g != nil {
		if g.err != nil {
			return "", c.errf(v, "call of the untranslated %s", g.lean)
		}
		return c.bindCall(ce, g, func(c2 tctx, _ []string) (string, error) { return next(c2) })
	}
	if id, ok := ce.Fun.(*ast.Ident); ok {
		switch id.Name {
		case "panic":
			return c.panicVal(), nil
		case "delete":
			if x.src(ce.Args[0]) == "h.HostTable.Table" {
				kx, err := c.expr(ce.Args[1])
				if err != nil {
					return "", err
				}
				r, err := next(c)
				return let("s", "tableDel s "+kx.lean, r), err
			}
		case "copy":
			// copy(X[a:], X[b:]) on one slice lvalue
			d, ok1 := ce.Args[0].(*ast.SliceExpr)
			sr, ok2 := ce.Args[1].(*ast.SliceExpr)
			if ok1 && ok2 && d.High == nil && sr.High == nil && d.Low != nil && sr.Low != nil && x.src(d.X) == x.src(sr.X) {
				get, set, err := c.sliceLvalue(d.X)
				if err != nil {
					return "", err
				}
				a, err := c.expr(d.Low)
				if err != nil {
					return "", err
				}
				b, err := c.expr(sr.Low)
				if err != nil {
					return "", err
				}
				c.dirt[x.src(d.X)] = true
				r, err := next(c)
				if err != nil {
					return "", err
				}
				return fmt.Sprintf("match copyWithin %s %s %s with\n| none => %s\n| some l_ =>\n%s%s", get, a.lean, b.lean, c.panicVal(), set("l_"), r), nil
			}
		}
	}
	return "", c.errf(v, "call %s", firstLine(x.src(v)))
}

// sliceLvalue: a slice stored in the heap: how to read it and the `let s := …` that stores `val` into it
func (c tctx) sliceLvalue(e ast.Expr) (string, func(val string) string, error) {
	x := c.x
	s := x.src(e)
	if (s == "s.Table" && c.f.recv == "MACTable") || s == "h.MACTable.Table" {
		return "s.macs", func(val string) string { return "let s := setMacs s " + val + "\n" }, nil
	}
	if se, ok := e.(*ast.SelectorExpr); ok && se.Sel.Name == "HostList" && c.recvKind(se.X) == "MACEntry" {
		p, err := c.deref(se.X)
		if err != nil {
			return "", nil, err
		}
		if p.st == stFresh {
			return "", nil, c.errf(e, "host list of an unpublished entry")
		}
		return fmt.Sprintf("(M s %s).hostList", p.lean), func(val string) string {
			return fmt.Sprintf("let s := updMac s %s (fun x => { x with hostList := %s })\n", p.lean, val)
		}, nil
	}
	return "", nil, c.errf(e, "slice %s", s)
}

func withField(rec, path, val string) string {
	if strings.HasPrefix(path, "names.") {
		return fmt.Sprintf("{ %s with names := { %s.names with %s := %s } }", rec, rec, strings.TrimPrefix(path, "names."), val)
	}
	return fmt.Sprintf("{ %s with %s := %s }", rec, path, val)
}

// store: `lhs = val` for a heap field, a struct field or a local
func (c tctx) store(lhs ast.Expr, val tval, at ast.Node) (string, error) {
	x := c.x
	if id, ok := lhs.(*ast.Ident); ok {
		if id.Name == "_" {
			return "", nil
		}
		obj := x.info.ObjectOf(id)
		tv, ok := c.vars[obj]
		if !ok {
			k := val.k
			tv = &tvar{lean: c.name(obj, id.Name), k: k}
			c.vars[obj] = tv
		}
		return c.setVar(tv, val, at)
	}
	if fv := c.structField(lhs); fv != nil {
		return c.setVar(fv, val, at)
	}
	se, ok := lhs.(*ast.SelectorExpr)
	if !ok {
		return "", c.errf(at, "assignment to %s", x.src(lhs))
	}
	rk := c.recvKind(se.X)
	if rk == "Host" || rk == "MACEntry" {
		p, err := c.deref(se.X)
		if err != nil {
			return "", err
		}
		fm := hostFieldMap
		upd := "updHost"
		if rk == "MACEntry" {
			fm, upd = macFieldMap, "updMac"
		}
		if rk == "Host" && se.Sel.Name == "HuntStage" {
			x.ignore(c.f, "unmodelled field", at)
			return "", nil
		}
		f, ok := fm[se.Sel.Name]
		if !ok || f == "mac" {
			return "", c.errf(at, "assignment to field %s", x.src(lhs))
		}
		if (val.k == tkHost || val.k == tkMac) || val.k == tkAddr || val.k == tkFrame {
			return "", c.errf(at, "pointer or struct stored into %s", x.src(lhs))
		}
		if p.st == stFresh {
			return fmt.Sprintf("let %s := %s\n", p.lean, withField(p.lean, f, val.lean)), nil
		}
		if f == "hostList" {
			c.dirt[x.src(lhs)] = true
		}
		return fmt.Sprintf("let s := %s s %s (fun x => %s)\n", upd, p.lean, withField("x", f, val.lean)), nil
	}
	return "", c.errf(at, "assignment to %s", x.src(lhs))
}

func (c tctx) setVar(tv *tvar, val tval, at ast.Node) (string, error) {
	if tv.k == tkHost || tv.k == tkMac {
		tv.imm = false
		switch val.st {
		case stNil:
			tv.st = stNil
			return "", nil
		case stFresh:
			return "", c.errf(at, "copy of an unpublished object")
		case stMaybe:
			tv.st = stMaybe
			return fmt.Sprintf("let %s := %s\n", tv.lean, val.lean), nil
		}
		tv.st = stNonNil
		out := fmt.Sprintf("let %s := %s\n", tv.lean, val.lean)
		if tv.k == tkHost {
			out += c.bindImm(tv)
		}
		return out, nil
	}
	if val.k == tkAddr || val.k == tkFrame || val.k == tkLog {
		return "", c.errf(at, "struct value assigned to a variable")
	}
	return fmt.Sprintf("let %s := %s\n", tv.lean, val.lean), nil
}

func (c tctx) bindImm(tv *tvar) string {
	tv.imm = true
	return fmt.Sprintf("let %s_entry := (H s %s).entry\nlet %s_ip := (H s %s).ip\nlet %s_mac := (H s %s).mac\n", tv.lean, tv.lean, tv.lean, tv.lean, tv.lean, tv.lean)
}
