// Command goextract is the fact translator of Tie B: it loads /repo with go/packages (type-checked,
// offline) and regenerates lean/PacketVerif/Gen/Facts.lean — tables that the tie theorems in
// Props/*Tie.lean compare with the model by `decide`.  Purely syntactic + type information; anything it
// cannot classify is emitted as an `unknown` row so that the tie theorem fails instead of passing silently.
//
//	F1  the three switch statements of Session.Parse (EtherType, IP protocol, UDP ports)
//	F2  per view type: the length constant tested by IsValid
//	F3  per view type: the set of zero-argument methods
//	F4  lock-order edges "acquires B while holding A" between lock classes, re-entrant acquisitions,
//	    with callee summaries to a fixed point over the static call graph
//	F5  per view type: the bodies of the single-expression getters as NE/G terms (getters.go)
//	F10 the bodies of the validity predicates IsValid() as Lean source (valid.go → Gen/Valid.lean)
//	F7  the bodies of the straight-line in-place encoders as Lean source over the Model/Encode primitives (encoders.go → Gen/Encoders.lean)
//	F8  allocation sites on the steady path of Session.Parse: escape-analysis verdicts of `go build -gcflags=-m` + syntactic sites (allocs.go)
//	F9  every go statement: what it starts, loop shape, exits of its unbounded loops, channel operations (gostmts.go → Gen/LocksetFacts.lean)
//	F11 the body of Session.Parse and of the Frame accessors as Lean source (parse.go → Gen/ParseGen.lean)
//	F14 the option / TLV parsers (DHCPv4 options, NDP options) as Lean source (loops.go in extended mode + loops_opts.go, loops_structs.go → Gen/LoopsOpts.lean)
//	F12 function bodies with loops (Checksum, the fastlog renderers) as Lean source with fuel recursion (loops.go → Gen/Loops.lean)
//	F6  per field of the shared records: the lock classes definitely held at every read and write (lockset.go → Gen/LocksetFacts.lean)
//	F13 critical-section shapes per function and per entry point (atomic.go, on the walker of lockset.go → Gen/AtomicFacts.lean)
//	F11 provenance site table for C10: every store into a retained class with the sources of the stored value, by a taint analysis (prov.go, called from retainFacts)
package main

import (
	"flag"
	"fmt"
	"go/ast"
	"go/constant"
	"go/token"
	"go/types"
	"os"
	"sort"
	"strings"

	"golang.org/x/tools/go/packages"
)

var fset *token.FileSet

func main() {
	repo := flag.String("repo", "/repo", "repository root")
	out := flag.String("out", "", "output Lean file")
	lsOut := flag.String("lockset-out", "", "output Lean file for the lockset facts (F6); default: appended to -out")
	atomicOut := flag.String("atomic-out", "", "output Lean file for the critical-section shape facts (F13, Gen/AtomicFacts.lean); default: not written")
	encOut := flag.String("enc-out", "", "output Lean file for the translated encoder bodies (F7, Gen/Encoders.lean); default: not written")
	loopsNamingOut := flag.String("loops-naming-out", "", "output Lean file for the handler glue of handlers/dns_naming (Gen/LoopsNaming.lean); default: not written")
	namesOut := flag.String("names-out", "", "output Lean file for the regenerated NameEntry.Merge (Gen/NamesGen.lean); default: not written")
	loopsDnsOut := flag.String("loops-dns-out", "", "output Lean file for the translated DNS decoder bodies (F11, Gen/LoopsDns.lean); default: not written")
	loopsOut := flag.String("loops-out", "", "output Lean file for the translated loop bodies (F11, Gen/Loops.lean); default: not written")
	loopsOptsOut := flag.String("loops-opts-out", "", "output Lean file for the translated option / TLV parsers (F14, Gen/LoopsOpts.lean); default: not written")
	validOut := flag.String("valid-out", "", "output Lean file for the translated IsValid bodies (F10, Gen/Valid.lean); default: not written")
	parseOut := flag.String("parse-out", "", "output Lean file for the translated body of Session.Parse (F11, Gen/ParseGen.lean); default: not written")
	arpOut := flag.String("arp-out", "", "output Lean file for the translated ARP spoofing handler (F15, Gen/ArpGen.lean); default: not written")
	tablesOut := flag.String("tables-out", "", "output Lean file for the translated host/MAC table operations (F14, Gen/TablesGen.lean); default: not written")
	pingOut := flag.String("ping-out", "", "output Lean file for the translated ping / echo notification code (F19, Gen/PingGen.lean); default: not written")
	sessLifeOut := flag.String("sesslife-out", "", "output Lean file for the translated session life cycle (F19, Gen/SessLifeGen.lean); default: not written")
	icmp6Out := flag.String("icmp6-out", "", "output Lean file for the translated ICMPv6 / NDP spoofing handler (F15, Gen/Icmp6Gen.lean); default: not written")
	sendOut := flag.String("send-out", "", "output Lean file for the translated send paths (F15, Gen/Senders.lean); default: not written")
	dhcpSrvOut := flag.String("dhcpsrv-out", "", "output Lean file for the translated DHCPv4 server functions (F15, Gen/DhcpSrvGen.lean); default: not written")
	dhcpFileOut := flag.String("dhcpfile-out", "", "output Lean file for the translated DHCPv4 lease-file logic and handler construction (F19, Gen/DhcpFileGen.lean); default: not written")
	flag.Parse()
	cfg := &packages.Config{Mode: packages.NeedName | packages.NeedFiles | packages.NeedSyntax | packages.NeedTypes | packages.NeedTypesInfo | packages.NeedImports | packages.NeedDeps, Dir: *repo, Tests: false}
	pkgs, err := packages.Load(cfg, "./", "./handlers/...", "./fastlog")
	if err != nil {
		fmt.Fprintln(os.Stderr, err)
		os.Exit(1)
	}
	if packages.PrintErrors(pkgs) > 0 {
		os.Exit(1)
	}
	var root *packages.Package
	for _, p := range pkgs {
		if p.PkgPath == "github.com/irai/packet" {
			root = p
		}
	}
	if root == nil {
		fmt.Fprintln(os.Stderr, "package packet not found")
		os.Exit(1)
	}
	fset = root.Fset
	var b strings.Builder
	b.WriteString("/- GENERATED by /verif/tools/goextract from the Go sources in /repo — do not edit. -/\nimport PacketVerif.Model.Views\nnamespace PV.Gen\n\n")
	parseFacts(root, &b)
	viewFacts(root, &b)
	getterFacts(root, &b)
	constFacts(root, &b)
	lockFacts(pkgs, &b)
	if *lsOut == "" {
		locksetFacts(pkgs, &b)
		goStmtFacts(pkgs, &b)
	} else {
		var lb strings.Builder
		lb.WriteString("/- GENERATED by /verif/tools/goextract (lockset.go) from the Go sources in /repo — do not edit. -/\nnamespace PV.Gen\n\n")
		locksetFacts(pkgs, &lb)
		goStmtFacts(pkgs, &lb)
		lb.WriteString("end PV.Gen\n")
		if err := os.WriteFile(*lsOut, []byte(lb.String()), 0o644); err != nil {
			fmt.Fprintln(os.Stderr, err)
			os.Exit(1)
		}
	}
	if *atomicOut != "" {
		var ab strings.Builder
		ab.WriteString("/- GENERATED by /verif/tools/goextract (atomic.go, on the walker of lockset.go) from the Go sources in /repo — do not edit. -/\nnamespace PV.Gen.Atomic\n\n")
		atomicFacts(lastLockset, &ab)
		ab.WriteString("end PV.Gen.Atomic\n")
		if err := os.WriteFile(*atomicOut, []byte(ab.String()), 0o644); err != nil {
			fmt.Fprintln(os.Stderr, err)
			os.Exit(1)
		}
	}
	retainFacts(pkgs, &b)
	allocFacts(pkgs, *repo, &b)
	b.WriteString("end PV.Gen\n")
	if *validOut != "" {
		var vb strings.Builder
		validFacts(root, &vb)
		if err := os.WriteFile(*validOut, []byte(vb.String()), 0o644); err != nil {
			fmt.Fprintln(os.Stderr, err)
			os.Exit(1)
		}
	}
	if *arpOut != "" {
		var ab strings.Builder
		arpFacts(pkgs, &ab)
		if err := os.WriteFile(*arpOut, []byte(ab.String()), 0o644); err != nil {
			fmt.Fprintln(os.Stderr, err)
			os.Exit(1)
		}
	}
	if *tablesOut != "" {
		var tb strings.Builder
		tablesFacts(root, &tb)
		if err := os.WriteFile(*tablesOut, []byte(tb.String()), 0o644); err != nil {
			fmt.Fprintln(os.Stderr, err)
			os.Exit(1)
		}
	}
	if *dhcpSrvOut != "" {
		var db strings.Builder
		hpFacts(pkgs, dhcpDict, &db)
		if err := os.WriteFile(*dhcpSrvOut, []byte(db.String()), 0o644); err != nil {
			fmt.Fprintln(os.Stderr, err)
			os.Exit(1)
		}
	}
	if *parseOut != "" {
		var pb strings.Builder
		parseBodyFacts(root, &pb)
		if err := os.WriteFile(*parseOut, []byte(pb.String()), 0o644); err != nil {
			fmt.Fprintln(os.Stderr, err)
			os.Exit(1)
		}
	}
	if *pingOut != "" {
		fset = pkgs[0].Fset
		var pb strings.Builder
		pingFacts(root, &pb)
		if err := os.WriteFile(*pingOut, []byte(pb.String()), 0o644); err != nil {
			fmt.Fprintln(os.Stderr, err)
			os.Exit(1)
		}
	}
	if *sessLifeOut != "" {
		fset = pkgs[0].Fset
		var sb strings.Builder
		sessLifeFacts(root, &sb)
		if err := os.WriteFile(*sessLifeOut, []byte(sb.String()), 0o644); err != nil {
			fmt.Fprintln(os.Stderr, err)
			os.Exit(1)
		}
	}
	if *icmp6Out != "" {
		fset = pkgs[0].Fset
		var ib strings.Builder
		icmp6Facts(pkgs, &ib)
		if err := os.WriteFile(*icmp6Out, []byte(ib.String()), 0o644); err != nil {
			fmt.Fprintln(os.Stderr, err)
			os.Exit(1)
		}
	}
	if *dhcpFileOut != "" {
		var db strings.Builder
		dhcpFileFacts(pkgs, &db)
		if err := os.WriteFile(*dhcpFileOut, []byte(db.String()), 0o644); err != nil {
			fmt.Fprintln(os.Stderr, err)
			os.Exit(1)
		}
	}
	if *loopsOut != "" {
		var lb strings.Builder
		loopFacts(pkgs, &lb)
		if err := os.WriteFile(*loopsOut, []byte(lb.String()), 0o644); err != nil {
			fmt.Fprintln(os.Stderr, err)
			os.Exit(1)
		}
	}
	if *loopsNamingOut != "" {
		var lb strings.Builder
		loopNamingFacts(pkgs, &lb)
		if err := os.WriteFile(*loopsNamingOut, []byte(lb.String()), 0o644); err != nil {
			fmt.Fprintln(os.Stderr, err)
			os.Exit(1)
		}
	}
	if *namesOut != "" {
		var lb strings.Builder
		nameFacts(pkgs, &lb)
		if err := os.WriteFile(*namesOut, []byte(lb.String()), 0o644); err != nil {
			fmt.Fprintln(os.Stderr, err)
			os.Exit(1)
		}
	}
	if *loopsDnsOut != "" {
		var lb strings.Builder
		loopDnsFacts(pkgs, &lb)
		if err := os.WriteFile(*loopsDnsOut, []byte(lb.String()), 0o644); err != nil {
			fmt.Fprintln(os.Stderr, err)
			os.Exit(1)
		}
	}
	if *loopsOptsOut != "" {
		var lb strings.Builder
		loopOptsFacts(pkgs, &lb)
		if err := os.WriteFile(*loopsOptsOut, []byte(lb.String()), 0o644); err != nil {
			fmt.Fprintln(os.Stderr, err)
			os.Exit(1)
		}
	}
	if *loopsMarshalOut != "" {
		var lb strings.Builder
		loopMarshalFacts(pkgs, &lb)
		if err := os.WriteFile(*loopsMarshalOut, []byte(lb.String()), 0o644); err != nil {
			fmt.Fprintln(os.Stderr, err)
			os.Exit(1)
		}
	}
	if *sendOut != "" {
		var sb strings.Builder
		senderFacts(pkgs, root, &sb)
		if err := os.WriteFile(*sendOut, []byte(sb.String()), 0o644); err != nil {
			fmt.Fprintln(os.Stderr, err)
			os.Exit(1)
		}
	}
	if *encOut != "" {
		var eb strings.Builder
		encoderFacts(root, &eb)
		if err := os.WriteFile(*encOut, []byte(eb.String()), 0o644); err != nil {
			fmt.Fprintln(os.Stderr, err)
			os.Exit(1)
		}
	}
	if *out == "" {
		fmt.Print(b.String())
		return
	}
	if err := os.WriteFile(*out, []byte(b.String()), 0o644); err != nil {
		fmt.Fprintln(os.Stderr, err)
		os.Exit(1)
	}
}

func constNat(info *types.Info, e ast.Expr) (int64, bool) {
	tv, ok := info.Types[e]
	if !ok || tv.Value == nil {
		return 0, false
	}
	v, ok := constant.Int64Val(constant.ToInt(tv.Value))
	return v, ok
}

func findFunc(p *packages.Package, recv, name string) *ast.FuncDecl {
	for _, f := range p.Syntax {
		for _, d := range f.Decls {
			fd, ok := d.(*ast.FuncDecl)
			if !ok || fd.Name.Name != name {
				continue
			}
			if recv == "" && fd.Recv == nil {
				return fd
			}
			if fd.Recv != nil && len(fd.Recv.List) == 1 {
				t := fd.Recv.List[0].Type
				if s, ok := t.(*ast.StarExpr); ok {
					t = s.X
				}
				if id, ok := t.(*ast.Ident); ok && id.Name == recv {
					return fd
				}
			}
		}
	}
	return nil
}

// firstPayloadID returns the constant assigned by the first `frame.PayloadID = X` in the statements.
func firstPayloadID(info *types.Info, body []ast.Stmt) (int64, bool) {
	var val int64
	found := false
	for _, s := range body {
		ast.Inspect(s, func(n ast.Node) bool {
			if found {
				return false
			}
			if _, ok := n.(*ast.SwitchStmt); ok {
				return false // nested switch refines the id
			}
			if as, ok := n.(*ast.AssignStmt); ok && len(as.Lhs) == 1 {
				if sel, ok := as.Lhs[0].(*ast.SelectorExpr); ok && sel.Sel.Name == "PayloadID" {
					if v, ok := constNat(info, as.Rhs[0]); ok {
						val, found = v, true
					}
				}
			}
			return true
		})
		if found {
			break
		}
	}
	return val, found
}

func exprStr(e ast.Expr) string {
	switch x := e.(type) {
	case *ast.SelectorExpr:
		return exprStr(x.X) + "." + x.Sel.Name
	case *ast.Ident:
		return x.Name
	case *ast.CallExpr:
		return exprStr(x.Fun) + "()"
	}
	return "?"
}

func parseFacts(p *packages.Package, b *strings.Builder) {
	fd := findFunc(p, "Session", "Parse")
	var ether, proto []string
	var udp []string
	unknown := 0
	if fd != nil {
		ast.Inspect(fd.Body, func(n ast.Node) bool {
			sw, ok := n.(*ast.SwitchStmt)
			if !ok {
				return true
			}
			tag := ""
			if sw.Tag != nil {
				tag = exprStr(sw.Tag)
			}
			for _, c := range sw.Body.List {
				cc := c.(*ast.CaseClause)
				pid, okp := firstPayloadID(p.TypesInfo, cc.Body)
				switch {
				case strings.HasSuffix(tag, "EtherType()"):
					for _, e := range cc.List {
						if v, ok := constNat(p.TypesInfo, e); ok && okp {
							ether = append(ether, fmt.Sprintf("(%d, %d)", v, pid))
						} else {
							unknown++
						}
					}
				case tag == "proto":
					for _, e := range cc.List {
						if v, ok := constNat(p.TypesInfo, e); ok {
							if !okp { // TCP/ICMP set the id after validation: look deeper
								pid, okp = anyPayloadID(p.TypesInfo, cc.Body)
							}
							if okp {
								proto = append(proto, fmt.Sprintf("(%d, %d)", v, pid))
							} else {
								unknown++
							}
						}
					}
				case sw.Tag == nil: // the UDP port switch: `case a == N || b == M:`
					for _, e := range cc.List {
						rows, ok := portCond(p.TypesInfo, e)
						if !ok || !okp {
							unknown++
							continue
						}
						for _, r := range rows {
							udp = append(udp, fmt.Sprintf("(%q, %d, %d)", r.side, r.port, pid))
						}
					}
				}
			}
			return true
		})
	} else {
		unknown++
	}
	fmt.Fprintf(b, "/-- F1: `switch frame.ether.EtherType()` in Session.Parse: (EtherType, PayloadID) in source order -/\ndef etherCases : List (Nat × Nat) := [%s]\n\n", strings.Join(ether, ", "))
	fmt.Fprintf(b, "/-- F1: `switch proto`: (IP protocol, PayloadID) in source order -/\ndef protoCases : List (Nat × Nat) := [%s]\n\n", strings.Join(proto, ", "))
	fmt.Fprintf(b, "/-- F1: the ordered UDP port cases: (side, port, PayloadID); `Src==p || Dst==p` is one \"either\" row -/\ndef udpPortCases : List (String × Nat × Nat) := [%s]\n\n", strings.Join(udp, ", "))
	fmt.Fprintf(b, "/-- constructs of Session.Parse the translator could not classify (must be 0) -/\ndef parseUnknown : Nat := %d\n\n", unknown)
}

func anyPayloadID(info *types.Info, body []ast.Stmt) (int64, bool) {
	var val int64
	found := false
	for _, s := range body {
		ast.Inspect(s, func(n ast.Node) bool {
			if as, ok := n.(*ast.AssignStmt); ok && len(as.Lhs) == 1 {
				if sel, ok := as.Lhs[0].(*ast.SelectorExpr); ok && sel.Sel.Name == "PayloadID" {
					if v, ok := constNat(info, as.Rhs[0]); ok {
						val, found = v, true
					}
				}
			}
			return true
		})
	}
	return val, found
}

type portRow struct {
	side string
	port int64
}

// portCond parses `X.Port == N || Y.Port == M` into rows; a Src/Dst pair on the same port becomes "either".
func portCond(info *types.Info, e ast.Expr) ([]portRow, bool) {
	var atoms []portRow
	var walk func(e ast.Expr) bool
	walk = func(e ast.Expr) bool {
		switch x := e.(type) {
		case *ast.ParenExpr:
			return walk(x.X)
		case *ast.BinaryExpr:
			if x.Op == token.LOR {
				return walk(x.X) && walk(x.Y)
			}
			if x.Op == token.EQL {
				v, ok := constNat(info, x.Y)
				s := exprStr(x.X)
				if !ok {
					return false
				}
				switch {
				case strings.HasSuffix(s, "SrcAddr.Port"):
					atoms = append(atoms, portRow{"src", v})
				case strings.HasSuffix(s, "DstAddr.Port"):
					atoms = append(atoms, portRow{"dst", v})
				default:
					return false
				}
				return true
			}
		}
		return false
	}
	if !walk(e) {
		return nil, false
	}
	var rows []portRow
	for i := 0; i < len(atoms); i++ {
		if i+1 < len(atoms) && atoms[i].side == "src" && atoms[i+1].side == "dst" && atoms[i].port == atoms[i+1].port {
			rows = append(rows, portRow{"either", atoms[i].port})
			i++
		} else {
			rows = append(rows, atoms[i])
		}
	}
	return rows, true
}

// ---------------------------------------------------------------------------------------------
// F2 / F3: views = named types in package packet whose underlying type is []byte and that have IsValid

// viewTypeNames: exported named types of package packet with underlying type []byte and an IsValid method, sorted.
func viewTypeNames(p *packages.Package) []string {
	scope := p.Types.Scope()
	var names []string
	for _, n := range scope.Names() {
		tn, ok := scope.Lookup(n).(*types.TypeName)
		if !ok || !tn.Exported() {
			continue
		}
		named, ok := tn.Type().(*types.Named)
		if !ok {
			continue
		}
		sl, ok := named.Underlying().(*types.Slice)
		if !ok || !types.Identical(sl.Elem(), types.Typ[types.Byte]) {
			continue
		}
		has := false
		for i := 0; i < named.NumMethods(); i++ {
			if named.Method(i).Name() == "IsValid" {
				has = true
			}
		}
		if has {
			names = append(names, n)
		}
	}
	sort.Strings(names)
	return names
}

// isViewGetter: the methods listed by F3 (and translated by F8): exported, no parameters, not IsValid/String.
func isViewGetter(m *types.Func) bool {
	sig := m.Type().(*types.Signature)
	return m.Exported() && sig.Params().Len() == 0 && m.Name() != "IsValid" && m.Name() != "String"
}

func viewFacts(p *packages.Package, b *strings.Builder) {
	scope := p.Types.Scope()
	names := viewTypeNames(p)
	var mins, meths []string
	for _, n := range names {
		named := scope.Lookup(n).Type().(*types.Named)
		var ms []string
		for i := 0; i < named.NumMethods(); i++ {
			m := named.Method(i)
			if isViewGetter(m) {
				ms = append(ms, fmt.Sprintf("%q", m.Name()))
			}
		}
		sort.Strings(ms)
		meths = append(meths, fmt.Sprintf("(%q, [%s])", n, strings.Join(ms, ", ")))
		if fd := findFunc(p, n, "IsValid"); fd != nil {
			if v, ok := firstLenConst(p.TypesInfo, fd); ok {
				mins = append(mins, fmt.Sprintf("(%q, %d)", n, v))
			} else {
				mins = append(mins, fmt.Sprintf("(%q, 0)", n))
			}
		}
	}
	fmt.Fprintf(b, "/-- F2: per view type, the smallest length accepted by the first `len(p)` test of IsValid -/\ndef minLen : List (String × Nat) := [\n  %s]\n\n", strings.Join(mins, ",\n  "))
	fmt.Fprintf(b, "/-- F3: per view type, its exported zero-argument methods (IsValid and String excluded), sorted -/\ndef viewMethods : List (String × List String) := [\n  %s]\n\n", strings.Join(meths, ",\n  "))
}

// firstLenConst finds the first comparison `len(recv) OP const` in the function and returns the smallest
// length that passes it (>= N → N, > N → N+1, < N → N, <= N → N+1 for the rejecting forms).
func firstLenConst(info *types.Info, fd *ast.FuncDecl) (int64, bool) {
	var res int64
	found := false
	ast.Inspect(fd.Body, func(n ast.Node) bool {
		if found {
			return false
		}
		be, ok := n.(*ast.BinaryExpr)
		if !ok {
			return true
		}
		isLen := func(e ast.Expr) bool {
			if c, ok := e.(*ast.CallExpr); ok {
				if id, ok := c.Fun.(*ast.Ident); ok && id.Name == "len" {
					return true
				}
			}
			if id, ok := e.(*ast.Ident); ok && id.Name == "n" { // `if n := len(p); n >= 20`
				return true
			}
			return false
		}
		if !isLen(be.X) {
			return true
		}
		v, ok := constNat(info, be.Y)
		if !ok {
			return true
		}
		switch be.Op {
		case token.GEQ, token.LSS:
			res, found = v, true
		case token.GTR, token.LEQ:
			res, found = v+1, true
		}
		return true
	})
	return res, found
}
