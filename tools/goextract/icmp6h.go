// F15: the bodies of the ICMPv6 / NDP spoofing handler (handlers/icmp_spoofer/{icmp6.go, icmp6spoof.go,
// icmp6radv.go}) and of the ICMPv6 send helpers of the root package (layer_icmp6_ndp.go, layer_icmp.go) as
// Lean source over the Go-side handler state `Model.Icmp6Go.G6` → Gen/Icmp6Gen.lean.  Statement by statement,
// Go's control flow kept (continuation passing with textual duplication of what follows an `if` / `switch`),
// with the fixed dictionary of Model/Icmp6Go.lean.  Whatever has no supported form refuses the whole function
// (`icmp6Untranslated`, first offending construct; nothing approximated); statements without a model
// counterpart (locks, logging, timers, the pooled buffer's return) are listed in `icmp6Ignored`.
package main

import (
	"fmt"
	"go/ast"
	"go/token"
	"go/types"
	"strings"

	"golang.org/x/tools/go/packages"
)

type i6k int

const (
	i6Bytes i6k = iota
	i6OptBytes
	i6Bool
	i6Int
	i6Nat
	i6U8
	i6Err // Option Err
	i6Addr
	i6RPtr // *Router = key
	i6ROpt // *Router that may be nil (Option key)
	i6RVal
	i6Opts
	i6AddrList
	i6PfxList
	i6Stage
	i6Frame
	i6Sl
	i6Log
	i6Unit
)

const (
	i6Unknown = iota
	i6Nil
	i6NonNil
)

type i6var struct {
	lean  string
	k     i6k
	st    int    // static nil status (error / pointer variables)
	fresh string // *Router: the record is still local (not yet stored into LANRouters)
}

type i6fn struct {
	key    string
	fd     *ast.FuncDecl
	info   *types.Info
	lean   string
	sig    string
	resK   []i6k
	body   string
	err    string
	isIter bool // spoofLoop: the body of the `for` (results: nTimes, continue?)
	isPre  bool // spoofLoop: the statements before the `for`
}

type i6tr struct {
	fns       map[string]*i6fn
	order     []*i6fn
	ignored   []string
	ignoredAt map[string]bool
	callees   map[string]bool
	assume    map[string]bool
	tmp       int
}

type i6ctx struct {
	tr   *i6tr
	f    *i6fn
	vars map[types.Object]*i6var
	pre  []string
	brk  i6kont
	loop bool // inside a forEach body: return / break refused
}

type i6kont func(c *i6ctx, ind string) (string, error)

var i6Targets = [][3]string{ // package suffix, receiver, name
	{"handlers/icmp_spoofer", "Handler6", "findOrCreateRouter"},
	{"handlers/icmp_spoofer", "Handler6", "FindRouter"},
	{"handlers/icmp_spoofer", "Handler6", "Close"},
	{"handlers/icmp_spoofer", "Handler6", "StartHunt"},
	{"handlers/icmp_spoofer", "Handler6", "StopHunt"},
	{"", "Session", "icmp6SendPacket"},
	{"", "Session", "ICMP6SendNeighborAdvertisement"},
	{"", "Session", "ICMP6SendNeighbourSolicitation"},
	{"handlers/icmp_spoofer", "Handler6", "ProcessPacket"},
	{"handlers/icmp_spoofer", "Handler6", "spoofLoop"},
}

// Go method / function → Lean term.  $r receiver, $1.. arguments; `out`: the term is `Outcome`-valued (may panic).
type i6dict struct {
	lean string
	k    i6k
	out  bool
}

const pk = "github.com/irai/packet."

var i6Dict = map[string]i6dict{
	"(" + pk + "Frame).IP6":                                     {"frameIP6 fr p", i6OptBytes, true},
	"(" + pk + "Frame).Payload":                                 {"framePayload fr p", i6Bytes, true},
	"(" + pk + "Frame).Ether":                                   {"p", i6Bytes, false},
	"(" + pk + "Ether).Src":                                     {"etherSrc $r", i6Bytes, true},
	"(" + pk + "Ether).Dst":                                     {"etherDst $r", i6Bytes, true},
	"(" + pk + "IP6).Src":                                       {"ip6Src $r", i6Bytes, true},
	"(" + pk + "IP6).Dst":                                       {"ip6Dst $r", i6Bytes, true},
	"(" + pk + "ICMP).IsValid":                                  {"icmpIsValid $r", i6Err, false},
	"(" + pk + "ICMP).Type":                                     {"icmpType $r", i6Nat, true},
	"(" + pk + "ICMPEcho).IsValid":                              {"echoIsValid $r", i6Err, false},
	"(" + pk + "ICMP6Redirect).IsValid":                         {"redirectIsValid $r", i6Err, false},
	"(" + pk + "ICMP6RouterSolicitation).IsValid":               {"rsIsValid $r", i6Err, false},
	"(" + pk + "ICMP6NeighborAdvertisement).IsValid":            {"naIsValid $r", i6Err, false},
	"(" + pk + "ICMP6NeighborAdvertisement).Override":           {"naOverride $r", i6Bool, true},
	"(" + pk + "ICMP6NeighborAdvertisement).Solicited":          {"naSolicited $r", i6Bool, true},
	"(" + pk + "ICMP6NeighborAdvertisement).TargetLLA":          {"Ndp.naTargetLLA $r", i6OptBytes, true},
	"(" + pk + "ICMP6NeighborSolicitation).IsValid":             {"nsIsValid $r", i6Err, false},
	"(" + pk + "ICMP6NeighborSolicitation).TargetAddress":       {"nsTarget $r", i6Bytes, true},
	"(" + pk + "ICMP6RouterAdvertisement).IsValid":              {"raIsValid $r", i6Err, false},
	"(" + pk + "ICMP6RouterAdvertisement).ManagedConfiguration": {"raManaged $r", i6Bool, true},
	"(" + pk + "ICMP6RouterAdvertisement).OtherConfiguration":   {"raOther $r", i6Bool, true},
	"(" + pk + "ICMP6RouterAdvertisement).Preference":           {"raPreference $r", i6Nat, true},
	"(" + pk + "ICMP6RouterAdvertisement).CurrentHopLimit":      {"raCurHopLimit $r", i6Nat, true},
	"(" + pk + "ICMP6RouterAdvertisement).Lifetime":             {"raLifetime $r", i6Nat, true},
	"(" + pk + "ICMP6RouterAdvertisement).ReachableTime":        {"raReachable $r", i6Nat, true},
	"(" + pk + "ICMP6RouterAdvertisement).RetransmitTimer":      {"raRetrans $r", i6Nat, true},
	"(net/netip.Addr).IsUnspecified":                            {"Netip.isUnspecified $r", i6Bool, false},
	"(net/netip.Addr).IsGlobalUnicast":                          {"Ndp.isGlobalUnicast16 $r", i6Bool, false},
	"(net/netip.Addr).Is4":                                      {"Netip.is4 $r", i6Bool, false},
	"(net/netip.Addr).Is6":                                      {"Netip.is6 $r", i6Bool, false},
	"(net/netip.Addr).IsValid":                                  {"Netip.isValid $r", i6Bool, false},
	"(net/netip.Addr).IsLinkLocalUnicast":                       {"Netip.isLinkLocalUnicast $r", i6Bool, false},
	"(net/netip.Addr).IsLinkLocalMulticast":                     {"Netip.isLinkLocalMulticast $r", i6Bool, false},
	"(net/netip.Addr).IsMulticast":                              {"Netip.isMulticast $r", i6Bool, false},
	"(*" + pk + "AddrList).Len":                                 {"huntLen g", i6Int, false},
	"(*" + pk + "AddrList).Index":                               {"huntIndex g $1", i6Int, false},
	pk + "CopyMAC":                                              {"$1", i6Bytes, false},
	pk + "ICMP6NeighborAdvertisementMarshal":                    {"naMarshalA $1 $2 $3 $4", i6Bytes, false},
	pk + "ICMP6NeighborSolicitationMarshal":                     {"nsMarshal $1 $2", i6Bytes, false},
	pk + "Checksum":                                             {"checksum $1", i6Nat, false},
}

func i6Lower(s string) string {
	switch s {
	case "SourceLLA":
		return "slla"
	case "TargetLLA":
		return "tlla"
	case "MAC":
		return "mac"
	case "IP":
		return "ip"
	case "MTU":
		return "mtu"
	case "RDNSS":
		return "rdnss"
	}
	return strings.ToLower(s[:1]) + s[1:]
}

func (x *i6tr) ignore(f *i6fn, kind string, n ast.Node) {
	key := fmt.Sprintf("%s@%d", f.lean, n.Pos())
	if x.ignoredAt[key] {
		return
	}
	x.ignoredAt[key] = true
	s := nodeText(n)
	if len(s) > 90 {
		s = s[:90] + "..."
	}
	x.ignored = append(x.ignored, fmt.Sprintf("%s: %s: %s", f.lean, kind, s))
}

func (c *i6ctx) fail(n ast.Node, what string) error {
	return fmt.Errorf("line %d: %s: %s", fset.Position(n.Pos()).Line, what, nodeText(n))
}

func (c *i6ctx) clone() *i6ctx {
	n := *c
	n.vars = map[types.Object]*i6var{}
	for k, v := range c.vars {
		cp := *v
		n.vars[k] = &cp
	}
	n.pre = nil
	return &n
}

func (c *i6ctx) fresh() string {
	c.tr.tmp++
	return fmt.Sprintf("t%d", c.tr.tmp)
}

func (c *i6ctx) flush(ind string) string {
	var b strings.Builder
	for _, l := range c.pre {
		b.WriteString(ind + l + "\n")
	}
	c.pre = nil
	return b.String()
}

func i6Kind(t types.Type) (i6k, bool) {
	switch s := t.String(); s {
	case pk + "Addr":
		return i6Addr, true
	case "net.HardwareAddr", "net/netip.Addr", "[]byte", pk + "ICMP", pk + "Ether", pk + "ICMPEcho", pk + "ICMP6Redirect",
		pk + "ICMP6RouterSolicitation", pk + "ICMP6RouterAdvertisement", pk + "ICMP6NeighborAdvertisement", pk + "ICMP6NeighborSolicitation":
		return i6Bytes, true
	case pk + "IP6":
		return i6OptBytes, true
	case "bool":
		return i6Bool, true
	case "int":
		return i6Int, true
	case "uint8", "byte":
		return i6U8, true
	case "uint16", "uint32", "golang.org/x/net/ipv6.ICMPType", "time.Duration":
		return i6Nat, true
	case "error":
		return i6Err, true
	case pk + "HuntStage":
		return i6Stage, true
	case pk + "Frame":
		return i6Frame, true
	case pk + "NewOptions":
		return i6Opts, true
	case "[]" + pk + "Addr":
		return i6AddrList, true
	case "[]" + pk + "PrefixInformation":
		return i6PfxList, true
	case "*" + pk + "fastlog.Line", "time.Time", "chan bool":
		return i6Log, true
	default:
		if strings.HasSuffix(s, "icmp_spoofer.Router") {
			if strings.HasPrefix(s, "*") {
				return i6ROpt, true
			}
			return i6RVal, true
		}
	}
	return 0, false
}

func i6LeanType(k i6k) string {
	switch k {
	case i6Bytes:
		return "Bytes"
	case i6Bool:
		return "Bool"
	case i6Int:
		return "Int"
	case i6Nat:
		return "Nat"
	case i6U8:
		return "UInt8"
	case i6Err:
		return "Option Err"
	case i6Addr:
		return "GAddr"
	case i6RPtr, i6ROpt:
		return "Bytes"
	case i6RVal:
		return "GRouter"
	case i6Stage:
		return "Stage"
	}
	return "Unit"
}

// ---------------------------------------------------------------- expressions

func (c *i6ctx) isHandler(e ast.Expr) bool {
	id, ok := e.(*ast.Ident)
	if !ok {
		return false
	}
	if c.f.fd.Recv == nil || len(c.f.fd.Recv.List) == 0 || len(c.f.fd.Recv.List[0].Names) == 0 {
		return false
	}
	return c.f.info.ObjectOf(id) == c.f.info.ObjectOf(c.f.fd.Recv.List[0].Names[0])
}

// a statement / expression that only logs
func (c *i6ctx) isLogExpr(e ast.Expr) bool {
	for {
		switch v := e.(type) {
		case *ast.CallExpr:
			e = v.Fun
		case *ast.SelectorExpr:
			if id, ok := v.X.(*ast.Ident); ok {
				if id.Name == "fmt" && strings.HasPrefix(v.Sel.Name, "Print") {
					return true
				}
				if id.Name == "Logger6" || id.Name == "Logger" {
					return true
				}
				if o := c.f.info.ObjectOf(id); o != nil && strings.HasSuffix(o.Type().String(), "fastlog.Line") {
					return true
				}
			}
			e = v.X
		default:
			return false
		}
	}
}

func (c *i6ctx) isLockCall(e ast.Expr) bool {
	call, ok := e.(*ast.CallExpr)
	if !ok {
		return false
	}
	sel, ok := call.Fun.(*ast.SelectorExpr)
	if !ok {
		return false
	}
	switch sel.Sel.Name {
	case "Lock", "Unlock", "RLock", "RUnlock":
		if fn, ok := c.f.info.ObjectOf(sel.Sel).(*types.Func); ok && strings.HasPrefix(fn.FullName(), "(*sync.") {
			return true
		}
	}
	return false
}

func (c *i6ctx) bind(term string) string {
	t := c.fresh()
	c.pre = append(c.pre, fmt.Sprintf("let %s ← %s", t, term))
	return t
}

func (c *i6ctx) expr(e ast.Expr) (string, i6k, error) {
	info := c.f.info
	if tv, ok := info.Types[e]; ok && tv.Value != nil && tv.IsValue() {
		if _, isLit := e.(*ast.BasicLit); !isLit {
			if k, ok := i6Kind(tv.Type); ok && (k == i6Nat || k == i6Int || k == i6U8) || tv.Type.String() == "untyped int" {
				kk, _ := i6Kind(tv.Type)
				if tv.Type.String() == "untyped int" {
					kk = i6Nat
				}
				s := tv.Value.ExactString()
				if strings.HasPrefix(s, "-") {
					return "(" + s + " : Int)", i6Int, nil
				}
				return s, kk, nil
			}
		}
	}
	switch v := e.(type) {
	case *ast.ParenExpr:
		return c.expr(v.X)
	case *ast.BasicLit:
		if v.Kind == token.INT {
			return v.Value, i6Nat, nil
		}
	case *ast.Ident:
		switch v.Name {
		case "true", "false":
			return v.Name, i6Bool, nil
		}
		obj := info.ObjectOf(v)
		if lv, ok := c.vars[obj]; ok {
			if lv.fresh != "" {
				return "", 0, c.fail(e, "use of a *Router not yet stored into LANRouters")
			}
			return lv.lean, lv.k, nil
		}
		if obj != nil && obj.Pkg() != nil && obj.Parent() == obj.Pkg().Scope() && v.Name == "repeat" {
			return "(rep g)", i6Int, nil
		}
	case *ast.UnaryExpr:
		s, k, err := c.expr(v.X)
		if err != nil {
			return "", 0, err
		}
		switch v.Op {
		case token.NOT:
			return "(!" + s + ")", i6Bool, nil
		case token.AND:
			return s, k, nil
		}
	case *ast.StarExpr:
		s, k, err := c.expr(v.X)
		if err != nil {
			return "", 0, err
		}
		if k == i6RPtr {
			return "(R g " + s + ")", i6RVal, nil
		}
	case *ast.BinaryExpr:
		return c.binary(v)
	case *ast.SelectorExpr:
		return c.selector(v)
	case *ast.CompositeLit:
		return c.composite(v)
	case *ast.CallExpr:
		return c.call(v)
	}
	return "", 0, c.fail(e, "expression")
}

func isNil(e ast.Expr) bool {
	id, ok := e.(*ast.Ident)
	return ok && id.Name == "nil"
}

func (c *i6ctx) binary(v *ast.BinaryExpr) (string, i6k, error) {
	if isNil(v.Y) && (v.Op == token.EQL || v.Op == token.NEQ) {
		var s string
		if sel, ok := v.X.(*ast.SelectorExpr); ok && sel.Sel.Name == "Host" {
			if k, ok := i6Kind(c.f.info.TypeOf(sel.X)); ok && k == i6Frame {
				s = "fr.hostEv.isNone"
			}
		}
		if s == "" {
			x, k, err := c.expr(v.X)
			if err != nil {
				return "", 0, err
			}
			switch k {
			case i6OptBytes, i6ROpt, i6Err:
				s = x + ".isNone"
			case i6Bytes:
				c.tr.assume["a nil byte slice is the empty slice (`x == nil` is `len(x) == 0`; only used next to a length test)"] = true
				s = "(" + x + ".length == 0)"
			default:
				return "", 0, c.fail(v, "nil comparison")
			}
		}
		if v.Op == token.NEQ {
			return "(!" + s + ")", i6Bool, nil
		}
		return "(" + s + ")", i6Bool, nil
	}
	x, kx, err := c.expr(v.X)
	if err != nil {
		return "", 0, err
	}
	npre := len(c.pre)
	y, ky, err := c.expr(v.Y)
	if err != nil {
		return "", 0, err
	}
	k := kx
	if ky == i6Int {
		k = i6Int
	}
	switch v.Op {
	case token.LAND, token.LOR:
		if len(c.pre) > npre {
			c.tr.assume["an operand of && / || that can panic is evaluated eagerly (its panic condition is excluded by the IsValid test before it): "+nodeText(v)] = true
		}
		op := "&&"
		if v.Op == token.LOR {
			op = "||"
		}
		return "(" + x + " " + op + " " + y + ")", i6Bool, nil
	case token.EQL:
		return "(" + x + " == " + y + ")", i6Bool, nil
	case token.NEQ:
		return "(" + x + " != " + y + ")", i6Bool, nil
	case token.GTR:
		return "decide (" + x + " > " + y + ")", i6Bool, nil
	case token.LSS:
		return "decide (" + x + " < " + y + ")", i6Bool, nil
	case token.GEQ:
		return "decide (" + x + " ≥ " + y + ")", i6Bool, nil
	case token.ADD:
		return "(" + x + " + " + y + ")", k, nil
	case token.MUL:
		return "(" + x + " * " + y + ")", k, nil
	case token.REM:
		if k == i6Int {
			return "(goMod " + x + " " + y + ")", k, nil
		}
		return "(" + x + " % " + y + ")", k, nil
	}
	return "", 0, c.fail(v, "operator")
}

func (c *i6ctx) selector(v *ast.SelectorExpr) (string, i6k, error) {
	info := c.f.info
	txt := nodeText(v)
	if strings.HasSuffix(txt, "NICInfo.HostAddr4.MAC") {
		return "e.cfg.hostMAC", i6Bytes, nil
	}
	if id, ok := v.X.(*ast.Ident); ok {
		if pn, ok := info.ObjectOf(id).(*types.PkgName); ok {
			name := v.Sel.Name
			switch {
			case pn.Imported().Path() == "github.com/irai/packet" && strings.HasPrefix(name, "Err"):
				return "(some Err." + strings.ToLower(name[3:4]) + name[4:] + ")", i6Err, nil
			case strings.HasPrefix(name, "Stage"):
				return "Stage." + strings.ToLower(name[5:6]) + name[6:], i6Stage, nil
			case name == "IP6AllNodesMulticast":
				return "Icmp6Na.allNodes", i6Bytes, nil
			}
		}
	}
	if c.isHandler(v.X) {
		switch v.Sel.Name {
		case "closed":
			return "(closed g)", i6Bool, nil
		case "Router":
			return "(defRouter g)", i6ROpt, nil
		}
		return "", 0, c.fail(v, "handler field")
	}
	x, k, err := c.expr(v.X)
	if err != nil {
		return "", 0, err
	}
	f := i6Lower(v.Sel.Name)
	switch k {
	case i6Addr:
		if f == "mac" || f == "ip" {
			return x + "." + f, i6Bytes, nil
		}
	case i6RVal:
		if f == "addr" {
			return x + ".addr", i6Addr, nil
		}
	case i6Opts:
		if f == "prefixes" {
			return x + ".prefixes", i6PfxList, nil
		}
		if f == "slla" {
			return x + ".slla", i6Unit, nil
		}
	case i6Unit:
		if f == "mac" && strings.HasSuffix(x, ".slla") {
			return x + ".mac", i6Bytes, nil
		}
	}
	return "", 0, c.fail(v, "field")
}

func (c *i6ctx) composite(v *ast.CompositeLit) (string, i6k, error) {
	k, ok := i6Kind(c.f.info.TypeOf(v))
	if !ok {
		return "", 0, c.fail(v, "composite literal")
	}
	switch k {
	case i6AddrList:
		if len(v.Elts) == 0 {
			return "([] : List GAddr)", k, nil
		}
	case i6Addr, i6RVal:
		var fs []string
		for _, el := range v.Elts {
			kv, ok := el.(*ast.KeyValueExpr)
			if !ok {
				return "", 0, c.fail(v, "positional literal")
			}
			s, _, err := c.expr(kv.Value)
			if err != nil {
				return "", 0, err
			}
			fs = append(fs, i6Lower(kv.Key.(*ast.Ident).Name)+" := "+s)
		}
		return "({ " + strings.Join(fs, ", ") + " } : " + i6LeanType(k) + ")", k, nil
	}
	return "", 0, c.fail(v, "composite literal")
}

func (c *i6ctx) call(v *ast.CallExpr) (string, i6k, error) {
	info := c.f.info
	if tv, ok := info.Types[v.Fun]; ok && tv.IsType() && len(v.Args) == 1 { // conversion
		s, k, err := c.expr(v.Args[0])
		if err != nil {
			return "", 0, err
		}
		if tk, ok := i6Kind(tv.Type); ok && tk == i6U8 && k == i6Nat {
			return "(" + s + " : UInt8)", i6U8, nil
		}
		return s, k, nil
	}
	if id, ok := v.Fun.(*ast.Ident); ok && id.Name == "len" {
		s, _, err := c.expr(v.Args[0])
		if err != nil {
			return "", 0, err
		}
		return s + ".length", i6Nat, nil
	}
	var fn *types.Func
	var recv ast.Expr
	switch f := v.Fun.(type) {
	case *ast.SelectorExpr:
		fn, _ = info.ObjectOf(f.Sel).(*types.Func)
		recv = f.X
	case *ast.Ident:
		fn, _ = info.ObjectOf(f).(*types.Func)
	}
	if fn == nil {
		return "", 0, c.fail(v, "call")
	}
	name := fn.FullName()
	if name == "fmt.Errorf" {
		for _, a := range v.Args[1:] {
			if s, k, err := c.expr(a); err == nil && k == i6Err && strings.HasPrefix(s, "(some Err.") {
				return s, i6Err, nil
			}
		}
		return "(some Err.other)", i6Err, nil
	}
	if name == "(net/netip.Prefix).Addr" && strings.HasSuffix(nodeText(recv), "NICInfo.HostLLA") {
		return "e.hostLLA", i6Bytes, nil
	}
	if d, ok := i6Dict[name]; ok {
		c.tr.callees[name+" = "+strings.Fields(d.lean)[0]] = true
		term := d.lean
		if strings.Contains(term, "$r") {
			r, _, err := c.expr(recv)
			if err != nil {
				return "", 0, err
			}
			term = strings.ReplaceAll(term, "$r", r)
		}
		for i, a := range v.Args {
			ph := fmt.Sprintf("$%d", i+1)
			if !strings.Contains(term, ph) {
				continue
			}
			s, _, err := c.expr(a)
			if err != nil {
				return "", 0, err
			}
			term = strings.ReplaceAll(term, ph, s)
		}
		if d.out {
			return c.bind(term), d.k, nil
		}
		return "(" + term + ")", d.k, nil
	}
	return "", 0, c.fail(v, "call of "+name)
}

// a call of a translated function: (callee, argument terms)
func (c *i6ctx) transCall(e ast.Expr) (*i6fn, string, bool, error) {
	call, ok := e.(*ast.CallExpr)
	if !ok {
		return nil, "", false, nil
	}
	sel, ok := call.Fun.(*ast.SelectorExpr)
	if !ok {
		return nil, "", false, nil
	}
	fn, _ := c.f.info.ObjectOf(sel.Sel).(*types.Func)
	if fn == nil {
		return nil, "", false, nil
	}
	var callee *i6fn
	for _, f := range c.tr.order {
		if f.fd.Name.Name == fn.Name() && !f.isIter && !f.isPre && strings.Contains(fn.FullName(), "."+strings.Split(f.key, ".")[0]+")") {
			callee = f
		}
	}
	if callee == nil {
		return nil, "", false, nil
	}
	if callee.err != "" {
		return nil, "", true, c.fail(e, "call of the untranslated "+callee.key)
	}
	args := []string{"e", "g"}
	for _, a := range call.Args {
		s, _, err := c.expr(a)
		if err != nil {
			return nil, "", true, err
		}
		args = append(args, s)
	}
	return callee, callee.lean + " " + strings.Join(args, " "), true, nil
}

// ---------------------------------------------------------------- statements

func (c *i6ctx) onlyIgnorable(list []ast.Stmt) bool {
	for _, s := range list {
		switch v := s.(type) {
		case *ast.ExprStmt:
			if !c.isLogExpr(v.X) {
				return false
			}
		case *ast.AssignStmt:
			if len(v.Rhs) != 1 || !c.isLogExpr(v.Rhs[0]) {
				return false
			}
		case *ast.IfStmt:
			if v.Else != nil || v.Init != nil || !c.onlyIgnorable(v.Body.List) {
				return false
			}
		default:
			return false
		}
	}
	return true
}

func (c *i6ctx) retTerm(vals []string) string {
	return ".ok (" + strings.Join(append([]string{"g"}, vals...), ", ") + ")"
}

func (c *i6ctx) bindVar(id *ast.Ident, k i6k, lean string) *i6var {
	v := &i6var{lean: lean, k: k}
	c.vars[c.f.info.ObjectOf(id)] = v
	return v
}

func (c *i6ctx) stmts(list []ast.Stmt, ind string, rest i6kont) (string, error) {
	if len(list) == 0 {
		return rest(c, ind)
	}
	s, tail := list[0], list[1:]
	next := func(c *i6ctx, ind string) (string, error) { return c.stmts(tail, ind, rest) }
	info := c.f.info
	// ch := h.closeChan; h.closeChan = make(chan bool); close(ch)
	if len(list) >= 3 {
		if a, ok := s.(*ast.AssignStmt); ok && len(a.Rhs) == 1 && strings.HasSuffix(nodeText(a.Rhs[0]), ".closeChan") && a.Tok == token.DEFINE {
			if b, ok := list[1].(*ast.AssignStmt); ok && strings.HasSuffix(nodeText(b.Lhs[0]), ".closeChan") && nodeText(b.Rhs[0]) == "make(chan bool)" {
				if e, ok := list[2].(*ast.ExprStmt); ok && nodeText(e.X) == "close("+nodeText(a.Lhs[0])+")" {
					out := ind + "let g ← wakeLoops g\n"
					r, err := c.stmts(list[3:], ind, rest)
					return out + r, err
				}
			}
		}
	}
	switch v := s.(type) {
	case *ast.ExprStmt:
		if c.isLockCall(v.X) {
			c.tr.ignore(c.f, "lock", s)
			return next(c, ind)
		}
		if c.isLogExpr(v.X) {
			c.tr.ignore(c.f, "log", s)
			return next(c, ind)
		}
		txt := nodeText(v.X)
		if strings.HasPrefix(txt, "rand.Seed(") {
			c.tr.ignore(c.f, "random seed", s)
			return next(c, ind)
		}
		if strings.HasPrefix(txt, "close(") && strings.HasSuffix(txt, ".closeChan)") {
			r, err := next(c, ind)
			return ind + "let g ← closeChan g\n" + r, err
		}
		if call, ok := v.X.(*ast.CallExpr); ok {
			if sel, ok := call.Fun.(*ast.SelectorExpr); ok && strings.HasSuffix(nodeText(sel.X), ".huntList") && (sel.Sel.Name == "Add" || sel.Sel.Name == "Del") {
				a, _, err := c.expr(call.Args[0])
				if err != nil {
					return "", err
				}
				c.tr.callees["(*"+pk+"AddrList)."+sel.Sel.Name+" = hunt"+sel.Sel.Name] = true
				out := c.flush(ind) + ind + "let g := hunt" + sel.Sel.Name + " g " + a + "\n"
				r, err := next(c, ind)
				return out + r, err
			}
			if strings.HasSuffix(txt, "SetChecksum(Checksum(psh))") && strings.HasPrefix(txt, "ICMP(ip6.Payload())") {
				out := ind + "let t_icmp ← ip6.from_ m 40\n" + ind + "let m ← putCks m t_icmp 2 (checksum psh)\n"
				c.tr.callees["(packet.IP6).Payload = Sl.from_ 40"] = true
				c.tr.callees["(packet.ICMP).SetChecksum = putCks 2"] = true
				r, err := next(c, ind)
				return out + r, err
			}
			if id, ok := call.Fun.(*ast.Ident); ok && id.Name == "copy" {
				return c.copyStmt(call, ind, next)
			}
			if strings.HasPrefix(txt, "binary.BigEndian.PutUint32(psh[32:36], uint32(len(b)))") {
				r, err := next(c, ind)
				return ind + "let psh ← put32Into psh 32 36 b.length\n" + r, err
			}
		}
		if callee, term, ok, err := c.transCall(v.X); ok {
			if err != nil {
				return "", err
			}
			pat := "(g"
			for range callee.resK {
				pat += ", _"
			}
			out := c.flush(ind) + ind + "let " + pat + ") ← " + term + "\n"
			r, err := next(c, ind)
			return out + r, err
		}
		return "", c.fail(s, "expression statement")
	case *ast.DeferStmt:
		if c.isLockCall(v.Call) {
			c.tr.ignore(c.f, "lock", s)
			return next(c, ind)
		}
		if strings.HasPrefix(nodeText(v.Call), "EtherBufferPool.Put(") {
			c.tr.ignore(c.f, "buffer pool", s)
			return next(c, ind)
		}
		return "", c.fail(s, "defer")
	case *ast.GoStmt:
		if sel, ok := v.Call.Fun.(*ast.SelectorExpr); ok && sel.Sel.Name == "spoofLoop" && len(v.Call.Args) == 1 {
			a, _, err := c.expr(v.Call.Args[0])
			if err != nil {
				return "", err
			}
			r, err := next(c, ind)
			return ind + "let g := spawnLoop g " + a + "\n" + r, err
		}
		return "", c.fail(s, "go statement")
	case *ast.SelectStmt:
		c.tr.ignore(c.f, "wait (the model's wake step)", s)
		return next(c, ind)
	case *ast.IncDecStmt:
		x, k, err := c.expr(v.X)
		if err != nil {
			return "", err
		}
		if v.Tok != token.INC {
			return "", c.fail(s, "decrement")
		}
		if x == "(rep g)" {
			r, err := next(c, ind)
			return ind + "let g := setRep g ((rep g) + 1)\n" + r, err
		}
		if _, ok := c.vars[info.ObjectOf(v.X.(*ast.Ident))]; ok && (k == i6Int || k == i6Nat) {
			r, err := next(c, ind)
			return ind + "let " + x + " := " + x + " + 1\n" + r, err
		}
		return "", c.fail(s, "increment")
	case *ast.ReturnStmt:
		if c.loop {
			return "", c.fail(s, "return inside a range loop")
		}
		if c.f.isIter {
			return ind + ".ok (g, nTimes, false)\n", nil
		}
		if len(v.Results) == 1 {
			if callee, term, ok, err := c.transCall(v.Results[0]); ok {
				if err != nil {
					return "", err
				}
				_ = callee
				return c.flush(ind) + ind + term + "\n", nil
			}
		}
		var vals []string
		for i, r := range v.Results {
			if isNil(r) {
				vals = append(vals, "none")
				continue
			}
			x, k, err := c.expr(r)
			if err != nil {
				return "", err
			}
			if c.f.resK[i] == i6RPtr && k == i6ROpt {
				return "", c.fail(r, "possibly nil pointer returned")
			}
			vals = append(vals, x)
		}
		return c.flush(ind) + ind + c.retTerm(vals) + "\n", nil
	case *ast.BranchStmt:
		if v.Tok == token.BREAK && c.brk != nil && !c.loop {
			return c.brk(c, ind)
		}
		return "", c.fail(s, "branch")
	case *ast.AssignStmt:
		return c.assign(v, ind, next)
	case *ast.IfStmt:
		return c.ifStmt(v, ind, next)
	case *ast.SwitchStmt:
		return c.switchStmt(v, ind, next)
	case *ast.RangeStmt:
		return c.rangeStmt(v, ind, next)
	}
	return "", c.fail(s, "statement")
}

func (c *i6ctx) copyStmt(call *ast.CallExpr, ind string, next i6kont) (string, error) {
	dst, ok := call.Args[0].(*ast.SliceExpr)
	if !ok || nodeText(dst.X) != "psh" {
		return "", c.fail(call, "copy destination")
	}
	lo, _, err := c.expr(dst.Low)
	if err != nil {
		return "", err
	}
	var src string
	switch t := nodeText(call.Args[1]); t {
	case "ip6.Src().AsSlice()":
		src = "(" + c.bind("ip6.reslice m 8 24") + ".bytes m)"
		c.tr.callees["(packet.IP6).Src().AsSlice() = Sl.reslice 8 24"] = true
	case "ip6.Dst().AsSlice()":
		src = "(" + c.bind("ip6.reslice m 24 40") + ".bytes m)"
		c.tr.callees["(packet.IP6).Dst().AsSlice() = Sl.reslice 24 40"] = true
	default:
		s, k, err := c.expr(call.Args[1])
		if err != nil {
			return "", err
		}
		if k != i6Bytes {
			return "", c.fail(call, "copy source")
		}
		src = s
	}
	var out string
	if dst.High != nil {
		hi, _, err := c.expr(dst.High)
		if err != nil {
			return "", err
		}
		out = c.flush(ind) + ind + fmt.Sprintf("let psh ← copyInto psh %s %s %s\n", lo, hi, src)
	} else {
		out = c.flush(ind) + ind + fmt.Sprintf("let psh ← copyFrom psh %s %s\n", lo, src)
	}
	r, err := next(c, ind)
	return out + r, err
}

func (c *i6ctx) assign(v *ast.AssignStmt, ind string, next i6kont) (string, error) {
	info := c.f.info
	txtR := nodeText(v.Rhs[0])
	// ---- icmp6SendPacket vocabulary (single pooled array `m`)
	if c.f.key == "Session.icmp6SendPacket" && len(v.Rhs) == 1 {
		l0 := nodeText(v.Lhs[0])
		emit := func(line string) (string, error) {
			out := c.flush(ind) + ind + line + "\n"
			r, err := next(c, ind)
			return out + r, err
		}
		args := func(call *ast.CallExpr, from int) ([]string, error) {
			var a []string
			for _, x := range call.Args[from:] {
				s, _, err := c.expr(x)
				if err != nil {
					return nil, err
				}
				a = append(a, s)
			}
			return a, nil
		}
		call, _ := v.Rhs[0].(*ast.CallExpr)
		switch {
		case strings.HasPrefix(txtR, "EtherBufferPool.Get()"):
			c.tr.assume["the pooled buffer's contents are `e.pool`; its length is the capacity EthMaxSize"] = true
			return emit("let m : Mem := e.pool")
		case txtR == "Ether(buf[:])":
			return emit("let " + l0 + " : Sl := whole m")
		case call != nil && nodeText(call.Fun) == "EncodeEther" && nodeText(call.Args[0]) == l0:
			a, err := args(call, 1)
			if err != nil {
				return "", err
			}
			return emit("let (m, " + l0 + ") ← encodeEther m " + l0 + " " + strings.Join(a, " "))
		case call != nil && nodeText(call.Fun) == "EncodeIP6" && nodeText(call.Args[0]) == "ether.Payload()":
			a, err := args(call, 1)
			if err != nil {
				return "", err
			}
			c.tr.callees["(packet.Ether).Payload = etherPayloadSl"] = true
			return emit("let t_pay ← etherPayloadSl m ether\n" + ind + "let (m, " + l0 + ") ← encodeIP6N m t_pay " + strings.Join(a, " "))
		case call != nil && nodeText(call.Fun) == "ip6.AppendPayload" && len(v.Lhs) == 2 && nodeText(v.Lhs[1]) == "_":
			a, err := args(call, 0)
			if err != nil {
				return "", err
			}
			c.tr.assume["`ip6, _ = ip6.AppendPayload(..)`: the dropped error leaves ip6 nil and the next statement that slices it panics (ip6AppendPayloadN)"] = true
			return emit("let (m, ip6) ← ip6AppendPayloadN m ip6 " + strings.Join(a, " "))
		case txtR == "ether.SetPayload(ip6)" && len(v.Lhs) == 2 && nodeText(v.Lhs[1]) == "_":
			return emit("let ether ← etherSetPayload m ether ip6.len")
		case txtR == "make([]byte, 40+len(b))":
			return emit("let psh : Bytes := List.replicate (40 + b.length) 0")
		case l0 == "psh[39]":
			return emit("let psh ← setAt psh 39 " + txtR)
		}
	}
	// ---- r, found := h.LANRouters[ip]   /   r := h.LANRouters[ip]
	if ix, ok := v.Rhs[0].(*ast.IndexExpr); ok && strings.HasSuffix(nodeText(ix.X), ".LANRouters") {
		key, _, err := c.expr(ix.Index)
		if err != nil {
			return "", err
		}
		rid := v.Lhs[0].(*ast.Ident)
		name := rid.Name
		hit, miss := c.clone(), c.clone()
		hv := hit.bindVar(rid, i6RPtr, name)
		hv.st = i6NonNil
		mv := miss.bindVar(rid, i6ROpt, "none")
		mv.st = i6Nil
		if len(v.Lhs) == 2 {
			if id, ok := v.Lhs[1].(*ast.Ident); ok && id.Name != "_" {
				hit.bindVar(id, i6Bool, "true").st = i6NonNil
				miss.bindVar(id, i6Bool, "false").st = i6Nil
			}
		}
		a, err := next(hit, ind+"  ")
		if err != nil {
			return "", err
		}
		b, err := next(miss, ind+"  ")
		if err != nil {
			return "", err
		}
		return c.flush(ind) + ind + "match routerFind g " + key + " with\n" + ind + "| some " + name + " => do\n" + a + ind + "| none => do\n" + b, nil
	}
	// ---- x, err := <dictionary call with an error result>
	if len(v.Lhs) == 2 && len(v.Rhs) == 1 && strings.HasSuffix(txtR, ".Options()") {
		call := v.Rhs[0].(*ast.CallExpr)
		r, _, err := c.expr(call.Fun.(*ast.SelectorExpr).X)
		if err != nil {
			return "", err
		}
		c.tr.callees["("+pk+"ICMP6RouterAdvertisement).Options = Ndp.raOptions"] = true
		okc, erc := c.clone(), c.clone()
		oid, eid := v.Lhs[0].(*ast.Ident), v.Lhs[1].(*ast.Ident)
		okc.bindVar(oid, i6Opts, oid.Name)
		okc.bindVar(eid, i6Err, "none").st = i6Nil
		erc.bindVar(oid, i6Opts, "({} : Ndp.Options)")
		erc.bindVar(eid, i6Err, "(some (optErr err_e))").st = i6NonNil
		a, err := next(erc, ind+"  ")
		if err != nil {
			return "", err
		}
		b, err := next(okc, ind+"  ")
		if err != nil {
			return "", err
		}
		return c.flush(ind) + ind + "match Ndp.raOptions " + r + " with\n" + ind + "| .panic => .panic\n" + ind + "| .hang => .hang\n" + ind + "| .err err_e => do\n" + a + ind + "| .ok " + oid.Name + " => do\n" + b, nil
	}
	// ---- results of a translated function
	if len(v.Rhs) == 1 {
		if callee, term, ok, err := c.transCall(v.Rhs[0]); ok {
			if err != nil {
				return "", err
			}
			pat := []string{"g"}
			for i, l := range v.Lhs {
				id, ok := l.(*ast.Ident)
				if !ok {
					return "", c.fail(v, "assignment target")
				}
				if id.Name == "_" {
					pat = append(pat, "_")
					continue
				}
				c.bindVar(id, callee.resK[i], id.Name)
				pat = append(pat, id.Name)
			}
			out := c.flush(ind) + ind + "let (" + strings.Join(pat, ", ") + ") ← " + term + "\n"
			r, err := next(c, ind)
			return out + r, err
		}
	}
	// ---- _, err := h.Conn.WriteTo(ether, &dstAddr)
	if len(v.Lhs) == 2 && len(v.Rhs) == 1 && nodeText(v.Lhs[0]) == "_" && strings.HasSuffix(txtR, ".Conn.WriteTo(ether, &dstAddr)") {
		eid := v.Lhs[1].(*ast.Ident)
		c.bindVar(eid, i6Err, eid.Name)
		c.tr.callees["net.PacketConn.WriteTo = connWrite (Handlers.writeTo)"] = true
		out := c.flush(ind) + ind + "let (g, " + eid.Name + ") ← connWrite e g (ether.bytes m)\n"
		r, err := next(c, ind)
		return out + r, err
	}
	// ---- x, _ := <dictionary call whose error is dropped>
	if len(v.Lhs) == 2 && len(v.Rhs) == 1 && nodeText(v.Lhs[1]) == "_" {
		if _, isCall := v.Rhs[0].(*ast.CallExpr); isCall {
			if id, ok := v.Lhs[0].(*ast.Ident); ok {
				x, k, err := c.expr(v.Rhs[0])
				if err != nil {
					return "", err
				}
				c.tr.assume["the error result dropped by `"+nodeText(v)+"` is not modelled (the model function is total)"] = true
				c.bindVar(id, k, id.Name)
				out := c.flush(ind) + ind + "let " + id.Name + " := " + x + "\n"
				r, err := next(c, ind)
				return out + r, err
			}
		}
	}
	if len(v.Lhs) != 1 || len(v.Rhs) != 1 {
		return "", c.fail(v, "assignment")
	}
	lhs, rhs := v.Lhs[0], v.Rhs[0]
	// ---- h.LANRouters[k] = router
	if ix, ok := lhs.(*ast.IndexExpr); ok && strings.HasSuffix(nodeText(ix.X), ".LANRouters") {
		key, _, err := c.expr(ix.Index)
		if err != nil {
			return "", err
		}
		rv, ok := c.vars[info.ObjectOf(rhs.(*ast.Ident))]
		if !ok || rv.fresh == "" {
			return "", c.fail(v, "map store of a pointer that is not fresh")
		}
		c.tr.assume["a *Router is its key in LANRouters: an entry is stored under one key only ("+nodeText(v)+")"] = true
		out := c.flush(ind) + ind + "let g ← mapSet g " + key + " " + rv.fresh + "\n" + ind + "let " + rv.lean + " := " + key + "\n"
		rv.fresh = ""
		r, err := next(c, ind)
		return out + r, err
	}
	if sel, ok := lhs.(*ast.SelectorExpr); ok {
		// ---- handler fields
		if c.isHandler(sel.X) {
			x, _, err := c.expr(rhs)
			if err != nil {
				return "", err
			}
			var line string
			switch sel.Sel.Name {
			case "closed":
				line = "let g := setClosed g " + x
			case "Router":
				line = "let g := setDefRouter g " + x
			default:
				return "", c.fail(v, "store to a handler field")
			}
			out := c.flush(ind) + ind + line + "\n"
			r, err := next(c, ind)
			return out + r, err
		}
		// ---- router.F = e   /   addr.IP = e
		if id, ok := sel.X.(*ast.Ident); ok {
			if lv, ok := c.vars[info.ObjectOf(id)]; ok {
				x, _, err := c.expr(rhs)
				if err != nil {
					return "", err
				}
				f := i6Lower(sel.Sel.Name)
				var line string
				switch lv.k {
				case i6RPtr:
					line = fmt.Sprintf("let g := updRouter g %s (fun r => { r with %s := %s })", lv.lean, f, x)
				case i6Addr:
					line = fmt.Sprintf("let %s := { %s with %s := %s }", lv.lean, lv.lean, f, x)
				default:
					return "", c.fail(v, "field store")
				}
				out := c.flush(ind) + ind + line + "\n"
				r, err := next(c, ind)
				return out + r, err
			}
		}
		return "", c.fail(v, "field store")
	}
	id, ok := lhs.(*ast.Ident)
	if !ok {
		return "", c.fail(v, "assignment target")
	}
	k, kok := i6Kind(info.TypeOf(lhs))
	if kok && k == i6Log || c.isLogExpr(rhs) {
		c.tr.ignore(c.f, "log / timer / channel variable", v)
		return next(c, ind)
	}
	// ---- router = &Router{...}
	if u, ok := rhs.(*ast.UnaryExpr); ok && u.Op == token.AND {
		if lit, ok := u.X.(*ast.CompositeLit); ok {
			x, kk, err := c.composite(lit)
			if err != nil {
				return "", err
			}
			if kk != i6RVal {
				return "", c.fail(v, "address of a literal")
			}
			nv := c.bindVar(id, i6RPtr, id.Name)
			nv.fresh = id.Name + "_v"
			out := c.flush(ind) + ind + "let " + nv.fresh + " : GRouter := " + x + "\n"
			r, err := next(c, ind)
			return out + r, err
		}
	}
	// ---- list = append(list, e)
	if call, ok := rhs.(*ast.CallExpr); ok {
		if f, ok := call.Fun.(*ast.Ident); ok && f.Name == "append" && len(call.Args) == 2 && nodeText(call.Args[0]) == id.Name {
			x, _, err := c.expr(call.Args[1])
			if err != nil {
				return "", err
			}
			out := c.flush(ind) + ind + fmt.Sprintf("let %s := %s ++ [%s]\n", id.Name, id.Name, x)
			r, err := next(c, ind)
			return out + r, err
		}
	}
	x, ek, err := c.expr(rhs)
	if err != nil {
		return "", err
	}
	if !kok {
		k = ek
	}
	if k == i6ROpt && ek == i6RPtr {
		k = i6RPtr
	}
	if ek == i6Nat && k == i6Int || k == i6U8 {
		x = "(" + x + " : " + i6LeanType(k) + ")"
	}
	if k == i6Nat || k == i6Bool || k == i6Bytes || k == i6OptBytes || k == i6Err {
		k = ek
	}
	c.bindVar(id, k, id.Name)
	out := c.flush(ind) + ind + "let " + id.Name + " := " + x + "\n"
	r, err := next(c, ind)
	return out + r, err
}

func (c *i6ctx) ifStmt(v *ast.IfStmt, ind string, next i6kont) (string, error) {
	// logging only
	if v.Else == nil && c.onlyIgnorable(v.Body.List) {
		pure := v.Init == nil
		if pure {
			probe := c.clone()
			_, _, err := probe.expr(v.Cond)
			pure = (err == nil && len(probe.pre) == 0) || c.isLogExpr(v.Cond) || strings.HasPrefix(nodeText(v.Cond), "Logger6.Is")
		}
		if pure {
			c.tr.ignore(c.f, "log", v)
			return next(c, ind)
		}
	}
	if v.Init != nil {
		// `if init; cond {..}`: the variables of init are scoped to the if; none of ours is used after it
		return c.stmts([]ast.Stmt{v.Init, &ast.IfStmt{If: v.Cond.Pos(), Cond: v.Cond, Body: v.Body, Else: v.Else}}, ind, next)
	}
	// statically decided (comma-ok flag, error of a matched call, pointer of a matched lookup)
	static := i6Unknown
	test := v.Cond
	neg := false
	if u, ok := test.(*ast.UnaryExpr); ok && u.Op == token.NOT {
		test, neg = u.X, true
	}
	if b, ok := test.(*ast.BinaryExpr); ok && isNil(b.Y) && (b.Op == token.NEQ || b.Op == token.EQL) {
		test = b.X
		if b.Op == token.EQL {
			neg = !neg
		}
	}
	if id, ok := test.(*ast.Ident); ok {
		if lv, ok := c.vars[c.f.info.ObjectOf(id)]; ok && lv.st != i6Unknown {
			static = lv.st
			if neg {
				static = i6Nil + i6NonNil - static
			}
		}
	}
	elseList := func() []ast.Stmt {
		switch e := v.Else.(type) {
		case *ast.BlockStmt:
			return e.List
		case nil:
			return nil
		default:
			return []ast.Stmt{e}
		}
	}
	switch static {
	case i6NonNil:
		return c.stmts(v.Body.List, ind, next)
	case i6Nil:
		return c.stmts(elseList(), ind, next)
	}
	cond, _, err := c.expr(v.Cond)
	if err != nil {
		return "", err
	}
	out := c.flush(ind)
	// an `if` without else whose body neither returns nor breaks: a join point, what follows is not duplicated
	if v.Else == nil && !i6Escapes(v.Body) {
		var w []string
		seen := map[string]bool{}
		ast.Inspect(v.Body, func(n ast.Node) bool {
			if a, ok := n.(*ast.AssignStmt); ok && a.Tok == token.ASSIGN && len(a.Lhs) == 1 {
				var id *ast.Ident
				switch l := a.Lhs[0].(type) {
				case *ast.Ident:
					id = l
				case *ast.SelectorExpr:
					id, _ = l.X.(*ast.Ident)
				}
				if id != nil {
					if lv, ok := c.vars[c.f.info.ObjectOf(id)]; ok && (lv.k != i6RPtr) && !seen[lv.lean] && !c.isHandler(id) {
						seen[lv.lean] = true
						w = append(w, lv.lean)
					}
				}
			}
			return true
		})
		bc := c.clone()
		body, err := bc.stmts(v.Body.List, ind+"  ", func(c *i6ctx, ind string) (string, error) { return ind + "@JOIN@\n", nil })
		if err != nil {
			return "", err
		}
		if strings.Contains(body, "let g ") || strings.Contains(body, "let (g") {
			w = append([]string{"g"}, w...)
		}
		if len(w) > 0 {
			tup := w[0]
			if len(w) > 1 {
				tup = "(" + strings.Join(w, ", ") + ")"
			}
			body = strings.ReplaceAll(body, "@JOIN@", ".ok "+tup)
			pureBody := !strings.Contains(body, "←")
			lines := strings.Split(strings.TrimSpace(body), "\n")
			if pureBody && len(w) == 1 && len(lines) == 2 && strings.HasPrefix(strings.TrimSpace(lines[0]), "let "+w[0]+" := ") {
				val := strings.TrimPrefix(strings.TrimSpace(lines[0]), "let "+w[0]+" := ")
				out += ind + "let " + w[0] + " := if " + cond + " then " + val + " else " + w[0] + "\n"
			} else {
				out += ind + "let " + tup + " ← (if " + cond + " then do\n" + body + ind + "else .ok " + tup + ")\n"
			}
			r, err := next(c, ind)
			return out + r, err
		}
	}
	a, err := c.clone().stmts(v.Body.List, ind+"  ", next)
	if err != nil {
		return "", err
	}
	b, err := c.clone().stmts(elseList(), ind+"  ", next)
	if err != nil {
		return "", err
	}
	return out + ind + "if " + cond + " then do\n" + a + ind + "else do\n" + b, nil
}

func (c *i6ctx) switchStmt(v *ast.SwitchStmt, ind string, next i6kont) (string, error) {
	if v.Init != nil || v.Tag == nil {
		return "", c.fail(v, "switch form")
	}
	tag, _, err := c.expr(v.Tag)
	if err != nil {
		return "", err
	}
	out := c.flush(ind)
	var def *ast.CaseClause
	first := true
	for _, cl := range v.Body.List {
		cc := cl.(*ast.CaseClause)
		if cc.List == nil {
			def = cc
			continue
		}
		var conds []string
		for _, e := range cc.List {
			s, _, err := c.expr(e)
			if err != nil {
				return "", err
			}
			conds = append(conds, tag+" == "+s)
		}
		cx := c.clone()
		cx.brk = next
		body, err := cx.stmts(cc.Body, ind+"  ", next)
		if err != nil {
			return "", err
		}
		kw := "else if "
		if first {
			kw = "if "
			first = false
		}
		out += ind + kw + strings.Join(conds, " || ") + " then do\n" + body
	}
	cx := c.clone()
	cx.brk = next
	var dl []ast.Stmt
	if def != nil {
		dl = def.Body
	}
	body, err := cx.stmts(dl, ind+"  ", next)
	if err != nil {
		return "", err
	}
	return out + ind + "else do\n" + body, nil
}

func (c *i6ctx) rangeStmt(v *ast.RangeStmt, ind string, next i6kont) (string, error) {
	val, ok := v.Value.(*ast.Ident)
	if !ok || (v.Key != nil && nodeText(v.Key) != "_") {
		return "", c.fail(v, "range form")
	}
	var coll string
	var ek i6k
	if strings.HasSuffix(nodeText(v.X), ".LANRouters") {
		coll, ek = "(routerVals g)", i6RVal
		c.tr.assume["`range h.LANRouters` visits the entries in the order of the model's list (Go: unspecified order)"] = true
	} else {
		s, k, err := c.expr(v.X)
		if err != nil {
			return "", err
		}
		if k != i6AddrList {
			return "", c.fail(v, "ranged expression")
		}
		coll, ek = s, i6Addr
	}
	// the outer locals the body assigns
	var carried []string
	seen := map[string]bool{}
	ast.Inspect(v.Body, func(n ast.Node) bool {
		var id *ast.Ident
		switch s := n.(type) {
		case *ast.AssignStmt:
			if s.Tok == token.ASSIGN && len(s.Lhs) == 1 {
				id, _ = s.Lhs[0].(*ast.Ident)
			}
		case *ast.IncDecStmt:
			id, _ = s.X.(*ast.Ident)
		}
		if id != nil {
			if lv, ok := c.vars[c.f.info.ObjectOf(id)]; ok && !seen[lv.lean] {
				seen[lv.lean] = true
				carried = append(carried, lv.lean)
			}
		}
		return true
	})
	tup := "(" + strings.Join(append([]string{"g"}, carried...), ", ") + ")"
	bc := c.clone()
	bc.loop = true
	bc.bindVar(val, ek, val.Name)
	body, err := bc.stmts(v.Body.List, ind+"    ", func(c *i6ctx, ind string) (string, error) { return ind + ".ok " + tup + "\n", nil })
	if err != nil {
		return "", err
	}
	out := c.flush(ind) + ind + "let " + tup + " ← forEach " + coll + " " + tup + " (fun st_ " + val.Name + " => do\n" + ind + "    let " + tup + " := st_\n" + body + ind + "  )\n"
	r, err := next(c, ind)
	return out + r, err
}

func i6Escapes(b *ast.BlockStmt) bool {
	esc := false
	ast.Inspect(b, func(n ast.Node) bool {
		switch n.(type) {
		case *ast.ReturnStmt, *ast.BranchStmt:
			esc = true
		}
		return true
	})
	return esc
}

// ---------------------------------------------------------------- driver

func (x *i6tr) translate(f *i6fn) {
	c := &i6ctx{tr: x, f: f, vars: map[types.Object]*i6var{}}
	x.tmp = 0
	params := []string{"(e : H6Env)", "(g : G6)"}
	for _, fl := range f.fd.Type.Params.List {
		k, ok := i6Kind(f.info.TypeOf(fl.Type))
		if !ok {
			f.err = "parameter of type " + f.info.TypeOf(fl.Type).String()
			return
		}
		for _, n := range fl.Names {
			if k == i6Frame {
				params = append(params, "(fr : Frame)", "(p : Bytes)")
				c.bindVar(n, k, "fr")
				continue
			}
			c.bindVar(n, k, n.Name)
			params = append(params, fmt.Sprintf("(%s : %s)", n.Name, i6LeanType(k)))
		}
	}
	var rts []string
	if f.fd.Type.Results != nil {
		for _, fl := range f.fd.Type.Results.List {
			k, ok := i6Kind(f.info.TypeOf(fl.Type))
			if !ok {
				f.err = "result of type " + f.info.TypeOf(fl.Type).String()
				return
			}
			if k == i6ROpt {
				k = i6RPtr
			}
			n := len(fl.Names)
			if n == 0 {
				n = 1
			}
			for i := 0; i < n; i++ {
				f.resK = append(f.resK, k)
				rts = append(rts, i6LeanType(k))
			}
		}
	}
	body := f.fd.Body.List
	end := func(c *i6ctx, ind string) (string, error) {
		if len(f.resK) == 0 {
			return ind + ".ok (g, ())\n", nil
		}
		return "", fmt.Errorf("control reaches the end of a function with results")
	}
	if f.isPre || f.isIter {
		var pre []ast.Stmt
		var loop *ast.ForStmt
		for _, s := range body {
			if fs, ok := s.(*ast.ForStmt); ok && fs.Cond == nil && fs.Init == nil {
				loop = fs
				break
			}
			pre = append(pre, s)
		}
		if loop == nil {
			f.err = "no `for { }` loop"
			return
		}
		// run the prologue in both cases: it binds the locals (its ignored statements are listed once, under _pre)
		nIgn := len(x.ignored)
		ptxt, err := c.stmts(pre, "  ", func(c *i6ctx, ind string) (string, error) { return ind + ".ok (g, dstAddr, nTimes)\n", nil })
		if f.isIter {
			x.ignored = x.ignored[:nIgn]
		}
		if err != nil {
			f.err = err.Error()
			return
		}
		if f.isPre {
			f.sig = strings.Join(params, " ") + " : Outcome (G6 × GAddr × Int)"
			f.body = ptxt
			return
		}
		params = append(params, "(nTimes : Int)")
		f.sig = strings.Join(params, " ") + " : Outcome (G6 × Int × Bool)"
		c.pre = nil
		txt, err := c.stmts(loop.Body.List, "  ", func(c *i6ctx, ind string) (string, error) { return ind + ".ok (g, nTimes, true)\n", nil })
		if err != nil {
			f.err = err.Error()
			return
		}
		f.body = txt
		return
	}
	ret := "Unit"
	if len(rts) > 0 {
		ret = strings.Join(rts, " × ")
	}
	f.sig = strings.Join(params, " ") + " : Outcome (G6 × " + ret + ")"
	txt, err := c.stmts(body, "  ", end)
	if err != nil {
		f.err = err.Error()
		return
	}
	f.body = txt
}

func icmp6Facts(pkgs []*packages.Package, b *strings.Builder) {
	x := &i6tr{fns: map[string]*i6fn{}, ignoredAt: map[string]bool{}, callees: map[string]bool{}, assume: map[string]bool{}}
	find := func(suffix, recv, name string) (*packages.Package, *ast.FuncDecl) {
		for _, p := range pkgs {
			if p.PkgPath != strings.TrimSuffix("github.com/irai/packet/"+suffix, "/") {
				continue
			}
			for _, file := range p.Syntax {
				for _, d := range file.Decls {
					fd, ok := d.(*ast.FuncDecl)
					if !ok || fd.Name.Name != name || fd.Body == nil {
						continue
					}
					r := ""
					if fd.Recv != nil && len(fd.Recv.List) == 1 {
						r = strings.TrimPrefix(nodeText(fd.Recv.List[0].Type), "*")
					}
					if r == recv {
						return p, fd
					}
				}
			}
		}
		return nil, nil
	}
	var missing []string
	for _, t := range i6Targets {
		p, fd := find(t[0], t[1], t[2])
		if fd == nil {
			missing = append(missing, t[1]+"."+t[2])
			continue
		}
		names := []string{t[1] + "_" + t[2]}
		if t[2] == "spoofLoop" {
			names = []string{t[1] + "_spoofLoop_pre", t[1] + "_spoofLoop_iter"}
		}
		for i, n := range names {
			f := &i6fn{key: t[1] + "." + t[2], fd: fd, info: p.TypesInfo, lean: n}
			if t[2] == "spoofLoop" {
				f.isPre, f.isIter = i == 0, i == 1
			}
			x.order = append(x.order, f)
			x.translate(f)
		}
	}
	b.WriteString("/- GENERATED by /verif/tools/goextract (icmp6h.go) from the Go sources in /repo — do not edit. -/\nimport PacketVerif.Model.Icmp6Go\nset_option linter.unusedVariables false\nnamespace PV.Gen.Icmp6\nopen PV PV.Model PV.Model.Ndp PV.Model.Handlers PV.Model.Icmp6Hunt PV.Model.Icmp6Go\n\n")
	var done []string
	var refused []string
	for _, m := range missing {
		refused = append(refused, m+": function not found")
	}
	for _, f := range x.order {
		if f.err != "" {
			refused = append(refused, f.lean+": "+f.err)
			continue
		}
		done = append(done, f.lean)
		pos := fset.Position(f.fd.Pos())
		fn := pos.Filename[strings.LastIndex(pos.Filename, "/")+1:]
		fmt.Fprintf(b, "/-- Go: func %s (%s) -/\ndef %s %s := do\n%s\n", f.key, fn, f.lean, f.sig, f.body)
	}
	fmt.Fprintf(b, "def icmp6Translated : List String := %s\n\n", leanStrList(done))
	fmt.Fprintf(b, "/-- functions the translator could not express, with the first offending construct -/\ndef icmp6Untranslated : List String := %s\n\n", leanStrList(refused))
	fmt.Fprintf(b, "/-- statements without a model counterpart (locks, logging, timers, the pooled buffer), in source order per function -/\ndef icmp6Ignored : List String := %s\n\n", leanStrList(x.ignored))
	fmt.Fprintf(b, "/-- Go callees replaced by their dictionary / model function -/\ndef icmp6Callees : List String := %s\n\n", leanStrList(sortedKeys(x.callees)))
	fmt.Fprintf(b, "/-- assumptions under which the translation is exact -/\ndef icmp6Assumptions : List String := %s\n\n", leanStrList(sortedKeys(x.assume)))
	b.WriteString("end PV.Gen.Icmp6\n")
}
