package main

import (
	"fmt"
	"go/ast"
	"go/token"
	"go/types"
	"sort"
	"strings"

	"golang.org/x/tools/go/packages"
)

// Lockset facts (F6, the race half of C09).  For every read and write of a field of the shared records
// (trackedRecords below) the extractor emits the set of lock classes DEFINITELY held at that program
// point, with the holding mode (exclusive = Lock, shared = RLock):
//
//   - intra-procedural must-hold analysis over the function body: Lock/RLock add, Unlock/RUnlock remove,
//     `defer x.Unlock()` keeps the lock to the end; at joins (if/switch/select/loops, break/continue) the
//     INTERSECTION of the incoming sets is taken (a lock held shared on one path and exclusively on the
//     other counts as shared); loops are iterated to a fixed point;
//   - inter-procedural: an exported function, a function whose value escapes (method value, callback) and
//     the body of a `go` statement or of a function literal start with the EMPTY set; an unexported
//     function starts with the intersection, over all its static call sites in the module, of the set held
//     at the call (fixed point over the call graph; `go f()` contributes the empty set).  Calls through an
//     interface declared in the module go to every module method that implements it; passing a module
//     type to an interface-typed parameter of a function outside the analysed packages (fmt.*, fastlog.*)
//     counts as a call of the methods of that interface (String/Error/Format/GoString for `any`) made
//     while the call runs;
//   - writes: assignment/inc-dec/op-assign to the field, to an element of a map/slice/array held in the
//     field (x.F[i] = v, x.F[i].g = v for value elements, delete(x.F,k), copy(x.F[..],…)), address-of
//     (&x.F, conservatively a write) and pointer-receiver method calls on a field value; everything else
//     is a read; a dereference/value-receiver call copies the whole record (= read of every field);
//     arguments of sync/atomic functions are recorded as holding the pseudo lock "sync/atomic" exclusively;
//   - pre-publication accesses are recognised structurally and emitted separately (freshAccesses): the keys
//     of a composite literal, and accesses v.f… (through value fields only) to a local v whose dominating
//     definition is `&T{…}`/`new(T)`/`T{…}` in the same function, up to the first place where v is used in
//     any other way (passed, stored, returned, captured by a closure, method receiver, aliased).
//
// Lock classes are (struct type, mutex field): all instances of a class are merged (see trusted base).

type trackedSpec struct {
	pkg, typ string
	fields   []string // nil: every field
	exclude  []string
}

const modPath = "github.com/irai/packet"

var trackedRecords = []trackedSpec{
	{modPath, "Host", nil, nil},
	{modPath, "MACEntry", nil, []string{"Row"}},
	{modPath, "HostTable", nil, nil},
	{modPath, "MACTable", nil, nil},
	{modPath, "Session", nil, []string{"mutex"}},
	{modPath, "icmpEntry", nil, nil},
	{modPath + "/handlers/arp_spoofer", "Handler", nil, []string{"arpMutex"}},
	{modPath + "/handlers/icmp_spoofer", "Handler6", nil, []string{"Mutex"}},
	{modPath + "/handlers/dhcp4_spoofer", "Handler", nil, []string{"Mutex"}},
	{modPath + "/handlers/dhcp4_spoofer", "Lease", nil, nil},
	{modPath + "/handlers/dns_naming", "DNSHandler", nil, []string{"mutex"}},
}

// Exported methods of the shared records whose documented contract (hosttable.go: "Host has a RWMutex used to
// sync access to the record. This must be read locked to access fields …") puts the locking on the caller.
// Assume/guarantee: the method body is analysed with that lock held shared at entry; every in-module call
// site (direct, or implied by passing the record to fmt/fastlog) is emitted as an obligation in
// Gen.contractCalls, which the tie checks.  Emitted as Gen.callerLocked and pinned by the tie theorem.
var callerLocked = [][2]string{
	{"packet.Host.Dirty", "packet.MACEntry.Row"},
	{"packet.Host.FastLog", "packet.MACEntry.Row"},
	{"packet.Host.String", "packet.MACEntry.Row"},
	{"packet.MACEntry.FastLog", "packet.MACEntry.Row"},
	{"packet.MACEntry.String", "packet.MACEntry.Row"},
}

// package-level variables of anonymous struct type whose fields are tracked
var trackedVars = [][2]string{{modPath, "icmpTable"}}

// ---------------------------------------------------------------- lock sets

type lset struct {
	top  bool              // "all locks": identity of meet (not yet reached)
	m    map[string]bool   // class → held exclusively
	inst map[string]string // class → instance key of the lock expression, when acquired in this function on every path ("" otherwise)
	sec  map[string]int    // class → 1-based index into lsFunc.secs of the critical section (acquisition site) that holds it; 0/absent: inherited from the caller or different on different paths (atomic.go)
}

func (a lset) clone() lset {
	c := lset{top: a.top, m: map[string]bool{}, inst: map[string]string{}, sec: map[string]int{}}
	for k, v := range a.m {
		c.m[k] = v
	}
	for k, v := range a.inst {
		c.inst[k] = v
	}
	for k, v := range a.sec {
		c.sec[k] = v
	}
	return c
}

func meet(a, b lset) lset {
	if a.top {
		return b.clone()
	}
	if b.top {
		return a.clone()
	}
	c := lset{m: map[string]bool{}, inst: map[string]string{}, sec: map[string]int{}}
	for k, v := range a.m {
		if w, ok := b.m[k]; ok {
			c.m[k] = v && w
			if a.inst[k] != "" && a.inst[k] == b.inst[k] {
				c.inst[k] = a.inst[k]
			}
			if a.sec[k] != 0 && a.sec[k] == b.sec[k] {
				c.sec[k] = a.sec[k]
			}
		}
	}
	return c
}

func (a lset) equal(b lset) bool {
	if a.top != b.top || len(a.m) != len(b.m) {
		return false
	}
	for k, v := range a.m {
		if w, ok := b.m[k]; !ok || v != w {
			return false
		}
	}
	return true
}

func (a lset) String() string {
	if a.top {
		return "[(\"*unreached*\", true)]"
	}
	var ks []string
	for k := range a.m {
		ks = append(ks, k)
	}
	sort.Strings(ks)
	var out []string
	for _, k := range ks {
		out = append(out, fmt.Sprintf("(%q, %v)", k, a.m[k]))
	}
	return "[" + strings.Join(out, ", ") + "]"
}

// ---------------------------------------------------------------- analysis state

type lsAccess struct {
	field string
	write bool
	held  lset
	pos   token.Pos
	fresh bool
	ctor  bool // object allocated in this function, so far only used as method receiver (constructor context)
	seq   int  // position in the walk order of the function (atomic.go)
}

type lsCall struct {
	callee string
	held   lset
	isGo   bool // `go f()`: the callee runs on a goroutine of its own
	ctor   bool // receiver is an object under construction in the caller: not a constraint on the callee's entry set
	site   string
	seq    int  // position in the walk order of the function (atomic.go)
	dfr    bool // deferred call
}

type lsFunc struct {
	key      string
	name     string // display name
	pkg      *packages.Package
	body     *ast.BlockStmt
	recvVar  *types.Var
	decl     ast.Node
	root     string // "" or the root name this function contributes itself (exported / escaped / go / cb)
	entry    lset
	roots    map[string]bool
	accesses []lsAccess
	calls    []lsCall
	fresh    *freshInfo
	ctorOnly bool    // reached only through constructor call sites
	contract string  // caller-locked method: the lock class its callers must hold (shared)
	parent   *lsFunc // for function literals
	litKind  string  // go / defer / cb
	seq      int          // walk-order counter (atomic.go)
	secs     []*lsSection // critical sections opened in this function, in walk order (atomic.go)
	exts     []lsExt      // effects that leave the module: connection / file calls, channel operations (atomic.go)
	secNotes []string     // lock operations the section analysis cannot classify (atomic.go)
}

type lsAnalysis struct {
	funcs         map[string]*lsFunc
	order         []string
	lits          map[*ast.FuncLit]*lsFunc
	tracked       map[*types.Var]string // field object → "pkg.Type.field"
	recFlds       map[string][]string   // record type name (types.Type string) → its tracked field names
	recOf         map[*types.TypeName]string
	unknown       map[string]bool
	otherRow      map[string]map[string]bool // function|field → sites where the row lock held was taken on another expression
	aliases       map[string]bool
	methodsByName map[string][]*lsFunc
	inModule      map[string]bool
}

func site(p token.Pos) string {
	pos := fset.Position(p)
	return fmt.Sprintf("%s:%d", short(pos.Filename), pos.Line)
}

func displayKey(k string) string {
	// github.com/irai/packet/handlers/arp_spoofer.Handler.spoofLoop → arp_spoofer.Handler.spoofLoop
	if i := strings.LastIndex(k, "/"); i >= 0 {
		return k[i+1:]
	}
	return k
}

// ---------------------------------------------------------------- walker

type jumpCtx struct {
	isLoop    bool
	label     string
	breaks    []lset
	continues []lset
}

type lsWalker struct {
	an           *lsAnalysis
	fn           *lsFunc
	info         *types.Info
	cur          lset
	dead         bool
	ctx          []*jumpCtx
	pendingLabel string
	loopDepth    int
}

func (w *lsWalker) typeOf(e ast.Expr) types.Type {
	if tv, ok := w.info.Types[e]; ok {
		return tv.Type
	}
	if id, ok := e.(*ast.Ident); ok {
		if o := w.info.Uses[id]; o != nil {
			return o.Type()
		}
	}
	return nil
}

func isPointer(t types.Type) bool {
	if t == nil {
		return false
	}
	_, ok := t.Underlying().(*types.Pointer)
	return ok
}

// recordName returns the tracked record name if t is (a pointer to) a tracked record struct
func (an *lsAnalysis) recordName(t types.Type) (string, bool) {
	if t == nil {
		return "", false
	}
	if p, ok := t.Underlying().(*types.Pointer); ok {
		t = p.Elem()
	}
	if n, ok := t.(*types.Named); ok {
		if r, ok := an.recOf[n.Obj()]; ok {
			return r, true
		}
	}
	return "", false
}

// lockBase strips the mutex field from a lock expression: host.MACEntry.Row → host.MACEntry; h (embedded mutex) → h
func lockBase(e ast.Expr) ast.Expr {
	if se, ok := e.(*ast.SelectorExpr); ok {
		return se.X
	}
	return e
}

// instKey names the object an expression denotes, as (variable identity).(field path); "" when it is not a plain path
func (w *lsWalker) instKey(e ast.Expr) string {
	switch x := e.(type) {
	case *ast.ParenExpr:
		return w.instKey(x.X)
	case *ast.Ident:
		if o := w.info.Uses[x]; o != nil {
			return fmt.Sprintf("%p", o)
		}
	case *ast.SelectorExpr:
		if sel, ok := w.info.Selections[x]; ok && sel.Kind() == types.FieldVal {
			if b := w.instKey(x.X); b != "" {
				return b + "." + x.Sel.Name
			}
		}
	}
	return ""
}

// ownerLock: the lock instance that guards a record, as a path from the record expression
var ownerLock = map[string][2]string{
	"packet.Host":     {"packet.MACEntry.Row", ".MACEntry"},
	"packet.MACEntry": {"packet.MACEntry.Row", ""},
}

// instanceCheck: the row lock was taken in this function on an expression that is not the accessed record's row
func (w *lsWalker) instanceCheck(field string, x *ast.SelectorExpr) {
	i := strings.LastIndex(field, ".")
	ol, ok := ownerLock[field[:i]]
	if !ok || w.dead {
		return
	}
	got := w.cur.inst[ol[0]]
	if got == "" {
		return // not held, or inherited from the caller / different on different paths
	}
	want := w.instKey(x.X)
	if want != "" {
		want += ol[1]
	}
	if want != got {
		k := w.fn.name + "|" + field
		if w.an.otherRow[k] == nil {
			w.an.otherRow[k] = map[string]bool{}
		}
		w.an.otherRow[k][site(x.Pos())] = true
	}
}

func (w *lsWalker) record(field string, write bool, pos token.Pos, fresh bool, atomic bool) {
	if w.dead {
		return
	}
	h := w.cur.clone()
	if atomic {
		h.m["sync/atomic"] = true
	}
	w.fn.seq++
	w.fn.accesses = append(w.fn.accesses, lsAccess{field: field, write: write, held: h, pos: pos, fresh: fresh, seq: w.fn.seq})
}

func (w *lsWalker) readAll(rec string, pos token.Pos) {
	for _, f := range w.an.recFlds[rec] {
		w.record(rec+"."+f, false, pos, false, false)
	}
}

const (
	mRead = iota
	mWrite
	mElemWrite
	mAddr
	mAtomic
)

func (w *lsWalker) expr(e ast.Expr, mode int) {
	switch x := e.(type) {
	case nil:
	case *ast.Ident, *ast.BasicLit:
	case *ast.ParenExpr:
		w.expr(x.X, mode)
	case *ast.SelectorExpr:
		sel, ok := w.info.Selections[x]
		if !ok { // qualified identifier pkg.Name
			return
		}
		if sel.Kind() != types.FieldVal {
			w.expr(x.X, mRead)
			return
		}
		baseMode := mRead
		if (mode == mWrite || mode == mAddr) && !isPointer(w.typeOf(x.X)) {
			baseMode = mode // writing a part of a struct value writes the enclosing variable
		}
		w.expr(x.X, baseMode)
		if fv, ok := sel.Obj().(*types.Var); ok {
			if name, ok := w.an.tracked[fv]; ok {
				if w.fn.fresh.isPrivate(w, x) {
					return // field of a local struct VALUE (a copy) whose address is never taken
				}
				if mode == mAddr && !isPointer(fv.Type()) {
					if _, ok := w.an.recordName(fv.Type()); ok {
						mode = mRead // &x.F of a field that is itself a tracked record: its fields are tracked through the pointer
					}
				}
				fresh := w.fn.fresh.isFresh(w, x, false)
				w.record(name, mode != mRead, x.Pos(), fresh, mode == mAtomic)
				if !fresh {
					w.instanceCheck(name, x)
				}
				if !fresh && !w.dead && w.fn.fresh.isFresh(w, x, true) {
					w.fn.accesses[len(w.fn.accesses)-1].ctor = true
				}
			}
		}
	case *ast.IndexExpr:
		t := w.typeOf(x.X)
		if t != nil {
			switch t.Underlying().(type) {
			case *types.Slice, *types.Map, *types.Pointer:
				if mode == mWrite || mode == mElemWrite || mode == mAddr {
					w.expr(x.X, mElemWrite)
				} else {
					w.expr(x.X, mRead)
				}
			case *types.Array:
				if mode == mElemWrite {
					mode = mWrite
				}
				if mode == mAtomic {
					mode = mWrite
				}
				w.expr(x.X, mode)
			default:
				w.expr(x.X, mRead) // generic instantiation / string index
			}
		}
		w.expr(x.Index, mRead)
	case *ast.IndexListExpr:
		w.expr(x.X, mRead)
	case *ast.SliceExpr:
		if mode == mElemWrite {
			w.expr(x.X, mElemWrite)
		} else {
			w.expr(x.X, mRead)
		}
		w.expr(x.Low, mRead)
		w.expr(x.High, mRead)
		w.expr(x.Max, mRead)
	case *ast.StarExpr:
		if rec, ok := w.an.recordName(w.typeOf(x.X)); ok && isPointer(w.typeOf(x.X)) {
			if mode == mRead {
				w.readAll(rec, x.Pos())
			} else {
				w.an.unknown[fmt.Sprintf("%s: whole-record write through *p of %s", site(x.Pos()), rec)] = true
			}
		}
		w.expr(x.X, mRead)
	case *ast.UnaryExpr:
		if x.Op == token.AND {
			if _, ok := x.X.(*ast.CompositeLit); ok {
				w.expr(x.X, mRead)
				return
			}
			if mode == mAtomic {
				w.expr(x.X, mAtomic)
			} else {
				w.expr(x.X, mAddr)
			}
			return
		}
		w.expr(x.X, mRead)
		if x.Op == token.ARROW {
			w.ext("chan recv", x.Pos())
		}
	case *ast.BinaryExpr:
		w.expr(x.X, mRead)
		w.expr(x.Y, mRead)
	case *ast.KeyValueExpr:
		w.expr(x.Key, mRead)
		w.expr(x.Value, mRead)
	case *ast.TypeAssertExpr:
		w.expr(x.X, mRead)
	case *ast.CompositeLit:
		t := w.typeOf(x)
		isStruct := false
		if t != nil {
			u := t.Underlying()
			if p, ok := u.(*types.Pointer); ok {
				u = p.Elem().Underlying()
			}
			_, isStruct = u.(*types.Struct)
		}
		for _, el := range x.Elts {
			if kv, ok := el.(*ast.KeyValueExpr); ok {
				if isStruct {
					if id, ok := kv.Key.(*ast.Ident); ok {
						if fv, ok := w.info.Uses[id].(*types.Var); ok {
							if name, ok := w.an.tracked[fv]; ok {
								w.record(name, true, id.Pos(), true, false)
							}
						}
					}
				} else {
					w.expr(kv.Key, mRead)
				}
				w.expr(kv.Value, mRead)
			} else {
				w.expr(el, mRead)
			}
		}
	case *ast.FuncLit:
		// analysed as a function of its own (empty entry set)
	case *ast.CallExpr:
		w.call(x, "")
	case *ast.ArrayType, *ast.MapType, *ast.ChanType, *ast.FuncType, *ast.StructType, *ast.InterfaceType, *ast.Ellipsis:
	default:
		w.an.unknown[fmt.Sprintf("%s: expression %T", site(e.Pos()), e)] = true
	}
}

// addCall records a call site; `go f()` and `defer f()` contribute the empty set (a deferred call runs at
// return, when the explicitly released locks are gone)
func (w *lsWalker) addCall(callee string, empty bool, isGo bool, pos token.Pos) {
	if w.dead {
		return
	}
	h := w.cur.clone()
	if empty {
		h = lset{m: map[string]bool{}}
		if !isGo {
			h.sec = w.cur.clone().sec // a deferred call still runs inside the sections that are released by defer (atomic.go looks at this only)
		}
	}
	w.fn.seq++
	w.fn.calls = append(w.fn.calls, lsCall{callee: callee, held: h, isGo: isGo, site: site(pos), seq: w.fn.seq, dfr: empty && !isGo})
}

var fmtMethods = []string{"Error", "Format", "GoString", "String"}

// ifaceArgCalls: arg of module type T passed as interface-typed parameter of an external function →
// the external function may call T's methods of that interface while it runs.
func (w *lsWalker) ifaceArgCalls(paramT types.Type, arg ast.Expr) {
	it, ok := paramT.Underlying().(*types.Interface)
	if !ok {
		return
	}
	at := w.typeOf(arg)
	if at == nil {
		return
	}
	if _, isIface := at.Underlying().(*types.Interface); isIface {
		return
	}
	var names []string
	if it.NumMethods() == 0 {
		names = fmtMethods
	} else {
		for i := 0; i < it.NumMethods(); i++ {
			names = append(names, it.Method(i).Name())
		}
	}
	ms := types.NewMethodSet(at)
	for _, n := range names {
		for i := 0; i < ms.Len(); i++ {
			if ms.At(i).Obj().Name() == n {
				k := funcKey(ms.At(i).Obj())
				if _, ok := w.an.funcs[k]; ok {
					// implicit dereference for a value receiver reached through a pointer
					if rec, ok := w.an.recordName(at); ok {
						if f, ok := ms.At(i).Obj().(*types.Func); ok {
							if r := f.Type().(*types.Signature).Recv(); r != nil && !isPointer(r.Type()) {
								w.readAll(rec, arg.Pos())
							}
						}
					}
					w.addCall(k, false, false, arg.Pos())
				}
			}
		}
	}
}

func (w *lsWalker) call(c *ast.CallExpr, kind string) {
	goStmt := kind == "go"
	deferred := kind == "defer"
	// conversion
	if tv, ok := w.info.Types[c.Fun]; ok && tv.IsType() {
		for _, a := range c.Args {
			w.expr(a, mRead)
		}
		return
	}
	var obj types.Object
	switch f := c.Fun.(type) {
	case *ast.Ident:
		obj = w.info.Uses[f]
	case *ast.SelectorExpr:
		obj = w.info.Uses[f.Sel]
	case *ast.ParenExpr:
		w.expr(f.X, mRead)
	case *ast.FuncLit:
		// immediately invoked literal: separate function with the empty set (registered in the pre-pass)
	default:
		w.expr(c.Fun, mRead)
	}
	// builtins
	if b, ok := obj.(*types.Builtin); ok {
		switch b.Name() {
		case "delete":
			w.expr(c.Args[0], mElemWrite)
			w.expr(c.Args[1], mRead)
		case "copy":
			w.expr(c.Args[0], mElemWrite)
			w.expr(c.Args[1], mRead)
		case "panic":
			for _, a := range c.Args {
				w.expr(a, mRead)
			}
			w.dead = true
		default:
			for _, a := range c.Args {
				w.expr(a, mRead)
			}
			if b.Name() == "close" {
				w.ext("chan close", c.Pos())
			}
		}
		return
	}
	fn, _ := obj.(*types.Func)
	// sync lock operations
	if se, ok := c.Fun.(*ast.SelectorExpr); ok && fn != nil && fn.Pkg() != nil && fn.Pkg().Path() == "sync" {
		name := se.Sel.Name
		if (name == "TryLock" || name == "TryRLock") && !w.dead {
			w.fn.secNotes = append(w.fn.secNotes, fmt.Sprintf("%s: %s outside the recognised form `if [!]x.%s() {`", site(c.Pos()), name, name))
		}
		if name == "Lock" || name == "RLock" || name == "Unlock" || name == "RUnlock" {
			if _, isSel := w.info.Selections[se]; isSel {
				w.expr(se.X, mRead)
				class := lockClass(w.info, se.X)
				if w.dead {
					return
				}
				if w.cur.inst == nil {
					w.cur.inst = map[string]string{}
				}
				switch name {
				case "Lock":
					w.openSection(class, true, false, c.Pos())
					w.cur.m[class] = true
					w.cur.inst[class] = w.instKey(lockBase(se.X))
				case "RLock":
					w.openSection(class, false, false, c.Pos())
					if _, held := w.cur.m[class]; !held {
						w.cur.m[class] = false
						w.cur.inst[class] = w.instKey(lockBase(se.X))
					}
				default:
					w.closeSection(class, deferred, goStmt, c.Pos())
					if deferred {
						return // held until the function returns
					}
					if goStmt {
						return
					}
					delete(w.cur.m, class)
					delete(w.cur.inst, class)
					delete(w.cur.sec, class)
				}
				return
			}
		}
	}
	// receiver
	if se, ok := c.Fun.(*ast.SelectorExpr); ok {
		if sel, ok := w.info.Selections[se]; ok && sel.Kind() == types.MethodVal && fn != nil {
			sig := fn.Type().(*types.Signature)
			rt := w.typeOf(se.X)
			if sig.Recv() != nil {
				if isPointer(sig.Recv().Type()) && rt != nil && !isPointer(rt) {
					if _, isIface := rt.Underlying().(*types.Interface); !isIface {
						w.expr(se.X, mAddr) // implicit &x.F
					} else {
						w.expr(se.X, mRead)
					}
				} else {
					w.expr(se.X, mRead)
					if !isPointer(sig.Recv().Type()) && isPointer(rt) {
						if rec, ok := w.an.recordName(rt); ok { // value receiver through a pointer: the record is copied
							w.readAll(rec, se.X.Pos())
						}
					}
				}
			} else {
				w.expr(se.X, mRead)
			}
		} else if ok {
			w.expr(se.X, mRead) // call of a func-typed field
		}
	}
	// arguments
	atomicCall := fn != nil && fn.Pkg() != nil && fn.Pkg().Path() == "sync/atomic"
	for _, a := range c.Args {
		if atomicCall {
			if u, ok := a.(*ast.UnaryExpr); ok && u.Op == token.AND {
				w.expr(a, mAtomic)
				continue
			}
		}
		w.expr(a, mRead)
	}
	if fn == nil {
		return // call of a function value: its possible targets are escaped functions (entry ∅)
	}
	key := funcKey(fn)
	if _, ok := w.an.funcs[key]; ok {
		w.addCall(key, goStmt || deferred, goStmt, c.Pos())
		if se, ok := c.Fun.(*ast.SelectorExpr); ok && !goStmt && !deferred && !w.dead {
			if id, ok := se.X.(*ast.Ident); ok && w.fn.fresh.freshAt(w.info, id, c.Pos(), true) {
				if _, isRec := w.an.recordName(w.typeOf(id)); isRec { // the object under construction is a shared record
					w.fn.calls[len(w.fn.calls)-1].ctor = true
				}
			}
		}
		return
	}
	if n := extEffectName(fn); n != "" && !goStmt {
		w.ext(n, c.Pos())
	}
	sig := fn.Type().(*types.Signature)
	// interface method declared in the module: every implementing module method
	if r := sig.Recv(); r != nil {
		if it, ok := r.Type().Underlying().(*types.Interface); ok {
			for _, m := range w.an.methodsByName[fn.Name()] {
				if m.recvVar == nil {
					continue
				}
				rt := m.recvVar.Type()
				if types.Implements(rt, it) || types.Implements(types.NewPointer(rt), it) {
					w.addCall(m.key, goStmt || deferred, goStmt, c.Pos())
				}
			}
			return
		}
	}
	// external function: interface-typed parameters receive module values
	if fn.Pkg() != nil && w.an.inModule[fn.Pkg().Path()] {
		return
	}

	np := sig.Params().Len()
	for i, a := range c.Args {
		var pt types.Type
		if sig.Variadic() && i >= np-1 {
			pt = sig.Params().At(np - 1).Type()
			if s, ok := pt.(*types.Slice); ok && !c.Ellipsis.IsValid() {
				pt = s.Elem()
			}
		} else if i < np {
			pt = sig.Params().At(i).Type()
		}
		if pt != nil {
			w.ifaceArgCalls(pt, a)
		}
	}
}

func (w *lsWalker) stmts(list []ast.Stmt) {
	for _, s := range list {
		w.stmt(s)
	}
}

func (w *lsWalker) findCtx(label string, needLoop bool) *jumpCtx {
	for i := len(w.ctx) - 1; i >= 0; i-- {
		c := w.ctx[i]
		if label != "" {
			if c.label == label {
				return c
			}
			continue
		}
		if !needLoop || c.isLoop {
			return c
		}
	}
	return nil
}

func meetAll(sets []lset) (lset, bool) {
	if len(sets) == 0 {
		return lset{}, false
	}
	r := sets[0].clone()
	for _, s := range sets[1:] {
		r = meet(r, s)
	}
	return r, true
}

// clauses walks alternative bodies from the same entry state and joins the live exits
func (w *lsWalker) clauses(bodies [][]ast.Stmt, pre []func(), implicitSkip bool, c *jumpCtx) {
	entry, entryDead := w.cur.clone(), w.dead
	var outs []lset
	for i, b := range bodies {
		w.cur, w.dead = entry.clone(), entryDead
		if pre != nil && pre[i] != nil {
			pre[i]()
		}
		w.stmts(b)
		if !w.dead {
			outs = append(outs, w.cur)
		}
	}
	if implicitSkip && !entryDead {
		outs = append(outs, entry)
	}
	if c != nil {
		outs = append(outs, c.breaks...)
	}
	if r, ok := meetAll(outs); ok {
		w.cur, w.dead = r, false
	} else {
		w.cur, w.dead = entry, true
	}
}

func (w *lsWalker) loop(label string, head func(), body []ast.Stmt, post ast.Stmt, hasExitCond bool) {
	entry, entryDead := w.cur.clone(), w.dead
	na, nc := len(w.fn.accesses), len(w.fn.calls)
	ns, ne, nn, sq := len(w.fn.secs), len(w.fn.exts), len(w.fn.secNotes), w.fn.seq
	w.loopDepth++
	defer func() { w.loopDepth-- }()
	headSet := entry.clone()
	var c *jumpCtx
	for iter := 0; iter < 8; iter++ {
		w.fn.accesses, w.fn.calls = w.fn.accesses[:na], w.fn.calls[:nc]
		w.fn.secs, w.fn.exts, w.fn.secNotes, w.fn.seq = w.fn.secs[:ns], w.fn.exts[:ne], w.fn.secNotes[:nn], sq
		c = &jumpCtx{isLoop: true, label: label}
		w.ctx = append(w.ctx, c)
		w.cur, w.dead = headSet.clone(), entryDead
		if head != nil {
			head()
		}
		w.stmts(body)
		back := append([]lset{}, c.continues...)
		if !w.dead {
			back = append(back, w.cur)
		}
		w.ctx = w.ctx[:len(w.ctx)-1]
		newHead := entry.clone()
		if b, ok := meetAll(back); ok {
			w.cur, w.dead = b, false
			if post != nil {
				w.stmt(post)
			}
			newHead = meet(entry, w.cur)
		}
		if newHead.equal(headSet) {
			break
		}
		headSet = newHead
	}
	outs := append([]lset{}, c.breaks...)
	if hasExitCond && !entryDead {
		outs = append(outs, headSet)
	}
	if r, ok := meetAll(outs); ok {
		w.cur, w.dead = r, false
	} else {
		w.cur, w.dead = entry, true
	}
}

func (w *lsWalker) stmt(s ast.Stmt) {
	label := w.pendingLabel
	w.pendingLabel = ""
	switch x := s.(type) {
	case nil:
	case *ast.EmptyStmt:
	case *ast.BlockStmt:
		w.stmts(x.List)
	case *ast.ExprStmt:
		w.expr(x.X, mRead)
	case *ast.AssignStmt:
		for _, r := range x.Rhs {
			w.expr(r, mRead)
		}
		if x.Tok != token.DEFINE {
			for _, l := range x.Lhs {
				w.expr(l, mWrite)
			}
		}
	case *ast.IncDecStmt:
		w.expr(x.X, mWrite)
	case *ast.SendStmt:
		w.expr(x.Chan, mRead)
		w.expr(x.Value, mRead)
		w.ext("chan send", x.Pos())
	case *ast.DeclStmt:
		if gd, ok := x.Decl.(*ast.GenDecl); ok {
			for _, sp := range gd.Specs {
				if vs, ok := sp.(*ast.ValueSpec); ok {
					for _, v := range vs.Values {
						w.expr(v, mRead)
					}
				}
			}
		}
	case *ast.ReturnStmt:
		for _, r := range x.Results {
			w.expr(r, mRead)
		}
		w.dead = true
	case *ast.GoStmt:
		w.call(x.Call, "go")
	case *ast.DeferStmt:
		w.call(x.Call, "defer")
	case *ast.LabeledStmt:
		w.pendingLabel = x.Label.Name
		w.stmt(x.Stmt)
	case *ast.BranchStmt:
		lbl := ""
		if x.Label != nil {
			lbl = x.Label.Name
		}
		switch x.Tok {
		case token.BREAK:
			if c := w.findCtx(lbl, false); c != nil && !w.dead {
				c.breaks = append(c.breaks, w.cur.clone())
			}
		case token.CONTINUE:
			if c := w.findCtx(lbl, true); c != nil && !w.dead {
				c.continues = append(c.continues, w.cur.clone())
			}
		default:
			w.an.unknown[fmt.Sprintf("%s: %s statement", site(x.Pos()), x.Tok)] = true
		}
		w.dead = true
	case *ast.IfStmt:
		w.stmt(x.Init)
		if w.tryLockIf(x) {
			return
		}
		w.expr(x.Cond, mRead)
		bodies := [][]ast.Stmt{x.Body.List}
		skip := true
		if x.Else != nil {
			bodies = append(bodies, []ast.Stmt{x.Else})
			skip = false
		}
		w.clauses(bodies, nil, skip, nil)
	case *ast.ForStmt:
		w.stmt(x.Init)
		w.loop(label, func() { w.expr(x.Cond, mRead) }, x.Body.List, x.Post, x.Cond != nil)
	case *ast.RangeStmt:
		w.expr(x.X, mRead)
		w.loop(label, func() {
			if x.Tok == token.ASSIGN {
				w.expr(x.Key, mWrite)
				w.expr(x.Value, mWrite)
			}
		}, x.Body.List, nil, true)
	case *ast.SwitchStmt:
		w.stmt(x.Init)
		w.expr(x.Tag, mRead)
		c := &jumpCtx{label: label}
		w.ctx = append(w.ctx, c)
		var bodies [][]ast.Stmt
		var pre []func()
		hasDefault := false
		for _, cl := range x.Body.List {
			cc := cl.(*ast.CaseClause)
			if cc.List == nil {
				hasDefault = true
			}
			bodies = append(bodies, cc.Body)
			list := cc.List
			pre = append(pre, func() {
				for _, e := range list {
					w.expr(e, mRead)
				}
			})
		}
		w.clauses(bodies, pre, !hasDefault, c)
		w.ctx = w.ctx[:len(w.ctx)-1]
	case *ast.TypeSwitchStmt:
		w.stmt(x.Init)
		w.stmt(x.Assign)
		c := &jumpCtx{label: label}
		w.ctx = append(w.ctx, c)
		var bodies [][]ast.Stmt
		hasDefault := false
		for _, cl := range x.Body.List {
			cc := cl.(*ast.CaseClause)
			if cc.List == nil {
				hasDefault = true
			}
			bodies = append(bodies, cc.Body)
		}
		w.clauses(bodies, nil, !hasDefault, c)
		w.ctx = w.ctx[:len(w.ctx)-1]
	case *ast.SelectStmt:
		c := &jumpCtx{label: label}
		w.ctx = append(w.ctx, c)
		var bodies [][]ast.Stmt
		var pre []func()
		for _, cl := range x.Body.List {
			cc := cl.(*ast.CommClause)
			bodies = append(bodies, cc.Body)
			comm := cc.Comm
			pre = append(pre, func() { w.stmt(comm) })
		}
		w.clauses(bodies, pre, false, c)
		w.ctx = w.ctx[:len(w.ctx)-1]
	default:
		w.an.unknown[fmt.Sprintf("%s: statement %T", site(s.Pos()), s)] = true
	}
}

// ---------------------------------------------------------------- fresh objects

type freshEvent struct {
	pos  token.Pos
	kind int // 0 alloc, 1 other assignment, 2 publication, 3 use as method receiver
	// for alloc: the block that contains the defining statement and the end of that statement
	block ast.Node
	end   token.Pos
}

type freshInfo struct {
	addrTaken map[*types.Var]bool // locals whose address is taken / that are captured by a closure
	events    map[*types.Var][]freshEvent
	loops     []ast.Node // loop statements of the function
	benign    map[*ast.Ident]bool
}

func isAlloc(info *types.Info, e ast.Expr) bool {
	switch x := e.(type) {
	case *ast.ParenExpr:
		return isAlloc(info, x.X)
	case *ast.UnaryExpr:
		if x.Op == token.AND {
			_, ok := x.X.(*ast.CompositeLit)
			return ok
		}
	case *ast.CompositeLit:
		if t := info.Types[x].Type; t != nil {
			_, ok := t.Underlying().(*types.Struct)
			return ok
		}
	case *ast.CallExpr:
		if id, ok := x.Fun.(*ast.Ident); ok && id.Name == "new" {
			if _, ok := info.Uses[id].(*types.Builtin); ok {
				return true
			}
		}
	}
	return false
}

// rootIdent returns the local variable an access path starts from when the path goes through value
// (non-pointer) fields only after the first selection: v.f, v.a.f (a a struct value)
func rootIdent(info *types.Info, x *ast.SelectorExpr) *ast.Ident {
	e := ast.Expr(x.X)
	for {
		switch y := e.(type) {
		case *ast.ParenExpr:
			e = y.X
		case *ast.Ident:
			return y
		case *ast.SelectorExpr:
			sel, ok := info.Selections[y]
			if !ok || sel.Kind() != types.FieldVal {
				return nil
			}
			if isPointer(sel.Type()) { // y itself is a pointer-typed field: the path leaves the object
				return nil
			}
			e = y.X
		default:
			return nil
		}
	}
}

func buildFresh(info *types.Info, body *ast.BlockStmt, scope ast.Node) *freshInfo {
	fi := &freshInfo{events: map[*types.Var][]freshEvent{}, benign: map[*ast.Ident]bool{}, addrTaken: map[*types.Var]bool{}}
	valueRoot := func(e ast.Expr) *types.Var {
		for {
			switch y := e.(type) {
			case *ast.ParenExpr:
				e = y.X
			case *ast.SelectorExpr:
				e = y.X
			case *ast.IndexExpr:
				e = y.X
			case *ast.Ident:
				v, _ := info.Uses[y].(*types.Var)
				return v
			default:
				return nil
			}
		}
	}
	ast.Inspect(body, func(m ast.Node) bool {
		switch y := m.(type) {
		case *ast.UnaryExpr:
			if y.Op == token.AND {
				if v := valueRoot(y.X); v != nil {
					fi.addrTaken[v] = true
				}
			}
		case *ast.CallExpr:
			if se, ok := y.Fun.(*ast.SelectorExpr); ok {
				if sel, ok := info.Selections[se]; ok && sel.Kind() == types.MethodVal {
					if f, ok := sel.Obj().(*types.Func); ok {
						if r := f.Type().(*types.Signature).Recv(); r != nil && isPointer(r.Type()) && !isPointer(info.Types[se.X].Type) {
							if v := valueRoot(se.X); v != nil {
								fi.addrTaken[v] = true
							}
						}
					}
				}
			}
		case *ast.FuncLit:
			ast.Inspect(y.Body, func(k ast.Node) bool {
				if id, ok := k.(*ast.Ident); ok {
					if v, ok := info.Uses[id].(*types.Var); ok {
						fi.addrTaken[v] = true
					}
				}
				return true
			})
		}
		return true
	})
	localVar := func(id *ast.Ident) *types.Var {
		var o types.Object
		if o = info.Defs[id]; o == nil {
			o = info.Uses[id]
		}
		v, ok := o.(*types.Var)
		if !ok || v.IsField() || v.Pkg() == nil || v.Parent() == v.Pkg().Scope() {
			return nil
		}
		return v
	}
	var walkBlock func(list []ast.Stmt, block ast.Node)
	var visit func(n ast.Node, block ast.Node)
	markBase := func(e ast.Expr) {
		// the base identifier of a selector chain / nil comparison is a benign use
		for {
			switch y := e.(type) {
			case *ast.ParenExpr:
				e = y.X
				continue
			case *ast.SelectorExpr:
				if sel, ok := info.Selections[y]; ok && sel.Kind() == types.FieldVal {
					e = y.X
					continue
				}
			case *ast.Ident:
				fi.benign[y] = true
			}
			return
		}
	}
	assign := func(lhs []ast.Expr, rhs []ast.Expr, block ast.Node, stmt ast.Stmt) {
		for i, l := range lhs {
			id, ok := l.(*ast.Ident)
			if !ok {
				continue
			}
			v := localVar(id)
			if v == nil {
				continue
			}
			fi.benign[id] = true
			if len(lhs) == len(rhs) && isAlloc(info, rhs[i]) {
				fi.events[v] = append(fi.events[v], freshEvent{pos: stmt.Pos(), kind: 0, block: block, end: stmt.End()})
			} else {
				fi.events[v] = append(fi.events[v], freshEvent{pos: stmt.Pos(), kind: 1})
			}
		}
	}
	visit = func(n ast.Node, block ast.Node) {
		ast.Inspect(n, func(m ast.Node) bool {
			switch y := m.(type) {
			case *ast.BlockStmt:
				walkBlock(y.List, y)
				return false
			case *ast.CaseClause:
				for _, e := range y.List {
					visit(e, block)
				}
				walkBlock(y.Body, y)
				return false
			case *ast.CommClause:
				if y.Comm != nil {
					visit(y.Comm, y)
				}
				walkBlock(y.Body, y)
				return false
			case *ast.ForStmt, *ast.RangeStmt:
				fi.loops = append(fi.loops, y)
				if r, ok := y.(*ast.RangeStmt); ok {
					var lhs []ast.Expr
					if r.Key != nil {
						lhs = append(lhs, r.Key)
					}
					if r.Value != nil {
						lhs = append(lhs, r.Value)
					}
					assign(lhs, nil, block, r)
				}
			case *ast.AssignStmt:
				assign(y.Lhs, y.Rhs, block, y)
			case *ast.ValueSpec:
				for i, id := range y.Names {
					if v := localVar(id); v != nil {
						fi.benign[id] = true
						if i < len(y.Values) && isAlloc(info, y.Values[i]) {
							fi.events[v] = append(fi.events[v], freshEvent{pos: y.Pos(), kind: 0, block: block, end: y.End()})
						} else {
							fi.events[v] = append(fi.events[v], freshEvent{pos: y.Pos(), kind: 1})
						}
					}
				}
			case *ast.SelectorExpr:
				if sel, ok := info.Selections[y]; ok && sel.Kind() == types.FieldVal {
					markBase(y.X)
				}
			case *ast.BinaryExpr:
				if y.Op == token.EQL || y.Op == token.NEQ {
					if id, ok := y.Y.(*ast.Ident); ok && id.Name == "nil" {
						markBase(y.X)
					}
				}
			case *ast.FuncLit:
				// every local variable used inside a closure is captured: publication at the literal
				ast.Inspect(y.Body, func(k ast.Node) bool {
					if id, ok := k.(*ast.Ident); ok {
						if v := localVar(id); v != nil && info.Uses[id] != nil {
							fi.events[v] = append(fi.events[v], freshEvent{pos: y.Pos(), kind: 2})
						}
					}
					return true
				})
				return false
			}
			return true
		})
	}
	walkBlock = func(list []ast.Stmt, block ast.Node) {
		for _, s := range list {
			visit(s, block)
		}
	}
	walkBlock(body.List, body)
	// every remaining use of a local variable is a publication (use as a method receiver: kind 3)
	recvUse := map[*ast.Ident]bool{}
	ast.Inspect(body, func(m ast.Node) bool {
		if c, ok := m.(*ast.CallExpr); ok {
			if se, ok := c.Fun.(*ast.SelectorExpr); ok {
				if sel, ok := info.Selections[se]; ok && sel.Kind() == types.MethodVal {
					if id, ok := se.X.(*ast.Ident); ok {
						recvUse[id] = true
					}
				}
			}
		}
		return true
	})
	ast.Inspect(body, func(m ast.Node) bool { // `go v.m()` hands v to another goroutine: a real publication
		if g, ok := m.(*ast.GoStmt); ok {
			if se, ok := g.Call.Fun.(*ast.SelectorExpr); ok {
				if id, ok := se.X.(*ast.Ident); ok {
					delete(recvUse, id)
				}
			}
		}
		return true
	})
	ast.Inspect(body, func(m ast.Node) bool {
		if _, ok := m.(*ast.FuncLit); ok {
			return false
		}
		if id, ok := m.(*ast.Ident); ok && !fi.benign[id] {
			if v := localVar(id); v != nil && info.Uses[id] != nil {
				k := 2
				if recvUse[id] {
					k = 3
				}
				fi.events[v] = append(fi.events[v], freshEvent{pos: id.Pos(), kind: k})
			}
		}
		return true
	})
	return fi
}

// isPrivate: the access path starts (through value fields only) at a local variable or parameter of struct
// VALUE type whose address is never taken and that no closure captures: a goroutine-private copy
func (fi *freshInfo) isPrivate(w *lsWalker, x *ast.SelectorExpr) bool {
	if fi == nil {
		return false
	}
	id := rootIdent(w.info, x)
	if id == nil {
		return false
	}
	v, ok := w.info.Uses[id].(*types.Var)
	if !ok || v.IsField() || v.Pkg() == nil || v.Parent() == v.Pkg().Scope() {
		return false
	}
	if isPointer(v.Type()) || fi.addrTaken[v] {
		return false
	}
	_, isStruct := v.Type().Underlying().(*types.Struct)
	return isStruct
}

func within(n ast.Node, p token.Pos) bool { return n.Pos() <= p && p < n.End() }

// isFresh: the access path starts at a local whose dominating definition is an allocation and which has not been
// used in any other way since (ctor = true: uses as method receiver are tolerated — constructor context)
func (fi *freshInfo) isFresh(w *lsWalker, x *ast.SelectorExpr, ctor bool) bool {
	if fi == nil {
		return false
	}
	id := rootIdent(w.info, x)
	if id == nil {
		return false
	}
	return fi.freshAt(w.info, id, x.Pos(), ctor)
}

func (fi *freshInfo) freshAt(info *types.Info, id *ast.Ident, p token.Pos, ctor bool) bool {
	v, ok := info.Uses[id].(*types.Var)
	if !ok {
		return false
	}
	evs := fi.events[v]
	// latest dominating allocation before p
	var a *freshEvent
	for i := range evs {
		e := &evs[i]
		if e.kind == 0 && e.end <= p && within(e.block, p) && (a == nil || e.pos > a.pos) {
			a = e
		}
	}
	if a == nil {
		return false
	}
	for _, e := range evs {
		if e.kind == 0 && e.pos == a.pos {
			continue
		}
		if ctor && e.kind == 3 {
			continue
		}
		q := e.pos
		// an event inside a loop that contains the access but not the allocation counts from the loop start
		for _, l := range fi.loops {
			if within(l, q) && within(l, p) && !within(l, a.pos) && l.Pos() < q {
				q = l.Pos()
			}
		}
		if q >= a.end && q < p {
			return false
		}
		if q < a.end && e.pos >= a.end { // moved before the allocation by the loop rule
			return false
		}
	}
	return true
}

// ---------------------------------------------------------------- driver

func locksetFacts(pkgs []*packages.Package, b *strings.Builder) {
	an := &lsAnalysis{funcs: map[string]*lsFunc{}, lits: map[*ast.FuncLit]*lsFunc{}, tracked: map[*types.Var]string{},
		recFlds: map[string][]string{}, recOf: map[*types.TypeName]string{}, unknown: map[string]bool{}, otherRow: map[string]map[string]bool{}, aliases: map[string]bool{},
		methodsByName: map[string][]*lsFunc{}, inModule: map[string]bool{}}
	var mod []*packages.Package
	for _, p := range pkgs {
		if strings.HasPrefix(p.PkgPath, modPath) && !strings.HasSuffix(p.PkgPath, "/fastlog") {
			mod = append(mod, p)
			an.inModule[p.PkgPath] = true
		}
	}
	sort.Slice(mod, func(i, j int) bool { return mod[i].PkgPath < mod[j].PkgPath })
	// tracked fields
	var allFields []string
	addStruct := func(rec string, st *types.Struct, spec trackedSpec) {
		for i := 0; i < st.NumFields(); i++ {
			f := st.Field(i)
			ok := spec.fields == nil
			for _, n := range spec.fields {
				ok = ok || n == f.Name()
			}
			for _, n := range spec.exclude {
				if n == f.Name() {
					ok = false
				}
			}
			if ok {
				an.tracked[f] = rec + "." + f.Name()
				an.recFlds[rec] = append(an.recFlds[rec], f.Name())
				allFields = append(allFields, rec+"."+f.Name())
			}
		}
	}
	for _, spec := range trackedRecords {
		found := false
		for _, p := range mod {
			if p.PkgPath != spec.pkg {
				continue
			}
			if tn, ok := p.Types.Scope().Lookup(spec.typ).(*types.TypeName); ok {
				if st, ok := tn.Type().Underlying().(*types.Struct); ok {
					rec := short(spec.pkg) + "." + spec.typ
					an.recOf[tn] = rec
					addStruct(rec, st, spec)
					found = true
				}
			}
		}
		if !found {
			an.unknown["tracked record not found: "+spec.pkg+"."+spec.typ] = true
		}
	}
	for _, tv := range trackedVars {
		found := false
		for _, p := range mod {
			if p.PkgPath != tv[0] {
				continue
			}
			if v, ok := p.Types.Scope().Lookup(tv[1]).(*types.Var); ok {
				if st, ok := v.Type().Underlying().(*types.Struct); ok {
					var ex []string
					for i := 0; i < st.NumFields(); i++ {
						if isMutex(st.Field(i).Type()) {
							ex = append(ex, st.Field(i).Name())
						}
					}
					addStruct(short(tv[0])+"."+tv[1], st, trackedSpec{exclude: ex})
					found = true
				}
			}
		}
		if !found {
			an.unknown["tracked variable not found: "+tv[0]+"."+tv[1]] = true
		}
	}
	sort.Strings(allFields)

	// functions and function literals
	clSeen := map[string]bool{}
	for _, p := range mod {
		for _, f := range p.Syntax {
			for _, d := range f.Decls {
				fd, ok := d.(*ast.FuncDecl)
				if !ok || fd.Body == nil {
					continue
				}
				obj, _ := p.TypesInfo.Defs[fd.Name].(*types.Func)
				if obj == nil {
					continue
				}
				k := funcKey(obj)
				if k == "" {
					continue
				}
				lf := &lsFunc{key: k, name: displayKey(k), pkg: p, body: fd.Body, decl: fd, roots: map[string]bool{}}
				if r := obj.Type().(*types.Signature).Recv(); r != nil {
					lf.recvVar = r
					an.methodsByName[obj.Name()] = append(an.methodsByName[obj.Name()], lf)
				}
				if obj.Exported() || obj.Name() == "init" || obj.Name() == "main" {
					lf.root = lf.name
				}
				for _, c := range callerLocked {
					if c[0] == lf.name {
						lf.contract = c[1]
						clSeen[c[0]] = true
					}
				}
				an.funcs[k] = lf
				an.order = append(an.order, k)
			}
		}
	}
	// literals: separate functions; escaped function values
	for _, k := range append([]string{}, an.order...) {
		parent := an.funcs[k]
		info := parent.pkg.TypesInfo
		n := 0
		var stack []ast.Node
		ast.Inspect(parent.body, func(m ast.Node) bool {
			if m == nil {
				stack = stack[:len(stack)-1]
				return true
			}
			stack = append(stack, m)
			switch y := m.(type) {
			case *ast.FuncLit:
				n++
				kind := "cb"
				if len(stack) >= 3 {
					if c, ok := stack[len(stack)-2].(*ast.CallExpr); ok && c.Fun == y {
						switch stack[len(stack)-3].(type) {
						case *ast.GoStmt:
							kind = "go"
						case *ast.DeferStmt:
							kind = "defer"
						}
					}
				}
				lk := fmt.Sprintf("%s$%d", k, n)
				lf := &lsFunc{key: lk, name: fmt.Sprintf("%s$%s@%s", parent.name, kind, site(y.Pos())), pkg: parent.pkg, body: y.Body, decl: y,
					roots: map[string]bool{}, parent: parent, litKind: kind}
				if kind != "defer" {
					lf.root = kind + "@" + site(y.Pos())
				}
				an.funcs[lk] = lf
				an.lits[y] = lf
				an.order = append(an.order, lk)
			case *ast.Ident:
				// a function used as a value (not in call position) escapes
				if fobj, ok := info.Uses[y].(*types.Func); ok {
					inCall := false
					if len(stack) >= 2 {
						switch pn := stack[len(stack)-2].(type) {
						case *ast.CallExpr:
							inCall = pn.Fun == y
						case *ast.SelectorExpr:
							if pn.Sel == y && len(stack) >= 3 {
								if c, ok := stack[len(stack)-3].(*ast.CallExpr); ok {
									inCall = c.Fun == pn
								}
							}
						}
					}
					if !inCall {
						if t, ok := an.funcs[funcKey(fobj)]; ok && t.root == "" {
							t.root = "cb:" + t.name
						}
					}
				}
			}
			return true
		})
	}
	sort.Strings(an.order)
	for _, k := range an.order {
		f := an.funcs[k]
		f.fresh = buildFresh(f.pkg.TypesInfo, f.body, f.decl)
		if f.root != "" || f.litKind == "defer" {
			f.entry = lset{m: map[string]bool{}}
			if f.contract != "" {
				f.entry.m[f.contract] = false
			}
		} else {
			f.entry = lset{top: true, m: map[string]bool{}}
		}
	}
	walkAll := func() {
		for _, k := range an.order {
			f := an.funcs[k]
			f.accesses, f.calls = nil, nil
			f.secs, f.exts, f.secNotes, f.seq = nil, nil, nil, 0
			for k := range an.otherRow {
				if strings.HasPrefix(k, f.name+"|") {
					delete(an.otherRow, k)
				}
			}
			w := &lsWalker{an: an, fn: f, info: f.pkg.TypesInfo, cur: f.entry.clone()}
			w.cur.inst = map[string]string{} // locks inherited from the callers: instance unknown
			if f.entry.top {
				w.cur = lset{top: true, m: map[string]bool{}}
			}
			w.stmts(f.body.List)
		}
	}
	for round := 0; round < 3; round++ {
		for iter := 0; iter < 50; iter++ {
			walkAll()
			in := map[string]*lset{}
			for _, k := range an.order {
				for _, c := range an.funcs[k].calls {
					if c.ctor {
						continue
					}
					h := c.held
					if cur, ok := in[c.callee]; ok {
						m := meet(*cur, h)
						in[c.callee] = &m
					} else {
						m := h.clone()
						in[c.callee] = &m
					}
				}
			}
			change := false
			for _, k := range an.order {
				f := an.funcs[k]
				if f.root != "" || f.litKind == "defer" || f.ctorOnly {
					continue
				}
				ne := lset{top: true, m: map[string]bool{}}
				if s, ok := in[k]; ok {
					ne = *s
				}
				if !ne.equal(f.entry) {
					f.entry = ne
					change = true
				}
			}
			if !change {
				break
			}
		}
		// functions never reached from a root: analyse them with the empty set (dead code stays checked)
		again := false
		ctorCallee := map[string]bool{}
		for ch := true; ch; {
			ch = false
			for _, k := range an.order {
				f := an.funcs[k]
				for _, c := range f.calls {
					if (c.ctor && !f.entry.top || ctorCallee[k] && f.entry.top) && !ctorCallee[c.callee] {
						ctorCallee[c.callee] = true
						ch = true
					}
				}
			}
		}
		for _, k := range an.order {
			f := an.funcs[k]
			if f.entry.top {
				f.entry = lset{m: map[string]bool{}}
				if !ctorCallee[k] {
					f.root = "dead:" + f.name
				} else {
					f.ctorOnly = true
				}
				again = true
			}
		}
		if !again {
			break
		}
	}
	walkAll()
	// roots: which entry points reach a function
	for _, k := range an.order {
		f := an.funcs[k]
		if f.root != "" {
			f.roots[f.root] = true
		}
		if f.litKind == "defer" {
			// runs on the goroutine of its parent
			f.parent.calls = append(f.parent.calls, lsCall{callee: f.key})
		}
	}
	for changed := true; changed; {
		changed = false
		for _, k := range an.order {
			f := an.funcs[k]
			for _, c := range f.calls {
				t := an.funcs[c.callee]
				for r := range f.roots {
					rr := r
					if c.isGo {
						rr = "go:" + t.name
					}
					if c.ctor && !strings.HasPrefix(rr, "ctor:") {
						rr = "ctor:" + f.name
					}
					if !t.roots[rr] {
						t.roots[rr] = true
						changed = true
					}
				}
			}
		}
	}

	lastLockset = an // atomic.go reads the sections recorded by the final walk
	// ---------------- output
	// Names are kept for the reader; the tie computes on the numeric ids (kernel evaluation of string equality is slow).
	lockIDs := map[string]int{}
	{
		seen := map[string]bool{}
		for _, k := range an.order {
			f := an.funcs[k]
			for _, a := range f.accesses {
				for c := range a.held.m {
					seen[c] = true
				}
			}
			for _, c := range f.calls {
				for cl := range c.held.m {
					seen[cl] = true
				}
			}
		}
		for _, c := range callerLocked {
			seen[c[1]] = true
		}
		var cls []string
		for c := range seen {
			cls = append(cls, c)
		}
		sort.Strings(cls)
		var q []string
		for i, c := range cls {
			lockIDs[c] = i
			q = append(q, fmt.Sprintf("%q", c))
		}
		fmt.Fprintf(b, "/-- F6: lock classes that occur in a held set; the position in this list is the lock id used below (\"sync/atomic\" is the\n    pseudo lock of accesses made through sync/atomic) -/\ndef locksetClasses : List String := [%s]\n\n", strings.Join(q, ", "))
	}
	heldIDs := func(h lset) string {
		if h.top {
			return "[(999, true)]"
		}
		var ks []string
		for k := range h.m {
			ks = append(ks, k)
		}
		sort.Strings(ks)
		var out []string
		for _, k := range ks {
			out = append(out, fmt.Sprintf("(%d, %v)", lockIDs[k], h.m[k]))
		}
		return "[" + strings.Join(out, ", ") + "]"
	}
	fieldIDs := map[string]int{}
	var q []string
	for i, f := range allFields {
		fieldIDs[f] = i
		q = append(q, fmt.Sprintf("%q", f))
	}
	fmt.Fprintf(b, "/-- F6: the fields of the shared records whose accesses are tracked; the position is the field id -/\ndef trackedFields : List String := [\n  %s]\n\n", strings.Join(q, ",\n  "))
	// accessing functions
	accFn := map[string]bool{}
	for _, k := range an.order {
		f := an.funcs[k]
		for _, a := range f.accesses {
			if !a.fresh && !a.ctor {
				accFn[f.name] = true
			}
		}
	}
	var fnNames []string
	for n := range accFn {
		fnNames = append(fnNames, n)
	}
	sort.Strings(fnNames)
	fnIDs := map[string]int{}
	for i, n := range fnNames {
		fnIDs[n] = i
	}
	type row struct {
		fn    string
		write bool
		held  string
		sites []string
	}
	emit := func(name, doc string, cat int) {
		byField := map[string]map[string]*row{}
		for _, k := range an.order {
			f := an.funcs[k]
			for _, a := range f.accesses {
				c := 0
				if a.fresh {
					c = 1
				} else if a.ctor {
					c = 2
				}
				if c != cat {
					continue
				}
				held := a.held.String()
				if cat == 0 {
					held = heldIDs(a.held)
				}
				key := fmt.Sprintf("%s|%v|%s", f.name, a.write, held)
				if byField[a.field] == nil {
					byField[a.field] = map[string]*row{}
				}
				r := byField[a.field][key]
				if r == nil {
					r = &row{fn: f.name, write: a.write, held: held}
					byField[a.field][key] = r
				}
				s := site(a.pos)
				dup := false
				for _, t := range r.sites {
					dup = dup || t == s
				}
				if !dup {
					r.sites = append(r.sites, s)
				}
			}
		}
		if cat == 0 {
			fmt.Fprintf(b, "%s\ndef %s : List (Nat × String × List (Nat × String × Bool × List (Nat × Bool) × String)) := [\n", doc, name)
		} else {
			fmt.Fprintf(b, "%s\ndef %s : List (String × List (String × Bool × List (String × Bool) × String)) := [\n", doc, name)
		}
		var fl []string
		for f := range byField {
			fl = append(fl, f)
		}
		sort.Strings(fl)
		for i, f := range fl {
			var keys []string
			for k := range byField[f] {
				keys = append(keys, k)
			}
			sort.Strings(keys)
			var rows []string
			for _, k := range keys {
				r := byField[f][k]
				sort.Strings(r.sites)
				if cat == 0 {
					rows = append(rows, fmt.Sprintf("    (%d, %q, %v, %s, %q)", fnIDs[r.fn], r.fn, r.write, r.held, strings.Join(r.sites, ",")))
				} else {
					rows = append(rows, fmt.Sprintf("    (%q, %v, %s, %q)", r.fn, r.write, r.held, strings.Join(r.sites, ",")))
				}
			}
			sep := ","
			if i == len(fl)-1 {
				sep = ""
			}
			if cat == 0 {
				fmt.Fprintf(b, "  (%d, %q, [\n%s])%s\n", fieldIDs[f], f, strings.Join(rows, ",\n"), sep)
			} else {
				fmt.Fprintf(b, "  (%q, [\n%s])%s\n", f, strings.Join(rows, ",\n"), sep)
			}
		}
		b.WriteString("]\n\n")
	}
	emit("fieldAccesses", "/-- F6: accesses to published objects: (field id, field, [(function id, function, isWrite, [(id of a lock class definitely held,\n    held exclusively)], sites)]) -/", 0)
	emit("freshAccesses", "/-- F6: accesses recognised structurally as initialisation of an object that is not yet published (composite-literal keys, fields of a\n    locally allocated object before its first other use): field ↦ [(function, isWrite, locks held, sites)] -/", 1)
	emit("ctorAccesses", "/-- F6: accesses in a constructor to the object it allocated, after the object was used as a method receiver but before it was\n    stored, passed, captured or returned -/", 2)
	var ctl []string
	for _, k := range an.order {
		f := an.funcs[k]
		for _, c := range f.calls {
			if c.ctor {
				ctl = append(ctl, fmt.Sprintf("(%q, %q, %q)", f.name, an.funcs[c.callee].name, c.site))
			}
		}
	}
	sort.Strings(ctl)
	fmt.Fprintf(b, "/-- F6: constructor call sites (caller, callee, site): the receiver is an object allocated by the caller and not yet stored, passed,\n    captured or returned; such a site does not constrain the callee's entry lock set (pinned by the tie) -/\ndef ctorCalls : List (String × String × String) := [\n  %s]\n\n", strings.Join(ctl, ",\n  "))
	// roots of the accessing functions, in the order of the function ids
	byName := map[string]*lsFunc{}
	for _, k := range an.order {
		byName[an.funcs[k].name] = an.funcs[k]
	}
	kindCode := map[string]int{"api": 0, "go": 1, "cb": 2, "ctor": 3, "dead": 4}
	var rl []string
	for _, n := range fnNames {
		f := byName[n]
		var rs []string
		for r := range f.roots {
			kind, name := "api", r
			for _, pre := range []string{"go:", "go@", "ctor:", "dead:", "cb:", "cb@"} {
				if strings.HasPrefix(r, pre) {
					kind, name = pre[:len(pre)-1], r[len(pre):]
				}
			}
			rs = append(rs, fmt.Sprintf("(%d, %q)", kindCode[kind], name))
		}
		sort.Strings(rs)
		rl = append(rl, fmt.Sprintf("(%q, [%s])", f.name, strings.Join(rs, ", ")))
	}
	fmt.Fprintf(b, "/-- F6: accessing function (position = function id) ↦ the entry points (kind, name) that reach it over the static call graph; kind:\n    0 exported function, 1 goroutine started by a go statement, 2 escaped function value / literal, 3 reached through a constructor\n    call site (Gen.ctorCalls) only on that path, 4 not reachable from any entry point -/\ndef accessRoots : List (String × List (Nat × String)) := [\n  %s]\n\n", strings.Join(rl, ",\n  "))
	{
		var ks []string
		for k := range an.otherRow {
			ks = append(ks, k)
		}
		sort.Strings(ks)
		var out []string
		for _, k := range ks {
			var ss []string
			for x := range an.otherRow[k] {
				ss = append(ss, x)
			}
			sort.Strings(ss)
			i := strings.Index(k, "|")
			out = append(out, fmt.Sprintf("(%q, %q, %q)", k[:i], k[i+1:], strings.Join(ss, ",")))
		}
		fmt.Fprintf(b, "/-- F6: (function, field, sites): a Host/MACEntry field is accessed while the row lock that this function took was taken on ANOTHER\n    expression than the accessed record's own row (x.MACEntry.Row for a Host x, x.Row for a MACEntry x): the instances must be\n    equal for a reason outside the syntax (pinned by the tie) -/\ndef rowLockOther : List (String × String × String) := [\n  %s]\n\n", strings.Join(out, ",\n  "))
	}
	var cl []string
	for _, c := range callerLocked {
		if !clSeen[c[0]] {
			an.unknown["callerLocked method not found: "+c[0]] = true
		}
		cl = append(cl, fmt.Sprintf("(%q, %q)", c[0], c[1]))
	}
	fmt.Fprintf(b, "/-- F6: exported record methods analysed as caller-locked: (method, lock its caller must hold at least shared) — extractor\n    configuration, pinned by the tie -/\ndef callerLocked : List (String × String) := [%s]\n\n", strings.Join(cl, ", "))
	ccm := map[string][]string{}
	var cck []string
	for _, k := range an.order {
		f := an.funcs[k]
		for _, c := range f.calls {
			t := an.funcs[c.callee]
			if t.contract == "" {
				continue
			}
			key := fmt.Sprintf("(%q, %q, %s, ", t.name, f.name, heldIDs(c.held))
			if _, ok := ccm[key]; !ok {
				cck = append(cck, key)
			}
			dup := false
			for _, s := range ccm[key] {
				dup = dup || s == c.site
			}
			if !dup {
				ccm[key] = append(ccm[key], c.site)
			}
		}
	}
	sort.Strings(cck)
	var ccl []string
	for _, k := range cck {
		sort.Strings(ccm[k])
		ccl = append(ccl, fmt.Sprintf("%s%q)", k, strings.Join(ccm[k], ",")))
	}
	fmt.Fprintf(b, "/-- F6: in-module call sites of caller-locked methods: (callee, caller, ids of the locks held at the call, sites) -/\ndef contractCalls : List (String × String × List (Nat × Bool) × String) := [\n  %s]\n\n", strings.Join(ccl, ",\n  "))
	var ul []string
	for u := range an.unknown {
		ul = append(ul, fmt.Sprintf("%q", u))
	}
	sort.Strings(ul)
	fmt.Fprintf(b, "/-- F6: constructs the lockset extractor cannot classify (must be empty) -/\ndef locksetUnknown : List String := [%s]\n\n", strings.Join(ul, ", "))
}
