package main

// F7: the BODIES of the straight-line in-place encoders, translated into Lean source over the memory
// primitives of Model/Encode.lean (Gen/Encoders.lean, regenerated on every run; Props/C03EncTie.lean proves
// each generated function equal to the hand-written model function the C03/C07 theorems are about).
//
// Candidates: every exported top-level func Encode* of package packet and every SetPayload / AppendPayload
// method.  A candidate is translated only if EVERY statement has one of the forms below; otherwise it is
// listed in `encodersUntranslated` with the first offending construct — nothing is guessed or dropped.
//
//	representation   destination slice (receiver / a []byte that is written, re-sliced or returned) → (m : Mem) (x : Sl)
//	                 other byte-slice arguments, net.HardwareAddr, netip.Addr → Bytes (read-only values; assumed not
//	                 to alias the destination and to have cap = len — the same assumptions as Model/Encode.lean)
//	                 uint16 / int → Nat (uint16 arithmetic gets an explicit `% 65536`), byte → UInt8,
//	                 struct arguments (packet.Addr) → one argument per field (x_MAC, x_IP, x_Port)
//	guards           if cap(b) < n { panic(..) }          → if b.cap m < n then .panic else do
//	                 if <cond> { return nil }              → … then .ok (m, none) else do
//	                 if <cond> { return nil, ErrX }        → … then .err .x else do
//	                 if <cond> { b = make(..) }            → … then unmodelled else do   (+ a recorded assumption)
//	                 if [!]a.Is4() { a = V }               → let a := if a.length == 4 then … else …
//	re-slice         b = b[lo:hi], t := p[:n], p[a:]       → let b ← b.reslice m lo hi / b.from_ m a
//	stores           b[i] = e                              → let m ← b.put8 m i e
//	                 binary.BigEndian.PutUint16(b[a:a+2],e)→ let m ← b.put16 m a e
//	                 copy(b[a:b'], src)                    → let m ← b.copyAt m a b' src
//	                 copy(<slice value>, src)              → let m := poke m d.off (src.take d.len)
//	sources          x, x[:], x.AsSlice(), x.As16() → as16 x, x.As4() → goAs4 x, mac[:6] → mac6 mac, IPv4zero
//	locals           x := e / var x = e / const (folded by go/types); []byte{…} literals; len, cap, + | & << >> conversions
//	calls            p.M() of a view type: single-`return p[c:]` getters are inlined; the modelled read-side methods
//	                 of `encCallees` (Ether.HeaderLen, IP4.Payload, IP4.CalculateChecksum) become calls of the model
//	                 function (listed in the generated `encoderCallees`, pinned by a tie theorem)
//	return           return b / T(b) / b[:n] / nil / (b, nil) / (nil, ErrX)
//
// `x == nil` on a slice argument is translated to False under the recorded assumption "x != nil".

import (
	"fmt"
	"go/ast"
	"go/constant"
	"go/token"
	"go/types"
	"net/netip"
	"sort"
	"strconv"
	"strings"

	"golang.org/x/tools/go/packages"
)

type ekind int

const (
	kNat   ekind = iota // Go int / uint16 / … represented as Nat
	kU8                 // Lean UInt8
	kU16                // Lean UInt16 (results of modelled callees only)
	kBytes              // read-only byte string
	kSl                 // destination slice
	kStruct
	kBool
)

type evar struct {
	kind ekind
	lean string
}

// modelled read-side callees: Go method → (Lean function applied to `m recv`, result kind)
var encCallees = map[string]struct {
	fn   string
	kind ekind
}{
	"Ether.HeaderLen":       {"etherHdrLen", kNat},
	"IP4.Payload":           {"ip4PayloadSl", kSl},
	"IP4.CalculateChecksum": {"ip4CksumSl", kU16},
}

var leanErrs = map[string]string{
	"ErrInvalidLen": "invalidLen", "ErrPayloadTooBig": "payloadTooBig", "ErrParseFrame": "parseFrame",
	"ErrParseProtocol": "parseProtocol", "ErrFrameLen": "frameLen", "ErrInvalidConn": "invalidConn",
	"ErrInvalidIP": "invalidIP", "ErrInvalidMAC": "invalidMAC", "ErrInvalidIP6LLA": "invalidIP6LLA",
	"ErrNotFound": "notFound", "ErrTimeout": "timeout", "ErrNotRedirected": "notRedirected",
	"ErrIsRouter": "isRouter", "ErrNoReader": "noReader", "ErrInvalidParam": "invalidParam",
	"ErrMulticastMAC": "multicastMAC", "ErrHandlerClosed": "handlerClosed",
}

var leanKeywords = map[string]bool{"class": true, "instance": true, "structure": true, "end": true, "from": true, "at": true,
	"do": true, "then": true, "else": true, "if": true, "let": true, "have": true, "show": true, "fun": true, "match": true,
	"with": true, "open": true, "in": true, "def": true, "theorem": true, "section": true, "namespace": true, "where": true,
	"m": true, "Type": true, "Prop": true, "Sort": true, "by": true, "mut": true, "for": true, "return": true, "some": true, "none": true}

type encTr struct {
	p        *packages.Package
	info     *types.Info
	name     string
	env      map[types.Object]*evar
	lines    []string
	indent   string
	tmp      int
	done     bool // a terminal statement was emitted
	nilRet   bool // single-result function with a `return nil`
	results  int
	assume   map[string]bool
	callees  map[string]bool
	addrVars map[string]string
	ownMem   bool // no destination argument: the function builds its result in a buffer it allocates with make
	madeMem  bool
}

func (t *encTr) emit(format string, a ...interface{}) {
	t.lines = append(t.lines, t.indent+fmt.Sprintf(format, a...))
}

func (t *encTr) fresh() string {
	t.tmp++
	return fmt.Sprintf("t%d", t.tmp)
}

func leanName(s string) string {
	if leanKeywords[s] {
		return s + "'"
	}
	return s
}

func (t *encTr) obj(e ast.Expr) (*evar, types.Object) {
	id, ok := paren(e).(*ast.Ident)
	if !ok {
		return nil, nil
	}
	o := t.info.Uses[id]
	if o == nil {
		o = t.info.Defs[id]
	}
	if o == nil {
		return nil, nil
	}
	return t.env[o], o
}

func (t *encTr) constVal(e ast.Expr) (string, bool) {
	tv, ok := t.info.Types[e]
	if !ok || tv.Value == nil || tv.Value.Kind() != constant.Int {
		return "", false
	}
	s := tv.Value.ExactString()
	if strings.HasPrefix(s, "-") {
		return "", false
	}
	return s, true
}

func basicKind(ty types.Type) types.BasicKind {
	if ty == nil {
		return types.Invalid
	}
	if b, ok := ty.Underlying().(*types.Basic); ok {
		return b.Kind()
	}
	return types.Invalid
}

// width of the Go type when values of it are represented as Nat and need an explicit wrap-around (0 = none:
// int/int64/uint64/uint are taken as unbounded – lengths and small constants only, documented assumption)
func natWrap(ty types.Type) string {
	switch basicKind(ty) {
	case types.Uint16:
		return "65536"
	case types.Uint32:
		return "4294967296"
	}
	return ""
}

func isNetipAddr(ty types.Type) bool {
	n, ok := ty.(*types.Named)
	return ok && n.Obj().Pkg() != nil && n.Obj().Pkg().Path() == "net/netip" && n.Obj().Name() == "Addr"
}

// num translates an integer-valued expression.
func (t *encTr) num(e ast.Expr) (string, ekind, error) {
	e = paren(e)
	ty := t.info.TypeOf(e)
	if v, ok := t.constVal(e); ok {
		if basicKind(ty) == types.Uint8 {
			return "(" + v + " : UInt8)", kU8, nil
		}
		return v, kNat, nil
	}
	switch x := e.(type) {
	case *ast.Ident:
		v, _ := t.obj(x)
		if v == nil || (v.kind != kNat && v.kind != kU8 && v.kind != kU16) {
			return "", 0, fail("identifier %s is not a translated integer variable", x.Name)
		}
		return v.lean, v.kind, nil
	case *ast.SelectorExpr:
		if s, k, ok := t.field(x); ok && (k == kNat || k == kU8) {
			return s, k, nil
		}
		return "", 0, fail("selector %s", exprStr(x))
	case *ast.CallExpr:
		if id, ok := x.Fun.(*ast.Ident); ok && (id.Name == "len" || id.Name == "cap") && len(x.Args) == 1 {
			if _, isBuiltin := t.info.Uses[id].(*types.Builtin); isBuiltin {
				v, _ := t.obj(x.Args[0])
				if v == nil {
					if s, k, ok := t.fieldExpr(x.Args[0]); ok && k == kBytes && id.Name == "len" {
						return s + ".length", kNat, nil
					}
					return "", 0, fail("%s of an expression that is not a variable", id.Name)
				}
				switch {
				case v.kind == kSl && id.Name == "len":
					return v.lean + ".len", kNat, nil
				case v.kind == kSl && id.Name == "cap":
					return "(" + v.lean + ".cap m)", kNat, nil
				case v.kind == kBytes && id.Name == "len":
					return v.lean + ".length", kNat, nil
				}
				return "", 0, fail("cap() of a read-only byte-slice argument (its capacity is not represented)")
			}
		}
		// conversion
		if tv, ok := t.info.Types[x.Fun]; ok && tv.IsType() && len(x.Args) == 1 {
			s, k, err := t.num(x.Args[0])
			if err != nil {
				return "", 0, err
			}
			from := basicKind(t.info.TypeOf(x.Args[0]))
			to := basicKind(tv.Type)
			switch to {
			case types.Uint8:
				switch k {
				case kU8:
					return s, kU8, nil
				case kNat:
					return "(UInt8.ofNat " + s + ")", kU8, nil
				case kU16:
					return s + ".toUInt8", kU8, nil
				}
			case types.Uint16:
				switch k {
				case kU16:
					return s, kU16, nil
				case kU8:
					return s + ".toNat", kNat, nil
				case kNat:
					if from == types.Uint16 {
						return s, kNat, nil
					}
					return "(" + s + " % 65536)", kNat, nil
				}
			case types.Int, types.Int64, types.Uint, types.Uint64:
				switch k {
				case kNat:
					return s, kNat, nil
				case kU8, kU16:
					return s + ".toNat", kNat, nil
				}
			}
			return "", 0, fail("conversion to %v", tv.Type)
		}
		// modelled / inlined method of a destination slice
		if s, k, err := t.methodCall(x); err == nil {
			if k == kNat || k == kU8 || k == kU16 {
				return s, k, nil
			}
			return "", 0, fail("call %s does not yield an integer", exprStr(x.Fun))
		} else {
			return "", 0, err
		}
	case *ast.BinaryExpr:
		a, ka, err := t.num(x.X)
		if err != nil {
			return "", 0, err
		}
		// shifts: constant count
		if x.Op == token.SHL || x.Op == token.SHR {
			c, ok := t.constVal(x.Y)
			if !ok {
				return "", 0, fail("shift by a non-constant")
			}
			n, _ := strconv.Atoi(c)
			op := map[token.Token]string{token.SHL: "<<<", token.SHR: ">>>"}[x.Op]
			switch ka {
			case kU8, kU16:
				if (ka == kU8 && n >= 8) || (ka == kU16 && n >= 16) {
					return "", 0, fail("machine-word shift by %d ≥ width", n)
				}
				return "(" + a + " " + op + " " + c + ")", ka, nil
			default:
				r := "(" + a + " " + op + " " + c + ")"
				if w := natWrap(ty); w != "" && x.Op == token.SHL {
					r = "(" + r + " % " + w + ")"
				}
				return r, kNat, nil
			}
		}
		b, kb, err := t.num(x.Y)
		if err != nil {
			return "", 0, err
		}
		if ka != kb {
			return "", 0, fail("operands of %s have different representations", x.Op)
		}
		var op string
		wrap := false
		switch x.Op {
		case token.ADD:
			op, wrap = "+", true
		case token.MUL:
			op, wrap = "*", true
		case token.OR:
			op = "|||"
		case token.AND:
			op = "&&&"
		case token.SUB:
			// only cap(x) - len(x) of the same slice: never negative by the slice invariant len ≤ cap
			cx, ok1 := paren(x.X).(*ast.CallExpr)
			cy, ok2 := paren(x.Y).(*ast.CallExpr)
			if ok1 && ok2 && exprStr(cx.Fun) == "cap" && exprStr(cy.Fun) == "len" && len(cx.Args) == 1 && len(cy.Args) == 1 {
				vx, ox := t.obj(cx.Args[0])
				_, oy := t.obj(cy.Args[0])
				if vx != nil && vx.kind == kSl && ox == oy {
					return "(" + vx.lean + ".cap m - " + vx.lean + ".len)", kNat, nil
				}
			}
			return "", 0, fail("subtraction other than cap(x)-len(x)")
		default:
			return "", 0, fail("operator %s", x.Op)
		}
		r := "(" + a + " " + op + " " + b + ")"
		if ka == kNat && wrap {
			if w := natWrap(ty); w != "" {
				r = "(" + r + " % " + w + ")"
			} else if k := basicKind(ty); k == types.Uint8 || k == types.Int8 || k == types.Int16 || k == types.Int32 {
				return "", 0, fail("arithmetic in %v", ty)
			}
		}
		return r, ka, nil
	}
	return "", 0, fail("integer expression form %T", e)
}

// field resolves x.F on a flattened struct parameter.
func (t *encTr) field(x *ast.SelectorExpr) (string, ekind, bool) {
	v, _ := t.obj(x.X)
	if v == nil || v.kind != kStruct {
		return "", 0, false
	}
	ty := t.info.TypeOf(x)
	switch {
	case isByteSlice(ty) || isNetipAddr(ty):
		return v.lean + "_" + x.Sel.Name, kBytes, true
	case basicKind(ty) == types.Uint16 || basicKind(ty) == types.Int:
		return v.lean + "_" + x.Sel.Name, kNat, true
	case basicKind(ty) == types.Uint8:
		return v.lean + "_" + x.Sel.Name, kU8, true
	}
	return "", 0, false
}

func (t *encTr) fieldExpr(e ast.Expr) (string, ekind, bool) {
	if s, ok := paren(e).(*ast.SelectorExpr); ok {
		return t.field(s)
	}
	return "", 0, false
}

// methodCall translates recv.M() for a destination slice recv: returns the Lean variable holding the result.
func (t *encTr) methodCall(c *ast.CallExpr) (string, ekind, error) {
	sel, ok := c.Fun.(*ast.SelectorExpr)
	if !ok || len(c.Args) != 0 {
		return "", 0, fail("call of %s", exprStr(c.Fun))
	}
	v, _ := t.obj(sel.X)
	if v == nil || v.kind != kSl {
		return "", 0, fail("call of %s", exprStr(c.Fun))
	}
	fn, ok := t.info.Uses[sel.Sel].(*types.Func)
	if !ok {
		return "", 0, fail("call of %s", exprStr(c.Fun))
	}
	recvT := ""
	if r := fn.Type().(*types.Signature).Recv(); r != nil {
		if n, ok := r.Type().(*types.Named); ok {
			recvT = n.Obj().Name()
		}
	}
	key := recvT + "." + fn.Name()
	if cal, ok := encCallees[key]; ok {
		t.callees[key+" = "+cal.fn] = true
		x := t.fresh()
		t.emit("let %s ← %s m %s", x, cal.fn, v.lean)
		return x, cal.kind, nil
	}
	// inline `func (p T) M() []byte { return p[c:] }`
	if fd := findFunc(t.p, recvT, fn.Name()); fd != nil && fd.Body != nil && len(fd.Body.List) == 1 && fd.Recv != nil &&
		len(fd.Recv.List) == 1 && len(fd.Recv.List[0].Names) == 1 {
		if rs, ok := fd.Body.List[0].(*ast.ReturnStmt); ok && len(rs.Results) == 1 {
			if sl, ok := paren(rs.Results[0]).(*ast.SliceExpr); ok && !sl.Slice3 && sl.High == nil && sl.Low != nil {
				if id, ok := paren(sl.X).(*ast.Ident); ok && t.info.Uses[id] == t.info.Defs[fd.Recv.List[0].Names[0]] {
					if lo, ok := t.constVal(sl.Low); ok {
						x := t.fresh()
						t.emit("let %s ← %s.from_ m %s", x, v.lean, lo)
						return x, kSl, nil
					}
				}
			}
		}
	}
	return "", 0, fail("call of %s (neither a modelled callee nor a `return p[c:]` getter)", key)
}

// bytesVal translates a read-only byte-string expression (copy source).
func (t *encTr) bytesVal(e ast.Expr) (string, error) {
	e = paren(e)
	switch x := e.(type) {
	case *ast.Ident:
		if v, _ := t.obj(x); v != nil && v.kind == kBytes {
			return v.lean, nil
		}
		if lit, ok := t.addrVars[x.Name]; ok {
			if _, isVar := t.info.Uses[x].(*types.Var); isVar {
				return lit, nil
			}
		}
		return "", fail("%s is not a read-only byte value", x.Name)
	case *ast.SelectorExpr:
		if s, k, ok := t.field(x); ok && k == kBytes {
			return s, nil
		}
	case *ast.SliceExpr:
		if x.Slice3 {
			break
		}
		s, err := t.bytesVal(x.X)
		if err != nil {
			return "", err
		}
		if x.Low == nil && x.High == nil {
			return s, nil
		}
		if x.Low == nil {
			if c, ok := t.constVal(x.High); ok && c == "6" {
				r := t.fresh()
				t.emit("let %s ← mac6 %s", r, s)
				return r, nil
			}
		}
		return "", fail("slice %s of a read-only value (only x[:] and x[:6] have a model primitive)", exprStr(x.X))
	case *ast.CallExpr:
		if sel, ok := x.Fun.(*ast.SelectorExpr); ok && len(x.Args) == 0 && isNetipAddr(t.info.TypeOf(sel.X)) {
			s, err := t.bytesVal(sel.X)
			if err != nil {
				return "", err
			}
			switch sel.Sel.Name {
			case "AsSlice":
				return s, nil
			case "As16":
				return "(as16 " + s + ")", nil
			case "As4":
				r := t.fresh()
				t.emit("let %s ← goAs4 %s", r, s)
				return r, nil
			}
		}
		if tv, ok := t.info.Types[x.Fun]; ok && tv.IsType() && len(x.Args) == 1 && isByteSlice(tv.Type) {
			return t.bytesVal(x.Args[0])
		}
	case *ast.CompositeLit:
		if isByteSlice(t.info.TypeOf(x)) {
			var bs []string
			for _, el := range x.Elts {
				c, ok := t.constVal(el)
				if !ok {
					return "", fail("non-constant element in a byte literal")
				}
				bs = append(bs, c)
			}
			return "([" + strings.Join(bs, ", ") + "] : Bytes)", nil
		}
	}
	return "", fail("byte-value expression form %T", e)
}

// slOf: a destination-slice variable, possibly under a conversion T(x)
func (t *encTr) slOf(e ast.Expr) *evar {
	e = paren(e)
	if c, ok := e.(*ast.CallExpr); ok && len(c.Args) == 1 {
		if tv, ok := t.info.Types[c.Fun]; ok && tv.IsType() && isByteSlice(tv.Type) {
			return t.slOf(c.Args[0])
		}
	}
	if v, _ := t.obj(e); v != nil && v.kind == kSl {
		return v
	}
	return nil
}

// sliceBounds: base[lo:hi] on a destination slice; hi == "" means open (len)
func (t *encTr) sliceBounds(e ast.Expr) (*evar, string, string, error) {
	sl, ok := paren(e).(*ast.SliceExpr)
	if !ok || sl.Slice3 {
		return nil, "", "", fail("not a 2-index slice expression")
	}
	base := t.slOf(sl.X)
	if base == nil {
		return nil, "", "", fail("slice of something other than a destination slice")
	}
	lo, hi := "0", ""
	if sl.Low != nil {
		s, k, err := t.num(sl.Low)
		if err != nil {
			return nil, "", "", err
		}
		if k != kNat {
			return nil, "", "", fail("slice bound is not an int")
		}
		lo = s
	}
	if sl.High != nil {
		s, k, err := t.num(sl.High)
		if err != nil {
			return nil, "", "", err
		}
		if k != kNat {
			s += ".toNat"
		}
		hi = s
	}
	return base, lo, hi, nil
}

// slValue binds a slice-valued expression (re-slice, conversion, modelled call) to a Lean Sl variable.
func (t *encTr) slValue(e ast.Expr, want string) (string, error) {
	e = paren(e)
	if v := t.slOf(e); v != nil {
		return v.lean, nil
	}
	if _, ok := e.(*ast.SliceExpr); ok {
		base, lo, hi, err := t.sliceBounds(e)
		if err != nil {
			return "", err
		}
		if want == "" {
			want = t.fresh()
		}
		if hi == "" {
			t.emit("let %s ← %s.from_ m %s", want, base.lean, lo)
		} else {
			t.emit("let %s ← %s.reslice m %s %s", want, base.lean, lo, hi)
		}
		return want, nil
	}
	if c, ok := e.(*ast.CallExpr); ok {
		s, k, err := t.methodCall(c)
		if err != nil {
			return "", err
		}
		if k != kSl {
			return "", fail("call does not yield a slice")
		}
		return s, nil
	}
	return "", fail("slice-valued expression form %T", e)
}

func (t *encTr) cond(e ast.Expr) (string, error) {
	e = paren(e)
	if v, _ := t.obj(e); v != nil && v.kind == kBool {
		return v.lean + " = true", nil
	}
	switch x := e.(type) {
	case *ast.UnaryExpr:
		if x.Op == token.NOT {
			c, err := t.cond(x.X)
			if err != nil {
				return "", err
			}
			return "¬ (" + c + ")", nil
		}
	case *ast.BinaryExpr:
		switch x.Op {
		case token.LOR, token.LAND:
			a, err := t.cond(x.X)
			if err != nil {
				return "", err
			}
			b, err := t.cond(x.Y)
			if err != nil {
				return "", err
			}
			op := map[token.Token]string{token.LOR: "∨", token.LAND: "∧"}[x.Op]
			return "(" + a + " " + op + " " + b + ")", nil
		case token.LSS, token.GTR, token.LEQ, token.GEQ, token.EQL, token.NEQ:
			if id, ok := paren(x.Y).(*ast.Ident); ok && id.Name == "nil" && (x.Op == token.EQL || x.Op == token.NEQ) {
				v, _ := t.obj(x.X)
				if v == nil || (v.kind != kSl && v.kind != kBytes) {
					return "", fail("nil comparison of something other than a slice argument")
				}
				t.assume[fmt.Sprintf("%s != nil", exprStr(x.X))] = true
				if x.Op == token.EQL {
					return "False", nil
				}
				return "True", nil
			}
			a, ka, err := t.num(x.X)
			if err != nil {
				return "", err
			}
			b, kb, err := t.num(x.Y)
			if err != nil {
				return "", err
			}
			if ka != kb {
				return "", fail("comparison of different representations")
			}
			op := map[token.Token]string{token.LSS: "<", token.GTR: ">", token.LEQ: "≤", token.GEQ: "≥", token.EQL: "=", token.NEQ: "≠"}[x.Op]
			return a + " " + op + " " + b, nil
		}
	case *ast.CallExpr:
		if sel, ok := x.Fun.(*ast.SelectorExpr); ok && len(x.Args) == 0 && sel.Sel.Name == "Is4" && isNetipAddr(t.info.TypeOf(sel.X)) {
			s, err := t.bytesVal(sel.X)
			if err != nil {
				return "", err
			}
			return s + ".length == 4", nil
		}
	}
	return "", fail("condition form %T", e)
}

func (t *encTr) bind(id *ast.Ident, kind ekind) *evar {
	o := t.info.Defs[id]
	if o == nil {
		o = t.info.Uses[id]
	}
	v := &evar{kind: kind, lean: leanName(id.Name)}
	if o != nil {
		t.env[o] = v
	}
	return v
}

// terminal translates `return …` / `panic(…)` into a Lean outcome expression.
func (t *encTr) terminal(s ast.Stmt) (string, error) {
	switch x := s.(type) {
	case *ast.ExprStmt:
		if c, ok := x.X.(*ast.CallExpr); ok {
			if id, ok := c.Fun.(*ast.Ident); ok && id.Name == "panic" {
				return ".panic", nil
			}
		}
	case *ast.ReturnStmt:
		if len(x.Results) != t.results {
			return "", fail("return with %d results", len(x.Results))
		}
		isNil := func(e ast.Expr) bool { id, ok := paren(e).(*ast.Ident); return ok && id.Name == "nil" }
		if t.results == 2 {
			if isNil(x.Results[0]) {
				id, ok := paren(x.Results[1]).(*ast.Ident)
				if !ok || leanErrs[id.Name] == "" {
					return "", fail("returned error is not a known sentinel")
				}
				return ".err ." + leanErrs[id.Name], nil
			}
			if !isNil(x.Results[1]) {
				return "", fail("return of a value together with a non-nil error")
			}
		}
		if isNil(x.Results[0]) {
			return ".ok (m, none)", nil
		}
		s, err := t.slValue(x.Results[0], "")
		if err != nil {
			return "", err
		}
		if t.nilRet {
			return "pure (m, some " + s + ")", nil
		}
		return "pure (m, " + s + ")", nil
	}
	return "", fail("statement %T where return/panic is required", s)
}

func (t *encTr) assign(lhs *ast.Ident, rhs ast.Expr) error {
	rhs = paren(rhs)
	ty := t.info.TypeOf(rhs)
	switch {
	case isByteSlice(ty) || isByteArray(ty) || isNetipAddr(ty):
		// destination re-slice / slice-valued call, or a read-only value
		isDst := false
		if sl, ok := rhs.(*ast.SliceExpr); ok && t.slOf(sl.X) != nil {
			isDst = true
		}
		if t.slOf(rhs) != nil {
			isDst = true
		}
		if c, ok := rhs.(*ast.CallExpr); ok {
			if sel, ok := c.Fun.(*ast.SelectorExpr); ok && t.slOf(sel.X) != nil {
				isDst = true
			}
			if id, ok := c.Fun.(*ast.Ident); ok && id.Name == "make" {
				// `b := make([]byte, C)` in a function without a destination argument: the one backing array of
				// the memory model is this fresh zeroed buffer
				if !t.ownMem || t.madeMem || len(c.Args) != 2 {
					return fail("make: a second allocation / an allocation next to a destination argument is outside the single-array memory model")
				}
				n, ok := t.constVal(c.Args[1])
				if !ok {
					return fail("make with a non-constant length")
				}
				t.madeMem = true
				t.emit("let m : Mem := List.replicate %s 0", n)
				t.emit("let %s : Sl := ⟨0, %s⟩", leanName(lhs.Name), n)
				t.bind(lhs, kSl)
				return nil
			}
		}
		if isDst {
			name := leanName(lhs.Name)
			s, err := t.slValue(rhs, name)
			if err != nil {
				return err
			}
			if s != name {
				t.emit("let %s := %s", name, s)
			}
			t.bind(lhs, kSl)
			return nil
		}
		s, err := t.bytesVal(rhs)
		if err != nil {
			return err
		}
		v, _ := t.obj(lhs)
		if v != nil && v.kind != kBytes {
			return fail("assignment changes the representation of %s", lhs.Name)
		}
		t.emit("let %s : Bytes := %s", leanName(lhs.Name), s)
		t.bind(lhs, kBytes)
		return nil
	case basicKind(ty) == types.Int && isCopyCall(t.info, rhs):
		c := rhs.(*ast.CallExpr)
		d, err := t.slValue(c.Args[0], "")
		if err != nil {
			return err
		}
		src, err := t.bytesVal(c.Args[1])
		if err != nil {
			return err
		}
		t.emit("let m := poke m %s.off (%s.take %s.len)", d, src, d)
		t.emit("let %s := min %s.len %s.length", leanName(lhs.Name), d, src)
		t.bind(lhs, kNat)
		return nil
	case basicKind(ty) != types.Invalid && basicKind(ty) != types.String && basicKind(ty) != types.Bool:
		s, k, err := t.num(rhs)
		if err != nil {
			return err
		}
		t.emit("let %s := %s", leanName(lhs.Name), s)
		t.bind(lhs, k)
		return nil
	}
	return fail("assignment of a value of type %v", ty)
}

func (t *encTr) stmt(s ast.Stmt) error {
	if t.done {
		return fail("statement after return")
	}
	switch x := s.(type) {
	case *ast.DeclStmt:
		gd, ok := x.Decl.(*ast.GenDecl)
		if !ok {
			return fail("declaration")
		}
		if gd.Tok == token.CONST {
			return nil // constants are resolved by go/types at their uses
		}
		if gd.Tok != token.VAR {
			return fail("declaration %s", gd.Tok)
		}
		for _, sp := range gd.Specs {
			vs := sp.(*ast.ValueSpec)
			if len(vs.Names) != 1 || len(vs.Values) != 1 {
				return fail("var declaration without a single initialiser")
			}
			if err := t.assign(vs.Names[0], vs.Values[0]); err != nil {
				return err
			}
		}
		return nil
	case *ast.AssignStmt:
		if l, ok := x.Lhs[0].(*ast.IndexExpr); ok && len(x.Lhs) == 1 && len(x.Rhs) == 1 && (x.Tok == token.OR_ASSIGN || x.Tok == token.AND_ASSIGN) {
			// b[i] |= e : read-modify-write of one byte
			base := t.slOf(l.X)
			if base == nil {
				return fail("store into something other than a destination slice")
			}
			i, ki, err := t.num(l.Index)
			if err != nil || ki != kNat {
				return fail("index of a read-modify-write is not an int")
			}
			v, kv, err := t.num(x.Rhs[0])
			if err != nil {
				return err
			}
			if kv != kU8 {
				return fail("operand of %s is not a byte", x.Tok)
			}
			op := map[token.Token]string{token.OR_ASSIGN: "|||", token.AND_ASSIGN: "&&&"}[x.Tok]
			r := t.fresh()
			t.emit("let %s ← %s.get8 m %s", r, base.lean, i)
			t.emit("let m ← %s.put8 m %s (%s %s %s)", base.lean, i, r, op, v)
			return nil
		}
		if len(x.Lhs) != 1 || len(x.Rhs) != 1 || (x.Tok != token.ASSIGN && x.Tok != token.DEFINE) {
			return fail("assignment form %s with %d targets", x.Tok, len(x.Lhs))
		}
		switch l := x.Lhs[0].(type) {
		case *ast.Ident:
			return t.assign(l, x.Rhs[0])
		case *ast.IndexExpr:
			base := t.slOf(l.X)
			if base == nil {
				return fail("store into something other than a destination slice")
			}
			i, ki, err := t.num(l.Index)
			if err != nil {
				return err
			}
			if ki != kNat {
				return fail("index is not an int")
			}
			v, kv, err := t.num(x.Rhs[0])
			if err != nil {
				return err
			}
			if kv != kU8 {
				return fail("stored value is not a byte")
			}
			t.emit("let m ← %s.put8 m %s %s", base.lean, i, v)
			return nil
		}
		return fail("assignment target %T", x.Lhs[0])
	case *ast.ExprStmt:
		c, ok := x.X.(*ast.CallExpr)
		if !ok {
			return fail("expression statement")
		}
		if id, ok := c.Fun.(*ast.Ident); ok {
			if _, isB := t.info.Uses[id].(*types.Builtin); isB && id.Name == "copy" && len(c.Args) == 2 {
				// Go evaluates the destination operand first, then the source; both can only panic, and nothing
				// is written in between, so hoisting the source (mac6 / goAs4) before the copy is outcome-equal.
				if _, ok := paren(c.Args[0]).(*ast.SliceExpr); ok {
					base, lo, hi, err := t.sliceBounds(c.Args[0])
					if err != nil {
						return err
					}
					src, err := t.bytesVal(c.Args[1])
					if err != nil {
						return err
					}
					if hi == "" {
						hi = base.lean + ".len"
					}
					t.emit("let m ← %s.copyAt m %s %s %s", base.lean, lo, hi, src)
					return nil
				}
				d, err := t.slValue(c.Args[0], "")
				if err != nil {
					return err
				}
				src, err := t.bytesVal(c.Args[1])
				if err != nil {
					return err
				}
				t.emit("let m := poke m %s.off (%s.take %s.len)", d, src, d)
				return nil
			}
			if id.Name == "panic" {
				t.emit(".panic")
				t.done = true
				return nil
			}
		}
		if sel, ok := c.Fun.(*ast.SelectorExpr); ok && len(c.Args) == 2 {
			if fn, ok := t.info.Uses[sel.Sel].(*types.Func); ok && fn.Pkg() != nil && fn.Pkg().Path() == "encoding/binary" {
				if isel, ok := sel.X.(*ast.SelectorExpr); !ok || isel.Sel.Name != "BigEndian" || sel.Sel.Name != "PutUint16" {
					return fail("encoding/binary call other than BigEndian.PutUint16")
				}
				sl, ok := paren(c.Args[0]).(*ast.SliceExpr)
				if ok && sl.Low != nil && sl.High == nil && !sl.Slice3 && t.slOf(sl.X) != nil {
					// PutUint16(b[e:], v): the window is b[e:len]; PutUint16 panics unless it holds two bytes
					lo, k, err := t.num(sl.Low)
					if err != nil || k != kNat {
						return fail("PutUint16 window offset is not an int")
					}
					v, k, err := t.num(c.Args[1])
					if err != nil {
						return err
					}
					if k != kNat {
						v += ".toNat"
					}
					t.emit("let m ← %s.put16From m %s %s", t.slOf(sl.X).lean, lo, v)
					return nil
				}
				if !ok || sl.Low == nil || sl.High == nil {
					return fail("PutUint16 destination is not b[a:a+2]")
				}
				base := t.slOf(sl.X)
				lo, ok1 := t.constVal(sl.Low)
				hi, ok2 := t.constVal(sl.High)
				if base == nil || !ok1 || !ok2 {
					return fail("PutUint16 destination is not a constant 2-byte window of a destination slice")
				}
				a, _ := strconv.Atoi(lo)
				b, _ := strconv.Atoi(hi)
				if b != a+2 {
					return fail("PutUint16 destination window is %d bytes", b-a)
				}
				v, k, err := t.num(c.Args[1])
				if err != nil {
					return err
				}
				if k != kNat {
					v += ".toNat"
				}
				t.emit("let m ← %s.put16 m %s %s", base.lean, lo, v)
				return nil
			}
		}
		return fail("call statement %s", exprStr(c.Fun))
	case *ast.IfStmt:
		if x.Init == nil && x.Else == nil && len(x.Body.List) >= 1 {
			all := true
			for _, b := range x.Body.List {
				all = all && isStore(t.info, b)
			}
			if all {
				// `if c { stores }`: the memory after the statement is the stored-into memory or the old one
				c, err := t.cond(x.Cond)
				if err != nil {
					return err
				}
				saved, ind := t.lines, t.indent
				t.lines, t.indent = nil, ind+"  "
				for _, b := range x.Body.List {
					if err := t.stmt(b); err != nil {
						t.lines, t.indent = saved, ind
						return err
					}
				}
				body := t.lines
				t.lines, t.indent = saved, ind
				t.emit("let m ← (if %s then (do", c)
				t.lines = append(t.lines, body...)
				t.emit("  pure m) else pure m)")
				return nil
			}
		}
		if x.Init != nil || x.Else != nil || len(x.Body.List) != 1 {
			return fail("if statement with init/else or a body of %d statements", len(x.Body.List))
		}
		body := x.Body.List[0]
		// conditional re-binding `if [!]c { v = e }` of a read-only value
		if as, ok := body.(*ast.AssignStmt); ok && len(as.Lhs) == 1 && len(as.Rhs) == 1 && as.Tok == token.ASSIGN {
			id, ok := as.Lhs[0].(*ast.Ident)
			if !ok {
				return fail("conditional store")
			}
			v, _ := t.obj(id)
			if v != nil && v.kind == kBytes {
				val, err := t.bytesVal(as.Rhs[0])
				if err != nil {
					return err
				}
				neg := false
				ce := paren(x.Cond)
				if u, ok := ce.(*ast.UnaryExpr); ok && u.Op == token.NOT {
					neg, ce = true, u.X
				}
				c, err := t.cond(ce)
				if err != nil {
					return err
				}
				if neg {
					t.emit("let %s : Bytes := if %s then %s else %s", v.lean, c, v.lean, val)
				} else {
					t.emit("let %s : Bytes := if %s then %s else %s", v.lean, c, val, v.lean)
				}
				return nil
			}
			if v != nil && v.kind == kSl {
				if c, ok := paren(as.Rhs[0]).(*ast.CallExpr); ok {
					if f, ok := c.Fun.(*ast.Ident); ok && f.Name == "make" {
						cs, err := t.cond(x.Cond)
						if err != nil {
							return err
						}
						t.assume["¬ ("+cs+"): otherwise a fresh buffer is allocated (outside the single-array memory model)"] = true
						t.emit("if %s then unmodelled else do", cs)
						t.indent += "  "
						return nil
					}
				}
			}
			return fail("conditional assignment to %s", id.Name)
		}
		term, err := func() (string, error) {
			// the guard's terminal must not emit hoisted lets outside the branch
			n := len(t.lines)
			s, err := t.terminal(body)
			if err == nil && len(t.lines) != n {
				return "", fail("guard returns a computed value")
			}
			return s, err
		}()
		if err != nil {
			return err
		}
		c, err := t.cond(x.Cond)
		if err != nil {
			return err
		}
		t.emit("if %s then %s else do", c, term)
		t.indent += "  "
		return nil
	case *ast.ReturnStmt:
		s, err := t.terminal(x)
		if err != nil {
			return err
		}
		t.emit("%s", s)
		t.done = true
		return nil
	}
	return fail("statement form %T", s)
}

func isCopyCall(info *types.Info, e ast.Expr) bool {
	c, ok := paren(e).(*ast.CallExpr)
	if !ok || len(c.Args) != 2 {
		return false
	}
	id, ok := c.Fun.(*ast.Ident)
	if !ok || id.Name != "copy" {
		return false
	}
	_, isB := info.Uses[id].(*types.Builtin)
	return isB
}

// isStore: a statement that only writes memory (allowed inside `if c { … }` without else)
func isStore(info *types.Info, s ast.Stmt) bool {
	switch x := s.(type) {
	case *ast.AssignStmt:
		if len(x.Lhs) == 1 {
			_, ok := x.Lhs[0].(*ast.IndexExpr)
			return ok
		}
	case *ast.ExprStmt:
		if isCopyCall(info, x.X) {
			return true
		}
		if c, ok := x.X.(*ast.CallExpr); ok {
			if sel, ok := c.Fun.(*ast.SelectorExpr); ok && sel.Sel.Name == "PutUint16" {
				return true
			}
		}
	}
	return false
}

// writtenSlices: identifiers of byte-slice type that are stored into, re-sliced, copied into or returned.
func writtenSlices(info *types.Info, fd *ast.FuncDecl) map[types.Object]bool {
	w := map[types.Object]bool{}
	base := func(e ast.Expr) {
		for {
			switch x := paren(e).(type) {
			case *ast.SliceExpr:
				e = x.X
				continue
			case *ast.IndexExpr:
				e = x.X
				continue
			case *ast.CallExpr:
				if len(x.Args) == 1 {
					if tv, ok := info.Types[x.Fun]; ok && tv.IsType() {
						e = x.Args[0]
						continue
					}
				}
				if sel, ok := x.Fun.(*ast.SelectorExpr); ok && len(x.Args) == 0 {
					e = sel.X
					continue
				}
			case *ast.Ident:
				if o := info.Uses[x]; o != nil {
					w[o] = true
				}
			}
			return
		}
	}
	ast.Inspect(fd.Body, func(n ast.Node) bool {
		switch x := n.(type) {
		case *ast.AssignStmt:
			for i, l := range x.Lhs {
				if _, ok := l.(*ast.IndexExpr); ok {
					base(l)
				}
				if id, ok := l.(*ast.Ident); ok && x.Tok == token.ASSIGN && i < len(x.Rhs) {
					if _, ok := paren(x.Rhs[i]).(*ast.SliceExpr); ok && isByteSlice(info.TypeOf(id)) {
						base(l)
					}
				}
			}
		case *ast.CallExpr:
			if id, ok := x.Fun.(*ast.Ident); ok && id.Name == "copy" && len(x.Args) == 2 {
				base(x.Args[0])
			}
			if sel, ok := x.Fun.(*ast.SelectorExpr); ok && strings.HasPrefix(sel.Sel.Name, "PutUint") && len(x.Args) == 2 {
				base(x.Args[0])
			}
		case *ast.ReturnStmt:
			if len(x.Results) > 0 {
				base(x.Results[0])
			}
		}
		return true
	})
	return w
}

type encResult struct {
	name, src, sig string
	lines          []string
	err            error
	assume         []string
	// calling convention of the generated Lean function (used by senders.go): one entry per Go receiver/parameter,
	// "Sl" | "Bytes" | "Bool" | "UInt8" | "Nat" | "struct:<field kinds>"; opt = result is Option Sl; ownMem = no (m : Mem) argument
	kinds   []string
	opt     bool
	ownMem  bool
	results int
}

func translateEncoder(p *packages.Package, fd *ast.FuncDecl, name string, addrVars map[string]string, callees map[string]bool) encResult {
	info := p.TypesInfo
	t := &encTr{p: p, info: info, name: name, env: map[types.Object]*evar{}, indent: "  ", assume: map[string]bool{}, callees: callees, addrVars: addrVars}
	res := encResult{name: name}
	pos := fset.Position(fd.Pos())
	res.src = fmt.Sprintf("%s (%s)", strings.Replace(types.ExprString(fd.Type), "func(", "func "+strings.Replace(name, "_", ".", 1)+"(", 1), pos.Filename[strings.LastIndex(pos.Filename, "/")+1:])
	fn := info.Defs[fd.Name].(*types.Func)
	sig := fn.Type().(*types.Signature)
	written := writtenSlices(info, fd)
	params := []string{"(m : Mem)"}
	add := func(v *types.Var, isRecv bool) error {
		if v.Name() == "" || v.Name() == "_" {
			return fail("unnamed parameter")
		}
		ln := leanName(v.Name())
		ty := v.Type()
		switch {
		case isByteSlice(ty) && (isRecv || written[v]):
			t.env[v] = &evar{kSl, ln}
			res.kinds = append(res.kinds, "Sl")
			params = append(params, fmt.Sprintf("(%s : Sl)", ln))
		case isByteSlice(ty) || isNetipAddr(ty):
			t.env[v] = &evar{kBytes, ln}
			res.kinds = append(res.kinds, "Bytes")
			params = append(params, fmt.Sprintf("(%s : Bytes)", ln))
		case basicKind(ty) == types.Bool:
			t.env[v] = &evar{kBool, ln}
			res.kinds = append(res.kinds, "Bool")
			params = append(params, fmt.Sprintf("(%s : Bool)", ln))
		case basicKind(ty) == types.Uint8:
			t.env[v] = &evar{kU8, ln}
			res.kinds = append(res.kinds, "UInt8")
			params = append(params, fmt.Sprintf("(%s : UInt8)", ln))
		case basicKind(ty) == types.Uint16 || basicKind(ty) == types.Int:
			t.env[v] = &evar{kNat, ln}
			res.kinds = append(res.kinds, "Nat")
			params = append(params, fmt.Sprintf("(%s : Nat)", ln))
		default:
			st, ok := ty.Underlying().(*types.Struct)
			if !ok {
				return fail("parameter %s of type %v", v.Name(), ty)
			}
			t.env[v] = &evar{kStruct, ln}
			var fk []string
			defer func() { res.kinds = append(res.kinds, "struct:"+strings.Join(fk, ",")) }()
			for i := 0; i < st.NumFields(); i++ {
				fk = append(fk, st.Field(i).Name())
				f := st.Field(i)
				switch {
				case isByteSlice(f.Type()) || isNetipAddr(f.Type()):
					params = append(params, fmt.Sprintf("(%s_%s : Bytes)", ln, f.Name()))
				case basicKind(f.Type()) == types.Uint16 || basicKind(f.Type()) == types.Int:
					params = append(params, fmt.Sprintf("(%s_%s : Nat)", ln, f.Name()))
				case basicKind(f.Type()) == types.Uint8:
					params = append(params, fmt.Sprintf("(%s_%s : UInt8)", ln, f.Name()))
				default:
					return fail("field %s.%s of type %v", v.Name(), f.Name(), f.Type())
				}
			}
		}
		return nil
	}
	if r := sig.Recv(); r != nil {
		if res.err = add(r, true); res.err != nil {
			return res
		}
	}
	for i := 0; i < sig.Params().Len(); i++ {
		if res.err = add(sig.Params().At(i), false); res.err != nil {
			return res
		}
	}
	t.ownMem = true
	for _, v := range t.env {
		if v.kind == kSl {
			t.ownMem = false
		}
	}
	if t.ownMem {
		params = params[1:]
	}
	t.results = sig.Results().Len()
	if t.results < 1 || t.results > 2 || !isByteSlice(sig.Results().At(0).Type()) {
		res.err = fail("result list %v", sig.Results())
		return res
	}
	if t.results == 2 {
		if n, ok := sig.Results().At(1).Type().(*types.Named); !ok || n.Obj().Name() != "error" {
			res.err = fail("second result is not error")
			return res
		}
	} else {
		ast.Inspect(fd.Body, func(n ast.Node) bool {
			if rs, ok := n.(*ast.ReturnStmt); ok && len(rs.Results) == 1 {
				if id, ok := paren(rs.Results[0]).(*ast.Ident); ok && id.Name == "nil" {
					t.nilRet = true
				}
			}
			return true
		})
	}
	for _, s := range fd.Body.List {
		if res.err = t.stmt(s); res.err != nil {
			res.err = fail("line %d: %v", fset.Position(s.Pos()).Line-pos.Line, res.err)
			return res
		}
	}
	if !t.done {
		res.err = fail("body does not end in return")
		return res
	}
	if t.ownMem && !t.madeMem {
		res.err = fail("no destination argument and no make([]byte, n)")
		return res
	}
	rt := "Sl"
	if t.nilRet {
		rt = "Option Sl"
	}
	res.opt, res.ownMem, res.results = t.nilRet, t.ownMem, t.results
	res.sig = fmt.Sprintf("def %s %s : Outcome (Mem × %s) := do", name, strings.Join(params, " "), rt)
	res.lines = t.lines
	for a := range t.assume {
		res.assume = append(res.assume, a)
	}
	sort.Strings(res.assume)
	return res
}

// packageAddrVars: package-level `X = netip.MustParseAddr("literal")` variables as Lean byte lists.
func packageAddrVars(p *packages.Package) map[string]string {
	m := map[string]string{}
	for _, f := range p.Syntax {
		for _, d := range f.Decls {
			gd, ok := d.(*ast.GenDecl)
			if !ok || gd.Tok != token.VAR {
				continue
			}
			for _, sp := range gd.Specs {
				vs := sp.(*ast.ValueSpec)
				if len(vs.Names) != 1 || len(vs.Values) != 1 {
					continue
				}
				c, ok := vs.Values[0].(*ast.CallExpr)
				if !ok || len(c.Args) != 1 || exprStr(c.Fun) != "netip.MustParseAddr" {
					continue
				}
				lit, ok := c.Args[0].(*ast.BasicLit)
				if !ok || lit.Kind != token.STRING {
					continue
				}
				s, err := strconv.Unquote(lit.Value)
				if err != nil {
					continue
				}
				a, err := netip.ParseAddr(s)
				if err != nil {
					continue
				}
				var bs []string
				for _, b := range a.AsSlice() {
					bs = append(bs, fmt.Sprint(b))
				}
				m[vs.Names[0].Name] = "([" + strings.Join(bs, ", ") + "] : Bytes)"
			}
		}
	}
	return m
}

func encoderFacts(p *packages.Package, b *strings.Builder) {
	type cand struct {
		name string
		fd   *ast.FuncDecl
	}
	var cs []cand
	for _, f := range p.Syntax {
		for _, d := range f.Decls {
			fd, ok := d.(*ast.FuncDecl)
			if !ok || fd.Body == nil || !fd.Name.IsExported() {
				continue
			}
			if fd.Recv == nil && (strings.HasPrefix(fd.Name.Name, "Encode") || strings.HasSuffix(fd.Name.Name, "Marshal")) {
				cs = append(cs, cand{fd.Name.Name, fd})
			}
			if fd.Recv != nil && len(fd.Recv.List) == 1 && (fd.Name.Name == "SetPayload" || fd.Name.Name == "AppendPayload") {
				if id, ok := fd.Recv.List[0].Type.(*ast.Ident); ok {
					cs = append(cs, cand{id.Name + "_" + fd.Name.Name, fd})
				}
			}
		}
	}
	sort.Slice(cs, func(i, j int) bool { return cs[i].name < cs[j].name })
	addr := packageAddrVars(p)
	callees := map[string]bool{}
	var done, untr, assume []string
	b.WriteString("/- GENERATED by /verif/tools/goextract (encoders.go) from the Go sources in /repo — do not edit. -/\n")
	b.WriteString("import PacketVerif.Model.Encode\nimport PacketVerif.Model.EncodeGo\nset_option linter.unusedVariables false\nnamespace PV.Gen.Enc\nopen PV PV.Model\n\n")
	for _, c := range cs {
		r := translateEncoder(p, c.fd, c.name, addr, callees)
		if r.err != nil {
			untr = append(untr, fmt.Sprintf("(%q, %q)", c.name, r.err.Error()))
			continue
		}
		done = append(done, fmt.Sprintf("%q", c.name))
		for _, a := range r.assume {
			assume = append(assume, fmt.Sprintf("(%q, %q)", c.name, a))
		}
		fmt.Fprintf(b, "/-- Go: %s -/\n%s\n%s\n\n", strings.ReplaceAll(r.src, "-/", "- /"), r.sig, strings.Join(r.lines, "\n"))
	}
	var cl []string
	for c := range callees {
		cl = append(cl, fmt.Sprintf("%q", c))
	}
	sort.Strings(cl)
	fmt.Fprintf(b, "/-- F7: the encoders translated above -/\ndef encodersTranslated : List String := [%s]\n\n", strings.Join(done, ", "))
	fmt.Fprintf(b, "/-- F7: candidates (Encode*, SetPayload, AppendPayload) the translator could NOT express, with the first offending construct -/\ndef encodersUntranslated : List (String × String) := [\n  %s]\n\n", strings.Join(untr, ",\n  "))
	fmt.Fprintf(b, "/-- F7: assumptions under which a translation is exact -/\ndef encoderAssumptions : List (String × String) := [\n  %s]\n\n", strings.Join(assume, ",\n  "))
	fmt.Fprintf(b, "/-- F7: read-side methods replaced by their model function (Go method = Lean function) -/\ndef encoderCallees : List String := [%s]\n\n", strings.Join(cl, ", "))
	b.WriteString("end PV.Gen.Enc\n")
}
