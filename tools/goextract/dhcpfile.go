// dhcpfile.go — F19: the DHCPv4 lease-file logic and handler construction of handlers/dhcp4_spoofer
// (newSubnet, configChanged, loadConfig, loadByteArray, saveConfig, Config.New) translated statement by statement
// into Lean `do` blocks over the vocabulary of lean/PacketVerif/Model/DhcpFileGo.lean  →  Gen/DhcpFileGen.lean.
// The tie theorems are in Props/C18FileTie.lean.  Anything without a supported form REFUSES the function (it is listed
// in dhcpFileUntranslated with the first offending construct and its definition is not emitted); ignored statements
// (logs, stores to fields that are not represented) are listed in dhcpFileIgnored, dictionary callees in dhcpFileCallees.
package main

import (
	"bytes"
	"fmt"
	"go/ast"
	"go/constant"
	"go/printer"
	"go/token"
	"go/types"
	"sort"
	"strings"

	"golang.org/x/tools/go/packages"
)

type dfFn struct {
	key    string // Recv.Name or Name
	lean   string
	header string   // parameters
	result string   // Lean result type
	kind   string   // "outcome" ((values…, error) → Outcome tuple), "errbool" (sole error result → Bool), "bool"
	fs     bool     // threads the file-system effect list
	named  []string // Lean declarations of named results
}

var dfFuncs = []dfFn{
	{key: "newSubnet", lean: "newSubnet", header: "(config : SubRec)", result: "Outcome GSubnet", kind: "outcome"},
	{key: "configChanged", lean: "configChanged", header: "(config current : SubRec)", result: "Outcome Bool", kind: "bool"},
	{key: "Handler.loadByteArray", lean: "Handler_loadByteArray", header: "(env : Env) (source : Bytes)", result: "Outcome (Option GSubnet × Option GSubnet × Option Table)", kind: "outcome",
		named: []string{"let mut net1 : Option GSubnet := none", "let mut net2 : Option GSubnet := none", "let mut t : Option Table := none"}},
	{key: "Handler.loadConfig", lean: "Handler_loadConfig", header: "(env : Env) (fname : String)", result: "Outcome (Option GSubnet × Option GSubnet × Option Table)", kind: "outcome",
		named: []string{"let mut net1 : Option GSubnet := none", "let mut net2 : Option GSubnet := none", "let mut t : Option Table := none"}},
	{key: "Handler.saveConfig", lean: "Handler_saveConfig", header: "(env : Env) (fs : List FsOp) (h : GHandler) (fname : String)", result: "Outcome (Bool × List FsOp)", kind: "errbool", fs: true,
		named: []string{"let mut err : Bool := false"}},
	{key: "Config.New", lean: "Config_New", header: "(env : Env) (fs : List FsOp) (config : GConfig) (nic : GNic)", result: "Outcome (GHandler × List FsOp)", kind: "outcome", fs: true,
		named: []string{"let mut h : GHandler := zeroHandler", "let mut err : Bool := false"}},
}

type dfT struct {
	info      *types.Info
	fn        *dfFn
	decl      *ast.FuncDecl
	refusal   string
	ignored   *[]string
	callees   map[string]bool
	declared  map[string]bool
	mutParams []string
}

func dfSrc(n ast.Node) string {
	var b bytes.Buffer
	printer.Fprint(&b, fset, n)
	s := strings.Join(strings.Fields(b.String()), " ")
	if len(s) > 110 {
		s = s[:110] + "…"
	}
	return s
}

func (t *dfT) refuse(n ast.Node, why string) string {
	if t.refusal == "" {
		t.refusal = fmt.Sprintf("%s: %s: %s", fset.Position(n.Pos()).String()[strings.LastIndex(fset.Position(n.Pos()).String(), "/")+1:], why, dfSrc(n))
	}
	return "REFUSED"
}

func (t *dfT) ignore(n ast.Node, why string) {
	*t.ignored = append(*t.ignored, fmt.Sprintf("%s: %s: %s", t.fn.key, why, dfSrc(n)))
}

// kind classifies a Go type into the representation the dictionary gives it.
func dfKind(ty types.Type) string {
	if ty == nil {
		return "?"
	}
	s := ty.String()
	s = strings.ReplaceAll(s, "github.com/irai/packet/handlers/dhcp4_spoofer.", "")
	s = strings.ReplaceAll(s, "github.com/irai/packet.", "packet.")
	switch s {
	case "SubnetConfig":
		return "SubRec"
	case "*SubnetConfig":
		return "ptr:SubRec"
	case "dhcpSubnet":
		return "GSubnet"
	case "*dhcpSubnet":
		return "ptr:GSubnet"
	case "Lease":
		return "Lease"
	case "*Lease":
		return "ptr:Lease"
	case "[]Lease":
		return "Leases"
	case "map[string]*Lease":
		return "Table"
	case "*Handler":
		return "Handler"
	case "Handler":
		return "HandlerV"
	case "Config":
		return "Config"
	case "net/netip.Addr":
		return "Addr"
	case "net/netip.Prefix":
		return "Prefix"
	case "error":
		return "error"
	case "[]byte", "net.HardwareAddr", "net.IPMask", "[4]byte", "[]uint8", "[4]uint8":
		return "Bytes"
	case "string":
		return "String"
	case "bool":
		return "Bool"
	case "*packet.Session":
		return "Session"
	case "packet.DHCP4Options":
		return "Options"
	}
	if strings.HasPrefix(s, "struct{Net1 ") {
		return "FileRec"
	}
	if strings.HasPrefix(s, "*struct{Net1 ") {
		return "ptr:FileRec"
	}
	return s
}

func (t *dfT) kindOf(e ast.Expr) string { return dfKind(t.info.TypeOf(e)) }

var dfSubRecField = map[string]string{"LAN": "lan", "DefaultGW": "gw", "DHCPServer": "server", "DNSServer": "dns", "FirstIP": "first", "Duration": "dur", "Stage": "stage"}
var dfSubnetField = map[string]string{"SubnetConfig": "cfg", "broadcast": "broadcast", "options": "options", "nextIP": "nextIP"}
var dfHandlerField = map[string]string{"table": "table", "net1": "net1", "net2": "net2", "filename": "filename", "mode": "mode"}
var dfConfigField = map[string]string{"Mode": "mode", "NetfilterIP": "netfilterIP", "DNSServer": "dns", "LeaseFilename": "filename"}
var dfFileRecField = map[string]string{"Net1": "net1", "Net2": "net2", "Leases": "leases"}
var dfNic = map[string]string{"session.NICInfo.HomeLAN4": "nic.homeLAN4", "session.NICInfo.RouterAddr4.IP": "nic.router", "session.NICInfo.HostAddr4.IP": "nic.host"}

// fieldPath: the Lean field path of selecting `name` on a value of kind k ("" = not representable).
func dfFieldPath(k, name string) string {
	k = strings.TrimPrefix(k, "ptr:")
	switch k {
	case "SubRec":
		return dfSubRecField[name]
	case "GSubnet":
		if f, ok := dfSubnetField[name]; ok {
			return f
		}
		if f, ok := dfSubRecField[name]; ok {
			return "cfg." + f
		}
	case "Handler", "HandlerV":
		return dfHandlerField[name]
	case "Config":
		return dfConfigField[name]
	case "FileRec":
		return dfFileRecField[name]
	case "Lease":
		return map[string]string{"ClientID": "r.cid", "State": "r.state", "subnet": "sub"}[name]
	}
	return ""
}

func dfConst(tv types.TypeAndValue) (string, bool) {
	if tv.Value == nil {
		return "", false
	}
	switch tv.Value.Kind() {
	case constant.Int:
		v, ok := constant.Int64Val(tv.Value)
		if !ok {
			return "", false
		}
		if tv.Type != nil && tv.Type.String() == "time.Duration" {
			if v%1000000000 != 0 {
				return "", false
			}
			v /= 1000000000 // durations are in seconds in the model
		}
		if v < 0 {
			return fmt.Sprintf("(%d)", v), true
		}
		return fmt.Sprintf("%d", v), true
	case constant.String:
		return fmt.Sprintf("%q", constant.StringVal(tv.Value)), true
	case constant.Bool:
		return fmt.Sprintf("%v", constant.BoolVal(tv.Value)), true
	}
	return "", false
}

// expr translates an expression; eff = the text contains a nested action `(← …)` (can panic / fail).
func (t *dfT) expr(e ast.Expr) (string, bool) {
	if tv, ok := t.info.Types[e]; ok {
		if s, ok := dfConst(tv); ok {
			return s, false
		}
	}
	switch x := e.(type) {
	case *ast.ParenExpr:
		s, eff := t.expr(x.X)
		return "(" + s + ")", eff
	case *ast.Ident:
		if x.Name == "nil" {
			return "none", false
		}
		if x.Name == "true" || x.Name == "false" {
			return x.Name, false
		}
		return x.Name, false
	case *ast.SelectorExpr:
		src := dfSrc(x)
		if s, ok := dfNic[src]; ok {
			return s, false
		}
		if src == "packet.DNSv4CloudFlareFamily1" {
			return "familyDNSAddr", false
		}
		// v.Addr.IP / v.Addr.MAC on a Lease value
		if in, ok := x.X.(*ast.SelectorExpr); ok && in.Sel.Name == "Addr" && t.kindOf(in.X) == "Lease" && (x.Sel.Name == "IP" || x.Sel.Name == "MAC") {
			b, eff := t.expr(in.X)
			return b + ".r." + strings.ToLower(x.Sel.Name), eff
		}
		k := t.kindOf(x.X)
		if k == "ptr:Lease" && x.Sel.Name == "State" {
			b, eff := t.expr(x.X)
			return "(entryState " + b + ")", eff
		}
		p := dfFieldPath(k, x.Sel.Name)
		if p == "" {
			return t.refuse(x, "field not represented"), false
		}
		b, eff := t.expr(x.X)
		if strings.HasPrefix(k, "ptr:") {
			return "(← deref " + b + ")." + p, true
		}
		return b + "." + p, eff
	case *ast.UnaryExpr:
		s, eff := t.expr(x.X)
		switch x.Op {
		case token.NOT:
			return "(!" + s + ")", eff
		case token.XOR:
			return "(~~~" + s + ")", eff
		case token.AND:
			k := t.kindOf(x.X)
			if k == "GSubnet" && t.fn.key == "newSubnet" { // `return &subnet, nil`: the caller wraps the object
				return s, eff
			}
			if k == "SubRec" || k == "GSubnet" {
				return "(some " + s + ")", eff
			}
			if k == "Lease" { // `&l` stored into the lease map: storeLease takes the value
				return s, eff
			}
			if k == "HandlerV" { // *Handler is never nil in the translated functions: the object itself
				return s, eff
			}
			return t.refuse(x, "address-of"), false
		}
	case *ast.StarExpr:
		if t.kindOf(x.X) == "ptr:Lease" {
			s, eff := t.expr(x.X)
			return "(leaseValue " + s + ")", eff
		}
	case *ast.BinaryExpr:
		return t.binary(x)
	case *ast.IndexExpr:
		if t.kindOf(x.X) == "Bytes" {
			a, _ := t.expr(x.X)
			i, _ := t.expr(x.Index)
			return "(← idxN " + a + " " + i + ")", true
		}
	case *ast.CallExpr:
		return t.call(x)
	case *ast.CompositeLit:
		return t.complit(x)
	}
	return t.refuse(e, "expression form not supported"), false
}

func (t *dfT) binary(x *ast.BinaryExpr) (string, bool) {
	// comparisons with nil
	if id, ok := x.Y.(*ast.Ident); ok && id.Name == "nil" && (x.Op == token.EQL || x.Op == token.NEQ) {
		k := t.kindOf(x.X)
		a, eff := t.expr(x.X)
		switch {
		case k == "error":
			if x.Op == token.EQL {
				return "(!" + a + ")", eff
			}
			return a, eff
		case k == "Bytes": // a nil byte slice is the empty one (length-only view)
			if x.Op == token.EQL {
				return a + ".isEmpty", eff
			}
			return "(!" + a + ".isEmpty)", eff
		case strings.HasPrefix(k, "ptr:") || k == "Table" || k == "Leases":
			if x.Op == token.EQL {
				return a + ".isNone", eff
			}
			return a + ".isSome", eff
		}
		return t.refuse(x, "nil comparison"), false
	}
	a, ea := t.expr(x.X)
	b, eb := t.expr(x.Y)
	switch x.Op {
	case token.LOR, token.LAND:
		fn, op := "orElseM", "||"
		if x.Op == token.LAND {
			fn, op = "andThenM", "&&"
		}
		if eb { // the right operand is evaluated only when Go evaluates it
			return "(← " + fn + " " + par(a) + " (do pure " + par(b) + "))", true
		}
		return "(" + a + " " + op + " " + b + ")", ea
	case token.EQL:
		return "(" + a + " == " + b + ")", ea || eb
	case token.NEQ:
		return "(" + a + " != " + b + ")", ea || eb
	case token.LSS:
		return "(decide (" + a + " < " + b + "))", ea || eb
	case token.LEQ:
		return "(decide (" + a + " ≤ " + b + "))", ea || eb
	case token.GTR:
		return "(decide (" + a + " > " + b + "))", ea || eb
	case token.GEQ:
		return "(decide (" + a + " ≥ " + b + "))", ea || eb
	case token.OR:
		return "(" + a + " ||| " + b + ")", ea || eb
	case token.SUB:
		return "(" + a + " - " + b + ")", ea || eb
	case token.ADD:
		if t.kindOf(x.X) == "String" {
			return "(" + a + " ++ " + b + ")", ea || eb
		}
	}
	return t.refuse(x, "operator not supported"), false
}

func par(s string) string {
	if strings.HasPrefix(s, "(") || !strings.ContainsAny(s, " ") {
		return s
	}
	return "(" + s + ")"
}

func (t *dfT) args(xs []ast.Expr) (string, bool) {
	var out []string
	eff := false
	for _, a := range xs {
		s, e := t.expr(a)
		out = append(out, par(s))
		eff = eff || e
	}
	return strings.Join(out, " "), eff
}

var dfMethods = map[string]string{
	"Prefix.IsValid": "prefixIsValid", "Prefix.Addr": "prefixAddr", "Prefix.Bits": "prefixBits", "Prefix.Masked": "prefixMasked", "Prefix.Contains": "prefixContains",
	"Addr.Is4": "addrIs4", "Addr.IsValid": "addrIsValid", "Addr.IsUnspecified": "addrIsUnspecified", "Addr.Next": "addrNext", "Addr.AsSlice": "addrAsSlice",
}

func (t *dfT) call(c *ast.CallExpr) (string, bool) {
	src := dfSrc(c.Fun)
	switch src {
	case "netip.AddrFrom4":
		a, eff := t.args(c.Args)
		t.callees[src] = true
		return "(addrFrom4 " + a + ")", eff
	case "net.CIDRMask":
		a, eff := t.args(c.Args)
		t.callees[src] = true
		return "(cidrMask " + a + ")", eff
	case "netip.PrefixFrom":
		a, eff := t.args(c.Args)
		t.callees[src] = true
		return "(prefixFrom " + a + ")", eff
	case "len":
		a, eff := t.expr(c.Args[0])
		if t.kindOf(c.Args[0]) == "Bytes" {
			return a + ".length", eff
		}
	case "string", "[]byte":
		return t.expr(c.Args[0])
	case "configChanged":
		a, _ := t.args(c.Args)
		return "(← configChanged " + a + ")", true
	case "sealLeaseFile":
		a, eff := t.args(c.Args)
		t.callees[src] = true
		return "(sealLeaseFile env " + a + ")", eff
	case "handler.session.IsCaptured", "h.session.IsCaptured":
		a, eff := t.args(c.Args)
		t.callees["Session.IsCaptured"] = true
		return "(env.captured " + a + ")", eff
	case "make":
		if t.kindOf(c) == "Table" && len(c.Args) == 1 {
			return "(some [])", false
		}
	case "append":
		if t.kindOf(c.Args[0]) == "Leases" && len(c.Args) == 2 {
			a, eff := t.args(c.Args)
			return "(sliceAppend " + a + ")", eff
		}
	}
	if sel, ok := c.Fun.(*ast.SelectorExpr); ok {
		k := t.kindOf(sel.X)
		if m, ok := dfMethods[k+"."+sel.Sel.Name]; ok {
			r, e1 := t.expr(sel.X)
			a, e2 := t.args(c.Args)
			t.callees["netip."+k+"."+sel.Sel.Name] = true
			return strings.TrimSpace("("+m+" "+par(r)+" "+a) + ")", e1 || e2
		}
		if k == "Addr" && sel.Sel.Name == "As4" {
			r, _ := t.expr(sel.X)
			t.callees["netip.Addr.As4"] = true
			return "(← addrAs4 " + par(r) + ")", true
		}
	}
	return t.refuse(c, "call of a function that is neither translated nor in the dictionary"), false
}

func (t *dfT) complit(x *ast.CompositeLit) (string, bool) {
	k := t.kindOf(x)
	zero := map[string]string{"HandlerV": "zeroHandler", "SubRec": "zeroSubRec", "GSubnet": "zeroSubnet", "Lease": "zeroLease", "FileRec": "emptyRec"}
	switch k {
	case "Table":
		if len(x.Elts) == 0 {
			return "(some [])", false
		}
	case "Options":
		var rows []string
		eff := false
		for _, el := range x.Elts {
			kv, ok := el.(*ast.KeyValueExpr)
			if !ok {
				return t.refuse(x, "map literal"), false
			}
			ks, _ := t.expr(kv.Key)
			vs, e := t.expr(kv.Value)
			eff = eff || e
			rows = append(rows, "("+ks+", "+vs+")")
		}
		return "[" + strings.Join(rows, ", ") + "]", eff
	case "SubRec", "GSubnet", "Lease", "FileRec", "HandlerV":
		if len(x.Elts) == 0 {
			return zero[k], false
		}
		var fs []string
		eff := false
		for _, el := range x.Elts {
			kv, ok := el.(*ast.KeyValueExpr)
			if !ok {
				return t.refuse(x, "positional struct literal"), false
			}
			name := kv.Key.(*ast.Ident).Name
			p := dfFieldPath(k, name)
			if p == "" {
				return t.refuse(kv, "field not represented"), false
			}
			vs, e := t.expr(kv.Value)
			eff = eff || e
			fs = append(fs, p+" := "+vs)
		}
		return "{ " + zero[k] + " with " + strings.Join(fs, ", ") + " }", eff
	}
	return t.refuse(x, "composite literal"), false
}

// ---- statements ----

func dfIsLogCall(e ast.Expr) bool {
	c, ok := e.(*ast.CallExpr)
	if !ok {
		return false
	}
	s := dfSrc(c.Fun)
	return strings.HasPrefix(s, "Logger.") || s == "fmt.Printf" || s == "fmt.Println"
}

func dfLogOnly(b *ast.BlockStmt) bool {
	for _, s := range b.List {
		es, ok := s.(*ast.ExprStmt)
		if !ok || !dfIsLogCall(es.X) {
			return false
		}
	}
	return true
}

// condition free of effects and of calls other than the listed pure ones (for log-only ifs)
func dfPureCond(e ast.Expr) bool {
	pure := true
	ast.Inspect(e, func(n ast.Node) bool {
		if c, ok := n.(*ast.CallExpr); ok {
			s := dfSrc(c.Fun)
			if !(strings.HasPrefix(s, "Logger.Is") || s == "os.IsNotExist") {
				pure = false
			}
		}
		return true
	})
	return pure
}

func (t *dfT) errIsNonNil(e ast.Expr) bool { // the error operand of a return: anything but the literal nil
	id, ok := e.(*ast.Ident)
	return !(ok && id.Name == "nil")
}

// isErrReturn: `if err != nil { [logs;] return nil…, <non-nil> }`
func (t *dfT) isErrCheck(s ast.Stmt) bool {
	is, ok := s.(*ast.IfStmt)
	if !ok || is.Init != nil || is.Else != nil || dfSrc(is.Cond) != "err != nil" || len(is.Body.List) != 1 {
		return false
	}
	r, ok := is.Body.List[0].(*ast.ReturnStmt)
	if !ok || len(r.Results) == 0 || !t.errIsNonNil(r.Results[len(r.Results)-1]) {
		return false
	}
	for _, x := range r.Results[:len(r.Results)-1] {
		if id, ok := x.(*ast.Ident); !ok || id.Name != "nil" {
			return false
		}
	}
	return true
}

// errCallText: Lean action for a call whose error result is propagated (`Outcome`), or "".
func (t *dfT) errCallText(c *ast.CallExpr) string {
	switch dfSrc(c.Fun) {
	case "newSubnet", "openLeaseFile", "ioutil.ReadFile", "handler.loadByteArray", "h.loadConfig":
	default:
		return ""
	}
	a, _ := t.args(c.Args)
	switch dfSrc(c.Fun) {
	case "newSubnet":
		return "newSubnet " + a
	case "openLeaseFile":
		t.callees["openLeaseFile"] = true
		return "openLeaseFile env.hash " + a
	case "ioutil.ReadFile":
		t.callees["ioutil.ReadFile"] = true
		return "readFile env " + a
	case "handler.loadByteArray":
		return "Handler_loadByteArray env " + a
	case "h.loadConfig":
		return "Handler_loadConfig env " + a
	}
	return ""
}

func (t *dfT) assignTo(lhs ast.Expr, val string, define bool) string {
	switch l := lhs.(type) {
	case *ast.Ident:
		if l.Name == "_" {
			return "let _ := " + val
		}
		if define {
			if t.declared[l.Name] {
				return t.refuse(l, "redeclaration of a live name")
			}
			t.declared[l.Name] = true
			return "let mut " + l.Name + " := " + val
		}
		return l.Name + " := " + val
	case *ast.SelectorExpr:
		root, ok := l.X.(*ast.Ident)
		path := ""
		if ok {
			path = dfFieldPath(t.kindOf(root), l.Sel.Name)
		} else if in, ok2 := l.X.(*ast.SelectorExpr); ok2 { // h.net1.F is not assigned in the translated code
			_ = in
		}
		if !ok || path == "" || strings.HasPrefix(t.kindOf(root), "ptr:") {
			return t.refuse(lhs, "store target not supported")
		}
		return root.Name + " := { " + root.Name + " with " + path + " := " + val + " }"
	case *ast.IndexExpr:
		if root, ok := l.X.(*ast.Ident); ok {
			switch t.kindOf(root) {
			case "Bytes":
				i, _ := t.expr(l.Index)
				return root.Name + " := (← setN " + root.Name + " " + i + " " + par(val) + ")"
			case "Table":
				i, _ := t.expr(l.Index)
				return root.Name + " := some (← storeLease (← deref " + root.Name + ") " + par(i) + " " + par(val) + ")"
			}
		}
	}
	return t.refuse(lhs, "store target not supported")
}

var dfIgnoredStores = map[string]bool{"ID": true, "session": true, "closeChan": true}

func (t *dfT) assign(a *ast.AssignStmt, next ast.Stmt, ind string) (lines []string, consumedNext bool) {
	define := a.Tok == token.DEFINE
	if a.Tok != token.ASSIGN && a.Tok != token.DEFINE {
		return []string{ind + t.refuse(a, "assignment operator")}, false
	}
	// stores to fields that are not represented
	if len(a.Lhs) == 1 {
		if sel, ok := a.Lhs[0].(*ast.SelectorExpr); ok && dfIgnoredStores[sel.Sel.Name] {
			t.ignore(a, "store to a field that is not represented")
			return nil, false
		}
	}
	if len(a.Rhs) == 1 {
		if c, ok := a.Rhs[0].(*ast.CallExpr); ok {
			fun := dfSrc(c.Fun)
			lastErr := len(a.Lhs) >= 1 && dfSrc(a.Lhs[len(a.Lhs)-1]) == "err"
			// file-system calls
			if op := t.fsOp(c); op != "" {
				if len(a.Lhs) != 1 || !lastErr {
					return []string{ind + t.refuse(a, "file-system call result")}, false
				}
				return []string{ind + "let r_fs := fsCall env fs " + op, ind + "fs := r_fs.1", ind + "err := r_fs.2"}, false
			}
			if fun == "yaml.Marshal" && len(a.Lhs) == 2 && lastErr && define {
				t.callees["yaml.Marshal"] = true
				t.declared[dfSrc(a.Lhs[0])] = true
				return []string{ind + "let r_m := yamlMarshal env " + strings.TrimPrefix(dfSrc(c.Args[0]), "&"), ind + "let mut " + dfSrc(a.Lhs[0]) + " := r_m.1", ind + "err := r_m.2"}, false
			}
			if fun == "yaml.Unmarshal" && len(a.Lhs) == 1 && lastErr && next != nil && t.isErrCheck(next) {
				t.callees["yaml.Unmarshal"] = true
				src, _ := t.expr(c.Args[0])
				tgt := strings.TrimPrefix(dfSrc(c.Args[1]), "&")
				return []string{ind + tgt + " := (← yamlUnmarshal env " + src + ")"}, true
			}
			if lastErr && len(a.Lhs) >= 2 {
				act := t.errCallText(c)
				if act == "" {
					return []string{ind + t.refuse(a, "call with an error result that is not in the dictionary")}, false
				}
				if next != nil && t.isErrCheck(next) { // x, err = f(…); if err != nil { return nil…, err' }
					if len(a.Lhs) != 2 {
						return []string{ind + t.refuse(a, "propagated call with several results")}, false
					}
					val := "(← " + act + ")"
					if strings.HasPrefix(t.kindOf(a.Lhs[0]), "ptr:") {
						val = "some " + val
					}
					return []string{ind + t.assignTo(a.Lhs[0], val, define)}, true
				}
				if len(a.Lhs) == 4 && !define { // the error is inspected later
					out := []string{ind + "let r_c ← try3 (" + act + ")"}
					for i, proj := range []string{"r_c.1", "r_c.2.1", "r_c.2.2.1"} {
						out = append(out, ind+t.assignTo(a.Lhs[i], proj, false))
					}
					out = append(out, ind+"err := r_c.2.2.2")
					return out, false
				}
				return []string{ind + t.refuse(a, "error result neither propagated at once nor of the four-result form")}, false
			}
		}
	}
	if len(a.Lhs) != 1 || len(a.Rhs) != 1 {
		return []string{ind + t.refuse(a, "multiple assignment")}, false
	}
	// v.subnet = net1 / net2: which of the two subnets
	if sel, ok := a.Lhs[0].(*ast.SelectorExpr); ok && sel.Sel.Name == "subnet" && t.kindOf(sel.X) == "Lease" {
		id, ok := a.Rhs[0].(*ast.Ident)
		if !ok || (id.Name != "net1" && id.Name != "net2") {
			return []string{ind + t.refuse(a, "Lease.subnet may only be set to net1 or net2")}, false
		}
		return []string{ind + t.assignTo(a.Lhs[0], "ptrTag "+id.Name+" SubId."+id.Name, false)}, false
	}
	val, _ := t.expr(a.Rhs[0])
	return []string{ind + t.assignTo(a.Lhs[0], val, define)}, false
}

func (t *dfT) fsOp(c *ast.CallExpr) string {
	switch dfSrc(c.Fun) {
	case "ioutil.WriteFile", "os.Rename", "os.Remove":
	default:
		return ""
	}
	a, _ := t.args(c.Args)
	switch dfSrc(c.Fun) {
	case "ioutil.WriteFile":
		if len(c.Args) == 3 && dfSrc(c.Args[2]) == "os.ModePerm" {
			t.callees["ioutil.WriteFile"] = true
			d, _ := t.args(c.Args[:2])
			return "(FsOp.writeFile " + d + ")"
		}
	case "os.Rename":
		t.callees["os.Rename"] = true
		return "(FsOp.rename " + a + ")"
	case "os.Remove":
		t.callees["os.Remove"] = true
		return "(FsOp.remove " + a + ")"
	}
	return ""
}

func (t *dfT) ret(r *ast.ReturnStmt, ind string) string {
	fs := ""
	if t.fn.fs {
		fs = ", fs"
	}
	switch t.fn.kind {
	case "bool":
		s, _ := t.expr(r.Results[0])
		return ind + "return " + s
	case "errbool":
		if len(r.Results) == 0 {
			return ind + "return (err" + fs + ")"
		}
		s, _ := t.expr(r.Results[0])
		if s == "none" {
			s = "false"
		}
		return ind + "return (" + s + fs + ")"
	}
	// outcome
	if len(r.Results) == 0 {
		var names []string
		for _, n := range t.decl.Type.Results.List {
			for _, id := range n.Names {
				if dfKind(t.info.TypeOf(id)) != "error" {
					names = append(names, id.Name)
				}
			}
		}
		return ind + "return (" + strings.Join(names, ", ") + fs + ")"
	}
	if len(r.Results) == 1 {
		if c, ok := r.Results[0].(*ast.CallExpr); ok {
			if act := t.errCallText(c); act != "" {
				return ind + "return (← " + act + ")"
			}
		}
		return ind + t.refuse(r, "return form")
	}
	last := r.Results[len(r.Results)-1]
	if t.errIsNonNil(last) {
		for _, x := range r.Results[:len(r.Results)-1] {
			if id, ok := x.(*ast.Ident); !ok || id.Name != "nil" {
				return ind + t.refuse(r, "error return with a non-nil value")
			}
		}
		return ind + "failErr"
	}
	var vals []string
	for _, x := range r.Results[:len(r.Results)-1] {
		s, _ := t.expr(x)
		vals = append(vals, s)
	}
	if len(vals) == 1 && !t.fn.fs {
		return ind + "return " + vals[0]
	}
	return ind + "return (" + strings.Join(vals, ", ") + fs + ")"
}

func (t *dfT) stmts(list []ast.Stmt, ind string) []string {
	var out []string
	for i := 0; i < len(list); i++ {
		var next ast.Stmt
		if i+1 < len(list) {
			next = list[i+1]
		}
		lines, skip := t.stmt(list[i], next, ind)
		out = append(out, lines...)
		if skip {
			i++
		}
	}
	if len(out) == 0 {
		out = append(out, ind+"pure ()")
	}
	return out
}

func (t *dfT) stmt(s ast.Stmt, next ast.Stmt, ind string) ([]string, bool) {
	switch x := s.(type) {
	case *ast.AssignStmt:
		return t.assign(x, next, ind)
	case *ast.ReturnStmt:
		return []string{t.ret(x, ind)}, false
	case *ast.BranchStmt:
		if x.Tok == token.CONTINUE && x.Label == nil {
			return []string{ind + "continue"}, false
		}
	case *ast.ExprStmt:
		if dfIsLogCall(x.X) {
			t.ignore(x, "log")
			return nil, false
		}
		if c, ok := x.X.(*ast.CallExpr); ok {
			if op := t.fsOp(c); op != "" {
				return []string{ind + "fs := (fsCall env fs " + op + ").1"}, false
			}
			switch dfSrc(c.Fun) {
			case "h.saveConfig":
				a, _ := t.args(c.Args)
				return []string{ind + "let r_s ← Handler_saveConfig env fs h " + a, ind + "fs := r_s.2"}, false
			case "h.net2.appendRouteOptions":
				a, _ := t.args(c.Args)
				t.callees["dhcpSubnet.appendRouteOptions"] = true
				return []string{ind + "h := { h with net2 := some (appendRouteOptions (← deref h.net2) " + a + ") }"}, false
			}
		}
	case *ast.IfStmt:
		return t.ifStmt(x, ind), false
	case *ast.RangeStmt:
		return t.rangeStmt(x, ind), false
	}
	return []string{ind + t.refuse(s, "statement form not supported")}, false
}

func (t *dfT) ifStmt(x *ast.IfStmt, ind string) []string {
	if x.Init == nil && x.Else == nil && dfLogOnly(x.Body) && dfPureCond(x.Cond) {
		t.ignore(x, "log-only if")
		return nil
	}
	var out []string
	// `if x, err = f(…); err != nil { return nil…, err }`: propagated call
	if a, ok := x.Init.(*ast.AssignStmt); ok && x.Else == nil {
		probe := &ast.IfStmt{Cond: x.Cond, Body: x.Body}
		if t.isErrCheck(probe) {
			lines, consumed := t.assign(a, probe, ind)
			if consumed {
				return lines
			}
		}
	}
	if x.Init != nil {
		a, ok := x.Init.(*ast.AssignStmt)
		if !ok {
			return []string{ind + t.refuse(x, "if initialiser")}
		}
		lines, _ := t.assign(a, nil, ind)
		out = append(out, lines...)
	}
	c, _ := t.expr(x.Cond)
	out = append(out, ind+"if "+c+" then")
	out = append(out, t.stmts(x.Body.List, ind+"  ")...)
	if x.Else != nil {
		out = append(out, ind+"else")
		switch e := x.Else.(type) {
		case *ast.BlockStmt:
			out = append(out, t.stmts(e.List, ind+"  ")...)
		case *ast.IfStmt:
			out = append(out, t.ifStmt(e, ind+"  ")...)
		}
	}
	return out
}

func (t *dfT) rangeStmt(x *ast.RangeStmt, ind string) []string {
	k := t.kindOf(x.X)
	coll, eff := t.expr(x.X)
	if eff {
		return []string{ind + t.refuse(x, "range over an expression with effects")}
	}
	var out []string
	switch {
	case k == "Bytes" && x.Value == nil && x.Key != nil:
		out = append(out, ind+"for "+dfSrc(x.Key)+" in indices "+coll+" do")
	case k == "Leases" && dfSrc(x.Key) == "_" && x.Value != nil:
		v := dfSrc(x.Value)
		out = append(out, ind+"for "+v+"_0 in sliceElems "+coll+" do")
		out = append(out, ind+"  let mut "+v+" : GLease := { r := "+v+"_0, sub := none }")
	case k == "Table" && dfSrc(x.Key) == "_" && x.Value != nil:
		out = append(out, ind+"for "+dfSrc(x.Value)+" in mapElems "+coll+" do")
	default:
		return []string{ind + t.refuse(x, "range form not supported")}
	}
	return append(out, t.stmts(x.Body.List, ind+"  ")...)
}

func dhcpFileFacts(pkgs []*packages.Package, b *strings.Builder) {
	var pkg *packages.Package
	for _, p := range pkgs {
		if strings.HasSuffix(p.PkgPath, "handlers/dhcp4_spoofer") {
			pkg = p
		}
	}
	b.WriteString("/- GENERATED by /verif/tools/goextract (dhcpfile.go) from handlers/dhcp4_spoofer — do not edit. -/\n")
	b.WriteString("import PacketVerif.Model.DhcpFileGo\nset_option linter.unusedVariables false\nnamespace PV.Gen.DhcpFile\nopen PV PV.Model.Dhcp4Srv PV.Model.Dhcp4File PV.Model.DhcpFileGo\n\n")
	b.WriteString("def orElseM (a : Bool) (b : Outcome Bool) : Outcome Bool := if a then pure true else b\n")
	b.WriteString("def andThenM (a : Bool) (b : Outcome Bool) : Outcome Bool := if a then b else pure false\n\n")
	var translated, untranslated, ignored []string
	callees := map[string]bool{}
	if pkg == nil {
		untranslated = append(untranslated, "package handlers/dhcp4_spoofer not found")
	} else {
		decls := map[string]*ast.FuncDecl{}
		for _, f := range pkg.Syntax {
			for _, d := range f.Decls {
				fd, ok := d.(*ast.FuncDecl)
				if !ok || fd.Body == nil {
					continue
				}
				key := fd.Name.Name
				if fd.Recv != nil && len(fd.Recv.List) == 1 {
					key = strings.TrimPrefix(dfSrc(fd.Recv.List[0].Type), "*") + "." + key
				}
				decls[key] = fd
			}
		}
		oldFset := fset
		fset = pkg.Fset
		refused := map[string]bool{}
		for i := range dfFuncs {
			fn := &dfFuncs[i]
			fd := decls[fn.key]
			if fd == nil {
				untranslated = append(untranslated, fn.key+": function not found")
				refused[fn.lean] = true
				continue
			}
			var ign []string
			t := &dfT{info: pkg.TypesInfo, fn: fn, decl: fd, ignored: &ign, callees: map[string]bool{}, declared: map[string]bool{}}
			var lines []string
			lines = append(lines, "def "+fn.lean+" "+fn.header+" : "+fn.result+" := do")
			for _, p := range fd.Type.Params.List { // parameters are Go variables: assignable
				for _, id := range p.Names {
					k := dfKind(pkg.TypesInfo.TypeOf(id))
					if k == "Session" {
						continue
					}
					lines = append(lines, "  let mut "+id.Name+" := "+id.Name)
				}
			}
			if fn.key == "Config.New" || fn.key == "Handler.saveConfig" { // the receiver
				recv := fd.Recv.List[0].Names[0].Name
				lines = append(lines, "  let mut "+recv+" := "+recv)
			}
			if fn.fs {
				lines = append(lines, "  let mut fs := fs")
			}
			for _, n := range fn.named {
				lines = append(lines, "  "+n)
			}
			lines = append(lines, t.stmts(fd.Body.List, "  ")...)
			text := strings.Join(lines, "\n")
			for other := range refused { // a call of a refused function refuses the caller
				if strings.Contains(text, other+" ") && t.refusal == "" {
					t.refusal = "calls " + other + ", which is not translated"
				}
			}
			if t.refusal != "" {
				untranslated = append(untranslated, fn.key+": "+t.refusal)
				refused[fn.lean] = true
				continue
			}
			translated = append(translated, fn.key)
			ignored = append(ignored, ign...)
			for c := range t.callees {
				callees[c] = true
			}
			b.WriteString("/-- " + fn.key + " (" + fset.Position(fd.Pos()).String()[strings.LastIndex(fset.Position(fd.Pos()).String(), "/")+1:] + ") -/\n")
			b.WriteString(text + "\n\n")
		}
		fset = oldFset
	}
	var cl []string
	for c := range callees {
		cl = append(cl, c)
	}
	sort.Strings(cl)
	list := func(name string, xs []string) {
		b.WriteString("def " + name + " : List String := [\n")
		for i, x := range xs {
			sep := ","
			if i == len(xs)-1 {
				sep = ""
			}
			b.WriteString(fmt.Sprintf("  %q%s\n", x, sep))
		}
		b.WriteString("]\n\n")
	}
	list("dhcpFileTranslated", translated)
	list("dhcpFileUntranslated", untranslated)
	list("dhcpFileIgnored", ignored)
	list("dhcpFileCallees", cl)
	list("dhcpFileAssumptions", []string{
		"mapOrder: ranging over the lease map visits the model's table in list order (the saved record is compared up to order by the harness)",
		"nilSliceIsEmpty: a nil []byte / []Lease is the empty one",
		"durationSeconds: time.Duration values are whole seconds",
		"subnetPointer: a *dhcpSubnet stored in a lease is one of the handler's two subnets (SubId)",
		"errorsAnonymous: every non-nil error is the one value `Err.other`",
	})
	b.WriteString("end PV.Gen.DhcpFile\n")
}
