package main

import (
	"fmt"
	"go/ast"
	"go/constant"
	"go/token"
	"go/types"
	"os"
	"strings"
)

func readFile(name string) ([]byte, error) { return os.ReadFile(name) }

var hostFieldMap = map[string]string{"Online": "online", "dirty": "dirty", "LastSeen": "lastSeen", "Manufacturer": "manuf",
	"DHCP4Name": "names.dhcp4", "MDNSName": "names.mdns", "SSDPName": "names.ssdp", "LLMNRName": "names.llmnr", "NBNSName": "names.nbns"}
var macFieldMap = map[string]string{"MAC": "mac", "Captured": "captured", "IP4": "ip4", "IP4Offer": "ip4offer", "IP6GUA": "ip6gua",
	"IP6LLA": "ip6lla", "IP6Offer": "ip6offer", "Online": "online", "IsRouter": "isRouter", "HostList": "hostList", "Manufacturer": "manuf",
	"DHCP4Name": "names.dhcp4", "MDNSName": "names.mdns", "SSDPName": "names.ssdp", "LLMNRName": "names.llmnr", "NBNSName": "names.nbns", "LastSeen": "lastSeen"}

// isSession: the expression is the *Session receiver
func (c tctx) recvKind(e ast.Expr) string {
	t := c.x.info.TypeOf(e)
	if t == nil {
		return ""
	}
	s := strings.TrimPrefix(t.String(), "*")
	if strings.HasPrefix(s, "github.com/irai/packet.") {
		return strings.TrimPrefix(s, "github.com/irai/packet.")
	}
	return ""
}

// selPath: a.b.c → root ident + field path
func selPath(e ast.Expr) (*ast.Ident, []string) {
	var path []string
	for {
		switch v := e.(type) {
		case *ast.SelectorExpr:
			path = append([]string{v.Sel.Name}, path...)
			e = v.X
		case *ast.ParenExpr:
			e = v.X
		case *ast.Ident:
			return v, path
		default:
			return nil, nil
		}
	}
}

// structField: e denotes a field of a flattened struct variable (addr.IP, frame.Host, frame.SrcAddr.MAC)
func (c tctx) structField(e ast.Expr) *tvar {
	id, path := selPath(e)
	if id == nil || len(path) == 0 {
		return nil
	}
	m, ok := c.sv[c.x.info.ObjectOf(id)]
	if !ok {
		return nil
	}
	return m[strings.Join(path, ".")]
}

func (c tctx) immOf(v tval, what string) string {
	if v.st == stFresh {
		return v.lean + "." + what
	}
	if v.v != nil && v.v.imm {
		return v.v.lean + "_" + what
	}
	return fmt.Sprintf("(H s %s).%s", v.lean, what)
}

// ptr: a pointer-valued expression (*Host or *MACEntry)
func (c tctx) ptr(e ast.Expr) (tval, error) {
	v, err := c.expr(e)
	if err != nil {
		return v, err
	}
	if v.k != tkHost && v.k != tkMac {
		return v, c.errf(e, "not a table pointer: %s", c.x.src(e))
	}
	return v, nil
}

func (c tctx) deref(e ast.Expr) (tval, error) {
	v, err := c.ptr(e)
	if err != nil {
		return v, err
	}
	if v.st == stMaybe || v.st == stNil {
		return v, c.errf(e, "dereference of a possibly nil pointer %s", c.x.src(e))
	}
	return v, nil
}

func intLit(v constant.Value, k tk) string {
	s := v.ExactString()
	if k == tkNat {
		return "(" + s + " : Nat)"
	}
	if strings.HasPrefix(s, "-") {
		return "(" + s + " : Int)"
	}
	return "(" + s + " : Int)"
}

func (c tctx) expr(e ast.Expr) (tval, error) {
	x := c.x
	if tv, ok := x.info.Types[e]; ok && tv.Value != nil {
		switch tv.Value.Kind() {
		case constant.Int:
			k, ok := typeKind(tv.Type)
			if !ok {
				if b, isb := tv.Type.Underlying().(*types.Basic); isb && b.Info()&types.IsInteger != 0 {
					k, ok = tkInt, true
				}
			}
			if ok && (k == tkInt || k == tkNat || k == tkDur) {
				return tval{lean: intLit(tv.Value, k), k: k}, nil
			}
		case constant.Bool:
			return tval{lean: fmt.Sprint(constant.BoolVal(tv.Value)), k: tkBool}, nil
		case constant.String:
			return tval{lean: fmt.Sprintf("%q", constant.StringVal(tv.Value)), k: tkStr}, nil
		}
	}
	switch v := e.(type) {
	case *ast.ParenExpr:
		return c.expr(v.X)
	case *ast.Ident:
		if v.Name == "nil" {
			t := x.info.TypeOf(e)
			k, _ := typeKind(t)
			return tval{lean: "none", k: k, st: stNil}, nil
		}
		obj := x.info.ObjectOf(v)
		if tvv, ok := c.vars[obj]; ok {
			if tvv.okOf != nil {
				switch tvv.okOf.st {
				case stNonNil:
					return tval{lean: "true", k: tkBool}, nil
				case stNil:
					return tval{lean: "false", k: tkBool}, nil
				}
				return tval{lean: tvv.okOf.lean + ".isSome", k: tkBool}, nil
			}
			if tvv.st == stNil {
				return tval{lean: "none", k: tvv.k, st: stNil, v: tvv}, nil
			}
			return tval{lean: tvv.lean, k: tvv.k, st: tvv.st, v: tvv}, nil
		}
		if m, ok := c.sv[obj]; ok {
			sub := map[string]string{}
			for p, fv := range m {
				sub[p] = fv.lean
			}
			k, _ := typeKind(x.info.TypeOf(e))
			return tval{k: k, sub: sub}, nil
		}
		if obj != nil && obj.Pkg() != nil && obj.Pkg().Path() == x.p.PkgPath && obj.Parent() == obj.Pkg().Scope() {
			switch v.Name {
			case "IPv4zero", "IPv6zero":
				want := map[string]string{"IPv4zero": `netip.MustParseAddr("0.0.0.0")`, "IPv6zero": `netip.MustParseAddr("::")`}[v.Name]
				if got := x.pkgVarInit(v.Name); got != want {
					return tval{}, c.errf(e, "%s is initialised by %s", v.Name, got)
				}
				return tval{lean: map[string]string{"IPv4zero": "(IP.v4 0)", "IPv6zero": "(IP.v6 0)"}[v.Name], k: tkIP}, nil
			}
			if strings.HasPrefix(v.Name, "Err") {
				l := strings.ToLower(v.Name[3:4]) + v.Name[4:]
				return tval{lean: "(some Err." + l + ")", k: tkErr}, nil
			}
		}
		return tval{}, c.errf(e, "identifier %s", v.Name)
	case *ast.UnaryExpr:
		if v.Op == token.NOT {
			a, err := c.expr(v.X)
			if err != nil {
				return a, err
			}
			return tval{lean: "(!" + a.lean + ")", k: tkBool}, nil
		}
	case *ast.BinaryExpr:
		return c.binary(v)
	case *ast.SelectorExpr:
		return c.selector(v)
	case *ast.IndexExpr:
		if id, ok := v.Index.(*ast.Ident); ok {
			if ii, ok := c.idx[x.info.ObjectOf(id)]; ok && ii.ranged == x.src(v.X) {
				if c.dirt[ii.ranged] {
					return tval{}, c.errf(e, "%s read after a store to the ranged slice", x.src(e))
				}
				tv := tval{lean: ii.elem, k: ii.ek, st: stNonNil}
				return tv, nil
			}
		}
		if x.src(v.X) == "h.HostTable.Table" {
			k, err := c.expr(v.Index)
			if err != nil {
				return k, err
			}
			return tval{lean: "(tableGet s " + k.lean + ")", k: tkHost, st: stMaybe}, nil
		}
	case *ast.CompositeLit:
		return c.composite(v)
	case *ast.CallExpr:
		return c.callExpr(v)
	}
	return tval{}, c.errf(e, "expression %s", x.src(e))
}

func (x *tabTr) pkgVarInit(name string) string {
	for _, f := range x.p.Syntax {
		for _, d := range f.Decls {
			gd, ok := d.(*ast.GenDecl)
			if !ok {
				continue
			}
			for _, sp := range gd.Specs {
				vs, ok := sp.(*ast.ValueSpec)
				if !ok {
					continue
				}
				for i, n := range vs.Names {
					if n.Name == name && i < len(vs.Values) {
						return x.src(vs.Values[i])
					}
				}
			}
		}
	}
	return "?"
}

func (c tctx) binary(v *ast.BinaryExpr) (tval, error) {
	x := c.x
	// comparisons with nil
	for _, pr := range [][2]ast.Expr{{v.X, v.Y}, {v.Y, v.X}} {
		if id, ok := pr[1].(*ast.Ident); ok && id.Name == "nil" && (v.Op == token.EQL || v.Op == token.NEQ) {
			if k, ok := typeKind(x.info.TypeOf(pr[0])); ok && k == tkLog {
				return tval{k: tkLog}, nil
			}
			p, err := c.ptr(pr[0])
			if err != nil {
				return p, err
			}
			isNil := ""
			switch p.st {
			case stNonNil, stFresh:
				isNil = "false"
			case stNil:
				isNil = "true"
			default:
				isNil = p.lean + ".isNone"
			}
			if v.Op == token.NEQ {
				isNil = map[string]string{"false": "true", "true": "false"}[isNil]
				if isNil == "" {
					isNil = p.lean + ".isSome"
				}
			}
			return tval{lean: isNil, k: tkBool}, nil
		}
	}
	a, err := c.expr(v.X)
	if err != nil {
		return a, err
	}
	b, err := c.expr(v.Y)
	if err != nil {
		return b, err
	}
	if a.k == tkHost || a.k == tkMac {
		if a.st != stNonNil || b.st != stNonNil {
			return a, c.errf(v, "comparison of possibly nil pointers %s", x.src(v))
		}
	}
	op := ""
	rk := tkBool
	switch v.Op {
	case token.LAND:
		op = "&&"
	case token.LOR:
		op = "||"
	case token.EQL:
		op = "=="
	case token.NEQ:
		op = "!="
	case token.LSS, token.GTR, token.LEQ, token.GEQ:
		if a.k != tkInt && a.k != tkNat {
			return a, c.errf(v, "ordering on %s", x.src(v))
		}
		return tval{lean: fmt.Sprintf("decide (%s %s %s)", a.lean, v.Op.String(), b.lean), k: tkBool}, nil
	case token.ADD, token.SUB, token.MUL:
		if !(a.k == tkInt || a.k == tkDur) || !(b.k == tkInt || b.k == tkDur) {
			return a, c.errf(v, "arithmetic on %s", x.src(v))
		}
		x.assume["int and time.Duration arithmetic does not overflow 64 bits"] = true
		return tval{lean: fmt.Sprintf("(%s %s %s)", a.lean, v.Op.String(), b.lean), k: a.k}, nil
	case token.AND, token.OR:
		if a.k != tkNat || b.k != tkNat {
			return a, c.errf(v, "bit operation on %s", x.src(v))
		}
		return tval{lean: fmt.Sprintf("(%s %s %s)", a.lean, map[token.Token]string{token.AND: "&&&", token.OR: "|||"}[v.Op], b.lean), k: tkNat}, nil
	default:
		return a, c.errf(v, "operator %s", v.Op)
	}
	_ = rk
	return tval{lean: fmt.Sprintf("(%s %s %s)", a.lean, op, b.lean), k: tkBool}, nil
}

func (c tctx) selector(v *ast.SelectorExpr) (tval, error) {
	x := c.x
	if fv := c.structField(v); fv != nil {
		if fv.st == stNil {
			return tval{lean: "none", k: fv.k, st: stNil, v: fv}, nil
		}
		return tval{lean: fv.lean, k: fv.k, st: fv.st, v: fv}, nil
	}
	// a struct-valued sub-path of a struct variable (frame.SrcAddr)
	if id, path := selPath(v); id != nil {
		if m, ok := c.sv[x.info.ObjectOf(id)]; ok {
			pre := strings.Join(path, ".") + "."
			sub := map[string]string{}
			for p, fv := range m {
				if strings.HasPrefix(p, pre) {
					sub[strings.TrimPrefix(p, pre)] = fv.lean
				}
			}
			if len(sub) > 0 {
				k, _ := typeKind(x.info.TypeOf(v))
				return tval{k: k, sub: sub}, nil
			}
		}
	}
	name := v.Sel.Name
	switch c.recvKind(v.X) {
	case "Session":
		switch name {
		case "ProbeDeadline":
			return tval{lean: "cfg.probeDL", k: tkDur}, nil
		case "OfflineDeadline":
			return tval{lean: "cfg.offlineDL", k: tkDur}, nil
		case "PurgeDeadline":
			return tval{lean: "cfg.purgeDL", k: tkDur}, nil
		case "closed":
			return tval{lean: "ce.closed", k: tkBool}, nil
		}
	case "Host":
		p, err := c.deref(v.X)
		if err != nil {
			return p, err
		}
		if name == "MACEntry" {
			return tval{lean: c.immOf(p, "entry"), k: tkMac, st: stNonNil}, nil
		}
		if name == "Addr" {
			return tval{k: tkAddr, sub: map[string]string{"MAC": c.immOf(p, "mac"), "IP": c.immOf(p, "ip")}}, nil
		}
		if f, ok := hostFieldMap[name]; ok {
			k, _ := typeKind(x.info.TypeOf(v))
			if p.st == stFresh {
				return tval{lean: p.lean + "." + f, k: k}, nil
			}
			return tval{lean: fmt.Sprintf("(H s %s).%s", p.lean, f), k: k}, nil
		}
	case "Addr":
		// host.Addr.IP
		if inner, ok := v.X.(*ast.SelectorExpr); ok && c.recvKind(inner.X) == "Host" && inner.Sel.Name == "Addr" {
			p, err := c.deref(inner.X)
			if err != nil {
				return p, err
			}
			if name == "IP" {
				return tval{lean: c.immOf(p, "ip"), k: tkIP}, nil
			}
			return tval{lean: c.immOf(p, "mac"), k: tkMAC}, nil
		}
	case "MACEntry":
		p, err := c.deref(v.X)
		if err != nil {
			return p, err
		}
		if f, ok := macFieldMap[name]; ok {
			k, _ := typeKind(x.info.TypeOf(v))
			if p.st == stFresh {
				return tval{lean: p.lean + "." + f, k: k}, nil
			}
			return tval{lean: fmt.Sprintf("(M s %s).%s", p.lean, f), k: k}, nil
		}
	case "MACTable":
		if name == "Table" {
			return tval{lean: "(macPtrs s)", k: tkHostList}, nil
		}
	}
	return tval{}, c.errf(v, "selector %s", x.src(v))
}

func (c tctx) composite(v *ast.CompositeLit) (tval, error) {
	x := c.x
	t := x.info.TypeOf(v)
	switch t.String() {
	case "net/netip.Addr":
		if len(v.Elts) == 0 {
			return tval{lean: "IP.none", k: tkIP}, nil
		}
	case "time.Time":
		if len(v.Elts) == 0 {
			return tval{lean: "zeroTime", k: tkTime}, nil
		}
	case "[]*github.com/irai/packet.Host":
		if len(v.Elts) == 0 {
			return tval{lean: "[]", k: tkHostList}, nil
		}
	case "github.com/irai/packet.Addr":
		sub := map[string]string{"MAC": "[]", "IP": "IP.none"}
		for _, el := range v.Elts {
			kv, ok := el.(*ast.KeyValueExpr)
			if !ok {
				return tval{}, c.errf(v, "positional composite literal")
			}
			a, err := c.expr(kv.Value)
			if err != nil {
				return a, err
			}
			sub[kv.Key.(*ast.Ident).Name] = a.lean
		}
		return tval{k: tkAddr, sub: sub}, nil
	case "github.com/irai/packet.Frame":
		sub := map[string]string{}
		st := map[string]int{}
		for _, ff := range frameFields {
			sub[ff.path] = zeroOf(ff.k, true)
			st[ff.path] = stNil
		}
		for _, el := range v.Elts {
			kv, ok := el.(*ast.KeyValueExpr)
			if !ok || kv.Key.(*ast.Ident).Name != "Host" {
				return tval{}, c.errf(v, "Frame literal field")
			}
			a, err := c.deref(kv.Value)
			if err != nil {
				return a, err
			}
			sub["Host"] = a.lean
			st["Host"] = stNonNil
		}
		return tval{k: tkFrame, sub: sub, st: st["Host"]}, nil
	case "github.com/irai/packet.Notification":
		f := map[string]string{}
		for _, el := range v.Elts {
			kv, ok := el.(*ast.KeyValueExpr)
			if !ok {
				return tval{}, c.errf(v, "positional composite literal")
			}
			a, err := c.expr(kv.Value)
			if err != nil {
				return a, err
			}
			key := kv.Key.(*ast.Ident).Name
			if key == "Addr" {
				f["mac"], f["ip"] = a.sub["MAC"], a.sub["IP"]
			} else {
				f[key] = a.lean
			}
		}
		get := func(k string, zero string) string {
			if s, ok := f[k]; ok {
				delete(f, k)
				return s
			}
			return zero
		}
		l := fmt.Sprintf("({ mac := %s, ip := %s, online := %s, manuf := %s, names := { dhcp4 := %s, mdns := %s, ssdp := %s, llmnr := %s, nbns := %s }, isRouter := %s } : Notif)",
			get("mac", "[]"), get("ip", "IP.none"), get("Online", "false"), get("Manufacturer", "\"\""), get("DHCP4Name", "{}"), get("MDNSName", "{}"),
			get("SSDPName", "{}"), get("LLMNRName", "{}"), get("NBNSName", "{}"), get("IsRouter", "false"))
		if len(f) != 0 {
			return tval{}, c.errf(v, "Notification field without a model counterpart")
		}
		return tval{lean: l, k: tkNotif}, nil
	}
	return tval{}, c.errf(v, "composite literal %s", x.src(v))
}

var ipMethods = map[string]string{"Is4": "IP.is4", "IsValid": "IP.isValid", "IsUnspecified": "IP.isUnspecified",
	"IsGlobalUnicast": "IP.isGlobalUnicast", "IsLinkLocalUnicast": "IP.isLinkLocalUnicast"}

// callExpr: calls that are expressions of the dictionary (no heap effect)
func (c tctx) callExpr(v *ast.CallExpr) (tval, error) {
	x := c.x
	if id, ok := v.Fun.(*ast.Ident); ok {
		switch id.Name {
		case "len", "cap":
			s := x.src(v.Args[0])
			if s == "h.C" {
				return tval{lean: "ce." + id.Name, k: tkInt}, nil
			}
			if id.Name == "cap" {
				break
			}
			if s == "h.HostTable.Table" {
				return tval{lean: "(tableLen s)", k: tkInt}, nil
			}
			if s == "s.Table" || s == "h.MACTable.Table" {
				return tval{lean: "((s.macs.length : Nat) : Int)", k: tkInt}, nil
			}
			a, err := c.expr(v.Args[0])
			if err != nil {
				return a, err
			}
			if a.k == tkHostList || a.k == tkIPList || a.k == tkAddrList {
				return tval{lean: fmt.Sprintf("((%s.length : Nat) : Int)", a.lean), k: tkInt}, nil
			}
		case "make":
			if k, ok := typeKind(x.info.TypeOf(v)); ok && (k == tkHostList || k == tkIPList || k == tkAddrList) {
				if l, err := c.expr(v.Args[1]); err == nil && l.lean == "(0 : Int)" {
					return tval{lean: "[]", k: k}, nil
				}
			}
		case "append":
			if len(v.Args) == 2 && v.Ellipsis == token.NoPos {
				a, err := c.expr(v.Args[0])
				if err != nil {
					return a, err
				}
				b, err := c.expr(v.Args[1])
				if err != nil {
					return b, err
				}
				el := b.lean
				if b.k == tkAddr {
					el = fmt.Sprintf("(%s, %s)", b.sub["MAC"], b.sub["IP"])
				}
				if (b.k == tkHost || b.k == tkMac) && b.st != stNonNil {
					return a, c.errf(v, "append of a possibly nil or unpublished pointer")
				}
				return tval{lean: fmt.Sprintf("(%s ++ [%s])", a.lean, el), k: a.k}, nil
			}
		case "FindManufacturer":
			a, err := c.expr(v.Args[0])
			if err != nil {
				return a, err
			}
			x.callees["FindManufacturer = the parameter fm"] = true
			return tval{lean: "(fm " + a.lean + ")", k: tkStr}, nil
		case "CopyMAC":
			x.callees["CopyMAC = identity (values, not buffers)"] = true
			return c.expr(v.Args[0])
		}
	}
	if se, ok := v.Fun.(*ast.SelectorExpr); ok {
		if id, ok := se.X.(*ast.Ident); ok {
			if pn, ok := x.info.Uses[id].(*types.PkgName); ok {
				switch pn.Imported().Path() + "." + se.Sel.Name {
				case "bytes.Equal":
					a, err := c.expr(v.Args[0])
					if err != nil {
						return a, err
					}
					b, err := c.expr(v.Args[1])
					if err != nil {
						return b, err
					}
					x.callees["bytes.Equal = == on byte lists (nil = empty)"] = true
					return tval{lean: fmt.Sprintf("(%s == %s)", a.lean, b.lean), k: tkBool}, nil
				case "time.Now":
					x.callees["time.Now = the parameter tnow"] = true
					return tval{lean: "tnow", k: tkTime}, nil
				}
			}
		}
		rt := x.info.TypeOf(se.X)
		if rt != nil {
			switch rt.String() {
			case "net/netip.Addr":
				if m, ok := ipMethods[se.Sel.Name]; ok && len(v.Args) == 0 {
					a, err := c.expr(se.X)
					if err != nil {
						return a, err
					}
					x.callees["netip.Addr."+se.Sel.Name+" = Model.Tables."+m] = true
					return tval{lean: fmt.Sprintf("(%s %s)", m, a.lean), k: tkBool}, nil
				}
			case "time.Time":
				a, err := c.expr(se.X)
				if err != nil {
					return a, err
				}
				b, err := c.expr(v.Args[0])
				if err != nil {
					return b, err
				}
				switch se.Sel.Name {
				case "Before":
					x.callees["time.Time.Before = < on Int nanoseconds"] = true
					return tval{lean: fmt.Sprintf("decide (%s < %s)", a.lean, b.lean), k: tkBool}, nil
				case "Add":
					x.callees["time.Time.Add = + on Int nanoseconds"] = true
					return tval{lean: fmt.Sprintf("(%s + %s)", a.lean, b.lean), k: tkTime}, nil
				}
			case "github.com/irai/packet.Frame":
				// value-receiver one-expression methods of Frame are re-translated from their bodies
				if fd := findFunc(x.p, "Frame", se.Sel.Name); fd != nil && fd.Body != nil && len(fd.Body.List) == 1 && len(v.Args) == 0 {
					if rs, ok := fd.Body.List[0].(*ast.ReturnStmt); ok && len(rs.Results) == 1 && len(fd.Recv.List[0].Names) == 1 {
						recv := x.info.ObjectOf(fd.Recv.List[0].Names[0])
						id, _ := selPath(se.X)
						if id != nil {
							if m, ok := c.sv[x.info.ObjectOf(id)]; ok {
								c2 := c.clone()
								c2.sv[recv] = m
								return c2.expr(rs.Results[0])
							}
						}
					}
				}
			}
		}
	}
	return tval{}, c.errf(v, "call %s", x.src(v))
}
