package main

// Translation of the session life cycle of session.go into Lean (Gen/SessLifeGen.lean):
//   * Session.Close            -> a Model.SessionLifeGo.CProg (lock section = one atomic node, then one eff node per statement)
//   * the goroutines NewSession starts (`go func(h *Session) { ticker := …; for { select { … } } }(session)`)
//                              -> per goroutine the list of channels of the select and one function per case
//   * the tail of NewSession that creates the host and router entries
//                              -> a function over Model.Tables.Sess that calls the regenerated findOrCreateHostWithLock
// The shapes are narrow on purpose: whatever is not one of the listed statement forms refuses the function
// (sessLifeUntranslated), its definition is not emitted and the theorems of Props/C04LifeTie about it fail.

import (
	"fmt"
	"go/ast"
	"go/token"
	"strings"

	"golang.org/x/tools/go/packages"
)

type slTr struct {
	root    *packages.Package
	fname   string
	ignored []string
	callees map[string]bool
}

func (x *slTr) fail(n ast.Node, format string, a ...any) {
	panic(pgErr{fmt.Sprintf("%s: %s (line %d)", arpClip(strings.Join(strings.Fields(nodeText(n)), " "), 60), fmt.Sprintf(format, a...), fset.Position(n.Pos()).Line)})
}

func (x *slTr) ignore(n ast.Node, why string) {
	x.ignored = append(x.ignored, fmt.Sprintf("%s: %s: %s", x.fname, why, arpClip(strings.Join(strings.Fields(nodeText(n)), " "), 90)))
}

func (x *slTr) constNs(e ast.Expr) (string, bool) {
	if tv, ok := x.root.TypesInfo.Types[e]; ok && tv.Value != nil {
		return tv.Value.ExactString(), true
	}
	return "", false
}

func slIsCall(s ast.Stmt, text string) bool {
	es, ok := s.(*ast.ExprStmt)
	if !ok {
		return false
	}
	c, ok := es.X.(*ast.CallExpr)
	return ok && nodeText(c.Fun) == text
}

func (x *slTr) isLog(s ast.Stmt) bool {
	switch v := s.(type) {
	case *ast.IfStmt:
		if c, ok := v.Cond.(*ast.CallExpr); ok && strings.HasPrefix(nodeText(c.Fun), "Logger.Is") && v.Init == nil && v.Else == nil {
			for _, b := range v.Body.List {
				if !x.isLog(b) {
					return false
				}
			}
			return true
		}
	case *ast.ExprStmt:
		return arpRootIdent(v.X) == "Logger"
	}
	return false
}

// ---- Close ----

func (x *slTr) closeBody(ss []ast.Stmt, ind string, inLock bool) string {
	if len(ss) == 0 {
		if inLock {
			panic(pgErr{"lock held at the end of Close"})
		}
		return ind + "CProg.done\n"
	}
	s, tail := ss[0], ss[1:]
	switch {
	case slIsCall(s, "h.mutex.Lock"):
		if inLock {
			x.fail(s, "nested lock")
		}
		return ind + "CProg.atomic fun st =>\n" + x.closeBody(tail, ind+"  ", true)
	case slIsCall(s, "h.mutex.Unlock"):
		if !inLock {
			x.fail(s, "unlock without lock")
		}
		return ind + "(st,\n" + x.closeBody(tail, ind, false) + ind + ")\n"
	}
	if inLock {
		switch v := s.(type) {
		case *ast.IfStmt:
			// if h.closed { h.mutex.Unlock(); return }
			if nodeText(v.Cond) == "h.closed" && v.Init == nil && v.Else == nil && len(v.Body.List) == 2 && slIsCall(v.Body.List[0], "h.mutex.Unlock") {
				if r, ok := v.Body.List[1].(*ast.ReturnStmt); ok && len(r.Results) == 0 {
					return ind + "if st.closed then\n" + ind + "  (st, CProg.done)\n" + ind + "else\n" + x.closeBody(tail, ind+"  ", true)
				}
			}
		case *ast.AssignStmt:
			if len(v.Lhs) == 1 && nodeText(v.Lhs[0]) == "h.closed" && v.Tok == token.ASSIGN && (nodeText(v.Rhs[0]) == "true" || nodeText(v.Rhs[0]) == "false") {
				return ind + "let st := { st with closed := " + nodeText(v.Rhs[0]) + " };\n" + x.closeBody(tail, ind, true)
			}
		}
		x.fail(s, "statement inside the lock section of Close")
	}
	eff := ""
	switch {
	case slIsCall(s, "close"):
		switch nodeText(s.(*ast.ExprStmt).X.(*ast.CallExpr).Args[0]) {
		case "h.closeChan":
			eff = "Eff.closeCloseChan"
		case "h.C":
			eff = "Eff.closeC"
		}
	case slIsCall(s, "h.Conn.Close"):
		eff = "Eff.connClose"
	case slIsCall(s, "time.Sleep"):
		if d, ok := x.constNs(s.(*ast.ExprStmt).X.(*ast.CallExpr).Args[0]); ok {
			eff = "(Eff.sleep " + d + ")"
		}
	}
	if x.isLog(s) {
		x.ignore(s, "log")
		return x.closeBody(tail, ind, false)
	}
	if eff == "" {
		x.fail(s, "statement of Close")
	}
	return ind + "CProg.eff " + eff + " (\n" + x.closeBody(tail, ind, false) + ind + ")\n"
}

// ---- goroutines ----

// caseBody translates the statements of one select case into Life -> Life × LoopCtl
func (x *slTr) caseBody(ss []ast.Stmt, ind string) string {
	if len(ss) == 0 {
		return ind + "(st, LoopCtl.again)\n"
	}
	s, tail := ss[0], ss[1:]
	if x.isLog(s) {
		x.ignore(s, "log")
		return x.caseBody(tail, ind)
	}
	switch v := s.(type) {
	case *ast.ReturnStmt:
		if len(v.Results) == 0 {
			return ind + "(st, LoopCtl.ret)\n"
		}
	case *ast.GoStmt:
		// go h.purge(time.Now())
		if nodeText(v.Call.Fun) == "h.purge" && len(v.Call.Args) == 1 && nodeText(v.Call.Args[0]) == "time.Now()" {
			x.callees["go Session.purge"] = true
			return ind + "let st := spawnPurge st tnow;\n" + x.caseBody(tail, ind)
		}
	case *ast.ExprStmt:
		// atomic.StoreUint32(&h.ipHeartBeat, N)
		if c, ok := v.X.(*ast.CallExpr); ok && nodeText(c.Fun) == "atomic.StoreUint32" && len(c.Args) == 2 && nodeText(c.Args[0]) == "&h.ipHeartBeat" {
			if n, ok := x.constNs(c.Args[1]); ok {
				return ind + "let st := { st with beat := " + n + " };\n" + x.caseBody(tail, ind)
			}
		}
	case *ast.IfStmt:
		// if atomic.LoadUint32(&h.ipHeartBeat) == 0 { log; syscall.Kill(os.Getpid(), syscall.SIGTERM) }
		if b, ok := v.Cond.(*ast.BinaryExpr); ok && v.Init == nil && v.Else == nil && b.Op == token.EQL && nodeText(b.X) == "atomic.LoadUint32(&h.ipHeartBeat)" {
			if n, ok := x.constNs(b.Y); ok {
				kills := 0
				for _, t := range v.Body.List {
					if x.isLog(t) {
						x.ignore(t, "log")
						continue
					}
					if slIsCall(t, "syscall.Kill") && nodeText(t.(*ast.ExprStmt).X) == "syscall.Kill(os.Getpid(), syscall.SIGTERM)" {
						kills++
						continue
					}
					x.fail(t, "statement under the heartbeat test")
				}
				if kills != 1 {
					x.fail(v, "heartbeat test without exactly one SIGTERM")
				}
				x.callees["syscall.Kill(os.Getpid(), syscall.SIGTERM)"] = true
				return ind + "let st := if st.beat == " + n + " then sigterm st else st;\n" + x.caseBody(tail, ind)
			}
		}
	}
	x.fail(s, "statement of a goroutine")
	return ""
}

// goroutine translates `go func(h *Session) { ticker := time.NewTicker(d); for { select { … } } }(session)`
func (x *slTr) goroutine(g *ast.GoStmt, name string, b *strings.Builder) {
	fl, ok := g.Call.Fun.(*ast.FuncLit)
	if !ok || len(g.Call.Args) != 1 || nodeText(g.Call.Args[0]) != "session" || len(fl.Type.Params.List) != 1 || len(fl.Type.Params.List[0].Names) != 1 || fl.Type.Params.List[0].Names[0].Name != "h" {
		x.fail(g, "go statement is not func(h *Session){…}(session)")
	}
	body := fl.Body.List
	if len(body) != 2 {
		x.fail(g, "goroutine body is not `ticker := …; for { select }`")
	}
	as, ok := body[0].(*ast.AssignStmt)
	if !ok || len(as.Lhs) != 1 || nodeText(as.Lhs[0]) != "ticker" || len(as.Rhs) != 1 {
		x.fail(body[0], "first statement is not the ticker")
	}
	tc, ok := as.Rhs[0].(*ast.CallExpr)
	if !ok || nodeText(tc.Fun) != "time.NewTicker" || len(tc.Args) != 1 {
		x.fail(body[0], "first statement is not time.NewTicker")
	}
	dur, isConst := x.constNs(tc.Args[0])
	if !isConst {
		dur = nodeText(tc.Args[0])
	}
	fs, ok := body[1].(*ast.ForStmt)
	if !ok || fs.Init != nil || fs.Cond != nil || fs.Post != nil || len(fs.Body.List) != 1 {
		x.fail(body[1], "not a `for { select }`")
	}
	sel, ok := fs.Body.List[0].(*ast.SelectStmt)
	if !ok {
		x.fail(fs, "not a `for { select }`")
	}
	var chans, defs []string
	for i, cc := range sel.Body.List {
		cl := cc.(*ast.CommClause)
		if cl.Comm == nil {
			x.fail(sel, "select with default")
		}
		es, ok := cl.Comm.(*ast.ExprStmt)
		if !ok {
			x.fail(cl, "select case")
		}
		u, ok := es.X.(*ast.UnaryExpr)
		if !ok || u.Op != token.ARROW {
			x.fail(cl, "select case")
		}
		switch nodeText(u.X) {
		case "ticker.C":
			chans = append(chans, fmt.Sprintf("LChan.ticker %q", dur))
		case "h.closeChan", "session.closeChan":
			chans = append(chans, "LChan.closeChan")
		default:
			x.fail(cl, "select channel")
		}
		defs = append(defs, fmt.Sprintf("/-- Go: %s, case %s -/\ndef %s_case%d (tnow : Int) (st : Life) : Life × LoopCtl :=\n%s", name, nodeText(cl.Comm), name, i, x.caseBody(cl.Body, "  ")))
	}
	fmt.Fprintf(b, "/-- Go: %s: the channels of the `for { select }` -/\ndef %s_chans : List LChan := [%s]\n\n", name, name, strings.Join(chans, ", "))
	for _, d := range defs {
		b.WriteString(d + "\n")
	}
}

// ---- the table part of NewSession ----

var slHostFields = map[string]string{"LastSeen": "lastSeen", "Online": "online"}
var slMacFields = map[string]string{"LastSeen": "lastSeen", "Online": "online", "IP4": "ip4", "IP6LLA": "ip6lla", "IsRouter": "isRouter"}

func (x *slTr) tblExpr(e ast.Expr) string {
	switch nodeText(e) {
	case "true", "false":
		return nodeText(e)
	case "host.LastSeen":
		return "(H s host).lastSeen"
	case "host.Addr.IP":
		return "(H s host).ip"
	case "session.NICInfo.HostLLA.Addr()":
		return "c.hostLLA"
	}
	// time.Now().Add(d) with constant d
	if c, ok := e.(*ast.CallExpr); ok && nodeText(c.Fun) == "time.Now().Add" && len(c.Args) == 1 {
		if d, ok := x.constNs(c.Args[0]); ok {
			return "(tnow + " + d + ")"
		}
	}
	x.fail(e, "expression in the table part of NewSession")
	return ""
}

func (x *slTr) tables(ss []ast.Stmt, ind string) string {
	if len(ss) == 0 {
		panic(pgErr{"NewSession: control reaches the end"})
	}
	s, tail := ss[0], ss[1:]
	switch v := s.(type) {
	case *ast.ReturnStmt:
		if len(v.Results) == 2 && nodeText(v.Results[0]) == "session" && nodeText(v.Results[1]) == "nil" {
			return ind + "some s\n"
		}
	case *ast.ExprStmt:
		t := nodeText(v.X)
		if t == "host.MACEntry.Row.Lock()" || t == "host.MACEntry.Row.Unlock()" {
			x.ignore(s, "lock")
			return x.tables(tail, ind)
		}
	case *ast.AssignStmt:
		if len(v.Lhs) == 2 && len(v.Rhs) == 1 && nodeText(v.Lhs[0]) == "host" && nodeText(v.Lhs[1]) == "_" {
			if c, ok := v.Rhs[0].(*ast.CallExpr); ok && nodeText(c.Fun) == "session.findOrCreateHostWithLock" && len(c.Args) == 1 {
				var mac, ip string
				switch nodeText(c.Args[0]) {
				case "session.NICInfo.HostAddr4":
					mac, ip = "c.hostMAC", "c.hostIP4"
				case "session.NICInfo.RouterAddr4":
					mac, ip = "c.routerMAC", "c.routerIP4"
				default:
					x.fail(v, "address of the entry")
				}
				x.callees["Session.findOrCreateHostWithLock (regenerated: Gen.Tables, tied by Props/C04TablesTie.findOrCreateHost_tie)"] = true
				return ind + "match Gen.Tables.Session_findOrCreateHostWithLock fm tnow s " + mac + " " + ip + " with\n" + ind + "| none => none\n" + ind + "| some (s, host, _) =>\n" + x.tables(tail, ind+"  ")
			}
		}
		if len(v.Lhs) == 1 && len(v.Rhs) == 1 && v.Tok == token.ASSIGN {
			if sel, ok := v.Lhs[0].(*ast.SelectorExpr); ok {
				val := x.tblExpr(v.Rhs[0])
				switch nodeText(sel.X) {
				case "host":
					if f, ok := slHostFields[sel.Sel.Name]; ok {
						return ind + "let s := updHost s host (fun x => { x with " + f + " := " + val + " });\n" + x.tables(tail, ind)
					}
				case "host.MACEntry":
					if f, ok := slMacFields[sel.Sel.Name]; ok {
						return ind + "let s := updMac s (H s host).entry (fun m => { m with " + f + " := " + val + " });\n" + x.tables(tail, ind)
					}
				}
			}
		}
	}
	x.fail(s, "statement in the table part of NewSession")
	return ""
}

func (x *slTr) try(f func()) (errs string) {
	defer func() {
		if r := recover(); r != nil {
			if e, ok := r.(pgErr); ok {
				errs = e.msg
				return
			}
			panic(r)
		}
	}()
	f()
	return ""
}

func sessLifeFacts(root *packages.Package, b *strings.Builder) {
	b.WriteString("/- GENERATED by /verif/tools/goextract (sesslife.go) from the Go sources in /repo — do not edit. -/\n")
	b.WriteString("import PacketVerif.Model.SessionLifeGo\nimport PacketVerif.Gen.TablesGen\nset_option linter.unusedVariables false\nnamespace PV.Gen.SessLife\nopen PV PV.Model PV.Model.SessionLife PV.Model.SessionLifeGo\nopen PV.Model.Tables (Cfg Sess MAC updHost updMac)\nopen PV.Model.TablesGo (H)\n\n")
	x := &slTr{root: root, callees: map[string]bool{}}
	var tr, untr []string
	emit := func(lean string, f func(sb *strings.Builder)) {
		var sb strings.Builder
		x.fname = lean
		save := len(x.ignored)
		if e := x.try(func() { f(&sb) }); e != "" {
			untr = append(untr, lean+": "+e)
			x.ignored = x.ignored[:save]
			return
		}
		tr = append(tr, lean)
		b.WriteString(sb.String())
	}
	// Close
	if fd := findFunc(root, "Session", "Close"); fd == nil || fd.Body == nil {
		untr = append(untr, "Session_Close: declaration not found")
	} else {
		emit("Session_Close", func(sb *strings.Builder) {
			pos := fset.Position(fd.Pos())
			fmt.Fprintf(sb, "/-- Go: func (h *Session) Close() (%s:%d) -/\ndef Session_Close : CProg :=\n%s\n", shortFile(pos.Filename), pos.Line, x.closeBody(fd.Body.List, "  ", false))
		})
	}
	// NewSession
	fd := findFunc(root, "Config", "NewSession")
	if fd == nil || fd.Body == nil {
		untr = append(untr, "NewSession: declaration not found")
	} else {
		var gos []int
		for i, s := range fd.Body.List {
			if _, ok := s.(*ast.GoStmt); ok {
				gos = append(gos, i)
			}
		}
		// nested go statements elsewhere in NewSession would be a third actor
		n := 0
		ast.Inspect(fd.Body, func(m ast.Node) bool {
			if g, ok := m.(*ast.GoStmt); ok {
				n++
				for _, i := range gos {
					if fd.Body.List[i] == ast.Stmt(g) {
						return false // its body is translated (and refused on anything unknown) by goroutine()
					}
				}
			}
			return true
		})
		if len(gos) != 2 || n != 2 {
			untr = append(untr, fmt.Sprintf("NewSession: %d top-level / %d go statements (2 expected: NIC monitor, minute loop)", len(gos), n))
		} else {
			for k, i := range gos {
				name := fmt.Sprintf("NewSession_go%d", k)
				g := fd.Body.List[i].(*ast.GoStmt)
				emit(name, func(sb *strings.Builder) { x.goroutine(g, name, sb) })
			}
			emit("NewSession_tables", func(sb *strings.Builder) {
				fmt.Fprintf(sb, "/-- Go: NewSession, the statements after the second `go` (the host and router entries) -/\ndef NewSession_tables (c : Cfg) (fm : MAC → String) (tnow : Int) (s : Sess) : Option Sess :=\n%s\n", x.tables(fd.Body.List[gos[1]+1:], "  "))
			})
		}
		// the channels NewSession makes
		var mk []string
		for _, s := range fd.Body.List {
			if as, ok := s.(*ast.AssignStmt); ok && len(as.Lhs) == 1 && len(as.Rhs) == 1 {
				if c, ok := as.Rhs[0].(*ast.CallExpr); ok && nodeText(c.Fun) == "make" {
					if _, ok := c.Args[0].(*ast.ChanType); ok {
						mk = append(mk, strings.Join(strings.Fields(nodeText(as)), " "))
					}
				}
			}
		}
		fmt.Fprintf(b, "/-- Go: the channels NewSession makes -/\ndef NewSession_chans : List String := %s\n\n", leanStrList(mk))
	}
	fmt.Fprintf(b, "def sessLifeTranslated : List String := %s\n\n", leanStrList(tr))
	fmt.Fprintf(b, "/-- what the translator refused, with the first offending construct -/\ndef sessLifeUntranslated : List String := %s\n\n", leanStrList(untr))
	fmt.Fprintf(b, "/-- statements without a model counterpart, in source order -/\ndef sessLifeIgnored : List String := %s\n\n", leanStrList(x.ignored))
	fmt.Fprintf(b, "def sessLifeCallees : List String := %s\n\nend PV.Gen.SessLife\n", leanStrList(sortedKeys(x.callees)))
}
