// F15: the dictionary of the heap-passing translator of dhcpsrv.go for handlers/dhcp4_spoofer.
// The translator itself (dhcpsrv.go) knows Go's statement forms only; every record type, field,
// callee and constant it may meet is an entry of this table (the Lean side of the entries is
// lean/PacketVerif/Model/DhcpSrvGo.lean).  A second instance of `hpDict` is what a port of the
// host-table translator (tables*.go, whose dictionary is compiled into its code) would look like.
package main

// templates: $x = the receiver / base value, $1..$n = arguments, $e = the stored value, $s = the heap variable
type hpField struct {
	kind string // kind of the field value ("" with unmod=true: no model counterpart)
	get  string
	set  string // statement template `let … := …` ("" = the translator refuses a store)
	// for fields of a not yet published record the translator uses `$x.<rec>` / `{ $x with <rec> := … }`
	rec    string // record field of the fresh object; "" = not a record field
	recIn  string // conversion applied to $e when stored into the record / the heap ("" = identity)
	recOut string // conversion applied when read from the record
	key    bool   // the field that keys the table (tracked separately on a fresh object)
}

type hpCall struct {
	kind   string   // result kind ("" = none)
	lean   string   // template
	kinds  []string // kinds of several results (comma-ok forms, AddrFromSlice)
	leans  []string
	ignore string         // non-empty: the call is a statement without model counterpart (reason)
	needs  string         // implicit parameter the template mentions ("now")
	fixed  map[int]string // argument position (1-based) → the source text it must have, else the call is refused
	use    []int          // argument positions translated, in the order $1, $2, …  (nil: all, unmodelled ones dropped)
	effect string         // statement executed before the result is bound (same $-arguments): a write to the connection (`out`)
}

type hpDict struct {
	pkg        string
	namespace  string
	imports    string
	open       string
	prefix     string // name prefix of the emitted lists
	heapType   string
	targets    [][2]string
	types      map[string]string // Go type → kind
	leanType   map[string]string // kind → Lean type
	zero       map[string]string // kind → Lean zero value
	ptrKinds   map[string]bool   // kinds that are pointers (nil status tracked)
	unmodTypes map[string]bool   // Go types without model counterpart
	fields     map[string]hpField
	calls      map[string]hpCall
	consts     map[string][2]string // name → (kind, lean)
	index      map[string]hpCall    // "<kind>[<const name>]" → value (comma-ok: leans[1])
	params     map[string]string    // Go parameter type → "" (dropped) or the Lean binder it collapses into
	implicit   []string             // binders every function takes
	assume     []string
	fresh      map[string][3]string // Go composite `&T{}` → (kind, zero record, record Lean type)
	resultKind map[string][]string  // function (Lean name) → result kinds, where the Go result type alone does not decide (error as a VALUE)
	nilTests   map[string]string    // non-pointer kind → what `v != nil` means ($x = the value)
}

var dhcpDict = &hpDict{
	pkg:       "github.com/irai/packet/handlers/dhcp4_spoofer",
	namespace: "PV.Gen.DhcpSrv",
	imports:   "import PacketVerif.Model.DhcpSrvGo\nimport PacketVerif.Model.DhcpDispatchGo\n",
	open:      "open PV PV.Model.Dhcp4Srv PV.Model.DhcpSrvGo PV.Model.DhcpDispatchGo\n",
	prefix:    "dhcpSrv",
	heapType:  "State",
	targets: [][2]string{
		{"", "getClientID"}, {"Handler", "takenByOther"}, {"Handler", "inUse"}, {"Handler", "available"},
		{"Handler", "allocIPOffer"}, {"Handler", "findOrCreate"}, {"Handler", "delete"}, {"Handler", "freeLeases"},
		{"Handler", "MinuteTicker"},
		{"Handler", "handleDiscover"}, {"Handler", "handleRequest"}, {"Handler", "handleDecline"}, {"Handler", "handleRelease"},
		{"Handler", "ProcessPacket"},
	},
	types: map[string]string{
		"*github.com/irai/packet/handlers/dhcp4_spoofer.Lease":            "lease",
		"*github.com/irai/packet/handlers/dhcp4_spoofer.dhcpSubnet":       "sub",
		"*github.com/irai/packet/handlers/dhcp4_spoofer.Handler":          "handler",
		"*github.com/irai/packet.Host":                                    "host",
		"*github.com/irai/packet.Session":                                 "session",
		"map[string]*github.com/irai/packet/handlers/dhcp4_spoofer.Lease": "table",
		"github.com/irai/packet/handlers/dhcp4_spoofer.State":             "lstate",
		"github.com/irai/packet/handlers/dhcp4_spoofer.Mode":              "mode",
		"bool":                                "bool",
		"int":                                 "int",
		"uint8":                               "int",
		"untyped int":                         "int",
		"untyped bool":                        "bool",
		"net/netip.Addr":                      "ip",
		"net/netip.Prefix":                    "prefix",
		"net.HardwareAddr":                    "bytes",
		"[]byte":                              "bytes",
		"[]uint8":                             "bytes",
		"time.Time":                           "time",
		"time.Duration":                       "dur",
		"error":                               "err",
		"github.com/irai/packet.DHCP4":        "reply", // as a value built by the handlers; the parameter `p` is "msg"
		"github.com/irai/packet.DHCP4Options": "opts",  // as a value built by the handlers; the parameter `options` is "msgopts"
		// ProcessPacket (bU): the frame the session hands over, read through the record FrameV of Model/DhcpDispatchGo.lean
		"github.com/irai/packet.Frame":            "frame",
		"github.com/irai/packet.PayloadID":        "int",
		"github.com/irai/packet.DHCP4MessageType": "int",
		"uint16":                                  "int",
	},
	unmodTypes: map[string]bool{"string": true, "github.com/irai/packet.NameEntry": true, "untyped string": true,
		"*github.com/irai/packet/fastlog.Line": true, "github.com/irai/packet.Addr": true},
	leanType: map[string]string{"lease": "Cid", "sub": "SubId", "host": "Option MAC", "lstate": "LState", "mode": "Mode", "bool": "Bool",
		"int": "Nat", "ip": "AddrV", "bytes": "Bytes", "time": "Nat", "dur": "Nat", "err": "Bool", "reply": "Option Reply", "opts": "OptsV",
		"frame": "FrameV", "perr": "Option Err"},
	zero: map[string]string{"bool": "false", "int": "(0 : Nat)", "ip": "AddrV.invalid", "bytes": "([] : Bytes)", "time": "(0 : Nat)", "dur": "(0 : Nat)",
		"err": "false", "reply": "(none : Option Reply)", "lstate": "LState.free"},
	ptrKinds: map[string]bool{"lease": true, "host": true},
	fields: map[string]hpField{
		"lease.State":                    {kind: "lstate", get: "(L $s $x).state", set: "let $s := updL $s $x (fun l => { l with state := $e })", rec: "state"},
		"lease.Addr.IP":                  {kind: "ip", get: "(AddrV.ofOpt (L $s $x).ip)", set: "let $s := updL $s $x (fun l => { l with ip := AddrV.toOpt $e })", rec: "ip", recIn: "AddrV.toOpt", recOut: "AddrV.ofOpt"},
		"lease.Addr.MAC":                 {kind: "bytes", get: "(L $s $x).mac", set: "let $s := updL $s $x (fun l => { l with mac := $e })", rec: "mac"},
		"lease.IPOffer":                  {kind: "ip", get: "(AddrV.ofOpt (L $s $x).offer)", set: "let $s := updL $s $x (fun l => { l with offer := AddrV.toOpt $e })", rec: "offer", recIn: "AddrV.toOpt", recOut: "AddrV.ofOpt"},
		"lease.XID":                      {kind: "bytes", get: "(L $s $x).xid", set: "let $s := updL $s $x (fun l => { l with xid := $e })", rec: "xid"},
		"lease.subnet":                   {kind: "sub", get: "(L $s $x).sub", set: "let $s := updL $s $x (fun l => { l with sub := $e })", rec: "sub"},
		"lease.DHCPExpiry":               {kind: "time", get: "(L $s $x).expiry", set: "let $s := updL $s $x (fun l => { l with expiry := $e })", rec: "expiry"},
		"lease.ClientID":                 {kind: "bytes", get: "$x", key: true},
		"lease.Name":                     {},
		"lease.OfferExpiry":              {},
		"lease.Count":                    {},
		"sub.LAN":                        {kind: "prefix", get: "(cfg.sub $x)"},
		"sub.broadcast":                  {kind: "ip", get: "(AddrV.v4 (cfg.sub $x).bcast)"},
		"sub.DefaultGW":                  {kind: "ip", get: "(AddrV.v4 (cfg.sub $x).gw)"},
		"sub.DHCPServer":                 {kind: "ip", get: "(AddrV.v4 (cfg.sub $x).server)"},
		"sub.FirstIP":                    {kind: "ip", get: "(AddrV.v4 (cfg.sub $x).first)"},
		"sub.Duration":                   {kind: "dur", get: "(cfg.sub $x).dur"},
		"sub.nextIP":                     {kind: "ip", get: "(AddrV.v4 (cursor $s $x))", set: "let $s := setCursor $s $x (AddrV.toNat $e)"},
		"sub.Stage":                      {},
		"sub.ID":                         {},
		"handler.net1":                   {kind: "sub", get: "SubId.net1"},
		"handler.net2":                   {kind: "sub", get: "SubId.net2"},
		"handler.mode":                   {kind: "mode", get: "cfg.mode"},
		"handler.table":                  {kind: "table", get: ""},
		"handler.session":                {kind: "session", get: ""},
		"handler.filename":               {},
		"session.NICInfo.HostAddr4.IP":   {kind: "ip", get: "(AddrV.v4 cfg.host)"},
		"session.NICInfo.RouterAddr4.IP": {kind: "ip", get: "(AddrV.v4 cfg.router)"},
		"host.MACEntry.MAC":              {kind: "bytes", get: "$x"},
		// ProcessPacket: what it reads of the frame
		"frame.PayloadID":    {kind: "int", get: "$x.pid"},
		"frame.DstAddr.Port": {kind: "int", get: "$x.dstPort"},
		"frame.SrcAddr.IP":   {kind: "ip", get: "$x.srcIP"},
		"frame.Host":         {kind: "host", get: "$x.host"},
		"frame.SrcAddr.MAC":  {},
		"session.Conn":       {},
	},
	calls: map[string]hpCall{
		"session.IsCaptured":       {kind: "bool", lean: "(isCaptured $s $1)"},
		"session.FindIP":           {kind: "host", lean: "(sessFind $s $1)"},
		"session.DHCPv4Update":     {ignore: "session effect (environment op of the model)"},
		"session.SetDHCPv4IPOffer": {ignore: "session effect (environment op of the model)"},
		"handler.attackDHCPServer": {ignore: "side traffic"},
		"handler.forceDecline":     {ignore: "side traffic"},
		"handler.forceRelease":     {ignore: "side traffic"},
		"handler.saveConfig":       {ignore: "lease file"},
		"handler.Lock":             {ignore: "lock"},
		"handler.Unlock":           {ignore: "lock"},
		// ProcessPacket: the payload view and what is computed from it by functions regenerated elsewhere (F10 IsValid, F14 ParseOptions)
		"frame.Payload":                {kind: "msg", lean: "$x.m"},
		"msg.IsValid":                  {kind: "perr", lean: "frame.valid"},
		"msg.ParseOptions":             {kind: "msgopts", lean: "$x"},
		"handler.processClientPacket":  {kind: "perr", lean: "frame.clientRet", use: []int{}},
		"sendDHCP4Packet":              {kind: "perr", lean: "frame.sendErr", use: []int{4}, effect: "let out := out ++ $1.toList"},
		"bytes.Equal":              {kind: "bool", lean: "($1 == $2)"},
		"packet.CopyBytes":         {kind: "bytes", lean: "$1"},
		"packet.CopyMAC":           {kind: "bytes", lean: "$1"},
		"netip.AddrFromSlice":      {kinds: []string{"ip", "bool"}, leans: []string{"(addrFromSlice $1)", "(addrFromSlice $1 != AddrV.invalid)"}},
		"errors.New":               {kind: "err", lean: "true"},
		"time.Now":                 {kind: "time", lean: "now", needs: "now"},
		"time.Before":              {kind: "bool", lean: "(decide ($x < $1))"},
		"time.Add":                 {kind: "time", lean: "($x + $1)"},
		"ip.Is4":                   {kind: "bool", lean: "(AddrV.is4 $x)"},
		"ip.IsValid":               {kind: "bool", lean: "($x != AddrV.invalid)"},
		"ip.IsUnspecified":         {kind: "bool", lean: "(AddrV.isUnspec $x)"},
		"ip.Less":                  {kind: "bool", lean: "(AddrV.less $x $1)"},
		"ip.Next":                  {kind: "ip", lean: "(AddrV.next $x)"},
		"ip.AsSlice":               {kind: "ipslice", lean: "$x"},
		"prefix.Contains":          {kind: "bool", lean: "(subContains $x $1)"},
		"prefix.Addr":              {kind: "ip", lean: "(AddrV.v4 $x.lan)"},
		"msg.XId":                  {kind: "bytes", lean: "m.xid"},
		"msg.CHAddr":               {kind: "bytes", lean: "m.chaddr"},
		"msg.CIAddr":               {kind: "ip", lean: "(AddrV.v4 m.ciaddr)"},
		"sub.CopyOptions":          {kind: "opts", lean: "(($x, none) : OptsV)"},
		"packet.OptionsLeaseTime":  {kind: "leasetime", lean: "$1"},
		"nakPacket":                {kind: "reply", lean: "(some (nakReplyV m $2 $3))"},
		"packet.EncodeDHCP4": {kind: "reply", lean: "(some (encodeReply cfg m $1 $2 $3))", use: []int{3, 6, 9},
			fixed: map[int]string{1: "p", 2: "packet.DHCP4BootReply", 4: "nil", 5: "netip.Addr{}", 7: "nil", 8: "false", 10: "options[packet.DHCP4OptionParameterRequestList]"}},
	},
	consts: map[string][2]string{
		"StateFree": {"lstate", "LState.free"}, "StateDiscover": {"lstate", "LState.discover"}, "StateAllocated": {"lstate", "LState.allocated"},
		"ModePrimaryServer": {"mode", "Mode.primary"}, "ModeSecondaryServer": {"mode", "Mode.secondary"}, "ModeSecondaryServerNice": {"mode", "Mode.nice"},
		"packet.IPv4zero": {"ip", "(AddrV.v4 0)"}, "packet.IPv4bcast": {"ip", "(AddrV.v4 4294967295)"},
		"true": {"bool", "true"}, "false": {"bool", "false"},
		"packet.DHCP4Offer": {"rtype", "RType.offer"}, "packet.DHCP4ACK": {"rtype", "RType.ack"},
		"packet.ErrParseProtocol": {"perr", "(some Err.parseProtocol)"}, "packet.ErrParseFrame": {"perr", "(some Err.parseFrame)"},
	},
	index: map[string]hpCall{
		"msgopts[packet.DHCP4OptionRequestedIPAddress]":   {kinds: []string{"bytes", "bool"}, leans: []string{"(optBytes m.reqOpt)", "m.reqOpt.isSome"}},
		"msgopts[packet.DHCP4OptionServerIdentifier]":     {kinds: []string{"bytes", "bool"}, leans: []string{"(optBytes m.srvOpt)", "m.srvOpt.isSome"}},
		"msgopts[packet.DHCP4OptionClientIdentifier]":     {kinds: []string{"bytes", "bool"}, leans: []string{"(optBytes m.cidOpt)", "m.cidOpt.isSome"}},
		"msgopts[packet.DHCP4OptionHostName]":             {},
		"msgopts[packet.DHCP4OptionParameterRequestList]": {},
		"msgopts[packet.DHCP4OptionDHCPMessageType]":      {kinds: []string{"bytes", "bool"}, leans: []string{"(optBytes frame.mtOpt)", "frame.mtOpt.isSome"}},
	},
	params: map[string]string{
		"github.com/irai/packet.DHCP4":        "m",
		"github.com/irai/packet.DHCP4Options": "m",
	},
	fresh: map[string][3]string{"Lease": {"lease", "zeroLease", "Lease"}},
	resultKind: map[string][]string{"Handler_ProcessPacket": {"perr"}},
	nilTests:   map[string]string{"reply": "(replyPresent frame.cap $x)"},
	assume: []string{
		"a *Lease is the key of its entry in Handler.table: Lease.ClientID is assigned once, on the fresh object, before the pointer is stored under string(ClientID) (checked: no other assignment in the package)",
		"netip.Addr values stored in Lease.Addr.IP / Lease.IPOffer / dhcpSubnet.nextIP are invalid or IPv4 (AddrV.toOpt / AddrV.toNat lose an IPv6 address); the configuration fields of a dhcpSubnet are IPv4",
		"range over Handler.table visits the entries in the order of the model's list (Go: unspecified)",
		"Session.FindIP of a non-IPv4 address finds nothing; only MACEntry.MAC is read through the returned *Host",
		"time.Time is a number of seconds; Before is <, Add is + (no overflow)",
		"EncodeDHCP4 / nakPacket / CopyOptions / OptionsLeaseTime are dictionary entries (encodeReply, nakReplyV, OptsV): their bodies are tied by C08/C12's encoder ties and the step correspondence, not here",
		"a for-condition loop takes fuel; the tie theorems show which fuel suffices",
		"ProcessPacket reads the frame through FrameV: IsValid / ParseOptions / the getters of the payload view are regenerated and tied elsewhere (F10, F14, F5) and enter as the fields valid / mtOpt / m; processClientPacket (client.go) and the connection's WriteTo are environment values (clientRet, sendErr); a reply value is nil iff the in-place encoder found no room (replyPresent = Dhcp4Frame.fits of cap(frame.Payload())); the destination address of the reply (broadcast flag / zero source) is an unmodelled local (tied by ComposeDhcpFrame and the dhcp.raw frames)",
	},
}
