// F15: statements of the dictionary-driven heap-passing translator (see dhcpsrv.go).
package main

import (
	"fmt"
	"go/ast"
	"go/token"
	"go/types"
	"strings"
)

// ---- statements without a model counterpart ----------------------------------------------------

func hpRootIdent(e ast.Expr) *ast.Ident {
	for {
		switch v := e.(type) {
		case *ast.SelectorExpr:
			e = v.X
		case *ast.CallExpr:
			e = v.Fun
		case *ast.Ident:
			return v
		default:
			return nil
		}
	}
}

// the reason a call is ignored ("" = it is not)
func (x *hpTr) ignoredCall(c *hpCtx, call *ast.CallExpr) string {
	if id := hpRootIdent(call); id != nil {
		if id.Name == "Logger" || id.Name == "fmt" {
			return "log"
		}
		if obj := x.info.Uses[id]; obj != nil && x.d.unmodTypes[obj.Type().String()] && strings.Contains(obj.Type().String(), "fastlog") {
			return "log"
		}
	}
	if se, ok := call.Fun.(*ast.SelectorExpr); ok {
		if k, ok := x.d.types[x.typeStr(se.X)]; ok {
			if ent, ok := x.d.calls[k+"."+se.Sel.Name]; ok && ent.ignore != "" {
				return ent.ignore
			}
		}
	}
	return ""
}

// an lvalue without model counterpart: a dictionary field with empty kind, or a variable of an unmodelled type
func (x *hpTr) unmodLhs(c *hpCtx, l ast.Expr) bool {
	switch v := l.(type) {
	case *ast.Ident:
		if v.Name == "_" {
			return true
		}
		obj := x.info.ObjectOf(v)
		return obj != nil && x.d.unmodTypes[obj.Type().String()]
	case *ast.SelectorExpr:
		if k, ok := x.d.types[x.typeStr(v.X)]; ok {
			if fl, ok := x.d.fields[k+"."+v.Sel.Name]; ok && fl.kind == "" {
				return true
			}
		}
	}
	return false
}

// an index expression whose dictionary entry says: no model counterpart
func (x *hpTr) unmodIndex(e ast.Expr) bool {
	ie, ok := e.(*ast.IndexExpr)
	if !ok {
		return false
	}
	kind := ""
	if id, ok := ie.X.(*ast.Ident); ok {
		if obj := x.info.ObjectOf(id); obj != nil {
			if _, ok := x.d.params[obj.Type().String()]; ok {
				kind = "msgopts"
			}
		}
	}
	q, ok := x.qualName(ie.Index)
	if !ok {
		return false
	}
	ent, ok := x.d.index[kind+"["+q+"]"]
	return ok && len(ent.kinds) == 0
}

func (x *hpTr) callsPackage(e ast.Node) bool {
	found := false
	ast.Inspect(e, func(n ast.Node) bool {
		if call, ok := n.(*ast.CallExpr); ok {
			var obj types.Object
			switch v := call.Fun.(type) {
			case *ast.Ident:
				obj = x.info.Uses[v]
			case *ast.SelectorExpr:
				obj = x.info.Uses[v.Sel]
			}
			if fn, ok := obj.(*types.Func); ok && fn.Pkg() != nil && fn.Pkg().Path() == x.p.PkgPath {
				found = true
			}
		}
		return true
	})
	return found
}

// ignorable: "" or the kind under which the statement is listed
func (x *hpTr) ignorable(c *hpCtx, s ast.Stmt) string {
	switch v := s.(type) {
	case *ast.ExprStmt:
		if call, ok := v.X.(*ast.CallExpr); ok {
			return x.ignoredCall(c, call)
		}
	case *ast.GoStmt:
		if r := x.ignoredCall(c, v.Call); r != "" {
			return r + " (goroutine)"
		}
	case *ast.DeferStmt:
		return x.ignoredCall(c, v.Call)
	case *ast.AssignStmt:
		all := true
		for _, l := range v.Lhs {
			if !x.unmodLhs(c, l) {
				all = false
			}
		}
		if all {
			for _, r := range v.Rhs {
				if x.callsPackage(r) {
					return ""
				}
			}
			return "unmodelled"
		}
	case *ast.BlockStmt:
		kind := "empty"
		for _, st := range v.List {
			k := x.ignorable(c, st)
			if k == "" {
				return ""
			}
			if kind == "empty" {
				kind = k
			}
		}
		return kind
	case *ast.IfStmt:
		if x.callsPackage(v.Cond) {
			return ""
		}
		if v.Init != nil {
			as, ok := v.Init.(*ast.AssignStmt)
			if !ok || as.Tok != token.DEFINE || len(as.Rhs) != 1 || !x.unmodIndex(as.Rhs[0]) {
				return ""
			}
		}
		kind := x.ignorable(c, v.Body)
		if kind == "" {
			return ""
		}
		if v.Else != nil && x.ignorable(c, v.Else) == "" {
			return ""
		}
		return kind
	}
	return ""
}

// ---- blocks ---------------------------------------------------------------------------------------

func (x *hpTr) block(c *hpCtx, list []ast.Stmt, k hpCont) (string, error) {
	if len(list) == 0 {
		return k(c)
	}
	s := list[0]
	if x.effectPending != "" {
		return "", hpErr(s, "dictionary call with an effect outside an assignment")
	}
	rest := func(c *hpCtx) (string, error) { return x.block(c, list[1:], k) }
	if kind := x.ignorable(c, s); kind != "" {
		if strings.HasPrefix(kind, "session effect") {
			// the model reads the session oracles in the pre-state: pin where the update stands relative to the modelled statements
			next := "end of block"
			for _, t := range list[1:] {
				if x.ignorable(c, t) == "" {
					next = hpSrc(t)
					if len(next) > 50 {
						next = next[:50] + "…"
					}
					break
				}
			}
			kind += ", before `" + next + "`"
		}
		x.ignore(c.f, kind, s)
		return rest(c)
	}
	switch v := s.(type) {
	case *ast.BlockStmt:
		return x.block(c, v.List, rest)
	case *ast.ReturnStmt:
		return x.retStmt(c, v)
	case *ast.DeclStmt:
		gd, ok := v.Decl.(*ast.GenDecl)
		if !ok || gd.Tok != token.VAR {
			return "", hpErr(s, "declaration")
		}
		out := ""
		for _, sp := range gd.Specs {
			vs := sp.(*ast.ValueSpec)
			if len(vs.Values) != 0 {
				return "", hpErr(s, "var with initialiser")
			}
			for _, nm := range vs.Names {
				obj := x.info.Defs[nm]
				ts := obj.Type().String()
				if x.d.unmodTypes[ts] {
					c.vars[obj] = &hpVar{unmod: true}
					continue
				}
				kd, ok := x.d.types[ts]
				if !ok || x.d.zero[kd] == "" {
					return "", hpErr(s, "var of type %s", ts)
				}
				c.vars[obj] = &hpVar{lean: nm.Name, kind: kd}
				out += fmt.Sprintf("let %s := %s\n", nm.Name, x.d.zero[kd])
			}
		}
		r, err := rest(c)
		return out + r, err
	case *ast.AssignStmt:
		out, err := x.assign(c, v)
		if err != nil {
			return "", err
		}
		r, err := rest(c)
		return out + r, err
	case *ast.ExprStmt:
		call, ok := v.X.(*ast.CallExpr)
		if !ok {
			return "", hpErr(s, "expression statement")
		}
		out, err := x.callStmt(c, call, nil, false)
		if err != nil {
			return "", err
		}
		r, err := rest(c)
		return out + r, err
	case *ast.IfStmt:
		return x.ifStmt(c, v, rest)
	case *ast.SwitchStmt:
		return x.switchStmt(c, v, rest)
	case *ast.RangeStmt:
		return x.rangeStmt(c, v, rest)
	case *ast.ForStmt:
		return x.forStmt(c, v, rest)
	case *ast.BranchStmt:
		if c.loop == nil || v.Label != nil {
			return "", hpErr(s, "%s outside a loop", v.Tok)
		}
		switch v.Tok {
		case token.BREAK:
			return "Ctl.brk " + hpTuple(c.loop.carried), nil
		case token.CONTINUE:
			return "Ctl.next " + hpTuple(c.loop.carried), nil
		}
	}
	return "", hpErr(s, "statement %T: %s", s, hpSrc(s))
}

func (x *hpTr) retStmt(c *hpCtx, v *ast.ReturnStmt) (string, error) {
	if len(v.Results) != len(c.f.results) {
		return "", hpErr(v, "return with %d values", len(v.Results))
	}
	var vals []string
	for i, r := range v.Results {
		kind := c.f.results[i]
		val, err := x.expr(c, r)
		if err != nil {
			return "", err
		}
		switch {
		case val.kind == "nil" && kind == "reply":
			vals = append(vals, "none")
		case val.kind == "nil" && kind == "err":
			vals = append(vals, "false")
		case val.kind == "nil" && kind == "perr":
			vals = append(vals, "none")
		case val.kind == kind:
			if x.d.ptrKinds[kind] && kind != "host" && val.st != hpNonNil {
				return "", hpErr(v, "returned pointer may be nil or is not stored in a table")
			}
			vals = append(vals, val.lean)
		default:
			return "", hpErr(v, "return of kind %s for %s", val.kind, kind)
		}
	}
	return x.ret(c, vals), nil
}

// ---- assignments ----------------------------------------------------------------------------------

func (x *hpTr) bind(c *hpCtx, l ast.Expr, val hpVal, define bool) (string, error) {
	switch lv := l.(type) {
	case *ast.Ident:
		if lv.Name == "_" {
			return "", nil
		}
		obj := x.info.ObjectOf(lv)
		if val.unmod {
			c.vars[obj] = &hpVar{unmod: true}
			return "", nil
		}
		if val.kind == "nil" {
			return "", hpErr(l, "nil assigned to a variable")
		}
		if c.loop != nil && obj.Pos() < c.f.fd.Body.Pos() {
			return "", hpErr(l, "assignment to a parameter inside a loop")
		}
		if val.st == hpFresh {
			return "", hpErr(l, "copy of a pointer to a fresh object")
		}
		c.vars[obj] = &hpVar{lean: lv.Name, kind: val.kind, st: val.st}
		if val.lean == lv.Name {
			return "", nil
		}
		return fmt.Sprintf("let %s := %s\n", lv.Name, val.lean), nil
	case *ast.SelectorExpr:
		return x.store(c, lv, val)
	case *ast.IndexExpr:
		base, err := x.expr(c, lv.X)
		if err != nil {
			return "", err
		}
		switch base.kind {
		case "table":
			if val.st != hpFresh || val.v == nil {
				return "", hpErr(l, "table store of a pointer that is not a fresh object")
			}
			k, err := x.keyExpr(c, lv.Index)
			if err != nil {
				return "", err
			}
			if k != val.lean+"_k" {
				return "", hpErr(l, "table store under a key that is not the object's key field")
			}
			out := fmt.Sprintf("let s := tableSet s %s_k %s_r\nlet %s := %s_k\n", val.lean, val.lean, val.lean, val.lean)
			val.v.st = hpNonNil
			return out, nil
		case "opts":
			if q, ok := x.qualName(lv.Index); ok && q == "packet.DHCP4OptionIPAddressLeaseTime" && val.kind == "leasetime" && base.v != nil {
				return fmt.Sprintf("let %s : OptsV := (%s.1, some %s)\n", base.lean, base.lean, val.lean), nil
			}
		}
		return "", hpErr(l, "index store %s", hpSrc(l))
	}
	return "", hpErr(l, "assignment target %T", l)
}

// p.a.b = e
func (x *hpTr) store(c *hpCtx, se *ast.SelectorExpr, val hpVal) (string, error) {
	var path []string
	root := ast.Expr(se)
	for {
		s, ok := root.(*ast.SelectorExpr)
		if !ok {
			break
		}
		path = append([]string{s.Sel.Name}, path...)
		root = s.X
	}
	base, err := x.expr(c, root)
	if err != nil {
		return "", err
	}
	for i := 0; i < len(path); {
		found := false
		for j := len(path); j > i; j-- {
			fl, ok := x.d.fields[base.kind+"."+strings.Join(path[i:j], ".")]
			if !ok {
				continue
			}
			found = true
			if j == len(path) {
				if val.unmod {
					return "", hpErr(se, "value without model counterpart stored in a modelled field")
				}
				if fl.kind != val.kind {
					return "", hpErr(se, "store of kind %s into a field of kind %s", val.kind, fl.kind)
				}
				if x.d.ptrKinds[base.kind] {
					switch base.st {
					case hpFresh:
						if fl.key {
							return fmt.Sprintf("let %s_k := %s\n", base.lean, val.lean), nil
						}
						if fl.rec == "" {
							return "", hpErr(se, "store into a fresh object: no record form")
						}
						e := val.lean
						if fl.recIn != "" {
							e = "(" + fl.recIn + " " + e + ")"
						}
						return fmt.Sprintf("let %s_r := { %s_r with %s := %s }\n", base.lean, base.lean, fl.rec, e), nil
					case hpNonNil:
					default:
						return "", hpErr(se, "store through a pointer that may be nil")
					}
				}
				if fl.set == "" {
					return "", hpErr(se, "field %s is read-only in the dictionary", strings.Join(path, "."))
				}
				return hpSubst(fl.set, base.lean, nil, val.lean) + "\n", nil
			}
			nb, err := x.readField(c, se, base, fl)
			if err != nil {
				return "", err
			}
			base = nb
			i = j
			break
		}
		if !found {
			return "", hpErr(se, "field %s of kind %s not in the dictionary", strings.Join(path[i:], "."), base.kind)
		}
	}
	return "", hpErr(se, "store %s", hpSrc(se))
}

func (x *hpTr) assign(c *hpCtx, v *ast.AssignStmt) (string, error) {
	if v.Tok != token.ASSIGN && v.Tok != token.DEFINE {
		return "", hpErr(v, "assignment operator %s", v.Tok)
	}
	// p = &T{}
	if len(v.Lhs) == 1 && len(v.Rhs) == 1 {
		if u, ok := v.Rhs[0].(*ast.UnaryExpr); ok && u.Op == token.AND {
			if cl, ok := u.X.(*ast.CompositeLit); ok && len(cl.Elts) == 0 {
				if id, ok := cl.Type.(*ast.Ident); ok {
					if fr, ok := x.d.fresh[id.Name]; ok {
						lid, ok := v.Lhs[0].(*ast.Ident)
						if !ok {
							return "", hpErr(v, "fresh object not assigned to a variable")
						}
						obj := x.info.ObjectOf(lid)
						c.vars[obj] = &hpVar{lean: lid.Name, kind: fr[0], st: hpFresh}
						return fmt.Sprintf("let %s_r : %s := %s\nlet %s_k : Bytes := []\n", lid.Name, fr[2], fr[1], lid.Name), nil
					}
				}
			}
		}
	}
	if len(v.Rhs) == 1 && len(v.Lhs) > 1 {
		var vals []hpVal
		var err error
		switch r := v.Rhs[0].(type) {
		case *ast.IndexExpr:
			vals, err = x.index(c, r)
		case *ast.CallExpr:
			if g := x.calleeOf(r); g != nil && (g.writes || g.hangs) {
				return x.callStmt(c, r, v.Lhs, v.Tok == token.DEFINE)
			}
			vals, err = x.call(c, r)
		default:
			err = hpErr(v, "multi-value assignment")
		}
		if err != nil {
			return "", err
		}
		if len(vals) != len(v.Lhs) {
			return "", hpErr(v, "%d values for %d targets", len(vals), len(v.Lhs))
		}
		return x.bindAll(c, v.Lhs, vals, v.Tok == token.DEFINE)
	}
	if len(v.Rhs) != len(v.Lhs) {
		return "", hpErr(v, "assignment shape")
	}
	if len(v.Rhs) == 1 {
		if call, ok := v.Rhs[0].(*ast.CallExpr); ok {
			if g := x.calleeOf(call); g != nil && (g.writes || g.hangs) {
				return x.callStmt(c, call, v.Lhs, v.Tok == token.DEFINE)
			}
		}
	}
	var vals []hpVal
	for _, r := range v.Rhs {
		val, err := x.expr(c, r)
		if err != nil {
			return "", err
		}
		vals = append(vals, val)
	}
	pre := ""
	if x.effectPending != "" {
		if len(v.Rhs) != 1 {
			return "", hpErr(v, "dictionary call with an effect in a parallel assignment")
		}
		if _, ok := v.Rhs[0].(*ast.CallExpr); !ok {
			return "", hpErr(v, "dictionary call with an effect nested in an expression")
		}
		pre = x.effectPending + "\n"
		x.effectPending = ""
	}
	out, err := x.bindAll(c, v.Lhs, vals, v.Tok == token.DEFINE)
	return pre + out, err
}

func (x *hpTr) bindAll(c *hpCtx, lhs []ast.Expr, vals []hpVal, define bool) (string, error) {
	out := ""
	if len(lhs) > 1 {
		// parallel assignment: evaluate first
		for i := range vals {
			if id, ok := lhs[i].(*ast.Ident); ok && id.Name != "_" && !vals[i].unmod {
				tmp := id.Name + "_new"
				out += fmt.Sprintf("let %s := %s\n", tmp, vals[i].lean)
				vals[i].lean = tmp
			}
		}
	}
	for i, l := range lhs {
		o, err := x.bind(c, l, vals[i], define)
		if err != nil {
			return "", err
		}
		out += o
	}
	return out, nil
}

// a call of a translated function that writes the heap or may hang, at statement level
func (x *hpTr) callStmt(c *hpCtx, call *ast.CallExpr, lhs []ast.Expr, define bool) (string, error) {
	g := x.calleeOf(call)
	if g == nil {
		// a builtin with an effect
		if id, ok := call.Fun.(*ast.Ident); ok && id.Name == "delete" && len(call.Args) == 2 {
			base, err := x.expr(c, call.Args[0])
			if err != nil {
				return "", err
			}
			if base.kind == "table" {
				k, err := x.keyExpr(c, call.Args[1])
				if err != nil {
					return "", err
				}
				return "let s := tableDel s " + k + "\n", nil
			}
		}
		return "", hpErr(call, "call statement %s", hpSrc(call))
	}
	app, err := x.apply(c, g, call)
	if err != nil {
		return "", err
	}
	if g.sends {
		return "", hpErr(call, "call of %s, which writes to the connection", g.lean)
	}
	if lhs != nil && len(lhs) != len(g.results) {
		return "", hpErr(call, "%d targets for %d results", len(lhs), len(g.results))
	}
	n := len(g.results)
	if g.writes {
		n++
	}
	out := ""
	r := "r_" + g.lean
	if g.hangs {
		// the continuation is wrapped by the caller: see hangWrap
		none := "none"
		if c.loop != nil {
			none = "Ctl.ret none"
		}
		out += "match " + app + " with\n| none => " + none + "\n| some " + r + " =>\n"
	} else {
		out += "let " + r + " := " + app + "\n"
	}
	i := 0
	if g.writes {
		out += "let s := " + proj(r, 0, n) + "\n"
		i = 1
	}
	for j, l := range lhs {
		st := hpNonNil
		o, err := x.bind(c, l, hpVal{lean: proj(r, i+j, n), kind: g.results[j], st: st}, define)
		if err != nil {
			return "", err
		}
		out += o
	}
	return out, nil
}

// ---- control flow ---------------------------------------------------------------------------------

func (x *hpTr) ifStmt(c *hpCtx, v *ast.IfStmt, rest hpCont) (string, error) {
	pre := ""
	if v.Init != nil {
		as, ok := v.Init.(*ast.AssignStmt)
		if !ok {
			return "", hpErr(v, "if-initialiser")
		}
		o, err := x.assign(c, as)
		if err != nil {
			return "", err
		}
		pre = o
	}
	branch := func(cc *hpCtx, s ast.Stmt) (string, error) {
		switch e := s.(type) {
		case nil:
			return rest(cc)
		case *ast.BlockStmt:
			return x.block(cc, e.List, rest)
		default:
			return x.block(cc, []ast.Stmt{e}, rest)
		}
	}
	var elseS ast.Stmt
	if v.Else != nil {
		elseS = v.Else
	}
	// `if p != nil` / `if p == nil` on a pointer variable that may be nil
	if b, ok := v.Cond.(*ast.BinaryExpr); ok {
		if pv, isNe, ok := x.nilTest(c, b); ok && pv.st == hpMaybe && pv.v != nil {
			some, none := c.clone(), c.clone()
			for obj, vr := range c.vars {
				if vr == pv.v {
					some.vars[obj].st = hpNonNil
					none.vars[obj].st = hpNil
				}
			}
			var sS, nS string
			var err error
			if isNe {
				sS, err = branch(some, v.Body)
				if err == nil {
					nS, err = branch(none, elseS)
				}
			} else {
				nS, err = branch(none, v.Body)
				if err == nil {
					sS, err = branch(some, elseS)
				}
			}
			if err != nil {
				return "", err
			}
			return pre + fmt.Sprintf("match %s with\n| some %s =>\n  %s\n| none =>\n  %s", pv.lean, pv.lean, ind(sS), ind(nS)), nil
		}
	}
	cond, err := x.expr(c, v.Cond)
	if err != nil {
		return "", err
	}
	if cond.unmod {
		return "", hpErr(v, "condition without model counterpart guards modelled statements: %s", hpSrc(v.Cond))
	}
	// both branches fall through: the `if` is an expression yielding the variables it assigns (no duplication of what follows)
	if car, ok := x.joinable(c, v.Body, elseS); ok {
		join := func(cc *hpCtx) (string, error) { return hpTuple(car), nil }
		jb := func(cc *hpCtx, s ast.Stmt) (string, error) {
			switch e := s.(type) {
			case nil:
				return join(cc)
			case *ast.BlockStmt:
				return x.block(cc, e.List, join)
			default:
				return x.block(cc, []ast.Stmt{e}, join)
			}
		}
		tS, err := jb(c.clone(), v.Body)
		if err != nil {
			return "", err
		}
		eS, err := jb(c.clone(), elseS)
		if err != nil {
			return "", err
		}
		r, err := rest(c)
		if err != nil {
			return "", err
		}
		return pre + fmt.Sprintf("let %s :=\n  if %s then\n    %s\n  else\n    %s\n", hpTuple(car), cond.lean, ind(ind(tS)), ind(ind(eS))) + r, nil
	}
	tS, err := branch(c.clone(), v.Body)
	if err != nil {
		return "", err
	}
	eS, err := branch(c.clone(), elseS)
	if err != nil {
		return "", err
	}
	return pre + fmt.Sprintf("if %s then\n  %s\nelse\n  %s", cond.lean, ind(tS), ind(eS)), nil
}

func (x *hpTr) switchStmt(c *hpCtx, v *ast.SwitchStmt, rest hpCont) (string, error) {
	if v.Init != nil {
		return "", hpErr(v, "switch initialiser")
	}
	var tag *hpVal
	if v.Tag != nil {
		t, err := x.expr(c, v.Tag)
		if err != nil {
			return "", err
		}
		tag = &t
	}
	var clauses []*ast.CaseClause
	var dflt *ast.CaseClause
	for _, s := range v.Body.List {
		cc := s.(*ast.CaseClause)
		for _, st := range cc.Body {
			bad := false
			ast.Inspect(st, func(n ast.Node) bool {
				switch b := n.(type) {
				case *ast.BranchStmt:
					if b.Tok == token.BREAK || b.Tok == token.FALLTHROUGH {
						bad = true
					}
				case *ast.ForStmt, *ast.RangeStmt:
					return false
				}
				return true
			})
			if bad {
				return "", hpErr(st, "break / fallthrough inside a switch")
			}
		}
		if cc.List == nil {
			dflt = cc
		} else {
			clauses = append(clauses, cc)
		}
	}
	joined := false
	var car []string
	{
		all := &ast.BlockStmt{Lbrace: v.Body.Lbrace}
		for _, cc := range clauses {
			all.List = append(all.List, cc.Body...)
		}
		if dflt != nil {
			all.List = append(all.List, dflt.Body...)
		}
		if cr, ok := x.joinable(c, all, nil); ok {
			joined, car = true, cr
		}
	}
	outerRest := rest
	if joined {
		rest = func(cc *hpCtx) (string, error) { return hpTuple(car), nil }
	}
	var gen func(i int, c *hpCtx) (string, error)
	defer func() { _ = outerRest }()
	gen = func(i int, c *hpCtx) (string, error) {
		if i == len(clauses) {
			if dflt != nil {
				return x.block(c.clone(), dflt.Body, rest)
			}
			return rest(c.clone())
		}
		var conds []string
		for _, e := range clauses[i].List {
			val, err := x.expr(c, e)
			if err != nil {
				return "", err
			}
			if tag != nil {
				if val.kind != tag.kind && tag.kind == "int" {
					if n, ok := constNat(x.info, e); ok {
						val = hpVal{lean: fmt.Sprintf("(%d : Nat)", n), kind: "int"}
					}
				}
				if val.kind != tag.kind {
					return "", hpErr(e, "case of kind %s for a tag of kind %s", val.kind, tag.kind)
				}
				conds = append(conds, "("+tag.lean+" == "+val.lean+")")
			} else {
				conds = append(conds, val.lean)
			}
		}
		cond := strings.Join(conds, " || ")
		if len(conds) > 1 {
			cond = "(" + cond + ")"
		}
		tS, err := x.block(c.clone(), clauses[i].Body, rest)
		if err != nil {
			return "", err
		}
		eS, err := gen(i+1, c)
		if err != nil {
			return "", err
		}
		return fmt.Sprintf("if %s then\n  %s\nelse\n  %s", cond, ind(tS), ind(eS)), nil
	}
	if joined {
		chain, err := gen(0, c)
		if err != nil {
			return "", err
		}
		r, err := outerRest(c)
		if err != nil {
			return "", err
		}
		return fmt.Sprintf("let %s :=\n  %s\n", hpTuple(car), ind(chain)) + r, nil
	}
	return gen(0, c)
}

// joinable: neither branch can leave (return / break / continue), allocates or publishes an object, or assigns a pointer
// variable; result: the variables declared outside that the branches assign (heap first), at least one
func (x *hpTr) joinable(c *hpCtx, body *ast.BlockStmt, els ast.Stmt) ([]string, bool) {
	bad := false
	chk := func(n ast.Node) bool {
		switch v := n.(type) {
		case *ast.ReturnStmt, *ast.BranchStmt, *ast.RangeStmt, *ast.ForStmt:
			bad = true
		case *ast.FuncLit:
			return false
		case *ast.UnaryExpr:
			if v.Op == token.AND {
				bad = true
			}
		case *ast.AssignStmt:
			for _, l := range v.Lhs {
				if ie, ok := l.(*ast.IndexExpr); ok && x.d.types[x.typeStr(ie.X)] == "table" {
					bad = true
				}
				if id, ok := l.(*ast.Ident); ok && id.Name != "_" {
					if obj := x.info.ObjectOf(id); obj != nil && x.d.ptrKinds[x.d.types[obj.Type().String()]] {
						bad = true
					}
				}
			}
		case *ast.CallExpr:
			if g := x.calleeOf(v); g != nil && g.hangs {
				bad = true
			}
			if id, ok := v.Fun.(*ast.Ident); ok {
				if ent, ok := x.d.calls[id.Name]; ok && ent.effect != "" {
					bad = true
				}
			}
		}
		return true
	}
	ast.Inspect(body, chk)
	car := x.carriedAt(c, body, body.Pos())
	if els != nil {
		ast.Inspect(els, chk)
		if eb, ok := els.(*ast.BlockStmt); ok {
			for _, n := range x.carriedAt(c, eb, body.Pos()) {
				dup := false
				for _, m := range car {
					if m == n {
						dup = true
					}
				}
				if !dup {
					if n == "s" {
						car = append([]string{"s"}, car...)
					} else {
						car = append(car, n)
					}
				}
			}
		} else {
			bad = true
		}
	}
	if bad || len(car) == 0 {
		return nil, false
	}
	return car, true
}

// the variables declared outside `body` that it assigns (Lean names, in order of first assignment), heap first
func (x *hpTr) carried(c *hpCtx, body *ast.BlockStmt) []string {
	return x.carriedAt(c, body, body.Pos())
}

func (x *hpTr) carriedAt(c *hpCtx, body *ast.BlockStmt, before token.Pos) []string {
	var out []string
	seen := map[string]bool{}
	writes := false
	ast.Inspect(body, func(n ast.Node) bool {
		switch v := n.(type) {
		case *ast.AssignStmt:
			for _, l := range v.Lhs {
				if x.isHeapStore(l) {
					writes = true
				}
				if id, ok := l.(*ast.Ident); ok && id.Name != "_" {
					obj := x.info.ObjectOf(id)
					if obj != nil && obj.Pos() < before {
						if vr, ok := c.vars[obj]; ok && !vr.unmod && !seen[vr.lean] {
							seen[vr.lean] = true
							out = append(out, vr.lean)
						}
					}
				}
			}
		case *ast.CallExpr:
			if g := x.calleeOf(v); g != nil && g.writes {
				writes = true
			}
			if id, ok := v.Fun.(*ast.Ident); ok && id.Name == "delete" {
				writes = true
			}
		}
		return true
	})
	if writes {
		out = append([]string{"s"}, out...)
	}
	return out
}

func hpPat(names []string) string {
	if len(names) == 0 {
		return "_"
	}
	return hpTuple(names)
}

func (x *hpTr) rangeStmt(c *hpCtx, v *ast.RangeStmt, rest hpCont) (string, error) {
	if c.loop != nil {
		return "", hpErr(v, "nested loop")
	}
	base, err := x.expr(c, v.X)
	if err != nil {
		return "", err
	}
	if base.kind != "table" {
		return "", hpErr(v, "range over kind %s", base.kind)
	}
	if id, ok := v.Key.(*ast.Ident); !ok || id.Name != "_" {
		return "", hpErr(v, "range key")
	}
	vid, ok := v.Value.(*ast.Ident)
	if !ok {
		return "", hpErr(v, "range value")
	}
	car := x.carried(c, v.Body)
	bc := c.clone()
	bc.loop = &hpLoop{carried: car}
	bc.vars[x.info.Defs[vid]] = &hpVar{lean: vid.Name, kind: "lease", st: hpNonNil}
	bS, err := x.block(bc, v.Body.List, func(cc *hpCtx) (string, error) { return "Ctl.next " + hpTuple(car), nil })
	if err != nil {
		return "", err
	}
	kS, err := rest(c.clone())
	if err != nil {
		return "", err
	}
	return fmt.Sprintf("forRange (tableKeys s) %s\n  (fun %s %s =>\n    %s)\n  (fun %s =>\n    %s)", hpTuple(car), hpPat(car), vid.Name, ind(ind(bS)), hpPat(car), ind(ind(kS))), nil
}

func (x *hpTr) forStmt(c *hpCtx, v *ast.ForStmt, rest hpCont) (string, error) {
	if c.loop != nil {
		return "", hpErr(v, "nested loop")
	}
	if v.Init != nil || v.Post != nil || v.Cond == nil {
		return "", hpErr(v, "for statement with init / post or without condition")
	}
	car := x.carried(c, v.Body)
	cond, err := x.expr(c.clone(), v.Cond)
	if err != nil {
		return "", err
	}
	bc := c.clone()
	bc.loop = &hpLoop{carried: car}
	bS, err := x.block(bc, v.Body.List, func(cc *hpCtx) (string, error) { return "Ctl.next " + hpTuple(car), nil })
	if err != nil {
		return "", err
	}
	kS, err := rest(c.clone())
	if err != nil {
		return "", err
	}
	return fmt.Sprintf("whileLoop fuel %s\n  (fun %s => %s)\n  (fun %s =>\n    %s)\n  (fun %s =>\n    %s)", hpTuple(car), hpPat(car), cond.lean, hpPat(car), ind(ind(bS)), hpPat(car), ind(ind(kS))), nil
}
