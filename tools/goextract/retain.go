package main

import (
	"fmt"
	"go/ast"
	"go/types"
	"os"
	"sort"
	"strings"

	"golang.org/x/tools/go/packages"
)

// Retention facts (C10).  A *retention site* stores a byte-slice-typed value ([]byte, net.HardwareAddr,
// net.IP, the view types, …) into a struct field (assignment or composite literal) or a map element.
// The stored expression is classified:
//   copy   – result of CopyMAC/CopyIP/CopyBytes/make/append/bytes.Clone/[]byte(string)/AsSlice()/As16()…, a literal
//   alias  – anything else (an identifier, field, slice expression or other call): the stored value may
//            alias whatever the expression aliases (possibly the caller's packet buffer)
// Only `alias` sites are emitted, as "pkg.Func:Type.field" (no line numbers: stable under refactoring), with " xN" appended when
// the function has N > 1 such stores to that target.  A store of a struct VALUE that carries byte slices (packet.Addr,
// NameEntry, …) counts like a store of its slices; composite literals of every type are walked field by field.
//
// A `go f(args…)` statement retains its arguments for as long as the new goroutine runs - beyond the return of the
// handler, when the packet loop reuses its buffer.  Every byte-slice-typed argument of a go statement that is
// not an evident copy is emitted in `goAliasArgs` as "pkg.Func:go callee(arg)"; the reviewed list is empty.
func isByteSlice(t types.Type) bool {
	if t == nil {
		return false
	}
	if s, ok := t.Underlying().(*types.Slice); ok {
		if b, ok := s.Elem().Underlying().(*types.Basic); ok && b.Kind() == types.Uint8 {
			return true
		}
	}
	return false
}

var copyFuncs = map[string]bool{"CopyMAC": true, "CopyIP": true, "CopyBytes": true, "make": true, "append": true, "Clone": true,
	"AsSlice": true, "As16": true, "As4": true, "MarshalBinary": true, "ParseMAC": true, "To16": true, "OptionsLeaseTime": true,
	"mustXID": true, "encodeName": true, "encodeNBNSName": true, "Pack": true, "ReadFile": true, "Marshal": true,
	"dupBytes": true, "dupMAC": true}

func classify(info *types.Info, e ast.Expr) string {
	switch x := e.(type) {
	case *ast.ParenExpr:
		return classify(info, x.X)
	case *ast.CompositeLit:
		return "copy"
	case *ast.BasicLit:
		return "copy"
	case *ast.Ident:
		if x.Name == "nil" {
			return "copy"
		}
		if obj, ok := info.Uses[x].(*types.Var); ok && obj.Pkg() != nil && obj.Parent() == obj.Pkg().Scope() {
			return "copy" // package-level constant table (EthernetBroadcast, …)
		}
		return "alias"
	case *ast.SelectorExpr:
		if id, ok := x.X.(*ast.Ident); ok {
			if _, isPkg := info.Uses[id].(*types.PkgName); isPkg {
				if obj, ok := info.Uses[x.Sel].(*types.Var); ok && obj.Pkg() != nil && obj.Parent() == obj.Pkg().Scope() {
					return "copy" // package-level constant table of another package (packet.EthernetBroadcast, …)
				}
			}
		}
		return "alias"
	case *ast.CallExpr:
		switch f := x.Fun.(type) {
		case *ast.Ident:
			if copyFuncs[f.Name] {
				return "copy"
			}
			if tv, ok := info.Types[f]; ok && tv.IsType() && len(x.Args) == 1 { // conversion T(x)
				if at := info.Types[x.Args[0]].Type; at != nil {
					if b, ok := at.Underlying().(*types.Basic); ok && b.Info()&types.IsString != 0 {
						return "copy" // []byte(string)
					}
				}
				return classify(info, x.Args[0])
			}
		case *ast.SelectorExpr:
			if copyFuncs[f.Sel.Name] {
				return "copy"
			}
			if tv, ok := info.Types[f]; ok && tv.IsType() && len(x.Args) == 1 {
				return classify(info, x.Args[0])
			}
		case *ast.ArrayType:
			if len(x.Args) == 1 {
				if at := info.Types[x.Args[0]].Type; at != nil {
					if b, ok := at.Underlying().(*types.Basic); ok && b.Info()&types.IsString != 0 {
						return "copy"
					}
				}
				return classify(info, x.Args[0])
			}
		}
		return "alias"
	}
	return "alias"
}

// carriesBytes: a struct VALUE (not a pointer) that has a byte-slice field, directly or in a nested struct value, or a
// slice of byte slices - storing such a value stores its slices (packet.Addr{MAC}, NameEntry…, []net.IP)
func carriesBytes(t types.Type, depth int) bool {
	if t == nil || depth > 3 {
		return false
	}
	switch u := t.Underlying().(type) {
	case *types.Struct:
		for i := 0; i < u.NumFields(); i++ {
			ft := u.Field(i).Type()
			if isByteSlice(ft) || carriesBytes(ft, depth+1) {
				return true
			}
		}
	case *types.Slice:
		return isByteSlice(u.Elem())
	}
	return false
}

// stored: the value of a store is a byte slice, or a struct value carrying byte slices that is not written as a composite
// literal here (a literal's fields are classified one by one when the walk reaches it)
func stored(info *types.Info, e ast.Expr) bool {
	t := info.Types[e].Type
	if isByteSlice(t) {
		return true
	}
	if _, lit := e.(*ast.CompositeLit); lit {
		return false
	}
	if u, ok := e.(*ast.UnaryExpr); ok {
		if _, lit := u.X.(*ast.CompositeLit); lit {
			return false
		}
	}
	return carriesBytes(t, 0)
}

// valStr renders the stored expression for the site key (what is stored is part of what was reviewed)
func valStr(e ast.Expr) string {
	switch x := e.(type) {
	case *ast.ParenExpr:
		return valStr(x.X)
	case *ast.SelectorExpr:
		return valStr(x.X) + "." + x.Sel.Name
	case *ast.Ident:
		return x.Name
	case *ast.CallExpr:
		args := make([]string, len(x.Args))
		for i, a := range x.Args {
			args[i] = valStr(a)
		}
		return valStr(x.Fun) + "(" + strings.Join(args, ",") + ")"
	case *ast.SliceExpr:
		return valStr(x.X) + "[:]"
	case *ast.IndexExpr:
		return valStr(x.X) + "[]"
	case *ast.StarExpr:
		return "*" + valStr(x.X)
	case *ast.UnaryExpr:
		return x.Op.String() + valStr(x.X)
	case *ast.ArrayType:
		return "[]" + valStr(x.Elt)
	}
	return "?"
}

var debugSites = os.Getenv("GOEXTRACT_SITES") != ""

func retainFacts(pkgs []*packages.Package, b *strings.Builder) {
	set := map[string]int{}
	note := func(key string, n ast.Node) {
		set[key]++
		if debugSites {
			fmt.Fprintf(os.Stderr, "%s\t%s\n", key, fset.Position(n.Pos()))
		}
	}
	goSet := map[string]bool{}
	for _, p := range pkgs {
		if !strings.HasPrefix(p.PkgPath, "github.com/irai/packet") || strings.HasSuffix(p.PkgPath, "/fastlog") {
			continue
		}
		info := p.TypesInfo
		for _, f := range p.Syntax {
			for _, d := range f.Decls {
				fd, ok := d.(*ast.FuncDecl)
				if !ok || fd.Body == nil {
					continue
				}
				fn := short(p.PkgPath) + "." + fd.Name.Name
				ast.Inspect(fd.Body, func(n ast.Node) bool {
					switch x := n.(type) {
					case *ast.GoStmt:
						callee := exprStr(x.Call.Fun)
						if sel, ok := x.Call.Fun.(*ast.SelectorExpr); ok {
							callee = sel.Sel.Name
						}
						if _, ok := x.Call.Fun.(*ast.FuncLit); ok {
							callee = "func"
						}
						for _, a := range x.Call.Args {
							if stored(info, a) && classify(info, a) == "alias" {
								goSet[fn+":go "+callee+"("+valStr(a)+")"] = true
							}
						}
					case *ast.AssignStmt:
						for i, lhs := range x.Lhs {
							if i >= len(x.Rhs) || len(x.Lhs) != len(x.Rhs) {
								break
							}
							target := ""
							switch l := lhs.(type) {
							case *ast.SelectorExpr:
								if sel, ok := info.Selections[l]; ok && sel.Kind() == types.FieldVal {
									rt := sel.Recv()
									if pt, ok := rt.(*types.Pointer); ok {
										rt = pt.Elem()
									}
									if nt, ok := rt.(*types.Named); ok {
										target = nt.Obj().Name() + "." + l.Sel.Name
									}
								}
							case *ast.IndexExpr:
								if _, ok := info.Types[l.X].Type.Underlying().(*types.Map); ok {
									target = "map[" + exprStr(l.X) + "]"
								}
							}
							if target != "" && stored(info, x.Rhs[i]) && classify(info, x.Rhs[i]) == "alias" {
								note(fn+":"+target+"="+valStr(x.Rhs[i]), x)
							}
						}
					case *ast.CallExpr:
						// append(list, v…) into a slice of byte slices ([]net.IP, [][]byte, …)
						if id, ok := x.Fun.(*ast.Ident); ok && id.Name == "append" && len(x.Args) >= 2 {
							if st, ok := info.Types[x.Args[0]].Type.Underlying().(*types.Slice); ok && isByteSlice(st.Elem()) && x.Ellipsis == 0 {
								for _, a := range x.Args[1:] {
									if classify(info, a) == "alias" {
										note(fn+":append("+exprStr(x.Args[0])+")="+valStr(a), x)
									}
								}
							}
						}
					case *ast.CompositeLit:
						tv, ok := info.Types[x]
						if !ok {
							return true
						}
						st, ok := tv.Type.Underlying().(*types.Struct)
						if !ok {
							return true
						}
						tn := "struct"
						if nt, ok := tv.Type.(*types.Named); ok {
							tn = nt.Obj().Name()
						}
						// no type is exempt (audit: Addr / Frame / Notification literals used to be skipped, which hid
						// `Host{Addr: Addr{MAC: addr.MAC}}` and `lease.Addr = Addr{MAC: mac}`): transient literals are reviewed
						// site by site in Props/C10Tie.lean
						for i, el := range x.Elts {
							var val ast.Expr
							name := ""
							if kv, ok := el.(*ast.KeyValueExpr); ok {
								val = kv.Value
								if id, ok := kv.Key.(*ast.Ident); ok {
									name = id.Name
								}
							} else if i < st.NumFields() {
								val = el
								name = st.Field(i).Name()
							}
							if val != nil && stored(info, val) && classify(info, val) == "alias" {
								note(fn+":"+tn+"{"+name+"}="+valStr(val), val)
							}
						}
					}
					return true
				})
			}
		}
	}
	// one entry per (function, target) WITH the number of aliasing stores to it: a second store to a reviewed target
	// changes the entry
	var l []string
	for k, n := range set {
		if n > 1 {
			k = fmt.Sprintf("%s x%d", k, n)
		}
		l = append(l, fmt.Sprintf("%q", k))
	}
	sort.Strings(l)
	var gl []string
	for k := range goSet {
		gl = append(gl, fmt.Sprintf("%q", k))
	}
	sort.Strings(gl)
	fmt.Fprintf(b, "/-- C10: byte-slice arguments of `go` statements that are not an evident copy (function:go callee(argument)), sorted -/\ndef goAliasArgs : List String := [\n  %s]\n\n", strings.Join(gl, ",\n  "))
	fmt.Fprintf(b, "/-- C10: sites that store a byte-slice value into a field / record / map element WITHOUT an evident copy\n    (function:target), sorted -/\ndef aliasSites : List String := [\n  %s]\n\n", strings.Join(l, ",\n  "))
	provFacts(pkgs, b) // F11: the provenance site table (prov.go)
}
