// F14: the bodies of the host / MAC table operations (hosttable.go, mactable.go, session.go,
// notification.go, layer_frame.go) as Lean source over the model's state record `Model.Tables.Sess`
// → Gen/TablesGen.lean.  Statement by statement, Go's control flow kept (continuation-passing with
// textual duplication of what follows an `if`; loops through `forRange`), with the fixed dictionary
// of Model/TablesGo.lean.  Whatever has no supported form refuses the whole function
// (`tablesUntranslated`, nothing approximated); statements without a model counterpart (locks,
// logging, the probe goroutine, unmodelled fields) are listed in `tablesIgnored`.
// tables.go: driver and types; tables_expr.go: expressions; tables_stmt.go: statements.
package main

import (
	"fmt"
	"go/ast"
	"go/types"
	"strings"

	"golang.org/x/tools/go/packages"
)

type tk int

const (
	tkHost tk = iota // *Host
	tkMac            // *MACEntry
	tkBool
	tkInt
	tkNat // uint (frame.flags)
	tkIP
	tkMAC
	tkTime
	tkDur
	tkStr
	tkNotif
	tkName
	tkHostList // []*Host
	tkIPList   // []netip.Addr
	tkAddrList // []Addr
	tkErr
	tkAddr  // struct Addr (flattened)
	tkFrame // struct Frame (flattened)
	tkLog   // *fastlog.Line: ignored
)

const (
	stNonNil = iota
	stMaybe
	stNil
	stFresh
)

type tvar struct {
	lean string
	k    tk
	st   int
	okOf *tvar // bool: the comma-ok flag of this pointer variable
	imm  bool  // Host pointer: <lean>_entry / _ip / _mac are bound
}

type tval struct {
	lean string
	k    tk
	st   int
	v    *tvar
	sub  map[string]string // struct values: field path → lean
}

type tfn struct {
	recv, name string
	fd         *ast.FuncDecl
	lean       string
	params     []*ast.Field
	results    []tk
	needCfg    bool
	needCE     bool
	needFM     bool
	needNow    bool
	sends      bool
	mayPanic   bool
	callees    []*tfn
	err        error
	body       string
	sig        string
	resNonNil  []bool
	sawMaybe   []bool
	named      []types.Object
}

type tloop struct {
	carried []string // lean names of the loop-carried variables (heap first)
	outer   *tloop
}

type tctx struct {
	x    *tabTr
	f    *tfn
	vars map[types.Object]*tvar
	sv   map[types.Object]map[string]*tvar
	loop *tloop
	idx  map[types.Object]idxInfo // loop index → ranged expression / element
	dirt map[string]bool          // ranged lvalues stored to on this path
}

type idxInfo struct {
	ranged string // source text of the ranged expression
	elem   string // lean name of the element
	ek     tk
}

type tabTr struct {
	p         *packages.Package
	info      *types.Info
	fns       map[string]*tfn
	order     []*tfn
	ignored   []string
	ignoredAt map[string]bool
	callees   map[string]bool
	assume    map[string]bool
}

var tableTargets = [][2]string{
	{"MACTable", "findMAC"}, {"MACTable", "findOrCreate"}, {"MACEntry", "unlink"}, {"MACTable", "delete"},
	{"Session", "findIP"}, {"Session", "FindIP"}, {"Session", "printHostTable"}, {"Session", "deleteHost"},
	{"Session", "findOrCreateHostWithLock"}, {"Session", "onlineTransition"}, {"Session", "checkOnlineTransition"},
	{"", "toNotification"}, {"Session", "sendNotification"}, {"Session", "makeOffline"},
	{"Session", "notify"},
	{"Session", "GetHosts"}, {"Session", "purge"}, {"Session", "DHCPv4IPOffer"}, {"Session", "Notify"},
	{"Host", "UpdateDHCP4Name"}, {"Session", "DHCPv4Update"}, {"Session", "SetDHCPv4IPOffer"},
	{"Host", "UpdateLLMNRName"}, {"Host", "UpdateMDNSName"}, {"Host", "UpdateSSDPName"}, {"Host", "UpdateNBNSName"},
	{"Session", "Capture"}, {"Session", "Release"},
}

func (c tctx) clone() tctx {
	n := c
	n.vars = map[types.Object]*tvar{}
	for k, v := range c.vars {
		cp := *v
		n.vars[k] = &cp
	}
	// okOf must point into the new map
	for k, v := range c.vars {
		if v.okOf != nil {
			for k2, v2 := range c.vars {
				if v2 == v.okOf {
					n.vars[k].okOf = n.vars[k2]
				}
			}
		}
	}
	n.sv = map[types.Object]map[string]*tvar{}
	for k, m := range c.sv {
		mm := map[string]*tvar{}
		for f, v := range m {
			cp := *v
			mm[f] = &cp
		}
		n.sv[k] = mm
	}
	n.idx = map[types.Object]idxInfo{}
	for k, v := range c.idx {
		n.idx[k] = v
	}
	n.dirt = map[string]bool{}
	for k, v := range c.dirt {
		n.dirt[k] = v
	}
	return n
}

func (c tctx) errf(n ast.Node, format string, a ...interface{}) error {
	return fmt.Errorf("line %d: %s", fset.Position(n.Pos()).Line, fmt.Sprintf(format, a...))
}

func (x *tabTr) src(n ast.Node) string {
	var b strings.Builder
	pos, end := fset.Position(n.Pos()), fset.Position(n.End())
	data, ok := srcCache[pos.Filename]
	if !ok {
		d, err := readFile(pos.Filename)
		if err != nil {
			return "?"
		}
		srcCache[pos.Filename] = d
		data = d
	}
	b.Write(data[pos.Offset:end.Offset])
	return strings.Join(strings.Fields(b.String()), " ")
}

var srcCache = map[string][]byte{}

func (x *tabTr) ignore(f *tfn, kind string, n ast.Node) {
	// a statement reached on several duplicated continuations (or in both translation passes) is listed once
	if x.ignoredAt == nil {
		x.ignoredAt = map[string]bool{}
	}
	key := fmt.Sprintf("%s@%d", f.lean, n.Pos())
	if x.ignoredAt[key] {
		return
	}
	x.ignoredAt[key] = true
	s := x.src(n)
	if len(s) > 90 {
		s = s[:90] + "…"
	}
	x.ignored = append(x.ignored, fmt.Sprintf("%s: %s: %s", f.lean, kind, s))
}

func typeKind(t types.Type) (tk, bool) {
	switch t.String() {
	case "*github.com/irai/packet.Host":
		return tkHost, true
	case "*github.com/irai/packet.MACEntry":
		return tkMac, true
	case "bool":
		return tkBool, true
	case "int":
		return tkInt, true
	case "uint":
		return tkNat, true
	case "github.com/irai/packet.PayloadID":
		return tkInt, true
	case "net/netip.Addr":
		return tkIP, true
	case "net.HardwareAddr":
		return tkMAC, true
	case "time.Time":
		return tkTime, true
	case "time.Duration":
		return tkDur, true
	case "string":
		return tkStr, true
	case "github.com/irai/packet.Notification":
		return tkNotif, true
	case "github.com/irai/packet.NameEntry":
		return tkName, true
	case "[]*github.com/irai/packet.Host":
		return tkHostList, true
	case "[]net/netip.Addr":
		return tkIPList, true
	case "[]github.com/irai/packet.Addr":
		return tkAddrList, true
	case "error":
		return tkErr, true
	case "github.com/irai/packet.Addr":
		return tkAddr, true
	case "github.com/irai/packet.Frame":
		return tkFrame, true
	case "*github.com/irai/packet/fastlog.Line":
		return tkLog, true
	}
	return 0, false
}

func leanType(k tk, maybe bool) string {
	switch k {
	case tkHost, tkMac:
		if maybe {
			return "Option Nat"
		}
		return "Nat"
	case tkBool:
		return "Bool"
	case tkInt, tkTime, tkDur:
		return "Int"
	case tkNat:
		return "Nat"
	case tkIP:
		return "IP"
	case tkMAC:
		return "MAC"
	case tkStr:
		return "String"
	case tkNotif:
		return "Notif"
	case tkName:
		return "NameEntry"
	case tkHostList:
		return "List Nat"
	case tkIPList:
		return "List IP"
	case tkAddrList:
		return "List (MAC × IP)"
	case tkErr:
		return "Option Err"
	}
	return "Unit"
}

func zeroOf(k tk, maybe bool) string {
	switch k {
	case tkHost, tkMac:
		if maybe {
			return "none"
		}
		return "0"
	case tkBool:
		return "false"
	case tkInt, tkDur:
		return "(0 : Int)"
	case tkTime:
		return "zeroTime"
	case tkNat:
		return "(0 : Nat)"
	case tkIP:
		return "IP.none"
	case tkMAC, tkHostList, tkIPList, tkAddrList:
		return "[]"
	case tkStr:
		return "\"\""
	case tkName:
		return "({} : NameEntry)"
	case tkErr:
		return "none"
	case tkNotif:
		return "(default : Notif)"
	}
	return "()"
}

var frameFields = []struct {
	path string
	k    tk
	lean string
}{{"Host", tkHost, "host"}, {"PayloadID", tkInt, "payloadID"}, {"SrcAddr.MAC", tkMAC, "srcMAC"}, {"SrcAddr.IP", tkIP, "srcIP"}, {"flags", tkNat, "flags"}}

var addrFields = []struct {
	path string
	k    tk
}{{"MAC", tkMAC}, {"IP", tkIP}}

// heap variables of a function, in order
func (f *tfn) heap() []string {
	if f.sends {
		return []string{"s", "out"}
	}
	return []string{"s"}
}

func (f *tfn) retType() string {
	parts := []string{"Sess"}
	if f.sends {
		parts = append(parts, "List Notif")
	}
	for i, r := range f.results {
		parts = append(parts, leanType(r, !(i < len(f.resNonNil) && f.resNonNil[i])))
	}
	t := strings.Join(parts, " × ")
	if f.mayPanic {
		return "Option (" + t + ")"
	}
	return t
}

// projection i of an n-tuple held in variable r
func proj(r string, i, n int) string {
	if n == 1 {
		return r
	}
	s := r
	for j := 0; j < i; j++ {
		s += ".2"
	}
	if i < n-1 {
		s += ".1"
	}
	return s
}

func ind(s string) string { return strings.ReplaceAll(s, "\n", "\n  ") }

func tablesFacts(p *packages.Package, b *strings.Builder) {
	b.WriteString("/- GENERATED by /verif/tools/goextract (tables.go) from the Go sources in /repo — do not edit. -/\n")
	b.WriteString("import PacketVerif.Model.TablesGo\nset_option linter.unusedVariables false\nnamespace PV.Gen.Tables\nopen PV PV.Model.Tables PV.Model.TablesGo\n\n")
	x := &tabTr{p: p, info: p.TypesInfo, fns: map[string]*tfn{}, callees: map[string]bool{}, assume: map[string]bool{}}
	var untr []string
	for _, t := range tableTargets {
		fd := findFunc(p, t[0], t[1])
		key := t[0] + "." + t[1]
		if fd == nil || fd.Body == nil {
			untr = append(untr, key+": declaration not found")
			continue
		}
		name := t[1]
		if t[0] != "" {
			name = t[0] + "_" + t[1]
		}
		f := &tfn{recv: t[0], name: t[1], fd: fd, lean: name}
		x.fns[key] = f
		x.order = append(x.order, f)
	}
	if msg := x.checkImmutable(); msg != "" {
		untr = append(untr, msg)
	}
	x.prepass()
	for _, f := range x.order {
		if f.err == nil {
			x.translate(f)
		}
		if f.err != nil {
			untr = append(untr, fmt.Sprintf("%s: %v", f.lean, f.err))
			continue
		}
		fmt.Fprintf(b, "/-- Go: %s (%s:%d) -/\ndef %s%s : %s :=\n  %s\n\n", x.src(&ast.FuncDecl{Recv: f.fd.Recv, Name: f.fd.Name, Type: f.fd.Type}),
			shortFile(fset.Position(f.fd.Pos()).Filename), fset.Position(f.fd.Pos()).Line, f.lean, f.sig, f.retType(), ind(f.body))
	}
	var tr []string
	for _, f := range x.order {
		if f.err == nil {
			tr = append(tr, f.lean)
		}
	}
	fmt.Fprintf(b, "def tablesTranslated : List String := %s\n\n", leanStrList(tr))
	fmt.Fprintf(b, "def tablesUntranslated : List String := %s\n\n", leanStrList(untr))
	fmt.Fprintf(b, "/-- statements without a model counterpart (locks, logging, the probe goroutine, unmodelled fields), in source order per function -/\ndef tablesIgnored : List String := %s\n\n", leanStrList(x.ignored))
	fmt.Fprintf(b, "/-- callees replaced by their dictionary meaning -/\ndef tablesCallees : List String := %s\n\n", leanStrList(sortedKeys(x.callees)))
	fmt.Fprintf(b, "def tablesAssumptions : List String := %s\n\nend PV.Gen.Tables\n", leanStrList(sortedKeys(x.assume)))
}

func shortFile(s string) string {
	if i := strings.LastIndex(s, "/"); i >= 0 {
		return s[i+1:]
	}
	return s
}

// Host.MACEntry, Host.Addr (and its fields) and MACEntry.MAC are read at the point where a pointer is
// bound; that is sound only if no statement of the package assigns them after construction.
func (x *tabTr) checkImmutable() string {
	msg := ""
	for _, file := range x.p.Syntax {
		ast.Inspect(file, func(n ast.Node) bool {
			as, ok := n.(*ast.AssignStmt)
			if !ok {
				return true
			}
			for _, l := range as.Lhs {
				for e := l; ; {
					se, ok := e.(*ast.SelectorExpr)
					if !ok {
						break
					}
					if sel := x.info.Selections[se]; sel != nil {
						recv := sel.Recv().String()
						recv = strings.TrimPrefix(recv, "*")
						fn := sel.Obj().Name()
						if (recv == "github.com/irai/packet.Host" && (fn == "MACEntry" || fn == "Addr")) ||
							(recv == "github.com/irai/packet.MACEntry" && fn == "MAC") {
							msg = fmt.Sprintf("immutable field %s.%s assigned at %s:%d", recv, fn, shortFile(fset.Position(as.Pos()).Filename), fset.Position(as.Pos()).Line)
						}
					}
					if _, isPtr := x.info.TypeOf(se.X).(*types.Pointer); isPtr {
						break
					}
					e = se.X
				}
			}
			return true
		})
	}
	return msg
}

// prepass: which implicit parameters each function needs, whether it sends, whether it can panic
func (x *tabTr) prepass() {
	for _, f := range x.order {
		f.params = f.fd.Type.Params.List
		if f.fd.Type.Results != nil {
			for _, r := range f.fd.Type.Results.List {
				k, ok := typeKind(x.info.TypeOf(r.Type))
				if !ok {
					f.err = fmt.Errorf("result type %s", x.info.TypeOf(r.Type))
					continue
				}
				n := len(r.Names)
				if n == 0 {
					n = 1
				}
				for i := 0; i < n; i++ {
					f.results = append(f.results, k)
				}
			}
		}
		ast.Inspect(f.fd.Body, func(n ast.Node) bool {
			switch v := n.(type) {
			case *ast.GoStmt:
				return false
			case *ast.SliceExpr:
				f.mayPanic = true
			case *ast.SendStmt:
				f.sends = true
				f.needCE = true
			case *ast.SelectorExpr:
				if sel := x.info.Selections[v]; sel != nil && strings.HasSuffix(sel.Recv().String(), "packet.Session") {
					switch sel.Obj().Name() {
					case "ProbeDeadline", "OfflineDeadline", "PurgeDeadline":
						f.needCfg = true
					case "C", "closed":
						f.needCE = true
					}
				}
			case *ast.CallExpr:
				if id, ok := v.Fun.(*ast.Ident); ok && id.Name == "panic" {
					f.mayPanic = true
				}
				if id, ok := v.Fun.(*ast.Ident); ok && id.Name == "FindManufacturer" {
					f.needFM = true
				}
				if se, ok := v.Fun.(*ast.SelectorExpr); ok {
					if id, ok := se.X.(*ast.Ident); ok && id.Name == "time" && se.Sel.Name == "Now" {
						f.needNow = true
					}
				}
				if g := x.calleeOf(v); g != nil {
					f.callees = append(f.callees, g)
				}
			}
			return true
		})
	}
	for changed := true; changed; {
		changed = false
		for _, f := range x.order {
			for _, g := range f.callees {
				for _, pr := range [][2]*bool{{&f.needCfg, &g.needCfg}, {&f.needCE, &g.needCE}, {&f.needFM, &g.needFM}, {&f.needNow, &g.needNow}, {&f.sends, &g.sends}, {&f.mayPanic, &g.mayPanic}} {
					if *pr[1] && !*pr[0] {
						*pr[0] = true
						changed = true
					}
				}
			}
		}
	}
}

func (x *tabTr) calleeOf(c *ast.CallExpr) *tfn {
	var obj types.Object
	switch v := c.Fun.(type) {
	case *ast.Ident:
		obj = x.info.Uses[v]
	case *ast.SelectorExpr:
		obj = x.info.Uses[v.Sel]
	}
	fn, ok := obj.(*types.Func)
	if !ok || fn.Pkg() == nil || fn.Pkg().Path() != x.p.PkgPath {
		return nil
	}
	recv := ""
	if sig := fn.Type().(*types.Signature); sig.Recv() != nil {
		recv = strings.TrimPrefix(sig.Recv().Type().String(), "*")
		recv = recv[strings.LastIndex(recv, ".")+1:]
	}
	return x.fns[recv+"."+fn.Name()]
}
