package main

// The pointer receiver of struct type as STATE (builder M, session 6).
//
// Builder G's translation passed a pointer receiver `e *DNSEntry` by value and returned it with the results; an error
// return (`Outcome.err`) dropped it, so "the records decoded before the failing record stay in the entry" — which the
// model says and ProcessDNS relies on — could not even be stated about the generated function.  Here such a function is
// generated in the monad `OutcomeS <GStruct>` of Model/LoopGoDns.lean (state → state × Outcome): the body is the same
// text as before (the receiver is still a local that is re-bound at every store), plus a write-through `putRecv e` as
// the first statement and after every store into a field / into a map field of the receiver.  `Outcome` computations
// (slices, reads, calls of functions without such a receiver) are lifted by Lean's monad lift; `Outcome.err …` and
// `.hang` keep their text.  A call of an OutcomeS function is only accepted on the caller's own receiver.

import (
	"go/ast"
	"go/types"
	"strings"
)

// recvInit: the receiver is a pointer to a struct the translator renders as a generated structure
func (t *dnTr) recvInit(r *types.Var) {
	ptr, ok := r.Type().(*types.Pointer)
	if !ok {
		return
	}
	if _, isStruct := ptr.Elem().Underlying().(*types.Struct); !isStruct {
		return
	}
	lt := t.leanTy(r.Type())
	if !strings.HasPrefix(lt, "G") || lt == "GLine" || lt == "GAddr" {
		return
	}
	t.stVar = r
	t.dfn.stTy = lt
	t.dg.assume["recvState"] = true
}

func (t *dnTr) monadTy() string {
	if t.dfn.stTy != "" {
		return "OutcomeS " + t.dfn.stTy
	}
	return "Outcome"
}

// recvStore: after a store into (a field of) the receiver, write the local through
func (t *dnTr) recvStore(v *types.Var, b *lpBinds) {
	if t.stVar != nil && v == t.stVar {
		b.add("putRecv " + lpName(v.Name()))
	}
}

// recvCallCheck: a function in OutcomeS can only be called on the caller's own receiver (same state)
func (t *dnTr) recvCallCheck(x *ast.CallExpr, cf *dnFunc, recv ast.Expr) {
	if cf.stTy == "" {
		return
	}
	if t.stVar == nil || recv == nil || t.varOf(recv) != t.stVar {
		t.refuse(x, "call of the pointer-receiver method %s on something other than the caller's own receiver", cf.lean)
	}
}
