#!/usr/bin/env python3
"""tools/seeded.py <out_dir> <n> <property> <id> [checks...]
Confirms a seeded change produced by an independent agent and runs our checks against it.
  1. scratch worktree of /repo HEAD: apply changeN.diff, build, run the package's existing tests (must pass),
     run the demo (must FAIL); revert the change, run the demo again (must PASS).
  2. apply the change to /repo, run the listed checks (default: the property's quick check), revert.
  3. store patch.diff, demo, meta.json under /verif/seeded/<id>/.
"""
import json, os, re, shutil, subprocess, sys, time
V = os.path.dirname(os.path.dirname(os.path.abspath(__file__)))
REPO = os.environ.get("VERIF_REPO", "/repo")   # scratch copy for parallel confirmation runs; recorded results always name the checks
ENV = dict(os.environ, GOFLAGS="-mod=mod", GOPROXY="off", GOSUMDB="off", GOTOOLCHAIN="local")

def sh(cmd, cwd=None, timeout=1200, env=ENV):
    p = subprocess.run(cmd, cwd=cwd, shell=isinstance(cmd, str), stdout=subprocess.PIPE, stderr=subprocess.STDOUT, text=True, errors="replace", timeout=timeout, env=env)
    return p.returncode, p.stdout

def main():
    out, n, prop, sid = sys.argv[1], sys.argv[2], sys.argv[3], sys.argv[4]
    checks = sys.argv[5:] or [f"{prop} quick"]
    diff = os.path.join(out, f"change{n}.diff")
    demo = os.path.join(out, f"demo{n}_test.go")
    meta_txt = open(os.path.join(out, f"meta{n}.txt")).read() if os.path.exists(os.path.join(out, f"meta{n}.txt")) else ""
    if not os.path.exists(diff):   # re-run of an already recorded seed: <out> = /verif/seeded/<id>
        diff, demo = os.path.join(out, "patch.diff"), os.path.join(out, "demo_test.go")
        meta_txt = json.load(open(os.path.join(out, "meta.json"))).get("meta", "")
    head = open(demo).read(2000)
    pkg = re.search(r"^package (\w+)", open(demo).read(), re.M).group(1)
    pkgdir = {"packet": ".", "fastlog": "fastlog", "arp_spoofer": "handlers/arp_spoofer", "dhcp4_spoofer": "handlers/dhcp4_spoofer",
              "dns_naming": "handlers/dns_naming", "icmp_spoofer": "handlers/icmp_spoofer"}[pkg.replace("_test", "")]
    wt = f"/tmp/seedcheck{os.getpid()}"
    sh(f"git -C {REPO} worktree remove --force {wt}")
    shutil.rmtree(wt, ignore_errors=True)
    rc, o = sh(f"git -C {REPO} worktree add -q --detach {wt} HEAD")
    res = {"id": sid, "property": prop, "meta": meta_txt.strip(), "ran": []}
    try:
        rc, o = sh(f"git apply {diff}", cwd=wt)
        assert rc == 0, "patch does not apply: " + o
        rc, o = sh("go build ./...", cwd=wt)
        res["builds"] = rc == 0
        race = "-race" if "-race" in head else ""
        cgo = dict(ENV, CGO_ENABLED="1") if race else ENV
        rc, o = sh(f"go test ./{pkgdir}/ -count=1 -timeout 600s 2>&1 | tail -15", cwd=wt, timeout=900)
        bad = [l for l in o.split("\n") if l.startswith("--- FAIL") and not re.search(r"SignalNICStopped|requestExhaust|reverseDNS", l)]
        res["existing_tests_pass_with_change"] = not bad
        res["existing_tests_tail"] = o[-400:]
        shutil.copy(demo, os.path.join(wt, pkgdir, "zz_demo_test.go"))
        m = re.search(r"go test[^\n]*-run\s+'?\"?([\w|^$.*()]+)", head)
        run = m.group(1) if m else "ZZDemo"
        rc1, o1 = sh(f"go test {race} ./{pkgdir}/ -run '{run}' -count=1 -timeout 300s 2>&1 | tail -8", cwd=wt, timeout=600, env=cgo)
        res["demo_fails_with_change"] = ("FAIL" in o1) and ("ok  " not in o1.split("FAIL")[0][-5:])
        sh(f"git apply -R {diff}", cwd=wt)
        rc2, o2 = sh(f"go test {race} ./{pkgdir}/ -run '{run}' -count=1 -timeout 300s 2>&1 | tail -8", cwd=wt, timeout=600, env=cgo)
        res["demo_passes_without_change"] = "FAIL" not in o2 and "ok" in o2
        res["demo_with_tail"] = o1[-300:]
        res["demo_without_tail"] = o2[-300:]
    finally:
        sh(f"git -C {REPO} worktree remove --force {wt}")
        shutil.rmtree(wt, ignore_errors=True)
    # our checks against the change
    rc, o = sh(f"git -C {REPO} apply {diff}")
    assert rc == 0, o
    try:
        for ck in checks:
            t0 = time.time()
            rc, o = sh(f"./check {ck}", cwd=V, timeout=3600)
            lines = [l for l in o.split("\n") if l.startswith(("VIOLATION", "OK "))]
            replay = ""
            m = re.search(r"replay=(\S+)", o)
            if m and os.path.exists(m.group(1)):
                replay = "".join(open(m.group(1)).readlines()[:6])[:700]
            res["ran"].append({"check": ck, "exit": rc, "lines": [l[:200] for l in lines][:6], "wall_s": round(time.time() - t0, 1), "first_replay_head": replay})
    finally:
        sh(f"git -C {REPO} checkout -- .")
    res["caught_by"] = [r["check"] for r in res["ran"] if r["exit"] == 1]
    d = os.path.join(V, "seeded", sid)
    os.makedirs(d, exist_ok=True)
    if os.path.abspath(diff) != os.path.abspath(os.path.join(d, "patch.diff")):
        shutil.copy(diff, os.path.join(d, "patch.diff"))
        shutil.copy(demo, os.path.join(d, "demo_test.go"))
    json.dump(res, open(os.path.join(d, "meta.json"), "w"), indent=1)
    print(json.dumps({k: res[k] for k in ["id", "builds", "existing_tests_pass_with_change", "demo_fails_with_change", "demo_passes_without_change", "caught_by"]}))
    for r in res["ran"]:
        print(" ", r["check"], "exit", r["exit"], r["lines"][:2])

main()
