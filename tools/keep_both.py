import sys
p=sys.argv[1]; L=open(p).read().split('\n'); out=[]
for l in L:
    if l.startswith('<<<<<<< ') or l.startswith('=======') or l.startswith('>>>>>>> '): continue
    out.append(l)
open(p,'w').write('\n'.join(out))
