#!/bin/bash
# mutation run of builder E: apply one patch to $VERIF_REPO, run the property's quick check, show the verdict and the head of the replay, revert.
# usage: tools/sched_mutants.sh <patch> <prop> [<patch> <prop>]...
export GOFLAGS=-mod=mod GOPROXY=off GOSUMDB=off GOTOOLCHAIN=local
V=$(cd "$(dirname "$0")/.." && pwd)
R=${VERIF_REPO:?set VERIF_REPO}
while [ $# -ge 2 ]; do
  p=$1; prop=$2; shift 2
  echo "=== $p  ($prop)"
  git -C "$R" apply "$p" || { echo "patch does not apply"; continue; }
  out=$("$V/check" $prop quick 2>&1 | grep -v '^KNOWN-FINDING\|^note' | tail -n 4)
  echo "$out" | cut -c1-200
  f=$(echo "$out" | grep -o 'replay=[^ ]*' | head -1 | cut -d= -f2)
  [ -n "$f" ] && grep '^# what' "$f" | head -3 | cut -c1-330
  git -C "$R" checkout -- .
done
