import PacketVerif.Basic
import PacketVerif.Model.Checksum
import PacketVerif.Spec.Rfc1071
import PacketVerif.Lemmas.Checksum
import PacketVerif.Props.C15
