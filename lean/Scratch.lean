import PacketVerif.Gen.PingGen
open PV PV.Model PV.Model.Ping PV.Model.PingGo PV.Gen.Ping
example : strBytes "HELLO-NETFILTER" = [72,69,76,76,79,45,78,69,84,70,73,76,84,69,82] := by decide
example : ("HELLO-NETFILTER".toList.map (fun c => UInt8.ofNat c.toNat)) = [72,69,76,76,79,45,78,69,84,70,73,76,84,69,82] := by decide
example : ("HELLO-NETFILTER".toList.map (fun c => UInt8.ofNat c.toNat)) = [72,69,76,76,79,45,78,69,84,70,73,76,84,69,82] := by rfl
