import PacketVerif.Gen.Icmp6Gen
import PacketVerif.Lemmas.Icmp6Tie
namespace PV.Props.C14Icmp6Tie
open PV PV.Model PV.Model.Ndp PV.Model.Handlers PV.Model.Icmp6Hunt PV.Model.Icmp6Go PV.Gen.Icmp6 PV.Lemmas.Icmp6Tie

/-- the class of `addr.IP` as the filters of StartHunt / StopHunt see it -/
def classOf (ip : Bytes) : IpClass :=
  if Netip.is4 ip then .v4 else if Netip.is6 ip then (if Netip.isLinkLocalUnicast ip then .lla else .other6) else .none

/-- what StartHunt returns for the model's result -/
def startOut : StartResult → Stage × Option Err
  | .errInvalidIP => (.noChange, some .invalidIP)
  | .noChange => (.noChange, none)
  | .hunt => (.hunt, none)

/-- model state of a Go-side state with the machine part replaced -/
def withBase (g : G6) (b : Icmp6Hunt.State) : H6St := { abs g with base := b }

theorem close_tie (e : H6Env) (g : G6) (hmu : g.st.mu = false) :
    omap (fun r => abs r.1) (Handler6_Close e g) = close6 (abs g) := by
  rcases g with ⟨⟨b, mu, ln, cc, wk, sn⟩, rs⟩
  simp only at hmu
  subst hmu
  unfold Handler6_Close close6
  simp only [abs, lock, unlock, closed, setClosed, setBase, closeChan, omap]
  by_cases hc : b.closed = true
  · simp [hc]
  · by_cases hk : cc = true
    · simp [hc, hk]
    · simp [hc, hk]

theorem close_ret (e : H6Env) (g g' : G6) (r : Option Err) (h : Handler6_Close e g = .ok (g', r)) : r = none := by
  unfold Handler6_Close at h
  simp only [closed, setClosed, setBase, closeChan] at h
  by_cases hc : g.st.base.closed = true
  · simp [hc] at h; exact h.2.symm
  · by_cases hk : g.st.chanClosed = true
    · simp [hc, hk] at h
    · simp [hc, hk] at h; exact h.2.symm

/-- what the API call returns for the machine's output -/
def apiOut : Out → Stage × Option Err
  | .start r => startOut r
  | _ => (.normal, none)

/-- the machine step as the outcome of the API call on the handler state `g` abstracts to -/
def stepOut (g : G6) (ev : Event) (ret : Out → Stage × Option Err) : Outcome (H6St × Stage × Option Err) :=
  match step (abs g).base ev with
  | some (s', o) => .ok (withBase g s', ret o)
  | none => .hang          -- `h.Lock()` waits for the loop that holds the mutex

theorem startHunt_tie (e : H6Env) (g : G6) (addr : GAddr) (hfree : g.st.base.holder = none) :
    omap (fun x => (abs x.1, x.2)) (Handler6_StartHunt e g addr) =
      stepOut g (.startHunt addr.mac (classOf addr.ip)) apiOut := by
  rcases g with ⟨⟨b, mu, ln, cc, wk, sn⟩, rs⟩
  simp only at hfree
  unfold Handler6_StartHunt
  simp only [stepOut, step, classOf, abs, withBase, free, hfree, huntIndex, huntAdd, spawnLoop, setBase, omap]
  by_cases h4 : Netip.is4 addr.ip = true
  · simp [h4, startOut, apiOut, hfree]
  · by_cases h6 : Netip.is6 addr.ip = true
    · by_cases hl : Netip.isLinkLocalUnicast addr.ip = true
      · by_cases hm : addr.mac ∈ b.hunt <;> simp [h4, h6, hl, hm, startOut, apiOut, hfree]
      · simp [h4, h6, hl, startOut, apiOut, hfree]
    · by_cases hm : addr.mac ∈ b.hunt <;> simp [h4, h6, hm, startOut, apiOut, hfree]

/-- StopHunt acts on the list iff the address is not a valid non-link-local one -/
def stopEff (ip : Bytes) : Bool := !(Netip.isValid ip && !Netip.isLinkLocalUnicast ip)

theorem stopHunt_tie (e : H6Env) (g : G6) (addr : GAddr) (hfree : g.st.base.holder = none) :
    omap (fun x => (abs x.1, x.2)) (Handler6_StopHunt e g addr) =
      stepOut g (.stopHunt addr.mac (stopEff addr.ip))
        (fun _ => if stopEff addr.ip then (Stage.normal, none) else (Stage.noChange, none)) := by
  rcases g with ⟨⟨b, mu, ln, cc, wk, sn⟩, rs⟩
  simp only at hfree
  unfold Handler6_StopHunt
  simp only [stepOut, step, stopEff, abs, withBase, free, hfree, huntDel, setBase, omap]
  by_cases hv : (Netip.isValid addr.ip && !Netip.isLinkLocalUnicast addr.ip) = true
  · simp [hv, hfree]
  · simp [hv, hfree]

theorem spoofLoop_pre_tie (e : H6Env) (g : G6) (a : GAddr) :
    Handler6_spoofLoop_pre e g a =
      .ok (g, { a with ip := Icmp6Na.loopDstIP (if Netip.isValid a.ip then some a.ip else none) }, 0) := by
  unfold Handler6_spoofLoop_pre
  by_cases hv : Netip.isValid a.ip = true <;> simp [hv, Icmp6Na.loopDstIP]

def zeroHdr : RaHeader :=
  { curHopLimit := 0, managed := false, other := false, preference := 0, lifetime := 0, reachable := 0, retrans := 0 }

theorem any_false_of_find_none (rs : List (Bytes × GRouter)) (ip : Bytes)
    (h : rs.find? (fun x => x.1 = ip) = none) : rs.any (fun x => decide (x.1 = ip)) = false := by
  induction rs with
  | nil => rfl
  | cons x xs ih =>
    simp only [List.find?_cons] at h
    by_cases hx : x.1 = ip
    · simp [hx] at h
    · simp only [hx, decide_false] at h
      simp [List.any_cons, hx, ih h]

theorem findOrCreateRouter_tie (e : H6Env) (g : G6) (mac ip : Bytes) :
    omap (fun x => (abs x.1, x.2)) (Handler6_findOrCreateRouter e g mac ip) =
      match (abs g).base.routers.find? (fun x => x.1 = ip) with
      | some _ => .ok (abs g, ip, true)
      | none =>
        if g.st.lanNil then .panic
        else .ok (withBase g { (abs g).base with
                    routers := (abs g).base.routers ++ [(ip, { mac := mac, ip := ip, hdr := zeroHdr, options := {} })],
                    defaultRouter := some ip }, ip, false) := by
  rcases g with ⟨⟨b, mu, ln, cc, wk, sn⟩, rs⟩
  unfold Handler6_findOrCreateRouter
  simp only [abs, withBase, find_abs, routerFind]
  cases hf : rs.find? (fun x => x.1 = ip) with
  | some x =>
    have hx : x.1 = ip := by simpa using List.find?_some hf
    simp [omap, hx]
  | none =>
    have ha := any_false_of_find_none rs ip hf
    by_cases hl : ln = true
    · simp [omap, mapSet, hl]
    · simp [omap, mapSet, hl, ha, setDefRouter, setBase, abs, absRouters, absRouter, zeroHdr]

theorem findRouter_tie (e : H6Env) (g : G6) (ip : Bytes) :
    omap (fun x => (abs x.1, absRouter x.2)) (Handler6_FindRouter e g ip) =
      .ok (abs g, (((abs g).base.routers.find? (fun x => x.1 = ip)).map (·.2)).getD (absRouter {})) := by
  rcases g with ⟨⟨b, mu, ln, cc, wk, sn⟩, rs⟩
  unfold Handler6_FindRouter
  simp only [abs, find_abs, routerFind]
  cases hf : rs.find? (fun x => x.1 = ip) with
  | some x =>
    have hx : x.1 = ip := by simpa using List.find?_some hf
    simp [omap, R, hx, hf]
  | none => simp [omap]

end PV.Props.C14Icmp6Tie
