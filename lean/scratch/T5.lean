import PacketVerif.Props.C14Icmp6Tie
namespace PV.Props.C14Icmp6Tie
open PV PV.Model PV.Model.Ndp PV.Model.Handlers PV.Model.Icmp6Hunt PV.Model.Icmp6Go PV.Gen.Icmp6 PV.Lemmas.Icmp6Tie

/-- what `Session.Parse` guarantees about the frame record the handler is given -/
structure ParseOK (fr : Frame) (p : Bytes) : Prop where
  pay0 : 0 < fr.offPayload
  payLe : fr.offPayload ≤ p.length
  ip6Le : fr.offIP6 ≤ p.length
  src : fr.offIP6 ≠ 0 → slice (p.drop fr.offIP6) 8 24 = .ok fr.srcIP
  eth : 12 ≤ p.length

set_option hygiene false in
macro "ra_tail" : tactic => `(tactic| (
  simp only [lock, unlock, rep, setRep, setBase, Outcome.bind_ok, Bool.false_eq_true, if_false, if_true, goMod4, Outcome.pure_eq]
  by_cases hr : (b.rep + 1) % 4 ≠ 0
  · simp [hr]
  · simp only [hr, if_false]
    by_cases hh : fr.hostEv.isNone = true
    · simp [hh]
    · simp only [hh, Bool.false_eq_true, if_false]
      cases ho : raOptions pay with
      | ok o =>
        simp only []
        obtain ⟨es, hes⟩ : ∃ es, slice p 6 12 = .ok es := ⟨_, by unfold slice; exact if_pos ⟨by omega, h12⟩⟩
        simp only [etherSrc, hes, ip6Src, hsrc, Outcome.bind_ok]
        have hmac : (if (o.slla.mac.length == 0 || o.slla.mac.length != 6) = true then Outcome.ok es else Outcome.ok o.slla.mac)
            = Outcome.ok (raMac o es) := by
          unfold raMac; by_cases h6 : o.slla.mac.length = 6 <;> simp [h6]
        simp only [hmac, Outcome.bind_ok]
        unfold Handler6_findOrCreateRouter
        simp only [routerFind, learn, find_abs]
        cases hf : rs.find? (fun x => x.1 = fr.srcIP) with
        | some x =>
          have hx : x.1 = fr.srcIP := by simpa using List.find?_some hf
          simp only [Option.map_some, Outcome.bind_ok]
          cases hh : raHeader pay with
          | ok hdr =>
            simp only [raManaged, raOther, raPreference, raCurHopLimit, raLifetime, raReachable, raRetrans, omap, hh,
              Outcome.bind_ok, updRouter_comp]
            simp only [updRouter, hx]
            rw [upd_found rs fr.srcIP x hf hnd (fun r => { r with managedFlag := hdr.managed, otherCondigFlag := hdr.other, preference := hdr.preference, reacheableTime := hdr.reachable, retransTimer := hdr.retrans, curHopLimit := hdr.curHopLimit, defaultLifetime := hdr.lifetime * 1000000000, prefixes := o.prefixes, options := o }) _ rfl]
            simp [absRouter, hx, hh]
          | _ => simp [raManaged, omap, hh]
        | none =>
          have ha := any_false_of_find_none rs fr.srcIP hf
          simp only [Option.map_none, mapSet]
          by_cases hl : ln = true
          · simp [hl]
          · simp only [hl, ha, Bool.false_eq_true, if_false, Outcome.bind_ok, setDefRouter, setBase]
            cases hh : raHeader pay with
            | ok hdr =>
              simp only [raManaged, raOther, raPreference, raCurHopLimit, raLifetime, raReachable, raRetrans, omap, hh,
                Outcome.bind_ok, updRouter_comp]
              simp only [updRouter]
              rw [upd_new rs fr.srcIP _ hf (fun r => { r with managedFlag := hdr.managed, otherCondigFlag := hdr.other, preference := hdr.preference, reacheableTime := hdr.reachable, retransTimer := hdr.retrans, curHopLimit := hdr.curHopLimit, defaultLifetime := hdr.lifetime * 1000000000, prefixes := o.prefixes, options := o })]
              simp [absRouters, absRouter, hh]
            | _ => simp [raManaged, omap, hh]
      | err x => simp [optErr]
      | _ => simp))

theorem processPacket_tie (e : H6Env) (g : G6) (fr : Frame) (p : Bytes) (hmu : g.st.mu = false)
    (hnd : (g.routers.map (·.1)).Nodup) (hp : ParseOK fr p) :
    omap (fun x => (abs x.1, x.2)) (Handler6_ProcessPacket e g fr p) = h6Process e (abs g) fr p := by
  obtain ⟨hpay, hpl, hi6, hsrc, h12⟩ := hp
  unfold Handler6_ProcessPacket h6Process
  simp only [frameIP6, framePayload, Nat.ne_of_gt hpay, if_false, sliceFrom, hpl, hi6, if_true]
  by_cases h0 : fr.offIP6 = 0
  · simp [h0, omap]
  · have hsrc := hsrc h0
    simp only [h0, if_false, omap, Outcome.bind_ok, Option.isNone_some, icmpIsValid, lenValid]
    generalize hpayd : p.drop fr.offPayload = pay at *
    generalize hip6 : p.drop fr.offIP6 = ip6 at *
    by_cases h8 : pay.length < 8
    · simp [h8, Nat.not_le.mpr h8]
    · simp only [h8, if_false, Nat.not_lt.mp h8, if_true, Option.isNone_none]
      cases hidx : idx pay 0 with
      | ok t =>
        simp only [icmpType, omap, hidx, Outcome.bind_ok]
        by_cases h134 : t = 134
        · subst h134
          simp only [show ((134 : UInt8).toNat == 136) = false from rfl, show ((134 : UInt8).toNat == 135) = false from rfl,
            show ((134 : UInt8).toNat == 134) = true from rfl, if_true, if_false, Bool.false_eq_true, h6RA, raIsValid, lenValid]
          by_cases h16 : pay.length < 16
          · simp [h16, Nat.not_le.mpr h16]
          · simp only [h16, if_false, Nat.not_lt.mp h16, if_true, Option.isNone_none, Bool.not_true, Bool.false_eq_true]
            by_cases hc : (decide (huntLen g > 0) && !closed g) = true
            · have hw : 0 < (abs g).base.hunt.length ∧ (abs g).base.closed = false := by
                simpa [huntLen, closed, abs, Int.natCast_pos] using hc
              simp only [hc, if_true, if_pos hw, wakeLoops]
              by_cases hcc : g.st.chanClosed = true
              · have hcc' : (abs g).chanClosed = true := hcc
                have hm' : (abs g).mu = false := hmu
                simp [hcc, hcc', lock, hm']
              · have hcc' : ¬ (abs g).chanClosed = true := hcc
                simp only [hcc, hcc', if_false, Outcome.bind_ok]
                rcases g with ⟨⟨b, mu, ln, cc, wk, sn⟩, rs⟩
                simp only at hmu hnd
                subst hmu
                dsimp only [abs]
                generalize wk + 1 = wk'
                ra_tail
            · have hw : ¬ (0 < (abs g).base.hunt.length ∧ (abs g).base.closed = false) := by
                simpa [huntLen, closed, abs, Int.natCast_pos] using hc
              simp only [hc, if_false, if_neg hw, Outcome.bind_ok]
              rcases g with ⟨⟨b, mu, ln, cc, wk, sn⟩, rs⟩
              simp only at hmu hnd
              subst hmu
              dsimp only [abs]
              ra_tail
        · simp only [h134, if_false]
          by_cases h136 : t = 136
          · subst h136
            simp [icmp6Dispatch, hidx, h8, icmp6Ret, naIsValid, lenValid, naOverride, naSolicited, omap]
            by_cases h24 : pay.length < 24
            · simp [h24, Nat.not_le.mpr h24]
            · simp only [h24, if_false]
              cases h4 : idx pay 4 with
              | ok f =>
                simp only [Outcome.bind_ok]
                by_cases hf : (¬f &&& 32 = 0 ∧ f &&& 64 = 0)
                · cases hl : naTargetLLA pay with
                  | ok o => cases o <;> simp [hf, hl]
                  | _ => simp [hf, hl]
                · simp [hf]
              | _ => simp
          · by_cases h135 : t = 135
            · subst h135
              simp [icmp6Dispatch, hidx, h8, icmp6Ret, nsIsValid, lenValid, omap, ip6Src, hsrc, nsTarget]
              have hl16 : fr.srcIP.length = 16 := by
                unfold slice at hsrc
                split at hsrc
                · injection hsrc with hsrc; rw [← hsrc]; simp only [List.length_drop, List.length_take]; omega
                · cases hsrc
              have hun : (Netip.isUnspecified fr.srcIP = true) ↔ (∀ (x : UInt8), x ∈ fr.srcIP → x = 0) := by
                simp [Netip.isUnspecified, Netip.is4, Netip.is6, hl16]
              by_cases h24 : pay.length < 24
              · simp [h24, Nat.not_le.mpr h24]
              · simp only [h24, if_false]
                by_cases hu : Netip.isUnspecified fr.srcIP = true
                · simp only [hu, if_pos (hun.mp hu), if_true, Outcome.bind_ok]
                · have hu' := fun h => hu (hun.mpr h)
                  simp only [hu, if_neg hu', if_false]
                  cases ht : slice pay 8 24 with
                  | ok tgt =>
                    simp only [Outcome.bind_ok]
                    by_cases hg : isGlobalUnicast16 tgt = true
                    · simp only [hg, if_true, Outcome.bind_ok, etherDst, ip6Dst, sendNS_tie]
                      cases hd : slice p 0 6 with
                      | ok dmac =>
                        cases hdi : slice ip6 24 40 with
                        | ok dip =>
                          simp only [Outcome.bind_ok]
                          cases hs : sendICMP6 e.pool e.cfg.hostMAC dmac e.hostLLA dip (nsMarshal tgt e.cfg.hostMAC) with
                          | ok f =>
                            simp only [Outcome.bind_ok, connWrite, omap]
                            cases hw : writeTo e.conn g.st.sent f with
                            | ok r => simp [abs, hw]
                            | _ => simp [abs, hw]
                          | err x => exact absurd hs (noErr_sendICMP6 _ _ _ _ _ _ x)
                          | _ => simp
                        | _ => simp
                      | _ => simp
                    · simp [hg]
                  | _ => simp
            · have hget : pay[0]? = some t := by
                unfold idx at hidx
                split at hidx
                · injection hidx with hidx; subst hidx; assumption
                · cases hidx
              have hn : ∀ n, n < 256 → ((t.toNat == n) = (t == UInt8.ofNat n)) := fun n h => u8_eq_nat t n h
              simp only [hn 136 (by decide), hn 135 (by decide), hn 134 (by decide), hn 133 (by decide), hn 129 (by decide), hn 128 (by decide),
                hn 131 (by decide), hn 143 (by decide), hn 130 (by decide), hn 137 (by decide), hn 1 (by decide)]
              by_cases h133 : t = 133
              · subst h133
                simp [icmp6Dispatch, hidx, h8, icmp6Ret, rsIsValid, hget]
              · by_cases h129 : t = 129
                · subst h129
                  simp [icmp6Dispatch, hidx, h8, icmp6Ret, echoIsValid, lenValid, Nat.not_lt.mp h8]
                · by_cases h128 : t = 128
                  · subst h128; simp [icmp6Dispatch, hidx, h8, icmp6Ret]
                  · by_cases h131 : t = 131
                    · subst h131; simp [icmp6Dispatch, hidx, h8, icmp6Ret]
                    · by_cases h143 : t = 143
                      · subst h143; simp [icmp6Dispatch, hidx, h8, icmp6Ret]
                      · by_cases h130 : t = 130
                        · subst h130; simp [icmp6Dispatch, hidx, h8, icmp6Ret]
                        · by_cases h137 : t = 137
                          · subst h137
                            by_cases h40 : pay.length < 40
                            · simp [icmp6Dispatch, hidx, h8, icmp6Ret, redirectIsValid, lenValid, h40, Nat.not_le.mpr h40]
                            · simp [icmp6Dispatch, hidx, h8, icmp6Ret, redirectIsValid, lenValid, h40, Nat.not_lt.mp h40]
                          · by_cases h1 : t = 1
                            · subst h1; simp [icmp6Dispatch, hidx, h8, icmp6Ret]
                            · simp [icmp6Dispatch, hidx, h8, icmp6Ret, h133, h129, h128, h131, h143, h130, h137, h1, h134, h135, h136]
      | _ => simp [icmpType, omap, hidx]
end PV.Props.C14Icmp6Tie
