import PacketVerif.Gen.Icmp6Gen
import PacketVerif.Lemmas.Icmp6Tie
namespace PV.Props.C14Icmp6Tie
open PV PV.Model PV.Model.Ndp PV.Model.Handlers PV.Model.Icmp6Hunt PV.Model.Icmp6Go PV.Gen.Icmp6 PV.Lemmas.Icmp6Tie

theorem reslice_bytes_len (m : Mem) (s t : Sl) (a b : Nat) (h : Sl.reslice m s a b = .ok t) :
    (t.bytes m).length = b - a := by
  unfold Sl.reslice at h
  split at h
  · cases h
    simp only [Sl.bytes, Sl.cap, List.length_take, List.length_drop] at *
    omega
  · cases h

theorem copyInto_rep_ok (n : Nat) (s : Bytes) : ∃ v, copyInto (List.replicate (40 + n) 0) 0 16 s = .ok v := by
  unfold copyInto
  rw [if_pos (by simp only [List.length_replicate]; omega)]
  exact ⟨_, rfl⟩

theorem psh_k {β} (s d b : Bytes) (hs : s.length = 16) (hd : d.length = 16) (k : Bytes → Outcome β) :
    (copyInto (List.replicate (40 + b.length) 0) 0 16 s >>= fun psh => copyInto psh 16 32 d >>= fun psh =>
      put32Into psh 32 36 b.length >>= fun psh => setAt psh 39 58 >>= fun psh => copyFrom psh 40 b >>= k)
      = k (icmp6Pseudo s d b) := by
  have h := congrArg (fun x => x >>= k) (psh_eq s d b hs hd)
  simp only [obind_assoc, Outcome.bind_ok] at h
  exact h

theorem ret_norm (x : Outcome (G6 × Option Err)) :
    (x >>= fun r => if (!r.snd.isNone) = true then Outcome.ok (r.fst, r.snd) else Outcome.ok (r.fst, none)) = x := by
  cases x with
  | ok r => obtain ⟨g, er⟩ := r; cases er <;> rfl
  | _ => rfl

theorem icmp6SendPacket_tie (e : H6Env) (g : G6) (src dst : GAddr) (b : Bytes) (hb : 4 ≤ b.length) :
    Session_icmp6SendPacket e g src dst b =
      (sendICMP6 e.pool e.cfg.hostMAC dst.mac src.ip dst.ip b >>= fun f => connWrite e g f) := by
  unfold Session_icmp6SendPacket sendICMP6
  rw [if_neg (by omega)]
  simp only [hop_eq, obind_assoc]
  refine obind_congr _ _ _ (fun a => ?_)
  refine obind_congr _ _ _ (fun o => ?_)
  cases o with
  | none => simp [encodeIP6N]
  | some pay =>
    simp only [encodeIP6N, obind_assoc, ip6AppendPayloadN]
    refine obind_congr _ _ _ (fun x1 => ?_)
    refine obind_congr _ _ _ (fun x2 => ?_)
    refine obind_congr _ _ _ (fun f => ?_)
    cases h1 : Sl.reslice x2.fst x2.snd 8 24 with
    | ok t1 =>
      cases h2 : Sl.reslice x2.fst x2.snd 24 40 with
      | ok t2 =>
        simp only [Outcome.bind_ok]
        have l1 := reslice_bytes_len _ _ _ _ _ h1
        have l2 := reslice_bytes_len _ _ _ _ _ h2
        rw [psh_k _ _ _ l1 l2]
        simp only [Outcome.pure_eq, Outcome.bind_ok]
        refine obind_congr _ _ _ (fun ic => ?_)
        refine obind_congr _ _ _ (fun m' => ?_)
        exact ret_norm _
      | _ =>
        obtain ⟨v, hv⟩ := copyInto_rep_ok b.length (Sl.bytes x2.fst t1)
        simp only [Outcome.bind_ok, hv, Outcome.bind_err, Outcome.bind_panic, Outcome.bind_hang]
    | _ => simp
end PV.Props.C14Icmp6Tie
