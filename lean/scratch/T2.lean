import PacketVerif.Model.Icmp6Go
import PacketVerif.Lemmas.EncodeMem
namespace PV.Lemmas.Icmp6Tie
open PV PV.Model PV.Model.Ndp PV.Model.Handlers PV.Model.Icmp6Hunt PV.Model.Icmp6Go PV.Lemmas

theorem rep40 (n : Nat) : List.replicate (40 + n) (0 : UInt8) =
    [0,0,0,0,0,0,0,0,0,0,0,0,0,0,0,0,0,0,0,0,0,0,0,0,0,0,0,0,0,0,0,0,0,0,0,0,0,0,0,0] ++ List.replicate n 0 := by
  rw [Nat.add_comm]
  simp [List.replicate_succ]

theorem psh_eq (s d b : Bytes) (hs : s.length = 16) (hd : d.length = 16) :
    (do let psh ← copyInto (List.replicate (40 + b.length) 0) 0 16 s
        let psh ← copyInto psh 16 32 d
        let psh ← put32Into psh 32 36 b.length
        let psh ← setAt psh 39 58
        copyFrom psh 40 b) = .ok (icmp6Pseudo s d b) := by
  cells hs; cells hd
  rw [rep40]
  simp [copyInto, put32Into, setAt, copyFrom, icmp6Pseudo, List.take_replicate, List.drop_replicate]
  omega

end PV.Lemmas.Icmp6Tie
