import PacketVerif.Props.C14Icmp6Tie
namespace PV.Props.C14Icmp6Tie
open PV PV.Model PV.Model.Ndp PV.Model.Handlers PV.Model.Icmp6Hunt PV.Model.Icmp6Go PV.Gen.Icmp6 PV.Lemmas.Icmp6Tie

/-! ## one iteration of Handler6.spoofLoop -/

/-- the batch of an iteration: one forged neighbour advertisement (`Model.Icmp6Na.loopNA`) per learned router,
    in table order, each handed to the connection; `n` = the loop's counter `nTimes` -/
def sendAll (e : H6Env) (dst : GAddr) : List Bytes → G6 → Int → Outcome (G6 × Int)
  | [], g, n => .ok (g, n)
  | r :: rs, g, n =>
    Icmp6Na.loopNA e.pool e.cfg.hostMAC dst.mac r dst.ip >>= fun f =>
      connWrite e g f >>= fun x => sendAll e dst rs x.1 (n + 1)

/-- one iteration of the spoof loop in closed form; the guards are those of the machine's `check` step -/
def iterSpec (e : H6Env) (g : G6) (dst : GAddr) (n : Int) : Outcome (G6 × Int × Bool) :=
  if dst.mac ∉ g.st.base.hunt ∨ g.st.base.closed = true then .ok (g, n, false)
  else if g.st.base.defaultRouter.isSome then
    sendAll e dst (g.routers.map (·.2.addr.ip)) g n >>= fun x => .ok (x.1, x.2, true)
  else .ok (g, n + 1, true)

theorem forEach_collect {α β} (f : α → β) (xs : List α) (g : G6) (l : List β) :
    forEach xs (g, l) (fun st r => .ok (st.1, st.2 ++ [f r])) = .ok (g, l ++ xs.map f) := by
  induction xs generalizing l with
  | nil => simp [forEach]
  | cons x xs ih => simp [forEach, ih]

theorem forEach_send (e : H6Env) (dst : GAddr) (l : List GAddr) (g : G6) (n : Int) :
    forEach l (g, n) (fun st_ routerAddr =>
        sendICMP6 e.pool e.cfg.hostMAC dst.mac routerAddr.ip dst.ip (naMarshal false false true routerAddr.ip e.cfg.hostMAC) >>= fun a =>
          connWrite e st_.fst a >>= fun x => Outcome.ok (x.fst, st_.snd + 1)) = sendAll e dst (l.map (·.ip)) g n := by
  induction l generalizing g n with
  | nil => rfl
  | cons a l ih =>
    simp only [forEach, List.map_cons, sendAll, Icmp6Na.loopNA, obind_assoc, Outcome.bind_ok]
    refine obind_congr _ _ _ (fun f => ?_)
    refine obind_congr _ _ _ (fun x => ?_)
    exact ih x.1 (n + 1)

theorem spoofLoop_iter_tie (e : H6Env) (g : G6) (dst : GAddr) (n : Int) :
    Handler6_spoofLoop_iter e g dst n = iterSpec e g dst n := by
  unfold Handler6_spoofLoop_iter iterSpec
  simp only [sendNA_tie, obind_assoc, Outcome.bind_ok]
  rw [forEach_collect (fun (r : GRouter) => r.addr)]
  simp only [Outcome.bind_ok, forEach_send, List.nil_append, routerVals, List.map_map]
  have hidx : ((huntIndex g dst.mac == -1 || closed g) = true) ↔ (¬dst.mac ∈ g.st.base.hunt ∨ g.st.base.closed = true) := by
    unfold huntIndex closed
    by_cases hm : dst.mac ∈ g.st.base.hunt
    · simp [hm]
    · simp [hm]
  by_cases hc : (¬dst.mac ∈ g.st.base.hunt ∨ g.st.base.closed = true)
  · rw [if_pos (hidx.mpr hc), if_pos hc]
  · rw [if_neg (fun h => hc (hidx.mp h)), if_neg hc]
    cases hd : g.st.base.defaultRouter with
    | none => simp [defRouter, hd]
    | some k => simp [defRouter, hd, Function.comp_def]

/-- the guards of `iterSpec` are those of the machine's `check` step: the iteration ends the loop exactly when
    the machine moves it to `done`, sends a batch exactly when the machine hands it the list of learned routers
    (pc `send`, one forged advertisement per key), and waits otherwise -/
theorem spoofLoop_check_tie (g : G6) (dst : GAddr) (i : Nat)
    (hpc : (g.st.base.loops i).pc = .check) (hmac : (g.st.base.loops i).mac = dst.mac)
    (hfree : g.st.base.holder = none) :
    (step (abs g).base (.check i)).map (fun x => (x.1.loops i).pc) =
      some (if dst.mac ∉ g.st.base.hunt ∨ g.st.base.closed = true then Pc.done
            else if g.st.base.defaultRouter.isSome then
              (match g.routers.map (·.1) with
               | [] => Pc.wait
               | l => Pc.send l)
            else Pc.wait) := by
  rcases g with ⟨⟨b, mu, ln, cc, wk, sn⟩, rs⟩
  simp only at hpc hmac hfree
  simp only [step, abs, free, hpc, hmac, hfree, and_self, if_true, absRouters, List.map_map]
  by_cases hc : (dst.mac ∉ b.hunt ∨ b.closed = true)
  · simp [hc, updLoop]
  · simp only [hc, if_false]
    cases hd : b.defaultRouter with
    | none => simp [updLoop]
    | some k =>
      cases rs with
      | nil => simp [updLoop]
      | cons r rs => simp [updLoop, Function.comp_def]

end PV.Props.C14Icmp6Tie
