import PacketVerif.Lemmas.Icmp6Tie
namespace PV.Lemmas.Icmp6Tie
open PV PV.Model PV.Model.Ndp PV.Model.Handlers PV.Model.Icmp6Hunt PV.Model.Icmp6Go PV.Lemmas

theorem goMod4 (a : Int) : ((goMod a 4 != 0) = true) ↔ a % 4 ≠ 0 := by
  simp only [goMod, bne_iff_ne, ne_eq]
  constructor
  · intro h h'; apply h
    exact Int.tmod_eq_zero_of_dvd (Int.dvd_of_emod_eq_zero h')
  · intro h h'; apply h
    exact Int.emod_eq_zero_of_dvd (Int.dvd_of_tmod_eq_zero h')

theorem updRouter_comp (g : G6) (k : Bytes) (f1 f2 : GRouter → GRouter) :
    updRouter (updRouter g k f1) k f2 = updRouter g k (fun r => f2 (f1 r)) := by
  simp only [updRouter, List.map_map]
  congr 1
  apply List.map_congr_left
  intro e _
  by_cases h : e.1 = k <;> simp [h]

/-- in a table with distinct keys the entry `find?` returns is the only one with that key -/
theorem only_found (rs : List (Bytes × GRouter)) (ip : Bytes) (x : Bytes × GRouter)
    (hf : rs.find? (fun e => e.1 = ip) = some x) (hnd : (rs.map (·.1)).Nodup) :
    ∀ e ∈ rs, e.1 = ip → e = x := by
  induction rs with
  | nil => simp at hf
  | cons y ys ih =>
    simp only [List.map_cons, List.nodup_cons] at hnd
    intro e he hk
    simp only [List.find?_cons] at hf
    by_cases hy : y.1 = ip
    · simp only [hy, decide_true] at hf
      injection hf with hf
      subst hf
      rcases List.mem_cons.mp he with h | h
      · exact h
      · exfalso; apply hnd.1
        rw [hy, ← hk]; exact List.mem_map_of_mem h
    · simp only [hy, decide_false] at hf
      rcases List.mem_cons.mp he with h | h
      · subst h; exact absurd hk hy
      · exact ih hf hnd.2 e h hk

theorem upd_found (rs : List (Bytes × GRouter)) (ip : Bytes) (x : Bytes × GRouter)
    (hf : rs.find? (fun e => e.1 = ip) = some x) (hnd : (rs.map (·.1)).Nodup)
    (f : GRouter → GRouter) (r' : Icmp6Hunt.Router) (hr : absRouter (f x.2) = r') :
    absRouters (rs.map (fun e => if e.1 = ip then (e.1, f e.2) else e)) =
      (absRouters rs).map (fun e => if e.1 = ip then (e.1, r') else e) := by
  simp only [absRouters, List.map_map]
  apply List.map_congr_left
  intro e he
  by_cases h : e.1 = ip
  · have := only_found rs ip x hf hnd e he h
    subst this
    simp [h, hr]
  · simp [h]

theorem upd_new (rs : List (Bytes × GRouter)) (ip : Bytes) (r : GRouter)
    (hf : rs.find? (fun e => e.1 = ip) = none) (f : GRouter → GRouter) :
    (rs ++ [(ip, r)]).map (fun e => if e.1 = ip then (e.1, f e.2) else e) = rs ++ [(ip, f r)] := by
  simp only [List.map_append, List.map_cons, List.map_nil, if_true]
  congr 1
  have : ∀ e ∈ rs, ¬ e.1 = ip := by
    intro e he
    have := List.find?_eq_none.mp hf e he
    simpa using this
  conv => rhs; rw [← List.map_id rs]
  apply List.map_congr_left
  intro e he
  simp [this e he]

end PV.Lemmas.Icmp6Tie
