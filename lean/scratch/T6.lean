import PacketVerif.Lemmas.Icmp6Tie
namespace PV.Lemmas.Icmp6Tie
open PV PV.Model PV.Model.Ndp PV.Model.Handlers PV.Model.Icmp6Hunt PV.Model.Icmp6Go PV.Lemmas

/-- the computation returns no Go `error` value (it returns a value, panics or hangs) -/
def NoErr {α} (x : Outcome α) : Prop := ∀ e, x ≠ .err e

theorem noErr_ok {α} (a : α) : NoErr (Outcome.ok a) := fun _ h => by cases h
theorem noErr_panic {α} : NoErr (Outcome.panic : Outcome α) := fun _ h => by cases h
theorem noErr_bind {α β} {x : Outcome α} {f : α → Outcome β} (hx : NoErr x) (hf : ∀ a, NoErr (f a)) : NoErr (x >>= f) := by
  cases x with
  | ok a => exact hf a
  | err e => exact absurd rfl (hx e)
  | panic => exact noErr_panic
  | hang => intro _ h; cases h
theorem noErr_ite {α} {c : Prop} [Decidable c] {x y : Outcome α} (hx : NoErr x) (hy : NoErr y) : NoErr (if c then x else y) := by
  split <;> assumption

theorem noErr_reslice (m : Mem) (s : Sl) (a b : Nat) : NoErr (s.reslice m a b) := by
  unfold Sl.reslice; exact noErr_ite (noErr_ok _) noErr_panic
theorem noErr_from (m : Mem) (s : Sl) (a : Nat) : NoErr (s.from_ m a) := noErr_reslice _ _ _ _
theorem noErr_copyAt (m : Mem) (s : Sl) (a b : Nat) (src : Bytes) : NoErr (s.copyAt m a b src) := by
  unfold Sl.copyAt; exact noErr_bind (noErr_reslice _ _ _ _) (fun _ => noErr_ok _)
theorem noErr_put8 (m : Mem) (s : Sl) (i : Nat) (v : UInt8) : NoErr (s.put8 m i v) := by
  unfold Sl.put8; exact noErr_ite (noErr_ok _) noErr_panic
theorem noErr_put16 (m : Mem) (s : Sl) (a v : Nat) : NoErr (s.put16 m a v) := noErr_copyAt _ _ _ _ _
theorem noErr_idx (b : Bytes) (i : Nat) : NoErr (idx b i) := by
  unfold idx; split
  · exact noErr_ok _
  · exact noErr_panic
theorem noErr_get8 (m : Mem) (s : Sl) (i : Nat) : NoErr (s.get8 m i) := by
  unfold Sl.get8; exact noErr_ite (noErr_idx _ _) noErr_panic
theorem noErr_encodeEther (m : Mem) (b : Sl) (t : Nat) (s d : Bytes) : NoErr (encodeEther m b t s d) := by
  unfold encodeEther
  refine noErr_ite noErr_panic ?_
  refine noErr_bind (noErr_reslice _ _ _ _) (fun _ => ?_)
  refine noErr_bind (noErr_copyAt _ _ _ _ _) (fun _ => ?_)
  refine noErr_bind (noErr_copyAt _ _ _ _ _) (fun _ => ?_)
  exact noErr_bind (noErr_put16 _ _ _ _) (fun _ => noErr_ok _)
theorem noErr_etherHdrLen (m : Mem) (p : Sl) : NoErr (etherHdrLen m p) := by
  unfold etherHdrLen
  exact noErr_bind (noErr_get8 _ _ _) (fun _ => noErr_bind (noErr_get8 _ _ _) (fun _ => noErr_ok _))
theorem noErr_etherPayloadSl (m : Mem) (p : Sl) : NoErr (etherPayloadSl m p) := by
  unfold etherPayloadSl
  refine noErr_bind (noErr_etherHdrLen _ _) (fun _ => ?_)
  refine noErr_ite (noErr_bind (noErr_from _ _ _) (fun _ => noErr_ok _)) ?_
  exact noErr_ite (noErr_bind (noErr_reslice _ _ _ _) (fun _ => noErr_ok _)) (noErr_ok _)
theorem noErr_etherSetPayload (m : Mem) (p : Sl) (n : Nat) : NoErr (etherSetPayload m p n) := by
  unfold etherSetPayload
  exact noErr_bind (noErr_etherHdrLen _ _) (fun _ => noErr_reslice _ _ _ _)
theorem noErr_encodeIP6 (m : Mem) (p : Sl) (h : UInt8) (s d : Bytes) : NoErr (encodeIP6 m p h s d) := by
  unfold encodeIP6
  refine noErr_bind (noErr_reslice _ _ _ _) (fun _ => ?_)
  refine noErr_bind (noErr_put8 _ _ _ _) (fun _ => ?_)
  refine noErr_bind (noErr_put8 _ _ _ _) (fun _ => ?_)
  refine noErr_bind (noErr_put8 _ _ _ _) (fun _ => ?_)
  refine noErr_bind (noErr_put8 _ _ _ _) (fun _ => ?_)
  refine noErr_bind (noErr_put16 _ _ _ _) (fun _ => ?_)
  refine noErr_bind (noErr_put8 _ _ _ _) (fun _ => ?_)
  refine noErr_bind (noErr_put8 _ _ _ _) (fun _ => ?_)
  refine noErr_bind (noErr_copyAt _ _ _ _ _) (fun _ => ?_)
  exact noErr_bind (noErr_copyAt _ _ _ _ _) (fun _ => noErr_ok _)
theorem noErr_putCks (m : Mem) (p : Sl) (k : Nat) (cs : UInt16) : NoErr (putCks m p k cs) := by
  unfold putCks; exact noErr_bind (noErr_put8 _ _ _ _) (fun _ => noErr_put8 _ _ _ _)
theorem noErr_append (m : Mem) (p : Sl) (b : Bytes) (nh : UInt8) :
    NoErr (match ip6AppendPayload m p b nh with | .err _ => Outcome.panic | r => r) := by
  cases h : ip6AppendPayload m p b nh with
  | err e => exact noErr_panic
  | ok a => exact noErr_ok _
  | panic => exact noErr_panic
  | hang => intro _ h; cases h

theorem noErr_sendICMP6 (g : Mem) (hm dm s d msg : Bytes) : NoErr (sendICMP6 g hm dm s d msg) := by
  unfold sendICMP6
  refine noErr_ite noErr_panic ?_
  refine noErr_bind (noErr_encodeEther _ _ _ _ _) (fun a => ?_)
  refine noErr_bind (noErr_etherPayloadSl _ _) (fun o => ?_)
  cases o with
  | none => exact noErr_panic
  | some pay =>
    refine noErr_bind (noErr_encodeIP6 _ _ _ _ _) (fun _ => ?_)
    refine noErr_bind (noErr_append _ _ _ _) (fun _ => ?_)
    refine noErr_bind (noErr_etherSetPayload _ _ _) (fun _ => ?_)
    refine noErr_bind (noErr_reslice _ _ _ _) (fun _ => ?_)
    refine noErr_bind (noErr_reslice _ _ _ _) (fun _ => ?_)
    refine noErr_bind (noErr_from _ _ _) (fun _ => ?_)
    exact noErr_bind (noErr_putCks _ _ _ _) (fun _ => noErr_ok _)

end PV.Lemmas.Icmp6Tie
