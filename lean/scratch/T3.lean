import PacketVerif.Model.Icmp6Go
import PacketVerif.Lemmas.EncodeMem
namespace PV.Lemmas.Icmp6Tie
open PV PV.Model PV.Lemmas

theorem u8_eq_nat (a : UInt8) (n : Nat) (h : n < 256) : (a.toNat == n) = (a == UInt8.ofNat n) := by
  by_cases he : a = UInt8.ofNat n
  · subst he; simp [UInt8.toNat_ofNat, Nat.mod_eq_of_lt h]
  · have : a.toNat ≠ n := by
      intro hn; apply he; rw [← hn]; exact (UInt8.ofNat_toNat).symm
    rw [beq_eq_false_iff_ne.mpr this, beq_eq_false_iff_ne.mpr he]

def llF (a : Bytes) : Bool :=
  if a.length == 4 then (a[0]? == some 169 && a[1]? == some 254) || (a[0]? == some 224 && a[1]? == some 0 && a[2]? == some 0)
  else if a.length == 16 then
    (a[0]? == some 0xfe && ((a[1]?.getD 0).toNat / 64 == 2)) || (a[0]? == some 0xff && ((a[1]?.getD 0).toNat % 16 == 2))
  else false

def llG (a : Bytes) : Bool :=
  (if Netip.is4 a then Netip.byteAt a 0 == 169 && Netip.byteAt a 1 == 254
   else if Netip.is6 a then Netip.byteAt a 0 == 0xfe && Netip.byteAt a 1 / 64 == 2 else false) ||
  (if Netip.is4 a then Netip.byteAt a 0 == 224 && Netip.byteAt a 1 == 0 && Netip.byteAt a 2 == 0
   else if Netip.is6 a then Netip.byteAt a 0 == 0xff && Netip.byteAt a 1 % 16 == 2 else false)

theorem llF_eq_llG (a : Bytes) : llF a = llG a := by
  by_cases h4 : a.length = 4
  · cells h4
    simp [llF, llG, Netip.is4, Netip.byteAt, u8_eq_nat]
  · by_cases h16 : a.length = 16
    · cells h16
      simp [llF, llG, Netip.is4, Netip.is6, Netip.byteAt, u8_eq_nat]
    · simp [llF, llG, Netip.is4, Netip.is6, h4, h16]

theorem hop_eq (ip : Bytes) :
    isLLUorLLM ip = (Netip.isLinkLocalUnicast ip || Netip.isLinkLocalMulticast ip) := by
  have h1 : isLLUorLLM ip = llF (Netip.unmap ip) := rfl
  have h2 : (Netip.isLinkLocalUnicast ip || Netip.isLinkLocalMulticast ip) = llG (Netip.unmap ip) := rfl
  rw [h1, h2, llF_eq_llG]

end PV.Lemmas.Icmp6Tie
