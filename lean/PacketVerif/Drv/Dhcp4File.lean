import PacketVerif.Model.Dhcp4File
import PacketVerif.Drv.Dhcp4Srv
namespace PV.Drv.Dhcp4File
open PV PV.Model.Dhcp4Srv PV.Model.Dhcp4File PV.Drv.Dhcp4Srv

/-! `dhcp.load <cfg>:<mode> <capturedMacs> <hexfile> <hexorig> @ <home> <netfilter> <captured> <records, head, hash>`
    (the tokens before `@` are for the harness; the records are what yaml.Unmarshal produced, see `run`)
    → `ok <net1> <net2> <leases sorted by client id>` | `err` | `panic`. -/

def parseFAddr (s : String) : Option FAddr :=
  match s.splitOn ":" with
  | ["i"] => some .invalid
  | ["4", n] => (nat? n).map .v4
  | ["6", u] => some (.v6 (u == "1"))
  | _ => none

def parseFPrefix (s : String) : Option FPrefix :=
  match s.splitOn ":" with
  | ["i"] => some .invalid
  | ["6"] => some .v6
  | ["4", a, b] => do some (.v4 (← nat? a) (← nat? b))
  | _ => none

def parseSubRec (s : String) : Option (Option SubRec) :=
  if s == "~" then some none
  else match s.splitOn "," with
    | [lan, gw, server, dns, first, dur, stage] => do
      some (some { lan := ← parseFPrefix lan, gw := ← parseFAddr gw, server := ← parseFAddr server, dns := ← parseFAddr dns,
                   first := ← parseFAddr first, dur := ← nat? dur, stage := ← stage.toInt? })
    | _ => none

def parseLeaseRec (s : String) : Option LeaseRec :=
  match s.splitOn "," with
  | [cid, state, mac, ip, offer, xid, expiry] => do
    some { cid := ← fromHex cid, state := ← state.toInt?, mac := ← fromHex mac, ip := ← parseFAddr ip, offer := ← optNat? offer,
           xid := ← fromHex xid, expiry := ← nat? expiry }
  | _ => none

def parseRecord (s : String) : Option (Option FileRec) :=
  if s == "E" then some none
  else match s.splitOn "|" with
    | [n1, n2, leases] => do
      let ls ← if leases == "~" then some none else ((listOf leases ";").mapM parseLeaseRec).map some
      some (some { net1 := ← parseSubRec n1, net2 := ← parseSubRec n2, leases := ls })
    | _ => none

def parseExpected (s : String) : Option Expected :=
  match s.splitOn "," with
  | [lan, bits, gw, server, dns, stage] => do
    some { lan := ← nat? lan, bits := ← nat? bits, gw := ← nat? gw, server := ← nat? server, dns := ← nat? dns, stage := ← stage.toInt? }
  | _ => none

def showFAddr : FAddr → String
  | .invalid => "i"
  | .v4 n => s!"4:{n}"
  | .v6 u => s!"6:{if u then 1 else 0}"

def showLSub (n : LSub) : String :=
  s!"{n.lan},{n.bits},{n.gw},{showFAddr n.server},{showFAddr n.dns},{n.first},{n.dur}"

def showBuilt (b : Built) : String :=
  let ls := (b.table.map showLease).mergeSort (fun a b => decide (a ≤ b))
  s!"ok {showLSub b.net1} {showLSub b.net2} {showList ls ";"}"

/-- `@ <home> <netfilter> <captured> <record of the whole file> <record of the file after byte 75> <first 75 bytes, hex>
      <sha256 of the bytes after byte 75, hex>`: the model decides with `openFile` (hash function := the given value
    for the only argument `openFile` applies it to) which record is loaded, or that the file is damaged -/
def run (args : List String) : String :=
  match args.dropWhile (· != "@") with
  | "@" :: home :: nf :: capt :: recWhole :: recBody :: head :: hash :: [] =>
    match parseExpected home, parseExpected nf, (listOf capt ";").mapM fromHex, parseRecord recWhole, parseRecord recBody,
          fromHex head, fromHex hash with
    | some home, some nf, some capt, some recWhole, some recBody, some head, some hash =>
      if hlen : hash.length = 32 then
        let h : Hash := ⟨fun _ => hash, fun _ => hlen⟩
        let rec? : Option FileRec :=
          match openFile h head with
          | .legacy _ => recWhole
          | .verified _ => recBody
          | .damaged => none
        match construct home nf (fun m => capt.contains m) rec? with
        | .ok b => showBuilt b
        | .err _ => "err"
        | .panic => "panic"
        | .hang => "hang"
      else "bad-load"
    | _, _, _, _, _, _, _ => "bad-load"
  | _ => "bad-load"

def handle (cmd : String) (args : List String) : Option String :=
  match cmd with
  | "dhcp.load" => some (run args)
  | "dhcp.loadlegacy" => some (run args)
  | "dhcp.restart" => some (run args)
  | _ => none

end PV.Drv.Dhcp4File
