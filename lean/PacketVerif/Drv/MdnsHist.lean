import PacketVerif.Model.MdnsHist
import PacketVerif.Drv.Dns
namespace PV.Drv.MdnsHist
open PV PV.Model PV.Model.MdnsHist

/-!
  line protocol (C17, histories)

  `mdns.hist <dt>,<mac>,<payload> …`  → one result per message, joined by ` | `:
        `<result of ProcessMDNS as in the mdns line> c=[<cache keys after the call, sorted>]`
      dt = milliseconds the clock advances BEFORE the message is processed; mac, payload in hex.
-/

def sortStr (l : List String) : List String := (l.toArray.qsort (· < ·)).toList

def outStr (r : Outcome DnsMsg.MdnsOut) : String :=
  outcomeStr (fun (o : DnsMsg.MdnsOut) =>
    s!"v4=[{Drv.Dns.joinWith "," (o.ipv4.map Drv.Dns.ipNameStr)}] v6=[{Drv.Dns.joinWith "," (o.ipv6.map Drv.Dns.ipNameStr)}] err={o.err}") r

def parseStep (t : String) : Option (Nat × Bytes × Bytes) :=
  match t.splitOn "," with
  | [d, m, p] => do
    let dt ← d.toNat?
    let mac ← fromHex m
    let pl ← fromHex p
    some (dt, mac, pl)
  | _ => none

def runSteps : Cache → Nat → List (Nat × Bytes × Bytes) → List String
  | _, _, [] => []
  | c, now, (dt, mac, pl) :: rest =>
    let now' := now + dt
    let r := stepMsg c now' mac pl
    (outStr r.out ++ " c=[" ++ Drv.Dns.joinWith "," (sortStr (r.cache.map (fun e => toHex e.1))) ++ "]") :: runSteps r.cache now' rest

def handle (cmd : String) (args : List String) : Option String :=
  match cmd with
  | "mdns.hist" => do
    let steps ← args.mapM parseStep
    some (Drv.Dns.joinWith " | " (runSteps [] 0 steps))
  | _ => none

end PV.Drv.MdnsHist
