import PacketVerif.Model.Checksum
import PacketVerif.Spec.Rfc1071
namespace PV.Drv.Checksum
open PV

/-- line protocol:
    `cks <hex>`     → `<Model.checksum> <swap16 (Spec.rfc1071)>` (decimal)
    `ip4cks <hex>`  → `ok <u16>` | `panic`   (IP4.CalculateChecksum)
    `ip4set <hex>`  → header with checksum stored at 10..11 + `verifies=<bool>` -/
def handle (cmd : String) (args : List String) : Option String :=
  match cmd, args with
  | "cks", [h] => do
    let b ← fromHex h
    some s!"{(Model.checksum b).toNat} {Spec.swap16 (Spec.rfc1071 b)}"
  | "ip4cks", [h] => do
    let b ← fromHex h
    some (outcomeStr (fun (v : UInt16) => toString v.toNat) (Model.ip4CalculateChecksum b))
  | "ip4set", [h] => do
    let b ← fromHex h
    match Model.ip4CalculateChecksum b with
    | .ok cs =>
      let p := Model.putChecksum b 10 cs
      some s!"ok {toHex p} verifies={decide (Spec.fold16 (Spec.sumBE (p.take 20)) = 65535)}"
    | _ => some "panic"
  | "icmp6cks", [src, dst, msg] => do
    let s ← fromHex src; let d ← fromHex dst; let m ← fromHex msg
    let cs := Model.checksum (Model.icmp6Pseudo s d m)
    let m' := Model.putChecksum m 2 cs
    some s!"{toHex m'} verifies={decide (Spec.fold16 (Spec.sumBE (Model.icmp6Pseudo s d m')) = 65535)}"
  | "icmp4cks", [msg] => do
    let m ← fromHex msg
    let m' := Model.putChecksum m 2 (Model.checksum m)
    some s!"{toHex m'} verifies={decide (Spec.fold16 (Spec.sumBE m') = 65535)}"
  | _, _ => none

end PV.Drv.Checksum
