import PacketVerif.Model.Encode
import PacketVerif.Spec.Wire
namespace PV.Drv.Encode
open PV PV.Model

def res (o : Outcome Bytes) : String := outcomeStr toHex o

def verdict : Option String → String
  | none => "ok"
  | some why => "bad " ++ why

/-- `<poison>` = pooled 1522-byte buffer filled with that byte; `<poison>:<cap>` = buffer of `cap` bytes -/
def pool (spec : String) : Option Mem := do
  match spec.splitOn ":" with
  | [poison] =>
    match ← fromHex poison with
    | [b] => some (List.replicate 1522 b)
    | _ => none
  | [poison, cap] =>
    let n ← cap.toNat?
    match ← fromHex poison with
    | [b] => some (List.replicate n b)
    | _ => none
  | _ => none

def boolOf (s : String) : Option Bool := if s == "1" then some true else if s == "0" then some false else none

/-- line protocol (all byte arguments hex, `-` = empty / nil):
    `send arp  <poison> <hostMAC> <dst> <op> <smac> <sip> <tmac> <tip>`           RequestRaw / reply
    `send sarp <poison> <hostMAC> <dst> <smac> <sip> <tmac> <tip>`                Session.arpRequest
    `send udp4 <poison> <srcMAC> <dstMAC> <ttl> <sip> <dip> <sp> <dp> <payload>`  sendDHCP4Packet/sendNBNS/SSDP/sendMDNS
    `send udp6 …same…`                                                             sendMDNS (IPv6)
    `send icmp4|icmp6 <poison> <hostMAC> <dstMAC> <sip> <dip> <msg>`              icmp4SendPacket / icmp6SendPacket
    `msg echo <t> <code> <id> <seq> <data>` | `msg na <r> <s> <o> <ip> <mac>` | `msg ns <ip> <mac>`
    `wf arp|udp4|udp6|icmp4|icmp6 <expected…> <frame>` → `ok` | `bad <reason>`    (Spec.Wire) -/
def handle (cmd : String) (args : List String) : Option String :=
  match cmd, args with
  | "send", ["arp", po, hm, dst, op, sm, si, tm, ti] => do
    let g ← pool po; let hm ← fromHex hm; let dst ← fromHex dst; let op ← op.toNat?
    let sm ← fromHex sm; let si ← fromHex si; let tm ← fromHex tm; let ti ← fromHex ti
    some (res (sendARP g hm dst op sm si tm ti))
  | "send", ["sarp", po, hm, dst, sm, si, tm, ti] => do
    let g ← pool po; let hm ← fromHex hm; let dst ← fromHex dst
    let sm ← fromHex sm; let si ← fromHex si; let tm ← fromHex tm; let ti ← fromHex ti
    some (res (sessionArpRequest g hm dst sm si tm ti))
  | "compose-icmp4", [po, sm, dm, ttl, si, di, id, seq, d] => do
    let g ← pool po; let sm ← fromHex sm; let dm ← fromHex dm; let ttl ← ttl.toNat?
    let si ← fromHex si; let di ← fromHex di; let id ← id.toNat?; let seq ← seq.toNat?; let d ← fromHex d
    some (res (composeICMP4 g sm dm (UInt8.ofNat ttl) si di (encodeICMPEcho 8 0 id seq d)))
  | "compose-icmp6", [po, sm, dm, ttl, si, di, id, seq, d] => do
    let g ← pool po; let sm ← fromHex sm; let dm ← fromHex dm; let ttl ← ttl.toNat?
    let si ← fromHex si; let di ← fromHex di; let id ← id.toNat?; let seq ← seq.toNat?; let d ← fromHex d
    some (res (composeICMP6 g sm dm (UInt8.ofNat ttl) si di (encodeICMPEcho 128 0 id seq d)))
  | "compose-udp4", [po, sm, dm, ttl, si, di, sp, dp, pl] => do
    let g ← pool po; let sm ← fromHex sm; let dm ← fromHex dm; let ttl ← ttl.toNat?
    let si ← fromHex si; let di ← fromHex di; let sp ← sp.toNat?; let dp ← dp.toNat?; let pl ← fromHex pl
    some (res (sendUDP4 g sm dm (UInt8.ofNat ttl) si di sp dp pl))
  | "compose-udp6", [po, sm, dm, ttl, si, di, sp, dp, pl] => do
    let g ← pool po; let sm ← fromHex sm; let dm ← fromHex dm; let ttl ← ttl.toNat?
    let si ← fromHex si; let di ← fromHex di; let sp ← sp.toNat?; let dp ← dp.toNat?; let pl ← fromHex pl
    some (res (composeUDP6 g sm dm (UInt8.ofNat ttl) si di sp dp pl))
  | "send", [k, po, sm, dm, ttl, si, di, sp, dp, pl] => do
    let g ← pool po; let sm ← fromHex sm; let dm ← fromHex dm; let ttl ← ttl.toNat?
    let si ← fromHex si; let di ← fromHex di; let sp ← sp.toNat?; let dp ← dp.toNat?; let pl ← fromHex pl
    if k == "udp4" then some (res (sendUDP4 g sm dm (UInt8.ofNat ttl) si di sp dp pl))
    else if k == "udp6" then some (res (sendUDP6 g sm dm (UInt8.ofNat ttl) si di sp dp pl))
    else none
  | "send", [k, po, hm, dm, si, di, msg] => do
    let g ← pool po; let hm ← fromHex hm; let dm ← fromHex dm
    let si ← fromHex si; let di ← fromHex di; let msg ← fromHex msg
    if k == "icmp4" then some (res (sendICMP4 g hm dm si di msg))
    else if k == "icmp6" then some (res (sendICMP6 g hm dm si di msg))
    else none
  | "append", ["ether", po, et, plen, pcap] => do
    let g ← pool po; let et ← et.toNat?; let plen ← plen.toNat?; let pcap ← pcap.toNat?
    some (outcomeStr (fun (n : Nat) => toString n) (etherAppendPayloadLen g et plen pcap))
  | "msg", ["echo", t, c, id, seq, d] => do
    let t ← t.toNat?; let c ← c.toNat?; let id ← id.toNat?; let seq ← seq.toNat?; let d ← fromHex d
    some (toHex (encodeICMPEcho (UInt8.ofNat t) (UInt8.ofNat c) id seq d))
  | "msg", ["na", r, s, o, ip, mac] => do
    let r ← boolOf r; let s ← boolOf s; let o ← boolOf o; let ip ← fromHex ip; let mac ← fromHex mac
    some (toHex (naMarshal r s o ip mac))
  | "msg", ["ns", ip, mac] => do
    let ip ← fromHex ip; let mac ← fromHex mac
    some (toHex (nsMarshal ip mac))
  | "wf", ["any", hm, f] => do
    let hm ← fromHex hm; let f ← fromHex f
    some (verdict (Spec.Wire.wfAny hm f))
  | "wf", ["arp", hm, dst, op, sha, spa, tha, tpa, f] => do
    let hm ← fromHex hm; let dst ← fromHex dst; let op ← op.toNat?
    let sha ← fromHex sha; let spa ← fromHex spa; let tha ← fromHex tha; let tpa ← fromHex tpa; let f ← fromHex f
    some (verdict (Spec.Wire.wfARP hm dst op sha spa tha tpa f))
  | "wf", [k, hm, dm, si, di, sp, dp, pl, f] => do
    let hm ← fromHex hm; let dm ← fromHex dm; let si ← fromHex si; let di ← fromHex di
    let sp ← sp.toNat?; let dp ← dp.toNat?; let pl ← fromHex pl; let f ← fromHex f
    if k == "udp4" then some (verdict (Spec.Wire.wfUDP4 hm dm si di sp dp pl f))
    else if k == "udp6" then some (verdict (Spec.Wire.wfUDP6 hm dm si di sp dp pl f))
    else none
  | "wf", [k, hm, dm, si, di, msg, f] => do
    let hm ← fromHex hm; let dm ← fromHex dm; let si ← fromHex si; let di ← fromHex di
    let msg ← fromHex msg; let f ← fromHex f
    if k == "icmp4" then some (verdict (Spec.Wire.wfICMP4 hm dm si di msg f))
    else if k == "icmp6" then some (verdict (Spec.Wire.wfICMP6 hm dm si di msg f))
    else none
  | _, _ => none

end PV.Drv.Encode
