/-
  Line protocol for the handler bodies of Model/Handlers.lean (C08, handlers after classification).

  `hnd.arp <hostMAC|-> <routerMAC> <lanAddr> <lanBits> <routerIP> <conn> <hunted MACs csv|-> <offer MAC|-> <offer IP|-> <ops>`
  `hnd.icmp6 <hostMAC|-> <routerMAC> <lanAddr> <lanBits> <hostLLA|-> <conn> <repeat> <hunted MACs csv|-> <ops>`
  `hnd.icmp4 <hostMAC|-> <routerMAC> <lanAddr> <lanBits> <frame>`
      conn: 0 = nil, 1 = WriteTo fails, 2 = WriteTo succeeds;  ops: comma separated raw frames (hex), `C` = Close
      (icmp6 only), applied in order to one handler
  reply: `<disposition of every op, comma separated> mu=<0|1> … sent=<frames written, comma separated|->`,
         or `panic` / `hang` / `err …` as soon as one op ends so.
-/
import PacketVerif.Model.Handlers
import PacketVerif.Drv.Icmp6Hunt
namespace PV.Drv.Handlers
open PV PV.Model PV.Model.Handlers

def connOf : String → Option Conn
  | "0" => some .nil | "1" => some .failing | "2" => some .up | _ => none

def dispStr : Disp → String
  | .dropped => "dropped"
  | .notMine => "notmine"
  | .ret none => "ret:nil"
  | .ret (some e) => "ret:" ++ e.toString

def sentStr (l : List Bytes) : String := if l.isEmpty then "-" else ",".intercalate (l.map toHex)

def b01 (b : Bool) : String := if b then "1" else "0"

def macs (s : String) : Option (List Bytes) := if s == "-" then some [] else (s.splitOn ",").mapM fromHex

/-- the pooled buffer: EthMaxSize bytes -/
def pool : Mem := List.replicate 1522 0

def arpRun (e : ArpEnv) : ArpSt → List Bytes → List String → Outcome (ArpSt × List String)
  | st, [], acc => .ok (st, acc.reverse)
  | st, p :: ps, acc => do
    let (st, d) ← arpFrame e st p
    arpRun e st ps (dispStr d :: acc)

inductive Op6 where
  | frame (p : Bytes)
  | close

def h6Run (e : H6Env) : H6St → List Op6 → List String → Outcome (H6St × List String)
  | st, [], acc => .ok (st, acc.reverse)
  | st, .frame p :: ps, acc => do
    let (st, d) ← h6Frame e st p
    h6Run e st ps (dispStr d :: acc)
  | st, .close :: ps, acc => do
    let st ← close6 st
    h6Run e st ps ("closed" :: acc)

def op6Of (s : String) : Option Op6 := if s == "C" then some .close else (fromHex s).map .frame

def handle (cmd : String) (args : List String) : Option String :=
  match cmd, args with
  | "hnd.arp", [hm, rm, la, lb, rip, cn, hunt, om, oip, ops] => do
    let hm ← fromHex hm; let rm ← fromHex rm; let la ← fromHex la; let lb ← lb.toNat?; let rip ← fromHex rip
    let cn ← connOf cn
    let hl ← macs hunt
    let om ← fromHex om; let oip ← fromHex oip
    let frames ← (ops.splitOn ",").mapM fromHex
    let offer : Bytes → Option Bytes := fun m => if oip.length = 4 ∧ m = om then some oip else none
    let e : ArpEnv := { cfg := { parse := ⟨hm, rm, la, lb⟩, routerIP := rip }, conn := cn, pool := pool, offer := offer }
    some (outcomeStr (fun (x : ArpSt × List String) =>
        s!"{",".intercalate x.2} mu={b01 x.1.mu} sent={sentStr x.1.sent}")
      (arpRun e { hunt := hl } frames [])) |>.map (fun s => if s.startsWith "ok " then (s.drop 3).toString else s)
  | "hnd.icmp6", [hm, rm, la, lb, lla, cn, rep, hunt, ops] => do
    let hm ← fromHex hm; let rm ← fromHex rm; let la ← fromHex la; let lb ← lb.toNat?; let lla ← fromHex lla
    let cn ← connOf cn
    let rep ← rep.toInt?
    let hl ← macs hunt
    let ops ← (ops.splitOn ",").mapM op6Of
    let e : H6Env := { cfg := ⟨hm, rm, la, lb⟩, hostLLA := lla, conn := cn, pool := pool }
    some (outcomeStr (fun (x : H6St × List String) =>
        let s := x.1.base
        s!"{",".intercalate x.2} mu={b01 x.1.mu} wakes={x.1.wakes} closed={b01 s.closed} rep={s.rep} def={match s.defaultRouter with | some ip => toHex ip | none => "-"} routers={Drv.Icmp6Hunt.routersStr s} sent={sentStr x.1.sent}")
      (h6Run e { base := { hunt := hl, rep := rep } } ops [])) |>.map (fun s => if s.startsWith "ok " then (s.drop 3).toString else s)
  | "hnd.icmp4", [hm, rm, la, lb, h] => do
    let hm ← fromHex hm; let rm ← fromHex rm; let la ← fromHex la; let lb ← lb.toNat?; let p ← fromHex h
    some (match h4Frame ⟨hm, rm, la, lb⟩ p with
      | .ok d => dispStr d
      | .err e => "ret:" ++ e.toString
      | .panic => "panic"
      | .hang => "hang")
  | _, _ => none

end PV.Drv.Handlers
