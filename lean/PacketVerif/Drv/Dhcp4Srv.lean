import PacketVerif.Model.Dhcp4Srv
import PacketVerif.Model.Dhcp4Frame
import PacketVerif.Model.Dhcp4ReplyBytes
import PacketVerif.Model.Dhcp4Frames
namespace PV.Drv.Dhcp4Srv
open PV PV.Model.Dhcp4Srv

/-! line protocol (step mode, DESIGN §2.2):
    `dhcp.step <cfg> <pre> <op> <post> <replies>` → `accept` iff (post, replies) ∈ Model.step cfg pre op
    (lease tables compared as maps, cursors exactly, replies exactly), else `reject want=<model outcome>`.
    `dhcp.run <cfg> <op>;<op>…` is not needed: every step is checked from the implementation's own pre-state. -/

def nat? (s : String) : Option Nat := s.toNat?

def optNat? (s : String) : Option (Option Nat) :=
  if s == "~" then some none else (nat? s).map some

def optHex? (s : String) : Option (Option Bytes) :=
  if s == "~" then some none else (fromHex s).map some

def listOf (s : String) (sep : String) : List String :=
  if s == "-" then [] else s.splitOn sep

def parseSubnet : List Nat → Option (Subnet × List Nat)
  | lan :: bits :: gw :: dns :: srv :: first :: dur :: rest =>
    some ({ lan := lan, bits := bits, gw := gw, dns := dns, server := srv, first := first, dur := dur }, rest)
  | _ => none

def parseCfg (s : String) : Option Cfg := do
  let ns ← (s.splitOn ",").mapM nat?
  match ns with
  | mode :: host :: router :: rest =>
    let (n1, rest) ← parseSubnet rest
    let (n2, rest) ← parseSubnet rest
    if rest != [] then none
    let mode ← match mode with
      | 1 => some Mode.primary | 2 => some Mode.secondary | 3 => some Mode.nice | _ => none
    some { mode := mode, host := host, router := router, net1 := n1, net2 := n2 }
  | _ => none

def parseLease (s : String) : Option (Cid × Lease) := do
  match s.splitOn ":" with
  | [cid, st, mac, ip, offer, xid, sub, expiry] =>
    let st ← match st with
      | "0" => some LState.free | "1" => some LState.discover | "2" => some LState.allocated | _ => none
    let sub ← match sub with
      | "1" => some SubId.net1 | "2" => some SubId.net2 | _ => none
    some (← fromHex cid, { state := st, mac := ← fromHex mac, ip := ← optNat? ip, offer := ← optNat? offer,
                           xid := ← fromHex xid, sub := sub, expiry := ← nat? expiry })
  | _ => none

def parseHost (s : String) : Option (IP × MAC) := do
  match s.splitOn "=" with
  | [ip, mac] => some (← nat? ip, ← fromHex mac)
  | _ => none

def parseState (s : String) : Option State := do
  match s.splitOn "|" with
  | [cur, leases, hosts, capt] =>
    match cur.splitOn "," with
    | [n1, n2] =>
      some { table := ← (listOf leases ";").mapM parseLease, next1 := ← nat? n1, next2 := ← nat? n2,
             hosts := ← (listOf hosts ";").mapM parseHost, captured := ← (listOf capt ";").mapM fromHex }
    | _ => none
  | _ => none

def parseMsg : List String → Option Msg
  | [chaddr, cid, req, srv, xid, ciaddr, yiaddr, src, bflag] => do
    some { chaddr := ← fromHex chaddr, cidOpt := ← optHex? cid, reqOpt := ← optHex? req, srvOpt := ← optHex? srv,
           xid := ← fromHex xid, ciaddr := ← nat? ciaddr, yiaddr := ← nat? yiaddr, srcIP := ← nat? src,
           bflag := bflag == "1" }
  | _ => none

def parseOp (s : String) : Option Op := do
  match s.splitOn ":" with
  | "discover" :: now :: rest => some (.discover (← nat? now) (← parseMsg rest))
  | "request" :: now :: rest => some (.request (← nat? now) (← parseMsg rest))
  | "decline" :: _ :: rest => some (.decline (← parseMsg rest))
  | "release" :: _ :: rest => some (.release (← parseMsg rest))
  | ["tick", now] => some (.minuteTick (← nat? now))
  | ["capture", mac] => some (.capture (← fromHex mac))
  | ["uncapture", mac] => some (.releaseCapture (← fromHex mac))
  | ["host", ip, mac] => some (.hostSeen (← nat? ip) (← fromHex mac))
  | ["nohost", ip] => some (.hostGone (← nat? ip))
  | _ => none

def showOp : Op → String
  | .discover .. => "discover" | .request .. => "request" | .decline .. => "decline" | .release .. => "release"
  | .capture .. => "capture" | .releaseCapture .. => "uncapture" | .minuteTick .. => "tick"
  | .hostSeen .. => "host" | .hostGone .. => "nohost"

def showOptNat : Option Nat → String
  | none => "~"
  | some n => toString n

def showLease (e : Cid × Lease) : String :=
  let l := e.2
  let st := match l.state with | .free => "0" | .discover => "1" | .allocated => "2"
  let sub := match l.sub with | .net1 => "1" | .net2 => "2"
  s!"{toHex e.1}:{st}:{toHex l.mac}:{showOptNat l.ip}:{showOptNat l.offer}:{toHex l.xid}:{sub}:{l.expiry}"

def showList (l : List String) (sep : String) : String :=
  if l.isEmpty then "-" else sep.intercalate l

def showReply (r : Reply) : String :=
  let t := match r.typ with | .offer => "offer" | .ack => "ack" | .nak => "nak"
  let opts := showList (r.opts.map (fun o => s!"{o.1}={toHex o.2}")) ","
  s!"{t}:{r.yiaddr}:{r.ciaddr}:{toHex r.xid}:{toHex r.chaddr}:{if r.bcast then 1 else 0}:{opts}"

def showReplies (rs : List Reply) : String := showList (rs.map showReply) ";"

def showOutcome (o : State × List Reply) : String :=
  s!"{o.1.next1},{o.1.next2}|{showList (o.1.table.map showLease) ";"}|{showReplies o.2}"

/-- the two tables denote the same map (the dumped one has unique keys) -/
def tableEq (model dumped : Table) : Bool :=
  model.length == dumped.length && dumped.all (fun e => getLease model e.1 == some e.2)

def accepts (o : State × List Reply) (post : State) (replies : String) : Bool :=
  o.1.next1 == post.next1 && o.1.next2 == post.next2 && tableEq o.1.table post.table
    && showReplies o.2 == replies

/-- `<pre> <op> <post> <replies>` groups of a history line -/
def checkGroups (cfg : Cfg) : Nat → List String → String
  | _, [] => "accept"
  | k, tok :: rest =>
    match tok.toList with
    | 'c' :: 'f' :: 'g' :: '=' :: cs =>
      -- the server was restarted under another configuration: the following steps are judged under it
      match parseCfg (String.ofList cs) with
      | some cfg' => checkGroups cfg' k rest
      | none => s!"bad-cfg step={k}"
    | _ =>
      match rest with
      | op :: post :: replies :: rest' =>
        match parseState tok, parseOp op, parseState post with
        | some pre, some op, some post =>
          let outs := step cfg pre op
          if outs.any (fun o => accepts o post replies) then checkGroups cfg (k + 1) rest'
          else s!"reject step={k} op={showOp op} want=" ++ showList (outs.map showOutcome) " || "
        | none, _, _ => s!"bad-pre step={k}"
        | _, none, _ => s!"bad-op step={k}"
        | _, _, none => s!"bad-post step={k}"
      | _ => s!"bad-group step={k}"

/-- `dhcp.new <mode>,<host>,<router>,<homeLan>,<homeBits>,<nfAddr>,<nfBits>,<dns|~> <cfgdump | err>`: what `Config.New`
    made of the NIC information and the configuration (`err`: it refused them) against `mkCfg` / `NewCfg.accepted` -/
def parseNewCfg (s : String) : Option NewCfg :=
  match s.splitOn "," with
  | [mode, host, router, hl, hb, na, nb, dns] => do
    let mode ← match mode with
      | "1" => some Mode.primary | "2" => some Mode.secondary | "3" => some Mode.nice | _ => none
    some { mode := mode, host := ← nat? host, router := ← nat? router, homeLan := ← nat? hl, homeBits := ← nat? hb,
           nfAddr := ← nat? na, nfBits := ← nat? nb, dns := ← optNat? dns }
  | _ => none

def showSubnet (n : Subnet) : String := s!"{n.lan},{n.bits},{n.gw},{n.dns},{n.server},{n.first},{n.dur}"

def checkNew (n : NewCfg) (dump : String) : String :=
  if dump == "err" then (if n.accepted then "reject want=constructed" else "accept")
  else if !n.accepted then "reject want=err"
  else
    match parseCfg dump with
    | none => "bad-cfg"
    | some cfg =>
      if cfg == mkCfg n then "accept"
      else s!"reject want={showSubnet (mkCfg n).net1} {showSubnet (mkCfg n).net2}"

/-! `dhcp.raw <cfgIdx> <mode> <setup> <ev>;<ev>… @ <now> <cfgdump> <pre> <pre>…` (harness/c08dhcp): every `<ev>` =
    `<c|s>:<IPv4 source>:<spare capacity>:<payload hex>` is one call of the real `ProcessPacket` on a frame carrying that
    payload (`c`: to port 67, `s`: to port 68) in a buffer with that many bytes behind the payload; `<pre>` is the state
    the implementation was in (dumped after `Session.Parse` of the frame); optionally `# <ord> <ord>…`, per event the
    option codes of the implementation's reply in wire order (`-`: none), then every group also ends with
    ` bytes=<reply payload hex>` (`Model.Dhcp4Frame.replyBytes`).  Reply: per event, what
    `Model.Dhcp4Frame.processRaw` makes of the bytes from that state — returned error, cursors, lease table (sorted),
    replies, forged DECLINE (client direction) — joined by ` / `. -/

open PV.Model.Dhcp4Frame in
def parseRawEv4 (dir src extra hex : String) : Option (Rx × Bytes) := do
  let p ← fromHex hex
  if dir != "c" && dir != "s" then none
  some ({ srcIP := ← nat? src, dstPort := if dir == "s" then 68 else 67, cap := p.length + (← nat? extra) }, p)

open PV.Model.Dhcp4Frame in
/-- an event, with the Ethernet source of its frame when the line names it (fifth field) -/
def parseRawEvM (s : String) : Option (Rx × Bytes × Option Bytes) :=
  match s.splitOn ":" with
  | [dir, src, extra, hex] => (parseRawEv4 dir src extra hex).map (fun e => (e.1, e.2, none))
  | [dir, src, extra, hex, mac] => do
    let e ← parseRawEv4 dir src extra hex
    let m ← fromHex mac
    some (e.1, e.2, some m)
  | _ => none

open PV.Model.Dhcp4Frame in
def parseRawEv (s : String) : Option (Rx × Bytes) := (parseRawEvM s).map (fun e => (e.1, e.2.1))

def errStr : Option Err → String
  | none => "nil"
  | some e => e.toString

open PV.Model.Dhcp4Frame in
def showRaw (rx : Rx) (r : Result) : String :=
  let leases := (r.state.table.map showLease).mergeSort (fun a b => !(decide (b < a)))
  let decl := if rx.dstPort == 68 then (if r.forged then "1" else "0") else "-"
  s!"ret={errStr r.ret} {r.state.next1},{r.state.next2}|{showList leases ";"}|{showReplies r.replies} decl={decl}"

open PV.Model.Dhcp4Frame PV.Model.Dhcp4Opt in
/-- `bytes=`: the reply frames of the event as `Model.Dhcp4Frame.replyBytes` writes them over the request payload in a
    buffer of the event's capacity (spare bytes zero: the reply does not depend on them), parameter request list =
    option 55 as parsed, map iteration order = `ord` (hex: the option codes of the implementation's reply in wire
    order, repetitions dropped — the model emits each remaining option once, in that order) -/
def showBytes (rx : Rx) (p : Bytes) (r : Result) (ord : String) : String :=
  match parseOptions p, fromHex ord with
  | .ok o, some t =>
    showList (r.replies.map (fun rep =>
      match replyBytes p (zeros (rx.cap - p.length)) (optGet o 55) rep t.eraseDups with
      | .ok [] => "nil"
      | .ok b => toHex b
      | .err e => "err " ++ e.toString
      | .panic => "panic"
      | .hang => "hang")) ","
  | _, _ => "bad-ord"

def showOutB (o : Outcome Bytes) : String :=
  match o with
  | .ok [] => "nil"
  | .ok b => toHex b
  | .err e => "err " ++ e.toString
  | .panic => "panic"
  | .hang => "hang"

/-- the NIC of the `%` section: host MAC, router MAC (their addresses are the configuration's) -/
structure Nic where
  hostMAC : Bytes
  routerMAC : Bytes

open PV.Model.Dhcp4Frame PV.Model.Dhcp4Opt in
/-- `frames=`: the whole Ethernet frame of every reply of the event, `Model.Dhcp4Frame.replyFrame` around `replyBytes`
    (pool buffer of 1522 zero bytes: every byte of the frame is written), from the host's NIC to the destination
    selected by the REQUEST frame's Ethernet source `mac` and IPv4 source -/
def showFrames (cfg : Cfg) (nic : Nic) (mac : Bytes) (rx : Rx) (p : Bytes) (r : Result) (ord : String) : String :=
  match parseOptions p, fromHex ord with
  | .ok o, some t =>
    showList (r.replies.map (fun rep =>
      showOutB (do
        let msg ← replyBytes p (zeros (rx.cap - p.length)) (optGet o 55) rep t.eraseDups
        if msg.isEmpty then pure [] else replyFrame (zeros 1522) nic.hostMAC cfg.host mac rx rep msg))) ","
  | _, _ => "bad-ord"

open PV.Model.Dhcp4Frame PV.Model.Dhcp4Opt in
/-- `dframes=`: the forged DECLINE of the event (client direction), `declineFrame` around `declineMsg` -/
def showDecline (cfg : Cfg) (nic : Nic) (p : Bytes) (r : Result) (dord : String) : String :=
  if !r.forged then "-" else
  match parseOptions p, fromHex dord with
  | .ok o, some t =>
    showOutB (do
      let msg ← declineMsg (zeros 1522) p o t.eraseDups
      if msg.isEmpty then pure [] else declineFrame (zeros 1522) nic.hostMAC cfg.host nic.routerMAC cfg.router msg)
  | _, _ => "bad-ord"

open PV.Model.Dhcp4Frame in
def rawGroups (cfg : Cfg) (now : Nat) (nic : Option Nic) : List String → List String → List String → List String → List String
  | ev :: evs, pre :: pres, ords, dords =>
    (match parseRawEvM ev, parseState pre with
     | some (rx, p, mac), some s =>
       outcomeStr (fun r => showRaw rx r ++ (match ords with
                                             | ord :: _ => " bytes=" ++ showBytes rx p r ord
                                             | [] => "")
                              ++ (match nic, mac, ords, dords with
                                  | some nic, some mac, ord :: _, dord :: _ =>
                                    " frames=" ++ showFrames cfg nic mac rx p r ord ++ " dframes=" ++ showDecline cfg nic p r dord
                                  | _, _, _, _ => "")) (processRaw cfg s now rx p)
     | none, _ => "bad-ev"
     | _, none => "bad-pre") :: rawGroups cfg now nic evs pres ords.tail dords.tail
  | [], [], _, _ => []
  | _, _, _, _ => ["bad-groups"]

def handle (cmd : String) (args : List String) : Option String :=
  match cmd, args with
  | "dhcp.raw", _ :: _ :: _ :: evs :: "@" :: now :: cfg :: pres =>
    match parseCfg cfg, nat? now with
    | some cfg, some now =>
      let (pres, ords) := pres.span (· != "#")
      let (ords, tl) := ords.tail.span (· != "%")
      let nic : Option Nic × List String := match tl with
        | _ :: h :: r :: dords =>
          (match fromHex h, fromHex r with
           | some h, some r => some { hostMAC := h, routerMAC := r }
           | _, _ => none, dords)
        | _ => (none, [])
      some (" / ".intercalate (rawGroups cfg now nic.1 (evs.splitOn ";") pres ords nic.2))
    | none, _ => some "bad-cfg"
    | _, none => some "bad-now"
  | "dhcp.raw", _ => some "bad-raw"
  | "dhcp.new", [n, dump] =>
    match parseNewCfg n with
    | some n => some (checkNew n dump)
    | none => some "bad-new"
  | "dhcp.step", [cfg, pre, op, post, replies] =>
    match parseCfg cfg, parseState pre, parseOp op, parseState post with
    | some cfg, some pre, some op, some post =>
      let outs := step cfg pre op
      if outs.any (fun o => accepts o post replies) then some "accept"
      else some ("reject want=" ++ showList (outs.map showOutcome) " || ")
    | none, _, _, _ => some "bad-cfg"
    | _, none, _, _ => some "bad-pre"
    | _, _, none, _ => some "bad-op"
    | _, _, _, none => some "bad-post"
  | "dhcp.hist", _ :: _ :: "@" :: cfg :: groups =>
    match parseCfg cfg with
    | none => some "bad-cfg"
    | some cfg => some (checkGroups cfg 1 groups)
  | "dhcp.hist", _ => some "bad-hist"
  | _, _ => none

end PV.Drv.Dhcp4Srv
