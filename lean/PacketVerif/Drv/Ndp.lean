import PacketVerif.Model.Ndp
namespace PV.Drv.Ndp
open PV PV.Model.Ndp

/-!
  line protocol (C08 NDP share, C14 function mode)

  `ndp.opts <hex>`                    → `ok <options>` | `err other` | `panic` | `hang`     newParseOptions
  `ndp.icmp6 <u><h><r> <hex>`         → `ok <class>` | `panic` | `hang`                      Handler6.ProcessPacket dispatch
        u: IPv6 source unspecified, h: pkt.Host != nil, r: the `repeat` throttle lets an RA through (0/1 each)
  `ndp.icmp4 <hex>`                   → `ok <class>` | `panic`                               Handler4.ProcessPacket
  `ndp.hop <hex>`                     → `ok` | `err ErrParseFrame` | `panic` | `hang`        ParseHopByHopExtensions
  `ndp.arp <hex>`                     → `ok <class>` | `panic`                               arp.ProcessPacket classification
-/

def hexList (l : List Bytes) : String :=
  if l.isEmpty then "-" else ",".intercalate (l.map toHex)

def b01 (b : Bool) : String := if b then "1" else "0"

def prefixStr (p : PrefixInfo) : String :=
  s!"{p.plen}/{b01 p.onLink}{b01 p.auto}/{p.valid}/{p.preferred}/{toHex p.pfx}"

def optionsStr (o : Options) : String :=
  let pf := if o.prefixes.isEmpty then "-" else ";".intercalate (o.prefixes.map prefixStr)
  let dn := if o.dnssl.puny then "puny" else s!"{o.dnssl.lifetime}:{hexList o.dnssl.names}"
  s!"mtu={o.mtu} pfx={pf} first={toHex o.firstPrefix} rdnss={o.rdnss.lifetime}:{hexList o.rdnss.servers} " ++
  s!"slla={o.slla.dir}:{toHex o.slla.mac} tlla={o.tlla.dir}:{toHex o.tlla.mac} dnssl={dn} " ++
  s!"ri={o.ri.plen}/{o.ri.pref}/{o.ri.lifetime}/{toHex o.ri.pfx}"

def icmp6ClassStr : Icmp6Class → String
  | .errShort => "errShort" | .na => "na" | .naErrLen => "naErrLen" | .naErrNoLLA => "naErrNoLLA"
  | .ns => "ns" | .nsErrLen => "nsErrLen" | .nsDad => "nsDad" | .nsGlobal => "nsGlobal"
  | .ra o => "ra " ++ optionsStr o | .raErrLen => "raErrLen" | .raNoHost => "raNoHost"
  | .raErrOpt => "raErrOpt" | .raSkipped => "raSkipped"
  | .rs => "rs" | .echoReply => "echoReply" | .echoRequest => "echoRequest" | .mld => "mld"
  | .redirect => "redirect" | .redirectErr => "redirectErr" | .unreachable => "unreachable"
  | .unknown => "unknown"

def icmp4ClassStr : Icmp4Class → String
  | .errShort => "errShort" | .echoReply => "echoReply" | .echoRequest => "echoRequest"
  | .redirect => "redirect" | .unreachShort => "unreachShort" | .unreachBadIP => "unreachBadIP"
  | .unreachBadUDP => "unreachBadUDP" | .unreachBadTCP => "unreachBadTCP"
  | .unreachable p => s!"unreachable port={p}" | .other => "other"

def arpClassStr : ArpClass → String
  | .errLen => "errLen" | .errHType => "errHType" | .errProto => "errProto" | .errHLen => "errHLen"
  | .errPLen => "errPLen" | .linkLocal => "linkLocal" | .invalidOp => "invalidOp"
  | .request m s t => s!"request {toHex m} {toHex s} {toHex t}"
  | .probe m t => s!"probe {toHex m} {toHex t}"
  | .announcement => "announcement" | .reply => "reply"

/-- observable projection of a `Handler6.ProcessPacket` call: returned error class, number of neighbour
    solicitations sent, options stored for the advertising router -/
def icmp6Proj : Icmp6Class → String
  | .errShort | .naErrLen | .nsErrLen | .raErrLen | .redirectErr => "ret=ErrFrameLen ns=0 ra=-"
  | .naErrNoLLA => "ret=ErrInvalidMAC ns=0 ra=-"
  | .raNoHost | .raErrOpt => "ret=other ns=0 ra=-"
  | .unknown => "ret=ErrParseFrame ns=0 ra=-"
  | .nsGlobal => "ret=nil ns=1 ra=-"
  | .ra o => "ret=nil ns=0 ra=" ++ (optionsStr o).replace " " "|"
  | _ => "ret=nil ns=0 ra=-"

def firstWord (s : String) : String := (s.splitOn " ").headD ""

def icmp4Proj : Icmp4Class → String
  | .errShort | .unreachBadUDP => "ret=ErrFrameLen"
  | .unreachShort | .unreachBadIP | .unreachBadTCP => "ret=ErrParseFrame"
  | _ => "ret=nil"

def arpProj : ArpClass → String
  | .errLen => "ret=ErrFrameLen" | .errHType => "ret=ErrParseFrame" | .errProto => "ret=ErrParseProtocol"
  | .errHLen | .errPLen => "ret=ErrInvalidLen"
  | _ => "ret=nil"

def handle (cmd : String) (args : List String) : Option String :=
  match cmd, args with
  | "ndp.opts", [h] => do
    let b ← fromHex h
    some (outcomeStr optionsStr (newParseOptions b))
  | "ndp.icmp6", [fl, h] => do
    let b ← fromHex h
    match fl.toList with
    | [u, k, r] => some (outcomeStr (fun c => icmp6Proj c ++ " class=" ++ firstWord (icmp6ClassStr c)) (icmp6Dispatch b (u == '1') (k == '1') (r == '1')))
    | _ => none
  | "ndp.icmp4", [h] => do
    let b ← fromHex h
    some (outcomeStr (fun c => icmp4Proj c ++ " class=" ++ (icmp4ClassStr c).replace " " "|") (icmp4Process b))
  | "ndp.hop", [h] => do
    let b ← fromHex h
    some (outcomeStr (fun _ => "") (hopByHopParse b)).trimAscii.toString
  | "ndp.arp", [h] => do
    let b ← fromHex h
    some (outcomeStr (fun c => arpProj c ++ " class=" ++ (arpClassStr c).replace " " "|") (arpClassify b))
  | _, _ => none

end PV.Drv.Ndp
