import PacketVerif.Model.PingMulti
import PacketVerif.Drv.Ping
import Std.Data.HashMap
namespace PV.Drv.PingMulti
open PV PV.Model.Ping PV.Model.PingMulti

/-!
  line protocol (C19, several sessions)

  `ping.mtrace <id0> [scn=…] <event>*`  → `accept` | `reject <index> <why>`
      the tokens of `ping.trace` (Drv/Ping.lean), each optionally followed by `@<j>` = on session j (default 0):
          c<p>@j        Ping/Ping6 called on session j in thread p
          i<k>:<id|x>@j session j's Parse called with an echo reply carrying id (x: no echo reply)
      and
          x<j>          Session.Close of session j called          z<j>   that Close returned
          d<p>          the wall clock passed (write time of p's request) + (effective timeout) − 2 ms
      The machine of Model/PingMulti.lean is run as an acceptor; hidden steps as in `ping.trace`; the hidden
      `timeout p` needs an earlier `d<p>`.
-/

structure MA where
  s : MState
  called : List (Nat × Nat)                     -- (thread, session): called, not yet registered
  inj : List (Nat × Nat × Option Nat × Bool)    -- open Parse calls: k, session, echo id, applied?

def MA.key (n m : Nat) (a : MA) : String :=
  let ths := (List.range n).map (fun p => Drv.Ping.renderThread (a.s.base.th p) ++ (if a.s.due p then "D" else "") ++ s!"@{a.s.sessOf p}")
  let cl := (List.range m).map (fun k => a.s.closed k)
  s!"{a.s.base.table}|{a.s.base.nextId}|{ths}|{cl}|{a.called}|{a.inj}"

def hidden (n : Nat) (a : MA) : List MA :=
  let regs := a.called.filterMap (fun (p, k) =>
    (mstep a.s (.on k (.reg p))).map (fun s' => { a with s := s', called := a.called.filter (fun x => x.1 ≠ p) }))
  let perThread := (List.range n).flatMap (fun p =>
    [Event.sendErr p, .cleanup p, .wake p, .timeout p, .unreg p].filterMap (fun e =>
      (mstep a.s (.on (a.s.sessOf p) e)).map (fun s' => { a with s := s' })))
  let injs := a.inj.filterMap (fun (k, j, id, applied) =>
    if applied then none else
      let e := match id with | some i => Event.echo i | none => Event.other
      (mstep a.s (.on j e)).map (fun s' =>
        { a with s := s', inj := a.inj.map (fun x => if x.1 = k then (k, j, id, true) else x) }))
  regs ++ perThread ++ injs

partial def closure (n m : Nat) (work : List MA) (seen : Std.HashMap String MA) : Std.HashMap String MA :=
  match work with
  | [] => seen
  | a :: rest =>
    let k := a.key n m
    if seen.contains k then closure n m rest seen
    else closure n m (hidden n a ++ rest) (seen.insert k a)

inductive MObs where
  | base (j : Nat) (o : Drv.Ping.Obs)
  | closeS (j : Nat) | closeE (j : Nat) | deadline (p : Nat)

def parseMObs (tok : String) : Option MObs :=
  let (t, j?) := match tok.splitOn "@" with
    | [t] => (t, some 0)
    | [t, j] => (t, j.toNat?)
    | _ => (tok, none)
  match j? with
  | none => none
  | some j =>
    match t.toList with
    | 'x' :: r => (String.ofList r).toNat?.map MObs.closeS
    | 'z' :: r => (String.ofList r).toNat?.map MObs.closeE
    | 'd' :: r => (String.ofList r).toNat?.map MObs.deadline
    | _ => (Drv.Ping.parseObs t).map (MObs.base j)

def applyMObs (a : MA) : MObs → Option MA
  | .base j (.call p) =>
    if (a.s.base.th p).pc = .init ∧ ¬ (a.called.any (fun x => x.1 = p)) then some { a with called := (p, j) :: a.called } else none
  | .base _ (.sent p id) =>
    if (a.s.base.th p).id = id then (mstep a.s (.on (a.s.sessOf p) (.sendOk p))).map (fun s' => { a with s := s' }) else none
  | .base _ (.ret p r) => if (a.s.base.th p).pc = .done ∧ (a.s.base.th p).ret = r then some a else none
  | .base j (.injS k id) => some { a with inj := (k, j, id, false) :: a.inj }
  | .base _ (.injE k) =>
    match a.inj.find? (fun x => x.1 = k) with
    | some (_, _, _, true) => some { a with inj := a.inj.filter (fun x => x.1 ≠ k) }
    | _ => none
  | .base _ (.dump ids) => if Drv.Ping.sortNat (a.s.base.table.map (·.1)) = Drv.Ping.sortNat ids then some a else none
  | .closeS j => (mstep a.s (.close j)).map (fun s' => { a with s := s' })
  | .closeE j => if a.s.closed j then some a else none
  | .deadline p => (mstep a.s (.deadline p)).map (fun s' => { a with s := s' })

def mobsName : MObs → String
  | .base j o => Drv.Ping.obsName o ++ s!" (session {j})"
  | .closeS j => s!"Close of session {j} called" | .closeE j => s!"Close of session {j} returned"
  | .deadline p => s!"deadline of {p} passed"

def threadCountM (obs : List MObs) : Nat :=
  obs.foldl (fun m o => match o with
    | .base _ (.call p) => max m (p + 1) | .base _ (.sent p _) => max m (p + 1) | .base _ (.ret p _) => max m (p + 1)
    | .deadline p => max m (p + 1) | _ => m) 0

def sessCountM (obs : List MObs) : Nat :=
  obs.foldl (fun m o => match o with
    | .base j _ => max m (j + 1) | .closeS j => max m (j + 1) | .closeE j => max m (j + 1) | _ => m) 0

def accept (id0 : Nat) (obs : List MObs) : String := Id.run do
  let n := threadCountM obs
  let m := sessCountM obs
  let mut cur : List MA := [{ s := minit id0, called := [], inj := [] }]
  let mut idx := 0
  for o in obs do
    let cl := closure n m cur {}
    let next := cl.fold (fun acc _ a => match applyMObs a o with | some a' => a' :: acc | none => acc) []
    if next.isEmpty then
      return s!"reject {idx} no interleaving of the multi-session ping machine explains: {mobsName o}"
    cur := next
    idx := idx + 1
  return "accept"

def handle (cmd : String) (args : List String) : Option String :=
  match cmd, args with
  | "ping.mtrace", id0 :: rest => do
    let i0 ← id0.toNat?
    let toks := rest.filter (fun t => ¬ t.startsWith "scn=")
    let obs ← toks.mapM parseMObs
    some (accept i0 obs)
  | _, _ => none

end PV.Drv.PingMulti
