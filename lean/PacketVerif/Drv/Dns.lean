import PacketVerif.Model.DnsName
import PacketVerif.Model.DnsRR
import PacketVerif.Model.DnsMsg
import PacketVerif.Model.Naming
import PacketVerif.Model.DnsQuery
import PacketVerif.Model.Views
import PacketVerif.Spec.DnsWire
namespace PV.Drv.Dns
open PV PV.Model

/-! line protocol of the DNS / naming models (C17, C08dns)

    dns.name <msg> <off>                 → <outcome (name end)> | spec=<name>:<end>:<ptrs> or spec=none
    dns.question <msg> <index>           → <outcome (name type class off)> | spec=…
    dns.rrs <count> <off> <msg>          → <outcome (off updated)> <entry>
    dns.answers0 <off> <msg>             → as dns.answers; the harness calls DecodeAnswers on the zero DNSEntry
    dns.process <payload>+               → per-call results and the final table
    dns.encname <name> <datalen> <off>   → ok <data> <off> | panic
    dns.encquery <id> <flags> <name> <t> → ok <msg> | panic
    dns.rt <id> <flags> <name> <t>       → encodeName + EncodeDNSQuery on the dotted text <name>, then the DNS view
                                           getters and DecodeQuestion on the message:
                                           ok <msg> view=<13 getters> q=<outcome (name type class end)>
                                              | spec=<id>,<flags>,<qd>,<an>,<ns>,<ar>,<name>:<type>:<class>:<end>   (reference decoder)
    merge <entry> <entry>                → <entry> <bool>
    hostupd <src> <dirty> <5 host entries> <5 mac entries> <entry> → <5 host> <5 mac> <dirty>
    mdns <payload> | nbns <payload> | nbns.names <b> | nbns.decode <b> | ssdp.cc <value> | mdns.txt <s1,s2,…>
-/

def insertSorted (s : String) : List String → List String
  | [] => [s]
  | x :: xs => if s ≤ x then s :: x :: xs else x :: insertSorted s xs

def sortStrings (l : List String) : List String := l.foldr insertSorted []

def joinWith (sep : String) (l : List String) : String := sep.intercalate l

def ipRecStr (r : IPRec) : String := s!"{toHex r.ip}/{toHex r.name}/{r.ttl}"
def ptrRecStr (r : IPRec) : String := s!"{toHex r.name}/{toHex r.ip}/{r.ttl}"
def nameRecStr (r : NameRec) : String := s!"{toHex r.name}/{toHex r.cname}/{r.ttl}"

def entryStr (e : DNSEntry) : String :=
  s!"name={toHex e.name} a=[{joinWith ";" (sortStrings (e.ip4.map ipRecStr))}] aaaa=[{joinWith ";" (sortStrings (e.ip6.map ipRecStr))}] cname=[{joinWith ";" (sortStrings (e.cname.map nameRecStr))}] ptr=[{joinWith ";" (sortStrings (e.ptr.map ptrRecStr))}]"

/-- the IPv6 text parser is not modelled (see `Model.parsePtrIP`) -/
def noIP6 : Bytes → PtrIP := fun _ => .invalid

def parseNat? (s : String) : Option Nat := s.toNat?

def parseInt? (s : String) : Option Int :=
  if s.startsWith "-" then (s.drop 1).toNat?.map (fun n => - (n : Int)) else s.toNat?.map (fun n => (n : Int))

def specNameStr (m : Bytes) (off : Int) : String :=
  if off < 0 then "spec=none"
  else
    match Spec.decodeName? m off.toNat with
    | some (t, e, d) => s!"spec={toHex t}:{e}:{d}"
    | none => "spec=none"

def nameEntryStr (e : NameEntry) : String :=
  s!"{toHex e.type},{toHex e.name},{toHex e.model},{toHex e.manufacturer},{toHex e.os},{e.expire}"

def parseNameEntry (s : String) : Option NameEntry :=
  match s.splitOn "," with
  | [t, n, m, mf, o, ex] => do
    let t ← fromHex t; let n ← fromHex n; let m ← fromHex m; let mf ← fromHex mf; let o ← fromHex o
    let ex ← parseInt? ex
    some { type := t, name := n, model := m, manufacturer := mf, os := o, expire := ex }
  | _ => none

def parseNames (s : String) : Option Names :=
  match s.splitOn ";" with
  | [a, b, c, d, e] => do
    let a ← parseNameEntry a; let b ← parseNameEntry b; let c ← parseNameEntry c
    let d ← parseNameEntry d; let e ← parseNameEntry e
    some { dhcp4 := a, llmnr := b, mdns := c, ssdp := d, nbns := e }
  | _ => none

def namesStr (n : Names) : String :=
  joinWith ";" [nameEntryStr n.dhcp4, nameEntryStr n.llmnr, nameEntryStr n.mdns, nameEntryStr n.ssdp, nameEntryStr n.nbns]

def parseSource : String → Option Source
  | "dhcp4" => some .dhcp4 | "llmnr" => some .llmnr | "mdns" => some .mdns | "ssdp" => some .ssdp | "nbns" => some .nbns
  | _ => none

def ipNameStr (e : DnsMsg.IPName) : String :=
  s!"{toHex e.name}:{toHex e.ip}:{toHex e.model}:{toHex e.manufacturer}"

def resKind {α} : Outcome α → String
  | .ok _ => "ok" | .err e => "err:" ++ e.toString | .panic => "panic" | .hang => "hang"

/-- run `dns.process` payloads in sequence over the table -/
def processAll : List Bytes → DNSTable → List String → DNSTable × List String
  | [], t, acc => (t, acc)
  | p :: rest, t, acc =>
    let (t', r) := processDNS noIP6 t p
    let s := match r with
      | .ok (some e) => "upd(" ++ (entryStr e).replace " " "," ++ ")"
      | .ok none => "same"
      | .err e => "err:" ++ e.toString
      | .panic => "panic"
      | .hang => "hang"
    processAll rest t' (acc ++ [s])


/-! `dnsparser <op,op,…> <msg>`: the same API call sequence on the Parser model as the harness runs on
    the real `dnsmessage.Parser` (after `Start`), one result per call. -/

def perrStr : DnsMsg.PErr → String
  | .sectionDone => "done" | .notStarted => "notstarted" | .other => "err"

def optErr : Option DnsMsg.PErr → String
  | none => "ok" | some e => perrStr e

def hdrStr : DnsMsg.R DnsMsg.RHeader → String
  | .ok h => s!"ok:{toHex h.name}:{h.rtype}:{h.rclass}:{h.ttl}:{h.length}"
  | .error e => perrStr e

def bytesRes : DnsMsg.R Bytes → String
  | .ok b => "ok:" ++ toHex b
  | .error e => perrStr e

def unitRes : DnsMsg.R Unit → String
  | .ok _ => "ok"
  | .error e => perrStr e

def parserOp (p : DnsMsg.Parser) (op : String) : DnsMsg.Parser × String :=
  match op with
  | "Q" => let (p1, r) := DnsMsg.question p; (p1, bytesRes r)
  | "SQ" => let (p1, r) := DnsMsg.skipQuestion p; (p1, optErr r)
  | "SAQ" =>
    match DnsMsg.skipAllQuestions (p.qd + 2) p with
    | .ok (p1, r) => (p1, optErr r)
    | _ => (p, "hang")
  | "AH" => let (p1, r) := DnsMsg.resourceHeader p 3; (p1, hdrStr r)
  | "NH" => let (p1, r) := DnsMsg.resourceHeader p 4; (p1, hdrStr r)
  | "XH" => let (p1, r) := DnsMsg.resourceHeader p 5; (p1, hdrStr r)
  | "SA" => let (p1, r) := DnsMsg.skipResource p 3; (p1, optErr r)
  | "SN" => let (p1, r) := DnsMsg.skipResource p 4; (p1, optErr r)
  | "SX" => let (p1, r) := DnsMsg.skipResource p 5; (p1, optErr r)
  | "A" => let (p1, r) := DnsMsg.typedResource p (· == 1) DnsMsg.unpackA; (p1, bytesRes r)
  | "AAAA" => let (p1, r) := DnsMsg.typedResource p (· == 28) DnsMsg.unpackAAAA; (p1, bytesRes r)
  | "PTR" => let (p1, r) := DnsMsg.typedResource p (· == 12) DnsMsg.unpackPTR; (p1, unitRes r)
  | "SRV" => let (p1, r) := DnsMsg.typedResource p (· == 33) DnsMsg.unpackSRV; (p1, unitRes r)
  | "OPT" => let (p1, r) := DnsMsg.typedResource p (· == 41) DnsMsg.unpackOPT; (p1, unitRes r)
  | "TXT" =>
    let (p1, r) := DnsMsg.typedResource p (· == 16) DnsMsg.unpackTXT
    (p1, match r with | .ok l => "ok:" ++ joinWith "/" (l.map toHex) | .error e => perrStr e)
  | "UNK" => let (p1, r) := DnsMsg.typedResource p (fun _ => true) DnsMsg.unpackUnknown; (p1, bytesRes r)
  | _ => (p, "bad-op")

def parserOps : List String → DnsMsg.Parser → List String → List String
  | [], _, acc => acc
  | op :: rest, p, acc => let (p1, r) := parserOp p op; parserOps rest p1 (acc ++ [r])

def handle (cmd : String) (args : List String) : Option String :=
  match cmd, args with
  | "dns.name", [h, o] => do
    let m ← fromHex h; let off ← parseInt? o
    let r := decodeName m off 1
    some (outcomeStr (fun (x : Bytes × Nat) => s!"{toHex x.1} {x.2}") r ++ " | " ++ specNameStr m off)
  | "dns.question", [h, o] => do
    let m ← fromHex h; let off ← parseInt? o
    let r := decodeQuestion m off
    let sp := if off < 0 then "spec=none" else
      match Spec.questionAt? m off.toNat with
      | some (q, e) => s!"spec={toHex q.name}:{q.qtype}:{q.qclass}:{e}"
      | none => "spec=none"
    some (outcomeStr (fun (x : Question × Nat) => s!"{toHex x.1.name} {x.1.qtype} {x.1.qclass} {x.2}") r ++ " | " ++ sp)
  | "dns.rrs", [c, o, h] => do
    let m ← fromHex h; let off ← parseInt? o; let cnt ← parseNat? c
    let (e, r) := decodeRRs noIP6 cnt (DNSEntry.empty []) m off false
    some (outcomeStr (fun (x : Int × Bool) => s!"{x.1} {x.2}") r ++ " " ++ entryStr e)
  | "dns.answers", [o, h] => do
    let m ← fromHex h; let off ← parseInt? o
    let (e, r) := decodeAnswers noIP6 (DNSEntry.empty []) m off
    some (outcomeStr (fun (x : Int × Bool) => s!"{x.1} {x.2}") r ++ " " ++ entryStr e)
  | "dns.answers0", [o, h] => do
    -- the exported DecodeAnswers on the zero DNSEntry (nil maps = empty maps after the fix commit)
    let m ← fromHex h; let off ← parseInt? o
    let (e, r) := decodeAnswers noIP6 (DNSEntry.empty []) m off
    some (outcomeStr (fun (x : Int × Bool) => s!"{x.1} {x.2}") r ++ " " ++ entryStr e)
  | "dns.process", ps => do
    let bs ← ps.mapM fromHex
    let (t, rs) := processAll bs [] []
    some (joinWith " " rs ++ " tbl=" ++ joinWith "|" (sortStrings (t.map (fun kv => entryStr kv.2))))
  | "dns.encname", [n, l, o] => do
    let nm ← fromHex n; let len ← parseNat? l; let off ← parseNat? o
    some (outcomeStr (fun (x : Bytes × Nat) => s!"{toHex x.1} {x.2}") (encodeName nm (List.replicate len 0) off))
  | "dns.encquery", [i, f, n, t] => do
    let id ← parseNat? i; let fl ← parseNat? f; let nm ← fromHex n; let qt ← parseNat? t
    some (outcomeStr toHex (encodeDNSQuery id fl nm qt))
  | "dns.rt", [i, f, n, t] => do
    let id ← parseNat? i; let fl ← parseNat? f; let nm ← fromHex n; let qt ← parseNat? t
    match buildQuery id fl nm qt with
    | .ok m =>
      let view := joinWith "," (vDNS.fixed.map (fun (g : String × G) => outcomeStr Val.toString (g.2.eval m) |>.replace " " "_"))
      let q := outcomeStr (fun (x : Question × Nat) => s!"{toHex x.1.name} {x.1.qtype} {x.1.qclass} {x.2}") (decodeQuestion m 12)
      let u (k : Nat) : String := match Spec.u16At m k with | some v => toString v | none => "-"
      let sq := match Spec.questionAt? m 12 with
        | some (sq, e) => s!"{toHex sq.name}:{sq.qtype}:{sq.qclass}:{e}"
        | none => "none"
      some s!"ok {toHex m} view={view} q={q} | spec={u 0},{u 2},{u 4},{u 6},{u 8},{u 10},{sq}"
    | r => some (outcomeStr toHex r)
  | "merge", [a, b] => do
    let e ← parseNameEntry a; let n ← parseNameEntry b
    let (r, m) := e.merge n
    some s!"{nameEntryStr r} {m}"
  | "hostupd", [src, d, hs, ms, n] => do
    let s ← parseSource src
    let host ← parseNames hs; let mac ← parseNames ms; let ne ← parseNameEntry n
    let dirty := d == "true"
    let r := HostNames.update { host := host, mac := mac, dirty := dirty } s ne
    some s!"{namesStr r.host} {namesStr r.mac} {r.dirty}"
  | "mdns", [h] => do
    let m ← fromHex h
    some (outcomeStr (fun (o : DnsMsg.MdnsOut) =>
        s!"v4=[{joinWith "," (o.ipv4.map ipNameStr)}] v6=[{joinWith "," (o.ipv6.map ipNameStr)}] err={o.err}")
      (DnsMsg.processMDNS (DnsMsg.mdnsBound m) m))
  | "nbns", [h] => do
    let m ← fromHex h
    some (outcomeStr (fun (o : DnsMsg.NbnsOut) => s!"{toHex o.type} {toHex o.name} err={o.err}")
      (DnsMsg.processNBNS (DnsMsg.nbnsBound m) m))
  | "nbns.names", [h] => do
    let b ← fromHex h
    some (outcomeStr (fun (l : List Bytes) => "[" ++ joinWith "," (l.map toHex) ++ "]") (parseNodeNameArray b))
  | "nbns.decode", [h] => do
    let b ← fromHex h
    some (outcomeStr (fun (x : Nat × Bytes) => s!"{x.1} {toHex x.2}") (decodeNBNSName b))
  | "ssdp.cc", [h] => do
    let b ← fromHex h
    some (outcomeStr (fun (x : Option Int) => match x with | some s => toString s | none => "big") (ssdpExpirySeconds b))
  | "dnsparser", [ops, h] => do
    let m ← fromHex h
    match DnsMsg.start m with
    | .error _ => some "starterr"
    | .ok (p, hdr) => some (s!"resp={hdr.response} " ++ joinWith " " (parserOps (ops.splitOn ",") p []))
  | "mdns.txt", [l] => do
    let ts ← (if l == "none" then some [] else (l.splitOn ",").mapM fromHex)
    some ("ok " ++ toHex (parseTXT ts))
  | _, _ => none

end PV.Drv.Dns
