import PacketVerif.Model.Icmp6Hunt
import PacketVerif.Model.Icmp6Frame
import PacketVerif.Model.Icmp6Na
import PacketVerif.Drv.Ndp
import PacketVerif.Drv.Accept
namespace PV.Drv.Icmp6Hunt
open PV PV.Model.Ndp PV.Model.Icmp6Hunt PV.Drv.Accept

/-!
  line protocol (C14)

  `nd.ra <ra>*`  function mode: the advertisements are processed in order by a fresh handler;
        `<ra>` = `<repeat>/<hostKnown 0|1>/<ether src>/<ip src>/<icmp6 payload>` (`repeat` = value of the
        process-global counter set before the packet).
        → `res=<0|1>* def=<ip|-> routers=<ip>@<mac>@<hdr>@<options>;…` (sorted by ip)
  `nd.frame <hostMAC> <routerMAC> <lanAddr> <lanBits> <repeat> <frame>`  function mode over RAW frames: Parse,
        dispatch on PayloadICMP6, Handler6.ProcessPacket of a fresh handler (`repeat` set before)
        → `perr=<0|1> pid=<n> ret=<-|nil|Err…|other> def=<ip|-> routers=… | ra=<RaIn read off the frame|->`
  `nd.trace [scn=…] <event>*`  trace acceptance of one handler's real-time run:
          Sc<k>:<mac>:<cls n|4|l|g>   StartHunt called         Sr<k>:<e|n|h>   … returned (ErrInvalidIP | no change | hunt)
          Xc<k>:<mac>:<eff 0|1>       StopHunt called          Xr<k>
          Cc<k>                       Close called             Cr<k>
          Rc<k>:<ra>                  ProcessPacket(RA) called Rr<k>:<0|1>      … returned error / nil
          N<mac>:<router ip>[:<frame>] forged neighbour advertisement written (logged when WriteTo returns); with the
                                      frame bytes the acceptor also requires frame = `Model.Icmp6Na.loopNA` for our MAC
                                      (`host=<mac>` token), that host, that router and the frame's IPv6 destination
        every event is suffixed `@<ms>` (time since the start of the scenario).
        hidden steps: check / wake of every loop, the atomic step of an open API call (enabled only
        while no loop holds the handler mutex across its batch – `State.holder`), the wake-up
        section of an open ProcessPacket(RA) (it precedes the learning section and is a separate
        critical section).  An `N` after the `Xr` / `Cr` of a StopHunt / Close of that MAC is
        therefore rejected: the machine has no such interleaving.
-/

def hdrStr (h : RaHeader) : String :=
  -- P1: Router.Prefixes = Options.Prefixes; M0 / R-: Router.MTU and Router.RDNSS are not touched by ProcessPacket
  s!"{h.curHopLimit}/{Drv.Ndp.b01 h.managed}/{Drv.Ndp.b01 h.other}/{h.preference}/{h.lifetime}/{h.reachable}/{h.retrans}/P1/M0/R-"

def insertSorted (e : String × String) : List (String × String) → List (String × String)
  | [] => [e]
  | x :: xs => if e.1 < x.1 then e :: x :: xs else x :: insertSorted e xs

def routersStr (s : State) : String :=
  let items := s.routers.map (fun (ip, r) =>
    (toHex ip, s!"{toHex ip}@{toHex r.mac}@{hdrStr r.hdr}@{(Drv.Ndp.optionsStr r.options).replace " " "|"}"))
  let sorted := items.foldl (fun acc e => insertSorted e acc) []
  if sorted.isEmpty then "-" else ";".intercalate (sorted.map (·.2))

def parseRa (tok : String) : Option (Int × RaIn) :=
  match tok.splitOn "/" with
  | [rep, h, es, ips, pl] => do
    let r ← rep.toInt?
    let e ← fromHex es
    let i ← fromHex ips
    let p ← fromHex pl
    some (r, { etherSrc := e, ipSrc := i, hostKnown := h == "1", payload := p })
  | _ => none

def runRas (s : State) (res : String) : List (Int × RaIn) → Option (State × String)
  | [] => some (s, res)
  | (rep, r) :: rest =>
    match processRA { s with rep := rep } r with
    | .ok (s', ok) => runRas s' (res ++ (if ok then "1" else "0")) rest
    | _ => none

/-! ### acceptor -/

inductive Op where
  | start (mac : Bytes) (cls : IpClass)
  | stop (mac : Bytes) (eff : Bool)
  | close
  | ra (rep : Int) (r : RaIn)

/-- minimal time a loop stays in its `select` unless a router advertisement or Close wakes it:
    `time.After(2000 ms + rand 800 ms)`; 100 ms measurement slack -/
def minCycleMs : Nat := 1900

structure AState where
  s : State
  open_ : List (Nat × Op × Option Out)     -- API calls in progress: id, op, result once the step happened
  /-- wall-clock refinement used only by the acceptor: time (ms) of the last observed event, of the
      next one, and for every waiting loop the earliest time it can have entered its `select` and
      whether an RA / Close happened since (early wake-up) -/
  tprev : Nat := 0
  tnext : Nat := 0
  waits : List (Nat × Nat × Bool) := []
  hostMAC : Bytes := []

inductive ObsK where
  | call (k : Nat) (op : Op)
  | ret (k : Nat) (res : String)
  | na (mac ip : Bytes) (frame : Option Bytes)

structure Obs where
  k : ObsK
  t : Nat     -- ms since the start of the scenario

def pcStr : Pc → String
  | .check => "c" | .wait => "w" | .done => "d"
  | .send p => "s" ++ ",".intercalate (p.map toHex)

def opStr : Op → String
  | .start m _ => "start " ++ toHex m | .stop m _ => "stop " ++ toHex m | .close => "close" | .ra _ _ => "ra"

def outStr : Option Out → String
  | none => "_"
  | some (.start .errInvalidIP) => "e" | some (.start .noChange) => "n" | some (.start .hunt) => "h"
  | some (.raResult ok) => if ok then "1" else "0"
  | some _ => "-"

def AState.key (a : AState) : String :=
  let ls := (List.range a.s.nloops).map (fun i => toHex (a.s.loops i).mac ++ ":" ++ pcStr (a.s.loops i).pc)
  let ops := a.open_.map (fun (k, op, o) => s!"{k}{opStr op}{outStr o}")
  s!"{a.s.hunt.map toHex}|{a.s.closed}|{routersStr a.s}|{a.s.defaultRouter.map toHex}|{a.s.rep}|{ls}|{a.s.holder}|{ops}|{a.waits}"

def evOf : Op → List Event
  | .start m c => [.startHunt m c]
  | .stop m e => [.stopHunt m e]
  | .close => [.close]
  | .ra rep r => [.envRepeat rep, .ra r]

def stepAll (s : State) : List Event → Option (State × Out)
  | [] => none
  | [e] => step s e
  | e :: es => match step s e with
    | some (s', _) => stepAll s' es
    | none => none

def isWait (s : State) (i : Nat) : Bool := (s.loops i).pc == .wait

/-- bookkeeping after loop `i` moved: entering `wait` records the earliest possible time -/
def noteWait (a : AState) (before : State) (i : Nat) (t : Nat) : AState :=
  if isWait a.s i ∧ ¬ isWait before i then { a with waits := (i, t, false) :: a.waits.filter (fun w => w.1 ≠ i) }
  else if ¬ isWait a.s i then { a with waits := a.waits.filter (fun w => w.1 ≠ i) }
  else a

def hidden (a : AState) : List AState :=
  let loops := (List.range a.s.nloops).flatMap (fun i =>
    let chk := match step a.s (.check i) with
      | some (s', _) => [noteWait { a with s := s' } a.s i a.tprev]
      | none => []
    let wk := match step a.s (.wake i) with
      | some (s', _) =>
        match a.waits.find? (fun w => w.1 = i) with
        | some (_, since, early) =>
          if early ∨ since + minCycleMs ≤ a.tnext then [noteWait { a with s := s' } a.s i a.tprev] else []
        | none => [noteWait { a with s := s' } a.s i a.tprev]
      | none => []
    chk ++ wk)
  let ops := a.open_.filterMap (fun (k, op, done) =>
    match done with
    | some _ => none
    | none => (stepAll a.s (evOf op)).map (fun (s', o) =>
        let wakes := match op with
          | .close => true
          | _ => false
        { a with s := s', open_ := a.open_.map (fun x => if x.1 = k then (k, op, some o) else x),
                 waits := if wakes then a.waits.map (fun (i, t, _) => (i, t, true)) else a.waits }))
  -- ProcessPacket(RA), first critical section: `if huntList.Len() > 0 && !closed` the wake-up channel
  -- is replaced and the old one closed – every loop in its select (or on its way there: the channel
  -- was read under the mutex) returns at once.  It needs the mutex like every other section.
  let raWake := a.open_.filterMap (fun (_, op, done) =>
    match op, done with
    | .ra _ _, none =>
      if a.s.holder.isNone ∧ ¬ a.s.hunt.isEmpty ∧ ¬ a.s.closed ∧ a.waits.any (fun w => ¬ w.2.2) then
        some { a with waits := a.waits.map (fun (i, t, _) => (i, t, true)) }
      else none
    | _, _ => none)
  loops ++ ops ++ raWake

def applyObs (a : AState) (o : Obs) : List AState :=
  let a := { a with tprev := o.t }
  match o.k with
  | .call k op => [{ a with open_ := (k, op, none) :: a.open_ }]
  | .ret k res =>
    match a.open_.find? (fun x => x.1 = k) with
    | some (_, _, some o) =>
      if outStr (some o) = res ∨ res = "-" then [{ a with open_ := a.open_.filter (fun x => x.1 ≠ k) }] else []
    | _ => []
  | .na mac ip frame =>
    let bytesOK : Bool := match frame with
      | none => true
      | some f =>
        -- the frame on the wire is the loop's `ICMP6SendNeighborAdvertisement` for this host and this router
        match Model.Icmp6Na.loopNA (List.replicate 1522 0) a.hostMAC mac ip ((f.drop 38).take 16) with
        | .ok g => g == f
        | _ => false
    if bytesOK = false then [] else
    (List.range a.s.nloops).filterMap (fun i =>
      if (a.s.loops i).mac = mac then
        match step a.s (.send i ip) with
        | some (s', _) => some (noteWait { a with s := s' } a.s i o.t)
        | none => none
      else none)

def clsOf : String → Option IpClass
  | "n" => some .none | "4" => some .v4 | "l" => some .lla | "g" => some .other6 | _ => none

def parseObsK (tok : String) : Option ObsK :=
  let cs := tok.toList
  match cs with
  | 'N' :: r =>
    match (String.ofList r).splitOn ":" with
    | [m, ip] => do let mm ← fromHex m; let i ← fromHex ip; some (.na mm i none)
    | [m, ip, fr] => do let mm ← fromHex m; let i ← fromHex ip; let f ← fromHex fr; some (.na mm i (some f))
    | _ => none
  | c :: 'c' :: r =>
    match (String.ofList r).splitOn ":" with
    | k :: args => do
      let kk ← k.toNat?
      match c, args with
      | 'S', [m, cl] => do let mm ← fromHex m; let cc ← clsOf cl; some (.call kk (.start mm cc))
      | 'X', [m, e] => do let mm ← fromHex m; some (.call kk (.stop mm (e == "1")))
      | 'C', [] => some (.call kk .close)
      | 'R', [ra] => do let (rep, r) ← parseRa ra; some (.call kk (.ra rep r))
      | _, _ => none
    | _ => none
  | _ :: 'r' :: r =>
    match (String.ofList r).splitOn ":" with
    | [k] => do let kk ← k.toNat?; some (.ret kk "-")
    | [k, res] => do let kk ← k.toNat?; some (.ret kk res)
    | _ => none
  | _ => none

/-- `<event>@<ms>` -/
def parseObs (tok : String) : Option Obs :=
  match tok.splitOn "@" with
  | [e, t] => do let k ← parseObsK e; let tt ← t.toNat?; some { k := k, t := tt }
  | _ => none

def obsName (o : Obs) : String :=
  match o.k with
  | .call k op => s!"call {k} {opStr op}"
  | .ret k r => s!"return {k} {r}"
  | .na m ip _ => s!"NA to {toHex m} for router {toHex ip} at {o.t} ms (no loop attacking this MAC can be writing: a loop stays at least {minCycleMs} ms in its select unless an RA or Close wakes it, passes its check only while the MAC is hunted and the handler open, and StopHunt / Close return only when no batch is in flight)"

def machine : Machine AState Obs :=
  { key := AState.key, hidden := hidden, apply := applyObs, name := obsName,
    prep := fun a o => { a with tnext := o.t } }

/-- raw-frame function mode: the composed `processFrame` on a fresh handler, and what ProcessPacket returns -/
def frameLine (c : Model.Cfg) (rep : Int) (p : Bytes) : String :=
  match Model.parse c p with
  | .ok r =>
    let perr := if r.err.isSome then 1 else 0
    let dispatched := r.err.isNone ∧ r.frame.pid = Model.Pid.icmp6
    let ret : String :=
      if ¬ dispatched then "-"
      else if r.frame.offIP6 = 0 then "ErrParseFrame"
      else match sliceFrom p r.frame.offPayload with
        | .ok pay =>
          match icmp6Dispatch pay (r.frame.srcIP.all (· == 0)) r.frame.hostEv.isSome ((rep + 1) % 4 == 0) with
          | .ok cl => ((Drv.Ndp.firstWord (Drv.Ndp.icmp6Proj cl)).drop 4).toString
          | .err e => e.toString
          | .panic => "panic"
          | .hang => "hang"
        | _ => "panic"
    match Model.Icmp6Frame.processFrame c { rep := rep } p, Model.Icmp6Frame.raInOf c p with
    | .ok (s, _), .ok ra =>
      let ras := match ra with
        | some x => s!"{toHex x.etherSrc}/{toHex x.ipSrc}/{if x.hostKnown then 1 else 0}/{toHex x.payload}"
        | none => "-"
      s!"perr={perr} pid={r.frame.pid} ret={ret} def={match s.defaultRouter with | some ip => toHex ip | none => "-"} routers={routersStr s} | ra={ras}"
    | .panic, _ => "panic"
    | .hang, _ => "hang"
    | _, _ => "err"
  | .panic => "panic"
  | .hang => "hang"
  | .err e => "err " ++ e.toString

def handle (cmd : String) (args : List String) : Option String :=
  match cmd, args with
  | "nd.frame", [hm, rm, la, lb, rep, h] => do
    let hm ← fromHex hm; let rm ← fromHex rm; let la ← fromHex la; let lb ← lb.toNat?; let rep ← rep.toInt?
    let b ← fromHex h
    some (frameLine ⟨hm, rm, la, lb⟩ rep b)
  | "nd.ra", toks => do
    let ras ← toks.mapM parseRa
    match runRas {} "" ras with
    | some (s, res) =>
      some s!"res={res} def={match s.defaultRouter with | some ip => toHex ip | none => "-"} routers={routersStr s}"
    | none => some "panic"
  | "nd.trace", toks => do
    let obs ← (toks.filter (fun t => ¬ t.startsWith "scn=" ∧ ¬ t.startsWith "host=")).mapM parseObs
    let host := match toks.find? (fun t => t.startsWith "host=") with
      | some t => (fromHex (t.drop 5).toString).getD []
      | none => []
    some (accept machine { s := {}, open_ := [], hostMAC := host } obs)
  | _, _ => none

end PV.Drv.Icmp6Hunt
