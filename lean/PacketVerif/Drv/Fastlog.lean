import PacketVerif.Model.Fastlog
import PacketVerif.Spec.Render
namespace PV.Drv.Fastlog
open PV PV.Fastlog

/-!
line protocol (C20).  All names / texts / byte strings are hex (`-` = empty).

  `fl  <init> <field>*`   apply the appenders to a line; reply `ok <index> <hex buffer[:index]> <fnv1a32 of buffer[index:]>`,
                          `ok <index> over` when index > 2048 (buffer unobservable), or `panic`
  `fls <init> <field>*`   … then `ToString()`:  `ok <hex>` | `panic`
  `flw <init> <field>*`   … then `Write()`:     `ok <hex written>` | `panic`
  `vaddr <init> <mac> <ip> <port>` / `varp <init> <arp bytes>` / `vip4 <init> <header bytes>`
                          `Addr.FastLog` / `ARP.FastLog` / `IP4.FastLog` on the line; reply as `fl`
  `spec <init> <field>*`  reference text: `<hex of prefix ++ concatenation of Spec.renderField>`

  init:  `raw:<start>:<fill>`              a line with cursor `start`, buffer filled with byte `fill` (decimal)
         `msg:<module>:<msg>:<fill>`       `New(module).Msg(msg)` on a buffer filled with `fill`
  field: `str:n:v` `lab:n` `bool:n:0|1` `int:n:<dec>` `u8:n:<dec>` `u16:n:<dec>` `u32:n:<dec>` `x8:n:<dec>` `x16:n:<dec>`
         `mac:n:<hex>` `ip:n:<hex 0|4|16 bytes>` `ips:n:<hex>|~` `ba:n:<hex>` `sa:n:<hex>,<hex>…|_` `ipa:n:<hex|~>,…|_`
         `dur:n:<dec ns>` `time:n:<unix ms>:<StampMilli text>` `txt:n:<text>` `err:<text>` `bytes:n:v` `stg:<text>` `mod:n:m` `lf`
         `pint:<dec>` `whex:<dec>` `wnlz:<dec>` `ip6:<hex>` `ab:<dec>` `nmod:n:m`
-/

def natLt (s : String) (bound : Nat) : Option Nat := do
  let n ← s.toNat?
  if n < bound then some n else none

def hexList (s : String) : Option (List Bytes) :=
  if s == "_" then some [] else (s.splitOn ",").mapM fromHex

def ipList (s : String) : Option (List (Option Bytes)) :=
  if s == "_" then some []
  else (s.splitOn ",").mapM (fun e => if e == "~" then some none else (fromHex e).map some)

def parseField (tok : String) : Option Field :=
  match tok.splitOn ":" with
  | ["str", n, v] => do some (.str (← fromHex n) (← fromHex v))
  | ["lab", n] => do some (.label (← fromHex n))
  | ["bool", n, v] => do some (.bool (← fromHex n) (v == "1"))
  | ["int", n, v] => do some (.int (← fromHex n) (← v.toInt?))
  | ["u8", n, v] => do some (.u8 (← fromHex n) (UInt8.ofNat (← natLt v 256)))
  | ["u16", n, v] => do some (.u16 (← fromHex n) (UInt16.ofNat (← natLt v 65536)))
  | ["u32", n, v] => do some (.u32 (← fromHex n) (UInt32.ofNat (← natLt v 4294967296)))
  | ["x8", n, v] => do some (.x8 (← fromHex n) (UInt8.ofNat (← natLt v 256)))
  | ["x16", n, v] => do some (.x16 (← fromHex n) (UInt16.ofNat (← natLt v 65536)))
  | ["mac", n, v] => do some (.mac (← fromHex n) (← fromHex v))
  | ["ip", n, v] => do some (.ip (← fromHex n) (← fromHex v))
  | ["ips", n, v] => do
    let n ← fromHex n
    if v == "~" then some (.ipSlice n none) else some (.ipSlice n (some (← fromHex v)))
  | ["ba", n, v] => do some (.byteArray (← fromHex n) (← fromHex v))
  | ["sa", n, v] => do some (.stringArray (← fromHex n) (← hexList v))
  | ["ipa", n, v] => do some (.ipArray (← fromHex n) (← ipList v))
  | ["dur", n, v] => do some (.duration (← fromHex n) (← v.toInt?))
  | ["txt", n, v] => do some (.nameText (← fromHex n) (← fromHex v))
  | ["time", n, _, v] => do some (.nameText (← fromHex n) (← fromHex v))
  | ["err", v] => do some (.error (← fromHex v))
  | ["bytes", n, v] => do some (.bytes (← fromHex n) (← fromHex v))
  | ["stg", v] => do some (.stringer (← fromHex v))
  | ["mod", n, m] => do some (.module (← fromHex n) (← fromHex m))
  | ["lf"] => some .lf
  | ["pint", v] => do some (.printInt (UInt32.ofNat (← natLt v 4294967296)))
  | ["whex", v] => do some (.writeHex (UInt8.ofNat (← natLt v 256)))
  | ["wnlz", v] => do some (.writeHexNLZ (UInt8.ofNat (← natLt v 256)))
  | ["ip6", v] => do some (.appendIP6 (← fromHex v))
  | ["ab", v] => do some (.appendByte (UInt8.ofNat (← natLt v 256)))
  | ["nmod", n, m] => do some (.newModule (← fromHex n) (← fromHex m))
  | _ => none

/-- initial line (model) and reference prefix (spec) -/
def parseInit (tok : String) : Option (Outcome Model.Fastlog.Line × Bytes) :=
  match tok.splitOn ":" with
  | ["raw", s, f] => do
    let s ← s.toNat?
    let f ← natLt f 256
    some (.ok ⟨Model.Fastlog.Buf.fill (UInt8.ofNat f), s⟩, [])
  | ["msg", m, t, f] => do
    let m ← fromHex m
    let t ← fromHex t
    let f ← natLt f 256
    some (Model.Fastlog.msg (Model.Fastlog.Buf.fill (UInt8.ofNat f)) m t, Spec.Render.linePrefix m t)
  | _ => none

def fnv1a (b : Bytes) : UInt32 :=
  b.foldl (fun h x => (h ^^^ x.toUInt32) * 16777619) 2166136261

def stateStr (l : Model.Fastlog.Line) : String :=
  if l.idx > Model.Fastlog.bufSize then s!"{l.idx} over"
  else s!"{l.idx} {toHex l.text} {(fnv1a (l.buf.1.drop l.idx)).toNat}"

def run (init : String) (fields : List String) : Option (Outcome Model.Fastlog.Line) := do
  let (l0, _) ← parseInit init
  let fs ← fields.mapM parseField
  some (do let l ← l0; Model.Fastlog.applyAll l fs)

def handle (cmd : String) (args : List String) : Option String :=
  match cmd, args with
  | "fl", init :: fields => do
    some (outcomeStr stateStr (← run init fields))
  | "fls", init :: fields => do
    let r ← run init fields
    some (outcomeStr toHex (do let l ← r; Model.Fastlog.toString l))
  | "flw", init :: fields => do
    let r ← run init fields
    some (outcomeStr toHex (do let l ← r; Model.Fastlog.write l))
  | "spec", init :: fields => do
    let (_, pre) ← parseInit init
    let fs ← fields.mapM parseField
    some (toHex (pre ++ Spec.Render.renderFields fs))
  | "vaddr", [init, mac, ip, port] => do
    let (l0, _) ← parseInit init
    let fs := Model.Fastlog.addrFields (← fromHex mac) (← fromHex ip) (UInt16.ofNat (← natLt port 65536))
    some (outcomeStr stateStr (do let l ← l0; Model.Fastlog.applyAll l fs))
  | "varp", [init, b] => do
    let (l0, _) ← parseInit init
    let b ← fromHex b
    some (outcomeStr stateStr (do let l ← l0; let fs ← Model.Fastlog.arpFields b; Model.Fastlog.applyAll l fs))
  | "vip4", [init, b] => do
    let (l0, _) ← parseInit init
    let b ← fromHex b
    some (outcomeStr stateStr (do let l ← l0; let fs ← Model.Fastlog.ip4Fields b; Model.Fastlog.applyAll l fs))
  | _, _ => none

end PV.Drv.Fastlog
