import PacketVerif.Model.Dhcp4Opt
namespace PV.Drv.Dhcp4Opt
open PV PV.Model.Dhcp4Opt

/-! `dhcp.parse <hex packet>` → `<validateOptions> | <ParseOptions>`
    `dhcp.enc <hex buffer> <opcode> <mt> <chaddr|~> <ciaddr|~> <yiaddr|~> <xid|~> <bcast> <opts> <order> <wire|~>`
      → `ok <hex>` | `nil` | `panic`   (`wire` = option codes in the order the implementation wrote them: it fixes the
      map-iteration order of the options not named in `order`; the driver checks it is a permutation of them) -/

def optHex? (s : String) : Option (Option Bytes) :=
  if s == "~" then some none else (fromHex s).map some

def parseOpts (s : String) : Option Opts :=
  if s == "-" then some []
  else (s.splitOn ",").mapM (fun kv =>
    match kv.splitOn "=" with
    | [k, v] => do some (UInt8.ofNat (← k.toNat?), ← fromHex v)
    | _ => none)

def showOpts (o : Opts) : String :=
  let s := o.mergeSort (fun a b => a.1.toNat ≤ b.1.toNat)
  if s.isEmpty then "-" else ",".intercalate (s.map (fun e => s!"{e.1.toNat}={toHex e.2}"))

def isPerm (a b : List UInt8) : Bool :=
  a.length == b.length && a.all (fun x => a.count x == b.count x)

def handle (cmd : String) (args : List String) : Option String :=
  match cmd, args with
  | "dhcp.parse", [h] => do
    let p ← fromHex h
    some (outcomeStr (fun _ => "-") (validateOptions p) ++ " | " ++ outcomeStr showOpts (parseOptions p))
  | "dhcp.enc", [hb, opcode, mt, ch, ci, yi, xid, bc, opts, order, wire] => do
    let b ← fromHex hb
    let a : EncArgs := { opcode := UInt8.ofNat (← opcode.toNat?), mt := UInt8.ofNat (← mt.toNat?), chaddr := ← optHex? ch,
                         ciaddr := ← optHex? ci, yiaddr := ← optHex? yi, xid := ← optHex? xid, broadcast := bc == "1",
                         opts := ← parseOpts opts, order := ← fromHex order }
    let r := orderedPhase (fullOrder a.order) (optSet a.opts 53 [a.mt])
    let remaining := r.2.map (·.1)
    -- `nil`: the implementation returned nil (buffer under 300 bytes, or no room for the options and the end marker)
    let wantPanic := wire != "nil"
    let wire ← if wire == "nil" then some none else optHex? wire
    -- no wire order (the implementation panicked or returned nil): the map iteration order is unknown; a panic of the
    -- scratch-buffer write depends only on which option comes last, so look for a last element under which the model
    -- panics too (respectively does not panic)
    let tail := match wire with
      | some w => w.drop r.1.length
      | none =>
        match remaining.find? (fun k => (encodeDHCP4 b a (remaining.filter (· != k) ++ [k])).isPanic == wantPanic) with
        | some k => remaining.filter (· != k) ++ [k]
        | none => remaining
    if !isPerm tail remaining then some "bad-tail"
    else match encodeDHCP4 b a tail with
      | .ok [] => some "nil"
      | .ok p => some ("ok " ++ toHex p)
      | .panic => some "panic"
      | .err _ => some "err"
      | .hang => some "hang"
  | _, _ => none

end PV.Drv.Dhcp4Opt
